package main

import (
	"fmt"
	"go/ast"
	"go/token"
	"go/types"
	"sort"
	"strings"
)

// cfg.go — renders every non-test function of package fsnotify (Linux build) as a skeleton of the language of
// coq/theories/CfgLang.v: lock and channel operations, table / ring accesses, system calls, go statements, calls
// between these functions and the control structure around them.  What is not understood becomes SUnrecognised.

type cfgCtx struct {
	v      *pkgView
	fn     string            // name of the function being translated
	locals map[string]string // local variable bound to a function literal -> synthesized skeleton name
	extra  map[string]string // synthesized skeletons (function literals bound to locals)
	out    map[string]string
	inLit  bool // translating the body of a function literal that runs inside the caller: `return` ends the literal only
}

func coqS(s string) string { return coqSrc(s) }

func chanOf(name string) string {
	switch {
	case strings.HasSuffix(name, ".Events") || name == "Events" || name == "ev":
		return "ChEvents"
	case strings.HasSuffix(name, ".Errors") || name == "Errors" || name == "errs":
		return "ChErrors"
	case strings.HasSuffix(name, ".doneResp"):
		return "ChDoneResp"
	case strings.HasSuffix(name, ".done"):
		return "ChDone"
	}
	return "(ChOther " + coqS(name) + ")"
}

func mutexOf(name string) string {
	switch {
	case strings.HasSuffix(name, ".cookiesMu"):
		return "MuCookies"
	case strings.HasSuffix(name, ".mu"):
		return "MuMain"
	}
	return "(MuOther " + coqS(name) + ")"
}

func seq(items []string) string {
	if len(items) == 1 {
		return items[0]
	}
	return "(SSeq [" + strings.Join(items, "; ") + "])"
}

func act(a string) string { return "(SAct " + a + ")" }

// funcName: "Recv.Name" for methods, "Name" for functions
func funcObjName(f *types.Func) string {
	sig := f.Type().(*types.Signature)
	if r := sig.Recv(); r != nil {
		t := r.Type()
		if p, ok := t.(*types.Pointer); ok {
			t = p.Elem()
		}
		if n, ok := t.(*types.Named); ok {
			if _, isIface := n.Underlying().(*types.Interface); isIface && n.Obj().Name() == "backend" {
				return "inotify." + f.Name() // the Linux backend
			}
			return n.Obj().Name() + "." + f.Name()
		}
	}
	return f.Name()
}

func (c *cfgCtx) isTableSel(e ast.Expr) bool {
	sel, ok := e.(*ast.SelectorExpr)
	if !ok || (sel.Sel.Name != "wd" && sel.Sel.Name != "path") {
		return false
	}
	t := c.v.pkg.TypesInfo.TypeOf(sel.X)
	if t == nil {
		return false
	}
	if p, ok := t.(*types.Pointer); ok {
		t = p.Elem()
	}
	n, ok := t.(*types.Named)
	return ok && n.Obj().Name() == "watches"
}

func (c *cfgCtx) isRingSel(e ast.Expr) bool {
	sel, ok := e.(*ast.SelectorExpr)
	return ok && (sel.Sel.Name == "cookies" || sel.Sel.Name == "cookieIndex")
}

// expr: the effects of evaluating e, in evaluation order (arguments before the call)
func (c *cfgCtx) expr(e ast.Expr, write bool) []string {
	var out []string
	if e == nil {
		return nil
	}
	switch x := e.(type) {
	case *ast.ParenExpr:
		return c.expr(x.X, write)
	case *ast.UnaryExpr:
		out = append(out, c.expr(x.X, false)...)
		if x.Op == token.ARROW {
			out = append(out, act("(ARecv "+chanOf(c.v.src(x.X))+")"))
		}
	case *ast.BinaryExpr:
		out = append(out, c.expr(x.X, false)...)
		out = append(out, c.expr(x.Y, false)...)
	case *ast.StarExpr:
		return c.expr(x.X, write)
	case *ast.IndexExpr:
		out = append(out, c.expr(x.Index, false)...)
		out = append(out, c.expr(x.X, write)...)
	case *ast.SliceExpr:
		out = append(out, c.expr(x.X, false)...)
		out = append(out, c.expr(x.Low, false)...)
		out = append(out, c.expr(x.High, false)...)
		out = append(out, c.expr(x.Max, false)...)
	case *ast.TypeAssertExpr:
		return c.expr(x.X, false)
	case *ast.KeyValueExpr:
		out = append(out, c.expr(x.Value, false)...)
	case *ast.CompositeLit:
		for _, el := range x.Elts {
			out = append(out, c.expr(el, false)...)
		}
	case *ast.SelectorExpr:
		if c.isTableSel(x) {
			out = append(out, act(fmt.Sprintf("(ATable %v)", write)))
		} else if c.isRingSel(x) {
			out = append(out, act("ARing"))
		} else {
			out = append(out, c.expr(x.X, false)...)
		}
	case *ast.FuncLit:
		// a function literal that is only created here; where it runs is decided by the caller of expr
	case *ast.CallExpr:
		out = append(out, c.call(x)...)
	}
	return out
}

func (c *cfgCtx) call(x *ast.CallExpr) []string {
	var out []string
	info := c.v.pkg.TypesInfo
	fun := c.v.src(x.Fun)
	// builtins
	if id, ok := x.Fun.(*ast.Ident); ok {
		switch id.Name {
		case "close":
			if len(x.Args) == 1 {
				return []string{act("(AClose " + chanOf(c.v.src(x.Args[0])) + ")")}
			}
		case "delete":
			if len(x.Args) == 2 {
				out = append(out, c.expr(x.Args[1], false)...)
				out = append(out, c.expr(x.Args[0], true)...)
				return out
			}
		case "make", "len", "cap", "append", "new", "panic", "copy", "uint32", "uint8", "int", "string", "uintptr", "byte", "Op":
			for _, a := range x.Args {
				out = append(out, c.expr(a, false)...)
			}
			return out
		}
		if name, ok := c.locals[id.Name]; ok { // call of a function literal bound to a local
			for _, a := range x.Args {
				out = append(out, c.expr(a, false)...)
			}
			return append(out, "(SCall "+coqS(name)+")")
		}
	}
	// arguments first; function literals passed as arguments run zero or more times during the call
	var lits []*ast.FuncLit
	for _, a := range x.Args {
		if fl, ok := a.(*ast.FuncLit); ok {
			lits = append(lits, fl)
			continue
		}
		out = append(out, c.expr(a, false)...)
	}
	if sel, ok := x.Fun.(*ast.SelectorExpr); ok {
		out = append(out, c.expr(sel.X, false)...)
		switch {
		case sel.Sel.Name == "Lock" || sel.Sel.Name == "RLock":
			return append(out, act("(ALock "+mutexOf(c.v.src(sel.X))+")"))
		case sel.Sel.Name == "Unlock" || sel.Sel.Name == "RUnlock":
			return append(out, act("(AUnlock "+mutexOf(c.v.src(sel.X))+")"))
		case strings.HasSuffix(fun, ".inotifyFile.Read"):
			return append(out, act("AFileRead"))
		case strings.HasSuffix(fun, ".inotifyFile.Close"):
			return append(out, act("AFileClose"))
		}
		if id, ok := sel.X.(*ast.Ident); ok {
			if pn, ok := info.Uses[id].(*types.PkgName); ok {
				switch pn.Imported().Path() {
				case "golang.org/x/sys/unix":
					out = append(out, act("(ASyscall "+coqS(sel.Sel.Name)+")"))
				}
				for _, fl := range lits {
					out = append(out, "(SLoop "+seq(c.litBody(fl))+")")
				}
				return out
			}
		}
		if s, ok := info.Selections[sel]; ok {
			if f, ok := s.Obj().(*types.Func); ok && f.Pkg() != nil && f.Pkg() == c.v.pkg.Types {
				out = append(out, "(SCall "+coqS(funcObjName(f))+")")
				for _, fl := range lits {
					out = append(out, "(SLoop "+seq(c.litBody(fl))+")")
				}
				return out
			}
		}
	}
	if id, ok := x.Fun.(*ast.Ident); ok {
		if f, ok := info.Uses[id].(*types.Func); ok && f.Pkg() == c.v.pkg.Types {
			out = append(out, "(SCall "+coqS(funcObjName(f))+")")
		} else if _, ok := info.Uses[id].(*types.Var); ok {
			out = append(out, act("(AOther "+coqS("call of function value "+id.Name)+")"))
		}
	}
	if fl, ok := x.Fun.(*ast.FuncLit); ok { // immediately invoked literal
		out = append(out, c.block(fl.Body.List)...)
	}
	for _, fl := range lits {
		out = append(out, "(SLoop "+seq(c.litBody(fl))+")")
	}
	return out
}

func (c *cfgCtx) litBody(fl *ast.FuncLit) []string {
	sub := &cfgCtx{v: c.v, fn: c.fn, locals: c.locals, extra: c.extra, inLit: true}
	return sub.block(fl.Body.List)
}

func (c *cfgCtx) block(stmts []ast.Stmt) []string {
	var out []string
	for _, s := range stmts {
		out = append(out, c.stmt(s)...)
	}
	if len(out) == 0 {
		return []string{"(SSeq [])"}
	}
	return out
}

func (c *cfgCtx) stmt(s ast.Stmt) []string {
	switch x := s.(type) {
	case nil:
		return nil
	case *ast.ExprStmt:
		return c.expr(x.X, false)
	case *ast.SendStmt:
		out := c.expr(x.Value, false)
		return append(out, act("(ASend "+chanOf(c.v.src(x.Chan))+")"))
	case *ast.IncDecStmt:
		return c.expr(x.X, true)
	case *ast.AssignStmt:
		var out []string
		// a function literal bound to a local variable gets a skeleton of its own
		if len(x.Lhs) == 1 && len(x.Rhs) == 1 {
			if fl, ok := x.Rhs[0].(*ast.FuncLit); ok {
				if id, ok := x.Lhs[0].(*ast.Ident); ok {
					name := c.fn + "$" + id.Name
					c.locals[id.Name] = name
					sub := &cfgCtx{v: c.v, fn: name, locals: c.locals, extra: c.extra}
					c.extra[name] = seq(sub.block(fl.Body.List))
					return nil
				}
			}
		}
		for _, r := range x.Rhs {
			out = append(out, c.expr(r, false)...)
		}
		for _, l := range x.Lhs {
			out = append(out, c.expr(l, true)...)
		}
		return out
	case *ast.DeclStmt:
		var out []string
		if gd, ok := x.Decl.(*ast.GenDecl); ok {
			for _, sp := range gd.Specs {
				if vs, ok := sp.(*ast.ValueSpec); ok {
					for _, val := range vs.Values {
						out = append(out, c.expr(val, false)...)
					}
				}
			}
		}
		return out
	case *ast.DeferStmt:
		if fl, ok := x.Call.Fun.(*ast.FuncLit); ok {
			return []string{"(SDefer [" + strings.Join(c.block(fl.Body.List), "; ") + "])"}
		}
		return []string{"(SDefer [" + strings.Join(c.call(x.Call), "; ") + "])"}
	case *ast.GoStmt:
		info := c.v.pkg.TypesInfo
		if sel, ok := x.Call.Fun.(*ast.SelectorExpr); ok {
			if s, ok := info.Selections[sel]; ok {
				if f, ok := s.Obj().(*types.Func); ok {
					return []string{act("(AGo " + coqS(funcObjName(f)) + ")")}
				}
			}
		}
		return []string{act("(AGo " + coqS(c.v.src(x.Call.Fun)) + ")")}
	case *ast.ReturnStmt:
		var out []string
		for _, r := range x.Results {
			out = append(out, c.expr(r, false)...)
		}
		if c.inLit {
			return append(out, "SBreak")
		}
		return append(out, "SReturn")
	case *ast.BranchStmt:
		if x.Label == nil && (x.Tok == token.BREAK || x.Tok == token.CONTINUE) {
			return []string{"SBreak"}
		}
		return []string{"(SUnrecognised " + coqS(c.v.src(s)) + ")"}
	case *ast.BlockStmt:
		return c.block(x.List)
	case *ast.IfStmt:
		out := c.stmt(x.Init)
		if f := c.deadConjunct(x.Cond); f != "" {
			// the condition contains a boolean field that no live code ever sets: the branch cannot run
			elseB := "(SSeq [])"
			if x.Else != nil {
				elseB = seq(c.stmt(x.Else))
			}
			return append(out, act("(AOther "+coqS("dead branch: field "+f+" is never set by non-test code")+")"), elseB)
		}
		out = append(out, c.expr(x.Cond, false)...)
		thenB := seq(c.block(x.Body.List))
		elseB := "(SSeq [])"
		if x.Else != nil {
			elseB = seq(c.stmt(x.Else))
		}
		return append(out, "(SIf ["+thenB+"; "+elseB+"])")
	case *ast.ForStmt:
		out := c.stmt(x.Init)
		body := c.expr(x.Cond, false)
		body = append(body, c.block(x.Body.List)...)
		body = append(body, c.stmt(x.Post)...)
		return append(out, "(SLoop "+seq(body)+")")
	case *ast.RangeStmt:
		out := c.expr(x.X, false)
		return append(out, "(SLoop "+seq(c.block(x.Body.List))+")")
	case *ast.SwitchStmt:
		out := c.stmt(x.Init)
		out = append(out, c.expr(x.Tag, false)...)
		var branches []string
		hasDefault := false
		for _, cl := range x.Body.List {
			cc := cl.(*ast.CaseClause)
			if cc.List == nil {
				hasDefault = true
			}
			var b []string
			for _, e := range cc.List {
				b = append(b, c.expr(e, false)...)
			}
			b = append(b, c.block(cc.Body)...)
			branches = append(branches, seq(b))
		}
		if !hasDefault {
			branches = append(branches, "(SSeq [])")
		}
		return append(out, "(SIf ["+strings.Join(branches, "; ")+"])")
	case *ast.SelectStmt:
		var cases []string
		var branches []string
		hasDefault := false
		var polls []string
		for _, cl := range x.Body.List {
			cc := cl.(*ast.CommClause)
			if cc.Comm == nil {
				hasDefault = true
				branches = append(branches, seq(c.block(cc.Body)))
				continue
			}
			isSend, ch := false, ""
			switch cm := cc.Comm.(type) {
			case *ast.SendStmt:
				isSend, ch = true, chanOf(c.v.src(cm.Chan))
			case *ast.ExprStmt:
				if u, ok := unparen(cm.X).(*ast.UnaryExpr); ok && u.Op == token.ARROW {
					ch = chanOf(c.v.src(u.X))
				}
			case *ast.AssignStmt:
				if len(cm.Rhs) == 1 {
					if u, ok := unparen(cm.Rhs[0]).(*ast.UnaryExpr); ok && u.Op == token.ARROW {
						ch = chanOf(c.v.src(u.X))
					}
				}
			}
			if ch == "" {
				return []string{"(SUnrecognised " + coqS(c.v.src(s)) + ")"}
			}
			cases = append(cases, fmt.Sprintf("(%v, %s)", isSend, ch))
			polls = append(polls, act("(APoll "+ch+")"))
			branches = append(branches, seq(c.block(cc.Body)))
		}
		if hasDefault {
			return append(polls, "(SIf ["+strings.Join(branches, "; ")+"])")
		}
		return []string{act("(ASelect [" + strings.Join(cases, "; ") + "])"), "(SIf [" + strings.Join(branches, "; ") + "])"}
	case *ast.LabeledStmt, *ast.TypeSwitchStmt:
		return []string{"(SUnrecognised " + coqS(c.v.src(s)) + ")"}
	case *ast.EmptyStmt:
		return nil
	}
	return []string{"(SUnrecognised " + coqS(c.v.src(s)) + ")"}
}

// deadConjunct: if cond is (a conjunction containing) a boolean struct field that is never set to anything but its
// zero value by live non-test code, return the field's name.
func (c *cfgCtx) deadConjunct(cond ast.Expr) string {
	cond = unparen(cond)
	if b, ok := cond.(*ast.BinaryExpr); ok && b.Op == token.LAND {
		if f := c.deadConjunct(b.X); f != "" {
			return f
		}
		return c.deadConjunct(b.Y)
	}
	sel, ok := cond.(*ast.SelectorExpr)
	if !ok {
		return ""
	}
	s, ok := c.v.pkg.TypesInfo.Selections[sel]
	if !ok {
		return ""
	}
	fv, ok := s.Obj().(*types.Var)
	if !ok || !fv.IsField() {
		return ""
	}
	if b, ok := fv.Type().Underlying().(*types.Basic); !ok || b.Kind() != types.Bool {
		return ""
	}
	if c.v.fieldNeverSet(fv) {
		return fv.Name()
	}
	return ""
}

// fieldNeverSet: every assignment to the field (and every composite literal naming it) sits inside a top-level function
// that nothing refers to.
func (v *pkgView) fieldNeverSet(fv *types.Var) bool {
	info := v.pkg.TypesInfo
	refs := map[types.Object]int{}
	for id, obj := range info.Uses {
		_ = id
		if f, ok := obj.(*types.Func); ok {
			refs[f]++
		}
	}
	ok := true
	for _, file := range v.pkg.Syntax {
		for _, d := range file.Decls {
			fd, isF := d.(*ast.FuncDecl)
			var encl types.Object
			if isF {
				encl = info.Defs[fd.Name]
			}
			ast.Inspect(d, func(n ast.Node) bool {
				switch a := n.(type) {
				case *ast.AssignStmt:
					for _, l := range a.Lhs {
						if sel, isSel := l.(*ast.SelectorExpr); isSel {
							if s, has := info.Selections[sel]; has && s.Obj() == fv {
								if encl == nil || refs[encl] > 0 {
									ok = false
								}
							}
						}
					}
				case *ast.KeyValueExpr:
					if id, isId := a.Key.(*ast.Ident); isId && info.Uses[id] == fv {
						if encl == nil || refs[encl] > 0 {
							ok = false
						}
					}
				case *ast.UnaryExpr:
					if a.Op == token.AND {
						if sel, isSel := a.X.(*ast.SelectorExpr); isSel {
							if s, has := info.Selections[sel]; has && s.Obj() == fv {
								ok = false
							}
						}
					}
				}
				return true
			})
		}
	}
	return ok
}

func emitCfg(e *emitter, lin *pkgView) {
	e.f("(* GENERATED by /verif/xlate (cfg.go) from the current working tree of /repo — do not edit. *)\n")
	e.f("From Coq Require Import List String.\nFrom Fsn Require Import CfgLang.\nImport ListNotations.\nLocal Open Scope string_scope.\n\n")
	skel := map[string]string{}
	for _, f := range lin.pkg.Syntax {
		fname := lin.pkg.Fset.Position(f.Pos()).Filename
		if strings.HasSuffix(fname, "_test.go") {
			continue
		}
		for _, d := range f.Decls {
			fd, ok := d.(*ast.FuncDecl)
			if !ok || fd.Body == nil {
				continue
			}
			obj, ok := lin.pkg.TypesInfo.Defs[fd.Name].(*types.Func)
			if !ok {
				continue
			}
			name := funcObjName(obj)
			c := &cfgCtx{v: lin, fn: name, locals: map[string]string{}, extra: map[string]string{}}
			skel[name] = seq(c.block(fd.Body.List))
			for k, v := range c.extra {
				skel[k] = v
			}
		}
	}
	var names []string
	for k := range skel {
		names = append(names, k)
	}
	sort.Strings(names)
	e.f("Definition gen_program : program := [\n")
	for i, n := range names {
		sep := ";"
		if i == len(names)-1 {
			sep = ""
		}
		e.f("  (%s, %s)%s\n", strings.TrimSuffix(coqS(n), "%string"), skel[n], sep)
	}
	e.f("].\n")
}
