package main

func emitCfg(e *emitter, lin *pkgView) {
	e.f("(* GENERATED — control-flow skeletons: not yet emitted *)\n")
}
