// xlate — reads the current working tree of /repo (all three build
// configurations that carry flag tables) and emits Coq files under coq/gen/.
//
// Everything it does not recognise inside the functions it translates is
// emitted as an explicit *Unrecognised* constructor, which makes the
// corresponding Coq obligation fail; nothing is skipped silently.
package main

import (
	"bytes"
	"flag"
	"fmt"
	"go/ast"
	"go/constant"
	"go/printer"
	"go/token"
	"go/types"
	"os"
	"path/filepath"
	"sort"
	"strings"

	"golang.org/x/tools/go/packages"
)

type pkgView struct {
	goos string
	pkg  *packages.Package
}

func load(repo, goos string) (*pkgView, error) {
	cfg := &packages.Config{
		Mode: packages.NeedName | packages.NeedFiles | packages.NeedSyntax | packages.NeedTypes |
			packages.NeedTypesInfo | packages.NeedImports | packages.NeedDeps | packages.NeedCompiledGoFiles,
		Dir: repo,
		Env: append(os.Environ(), "GOOS="+goos, "GOARCH=amd64", "CGO_ENABLED=0",
			"GOFLAGS=-mod=mod", "GOPROXY=off", "GOSUMDB=off", "GOTOOLCHAIN=local"),
	}
	pkgs, err := packages.Load(cfg, ".")
	if err != nil {
		return nil, err
	}
	if len(pkgs) != 1 {
		return nil, fmt.Errorf("%s: %d packages", goos, len(pkgs))
	}
	if len(pkgs[0].Errors) > 0 {
		return nil, fmt.Errorf("%s: %v", goos, pkgs[0].Errors[0])
	}
	return &pkgView{goos: goos, pkg: pkgs[0]}, nil
}

func (v *pkgView) src(n ast.Node) string {
	var b bytes.Buffer
	printer.Fprint(&b, v.pkg.Fset, n)
	return b.String()
}

// findFunc returns the declaration of method recv.name (recv "" = plain function).
func (v *pkgView) findFunc(recv, name string) *ast.FuncDecl {
	for _, f := range v.pkg.Syntax {
		for _, d := range f.Decls {
			fd, ok := d.(*ast.FuncDecl)
			if !ok || fd.Name.Name != name {
				continue
			}
			r := ""
			if fd.Recv != nil && len(fd.Recv.List) == 1 {
				t := fd.Recv.List[0].Type
				if s, ok := t.(*ast.StarExpr); ok {
					t = s.X
				}
				if id, ok := t.(*ast.Ident); ok {
					r = id.Name
				}
			}
			if r == recv {
				return fd
			}
		}
	}
	return nil
}

func (v *pkgView) constVal(e ast.Expr) (uint64, bool) {
	tv, ok := v.pkg.TypesInfo.Types[e]
	if !ok || tv.Value == nil {
		return 0, false
	}
	if tv.Value.Kind() != constant.Int {
		return 0, false
	}
	u, ok := constant.Uint64Val(tv.Value)
	if !ok {
		i, ok2 := constant.Int64Val(tv.Value)
		if !ok2 {
			return 0, false
		}
		return uint64(i), true
	}
	return u, true
}

func (v *pkgView) constByName(name string) (uint64, bool) {
	obj := v.pkg.Types.Scope().Lookup(name)
	c, ok := obj.(*types.Const)
	if !ok {
		return 0, false
	}
	u, ok := constant.Uint64Val(c.Val())
	return u, ok
}

func unparen(e ast.Expr) ast.Expr {
	for {
		p, ok := e.(*ast.ParenExpr)
		if !ok {
			return e
		}
		e = p.X
	}
}

func coqStr(s string) string {
	// emitted as a byte list so that any byte is representable
	var parts []string
	for _, b := range []byte(s) {
		parts = append(parts, fmt.Sprintf("%d", b))
	}
	return "(bytes_to_string [" + strings.Join(parts, "; ") + "])"
}

func coqSrc(s string) string { // for Unrecognised payloads: keep it printable
	s = strings.ReplaceAll(s, "\"", "'")
	s = strings.ReplaceAll(s, "\n", " ")
	s = strings.ReplaceAll(s, "\t", " ")
	var b strings.Builder
	for _, r := range s {
		if r < 32 || r > 126 {
			b.WriteByte('?')
		} else {
			b.WriteRune(r)
		}
	}
	out := b.String()
	if len(out) > 160 {
		out = out[:160]
	}
	return "\"" + out + "\"%string"
}

// ---------------------------------------------------------------- conditions

type condCtx struct {
	v        *pkgView
	subjects map[string]bool   // printed forms of the word being tested (e.g. "mask", "with.op")
	boolBits map[string]uint64 // printed forms of boolean inputs mapped to a pseudo-bit (e.g. "with.noFollow")
	hasShape string            // "HAndNe0" | "HAndEqH" | other
}

func (c *condCtx) cond(e ast.Expr) string {
	e = unparen(e)
	switch x := e.(type) {
	case *ast.BinaryExpr:
		switch x.Op {
		case token.LOR:
			return "(COr " + c.cond(x.X) + " " + c.cond(x.Y) + ")"
		case token.LAND:
			return "(CAnd " + c.cond(x.X) + " " + c.cond(x.Y) + ")"
		case token.EQL, token.NEQ:
			l, ok := unparen(x.X).(*ast.BinaryExpr)
			if ok && l.Op == token.AND && c.subjects[c.v.src(l.X)] {
				k, okk := c.v.constVal(l.Y)
				r, okr := c.v.constVal(x.Y)
				if okk && okr {
					switch {
					case x.Op == token.EQL && r == k:
						return fmt.Sprintf("(AllSet %d)", k)
					case x.Op == token.NEQ && r == 0:
						return fmt.Sprintf("(AnySet %d)", k)
					case x.Op == token.EQL && r == 0:
						return fmt.Sprintf("(CNot (AnySet %d))", k)
					case x.Op == token.NEQ && r == k:
						return fmt.Sprintf("(CNot (AllSet %d))", k)
					}
				}
			}
		}
	case *ast.UnaryExpr:
		if x.Op == token.NOT {
			return "(CNot " + c.cond(x.X) + ")"
		}
	case *ast.CallExpr:
		if sel, ok := x.Fun.(*ast.SelectorExpr); ok && sel.Sel.Name == "Has" && len(x.Args) == 1 &&
			c.subjects[c.v.src(sel.X)] {
			if k, ok := c.v.constVal(x.Args[0]); ok {
				switch c.hasShape {
				case "HAndNe0":
					return fmt.Sprintf("(AnySet %d)", k)
				case "HAndEqH":
					return fmt.Sprintf("(AllSet %d)", k)
				}
			}
		}
	case *ast.SelectorExpr, *ast.Ident:
		if bit, ok := c.boolBits[c.v.src(e)]; ok {
			return fmt.Sprintf("(AnySet %d)", bit)
		}
		if id, ok := e.(*ast.Ident); ok {
			if id.Name == "true" {
				return "CTrue"
			}
			if id.Name == "false" {
				return "CFalse"
			}
		}
	}
	return "(CUnrecognised " + coqSrc(c.v.src(e)) + ")"
}

// assignsTo reports whether stmt (recursively) contains an assignment / inc-dec whose
// left-hand side prints as target.
func (v *pkgView) assignsTo(n ast.Node, target string) bool {
	found := false
	ast.Inspect(n, func(m ast.Node) bool {
		switch a := m.(type) {
		case *ast.AssignStmt:
			for _, l := range a.Lhs {
				if v.src(l) == target {
					found = true
				}
			}
		case *ast.IncDecStmt:
			if v.src(a.X) == target {
				found = true
			}
		}
		return true
	})
	return found
}

// table translates a statement list of the shape
//
//	if COND { target |= CONST }  ...  if COND(target) { target &^= CONST }
//
// Statements that do not assign to target are not part of the table.
func (v *pkgView) table(stmts []ast.Stmt, target string, in *condCtx, hasShape string) (rows, posts []string) {
	postCtx := &condCtx{v: v, subjects: map[string]bool{target: true}, hasShape: hasShape}
	for _, s := range stmts {
		if !v.assignsTo(s, target) {
			continue
		}
		// declarations with zero value
		if as, ok := s.(*ast.AssignStmt); ok && as.Tok == token.DEFINE {
			// e := Event{Name: name}: accepted when the composite literal does not set Op
			if len(as.Rhs) == 1 {
				if cl, ok := as.Rhs[0].(*ast.CompositeLit); ok {
					setsOp := false
					for _, el := range cl.Elts {
						if kv, ok := el.(*ast.KeyValueExpr); ok && v.src(kv.Key) == "Op" {
							setsOp = true
						}
					}
					if !setsOp {
						continue
					}
				}
			}
			rows = append(rows, "RUnrecognised "+coqSrc(v.src(s)))
			continue
		}
		ifs, ok := s.(*ast.IfStmt)
		if !ok || ifs.Init != nil || ifs.Else != nil || len(ifs.Body.List) != 1 {
			rows = append(rows, "RUnrecognised "+coqSrc(v.src(s)))
			continue
		}
		as, ok := ifs.Body.List[0].(*ast.AssignStmt)
		if !ok || len(as.Lhs) != 1 || len(as.Rhs) != 1 || v.src(as.Lhs[0]) != target {
			rows = append(rows, "RUnrecognised "+coqSrc(v.src(s)))
			continue
		}
		k, okk := v.constVal(as.Rhs[0])
		switch {
		case as.Tok == token.OR_ASSIGN && okk:
			if len(posts) > 0 { // an OR after a clear: order matters, not representable
				rows = append(rows, "RUnrecognised "+coqSrc(v.src(s)))
				continue
			}
			rows = append(rows, fmt.Sprintf("ROr %s %d", in.cond(ifs.Cond), k))
		case as.Tok == token.AND_NOT_ASSIGN && okk:
			posts = append(posts, fmt.Sprintf("PClear %s %d", postCtx.cond(ifs.Cond), k))
		default:
			rows = append(rows, "RUnrecognised "+coqSrc(v.src(s)))
		}
	}
	return
}

func list(items []string) string {
	if len(items) == 0 {
		return "[]"
	}
	return "[\n    " + strings.Join(items, ";\n    ") + "\n  ]"
}

// ---------------------------------------------------------------- Has / String

func (v *pkgView) hasShapeOf() (string, string) {
	fd := v.findFunc("Op", "Has")
	if fd == nil || fd.Recv == nil || len(fd.Recv.List[0].Names) != 1 || len(fd.Type.Params.List) != 1 ||
		len(fd.Type.Params.List[0].Names) != 1 || len(fd.Body.List) != 1 {
		return "other", "HUnrecognised \"Op.Has not found or not a single return\"%string"
	}
	o := fd.Recv.List[0].Names[0].Name
	h := fd.Type.Params.List[0].Names[0].Name
	ret, ok := fd.Body.List[0].(*ast.ReturnStmt)
	if ok && len(ret.Results) == 1 {
		if b, ok := unparen(ret.Results[0]).(*ast.BinaryExpr); ok {
			if l, ok := unparen(b.X).(*ast.BinaryExpr); ok && l.Op == token.AND {
				lx, ly := v.src(l.X), v.src(l.Y)
				if (lx == o && ly == h) || (lx == h && ly == o) {
					if b.Op == token.NEQ && v.src(b.Y) == "0" {
						return "HAndNe0", "HAndNe0"
					}
					if b.Op == token.EQL && v.src(b.Y) == h {
						return "HAndEqH", "HAndEqH"
					}
				}
			}
		}
	}
	return "other", "HUnrecognised " + coqSrc(v.src(fd.Body))
}

type nameRow struct {
	bit  uint64
	text string
}

// opString translates Op.String: rows (bit, appended text), empty text, strip count.
func (v *pkgView) opString(hasShape string) (rows []nameRow, empty string, strip int, problems []string) {
	fd := v.findFunc("Op", "String")
	if fd == nil {
		return nil, "", 0, []string{"Op.String not found"}
	}
	recv := fd.Recv.List[0].Names[0].Name
	builder := ""
	strip = -1
	for _, s := range fd.Body.List {
		switch x := s.(type) {
		case *ast.DeclStmt:
			// var b strings.Builder
			gd, ok := x.Decl.(*ast.GenDecl)
			if ok && len(gd.Specs) == 1 {
				if vs, ok := gd.Specs[0].(*ast.ValueSpec); ok && len(vs.Names) == 1 && v.src(vs.Type) == "strings.Builder" && len(vs.Values) == 0 {
					builder = vs.Names[0].Name
					continue
				}
			}
			problems = append(problems, v.src(s))
		case *ast.IfStmt:
			if x.Init != nil || x.Else != nil || len(x.Body.List) != 1 {
				problems = append(problems, v.src(s))
				continue
			}
			// if o.Has(X) { b.WriteString("...") }
			if call, ok := x.Cond.(*ast.CallExpr); ok {
				sel, ok := call.Fun.(*ast.SelectorExpr)
				if ok && sel.Sel.Name == "Has" && v.src(sel.X) == recv && len(call.Args) == 1 && hasShape == "HAndNe0" {
					bit, okb := v.constVal(call.Args[0])
					es, oke := x.Body.List[0].(*ast.ExprStmt)
					if okb && oke {
						if wc, ok := es.X.(*ast.CallExpr); ok && v.src(wc.Fun) == builder+".WriteString" && len(wc.Args) == 1 {
							if tv, ok := v.pkg.TypesInfo.Types[wc.Args[0]]; ok && tv.Value != nil && tv.Value.Kind() == constant.String {
								rows = append(rows, nameRow{bit, constant.StringVal(tv.Value)})
								continue
							}
						}
					}
				}
			}
			// if b.Len() == 0 { return "..." }
			if v.src(x.Cond) == builder+".Len() == 0" {
				if ret, ok := x.Body.List[0].(*ast.ReturnStmt); ok && len(ret.Results) == 1 {
					if tv, ok := v.pkg.TypesInfo.Types[ret.Results[0]]; ok && tv.Value != nil && tv.Value.Kind() == constant.String {
						empty = constant.StringVal(tv.Value)
						continue
					}
				}
			}
			problems = append(problems, v.src(s))
		case *ast.RangeStmt:
			// table-driven form: for _, n := range TABLE { if o.Has(n.F) { b.WriteString("SEP"); b.WriteString(n.G) } }
			// with TABLE a package-level array/slice literal of struct literals whose fields are constants
			if r, ok := v.opStringTableLoop(x, recv, builder, hasShape); ok {
				rows = append(rows, r...)
				continue
			}
			problems = append(problems, v.src(s))
		case *ast.ReturnStmt:
			// return b.String()[N:]
			if len(x.Results) == 1 {
				if sl, ok := x.Results[0].(*ast.SliceExpr); ok && v.src(sl.X) == builder+".String()" && sl.High == nil && sl.Low != nil {
					if n, ok := v.constVal(sl.Low); ok {
						strip = int(n)
						continue
					}
				}
				if v.src(x.Results[0]) == builder+".String()" {
					strip = 0
					continue
				}
			}
			problems = append(problems, v.src(s))
		default:
			problems = append(problems, v.src(s))
		}
	}
	if strip < 0 {
		problems = append(problems, "no final return of the builder found")
		strip = 0
	}
	return
}

// opStringTableLoop recognises the table-driven spelling of Op.String's body (see opString).
func (v *pkgView) opStringTableLoop(x *ast.RangeStmt, recv, builder, hasShape string) ([]nameRow, bool) {
	if hasShape != "HAndNe0" || x.Value == nil || len(x.Body.List) != 1 {
		return nil, false
	}
	if k, ok := x.Key.(*ast.Ident); !ok || k.Name != "_" {
		return nil, false
	}
	elem, ok := x.Value.(*ast.Ident)
	if !ok {
		return nil, false
	}
	ifs, ok := x.Body.List[0].(*ast.IfStmt)
	if !ok || ifs.Init != nil || ifs.Else != nil {
		return nil, false
	}
	call, ok := ifs.Cond.(*ast.CallExpr)
	if !ok || len(call.Args) != 1 {
		return nil, false
	}
	sel, ok := call.Fun.(*ast.SelectorExpr)
	if !ok || sel.Sel.Name != "Has" || v.src(sel.X) != recv {
		return nil, false
	}
	opSel, ok := call.Args[0].(*ast.SelectorExpr)
	if !ok || v.src(opSel.X) != elem.Name {
		return nil, false
	}
	opField := opSel.Sel.Name
	// body: WriteString of constants and of exactly one n.G, in order
	prefix, nameField, suffix := "", "", ""
	for _, st := range ifs.Body.List {
		es, ok := st.(*ast.ExprStmt)
		if !ok {
			return nil, false
		}
		wc, ok := es.X.(*ast.CallExpr)
		if !ok || v.src(wc.Fun) != builder+".WriteString" || len(wc.Args) != 1 {
			return nil, false
		}
		if tv, ok := v.pkg.TypesInfo.Types[wc.Args[0]]; ok && tv.Value != nil && tv.Value.Kind() == constant.String {
			if nameField == "" {
				prefix += constant.StringVal(tv.Value)
			} else {
				suffix += constant.StringVal(tv.Value)
			}
			continue
		}
		fs, ok := wc.Args[0].(*ast.SelectorExpr)
		if !ok || v.src(fs.X) != elem.Name || nameField != "" {
			return nil, false
		}
		nameField = fs.Sel.Name
	}
	if nameField == "" {
		return nil, false
	}
	// the table: a package-level variable initialised by a composite literal, never assigned elsewhere
	tid, ok := x.X.(*ast.Ident)
	if !ok {
		return nil, false
	}
	var lit *ast.CompositeLit
	assigned := false
	for _, f := range v.pkg.Syntax {
		ast.Inspect(f, func(n ast.Node) bool {
			switch y := n.(type) {
			case *ast.ValueSpec:
				for i, nm := range y.Names {
					if nm.Name == tid.Name && v.pkg.TypesInfo.Defs[nm] == v.pkg.TypesInfo.Uses[tid] && i < len(y.Values) {
						if cl, ok := y.Values[i].(*ast.CompositeLit); ok {
							lit = cl
						}
					}
				}
			case *ast.AssignStmt:
				for _, l := range y.Lhs {
					if strings.HasPrefix(v.src(l), tid.Name+"[") || v.src(l) == tid.Name {
						if id := rootIdent(l); id != nil && v.pkg.TypesInfo.Uses[id] == v.pkg.TypesInfo.Uses[tid] {
							assigned = true
						}
					}
				}
			}
			return true
		})
	}
	if lit == nil || assigned {
		return nil, false
	}
	st, ok := v.pkg.TypesInfo.Types[lit].Type.Underlying().(interface{ Elem() types.Type })
	if !ok {
		return nil, false
	}
	stt, ok := st.Elem().Underlying().(*types.Struct)
	if !ok {
		return nil, false
	}
	fieldIdx := func(name string) int {
		for i := 0; i < stt.NumFields(); i++ {
			if stt.Field(i).Name() == name {
				return i
			}
		}
		return -1
	}
	oi, ni := fieldIdx(opField), fieldIdx(nameField)
	if oi < 0 || ni < 0 {
		return nil, false
	}
	var rows []nameRow
	for _, e := range lit.Elts {
		cl, ok := e.(*ast.CompositeLit)
		if !ok {
			return nil, false
		}
		var opE, nameE ast.Expr
		for i, fe := range cl.Elts {
			if kv, ok := fe.(*ast.KeyValueExpr); ok {
				if id, ok := kv.Key.(*ast.Ident); ok {
					if id.Name == opField {
						opE = kv.Value
					} else if id.Name == nameField {
						nameE = kv.Value
					}
				}
			} else {
				if i == oi {
					opE = fe
				}
				if i == ni {
					nameE = fe
				}
			}
		}
		if opE == nil || nameE == nil {
			return nil, false
		}
		bit, okb := v.constVal(opE)
		tv, okn := v.pkg.TypesInfo.Types[nameE]
		if !okb || !okn || tv.Value == nil || tv.Value.Kind() != constant.String {
			return nil, false
		}
		rows = append(rows, nameRow{bit, prefix + constant.StringVal(tv.Value) + suffix})
	}
	return rows, true
}

func rootIdent(e ast.Expr) *ast.Ident {
	for {
		switch x := e.(type) {
		case *ast.Ident:
			return x
		case *ast.IndexExpr:
			e = x.X
		case *ast.SelectorExpr:
			e = x.X
		case *ast.ParenExpr:
			e = x.X
		default:
			return nil
		}
	}
}

// ---------------------------------------------------------------- emit

type emitter struct{ b strings.Builder }

func (e *emitter) f(format string, a ...interface{}) { fmt.Fprintf(&e.b, format, a...) }

const header = `(* GENERATED by /verif/xlate from the current working tree of /repo — do not edit. *)
From Coq Require Import NArith ZArith List String.
From Fsn Require Import Bits Tables Names.
Import ListNotations.
Local Open Scope N_scope.

`

func funcBody(fd *ast.FuncDecl) []ast.Stmt {
	if fd == nil || fd.Body == nil {
		return nil
	}
	return fd.Body.List
}

func (v *pkgView) paramName(fd *ast.FuncDecl, idx int) string {
	i := 0
	for _, f := range fd.Type.Params.List {
		for _, n := range f.Names {
			if i == idx {
				return n.Name
			}
			i++
		}
	}
	return ""
}

// xSupports body → condition over the op argument under which it returns true.
func (v *pkgView) supportsCond(recv string, hasShape string) string {
	fd := v.findFunc(recv, "xSupports")
	if fd == nil {
		return "(CUnrecognised \"xSupports not found\"%string)"
	}
	op := v.paramName(fd, 0)
	ctx := &condCtx{v: v, subjects: map[string]bool{op: true}, hasShape: hasShape}
	var stmts []ast.Stmt
	for _, s := range fd.Body.List {
		stmts = append(stmts, s)
	}
	// shapes: `return true`  |  `if C { return false }; return true`
	if len(stmts) == 1 {
		if r, ok := stmts[0].(*ast.ReturnStmt); ok && len(r.Results) == 1 {
			return ctx.cond(r.Results[0])
		}
	}
	if len(stmts) == 2 {
		ifs, ok1 := stmts[0].(*ast.IfStmt)
		r, ok2 := stmts[1].(*ast.ReturnStmt)
		if ok1 && ok2 && ifs.Else == nil && ifs.Init == nil && len(ifs.Body.List) == 1 && len(r.Results) == 1 {
			if r1, ok := ifs.Body.List[0].(*ast.ReturnStmt); ok && len(r1.Results) == 1 &&
				v.src(r1.Results[0]) == "false" && v.src(r.Results[0]) == "true" {
				return "(CNot " + ctx.cond(ifs.Cond) + ")"
			}
		}
	}
	return "(CUnrecognised " + coqSrc(v.src(fd.Body)) + ")"
}

func (v *pkgView) switchOf(recv, name string) string {
	fd := v.findFunc(recv, name)
	if fd == nil {
		return "{| sw_cases := []; sw_default := 0; sw_ok := false |}"
	}
	arg := v.paramName(fd, 0)
	ok := true
	var cases []string
	def := uint64(0)
	seenDefault := false
	body := fd.Body.List
	// the single-exit spelling: var r T; switch x { case K: r = V … }; return r   (r starts at the zero value)
	resVar := ""
	if len(body) == 3 {
		if ds, okd := body[0].(*ast.DeclStmt); okd {
			if gd, okg := ds.Decl.(*ast.GenDecl); okg && len(gd.Specs) == 1 {
				if vs, okv := gd.Specs[0].(*ast.ValueSpec); okv && len(vs.Names) == 1 && len(vs.Values) == 0 {
					if ret, okr := body[2].(*ast.ReturnStmt); okr && len(ret.Results) == 1 && v.src(ret.Results[0]) == vs.Names[0].Name {
						resVar = vs.Names[0].Name
						body = body[1:2]
					}
				}
			}
		}
	}
	if resVar != "" {
		sw, oks := body[0].(*ast.SwitchStmt)
		if !oks || sw.Init != nil || v.src(sw.Tag) != arg {
			ok = false
		} else {
			for _, c := range sw.Body.List {
				cc := c.(*ast.CaseClause)
				if cc.List == nil || len(cc.Body) != 1 {
					ok = false
					continue
				}
				as, oka := cc.Body[0].(*ast.AssignStmt)
				if !oka || as.Tok != token.ASSIGN || len(as.Lhs) != 1 || len(as.Rhs) != 1 || v.src(as.Lhs[0]) != resVar {
					ok = false
					continue
				}
				val, okv := v.constVal(as.Rhs[0])
				if !okv {
					ok = false
					continue
				}
				for _, k := range cc.List {
					kv, okk := v.constVal(k)
					if !okk {
						ok = false
						continue
					}
					cases = append(cases, fmt.Sprintf("(%d, %d)", kv, val))
				}
			}
		}
	} else if len(fd.Body.List) != 2 {
		ok = false
	} else {
		sw, oks := fd.Body.List[0].(*ast.SwitchStmt)
		ret, okr := fd.Body.List[1].(*ast.ReturnStmt)
		if !oks || !okr || sw.Init != nil || v.src(sw.Tag) != arg || len(ret.Results) != 1 {
			ok = false
		} else {
			d, okd := v.constVal(ret.Results[0])
			if !okd {
				ok = false
			}
			def = d
			for _, c := range sw.Body.List {
				cc := c.(*ast.CaseClause)
				if cc.List == nil {
					seenDefault = true
					ok = false
					continue
				}
				if len(cc.Body) != 1 {
					ok = false
					continue
				}
				r, okr := cc.Body[0].(*ast.ReturnStmt)
				if !okr || len(r.Results) != 1 {
					ok = false
					continue
				}
				val, okv := v.constVal(r.Results[0])
				if !okv {
					ok = false
					continue
				}
				for _, k := range cc.List {
					kv, okk := v.constVal(k)
					if !okk {
						ok = false
						continue
					}
					cases = append(cases, fmt.Sprintf("(%d, %d)", kv, val))
				}
			}
		}
	}
	_ = seenDefault
	return fmt.Sprintf("{| sw_cases := %s; sw_default := %d; sw_ok := %v |}", list(cases), def, ok)
}

// retIdent: the identifier a function returns at its end ("e" in `return e`), or def
func retIdent(fd *ast.FuncDecl, def string) string {
	if b := funcBody(fd); len(b) > 0 {
		if ret, ok := b[len(b)-1].(*ast.ReturnStmt); ok && len(ret.Results) == 1 {
			if id, ok := ret.Results[0].(*ast.Ident); ok {
				return id.Name
			}
		}
	}
	return def
}

func must(err error) {
	if err != nil {
		fmt.Fprintln(os.Stderr, "xlate:", err)
		os.Exit(2)
	}
}

func main() {
	repo := flag.String("repo", "/repo", "repository working tree")
	out := flag.String("out", "coq/gen", "output directory")
	what := flag.String("what", "tables,names,consts,cfg", "comma-separated: tables,names,consts,cfg")
	goout := flag.String("goout", "", "write the Linux-compilable copy of the foreign table functions to this file")
	flag.Parse()
	must(os.MkdirAll(*out, 0o755))

	lin, err := load(*repo, "linux")
	must(err)
	bsd, err := load(*repo, "freebsd")
	must(err)
	win, err := load(*repo, "windows")
	must(err)
	sol, err := load(*repo, "solaris")
	must(err)

	want := map[string]bool{}
	for _, w := range strings.Split(*what, ",") {
		want[w] = true
	}

	hasShape, hasCoq := lin.hasShapeOf()

	if want["names"] {
		var e emitter
		e.f("%s", header)
		e.f("Definition gen_has : hasexpr := %s.\n\n", hasCoq)
		// Event.Has
		evHas := "false"
		if fd := lin.findFunc("Event", "Has"); fd != nil && len(fd.Body.List) == 1 {
			r := lin.findFunc("Event", "Has").Recv.List[0].Names[0].Name
			a := lin.paramName(fd, 0)
			if lin.src(fd.Body.List[0]) == fmt.Sprintf("return %s.Op.Has(%s)", r, a) {
				evHas = "true"
			}
		}
		e.f("(* Event.Has is `return e.Op.Has(op)` *)\nDefinition gen_event_has_delegates : bool := %s.\n\n", evHas)
		rows, empty, strip, problems := lin.opString(hasShape)
		var rs []string
		for _, r := range rows {
			rs = append(rs, fmt.Sprintf("(%d, %s)", r.bit, coqStr(r.text)))
		}
		e.f("Definition gen_string_rows : names := %s.\n", list(rs))
		e.f("Definition gen_string_empty : string := %s.\n", coqStr(empty))
		e.f("Definition gen_string_strip : nat := %d.\n", strip)
		var ps []string
		for _, p := range problems {
			ps = append(ps, coqSrc(p))
		}
		e.f("Definition gen_string_unrecognised : list string := %s.\n\n", list(ps))
		// Event.String: the two format strings, their arguments and the branch condition
		fmtPlain, fmtRen, argsPlain, argsRen, cond := lin.eventString()
		e.f("Definition gen_event_fmt_plain : string := %s.\n", coqStr(fmtPlain))
		e.f("Definition gen_event_fmt_renamed : string := %s.\n", coqStr(fmtRen))
		e.f("Definition gen_event_args_plain : string := %s.\n", coqStr(argsPlain))
		e.f("Definition gen_event_args_renamed : string := %s.\n", coqStr(argsRen))
		e.f("Definition gen_event_cond : string := %s.\n", coqStr(cond))
		// Op constants
		for _, n := range []string{"Create", "Write", "Remove", "Rename", "Chmod", "xUnportableOpen", "xUnportableRead", "xUnportableCloseWrite", "xUnportableCloseRead"} {
			val, _ := lin.constByName(n)
			e.f("Definition gen_op_%s : N := %d.\n", n, val)
		}
		must(os.WriteFile(filepath.Join(*out, "GenNames.v"), []byte(e.b.String()), 0o644))
	}

	if want["tables"] {
		var e emitter
		e.f("%s", header)
		emitTable := func(name string, rows, posts []string) {
			e.f("Definition %s_tbl : table := %s.\n", name, list(rows))
			e.f("Definition %s_post : list post := %s.\n\n", name, list(posts))
		}
		// inotify newEvent(name, mask, cookie)
		if fd := lin.findFunc("inotify", "newEvent"); fd != nil {
			mask := lin.paramName(fd, 1)
			rows, posts := lin.table(funcBody(fd), retIdent(fd, "e")+".Op", &condCtx{v: lin, subjects: map[string]bool{mask: true}, hasShape: hasShape}, hasShape)
			emitTable("inotify_newEvent", rows, posts)
		} else {
			emitTable("inotify_newEvent", []string{"RUnrecognised \"inotify.newEvent not found\"%string"}, nil)
		}
		// inotify request table: the closure `add` inside AddWith
		{
			rows := []string{"RUnrecognised \"closure add not found in inotify.AddWith\"%string"}
			var posts []string
			if fd := lin.findFunc("inotify", "AddWith"); fd != nil {
				ast.Inspect(fd.Body, func(n ast.Node) bool {
					as, ok := n.(*ast.AssignStmt)
					if !ok || len(as.Lhs) != 1 || len(as.Rhs) != 1 || lin.src(as.Lhs[0]) != "add" {
						return true
					}
					fl, ok := as.Rhs[0].(*ast.FuncLit)
					if !ok {
						return true
					}
					with := ""
					i := 0
					for _, f := range fl.Type.Params.List {
						for _, nm := range f.Names {
							if i == 1 {
								with = nm.Name
							}
							i++
						}
					}
					ctx := &condCtx{v: lin, subjects: map[string]bool{with + ".op": true},
						boolBits: map[string]uint64{with + ".noFollow": 1 << 32}, hasShape: hasShape}
					rows, posts = lin.table(fl.Body.List, "flags", ctx, hasShape)
					// the closure must end in `return w.register(path, flags, recurse)`
					last := fl.Body.List[len(fl.Body.List)-1]
					if r, ok := last.(*ast.ReturnStmt); !ok || len(r.Results) != 1 || !strings.Contains(lin.src(r.Results[0]), ".register(") ||
						!strings.Contains(lin.src(r.Results[0]), "flags") {
						rows = append(rows, "RUnrecognised "+coqSrc(lin.src(last)))
					}
					return false
				})
			}
			emitTable("inotify_request", rows, posts)
		}
		e.f("Definition inotify_supports : cond := %s.\n\n", lin.supportsCond("inotify", hasShape))
		if dv, ok := lin.varInit("defaultOpts", "op"); ok {
			e.f("Definition gen_default_ops : N := %d.\n\n", dv)
		} else {
			e.f("Definition gen_default_ops : N := 0. (* not found *)\n\n")
		}

		// kqueue newEvent(name, linkName, mask)
		if fd := bsd.findFunc("kqueue", "newEvent"); fd != nil {
			mask := bsd.paramName(fd, 2)
			rows, posts := bsd.table(funcBody(fd), retIdent(fd, "e")+".Op", &condCtx{v: bsd, subjects: map[string]bool{mask: true}, hasShape: hasShape}, hasShape)
			emitTable("kqueue_newEvent", rows, posts)
		} else {
			emitTable("kqueue_newEvent", []string{"RUnrecognised \"kqueue.newEvent not found\"%string"}, nil)
		}
		nae, _ := bsd.constByName("noteAllEvents")
		e.f("Definition kqueue_noteAllEvents : N := %d.\n", nae)
		e.f("Definition kqueue_AddWith_flags_is_noteAllEvents : bool := %v.\n", bsd.kqueueAddWithUsesNoteAll())
		e.f("Definition kqueue_supports : cond := %s.\n\n", bsd.supportsCond("kqueue", hasShape))

		// windows
		if fd := win.findFunc("readDirChangesW", "newEvent"); fd != nil {
			mask := win.paramName(fd, 1)
			rows, posts := win.table(funcBody(fd), retIdent(fd, "e")+".Op", &condCtx{v: win, subjects: map[string]bool{mask: true}, hasShape: hasShape}, hasShape)
			emitTable("windows_newEvent", rows, posts)
		} else {
			emitTable("windows_newEvent", []string{"RUnrecognised \"readDirChangesW.newEvent not found\"%string"}, nil)
		}
		if fd := win.findFunc("readDirChangesW", "toWindowsFlags"); fd != nil {
			mask := win.paramName(fd, 0)
			acc := "m" // the accumulator is whatever the function returns at its end
			if b := funcBody(fd); len(b) > 0 {
				if ret, ok := b[len(b)-1].(*ast.ReturnStmt); ok && len(ret.Results) == 1 {
					if id, ok := ret.Results[0].(*ast.Ident); ok {
						acc = id.Name
					}
				}
			}
			rows, posts := win.table(funcBody(fd), acc, &condCtx{v: win, subjects: map[string]bool{mask: true}, hasShape: hasShape}, hasShape)
			emitTable("windows_toWindowsFlags", rows, posts)
		} else {
			emitTable("windows_toWindowsFlags", []string{"RUnrecognised \"toWindowsFlags not found\"%string"}, nil)
		}
		e.f("Definition windows_toFSnotifyFlags_sw : switch := %s.\n", win.switchOf("readDirChangesW", "toFSnotifyFlags"))
		all, _ := win.constByName("sysFSALLEVENTS")
		e.f("Definition windows_sysFSALLEVENTS : N := %d.\n", all)
		e.f("Definition windows_AddWith_flags_is_ALLEVENTS : bool := %v.\n", win.windowsAddWithUsesAll())
		e.f("Definition windows_supports : cond := %s.\n\n", win.supportsCond("readDirChangesW", hasShape))
		e.f("Definition fen_supports : cond := %s.\n", sol.supportsCond("fen", hasShape))
		must(os.WriteFile(filepath.Join(*out, "GenTables.v"), []byte(e.b.String()), 0o644))
	}

	if *goout != "" {
		src, err := emitForeign(lin, bsd, win)
		if err != nil {
			src = "package main\n\nimport \"fmt\"\n\nfunc main() { fmt.Println(\"FOREIGN-ERROR " + strings.ReplaceAll(err.Error(), "\"", "'") + "\") }\n"
		}
		must(os.MkdirAll(filepath.Dir(*goout), 0o755))
		must(os.WriteFile(*goout, []byte(src), 0o644))
	}

	if want["consts"] {
		var e emitter
		e.f("%s", header)
		emitConsts(&e, lin, bsd, win, sol)
		must(os.WriteFile(filepath.Join(*out, "GenConsts.v"), []byte(e.b.String()), 0o644))
	}

	if want["cfg"] {
		var e emitter
		emitCfg(&e, lin)
		must(os.WriteFile(filepath.Join(*out, "GenCfg.v"), []byte(e.b.String()), 0o644))
	}
}

// varInit finds `var name = T{..., field: CONST, ...}` and returns CONST.
func (v *pkgView) varInit(name, field string) (uint64, bool) {
	for _, f := range v.pkg.Syntax {
		for _, d := range f.Decls {
			gd, ok := d.(*ast.GenDecl)
			if !ok || gd.Tok != token.VAR {
				continue
			}
			for _, s := range gd.Specs {
				vs := s.(*ast.ValueSpec)
				for i, n := range vs.Names {
					if n.Name != name || i >= len(vs.Values) {
						continue
					}
					if cl, ok := vs.Values[i].(*ast.CompositeLit); ok {
						for _, el := range cl.Elts {
							if kv, ok := el.(*ast.KeyValueExpr); ok && v.src(kv.Key) == field {
								return v.constVal(kv.Value)
							}
						}
					}
				}
			}
		}
	}
	return 0, false
}

func (v *pkgView) kqueueAddWithUsesNoteAll() bool {
	fd := v.findFunc("kqueue", "AddWith")
	if fd == nil {
		return false
	}
	found := false
	ast.Inspect(fd.Body, func(n ast.Node) bool {
		if c, ok := n.(*ast.CallExpr); ok && strings.HasSuffix(v.src(c.Fun), ".addWatch") && len(c.Args) == 3 {
			if v.src(c.Args[1]) == "noteAllEvents" {
				found = true
			}
		}
		return true
	})
	return found
}

func (v *pkgView) windowsAddWithUsesAll() bool {
	fd := v.findFunc("readDirChangesW", "AddWith")
	if fd == nil {
		return false
	}
	found := false
	ast.Inspect(fd.Body, func(n ast.Node) bool {
		if kv, ok := n.(*ast.KeyValueExpr); ok && v.src(kv.Key) == "flags" && v.src(kv.Value) == "sysFSALLEVENTS" {
			found = true
		}
		return true
	})
	return found
}

func (v *pkgView) eventString() (fmtPlain, fmtRen, argsPlain, argsRen, cond string) {
	fd := v.findFunc("Event", "String")
	if fd == nil {
		return
	}
	recv := fd.Recv.List[0].Names[0].Name
	norm := func(s string) string { return strings.ReplaceAll(s, recv+".", "e.") }
	sprintf := func(r *ast.ReturnStmt) (string, string) {
		if len(r.Results) != 1 {
			return "", ""
		}
		c, ok := r.Results[0].(*ast.CallExpr)
		if !ok || v.src(c.Fun) != "fmt.Sprintf" || len(c.Args) < 1 {
			return "", ""
		}
		tv, ok := v.pkg.TypesInfo.Types[c.Args[0]]
		if !ok || tv.Value == nil || tv.Value.Kind() != constant.String {
			return "", ""
		}
		var as []string
		for _, a := range c.Args[1:] {
			as = append(as, norm(v.src(a)))
		}
		return constant.StringVal(tv.Value), strings.Join(as, ",")
	}
	if len(fd.Body.List) == 2 {
		ifs, ok1 := fd.Body.List[0].(*ast.IfStmt)
		ret, ok2 := fd.Body.List[1].(*ast.ReturnStmt)
		if ok1 && ok2 && ifs.Else == nil && ifs.Init == nil && len(ifs.Body.List) == 1 {
			if r1, ok := ifs.Body.List[0].(*ast.ReturnStmt); ok {
				cond = norm(v.src(ifs.Cond))
				fmtRen, argsRen = sprintf(r1)
				fmtPlain, argsPlain = sprintf(ret)
			}
		}
	}
	return
}

var _ = sort.Strings
