package main

import (
	"fmt"
	"go/ast"
	"go/token"
	"go/types"
	"sort"
	"strings"
)

func (v *pkgView) defaultBufferSize() (uint64, bool) {
	for _, f := range v.pkg.Syntax {
		for _, d := range f.Decls {
			gd, ok := d.(*ast.GenDecl)
			if !ok || gd.Tok != token.VAR {
				continue
			}
			for _, s := range gd.Specs {
				vs := s.(*ast.ValueSpec)
				for i, n := range vs.Names {
					if n.Name == "defaultBufferSize" && i < len(vs.Values) {
						return v.constVal(vs.Values[i])
					}
				}
			}
		}
	}
	return 0, false
}

// chanCaps: the capacity expressions used for the Events and Errors channels in fn.
func (v *pkgView) chanCaps(fn string) (evCap, errCap string) {
	fd := v.findFunc("", fn)
	evCap, errCap = "?", "?"
	if fd == nil {
		return
	}
	ast.Inspect(fd.Body, func(n ast.Node) bool {
		c, ok := n.(*ast.CallExpr)
		if !ok || v.src(c.Fun) != "make" || len(c.Args) < 1 {
			return true
		}
		capExpr := "0"
		if len(c.Args) >= 2 {
			capExpr = v.src(c.Args[1])
		}
		switch v.src(c.Args[0]) {
		case "chan Event":
			evCap = capExpr
		case "chan error":
			errCap = capExpr
		}
		return true
	})
	return
}

// globalWrites lists "var<-func" for every package-level variable assigned inside a
// non-test function body (initialisers at the declaration are not writes).
func (v *pkgView) globalWrites() []string {
	var out []string
	info := v.pkg.TypesInfo
	isGlobal := func(e ast.Expr) (string, bool) {
		for {
			switch x := e.(type) {
			case *ast.ParenExpr:
				e = x.X
				continue
			case *ast.SelectorExpr:
				e = x.X
				continue
			case *ast.IndexExpr:
				e = x.X
				continue
			case *ast.StarExpr:
				e = x.X
				continue
			}
			break
		}
		id, ok := e.(*ast.Ident)
		if !ok {
			return "", false
		}
		obj, ok := info.Uses[id].(*types.Var)
		if !ok || obj.Parent() != v.pkg.Types.Scope() {
			return "", false
		}
		return obj.Name(), true
	}
	for _, f := range v.pkg.Syntax {
		for _, d := range f.Decls {
			fd, ok := d.(*ast.FuncDecl)
			if !ok || fd.Body == nil {
				continue
			}
			ast.Inspect(fd.Body, func(n ast.Node) bool {
				switch a := n.(type) {
				case *ast.AssignStmt:
					if a.Tok == token.DEFINE {
						return true
					}
					for _, l := range a.Lhs {
						if g, ok := isGlobal(l); ok {
							out = append(out, g+"<-"+fd.Name.Name)
						}
					}
				case *ast.IncDecStmt:
					if g, ok := isGlobal(a.X); ok {
						out = append(out, g+"<-"+fd.Name.Name)
					}
				case *ast.UnaryExpr:
					if a.Op == token.AND {
						if g, ok := isGlobal(a.X); ok {
							out = append(out, "&"+g+"<-"+fd.Name.Name)
						}
					}
				}
				return true
			})
		}
	}
	sort.Strings(out)
	return out
}

func emitConsts(e *emitter, lin, bsd, win, sol *pkgView) {
	// ring
	ringLen := int64(-1)
	if obj := lin.pkg.Types.Scope().Lookup("inotify"); obj != nil {
		if st, ok := obj.Type().Underlying().(*types.Struct); ok {
			for i := 0; i < st.NumFields(); i++ {
				if st.Field(i).Name() == "cookies" {
					if at, ok := st.Field(i).Type().(*types.Array); ok {
						ringLen = at.Len()
					}
				}
			}
		}
	}
	e.f("Definition gen_ring_len : N := %d.\n", ringLen)
	// wrap: `if w.cookieIndex > K { w.cookieIndex = 0 }`, store at `w.cookies[w.cookieIndex] = ...`, then `w.cookieIndex++`
	wrapGt, wrapOK := int64(-1), false
	storeMask, lookupMask := uint64(0), uint64(0)
	cookieGuard := false
	if fd := lin.findFunc("inotify", "newEvent"); fd != nil {
		recv := fd.Recv.List[0].Names[0].Name
		ast.Inspect(fd.Body, func(n ast.Node) bool {
			ifs, ok := n.(*ast.IfStmt)
			if !ok {
				return true
			}
			c := lin.src(ifs.Cond)
			if strings.HasPrefix(c, recv+".cookieIndex > ") {
				if b, ok := ifs.Cond.(*ast.BinaryExpr); ok {
					if k, ok := lin.constVal(b.Y); ok && len(ifs.Body.List) == 1 &&
						lin.src(ifs.Body.List[0]) == recv+".cookieIndex = 0" {
						wrapGt, wrapOK = int64(k), true
					}
				}
			}
			if c == "cookie != 0" {
				cookieGuard = true
			}
			// the branch that stores / looks up: `mask&C == C`
			if b, ok := ifs.Cond.(*ast.BinaryExpr); ok && b.Op == token.EQL {
				if l, ok := unparen(b.X).(*ast.BinaryExpr); ok && l.Op == token.AND {
					k, _ := lin.constVal(l.Y)
					body := lin.src(ifs.Body)
					if strings.Contains(body, recv+".cookies["+recv+".cookieIndex] =") {
						storeMask = k
					}
					if strings.Contains(body, "range "+recv+".cookies") {
						lookupMask = k
					}
				}
			}
			return true
		})
	}
	e.f("Definition gen_ring_wrap_gt : Z := %d%%Z.\nDefinition gen_ring_wrap_found : bool := %v.\n", wrapGt, wrapOK)
	e.f("Definition gen_ring_store_mask : N := %d.\nDefinition gen_ring_lookup_mask : N := %d.\nDefinition gen_ring_cookie_guard : bool := %v.\n", storeMask, lookupMask, cookieGuard)

	// read buffer
	bufLen := int64(-1)
	if fd := lin.findFunc("inotify", "readEvents"); fd != nil {
		ast.Inspect(fd.Body, func(n ast.Node) bool {
			ds, ok := n.(*ast.DeclStmt)
			if !ok {
				return true
			}
			if gd, ok := ds.Decl.(*ast.GenDecl); ok {
				for _, s := range gd.Specs {
					if vs, ok := s.(*ast.ValueSpec); ok && len(vs.Names) == 1 && vs.Names[0].Name == "buf" {
						if at, ok := lin.pkg.TypesInfo.TypeOf(vs.Type).(*types.Array); ok {
							bufLen = at.Len()
						}
					}
				}
			}
			return true
		})
	}
	e.f("Definition gen_read_buf_len : N := %d.\n", bufLen)
	hdr := int64(-1)
	for _, imp := range lin.pkg.Imports {
		if imp.PkgPath == "golang.org/x/sys/unix" {
			if c, ok := imp.Types.Scope().Lookup("SizeofInotifyEvent").(*types.Const); ok {
				if x, ok := constantInt(c); ok {
					hdr = x
				}
			}
		}
	}
	e.f("Definition gen_inotify_hdr_len : N := %d.\n\n", hdr)

	for _, pv := range []*pkgView{lin, bsd, win, sol} {
		d, ok := pv.defaultBufferSize()
		e.f("Definition gen_default_buffer_%s : N := %d. (* found: %v *)\n", pv.goos, d, ok)
	}
	ev1, er1 := lin.chanCaps("NewWatcher")
	ev2, er2 := lin.chanCaps("NewBufferedWatcher")
	arg := ""
	if fd := lin.findFunc("", "NewBufferedWatcher"); fd != nil {
		arg = lin.paramName(fd, 0)
	}
	e.f("Definition gen_newwatcher_events_cap_is_default : bool := %v.\n", ev1 == "defaultBufferSize")
	e.f("Definition gen_newwatcher_errors_unbuffered : bool := %v.\n", er1 == "0")
	e.f("Definition gen_newbuffered_events_cap_is_arg : bool := %v.\n", arg != "" && ev2 == arg)
	e.f("Definition gen_newbuffered_errors_unbuffered : bool := %v.\n\n", er2 == "0")

	for _, pv := range []*pkgView{lin, bsd, win, sol} {
		var ws []string
		for _, w := range pv.globalWrites() {
			ws = append(ws, coqStr(w))
		}
		e.f("Definition gen_global_writes_%s : list string := %s.\n", pv.goos, list(ws))
	}
	_ = fmt.Sprint
}

func constantInt(c *types.Const) (int64, bool) {
	s := c.Val().ExactString()
	var x int64
	_, err := fmt.Sscanf(s, "%d", &x)
	return x, err == nil
}
