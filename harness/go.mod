module verif/harness

go 1.17

require github.com/fsnotify/fsnotify v0.0.0

require golang.org/x/sys v0.13.0

replace github.com/fsnotify/fsnotify => /repo
