// conc — scenario harness for the protocol properties (C03 order with buffering, C05 control calls never wait for the
// consumer, C06 Close protocol, C07 thread safety / linearizability, C13 resources, C14 buffering and independence).
//
// Every scenario drives the REAL Watcher (built with -tags verif against /repo): either the ordinary one, or the piped
// one whose reader is fed by this program so that "events and an error are waiting to be delivered" can be produced
// deterministically.  The specification-level predicate of each property is evaluated on what is observed; a failing
// predicate prints   FAIL <property> <clause> <details…>   and the scenario line says what was run.
package main

import (
	"encoding/binary"
	"errors"
	"flag"
	"fmt"
	"math/rand"
	"os"
	"path/filepath"
	"runtime"
	"sort"
	"strings"
	"sync"
	"syscall"
	"time"

	"github.com/fsnotify/fsnotify"
	"golang.org/x/sys/unix"
)

var (
	watchdog = 3 * time.Second
	nfail    = 0
	nscen    = 0
	out      = os.Stdout
)

var failSeen = map[string]int{}

func fail(prop, clause, format string, a ...interface{}) {
	nfail++
	if prop == *owner {
		ownerFails++
	}
	failSeen[prop+clause]++
	if failSeen[prop+clause] <= 3 { // the first few of each kind are enough
		fmt.Fprintf(out, "FAIL %s %s %s\n", prop, clause, fmt.Sprintf(format, a...))
	}
}

func scen(format string, a ...interface{}) {
	nscen++
	fmt.Fprintf(out, "SCEN %s\n", fmt.Sprintf(format, a...))
}

// A call that is blocked for good stays blocked; a call that is merely slow because the machine is overloaded returns
// eventually.  The first few expiries of the watchdog are therefore CONFIRMED by waiting ten times longer: if the call
// returns after all, the machine is slow, nothing is reported and the watchdog is doubled for the rest of the run.  Once
// a blocked call has been confirmed the short watchdog is trusted again (the verdict is already established and the run
// must stay short).
var (
	confirmsLeft = 3
	slowdowns    = 0
)

func waitConfirmed(done <-chan struct{}, d time.Duration) bool {
	select {
	case <-done:
		return true
	case <-time.After(d):
	}
	if confirmsLeft <= 0 {
		return false
	}
	select {
	case <-done:
		slowdowns++
		if watchdog < 24*time.Second {
			watchdog *= 2
		}
		return true
	case <-time.After(10 * d):
		confirmsLeft--
		return false
	}
}

// withTimeout runs f and reports whether it returned within the watchdog
func withTimeout(f func()) bool {
	done := make(chan struct{})
	go func() { f(); close(done) }()
	return waitConfirmed(done, watchdog)
}

// calibrate: how long does one notification take from the write to its delivery on this machine right now?  The watchdog
// is at least 200 times that (and at least 3 s)
func calibrate() {
	dir, _ := os.MkdirTemp("", "vconc")
	defer os.RemoveAll(dir)
	w, err := newW(0)
	if err != nil {
		return
	}
	defer w.Close()
	w.Add(dir)
	var worst time.Duration
	for i := 0; i < 12; i++ {
		t0 := time.Now()
		os.WriteFile(filepath.Join(dir, fmt.Sprintf("c%d", i)), nil, 0o644)
		select {
		case <-w.Events:
		case <-time.After(20 * time.Second):
		}
		if d := time.Since(t0); d > worst {
			worst = d
		}
		for len(w.Events) > 0 {
			<-w.Events
		}
		drain := time.After(2 * time.Millisecond)
	dr:
		for {
			select {
			case <-w.Events:
			case <-drain:
				break dr
			}
		}
	}
	if 200*worst > watchdog {
		watchdog = 200 * worst
		if watchdog > 30*time.Second {
			watchdog = 30 * time.Second
		}
	}
	fmt.Fprintf(out, "CALIBRATION worst_delivery_latency=%v watchdog=%v\n", worst, watchdog)
}

func rec(wd int32, mask, cookie uint32, name string) []byte {
	pad := 0
	if name != "" {
		pad = 16 - len(name)%16
	}
	b := make([]byte, 16+len(name)+pad)
	binary.LittleEndian.PutUint32(b[0:], uint32(wd))
	binary.LittleEndian.PutUint32(b[4:], mask)
	binary.LittleEndian.PutUint32(b[8:], cookie)
	binary.LittleEndian.PutUint32(b[12:], uint32(len(name)+pad))
	copy(b[16:], name)
	return b
}

type piped struct {
	w    *fsnotify.Watcher
	fd   int
	sock int
}

func newPiped(capEv uint) (*piped, error) {
	fds, err := unix.Socketpair(unix.AF_UNIX, unix.SOCK_SEQPACKET|unix.SOCK_CLOEXEC|unix.SOCK_NONBLOCK, 0)
	if err != nil {
		return nil, err
	}
	unix.SetNonblock(fds[1], false)
	var w *fsnotify.Watcher
	var rfd int
	err = envRetry(func() error {
		var e error
		w, rfd, e = fsnotify.VerifNewPipedWatcher(capEv, fds[0])
		return e
	})
	if err != nil {
		return nil, err
	}
	return &piped{w: w, fd: rfd, sock: fds[1]}, nil
}

func (p *piped) shutdown() {
	unix.Close(p.sock)
	unix.Close(p.fd)
}

// envRetry: the per-user limit on inotify instances (fs.inotify.max_user_instances, EMFILE) is shared with every other
// process of this user.  A creation that fails with EMFILE/ENFILE while THIS process holds only a few inotify
// descriptors is a shortage of the environment, not a leak of the code under test: wait and retry.  A process that
// itself holds many descriptors gets the error reported at once.
func envRetry(mk func() error) error {
	deadline := time.Now().Add(120 * time.Second)
	for {
		err := mk()
		if err == nil || !(errors.Is(err, unix.EMFILE) || errors.Is(err, unix.ENFILE)) || inotifyFds() >= 48 || time.Now().After(deadline) {
			return err
		}
		envWaits++
		time.Sleep(250 * time.Millisecond)
	}
}

var envWaits, hung, ownerFails int

var owner = flag.String("owner", "", "the property this run is for (decides when a deadlocked tree ends the run early)")

func newW(capEv uint) (w *fsnotify.Watcher, err error) {
	err = envRetry(func() error {
		var e error
		if capEv == 0 {
			w, e = fsnotify.NewWatcher()
		} else {
			w, e = fsnotify.NewBufferedWatcher(capEv)
		}
		return e
	})
	return
}

func inotifyFds() int {
	n := 0
	ents, _ := os.ReadDir("/proc/self/fd")
	for _, e := range ents {
		l, err := os.Readlink("/proc/self/fd/" + e.Name())
		if err == nil && strings.Contains(l, "inotify") {
			n++
		}
	}
	return n
}

func fsnotifyGoroutines() int {
	buf := make([]byte, 1<<20)
	n := runtime.Stack(buf, true)
	c := 0
	for _, g := range strings.Split(string(buf[:n]), "\n\n") {
		if strings.Contains(g, "fsnotify.(*inotify).readEvents") {
			c++
		}
	}
	return c
}

func closedWithin(evs chan fsnotify.Event, ers chan error, d time.Duration) (bool, bool) {
	ec, rc := closedWithin1(evs, ers, d, false, false)
	if !(ec && rc) && confirmsLeft > 0 { // confirm: see waitConfirmed
		ec2, rc2 := closedWithin1(evs, ers, 10*d, ec, rc)
		if ec2 && rc2 {
			slowdowns++
			if watchdog < 24*time.Second {
				watchdog *= 2
			}
		} else {
			confirmsLeft--
		}
		return ec2, rc2
	}
	return ec, rc
}

func closedWithin1(evs chan fsnotify.Event, ers chan error, d time.Duration, ec, rc bool) (bool, bool) {
	deadline := time.After(d)
	if ec {
		evs = nil
	}
	if rc {
		ers = nil
	}
	for !(ec && rc) {
		select {
		case _, ok := <-evs:
			if !ok {
				ec = true
				evs = nil
			}
		case _, ok := <-ers:
			if !ok {
				rc = true
				ers = nil
			}
		case <-deadline:
			return ec, rc
		}
	}
	return ec, rc
}

// ------------------------------------------------------------------ C05 / C06: pending deliveries, no or partial consumer

// pendingScenario: a piped watcher on one directory; `nev` events and possibly an error are made pending (the reader is
// blocked in a send or has filled the buffer); the consumer behaves as told; then control calls run under a watchdog.
func pendingScenario(rng *rand.Rand, capEv uint, nev int, pendingErr string, consumer string, calls []string, concurrent bool) {
	dir, _ := os.MkdirTemp("", "vconc")
	defer os.RemoveAll(dir)
	p, err := newPiped(capEv)
	if err != nil {
		fail("C13", "new-watcher-failed", "%v", err)
		return
	}
	defer p.shutdown()
	if err := p.w.Add(dir); err != nil {
		fail("C04", "add-failed", "%v", err)
		return
	}
	other := filepath.Join(dir, "sub")
	os.Mkdir(other, 0o755)
	// what the reader will be handed: nev creates for the watched directory (wd 1), then the error trigger
	var dg []byte
	mixed := rng.Intn(3) == 0 // also moves: pairs, a file moved in from elsewhere (no partner), a file moved out
	for i := 0; i < nev; i++ {
		k := 0
		if mixed {
			k = rng.Intn(6)
		}
		switch k {
		case 1:
			dg = append(dg, rec(1, unix.IN_MOVED_TO, uint32(1000+i), fmt.Sprintf("in%d", i))...)
		case 2:
			dg = append(dg, rec(1, unix.IN_MOVED_FROM, uint32(2000+i), fmt.Sprintf("a%d", i))...)
			dg = append(dg, rec(1, unix.IN_MOVED_TO, uint32(2000+i), fmt.Sprintf("b%d", i))...)
		case 3:
			dg = append(dg, rec(1, unix.IN_MOVED_FROM, uint32(3000+i), fmt.Sprintf("out%d", i))...)
		default:
			dg = append(dg, rec(1, unix.IN_CREATE, 0, fmt.Sprintf("e%d", i))...)
		}
	}
	switch pendingErr {
	case "overflow":
		dg = append(dg, rec(-1, unix.IN_Q_OVERFLOW, 0, "")...)
	case "overflow-first":
		dg = append(rec(-1, unix.IN_Q_OVERFLOW, 0, ""), dg...)
	}
	stop := make(chan struct{})
	var got []string
	var gotMu sync.Mutex
	var cwg sync.WaitGroup
	cwg.Add(1)
	go func() { // consumer
		defer cwg.Done()
		evs, ers := p.w.Events, p.w.Errors
		limit := -1
		switch consumer {
		case "none":
			evs, ers = nil, nil
		case "events-only":
			ers = nil
		case "errors-only":
			evs = nil
		case "stops-midway":
			limit = 1 + rng.Intn(2)
		}
		n := 0
		for {
			if limit >= 0 && n >= limit {
				evs, ers = nil, nil
			}
			select {
			case e, ok := <-evs:
				if !ok {
					evs = nil
					continue
				}
				gotMu.Lock()
				got = append(got, e.Name)
				gotMu.Unlock()
				n++
			case _, ok := <-ers:
				if !ok {
					ers = nil
					continue
				}
				n++
			case <-stop:
				return
			}
		}
	}()
	for len(dg) > 0 { // one read of the real descriptor never exceeds the reader's 64K buffer
		n := len(dg)
		if n > 32*1900 {
			n = 32 * 1900
		}
		unix.Write(p.sock, dg[:n])
		dg = dg[n:]
	}
	if pendingErr == "short-read" {
		unix.Write(p.sock, []byte{1, 2, 3})
	}
	time.Sleep(30 * time.Millisecond) // let the reader reach its blocking point
	scen("pending cap=%d nev=%d moves=%v err=%s consumer=%s calls=%s concurrent=%v", capEv, nev, mixed, pendingErr, consumer, strings.Join(calls, ","), concurrent)
	results := make([]string, len(calls))
	run := func(i int, c string) {
		var r string
		ok := withTimeout(func() {
			switch c {
			case "list":
				l := p.w.WatchList()
				r = fmt.Sprintf("list:%d", len(l))
			case "add":
				r = "add:" + errStr(p.w.Add(other))
			case "remove":
				r = "remove:" + errStr(p.w.Remove(other))
			case "remove-unknown":
				r = "remove:" + errStr(p.w.Remove(filepath.Join(dir, "never")))
			case "close":
				r = "close:" + errStr(p.w.Close())
			}
		})
		if !ok {
			r = c + ":BLOCKED"
			fail("C05", "control-call-blocked", "call=%s cap=%d nev=%d err=%s consumer=%s", c, capEv, nev, pendingErr, consumer)
			if c == "close" {
				fail("C06", "close-never-completes", "channels can never close: Close blocked; cap=%d nev=%d err=%s consumer=%s", capEv, nev, pendingErr, consumer)
			}
			fail("C07", "deadlock", "call=%s blocked for ever; cap=%d nev=%d err=%s consumer=%s concurrent=%v", c, capEv, nev, pendingErr, consumer, concurrent)
			if strings.HasPrefix(pendingErr, "overflow") {
				fail("C10", "api-blocked-after-overflow", "call=%s cap=%d nev=%d consumer=%s", c, capEv, nev, consumer)
			}
		}
		results[i] = r
	}
	if concurrent {
		var wg sync.WaitGroup
		for i, c := range calls {
			wg.Add(1)
			go func(i int, c string) { defer wg.Done(); run(i, c) }(i, c)
		}
		wg.Wait()
	} else {
		for i, c := range calls {
			run(i, c)
		}
	}
	fmt.Fprintf(out, "  results %s\n", strings.Join(results, " "))
	hasClose := false
	for _, c := range calls {
		if c == "close" {
			hasClose = true
		}
	}
	close(stop)
	cwg.Wait()
	if hasClose && !strings.Contains(strings.Join(results, " "), "close:BLOCKED") {
		ec, rc := closedWithin(p.w.Events, p.w.Errors, watchdog)
		if !ec || !rc {
			fail("C06", "channels-not-closed-after-close", "events_closed=%v errors_closed=%v cap=%d consumer=%s", ec, rc, capEv, consumer)
		}
		// inert afterwards
		if err := p.w.Add(dir); !errors.Is(err, fsnotify.ErrClosed) {
			fail("C06", "add-after-close-not-errclosed", "%v", err)
		}
		for _, n := range []int{0, 1024, 4095, 65536} {
			if err := p.w.AddWith(dir, fsnotify.WithBufferSize(n)); !errors.Is(err, fsnotify.ErrClosed) {
				fail("C06", "addwith-after-close-not-errclosed", "WithBufferSize(%d): %v", n, err)
			}
		}
		if err := p.w.Remove(dir); err != nil {
			fail("C06", "remove-after-close-not-nil", "%v", err)
		}
		if l := p.w.WatchList(); l != nil {
			fail("C06", "watchlist-after-close-not-nil", "%v", l)
		}
		if !withTimeout(func() { p.w.Close() }) {
			fail("C05", "second-close-blocked", "")
		}
	} else if !hasClose {
		// clean up: Close must work whatever is pending
		if !withTimeout(func() { p.w.Close() }) {
			fail("C05", "close-blocked", "cap=%d nev=%d err=%s consumer=%s (cleanup)", capEv, nev, pendingErr, consumer)
		}
	}
}

func errStr(err error) string {
	switch {
	case err == nil:
		return "nil"
	case errors.Is(err, fsnotify.ErrClosed):
		return "closed"
	case errors.Is(err, fsnotify.ErrNonExistentWatch):
		return "nonexistent"
	case errors.Is(err, fsnotify.ErrEventOverflow):
		return "overflow"
	case errors.Is(err, syscall.EINVAL):
		return "EINVAL"
	case errors.Is(err, syscall.EBADF):
		return "EBADF"
	case errors.Is(err, syscall.ENOENT):
		return "ENOENT"
	}
	return "other(" + err.Error() + ")"
}

// ------------------------------------------------------------------ C06 / C13: Close at every point, with other calls racing

func closeRace(rng *rand.Rand, capEv uint, closers int, withTraffic bool) {
	dir, _ := os.MkdirTemp("", "vconc")
	defer os.RemoveAll(dir)
	before := inotifyFds()
	var w *fsnotify.Watcher
	var err error
	w, err = newW(capEv)
	if err != nil {
		fail("C13", "new-watcher-failed", "%v", err)
		return
	}
	scen("closerace cap=%d closers=%d traffic=%v", capEv, closers, withTraffic)
	if fl, err := unix.FcntlInt(uintptr(fsnotify.VerifInotifyFd(w)), unix.F_GETFD, 0); err == nil && fl&unix.FD_CLOEXEC == 0 {
		fail("C13", "descriptor-not-close-on-exec", "a child process started while the Watcher is open keeps the inotify instance alive after Close")
	}
	w.Add(dir)
	for i := 0; i < 3; i++ {
		d := filepath.Join(dir, fmt.Sprintf("d%d", i))
		os.Mkdir(d, 0o755)
		w.Add(d)
	}
	var wg sync.WaitGroup
	stop := make(chan struct{})
	if withTraffic {
		wg.Add(1)
		go func() { // filesystem traffic
			defer wg.Done()
			for i := 0; ; i++ {
				select {
				case <-stop:
					return
				default:
				}
				f := filepath.Join(dir, fmt.Sprintf("f%d", i%17))
				os.WriteFile(f, []byte("x"), 0o644)
				os.Remove(f)
			}
		}()
		wg.Add(1)
		go func() { // API traffic racing with Close
			defer wg.Done()
			for i := 0; ; i++ {
				select {
				case <-stop:
					return
				default:
				}
				p := filepath.Join(dir, fmt.Sprintf("d%d", i%3))
				switch i % 3 {
				case 0:
					if err := w.Add(p); err != nil && !errors.Is(err, fsnotify.ErrClosed) && !errors.Is(err, syscall.EBADF) && !errors.Is(err, syscall.EINVAL) {
						fail("C06", "add-racing-close-odd-error", "%v", err)
					}
				case 1:
					w.Remove(p)
				default:
					w.WatchList()
				}
			}
		}()
	}
	consumerDone := make(chan [2]bool, 1)
	go func() { // a consumer that reads until both channels are closed
		ec, rc := closedWithin(w.Events, w.Errors, 4*watchdog)
		consumerDone <- [2]bool{ec, rc}
	}()
	time.Sleep(time.Duration(rng.Intn(20)) * time.Millisecond)
	var cw sync.WaitGroup
	for i := 0; i < closers; i++ {
		cw.Add(1)
		go func() {
			defer cw.Done()
			if !withTimeout(func() {
				if err := w.Close(); err != nil {
					fail("C06", "close-returned-error", "%v", err)
				}
			}) {
				fail("C05", "close-blocked", "closerace cap=%d closers=%d", capEv, closers)
			}
		}()
	}
	cw.Wait()
	close(stop)
	wg.Wait()
	r := <-consumerDone
	if !r[0] || !r[1] {
		fail("C06", "channels-not-closed-after-close", "closerace events_closed=%v errors_closed=%v", r[0], r[1])
	}
	if err := w.Add(dir); !errors.Is(err, fsnotify.ErrClosed) {
		fail("C06", "add-after-close-not-errclosed", "%v", err)
	}
	// resources: descriptor and goroutine gone shortly after
	deadline := time.Now().Add(watchdog)
	for time.Now().Before(deadline) && (inotifyFds() > before || fsnotifyGoroutines() > 0) {
		time.Sleep(5 * time.Millisecond)
	}
	if n := inotifyFds(); n > before {
		fail("C13", "inotify-descriptor-leaked", "before=%d after=%d", before, n)
	}
	if g := fsnotifyGoroutines(); g > 0 {
		fail("C13", "reader-goroutine-leaked", "count=%d", g)
	}
}

// readError: the descriptor reports end-of-file; the error is delivered; Close must still close the descriptor and
// the channels
func readError(rng *rand.Rand, consumeFirst bool) {
	dir, _ := os.MkdirTemp("", "vconc")
	defer os.RemoveAll(dir)
	p, err := newPiped(0)
	if err != nil {
		return
	}
	defer p.shutdown()
	p.w.Add(dir)
	scen("read-error consume-first=%v", consumeFirst)
	unix.Shutdown(p.sock, unix.SHUT_WR) // the reader's Read now returns 0: io.EOF is sent on Errors
	if consumeFirst {
		select {
		case e := <-p.w.Errors:
			if e == nil {
				fail("C10", "nil-error-delivered", "")
			}
		case <-time.After(watchdog):
			fail("C10", "read-error-not-reported", "")
		}
	}
	var cerr error
	if !withTimeout(func() { cerr = p.w.Close() }) {
		fail("C05", "close-blocked", "after a read error")
		return
	}
	if cerr != nil {
		fail("C06", "close-returned-error", "%v", cerr)
	}
	ec, rc := closedWithin(p.w.Events, p.w.Errors, watchdog)
	if !ec || !rc {
		fail("C06", "channels-not-closed-after-close", "after a read error: events_closed=%v errors_closed=%v", ec, rc)
	}
	// the library's end of the descriptor must be closed now: our end sees the hang-up
	fds := []unix.PollFd{{Fd: int32(p.sock), Events: unix.POLLIN}}
	hup := false
	deadline := time.Now().Add(watchdog)
	for time.Now().Before(deadline) && !hup {
		unix.Poll(fds, 20)
		hup = fds[0].Revents&(unix.POLLHUP|unix.POLLERR) != 0
		if !hup {
			buf := make([]byte, 16)
			n, _, e := unix.Recvfrom(p.sock, buf, unix.MSG_DONTWAIT)
			hup = n == 0 && e == nil
		}
	}
	if !hup {
		fail("C13", "descriptor-not-closed-after-close", "after a read error was delivered, Close returned but the Watcher's descriptor is still open")
	}
}

// resourceCycles: many create/use/close cycles keep descriptor and goroutine counts flat
func resourceCycles(rng *rand.Rand, cycles int) {
	dir, _ := os.MkdirTemp("", "vconc")
	defer os.RemoveAll(dir)
	scen("cycles n=%d", cycles)
	base := inotifyFds()
	for i := 0; i < cycles; i++ {
		w, err := newW(0)
		if err != nil {
			fail("C13", "new-watcher-failed-in-cycle", "cycle=%d %v", i, err)
			return
		}
		switch rng.Intn(5) {
		case 0:
		case 4: // an unread event keeps the reader busy while a watched file disappears: its IN_IGNORED is still queued at Close
			w.Add(dir)
			f := filepath.Join(dir, "gone2")
			os.WriteFile(f, nil, 0o644)
			w.Add(f)
			os.WriteFile(filepath.Join(dir, "y"), nil, 0o644)
			time.Sleep(2 * time.Millisecond)
			os.Remove(f)
			os.Remove(filepath.Join(dir, "y"))
		case 1:
			w.Add(dir)
		case 2: // pending events nobody reads
			w.Add(dir)
			os.WriteFile(filepath.Join(dir, "x"), nil, 0o644)
			os.Remove(filepath.Join(dir, "x"))
		default: // a watched file deleted just before Close
			f := filepath.Join(dir, "gone")
			os.WriteFile(f, nil, 0o644)
			w.Add(f)
			os.Remove(f)
		}
		var cerr error
		if !withTimeout(func() { cerr = w.Close() }) {
			fail("C05", "close-blocked", "cycle=%d", i)
			return
		}
		if cerr != nil {
			fail("C13", "close-returned-error", "cycle=%d: %v (a Close that gives up half-way releases nothing)", i, cerr)
			fail("C06", "close-returned-error", "cycle=%d: %v", i, cerr)
		}
	}
	deadline := time.Now().Add(watchdog)
	for time.Now().Before(deadline) && (inotifyFds() > base || fsnotifyGoroutines() > 0) {
		time.Sleep(5 * time.Millisecond)
	}
	if n := inotifyFds(); n > base {
		fail("C13", "inotify-descriptor-leaked", "after %d cycles: before=%d after=%d", cycles, base, n)
	}
	if g := fsnotifyGoroutines(); g > 0 {
		fail("C13", "reader-goroutine-leaked", "after %d cycles: %d", cycles, g)
	}
}

// instanceLimit: NewWatcher failing at its first syscall leaks nothing
func instanceLimit() {
	scen("instance-limit")
	base := inotifyFds()
	var ws []*fsnotify.Watcher
	var firstErr error
	for i := 0; i < 4096; i++ {
		w, err := fsnotify.NewWatcher()
		if err != nil {
			firstErr = err
			break
		}
		ws = append(ws, w)
	}
	if firstErr == nil {
		fmt.Fprintf(out, "  no instance limit reached with %d watchers\n", len(ws))
	} else {
		at, atAll := inotifyFds(), allFds()
		failed := 0
		for i := 0; i < 60; i++ { // keep failing: must not leak anything
			if w, err := fsnotify.NewWatcher(); err == nil {
				ws = append(ws, w)
			} else {
				failed++
			}
		}
		if n := inotifyFds(); n > at+(60-failed) {
			fail("C13", "failed-newwatcher-leaks", "inotify descriptors: at_limit=%d after=%d (failed calls: %d)", at, n, failed)
		}
		if n := allFds(); failed >= 20 && n >= atAll+failed/2 {
			fail("C13", "failed-newwatcher-leaks", "descriptors of any kind: %d before, %d after %d failing NewWatcher calls", atAll, n, failed)
		}
		fmt.Fprintf(out, "  limit reached after %d watchers: %v\n", len(ws), firstErr)
	}
	for _, w := range ws {
		w.Close()
	}
	deadline := time.Now().Add(2 * watchdog)
	for time.Now().Before(deadline) && (inotifyFds() > base || fsnotifyGoroutines() > 0) {
		time.Sleep(10 * time.Millisecond)
	}
	if n := inotifyFds(); n > base {
		fail("C13", "inotify-descriptor-leaked", "after closing %d watchers: before=%d after=%d", len(ws), base, n)
	}
}

// ------------------------------------------------------------------ C14 / C03: buffer sizes, order, other watchers

func collect(w *fsnotify.Watcher, n int, pace string, rng *rand.Rand) []string {
	var got []string
	deadline := time.After(2 * watchdog)
	for len(got) < n {
		if pace == "bursty" && rng.Intn(4) == 0 {
			time.Sleep(time.Duration(rng.Intn(8)) * time.Millisecond)
		}
		if pace == "delayed" && len(got) == 0 {
			time.Sleep(60 * time.Millisecond)
		}
		select {
		case e := <-w.Events:
			item := e.Op.String() + " " + filepath.Base(e.Name)
			if f := fsnotify.VerifRenamedFrom(e); f != "" {
				item += " <- " + filepath.Base(f)
			}
			got = append(got, item)
		case err := <-w.Errors:
			got = append(got, "ERROR "+err.Error())
		case <-deadline:
			return got
		}
	}
	return got
}

func bufferSizes(rng *rand.Rand) {
	dir, _ := os.MkdirTemp("", "vconc")
	defer os.RemoveAll(dir)
	sizes := []uint{0, 1, 2, 4, 64, 1024, 65536}
	var ref []string
	for _, sz := range sizes {
		for _, pace := range []string{"immediate", "delayed", "bursty"} {
			d := filepath.Join(dir, fmt.Sprintf("b%d%s", sz, pace))
			os.Mkdir(d, 0o755)
			w, err := newW(sz)
			if err != nil {
				fail("C13", "new-watcher-failed", "%v", err)
				return
			}
			if cap(w.Events) != int(sz) {
				fail("C14", "capacity-not-as-requested", "requested=%d got=%d", sz, cap(w.Events))
			}
			if cap(w.Errors) != 0 {
				fail("C14", "errors-channel-buffered", "cap=%d", cap(w.Errors))
			}
			w.Add(d)
			scen("buffer size=%d pace=%s", sz, pace)
			n := 0
			go func() {
				for i := 0; i < 40; i++ {
					f := filepath.Join(d, fmt.Sprintf("n%03d", i))
					os.WriteFile(f, nil, 0o644)
				}
				// entry names of every length class incl. the longest
				os.WriteFile(filepath.Join(d, strings.Repeat("L", 255)), nil, 0o644)
				os.WriteFile(filepath.Join(d, strings.Repeat("M", 240)), nil, 0o644)
			}()
			n = 42
			got := collect(w, n, pace, rng)
			w.Close()
			if len(got) != n {
				fail("C14", "events-missing-with-this-buffer", "size=%d pace=%s got=%d want=%d last=%v", sz, pace, len(got), n, tail(got, 2))
				continue
			}
			if ref == nil {
				ref = got
			} else if strings.Join(ref, "|") != strings.Join(got, "|") {
				fail("C14", "stream-depends-on-buffer-size", "size=%d pace=%s first difference at %d: %q vs %q", sz, pace, firstDiff(ref, got), at(ref, firstDiff(ref, got)), at(got, firstDiff(ref, got)))
				fail("C03", "order-depends-on-buffer-size", "size=%d pace=%s", sz, pace)
			}
		}
	}
	w, _ := newW(0)
	if cap(w.Events) != 0 {
		fail("C14", "default-capacity-not-platform-default", "got=%d", cap(w.Events))
	}
	w.Close()
}

func tail(l []string, n int) []string {
	if len(l) <= n {
		return l
	}
	return l[len(l)-n:]
}
func at(l []string, i int) string {
	if i >= 0 && i < len(l) {
		return l[i]
	}
	return "<none>"
}
func firstDiff(a, b []string) int {
	for i := 0; i < len(a) && i < len(b); i++ {
		if a[i] != b[i] {
			return i
		}
	}
	if len(a) != len(b) {
		if len(a) < len(b) {
			return len(a)
		}
		return len(b)
	}
	return -1
}

// absorb: a buffered Watcher absorbs up to its capacity with no consumer and delivers intact later; order kept when
// the consumer reads in bursts while the buffer is full
func absorb(rng *rand.Rand, sz uint) {
	dir, _ := os.MkdirTemp("", "vconc")
	defer os.RemoveAll(dir)
	p, err := newPiped(sz)
	if err != nil {
		return
	}
	defer p.shutdown()
	p.w.Add(dir)
	scen("absorb size=%d", sz)
	total := int(sz) + 6
	var dg []byte
	for i := 0; i < total; i++ {
		dg = append(dg, rec(1, unix.IN_CREATE, 0, fmt.Sprintf("a%04d", i))...)
	}
	for len(dg) > 0 {
		n := len(dg)
		if n > 32*1900 {
			n = 32 * 1900
		}
		unix.Write(p.sock, dg[:n])
		dg = dg[n:]
	}
	time.Sleep(40 * time.Millisecond)
	if n := len(p.w.Events); n != int(sz) {
		fail("C14", "buffer-not-filled-to-capacity", "size=%d buffered=%d", sz, n)
	}
	// bursty consumer: read two, pause, read the rest
	var got []string
	read := func(k int) {
		for i := 0; i < k; i++ {
			select {
			case e := <-p.w.Events:
				got = append(got, filepath.Base(e.Name))
			case <-time.After(watchdog):
				return
			}
		}
	}
	read(2)
	// more notifications keep arriving while the buffer is (still) full and the consumer reads in small bursts
	for round := 0; round < 25; round++ {
		var dg2 []byte
		k := 1 + rng.Intn(3)
		for i := total; i < total+k; i++ {
			dg2 = append(dg2, rec(1, unix.IN_CREATE, 0, fmt.Sprintf("a%04d", i))...)
		}
		unix.Write(p.sock, dg2)
		total += k
		if rng.Intn(2) == 0 {
			time.Sleep(time.Duration(rng.Intn(300)) * time.Microsecond)
		}
		read(1 + rng.Intn(2))
		if rng.Intn(3) == 0 {
			runtime.Gosched()
		}
	}
	read(total - len(got))
	for i, g := range got {
		if g != fmt.Sprintf("a%04d", i) {
			fail("C03", "buffered-events-reordered", "size=%d position=%d got=%s", sz, i, g)
			fail("C14", "buffered-events-not-intact", "size=%d position=%d got=%s", sz, i, g)
			break
		}
	}
	if len(got) != total {
		fail("C14", "buffered-events-lost", "size=%d got=%d want=%d", sz, len(got), total)
	}
	p.w.Close()
}

// recursiveScenario: a recursive watch (dir/...), a whole tree created or moved into it while nobody receives from
// Events: the reader registers the new directories and then waits in its send — outside the mutex — so every control
// call still returns; after Close the API is inert for recursive spellings too.
func recursiveScenario(rng *rand.Rand, capEv uint, how string) {
	fsnotify.VerifSetRecurse(true)
	defer fsnotify.VerifSetRecurse(false)
	base, _ := os.MkdirTemp("", "vconc")
	defer os.RemoveAll(base)
	dir := filepath.Join(base, "watched")
	outside := filepath.Join(base, "outside")
	os.MkdirAll(filepath.Join(dir, "pre", "deep"), 0o755)
	os.MkdirAll(filepath.Join(outside, "t", "u", "v"), 0o755)
	os.WriteFile(filepath.Join(outside, "t", "u", "file"), nil, 0o644)
	w, err := newW(capEv)
	if err != nil {
		fail("C13", "new-watcher-failed", "%v", err)
		return
	}
	before := inotifyFds() - 1
	if err := w.Add(filepath.Join(dir, "...")); err != nil {
		fmt.Fprintf(out, "  recursive Add not supported here: %v\n", err)
		w.Close()
		return
	}
	scen("recursive cap=%d how=%s", capEv, how)
	switch how {
	case "move-tree-in":
		os.Rename(filepath.Join(outside, "t"), filepath.Join(dir, "t"))
	case "mkdir-p":
		os.MkdirAll(filepath.Join(dir, "n1", "n2", "n3"), 0o755)
	case "move-then-rename":
		os.Rename(filepath.Join(outside, "t"), filepath.Join(dir, "t"))
		os.Rename(filepath.Join(dir, "pre"), filepath.Join(dir, "pre2"))
		os.WriteFile(filepath.Join(dir, "pre2", "deep", "f"), nil, 0o644)
	}
	time.Sleep(40 * time.Millisecond) // the reader reaches its send; nobody receives
	calls := []struct {
		name string
		f    func()
	}{
		{"list", func() { w.WatchList() }},
		{"add", func() { w.Add(filepath.Join(dir, "pre")) }},
		{"remove", func() { w.Remove(filepath.Join(dir, "never")) }},
		{"close", func() { w.Close() }},
		{"close", func() { w.Close() }},
	}
	for _, c := range calls {
		c := c
		if !withTimeout(c.f) {
			fail("C05", "control-call-blocked", "recursive watch, %s, Events not received: %s never returned (cap=%d)", how, c.name, capEv)
			fail("C13", "close-never-returns", "recursive watch, %s: %s blocked, nothing can be released", how, c.name)
			fail("C06", "close-never-completes", "recursive watch, %s: %s blocked", how, c.name)
			return
		}
	}
	ec, rc := closedWithin(w.Events, w.Errors, watchdog)
	if !ec || !rc {
		fail("C06", "channels-not-closed-after-close", "recursive: events_closed=%v errors_closed=%v", ec, rc)
	}
	for _, pth := range []string{filepath.Join(dir, "..."), filepath.Join(base, "missing", "..."), filepath.Join(outside, "t", "u", "file", "..."), dir} {
		if err := w.Add(pth); !errors.Is(err, fsnotify.ErrClosed) {
			fail("C06", "add-after-close-not-errclosed", "Add(%q) after Close: %v", strings.TrimPrefix(pth, base), err)
		}
	}
	deadline := time.Now().Add(watchdog)
	for time.Now().Before(deadline) && (inotifyFds() > before || fsnotifyGoroutines() > 0) {
		time.Sleep(5 * time.Millisecond)
	}
	if n := inotifyFds(); n > before {
		fail("C13", "inotify-descriptor-leaked", "recursive: before=%d after=%d", before, n)
	}
	if g := fsnotifyGoroutines(); g > 0 {
		fail("C13", "reader-goroutine-leaked", "recursive: %d", g)
	}
}

// overflowThenClose: Close arrives while the overflow report (or a pending event) is waiting for a consumer that never
// comes; repeated, because what happens next is decided by a select.  Nothing may be sent on a closed channel (that
// panics the whole process), both channels close, every descriptor goes.
func overflowThenClose(rng *rand.Rand, rounds int) {
	scen("overflow-then-close rounds=%d", rounds)
	dir, _ := os.MkdirTemp("", "vconc")
	defer os.RemoveAll(dir)
	for i := 0; i < rounds; i++ {
		p, err := newPiped(uint(rng.Intn(3)))
		if err != nil {
			return
		}
		p.w.Add(dir)
		var dg []byte
		if rng.Intn(2) == 0 {
			dg = append(dg, rec(1, unix.IN_CREATE, 0, "x")...)
		}
		dg = append(dg, rec(-1, unix.IN_Q_OVERFLOW, 0, "")...)
		dg = append(dg, rec(1, unix.IN_CREATE, 0, "y")...)
		unix.Write(p.sock, dg)
		if rng.Intn(2) == 0 {
			time.Sleep(time.Duration(rng.Intn(1500)) * time.Microsecond)
		}
		if !withTimeout(func() { p.w.Close() }) {
			fail("C05", "close-blocked", "overflow pending, no consumer")
			p.shutdown()
			return
		}
		ec, rc := closedWithin(p.w.Events, p.w.Errors, watchdog)
		if !ec || !rc {
			fail("C06", "channels-not-closed-after-close", "overflow pending: events_closed=%v errors_closed=%v", ec, rc)
		}
		time.Sleep(200 * time.Microsecond) // a stray sender, if any, gets its chance
		p.shutdown()
	}
}

// recursiveReact: under a recursive watch a new directory is covered from the moment its Create event is delivered: a
// consumer that reacts to that event at once by creating a file inside it gets the file's Create.
func recursiveReact(rng *rand.Rand, rounds int, capEv uint) {
	fsnotify.VerifSetRecurse(true)
	defer fsnotify.VerifSetRecurse(false)
	base, _ := os.MkdirTemp("", "vconc")
	defer os.RemoveAll(base)
	dir := filepath.Join(base, "watched")
	os.MkdirAll(dir, 0o755)
	w, err := newW(capEv)
	if err != nil {
		return
	}
	defer w.Close()
	if err := w.Add(filepath.Join(dir, "...")); err != nil {
		fmt.Fprintf(out, "  recursive Add not supported here: %v\n", err)
		return
	}
	scen("recursive-react rounds=%d cap=%d", rounds, capEv)
	inner := make(chan string, 1024)
	stop := make(chan struct{})
	go func() {
		for {
			select {
			case e, ok := <-w.Events:
				if !ok {
					return
				}
				b := filepath.Base(e.Name)
				if e.Op&fsnotify.Create != 0 && strings.HasPrefix(b, "n") {
					os.WriteFile(filepath.Join(e.Name, "f"), nil, 0o644) // react at once, inside the new directory
				} else if e.Op&fsnotify.Create != 0 && b == "f" {
					inner <- e.Name
				}
			case <-w.Errors:
			case <-stop:
				return
			}
		}
	}()
	defer close(stop)
	for k := 0; k < 3; k++ { // ordinary API use by other goroutines meanwhile
		go func() {
			for {
				select {
				case <-stop:
					return
				default:
					w.WatchList()
				}
			}
		}()
	}
	missed := 0
	for i := 0; i < rounds; i++ {
		d := filepath.Join(dir, fmt.Sprintf("n%d", i))
		if i%3 == 2 { // nested: the parent is itself a directory created a moment ago
			d = filepath.Join(dir, fmt.Sprintf("n%d", i-1), fmt.Sprintf("n%d", i))
		}
		os.Mkdir(d, 0o755)
		arrived := false
		select {
		case <-inner:
			arrived = true
		case <-time.After(watchdog / 2):
		}
		if !arrived && confirmsLeft > 0 { // lost for good, or merely late on an overloaded machine?
			select {
			case <-inner:
				arrived = true
				slowdowns++
				if watchdog < 24*time.Second {
					watchdog *= 2
				}
			case <-time.After(5 * watchdog):
				confirmsLeft--
			}
		}
		if !arrived {
			missed++
			if missed <= 2 {
				fail("C19", "new-directory-not-covered-when-its-create-is-delivered", "round %d: a file created in %s right after its Create event was received is never reported", i, strings.TrimPrefix(d, base))
			}
			if missed >= 2 {
				return
			}
		}
	}
}

// allFds: every open descriptor of this process
func allFds() int {
	ents, _ := os.ReadDir("/proc/self/fd")
	return len(ents)
}

// staleEntryReAdd: the reader lags behind (nobody receives), a watched file is deleted and created again, the path is
// added again.  Add returned nil and nothing removed it since, so every sequential explanation has the path watched: it is
// listed, Remove of it succeeds, and a write to the new file is reported.
func staleEntryReAdd(rng *rand.Rand, capEv uint) {
	dir, _ := os.MkdirTemp("", "vconc")
	defer os.RemoveAll(dir)
	w, err := newW(capEv)
	if err != nil {
		return
	}
	defer w.Close()
	scen("stale-entry-readd cap=%d", capEv)
	other := filepath.Join(dir, "other")
	os.Mkdir(other, 0o755)
	f := filepath.Join(dir, "f")
	os.WriteFile(f, nil, 0o644)
	w.Add(other)
	w.Add(f)
	// park the reader: more events than the buffer holds, nobody receiving
	for i := 0; i <= int(capEv)+1; i++ {
		os.WriteFile(filepath.Join(other, fmt.Sprintf("x%d", i)), nil, 0o644)
	}
	time.Sleep(20 * time.Millisecond)
	os.Remove(f)
	os.WriteFile(f, nil, 0o644)
	var addErr error
	if !withTimeout(func() { addErr = w.Add(f) }) {
		fail("C05", "control-call-blocked", "Add while the reader lags")
		return
	}
	if addErr != nil {
		fmt.Fprintf(out, "  re-Add returned %v\n", addErr)
		return
	}
	// now the consumer catches up
	var evs []string
	drain := func(d time.Duration) {
		t := time.After(d)
		for {
			select {
			case e := <-w.Events:
				evs = append(evs, e.Op.String()+" "+filepath.Base(e.Name))
			case <-w.Errors:
			case <-t:
				return
			}
		}
	}
	drain(150 * time.Millisecond)
	listed := false
	for _, p := range w.WatchList() {
		if p == f {
			listed = true
		}
	}
	os.WriteFile(f, []byte("x"), 0o644)
	drain(150 * time.Millisecond)
	wrote := false
	for _, e := range evs {
		if e == "WRITE f" {
			wrote = true
		}
	}
	rmErr := w.Remove(f)
	if !listed || !wrote || rmErr != nil {
		fail("C07", "not-linearizable", "Add(f) returned nil after f was deleted and created again while the reader lagged, nothing removed it, yet: listed=%v write-reported=%v Remove=%v (events %v) — no sequential order of the calls explains this", listed, wrote, rmErr, evs)
		fail("C09", "re-add-does-not-watch-the-new-file", "listed=%v write-reported=%v Remove=%v", listed, wrote, rmErr)
		fail("C04", "re-add-does-not-watch-the-new-file", "listed=%v write-reported=%v Remove=%v", listed, wrote, rmErr)
	}
}

// closeHammer: several goroutines call Add/Remove/WatchList without pause while the Watcher is closed under them, many
// times over.  Every call returns; under the race detector this is where an access to shared state outside the mutex shows.
func closeHammer(rng *rand.Rand, rounds int) {
	dir, _ := os.MkdirTemp("", "vconc")
	defer os.RemoveAll(dir)
	scen("close-hammer rounds=%d", rounds)
	paths := []string{dir, filepath.Join(dir, "a"), filepath.Join(dir, "b")}
	os.Mkdir(paths[1], 0o755)
	os.Mkdir(paths[2], 0o755)
	for r := 0; r < rounds; r++ {
		w, err := newW(uint(rng.Intn(2)))
		if err != nil {
			return
		}
		stop := make(chan struct{})
		var wg sync.WaitGroup
		for g := 0; g < 6; g++ {
			wg.Add(1)
			go func(g int) {
				defer wg.Done()
				for i := 0; ; i++ {
					select {
					case <-stop:
						return
					default:
					}
					switch (g + i) % 3 {
					case 0:
						w.Add(paths[i%3])
					case 1:
						w.Remove(paths[i%3])
					default:
						w.WatchList()
					}
				}
			}(g)
		}
		time.Sleep(time.Duration(200+rng.Intn(800)) * time.Microsecond)
		if !withTimeout(func() { w.Close() }) {
			fail("C05", "close-blocked", "close-hammer round %d", r)
			close(stop)
			return
		}
		time.Sleep(100 * time.Microsecond)
		close(stop)
		done := make(chan struct{})
		go func() { wg.Wait(); close(done) }()
		if !waitConfirmed(done, watchdog) {
			fail("C05", "control-call-blocked", "close-hammer round %d: an API call never returned after Close", r)
			fail("C07", "deadlock", "close-hammer round %d", r)
			return
		}
	}
}

// lateErrorsConsumer: the overflow report waits for its consumer.  Events were lost in the kernel queue; whoever starts
// receiving from Errors later — after working through Events first, or after a pause — still gets ErrEventOverflow, and
// the notifications queued behind the overflow record are delivered after it.
func lateErrorsConsumer(rng *rand.Rand, capEv uint, pause time.Duration, eventsFirst bool) {
	dir, _ := os.MkdirTemp("", "vconc")
	defer os.RemoveAll(dir)
	p, err := newPiped(capEv)
	if err != nil {
		return
	}
	defer p.shutdown()
	p.w.Add(dir)
	scen("late-errors-consumer cap=%d pause=%v events-first=%v", capEv, pause, eventsFirst)
	before := 1 + rng.Intn(3)
	var dg []byte
	for i := 0; i < before; i++ {
		dg = append(dg, rec(1, unix.IN_CREATE, 0, fmt.Sprintf("b%d", i))...)
	}
	dg = append(dg, rec(-1, unix.IN_Q_OVERFLOW, 0, "")...)
	dg = append(dg, rec(1, unix.IN_CREATE, 0, "after0")...)
	dg = append(dg, rec(1, unix.IN_CREATE, 0, "after1")...)
	unix.Write(p.sock, dg)
	var evs []string
	gotOverflow := false
	takeEvents := func(k int) {
		for i := 0; i < k; i++ {
			select {
			case e := <-p.w.Events:
				evs = append(evs, filepath.Base(e.Name))
			case <-time.After(watchdog / 2):
				return
			}
		}
	}
	if eventsFirst {
		takeEvents(before) // the handler works through the events it can get before it looks at Errors
	}
	time.Sleep(pause)
	deadline := time.After(watchdog)
loop:
	for len(evs) < before+2 || !gotOverflow {
		select {
		case e := <-p.w.Events:
			evs = append(evs, filepath.Base(e.Name))
		case err := <-p.w.Errors:
			if errors.Is(err, fsnotify.ErrEventOverflow) {
				gotOverflow = true
			}
		case <-deadline:
			break loop
		}
	}
	if !gotOverflow {
		fail("C10", "overflow-report-lost", "cap=%d pause=%v events-first=%v: events were lost in the kernel queue and ErrEventOverflow never arrived on Errors (events received: %v)", capEv, pause, eventsFirst, evs)
	}
	if len(evs) != before+2 {
		fail("C10", "events-behind-overflow-lost", "cap=%d pause=%v: got %v", capEv, pause, evs)
	}
	if !withTimeout(func() { p.w.Close() }) {
		fail("C05", "close-blocked", "after late errors consumer")
	}
}

// absorbRepeats: runs of IDENTICAL notifications (the kernel merges an event only with an identical one that is still
// at the tail of its queue; once that one has been read, the next identical one is a notification of its own).  Every
// one of them is delivered, whatever the buffer size and whether or not the consumer keeps up.
func absorbRepeats(rng *rand.Rand, sz uint, lag bool) {
	dir, _ := os.MkdirTemp("", "vconc")
	defer os.RemoveAll(dir)
	p, err := newPiped(sz)
	if err != nil {
		return
	}
	defer p.shutdown()
	p.w.Add(dir)
	scen("absorb-repeats size=%d lagging-consumer=%v", sz, lag)
	masks := []uint32{unix.IN_MODIFY, unix.IN_ATTRIB, unix.IN_MODIFY, unix.IN_CREATE}
	ops := map[uint32]string{unix.IN_MODIFY: "WRITE", unix.IN_ATTRIB: "CHMOD", unix.IN_CREATE: "CREATE"}
	var want []string
	var dgs [][]byte
	n := 0
	for n < int(sz)+12 && n < 400 {
		m := masks[rng.Intn(len(masks))]
		name := fmt.Sprintf("r%d", rng.Intn(3))
		run := 1 + rng.Intn(5)
		var dg []byte
		for i := 0; i < run; i++ {
			dg = append(dg, rec(1, m, 0, name)...)
			want = append(want, ops[m]+" "+name)
			n++
			if rng.Intn(3) == 0 { // the same run split over two reads
				dgs = append(dgs, dg)
				dg = nil
			}
		}
		if dg != nil {
			dgs = append(dgs, dg)
		}
	}
	var got []string
	done := make(chan struct{})
	go func() {
		defer close(done)
		if lag {
			time.Sleep(30 * time.Millisecond)
		}
		for len(got) < len(want) {
			select {
			case e := <-p.w.Events:
				got = append(got, e.Op.String()+" "+filepath.Base(e.Name))
				if lag && rng.Intn(4) == 0 {
					time.Sleep(time.Duration(rng.Intn(400)) * time.Microsecond)
				}
			case <-time.After(watchdog):
				return
			}
		}
	}()
	for _, dg := range dgs {
		unix.Write(p.sock, dg)
		if rng.Intn(3) == 0 {
			time.Sleep(time.Duration(rng.Intn(200)) * time.Microsecond)
		}
	}
	<-done
	if d := firstDiff(want, got); d >= 0 {
		fail("C14", "identical-notifications-not-delivered-intact", "size=%d lag=%v delivered=%d of %d, first difference at %d: want %q got %q", sz, lag, len(got), len(want), d, at(want, d), at(got, d))
		fail("C01", "identical-notifications-lost", "size=%d", sz)
	}
	p.w.Close()
}

// otherWatchers: the stream of one Watcher does not depend on other Watchers on the same paths being created, used, closed
func otherWatchers(rng *rand.Rand, others int) {
	dir, _ := os.MkdirTemp("", "vconc")
	defer os.RemoveAll(dir)
	src, dst := filepath.Join(dir, "src"), filepath.Join(dir, "dst")
	os.Mkdir(src, 0o755)
	os.Mkdir(dst, 0o755)
	scen("other-watchers n=%d", others)
	history := func(tag string) {
		for i := 0; i < 6; i++ {
			f := filepath.Join(dst, fmt.Sprintf("%s%d", tag, i))
			os.WriteFile(f, []byte("x"), 0o644)
			os.Chmod(f, 0o600)
		}
		// a move from a directory only OTHER watchers watch into the one this watcher watches
		f := filepath.Join(src, tag+"mv")
		os.WriteFile(f, nil, 0o644)
		os.Rename(f, filepath.Join(dst, tag+"moved"))
		os.Remove(filepath.Join(dst, tag+"0"))
	}
	run := func(withOthers bool, tag string) []string {
		w, _ := newW(0)
		w.Add(dst)
		var ows []*fsnotify.Watcher
		stop := make(chan struct{})
		var wg sync.WaitGroup
		if withOthers {
			for i := 0; i < others; i++ {
				o, err := newW(0)
				if err != nil {
					continue
				}
				o.Add(src)
				if i%2 == 0 {
					o.Add(dst)
				}
				ows = append(ows, o)
				wg.Add(1)
				go func(o *fsnotify.Watcher, i int) { // the others consume eagerly, add/remove, some close early
					defer wg.Done()
					for {
						select {
						case _, ok := <-o.Events:
							if !ok {
								return
							}
						case <-o.Errors:
						case <-stop:
							return
						}
					}
				}(o, i)
			}
			time.Sleep(5 * time.Millisecond)
		}
		got := make(chan []string, 1)
		go func() { got <- collect(w, 20, "delayed", rng) }()
		history(tag)
		if withOthers && len(ows) > 0 {
			ows[0].Remove(dst)
			ows[0].Close()
		}
		r := <-got
		close(stop)
		for _, o := range ows {
			o.Close()
		}
		wg.Wait()
		// the closed other watcher must not have affected this one: it still works
		w.Close()
		for i := range r {
			r[i] = strings.Replace(r[i], tag, "", 1)
		}
		return r
	}
	alone := run(false, "p")
	together := run(true, "q")
	if strings.Join(alone, "|") != strings.Join(together, "|") {
		fail("C14", "stream-depends-on-other-watchers", "first difference at %d: alone=%q with-others=%q", firstDiff(alone, together), at(alone, firstDiff(alone, together)), at(together, firstDiff(alone, together)))
	}
	// a closed Watcher cannot disturb a later one that happens to reuse its descriptor number
	a, _ := newW(0)
	a.Add(dst)
	a.Close()
	b, _ := newW(8)
	b.Add(dst)
	a.Remove(dst)
	a.Add(dst)
	a.WatchList()
	os.WriteFile(filepath.Join(dst, "after-reuse"), nil, 0o644)
	select {
	case e := <-b.Events:
		if filepath.Base(e.Name) != "after-reuse" {
			fail("C14", "unexpected-event-after-reuse", "%v", e)
		}
	case <-time.After(watchdog):
		fail("C14", "closed-watcher-disturbs-later-one", "no event on the live watcher after calls on a closed one; WatchList=%v", b.WatchList())
	}
	b.Close()
}

// ------------------------------------------------------------------ C07: concurrent API use, linearizability

type op struct {
	kind   string // add remove list
	path   string
	inv    int64
	ret    int64
	result string
}

// linearizable: is there an order of the ops, respecting real time (a.ret < b.inv => a before b), in which a
// sequential watch set gives every op its observed result?
func linearizable(ops []op, initial map[string]bool) bool {
	n := len(ops)
	used := make([]bool, n)
	var dfs func(state map[string]bool, done int) bool
	dfs = func(state map[string]bool, done int) bool {
		if done == n {
			return true
		}
		for i := 0; i < n; i++ {
			if used[i] {
				continue
			}
			// minimal: no unused op returned before ops[i] was invoked
			ok := true
			for j := 0; j < n; j++ {
				if !used[j] && j != i && ops[j].ret < ops[i].inv {
					ok = false
					break
				}
			}
			if !ok {
				continue
			}
			ns := map[string]bool{}
			for k, v := range state {
				ns[k] = v
			}
			var exp string
			switch ops[i].kind {
			case "add":
				ns[ops[i].path] = true
				exp = "nil"
			case "remove":
				if ns[ops[i].path] {
					delete(ns, ops[i].path)
					exp = "nil"
				} else {
					exp = "nonexistent"
				}
			case "list":
				var l []string
				for k := range ns {
					l = append(l, filepath.Base(k))
				}
				sort.Strings(l)
				exp = strings.Join(l, ",")
			}
			if exp != ops[i].result {
				continue
			}
			used[i] = true
			if dfs(ns, done+1) {
				return true
			}
			used[i] = false
		}
		return false
	}
	return dfs(initial, 0)
}

func concurrentAPI(rng *rand.Rand, workers, perWorker int, withFsTraffic bool) {
	dir, _ := os.MkdirTemp("", "vconc")
	defer os.RemoveAll(dir)
	var paths []string
	for i := 0; i < 3; i++ {
		p := filepath.Join(dir, fmt.Sprintf("p%d", i))
		os.Mkdir(p, 0o755)
		paths = append(paths, p)
	}
	w, err := newW(0)
	if err != nil {
		return
	}
	go func() {
		for {
			select {
			case _, ok := <-w.Events:
				if !ok {
					return
				}
			case _, ok := <-w.Errors:
				if !ok {
					return
				}
			}
		}
	}()
	initial := map[string]bool{}
	if rng.Intn(2) == 0 {
		w.Add(paths[0])
		initial[paths[0]] = true
	}
	scen("concurrent-api workers=%d per=%d traffic=%v", workers, perWorker, withFsTraffic)
	var mu sync.Mutex
	var ops []op
	start := time.Now()
	stop := make(chan struct{})
	var twg sync.WaitGroup
	if withFsTraffic {
		twg.Add(1)
		go func() {
			defer twg.Done()
			for i := 0; ; i++ {
				select {
				case <-stop:
					return
				default:
				}
				f := filepath.Join(paths[i%3], "t")
				os.WriteFile(f, nil, 0o644)
				os.Remove(f)
			}
		}()
	}
	var wg sync.WaitGroup
	plans := make([][]op, workers)
	for g := 0; g < workers; g++ {
		for k := 0; k < perWorker; k++ {
			kind := []string{"add", "remove", "remove", "list"}[rng.Intn(4)]
			plans[g] = append(plans[g], op{kind: kind, path: paths[rng.Intn(2)]})
		}
	}
	for g := 0; g < workers; g++ {
		wg.Add(1)
		go func(g int) {
			defer wg.Done()
			for _, o := range plans[g] {
				o.inv = int64(time.Since(start))
				func() {
					defer func() {
						if r := recover(); r != nil {
							o.result = "panic"
						}
					}()
					switch o.kind {
					case "add":
						o.result = errStr(w.Add(o.path))
					case "remove":
						o.result = errStr(w.Remove(o.path))
					case "list":
						l := w.WatchList()
						var b []string
						for _, p := range l {
							b = append(b, filepath.Base(p))
						}
						sort.Strings(b)
						o.result = strings.Join(b, ",")
					}
				}()
				o.ret = int64(time.Since(start))
				mu.Lock()
				ops = append(ops, o)
				mu.Unlock()
				runtime.Gosched()
			}
		}(g)
	}
	wg.Wait()
	close(stop)
	twg.Wait()
	for _, o := range ops {
		if o.result == "panic" {
			fail("C07", "api-call-panicked", "%s %s", o.kind, filepath.Base(o.path))
		}
		if o.kind == "list" {
			parts := strings.Split(o.result, ",")
			for i := 1; i < len(parts); i++ {
				if parts[i] == parts[i-1] && parts[i] != "" {
					fail("C07", "watchlist-shows-a-path-twice", "%s", o.result)
				}
			}
		}
	}
	if !linearizable(ops, initial) {
		var d []string
		for _, o := range ops {
			d = append(d, fmt.Sprintf("%s(%s)=%s@[%d,%d]", o.kind, filepath.Base(o.path), o.result, o.inv/1000, o.ret/1000))
		}
		fail("C07", "not-linearizable", "%s", strings.Join(d, " "))
	}
	// shared result slices: two WatchList results must not alias
	l1 := w.WatchList()
	l2 := w.WatchList()
	if len(l1) > 0 && len(l2) > 0 {
		l1[0] = "clobbered"
		if l2[0] == "clobbered" {
			fail("C07", "watchlist-results-share-memory", "")
		}
	}
	if !withTimeout(func() { w.Close() }) {
		fail("C05", "close-blocked", "after concurrent api")
	}
}

// guard runs one scenario; a scenario that does not finish (some call of the library never returns and the scenario's
// own watchdogs do not cover it) is reported and abandoned, so that the harness itself always terminates
func guard(name string, f func()) {
	done := make(chan struct{})
	go func() { f(); close(done) }()
	select {
	case <-done:
	case <-time.After(12*watchdog + 30*time.Second):
		fail("C05", "scenario-hung", "%s: a library call never returned (goroutines: %d readers alive)", name, fsnotifyGoroutines())
		fail("C07", "deadlock", "%s: a library call never returned", name)
		hung++
		// the verdict is established once the property this run is for has a failure of its own; the remaining scenarios
		// would each wait just as long
		if (hung >= 2 && (*owner == "" || ownerFails > 0)) || hung >= 5 {
			fmt.Fprintf(out, "SUMMARY scenarios=%d failures=%d aborted_after_hung_scenarios=%d\n", nscen, nfail, hung)
			os.Exit(1)
		}
	}
}

func main() {
	seed := flag.Int64("seed", 1, "PRNG seed")
	tier := flag.String("tier", "quick", "quick|thorough")
	what := flag.String("what", "pending,closerace,cycles,limit,buffers,absorb,others,api,readerr", "scenario families")
	flag.Parse()
	rng := rand.New(rand.NewSource(*seed))
	thorough := *tier == "thorough"
	calibrate()
	has := func(s string) bool { return strings.Contains(","+*what+",", ","+s+",") }
	if has("pending") {
		caps := []uint{0, 1, 4, 4096}
		errsK := []string{"none", "overflow", "overflow-first", "short-read"}
		consumers := []string{"none", "events-only", "errors-only", "both", "stops-midway"}
		callSets := [][]string{{"list", "add", "remove", "close"}, {"close"}, {"remove-unknown", "list", "close", "close"}, {"add", "list"}, {"close", "list", "add", "remove"}}
		n := 40
		if thorough {
			n = 1500
		}
		for i := 0; i < n; i++ {
			c := caps[rng.Intn(len(caps))]
			nev := []int{0, 1, 2, 5, int(c) + 3}[rng.Intn(5)]
			e, co, cs, cc := errsK[rng.Intn(len(errsK))], consumers[rng.Intn(len(consumers))], callSets[rng.Intn(len(callSets))], rng.Intn(2) == 0
			guard("pending", func() { pendingScenario(rng, c, nev, e, co, cs, cc) })
		}
	}
	if has("closerace") {
		n := 12
		if thorough {
			n = 400
		}
		for i := 0; i < n; i++ {
			cp, cl, tr := []uint{0, 1, 64}[rng.Intn(3)], 1+rng.Intn(4), rng.Intn(3) != 0
			guard("closerace", func() { closeRace(rng, cp, cl, tr) })
		}
	}
	if has("closerace") {
		n := 60
		if thorough {
			n = 600
		}
		guard("overflow-then-close", func() { overflowThenClose(rng, n) })
		h := 150
		if thorough {
			h = 1500
		}
		guard("close-hammer", func() { closeHammer(rng, h) })
	}
	rounds := 1 // the families without a size parameter are repeated with fresh random draws in the thorough tier
	if thorough {
		rounds = 10
	}
	if has("closerace") || has("pending") {
		for r := 0; r < rounds; r++ {
			for _, how := range []string{"move-tree-in", "mkdir-p", "move-then-rename"} {
				how := how
				guard("recursive", func() { recursiveScenario(rng, 0, how) })
				guard("recursive", func() { recursiveScenario(rng, uint(1+rng.Intn(8)), how) })
			}
		}
	}
	if has("react") {
		n := 150
		if thorough {
			n = 1500
		}
		guard("recursive-react", func() { recursiveReact(rng, n, 0) })
		guard("recursive-react", func() { recursiveReact(rng, n/2, 8) })
	}
	if has("readerr") {
		for r := 0; r < rounds; r++ {
			guard("readerr", func() { readError(rng, true) })
			guard("readerr", func() { readError(rng, false) })
			for _, c := range []uint{0, 2, 64} {
				c := c
				guard("late-errors", func() { lateErrorsConsumer(rng, c, 150*time.Millisecond, false) })
				guard("late-errors", func() { lateErrorsConsumer(rng, c, 400*time.Millisecond, true) })
			}
		}
	}
	if has("cycles") {
		n := 300
		if thorough {
			n = 5000
		}
		guard("cycles", func() { resourceCycles(rng, n) })
	}
	if has("limit") {
		guard("limit", instanceLimit)
	}
	for r := 0; r < rounds; r++ {
		if has("buffers") {
			guard("buffers", func() { bufferSizes(rng) })
		}
		if has("absorb") {
			for _, sz := range []uint{1, 2, 8, 64, 1024} {
				sz := sz
				guard("absorb", func() { absorb(rng, sz) })
			}
			for _, sz := range []uint{0, 1, 8, 64} {
				sz := sz
				guard("absorb-repeats", func() { absorbRepeats(rng, sz, false) })
				guard("absorb-repeats", func() { absorbRepeats(rng, sz, true) })
			}
		}
		if has("others") {
			for _, k := range []int{1, 2, 3, 5, 7} {
				k := k
				guard("others", func() { otherWatchers(rng, k) })
			}
		}
	}
	if has("api") {
		for _, c := range []uint{0, 1, 8} {
			c := c
			guard("stale-entry-readd", func() { staleEntryReAdd(rng, c) })
		}
		n := 40
		if thorough {
			n = 1500
		}
		for i := 0; i < n; i++ {
			wk, tr := 2+rng.Intn(3), rng.Intn(2) == 0
			guard("api", func() { concurrentAPI(rng, wk, 2, tr) })
		}
	}
	fmt.Fprintf(out, "SUMMARY scenarios=%d failures=%d waits_for_inotify_instances=%d watchdog_doublings=%d final_watchdog=%v\n", nscen, nfail, envWaits, slowdowns, watchdog)
}
