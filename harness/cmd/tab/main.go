// tab — drives the real Op/Event functions and the real inotify flag translation
// (build tag verif) over enumerated inputs and prints one observation per line.
package main

import (
	"bufio"
	"encoding/hex"
	"errors"
	"flag"
	"fmt"
	"math/rand"
	"os"
	"path/filepath"
	"strconv"
	"strings"
	"syscall"
	"time"

	"github.com/fsnotify/fsnotify"
)

// safe runs f and reports a panic as the observation "PANIC" instead of crashing the harness
func safe(f func() string) (out string) {
	defer func() {
		if r := recover(); r != nil {
			out = "PANIC"
		}
	}()
	return f()
}

func hx(s string) string {
	if s == "" {
		return "-"
	}
	return hex.EncodeToString([]byte(s))
}

func fdinfoMarks(fd int) map[uint32]uint32 { // wd -> mask
	out := map[uint32]uint32{}
	b, err := os.ReadFile(fmt.Sprintf("/proc/self/fdinfo/%d", fd))
	if err != nil {
		return out
	}
	for _, l := range strings.Split(string(b), "\n") {
		if !strings.HasPrefix(l, "inotify ") {
			continue
		}
		var wd, mask uint64
		for _, f := range strings.Fields(l) {
			if strings.HasPrefix(f, "wd:") {
				wd, _ = strconv.ParseUint(f[3:], 16, 32)
			}
			if strings.HasPrefix(f, "mask:") {
				mask, _ = strconv.ParseUint(f[5:], 16, 32)
			}
		}
		out[uint32(wd)] = uint32(mask)
	}
	return out
}

func main() {
	seed := flag.Int64("seed", 1, "PRNG seed")
	tier := flag.String("tier", "quick", "quick|thorough")
	what := flag.String("what", "c15,c16", "which observation families")
	flag.Parse()
	rng := rand.New(rand.NewSource(*seed))
	w := bufio.NewWriterSize(os.Stdout, 1<<20)
	defer w.Flush()

	if strings.Contains(*what, "c15") {
		// 1. inotify newEvent over every assignment of the 12 native flag bits, alone and with housekeeping bits
		tr := fsnotify.VerifNewTranslator()
		inspected := []uint32{0x1, 0x2, 0x4, 0x8, 0x10, 0x20, 0x40, 0x80, 0x100, 0x200, 0x400, 0x800}
		house := []uint32{0, 0x40000000 /*ISDIR*/, 0x8000 /*IGNORED*/, 0x4000 /*Q_OVERFLOW*/, 0x2000 /*UNMOUNT*/, 0x40008000, 0xfffff000}
		for a := 0; a < 1<<12; a++ {
			var m uint32
			for i, b := range inspected {
				if a&(1<<i) != 0 {
					m |= b
				}
			}
			for _, h := range house {
				mm := m | h
				fmt.Fprintf(w, "newevent %d %s\n", mm, safe(func() string { return fmt.Sprint(uint32(tr.NewEvent("n", mm, 0).Op)) }))
			}
		}
		n := 2000
		if *tier == "thorough" {
			n = 200000
		}
		for i := 0; i < n; i++ {
			m := rng.Uint32()
			fmt.Fprintf(w, "newevent %d %s\n", m, safe(func() string { return fmt.Sprint(uint32(tr.NewEvent("n", m, 0).Op)) }))
		}
		// 2. request side: AddWith with every subset of the nine operations x noFollow, kernel mask from fdinfo
		dir, err := os.MkdirTemp("", "verif-tab")
		if err != nil {
			panic(err)
		}
		defer os.RemoveAll(dir)
		target := filepath.Join(dir, "f")
		os.WriteFile(target, []byte("x"), 0o644)
		link := filepath.Join(dir, "l")
		os.Symlink(target, link)
		stT, _ := os.Stat(target)
		_ = stT
		for ops := 0; ops < 1<<9; ops++ {
			for nf := 0; nf < 2; nf++ {
				wt, err := newW()
				if err != nil {
					panic(err)
				}
				opts := []fsnotify.VerifAddOpt{fsnotify.VerifWithOps(fsnotify.Op(ops))}
				if nf == 1 {
					opts = append(opts, fsnotify.VerifWithNoFollow())
				}
				err = wt.AddWith(link, opts...)
				res := "ok"
				mask := uint32(0)
				ino := uint64(0)
				if err != nil {
					res = "err"
				} else {
					marks := fdinfoMarks(fsnotify.VerifInotifyFd(wt))
					for _, mk := range marks {
						mask = mk
					}
					ino = markIno(fsnotify.VerifInotifyFd(wt))
				}
				followed := "-"
				if err == nil {
					if ino == inoOf(target, true) {
						followed = "target"
					} else if ino == inoOf(link, false) {
						followed = "link"
					} else {
						followed = "other"
					}
				}
				fmt.Fprintf(w, "request %d %d %s %d %s\n", ops, nf, res, mask, followed)
				wt.Close()
			}
		}
		// 3. xSupports
		wt, err := newW()
		if err != nil {
			panic(err)
		}
		for ops := 0; ops < 1<<10; ops++ {
			fmt.Fprintf(w, "supports %d %v\n", ops, fsnotify.VerifSupports(wt, fsnotify.Op(ops)))
		}
		wt.Close()
		fmt.Fprintf(w, "defaultops %d\n", uint32(fsnotify.VerifDefaultOps()))
	}

	if strings.Contains(*what, "c16") {
		// Op.String over all 2^16 low values, plus sampled high values
		for o := 0; o < 1<<16; o++ {
			o := o
			fmt.Fprintf(w, "opstring %d %s\n", o, safe(func() string { return hx(fsnotify.Op(o).String()) }))
		}
		n := 5000
		if *tier == "thorough" {
			n = 500000
		}
		for i := 0; i < n; i++ {
			o := rng.Uint32()
			fmt.Fprintf(w, "opstring %d %s\n", o, safe(func() string { return hx(fsnotify.Op(o).String()) }))
		}
		// Op.Has / Event.Has: all 2^10 x all 2^10 low values, every single-bit probe against sampled words
		for o := 0; o < 1<<10; o++ {
			for h := 0; h < 1<<10; h++ {
				r := fsnotify.Op(o).Has(fsnotify.Op(h))
				r2 := fsnotify.Event{Op: fsnotify.Op(o)}.Has(fsnotify.Op(h))
				fmt.Fprintf(w, "has %d %d %v %v\n", o, h, r, r2)
			}
		}
		for i := 0; i < n; i++ {
			o, h := rng.Uint32(), rng.Uint32()
			if i%3 == 0 {
				h = 1 << uint(rng.Intn(32))
			}
			if i%7 == 0 {
				h = ^o // disjoint
			}
			r := fsnotify.Op(o).Has(fsnotify.Op(h))
			r2 := fsnotify.Event{Op: fsnotify.Op(o)}.Has(fsnotify.Op(h))
			fmt.Fprintf(w, "has %d %d %v %v\n", o, h, r, r2)
		}
		// Event.String over a family of names; Go's own %q is supplied as data
		names := []string{"", "a", "/tmp/file", "with space", "quo\"te", "multi\nline", "tab\there", "\xff\xfe not utf8",
			"ünï©ødé", "back\\slash", "nul\x00byte", strings.Repeat("x", 300), "← arrow", "%s %d %q", "trailing ", " leading"}
		ops := []uint32{0, 1, 2, 4, 8, 16, 3, 9, 31, 32, 64, 128, 256, 511, 512, 1 << 31, 0xffffffff, 24, 5}
		for _, nm := range names {
			for _, fr := range names {
				for _, op := range ops {
					e := fsnotify.VerifMakeEvent(nm, fsnotify.Op(op), fr)
					fmt.Fprintf(w, "evstring %s %d %s %s %s %s\n", hx(nm), op, hx(fr), safe(func() string { return hx(e.String()) }),
						hx(strconv.Quote(nm)), hx(strconv.Quote(fr)))
				}
			}
		}
	}
}

// newW: EMFILE is the per-user limit on inotify instances, shared with every other process of this user; this process
// holds one instance at a time, so wait for the environment
func newW() (w *fsnotify.Watcher, err error) {
	for deadline := time.Now().Add(120 * time.Second); ; {
		w, err = fsnotify.NewWatcher()
		if err == nil || !(errors.Is(err, syscall.EMFILE) || errors.Is(err, syscall.ENFILE)) || time.Now().After(deadline) {
			return
		}
		time.Sleep(250 * time.Millisecond)
	}
}
