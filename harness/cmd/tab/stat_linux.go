package main

import (
	"fmt"
	"os"
	"strconv"
	"strings"
	"syscall"
)

func inoOf(path string, follow bool) uint64 {
	var st syscall.Stat_t
	var err error
	if follow {
		err = syscall.Stat(path, &st)
	} else {
		err = syscall.Lstat(path, &st)
	}
	if err != nil {
		return 0
	}
	return st.Ino
}

// markIno returns the inode of the (single) mark of an inotify descriptor.
func markIno(fd int) uint64 {
	b, err := os.ReadFile(fmt.Sprintf("/proc/self/fdinfo/%d", fd))
	if err != nil {
		return 0
	}
	for _, l := range strings.Split(string(b), "\n") {
		if !strings.HasPrefix(l, "inotify ") {
			continue
		}
		for _, f := range strings.Fields(l) {
			if strings.HasPrefix(f, "ino:") {
				v, _ := strconv.ParseUint(f[4:], 16, 64)
				return v
			}
		}
	}
	return 0
}
