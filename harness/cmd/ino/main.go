// ino — man-in-the-middle correspondence harness for the inotify backend.
//
// The Watcher under test is created with VerifNewPipedWatcher: every
// inotify_add_watch / inotify_rm_watch goes to a real inotify descriptor, but the
// reader goroutine reads from a SOCK_SEQPACKET socket owned by this program.
// The harness performs real filesystem operations in a private directory, reads
// the raw kernel stream itself (ground truth), and forwards it to the library in
// batches of its own choosing, possibly late and possibly with injected records.
// After every batch a sentinel record proves that the reader has handled it.
//
// A *script* (abstract steps) is executed into a *history* (the same steps with
// everything observed), which the extracted Coq model replays.
package main

import (
	"bufio"
	"encoding/binary"
	"encoding/hex"
	"errors"
	"flag"
	"fmt"
	"math/rand"
	"os"
	"path/filepath"
	"sort"
	"strconv"
	"strings"
	"syscall"
	"time"

	"github.com/fsnotify/fsnotify"
	"golang.org/x/sys/unix"
)

func hx(s string) string {
	if s == "" {
		return "-"
	}
	return hex.EncodeToString([]byte(s))
}

func unhx(s string) string {
	if s == "-" {
		return ""
	}
	b, err := hex.DecodeString(s)
	if err != nil {
		panic("bad hex " + s)
	}
	return string(b)
}

// ------------------------------------------------------------------ raw records

type rawRec struct {
	wd     int32
	mask   uint32
	cookie uint32
	length uint32
	name   string // trimmed
	bytes  []byte // exactly as read / built
}

func parseRaw(buf []byte) []rawRec {
	var out []rawRec
	off := 0
	for off+16 <= len(buf) {
		r := rawRec{
			wd:     int32(binary.LittleEndian.Uint32(buf[off:])),
			mask:   binary.LittleEndian.Uint32(buf[off+4:]),
			cookie: binary.LittleEndian.Uint32(buf[off+8:]),
			length: binary.LittleEndian.Uint32(buf[off+12:]),
		}
		end := off + 16 + int(r.length)
		if end > len(buf) {
			break
		}
		r.name = strings.TrimRight(string(buf[off+16:end]), "\x00")
		r.bytes = append([]byte(nil), buf[off:end]...)
		out = append(out, r)
		off = end
	}
	return out
}

func buildRaw(wd int32, mask, cookie uint32, name string, pad int) rawRec {
	l := len(name) + pad
	b := make([]byte, 16+l)
	binary.LittleEndian.PutUint32(b[0:], uint32(wd))
	binary.LittleEndian.PutUint32(b[4:], mask)
	binary.LittleEndian.PutUint32(b[8:], cookie)
	binary.LittleEndian.PutUint32(b[12:], uint32(l))
	copy(b[16:], name)
	return rawRec{wd: wd, mask: mask, cookie: cookie, length: uint32(l), name: name, bytes: b}
}

func (r rawRec) fields() string {
	return fmt.Sprintf("%d %d %d %d %s", uint32(r.wd), r.mask, r.cookie, r.length, hx(r.name))
}

// ------------------------------------------------------------------ the system under test

type output struct {
	isErr bool
	ev    fsnotify.Event
	err   error
}

type sut struct {
	w        *fsnotify.Watcher
	realFd   int
	sock     int // harness end of the socketpair
	outs     chan output
	done     chan struct{}
	pending  []rawRec // read from the kernel, not yet forwarded
	sentinel string
	sentWd   int32
	out      *bufio.Writer
	root     string
	openFds  map[int]*os.File
	recurse  bool
	stalled  bool
}

var stallsConfirmed int

func newSut(root, sentinel string, capEv uint, out *bufio.Writer) (*sut, error) {
	fds, err := unix.Socketpair(unix.AF_UNIX, unix.SOCK_SEQPACKET|unix.SOCK_CLOEXEC|unix.SOCK_NONBLOCK, 0)
	if err != nil {
		return nil, err
	}
	unix.SetNonblock(fds[1], false)
	unix.SetsockoptInt(fds[1], unix.SOL_SOCKET, unix.SO_SNDBUF, 1<<20)
	// EMFILE here is the per-user limit on inotify instances, shared with every other process of this user: this
	// process holds one instance at a time, so wait for the environment rather than report a failure of the library
	var w *fsnotify.Watcher
	var rfd int
	for deadline := time.Now().Add(120 * time.Second); ; {
		w, rfd, err = fsnotify.VerifNewPipedWatcher(capEv, fds[0])
		if err == nil || !(errors.Is(err, unix.EMFILE) || errors.Is(err, unix.ENFILE)) || time.Now().After(deadline) {
			break
		}
		time.Sleep(250 * time.Millisecond)
	}
	if err != nil {
		unix.Close(fds[0])
		unix.Close(fds[1])
		return nil, err
	}
	s := &sut{w: w, realFd: rfd, sock: fds[1], outs: make(chan output, 1<<16), done: make(chan struct{}),
		sentinel: sentinel, out: out, root: root, openFds: map[int]*os.File{}}
	go func() {
		evc, erc := w.Events, w.Errors
		for evc != nil || erc != nil {
			select {
			case e, ok := <-evc:
				if !ok {
					evc = nil
					continue
				}
				s.outs <- output{ev: e}
			case e, ok := <-erc:
				if !ok {
					erc = nil
					continue
				}
				s.outs <- output{isErr: true, err: e}
			}
		}
		close(s.done)
	}()
	return s, nil
}

func (s *sut) close() {
	s.w.Close()
	unix.Close(s.sock)
	unix.Close(s.realFd)
	for _, f := range s.openFds {
		f.Close()
	}
}

// drainKernel reads everything the real inotify descriptor has queued.
func (s *sut) drainKernel() []rawRec {
	var out []rawRec
	buf := make([]byte, 1<<20)
	for {
		n, err := unix.Read(s.realFd, buf)
		if n > 0 {
			out = append(out, parseRaw(buf[:n])...)
			continue
		}
		if err == unix.EINTR {
			continue
		}
		break
	}
	return out
}

type mark struct {
	wd   uint32
	ino  uint64
	mask uint32
}

func (s *sut) marks() []mark {
	var out []mark
	b, err := os.ReadFile(fmt.Sprintf("/proc/self/fdinfo/%d", s.realFd))
	if err != nil {
		return nil
	}
	for _, l := range strings.Split(string(b), "\n") {
		if !strings.HasPrefix(l, "inotify ") {
			continue
		}
		var m mark
		for _, f := range strings.Fields(l) {
			switch {
			case strings.HasPrefix(f, "wd:"):
				v, _ := strconv.ParseUint(f[3:], 16, 32) // fdinfo prints wd in hex
				m.wd = uint32(v)
			case strings.HasPrefix(f, "ino:"):
				m.ino, _ = strconv.ParseUint(f[4:], 16, 64)
			case strings.HasPrefix(f, "mask:"):
				v, _ := strconv.ParseUint(f[5:], 16, 32)
				m.mask = uint32(v)
			}
		}
		out = append(out, m)
	}
	sort.Slice(out, func(i, j int) bool { return out[i].wd < out[j].wd })
	return out
}

func (s *sut) stateLine() {
	var ms, tw, tp []string
	for _, m := range s.marks() {
		ms = append(ms, fmt.Sprintf("%d:%d", m.wd, m.ino))
	}
	ws, ps := fsnotify.VerifTableDump(s.w)
	for _, x := range ws {
		rec := 0
		if x.Recurse {
			rec = 1
		}
		tw = append(tw, fmt.Sprintf("%d:%s:%d:%d", x.Wd, hx(x.Path), x.Flags, rec))
	}
	for _, p := range ps {
		tp = append(tp, fmt.Sprintf("%s:%d", hx(p.Path), p.Wd))
	}
	fmt.Fprintf(s.out, "state marks=%s twd=%s tpath=%s pending=%d\n", strings.Join(ms, ","), strings.Join(tw, ","), strings.Join(tp, ","), len(s.pending))
}

func errClass(err error) string {
	switch {
	case err == nil:
		return "nil"
	case errors.Is(err, fsnotify.ErrNonExistentWatch):
		return "nonexistent"
	case errors.Is(err, fsnotify.ErrClosed):
		return "closed"
	case errors.Is(err, fsnotify.ErrEventOverflow):
		return "overflow"
	case errors.Is(err, syscall.ENOENT):
		return "ENOENT"
	case errors.Is(err, syscall.ENOTDIR):
		return "ENOTDIR"
	case errors.Is(err, syscall.ELOOP):
		return "ELOOP"
	case errors.Is(err, syscall.ENAMETOOLONG):
		return "ENAMETOOLONG"
	case errors.Is(err, syscall.EACCES):
		return "EACCES"
	case errors.Is(err, syscall.EINVAL):
		return "EINVAL"
	case errors.Is(err, syscall.ENOSPC):
		return "ENOSPC"
	case strings.Contains(err.Error(), "can't use /... with non-recursive"):
		return "recurse-on-nonrecursive"
	}
	return "other"
}

func errnoClass(err error) string {
	c := errClass(err)
	switch c {
	case "ENOENT", "ENOTDIR", "ELOOP", "ENAMETOOLONG", "EACCES", "EINVAL", "ENOSPC":
		return c
	}
	return "EOTHER"
}

// resolve: what inotify_add_watch(path) will resolve to, taken just before the call.
func resolve(path string, nofollow bool) string {
	var st syscall.Stat_t
	var err error
	if nofollow {
		err = syscall.Lstat(path, &st)
	} else {
		err = syscall.Stat(path, &st)
	}
	if err != nil {
		return "e" + errnoClass(err)
	}
	return fmt.Sprintf("i%d", st.Ino)
}

// afterStep records what the kernel queued during the step. env=true: the records are the environment's
// (filesystem operation); env=false: they were caused by the library's own syscalls and the model must
// already have predicted them.
func (s *sut) afterStep(env bool) {
	recs := s.drainKernel()
	for i := 0; i < len(recs); i++ {
		r := recs[i]
		switch {
		case !env:
			fmt.Fprintf(s.out, "kauto %s\n", r.fields())
		case r.mask&unix.IN_Q_OVERFLOW != 0:
			fmt.Fprintf(s.out, "koverflow\n")
		case r.mask == unix.IN_DELETE_SELF && i+1 < len(recs) && recs[i+1].wd == r.wd && recs[i+1].mask&unix.IN_IGNORED != 0:
			// the kernel reports IN_DELETE_SELF and drops the mark in one go
			fmt.Fprintf(s.out, "krelease %d 1\n", uint32(r.wd))
			s.pending = append(s.pending, r)
			i++
			r = recs[i]
		case r.mask&unix.IN_IGNORED != 0:
			fmt.Fprintf(s.out, "krelease %d 0\n", uint32(r.wd))
		default:
			fmt.Fprintf(s.out, "kemit %s\n", r.fields())
		}
		s.pending = append(s.pending, r)
	}
}

func (s *sut) dirsField() string {
	if !s.recurse {
		return "-"
	}
	var ds []string
	filepath.WalkDir(s.root, func(p string, d os.DirEntry, err error) error {
		if err == nil && d.IsDir() {
			var st syscall.Stat_t
			if syscall.Lstat(p, &st) == nil {
				ds = append(ds, fmt.Sprintf("%s:%d", hx(p), st.Ino))
			}
		}
		return nil
	})
	if len(ds) == 0 {
		return "-"
	}
	return strings.Join(ds, ",")
}

// process forwards one datagram made of the given parts followed by the sentinel and waits for the sentinel event.
// parts: 'R' = next pending real record, 'I' = the next injected record from inj.
func (s *sut) process(parts string, inj []rawRec) {
	var dg []byte
	used := ""
	ii := 0
	for _, p := range parts {
		switch p {
		case 'R':
			if len(s.pending) == 0 {
				continue
			}
			if len(dg)+len(s.pending[0].bytes)+16 > 65536 { // room for the sentinel record; the datagram may fill the reader's buffer exactly
				continue
			}
			dg = append(dg, s.pending[0].bytes...)
			s.pending = s.pending[1:]
			used += "R"
		case 'I':
			if ii < len(inj) {
				dg = append(dg, inj[ii].bytes...)
				ii++
				used += "I"
			}
		}
	}
	sent := buildRaw(s.sentWd, unix.IN_CLOSE_NOWRITE, 0, "", 0)
	dg = append(dg, sent.bytes...)
	used += "S"
	dirs := s.dirsField()
	if _, err := unix.Write(s.sock, dg); err != nil {
		fmt.Fprintf(s.out, "process %s %s dirs=%s => WRITE-ERROR %v\n", used, hex.EncodeToString(dg), dirs, err)
		s.stalled = true
		return
	}
	var outs []string
	// a stalled reader stays stalled; a slow machine does not: the first stall of a run is confirmed by a long wait,
	// after that the verdict is established and the short wait is trusted again
	wait := 60 * time.Second
	if stallsConfirmed > 0 || os.Getenv("VERIF_STALL_CONFIRMED") != "" { // set while minimising a history whose stall was confirmed
		wait = 5 * time.Second
	}
	timeout := time.After(wait)
	status := "ok"
loop:
	for {
		select {
		case o := <-s.outs:
			if o.isErr {
				outs = append(outs, "X:"+errClass(o.err))
				continue
			}
			if o.ev.Name == s.sentinel && o.ev.Op == fsnotify.VerifUnportableCloseRead {
				break loop
			}
			outs = append(outs, fmt.Sprintf("E:%s:%d:%s", hx(o.ev.Name), uint32(o.ev.Op), hx(fsnotify.VerifRenamedFrom(o.ev))))
		case <-s.done:
			status = "reader-exited"
			break loop
		case <-timeout:
			status = "stalled"
			s.stalled = true
			stallsConfirmed++
			break loop
		}
	}
	o := "-"
	if len(outs) > 0 {
		o = strings.Join(outs, ",")
	}
	fmt.Fprintf(s.out, "process %s %s dirs=%s => %s %s\n", used, hex.EncodeToString(dg), dirs, status, o)
	s.afterStep(false)
	s.stateLine()
}

// ------------------------------------------------------------------ script steps

// A script line is one of
//
//	fs <op> <args…>           paths relative to the root (which is also the cwd)
//	add <arg> <ops> <nofollow>   arg may contain $R (the absolute root)
//	remove <arg>
//	list
//	proc <parts> [inject specs…]   parts over {R,I}; "A" = all pending (as R…)
//	inject spec:  wd|mask|cookie|namehex|pad     wd may be "S" (sentinel) or a number or "L<k>" (k-th live wd)
type step struct{ f []string }

func (s *sut) sub(arg string) string { return strings.ReplaceAll(arg, "$R", s.root) }

func (s *sut) runStep(st step) {
	f := st.f
	switch f[0] {
	case "fs":
		res := s.fsOp(f[1:])
		fmt.Fprintf(s.out, "fs %s => %s\n", strings.Join(f[1:], " "), res)
		s.afterStep(true)
		s.stateLine()
	case "add":
		arg := s.sub(unhx(f[1]))
		ops, _ := strconv.ParseUint(f[2], 10, 32)
		nofollow := f[3] == "1"
		opts := []fsnotify.VerifAddOpt{fsnotify.VerifWithOps(fsnotify.Op(ops))}
		if nofollow {
			opts = append(opts, fsnotify.VerifWithNoFollow())
		}
		walk := s.walkFor(arg, nofollow)
		cls := s.guard(func() error { return s.w.AddWith(arg, opts...) })
		fmt.Fprintf(s.out, "add %s %d %s %s => %s\n", hx(arg), ops, f[3], walk, cls)
		s.afterStep(false)
		s.stateLine()
	case "remove":
		arg := s.sub(unhx(f[1]))
		cls := s.guard(func() error { return s.w.Remove(arg) })
		fmt.Fprintf(s.out, "remove %s => %s\n", hx(arg), cls)
		s.afterStep(false)
		s.stateLine()
	case "list":
		l := s.w.WatchList()
		sort.Strings(l)
		var hs []string
		for _, p := range l {
			hs = append(hs, hx(p))
		}
		o := "-"
		if len(hs) > 0 {
			o = strings.Join(hs, ",")
		}
		fmt.Fprintf(s.out, "list => %s\n", o)
	case "proc":
		parts := f[1]
		if parts == "A" {
			parts = strings.Repeat("R", len(s.pending))
		}
		var inj []rawRec
		for _, spec := range f[2:] {
			inj = append(inj, s.parseInject(spec))
		}
		s.process(parts, inj)
	}
}

func (s *sut) guard(fn func() error) (cls string) {
	defer func() {
		if r := recover(); r != nil {
			cls = "panic"
		}
	}()
	return errClass(fn())
}

func (s *sut) parseInject(spec string) rawRec {
	p := strings.Split(spec, "|")
	var wd int32
	switch {
	case p[0] == "S":
		wd = s.sentWd
	case strings.HasPrefix(p[0], "L"):
		k, _ := strconv.Atoi(p[0][1:])
		all, _ := fsnotify.VerifTableDump(s.w)
		var ws []fsnotify.VerifWatch
		for _, x := range all {
			if int32(x.Wd) != s.sentWd { // never aim a fault at the sentinel watch
				ws = append(ws, x)
			}
		}
		if len(ws) > 0 {
			wd = int32(ws[k%len(ws)].Wd)
		} else {
			wd = 9999
		}
	default:
		v, _ := strconv.ParseInt(p[0], 10, 64)
		wd = int32(v)
	}
	mask, _ := strconv.ParseUint(p[1], 10, 32)
	cookie, _ := strconv.ParseUint(p[2], 10, 32)
	pad, _ := strconv.Atoi(p[4])
	return buildRaw(wd, uint32(mask), uint32(cookie), unhx(p[3]), pad)
}

// walkFor: the (path, resolution) pairs inotify_add_watch will see for this Add.
func (s *sut) walkFor(arg string, nofollow bool) string {
	clean := filepath.Clean(arg)
	if s.recurse && filepath.Base(clean) == "..." {
		root := filepath.Dir(clean)
		var ws []string
		fi, err := os.Lstat(root)
		if err != nil {
			return hx(root) + ":e" + errnoClass(err) + ":e" + errnoClass(err)
		}
		if !fi.IsDir() {
			return hx(root) + ":eEOTHER:eEOTHER"
		}
		filepath.WalkDir(root, func(p string, d os.DirEntry, err error) error {
			if err == nil && d.IsDir() {
				ws = append(ws, hx(p)+":"+resolve(p, false)+":"+resolve(p, true))
			}
			return nil
		})
		return strings.Join(ws, ",")
	}
	return hx(clean) + ":" + resolve(clean, false) + ":" + resolve(clean, true)
}

func (s *sut) fsOp(f []string) string {
	p := func(i int) string { return filepath.Join(s.root, f[i]) }
	var err error
	switch f[0] {
	case "create":
		var fh *os.File
		fh, err = os.OpenFile(p(1), os.O_CREATE|os.O_EXCL|os.O_WRONLY, 0o644)
		if err == nil {
			fh.Close()
		}
	case "write":
		var fh *os.File
		fh, err = os.OpenFile(p(1), os.O_WRONLY|os.O_APPEND, 0)
		if err == nil {
			_, err = fh.Write([]byte("x"))
			fh.Close()
		}
	case "truncate":
		err = os.Truncate(p(1), 0)
	case "chmod":
		var fi os.FileInfo
		fi, err = os.Stat(p(1))
		if err == nil {
			err = os.Chmod(p(1), fi.Mode().Perm()^0o010)
		}
	case "unlink":
		err = syscall.Unlink(p(1))
	case "mkdir":
		err = os.Mkdir(p(1), 0o755)
	case "rmdir":
		err = syscall.Rmdir(p(1))
	case "rename":
		err = os.Rename(p(1), p(2))
	case "link":
		err = os.Link(p(1), p(2))
	case "symlink":
		// f[1] is the link text verbatim (may be relative or use $R)
		err = os.Symlink(s.sub(f[1]), p(2))
	case "open":
		var fh *os.File
		fh, err = os.Open(p(1))
		if err == nil {
			slot, _ := strconv.Atoi(f[2])
			if old, ok := s.openFds[slot]; ok {
				old.Close()
			}
			s.openFds[slot] = fh
		}
	case "close":
		slot, _ := strconv.Atoi(f[1])
		if fh, ok := s.openFds[slot]; ok {
			err = fh.Close()
			delete(s.openFds, slot)
		}
	case "rmrf":
		err = os.RemoveAll(p(1))
	case "leavecwd":
		// the process leaves the (deleted) working directory: the kernel can now free its inode
		err = os.Chdir("/")
	case "burst":
		// many writes without draining: used to overflow the kernel queue
		n, _ := strconv.Atoi(f[2])
		for i := 0; i < n; i++ {
			name := filepath.Join(p(1), fmt.Sprintf("b%d", i%7))
			if fh, e := os.OpenFile(name, os.O_CREATE|os.O_WRONLY, 0o644); e == nil {
				fh.Close()
			}
			os.Remove(name)
		}
	default:
		return "unknown-op"
	}
	if err != nil {
		return "err:" + errnoClass(err)
	}
	return "ok"
}

// ------------------------------------------------------------------ executing a script

func execScript(id int, steps []step, recurse bool, capEv uint, out *bufio.Writer) error {
	base, err := os.MkdirTemp("", "vino")
	if err != nil {
		return err
	}
	defer os.RemoveAll(base)
	base, _ = filepath.EvalSymlinks(base)
	root := filepath.Join(base, "r")
	os.Mkdir(root, 0o755)
	sentinel := filepath.Join(base, "sentinel")
	os.WriteFile(sentinel, nil, 0o644)
	old, _ := os.Getwd()
	os.Chdir(root)
	defer os.Chdir(old)
	fsnotify.VerifSetRecurse(recurse)
	s, err := newSut(root, sentinel, capEv, out)
	if err != nil {
		return err
	}
	defer s.close()
	s.recurse = recurse
	rc := 0
	if recurse {
		rc = 1
	}
	fmt.Fprintf(out, "H %d recurse=%d cwd=%s root=%s\n", id, rc, hx(root), hx(root))
	// the sentinel watch is part of the history
	s.runStep(step{[]string{"add", hx(sentinel), "256", "0"}})
	for _, m := range s.marks() {
		s.sentWd = int32(m.wd)
	}
	for _, st := range steps {
		if s.stalled {
			fmt.Fprintf(out, "abort stalled\n")
			break
		}
		s.runStep(st)
	}
	if !s.stalled {
		// always finish by handling everything that is pending, then list
		for i := 0; i < 4 && (i == 0 || len(s.pending) > 0) && !s.stalled; i++ {
			s.runStep(step{[]string{"proc", "A"}})
		}
		s.runStep(step{[]string{"list"}})
	}
	fmt.Fprintf(out, "end\n")
	return out.Flush()
}

func main() {
	seed := flag.Int64("seed", 1, "PRNG seed")
	n := flag.Int("n", 10, "number of histories")
	steps := flag.Int("steps", 40, "steps per history")
	family := flag.String("family", "mix", "generator family")
	script := flag.String("script", "", "execute this script file instead of generating (replay / minimisation)")
	outp := flag.String("out", "", "history output file (default stdout)")
	scriptsOut := flag.String("scripts-out", "", "also write the generated scripts here")
	pathlex := flag.Int("pathlex", 0, "instead of histories: filepath.Clean of every string over {a,b,.,/} up to this length, plus random longer ones (lines 'pl arg clean')")
	flag.Parse()
	w := bufio.NewWriterSize(os.Stdout, 1<<20)
	if *outp != "" {
		f, err := os.Create(*outp)
		if err != nil {
			panic(err)
		}
		defer f.Close()
		w = bufio.NewWriterSize(f, 1<<20)
	}
	defer w.Flush()
	if *pathlex > 0 {
		pathlexSweep(w, *pathlex, *seed)
		return
	}
	if *script != "" {
		scripts := readScripts(*script)
		for i, sc := range scripts {
			if err := execScript(sc.id, sc.steps, sc.recurse, 0, w); err != nil {
				fmt.Fprintf(os.Stderr, "script %d: %v\n", i, err)
				os.Exit(3)
			}
		}
		return
	}
	rng := rand.New(rand.NewSource(*seed))
	var sw *bufio.Writer
	if *scriptsOut != "" {
		f, err := os.Create(*scriptsOut)
		if err != nil {
			panic(err)
		}
		defer f.Close()
		sw = bufio.NewWriter(f)
		defer sw.Flush()
	}
	for i := 0; i < *n; i++ {
		id := int(*seed)*100000 + i
		sc := generate(rng, *family, *steps)
		sc.id = id
		if sw != nil {
			writeScript(sw, sc)
		}
		if err := execScript(id, sc.steps, sc.recurse, 0, w); err != nil {
			fmt.Fprintf(os.Stderr, "history %d: %v\n", id, err)
			os.Exit(3)
		}
	}
}

type scriptT struct {
	id      int
	recurse bool
	steps   []step
}

func writeScript(w *bufio.Writer, sc scriptT) {
	rc := 0
	if sc.recurse {
		rc = 1
	}
	fmt.Fprintf(w, "S %d recurse=%d\n", sc.id, rc)
	for _, st := range sc.steps {
		fmt.Fprintln(w, strings.Join(st.f, " "))
	}
	fmt.Fprintln(w, "end")
}

func readScripts(path string) []scriptT {
	b, err := os.ReadFile(path)
	if err != nil {
		panic(err)
	}
	var out []scriptT
	var cur *scriptT
	for _, l := range strings.Split(string(b), "\n") {
		l = strings.TrimSpace(l)
		if l == "" || strings.HasPrefix(l, "#") {
			continue
		}
		f := strings.Fields(l)
		switch f[0] {
		case "S":
			id, _ := strconv.Atoi(f[1])
			out = append(out, scriptT{id: id, recurse: len(f) > 2 && f[2] == "recurse=1"})
			cur = &out[len(out)-1]
		case "end":
			cur = nil
		default:
			if cur != nil {
				cur.steps = append(cur.steps, step{f})
			}
		}
	}
	return out
}

// pathlexSweep: the lexical path function the library applies to every Add / Remove argument, on every string over a
// four-letter alphabet up to length maxLen and on 4000 random longer strings over a wider one; the driver compares each
// line with PathLex.clean of the Coq model.
func pathlexSweep(w *bufio.Writer, maxLen int, seed int64) {
	alpha := []byte("ab./")
	var rec func(cur []byte, left int)
	rec = func(cur []byte, left int) {
		s := string(cur)
		fmt.Fprintf(w, "pl %s %s\n", hx(s), hx(filepath.Clean(s)))
		if left == 0 {
			return
		}
		for _, c := range alpha {
			rec(append(cur, c), left-1)
		}
	}
	rec(nil, maxLen)
	rng := rand.New(rand.NewSource(seed))
	comps := []string{"a", "bc", ".", "..", "", "...", "d.e", ".f", "g.", "\xc3\xa9", " "}
	for i := 0; i < 4000; i++ {
		var b strings.Builder
		if rng.Intn(3) == 0 {
			b.WriteString("/")
		}
		n := 1 + rng.Intn(9)
		for j := 0; j < n; j++ {
			b.WriteString(comps[rng.Intn(len(comps))])
			if j < n-1 || rng.Intn(3) == 0 {
				b.WriteString("/")
			}
		}
		s := b.String()
		fmt.Fprintf(w, "pl %s %s\n", hx(s), hx(filepath.Clean(s)))
	}
}
