package main

import (
	"fmt"
	"math/rand"
	"sort"
	"strings"
)

// world: the generator's own picture of the tree below the root, used to pick mostly-applicable operations.
type world struct {
	dirs       map[string]bool
	files      map[string]bool
	links      map[string]string
	slots      map[int]bool
	watched    []string // Add arguments used so far (script form, may contain $R)
	rng        *rand.Rand
	names      []string
	moveSerial int
}

func newWorld(rng *rand.Rand) *world {
	return &world{dirs: map[string]bool{}, files: map[string]bool{}, links: map[string]string{}, slots: map[int]bool{}, rng: rng}
}

func keys(m map[string]bool) []string {
	var k []string
	for x := range m {
		k = append(k, x)
	}
	sort.Strings(k)
	return k
}

func (w *world) pick(l []string) (string, bool) {
	if len(l) == 0 {
		return "", false
	}
	return l[w.rng.Intn(len(l))], true
}

var baseNames = []string{"f0", "f1", "f2", "a", "b", "sub", "sub2", "dir1", "dir10", "x y", ".hid", "-dash", "ünï", "f0.tmp"}

func longName(rng *rand.Rand, n int) string {
	var b strings.Builder
	alphabet := "abcdefghijklmnopqrstuvwxyz0123456789"
	for b.Len() < n {
		b.WriteByte(alphabet[rng.Intn(len(alphabet))])
	}
	return b.String()[:n]
}

func (w *world) freshName() string {
	r := w.rng.Intn(10)
	if r < 6 {
		return baseNames[w.rng.Intn(len(baseNames))]
	}
	lens := []int{1, 15, 16, 17, 31, 32, 33, 47, 48, 49, 63, 64, 100, 254, 255}
	return longName(w.rng, lens[w.rng.Intn(len(lens))])
}

func join(d, n string) string {
	if d == "" {
		return n
	}
	return d + "/" + n
}

func (w *world) anyDir() string { // "" = root
	ds := append([]string{""}, keys(w.dirs)...)
	return ds[w.rng.Intn(len(ds))]
}

func (w *world) anyEntry() (string, bool) {
	all := append(keys(w.files), keys(w.dirs)...)
	for l := range w.links {
		all = append(all, l)
	}
	sort.Strings(all)
	return w.pick(all)
}

func under(p, d string) bool { return p == d || strings.HasPrefix(p, d+"/") }

func (w *world) removeTree(d string) {
	for _, m := range []map[string]bool{w.dirs, w.files} {
		for p := range m {
			if under(p, d) {
				delete(m, p)
			}
		}
	}
	for p := range w.links {
		if under(p, d) {
			delete(w.links, p)
		}
	}
}

func (w *world) moveTree(a, b string) {
	mv := func(m map[string]bool) {
		add := map[string]bool{}
		for p := range m {
			if under(p, a) {
				delete(m, p)
				add[b+p[len(a):]] = true
			}
		}
		for p := range add {
			m[p] = true
		}
	}
	mv(w.dirs)
	mv(w.files)
	addl := map[string]string{}
	for p, t := range w.links {
		if under(p, a) {
			delete(w.links, p)
			addl[b+p[len(a):]] = t
		}
	}
	for p, t := range addl {
		w.links[p] = t
	}
}

func (w *world) hasChildren(d string) bool {
	for _, m := range []map[string]bool{w.dirs, w.files} {
		for p := range m {
			if p != d && under(p, d) {
				return true
			}
		}
	}
	for p := range w.links {
		if under(p, d) {
			return true
		}
	}
	return false
}

// spell: one of the equivalent spellings of the relative path p (cwd = root)
func (w *world) spell(p string) string {
	switch w.rng.Intn(9) {
	case 0, 1:
		return "$R/" + p
	case 2, 3:
		return p
	case 4:
		return "./" + p
	case 5:
		return "$R//" + strings.ReplaceAll(p, "/", "//")
	case 6:
		return p + "/"
	case 7:
		if d, ok := w.pick(keys(w.dirs)); ok {
			return d + "/../" + strings.Repeat("../", strings.Count(d, "/")) + p
		}
		return "./" + p + "/."
	default:
		return "$R/./" + p
	}
}

func (w *world) fsStep() []string {
	r := w.rng.Intn(100)
	valid := w.rng.Intn(100) < 88
	switch {
	case r < 16: // create
		d := w.anyDir()
		n := join(d, w.freshName())
		if valid && (w.files[n] || w.dirs[n] || w.links[n] != "") {
			n = join(d, longName(w.rng, 3+w.rng.Intn(5)))
		}
		if !w.files[n] && !w.dirs[n] && w.links[n] == "" {
			w.files[n] = true
		}
		return []string{"fs", "create", n}
	case r < 28: // write
		if f, ok := w.pick(keys(w.files)); ok && valid {
			return []string{"fs", "write", f}
		}
		return []string{"fs", "write", "missing"}
	case r < 33:
		if f, ok := w.pick(keys(w.files)); ok {
			return []string{"fs", "truncate", f}
		}
	case r < 41:
		if e, ok := w.anyEntry(); ok && w.links[e] == "" {
			return []string{"fs", "chmod", e}
		}
	case r < 52: // unlink
		all := keys(w.files)
		for l := range w.links {
			all = append(all, l)
		}
		sort.Strings(all)
		if f, ok := w.pick(all); ok && valid {
			delete(w.files, f)
			delete(w.links, f)
			return []string{"fs", "unlink", f}
		}
		return []string{"fs", "unlink", "missing"}
	case r < 60: // mkdir
		d := w.anyDir()
		if strings.Count(d, "/") >= 2 {
			d = ""
		}
		n := join(d, w.freshName())
		if !w.files[n] && !w.dirs[n] && w.links[n] == "" {
			w.dirs[n] = true
		}
		return []string{"fs", "mkdir", n}
	case r < 66: // rmdir
		if d, ok := w.pick(keys(w.dirs)); ok {
			if !w.hasChildren(d) {
				delete(w.dirs, d)
			}
			return []string{"fs", "rmdir", d}
		}
	case r < 82: // rename
		if a, ok := w.anyEntry(); ok {
			d := w.anyDir()
			var b string
			if w.rng.Intn(4) == 0 {
				if e, ok := w.anyEntry(); ok { // onto an existing entry
					b = e
				}
			}
			if b == "" {
				b = join(d, w.freshName())
			}
			if under(b, a) || a == b {
				return []string{"fs", "chmod", a}
			}
			// apply to the world only when the rename can succeed
			aIsDir := w.dirs[a]
			okk := true
			if w.dirs[b] {
				okk = aIsDir && !w.hasChildren(b)
			} else if (w.files[b] || w.links[b] != "") && aIsDir {
				okk = false
			}
			if okk {
				if w.dirs[b] {
					delete(w.dirs, b)
				}
				delete(w.files, b)
				delete(w.links, b)
				if aIsDir {
					w.moveTree(a, b)
				} else if w.files[a] {
					delete(w.files, a)
					w.files[b] = true
				} else {
					w.links[b] = w.links[a]
					delete(w.links, a)
				}
			}
			return []string{"fs", "rename", a, b}
		}
	case r < 87: // hard link
		if f, ok := w.pick(keys(w.files)); ok {
			n := join(w.anyDir(), w.freshName())
			if !w.files[n] && !w.dirs[n] && w.links[n] == "" {
				w.files[n] = true
			}
			return []string{"fs", "link", f, n}
		}
	case r < 92: // symlink
		if e, ok := w.anyEntry(); ok {
			n := join(w.anyDir(), w.freshName())
			target := "$R/" + e
			if w.rng.Intn(2) == 0 && !strings.Contains(n, "/") {
				target = e // relative link text, valid when the link lives in the root
			}
			if !w.files[n] && !w.dirs[n] && w.links[n] == "" {
				w.links[n] = target
			}
			return []string{"fs", "symlink", target, n}
		}
	case r < 95: // open / close
		if len(w.slots) > 0 && w.rng.Intn(2) == 0 {
			for s := range w.slots {
				delete(w.slots, s)
				return []string{"fs", "close", fmt.Sprint(s)}
			}
		}
		if f, ok := w.pick(keys(w.files)); ok {
			s := w.rng.Intn(4)
			w.slots[s] = true
			return []string{"fs", "open", f, fmt.Sprint(s)}
		}
	default: // rm -r
		if d, ok := w.pick(keys(w.dirs)); ok && w.rng.Intn(3) == 0 {
			w.removeTree(d)
			return []string{"fs", "rmrf", d}
		}
	}
	d := w.anyDir()
	n := join(d, longName(w.rng, 4))
	w.files[n] = true
	return []string{"fs", "create", n}
}

func (w *world) apiStep(recurse bool) []string {
	r := w.rng.Intn(100)
	switch {
	case r < 55: // add
		var p string
		if e, ok := w.anyEntry(); ok && w.rng.Intn(100) < 85 {
			p = e
		} else if w.rng.Intn(3) == 0 {
			p = "." // the root itself
		} else {
			switch w.rng.Intn(4) {
			case 0:
				p = "missing"
			case 1:
				if f, ok := w.pick(keys(w.files)); ok {
					p = f + "/below" // through a non-directory
				} else {
					p = "missing/x"
				}
			case 2:
				p = longName(w.rng, 300) // component too long
			default:
				p = "missing/deeper"
			}
		}
		arg := w.spell(p)
		if recurse && w.rng.Intn(2) == 0 {
			arg = strings.TrimRight(arg, "/") + "/..."
		}
		w.watched = append(w.watched, arg)
		ops := "31"
		nofollow := "0"
		if w.rng.Intn(12) == 0 {
			nofollow = "1"
		}
		if w.rng.Intn(15) == 0 {
			ops = fmt.Sprint(1 + w.rng.Intn(511))
		}
		return []string{"add", hx(arg), ops, nofollow}
	case r < 85: // remove
		if a, ok := w.pick(w.watched); ok && w.rng.Intn(100) < 80 {
			if w.rng.Intn(3) == 0 { // another spelling of the same thing
				a = strings.Replace(a, "$R/", "$R/./", 1)
			}
			return []string{"remove", hx(a)}
		}
		if e, ok := w.anyEntry(); ok {
			return []string{"remove", hx(w.spell(e))}
		}
		return []string{"remove", hx("never-added")}
	default:
		return []string{"list"}
	}
}

func (w *world) procStep() []string {
	switch w.rng.Intn(6) {
	case 0:
		return []string{"proc", "R"}
	case 1:
		return []string{"proc", strings.Repeat("R", 1+w.rng.Intn(4))}
	default:
		return []string{"proc", "A"}
	}
}

func injectSpec(wd string, mask uint32, cookie uint32, name string, pad int) string {
	return fmt.Sprintf("%s|%d|%d|%s|%d", wd, mask, cookie, hx(name), pad)
}

func (w *world) faultStep() []string {
	wd := fmt.Sprintf("L%d", w.rng.Intn(8))
	if w.rng.Intn(4) == 0 {
		wd = fmt.Sprint(5000 + w.rng.Intn(100)) // unknown wd
	}
	switch w.rng.Intn(8) {
	case 0:
		return []string{"proc", "RI", injectSpec("-1", 0x4000, 0, "", 0)} // overflow marker
	case 1:
		return []string{"proc", "IR", injectSpec(wd, 0x8000, 0, "", 0)} // IGNORED
	case 2:
		return []string{"proc", "I", injectSpec(wd, 0x2000, 0, "", 0)} // UNMOUNT
	case 3:
		return []string{"proc", "I", injectSpec(wd, 0x40000000, 0, "zz", 14)} // translates to no operation
	case 4:
		n := w.freshName()
		pad := 16 - len(n)%16
		return []string{"proc", "RIR", injectSpec(wd, 0x100, 0, n, pad)} // a create the kernel never sent
	case 5:
		return []string{"proc", "I", injectSpec(wd, 0x800, 0, "", 0)} // MOVE_SELF
	case 6:
		return []string{"proc", "I", injectSpec(wd, 0x400, 0, "", 0)} // DELETE_SELF
	default:
		c := uint32(70000 + w.rng.Intn(5))
		n := w.freshName()
		pad := 16 - len(n)%16
		m := uint32(0x40)
		if w.rng.Intn(2) == 0 {
			m = 0x80
		}
		return []string{"proc", "I", injectSpec(wd, m, c, n, pad)}
	}
}

func generate(rng *rand.Rand, family string, nsteps int) scriptT {
	w := newWorld(rng)
	sc := scriptT{}
	add := func(f ...string) { sc.steps = append(sc.steps, step{f}) }
	switch family {
	case "recurse":
		sc.recurse = true
		genRecurse(w, &sc, nsteps)
		return sc
	case "rename":
		genRename(w, &sc, nsteps)
		return sc
	case "alias":
		genAlias(w, &sc, nsteps)
		return sc
	case "delay":
		genDelay(w, &sc, nsteps)
		return sc
	case "names":
		genNames(w, &sc, nsteps)
		return sc
	case "scen":
		genScen(w, &sc, nsteps)
		return sc
	case "full":
		genFull(w, &sc)
		return sc
	}
	// mix / fault: a seed tree, then a weighted stream
	for i := 0; i < 3; i++ {
		add(w.fsStep()...)
	}
	pProc := 18
	if rng.Intn(3) == 0 {
		pProc = 4 // long delays: large batches, handling long after the fact
	}
	for len(sc.steps) < nsteps {
		r := rng.Intn(100)
		switch {
		case family == "fault" && r < 12:
			add(w.faultStep()...)
		case r < pProc:
			add(w.procStep()...)
		case r < pProc+27:
			add(w.apiStep(false)...)
		default:
			add(w.fsStep()...)
		}
	}
	return sc
}

// names: one watched directory, entries whose names sweep the padding residues, handled in multi-record batches
func genNames(w *world, sc *scriptT, nsteps int) {
	add := func(f ...string) { sc.steps = append(sc.steps, step{f}) }
	add("fs", "mkdir", "d")
	add("add", hx(w.spell("d")), "31", "0")
	var names []string
	for i := 0; i < nsteps/4+2; i++ {
		var n string
		switch w.rng.Intn(6) {
		case 0:
			n = longName(w.rng, 1+w.rng.Intn(40))
		case 1:
			n = longName(w.rng, 250+w.rng.Intn(6))
		case 2:
			n = "sp ace " + longName(w.rng, w.rng.Intn(12))
		case 3:
			n = "ü∂é" + longName(w.rng, w.rng.Intn(14))
		case 4:
			n = []string{".", "-", "..."}[w.rng.Intn(3)] + longName(w.rng, 1+w.rng.Intn(16))
		default:
			n = longName(w.rng, 14+w.rng.Intn(5))
		}
		names = append(names, n)
		add("fs", "create", "d/"+n)
		if w.rng.Intn(2) == 0 {
			add("fs", "write", "d/"+n)
		}
		if w.rng.Intn(3) == 0 {
			add("fs", "chmod", "d/"+n)
		}
		if w.rng.Intn(5) == 0 {
			add(w.procStep()...)
		}
	}
	for _, n := range names {
		if w.rng.Intn(2) == 0 {
			add("fs", "rename", "d/"+n, "d/"+longName(w.rng, 1+w.rng.Intn(33)))
		} else {
			add("fs", "unlink", "d/"+n)
		}
	}
}

// rename: moves within / between watched directories, in from and out to unwatched places, long chains
func genRename(w *world, sc *scriptT, nsteps int) {
	add := func(f ...string) { sc.steps = append(sc.steps, step{f}) }
	for _, d := range []string{"w1", "w2", "out"} {
		add("fs", "mkdir", d)
	}
	add("add", hx(w.spell("w1")), "31", "0")
	add("add", hx(w.spell("w2")), "31", "0")
	cur := map[string]string{} // file id -> current path
	dirs := []string{"w1", "w2", "out"}
	nf := 0
	newFile := func(d string) {
		p := fmt.Sprintf("%s/n%d", d, nf)
		cur[fmt.Sprint(nf)] = p
		nf++
		add("fs", "create", p)
	}
	for i := 0; i < 4; i++ {
		newFile(dirs[w.rng.Intn(3)])
	}
	for len(sc.steps) < nsteps {
		switch r := w.rng.Intn(100); {
		case r < 60:
			ids := []string{}
			for k := range cur {
				ids = append(ids, k)
			}
			sort.Strings(ids)
			id := ids[w.rng.Intn(len(ids))]
			dst := fmt.Sprintf("%s/m%d_%d", dirs[w.rng.Intn(3)], w.rng.Intn(1000), len(sc.steps))
			add("fs", "rename", cur[id], dst)
			cur[id] = dst
		case r < 70:
			newFile(dirs[w.rng.Intn(3)])
		case r < 76:
			ids := []string{}
			for k := range cur {
				ids = append(ids, k)
			}
			sort.Strings(ids)
			id := ids[w.rng.Intn(len(ids))]
			n := fmt.Sprintf("%s/h%d", dirs[w.rng.Intn(2)], len(sc.steps))
			add("fs", "link", cur[id], n)
		case r < 86:
			add(w.procStep()...)
		case r < 92:
			add("proc", "A")
			for _, st := range interleavedMoves(w) {
				add(st...)
			}
		default:
			// a burst of move-outs (unmatched cookies) followed by one matched move
			k := 3 + w.rng.Intn(12)
			for j := 0; j < k; j++ {
				p := fmt.Sprintf("w1/u%d_%d", len(sc.steps), j)
				add("fs", "create", p)
				add("fs", "rename", p, fmt.Sprintf("out/u%d_%d", len(sc.steps), j))
			}
		}
	}
}

// interleavedMoves: proc steps handing the reader the halves of 2-8 concurrent moves in a random interleaving (each
// MOVED_FROM before its MOVED_TO; one move in five leaves watched territory and has no second half; now and then a
// plain create in between), in one read or split into two reads at a random point.  Injected on a live watch.
func interleavedMoves(w *world) [][]string {
	wd := fmt.Sprintf("L%d", 1000) // resolved against the live table: any live non-sentinel wd
	p := func(n string) int { return 16 - len(n)%16 }
	k := 2 + w.rng.Intn(7)
	type half struct {
		move int
		to   bool
	}
	var order []half
	started := 0
	var open []int
	for started < k || len(open) > 0 {
		if started < k && (len(open) == 0 || w.rng.Intn(2) == 0) {
			order = append(order, half{started, false})
			open = append(open, started)
			started++
		} else {
			x := w.rng.Intn(len(open))
			if w.rng.Intn(3) == 0 {
				x = 0 // the oldest pending move finishes: the slots after it still hold waiting cookies
			}
			m := open[x]
			open = append(open[:x], open[x+1:]...)
			if w.rng.Intn(5) != 0 {
				order = append(order, half{m, true})
			}
		}
	}
	w.moveSerial++
	base := uint32(80000 + 100*w.moveSerial)
	var recs []string
	for _, h := range order {
		if h.to {
			n := fmt.Sprintf("new%d_%d", w.moveSerial, h.move)
			recs = append(recs, injectSpec(wd, 0x80, base+uint32(h.move), n, p(n)))
		} else {
			n := fmt.Sprintf("old%d_%d", w.moveSerial, h.move)
			recs = append(recs, injectSpec(wd, 0x40, base+uint32(h.move), n, p(n)))
		}
		if w.rng.Intn(6) == 0 {
			recs = append(recs, injectSpec(wd, 0x100, 0, "plain", p("plain")))
		}
	}
	cut := len(recs)
	if w.rng.Intn(2) == 0 {
		cut = 1 + w.rng.Intn(len(recs))
	}
	out := [][]string{append([]string{"proc", strings.Repeat("I", cut)}, recs[:cut]...)}
	if cut < len(recs) {
		out = append(out, append([]string{"proc", strings.Repeat("I", len(recs)-cut)}, recs[cut:]...))
	}
	return out
}

// alias: the same file under several names (symlinks, hard links, spellings), retargeting, re-Add, Remove
func genAlias(w *world, sc *scriptT, nsteps int) {
	add := func(f ...string) { sc.steps = append(sc.steps, step{f}) }
	add("fs", "create", "a")
	add("fs", "create", "b")
	add("fs", "mkdir", "d")
	add("fs", "mkdir", "e")
	add("fs", "symlink", "$R/a", "l")
	add("fs", "symlink", "d", "ld")
	add("fs", "link", "a", "ha")
	targets := []string{"a", "b", "d", "e", "l", "ld", "ha", "missing", "a/x"}
	for len(sc.steps) < nsteps {
		switch r := w.rng.Intn(100); {
		case r < 35:
			t := targets[w.rng.Intn(len(targets))]
			arg := w.spell(t)
			w.watched = append(w.watched, arg)
			nf := "0"
			if w.rng.Intn(8) == 0 {
				nf = "1"
			}
			add("add", hx(arg), "31", nf)
		case r < 55:
			if a, ok := w.pick(w.watched); ok {
				add("remove", hx(a))
			} else {
				add("remove", hx("a"))
			}
		case r < 62:
			add("list")
		case r < 70: // retarget a symlink
			l := []string{"l", "ld"}[w.rng.Intn(2)]
			t := []string{"a", "b", "d", "e"}[w.rng.Intn(4)]
			add("fs", "unlink", l)
			add("fs", "symlink", "$R/"+t, l)
		case r < 78: // replace a file: delete + recreate, or rename over
			f := []string{"a", "b"}[w.rng.Intn(2)]
			if w.rng.Intn(2) == 0 {
				add("fs", "unlink", f)
				add("fs", "create", f)
			} else {
				add("fs", "create", "tmp")
				add("fs", "rename", "tmp", f)
			}
		case r < 84:
			f := []string{"a", "b", "ha"}[w.rng.Intn(3)]
			add("fs", []string{"write", "chmod"}[w.rng.Intn(2)], f)
		case r < 88:
			add("fs", "create", fmt.Sprintf("d/c%d", len(sc.steps)))
		case r < 91:
			if w.rng.Intn(2) == 0 {
				add("fs", "open", []string{"a", "b"}[w.rng.Intn(2)], fmt.Sprint(w.rng.Intn(2)))
			} else {
				add("fs", "close", fmt.Sprint(w.rng.Intn(2)))
			}
		default:
			add(w.procStep()...)
		}
	}
}

// delay: the second step invalidates the kernel watch before the first step's record is handled
func genDelay(w *world, sc *scriptT, nsteps int) {
	add := func(f ...string) { sc.steps = append(sc.steps, step{f}) }
	add("fs", "mkdir", "p")
	i := 0
	for len(sc.steps) < nsteps {
		i++
		f := fmt.Sprintf("p/f%d", i)
		isDir := w.rng.Intn(3) == 0
		if isDir {
			add("fs", "mkdir", f)
		} else {
			add("fs", "create", f)
		}
		if w.rng.Intn(3) == 0 {
			add("add", hx(w.spell("p")), "31", "0")
		}
		add("add", hx(w.spell(f)), "31", "0")
		if w.rng.Intn(2) == 0 {
			add("proc", "A")
		}
		switch w.rng.Intn(6) {
		case 0: // rename then delete
			add("fs", "rename", f, f+"r")
			if isDir {
				add("fs", "rmdir", f+"r")
			} else {
				add("fs", "unlink", f+"r")
			}
		case 1: // delete then Remove before the records are handled
			if isDir {
				add("fs", "rmdir", f)
			} else {
				add("fs", "unlink", f)
			}
			add("remove", hx(w.spell(f)))
		case 2: // rename, recreate, re-add, all before handling
			add("fs", "rename", f, f+"r")
			if isDir {
				add("fs", "mkdir", f)
			} else {
				add("fs", "create", f)
			}
			add("add", hx(w.spell(f)), "31", "0")
		case 3: // unlink while open, close later
			if !isDir {
				add("fs", "open", f, "1")
				add("fs", "unlink", f)
				add("proc", "A")
				add("fs", "close", "1")
			}
		case 4: // Remove then more activity
			add("remove", hx(w.spell(f)))
			if !isDir {
				add("fs", "write", f)
			}
		default: // overwrite by rename
			add("fs", "create", "p/tmp")
			if !isDir {
				add("fs", "rename", "p/tmp", f)
			}
		}
		if w.rng.Intn(3) != 0 {
			add(w.procStep()...)
		}
		if w.rng.Intn(4) == 0 {
			add("list")
		}
	}
}

// recurse: trees whose sibling names share string prefixes, created one level at a time, inner renames, removal of one root
func genRecurse(w *world, sc *scriptT, nsteps int) {
	add := func(f ...string) { sc.steps = append(sc.steps, step{f}) }
	roots := []string{"t", "t2"}
	for _, r := range roots {
		add("fs", "mkdir", r)
	}
	// pre-existing levels
	add("fs", "mkdir", "t/dir1")
	add("fs", "mkdir", "t/dir10")
	add("fs", "mkdir", "t2/sub")
	for _, r := range roots {
		sp := "$R/" + r
		if w.rng.Intn(2) == 0 {
			sp = r
		}
		add("add", hx(sp+"/..."), "31", "0")
	}
	dirs := []string{"t", "t2", "t/dir1", "t/dir10", "t2/sub"}
	siblings := []string{"sub", "sub2", "dir1", "dir10", "dir", "a", "ab"}
	nfile := 0
	for len(sc.steps) < nsteps {
		switch r := w.rng.Intn(100); {
		case r < 25: // new directory one level down, Create delivered before anything happens inside
			parent := dirs[w.rng.Intn(len(dirs))]
			if strings.Count(parent, "/") >= 3 {
				continue
			}
			n := parent + "/" + siblings[w.rng.Intn(len(siblings))]
			exists := false
			for _, d := range dirs {
				if d == n {
					exists = true
				}
			}
			if exists {
				continue
			}
			add("fs", "mkdir", n)
			add("proc", "A")
			dirs = append(dirs, n)
		case r < 60: // file operations at every depth
			d := dirs[w.rng.Intn(len(dirs))]
			f := fmt.Sprintf("%s/f%d", d, nfile)
			nfile++
			add("fs", "create", f)
			if w.rng.Intn(2) == 0 {
				add("fs", "write", f)
			}
			if w.rng.Intn(3) == 0 {
				add("fs", "unlink", f)
			}
			if w.rng.Intn(2) == 0 {
				add("proc", "A")
			}
		case r < 75: // rename an inner directory within its tree
			var inner []string
			for _, d := range dirs {
				if strings.Count(d, "/") >= 1 {
					inner = append(inner, d)
				}
			}
			if len(inner) == 0 {
				continue
			}
			a := inner[w.rng.Intn(len(inner))]
			root := strings.SplitN(a, "/", 2)[0]
			b := fmt.Sprintf("%s/%s_%d", root, []string{"mv", "dir1", "sub"}[w.rng.Intn(3)], len(sc.steps))
			add("proc", "A")
			add("fs", "rename", a, b)
			add("proc", "A")
			for i, d := range dirs {
				if under(d, a) {
					dirs[i] = b + d[len(a):]
				}
			}
		case r < 82:
			add("list")
		case r < 88 && len(roots) > 1: // remove one of the roots, then activity everywhere: only the other trees report
			k := w.rng.Intn(len(roots))
			add("proc", "A")
			add("remove", hx("$R/"+roots[k]+"/..."))
			add("proc", "A")
			roots = append(roots[:k], roots[k+1:]...)
			for _, d := range dirs {
				f := fmt.Sprintf("%s/after%d", d, nfile)
				nfile++
				add("fs", "create", f)
			}
			add("proc", "A")
			add("list")
		case r < 92: // a long series of renames of one inner directory (more than the rename-cookie ring holds)
			var inner []string
			for _, d := range dirs {
				if strings.Count(d, "/") == 1 {
					inner = append(inner, d)
				}
			}
			if len(inner) == 0 {
				continue
			}
			a := inner[w.rng.Intn(len(inner))]
			root := strings.SplitN(a, "/", 2)[0]
			for j := 0; j < 11+w.rng.Intn(4); j++ {
				b := fmt.Sprintf("%s/ren%d_%d", root, len(sc.steps), j)
				add("fs", "rename", a, b)
				add("proc", "A")
				for i, d := range dirs {
					if under(d, a) {
						dirs[i] = b + d[len(a):]
					}
				}
				a = b
				f := fmt.Sprintf("%s/g%d", a, nfile)
				nfile++
				add("fs", "create", f)
				add("proc", "A")
			}
		default:
			add(w.procStep()...)
		}
	}
}

// ------------------------------------------------------------------ targeted scenarios
// Each scenario works in its own sub-directory so that several can be composed in one history; every scenario has
// randomised details (which variant, when handling happens, spellings).

func (w *world) maybeProc(sc *scriptT) {
	if w.rng.Intn(2) == 0 {
		sc.steps = append(sc.steps, step{w.procStep()})
	}
}

func (w *world) spell2(p string) string {
	if w.rng.Intn(7) == 0 {
		return "./" + p + "/"
	}
	pre := []string{"$R/", "", "./", "$R/./", "$R//", "./././"}[w.rng.Intn(6)]
	suf := []string{"", "", "/", "/.", "//", "/./"}[w.rng.Intn(6)]
	body := p
	switch w.rng.Intn(5) {
	case 0:
		body = strings.ReplaceAll(p, "/", "//")
	case 1:
		if i := strings.Index(p, "/"); i > 0 {
			body = p[:i] + "/../" + p
		}
	case 2:
		body = strings.ReplaceAll(p, "/", "/./")
	}
	return pre + body + suf
}

func genScen(w *world, sc *scriptT, nsteps int) {
	add := func(f ...string) { sc.steps = append(sc.steps, step{f}) }
	k := 0
	for len(sc.steps) < nsteps {
		k++
		d := fmt.Sprintf("s%d", k)
		add("fs", "mkdir", d)
		switch w.rng.Intn(16) {
		case 0: // a listed path comes to name a file that is already watched under another name (old inode kept alive or not)
			x, y := d+"/x", d+"/y"
			add("fs", "create", x)
			add("fs", "create", y)
			if w.rng.Intn(2) == 0 {
				add("fs", "link", x, d+"/keep")
			}
			sx := w.spell2(x)
			add("add", hx(sx), "31", "0")
			add("add", hx(w.spell2(y)), "31", "0")
			w.maybeProc(sc)
			add("fs", "unlink", x)
			if w.rng.Intn(2) == 0 {
				add("fs", "link", y, x)
			} else {
				add("fs", "symlink", "$R/"+y, x)
			}
			w.maybeProc(sc)
			add("add", hx(sx), "31", "0")
			add("proc", "A")
			add("fs", "write", y)
			add("proc", "A")
			add("list")
			add("remove", hx(sx))
			add("proc", "A")
		case 1: // a symlink is retargeted to a directory that was added first under its own name
			add("fs", "mkdir", d+"/first")
			add("fs", "mkdir", d+"/other")
			add("fs", "symlink", "$R/"+d+"/other", d+"/link")
			add("add", hx(w.spell2(d+"/first")), "31", "0")
			add("add", hx("$R/"+d+"/link"), "31", "0")
			w.maybeProc(sc)
			add("fs", "unlink", d+"/link")
			add("fs", "symlink", "$R/"+d+"/first", d+"/link")
			add("add", hx("$R/"+d+"/link"), "31", "0")
			add("fs", "create", d+"/first/file")
			add("fs", "create", d+"/other/file2")
			add("proc", "A")
			add("list")
		case 2: // a watched child of a watched directory is renamed away, then changed
			add("fs", "mkdir", d+"/w")
			add("fs", "mkdir", d+"/u")
			child := d + "/w/c"
			if w.rng.Intn(3) == 0 {
				add("fs", "mkdir", child)
			} else {
				add("fs", "create", child)
			}
			add("add", hx(w.spell2(d+"/w")), "31", "0")
			add("add", hx(w.spell2(child)), "31", "0")
			w.maybeProc(sc)
			dest := d + "/u/g" // out of the watched directory, or to another name inside it
			if w.rng.Intn(2) == 0 {
				dest = d + "/w/c2"
			}
			add("fs", "rename", child, dest)
			w.maybeProc(sc)
			add("fs", "chmod", dest)
			add("fs", "chmod", dest)
			add("proc", "A")
			add("list")
			add("remove", hx("$R/"+child))
		case 3: // rename, delete, recreate the old name, all before the rename is handled
			f := d + "/F"
			add("fs", "create", f)
			add("add", hx(w.spell2(f)), "31", "0")
			w.maybeProc(sc)
			add("fs", "rename", f, d+"/G")
			add("fs", "unlink", d+"/G")
			if w.rng.Intn(2) == 0 {
				add("fs", "create", f)
			} else {
				add("fs", "create", d+"/H")
				add("fs", "rename", d+"/H", f)
			}
			add("proc", "A")
			add("list")
		case 4: // unlink while a descriptor is open, parent watched or not; close later
			f := d + "/f"
			add("fs", "create", f)
			if w.rng.Intn(2) == 0 {
				add("add", hx(w.spell2(d)), "31", "0")
			}
			sf := w.spell2(f)
			add("add", hx(sf), "31", "0")
			slot := fmt.Sprint(w.rng.Intn(4))
			add("fs", "open", f, slot)
			add("fs", "unlink", f)
			add("proc", "A")
			add("list")
			if w.rng.Intn(2) == 0 {
				add("remove", hx(sf))
				add("list")
			}
			add("fs", "close", slot)
			add("proc", "A")
			add("list")
		case 5: // an overflow marker in the middle of a batch
			add("add", hx(w.spell2(d)), "31", "0")
			n := 2 + w.rng.Intn(5)
			for i := 0; i < n; i++ {
				add("fs", "create", fmt.Sprintf("%s/o%d", d, i))
			}
			parts := ""
			pos := w.rng.Intn(n)
			for i := 0; i < n; i++ {
				if i == pos {
					parts += "I"
				}
				parts += "R"
			}
			add("proc", parts, injectSpec("-1", 0x4000, 0, "", 0))
			add("fs", "create", d+"/after")
			add("proc", "A")
		case 6: // the halves of several concurrent moves interleaved in the queue (each FROM before its TO; some moves leave)
			add("add", hx("$R/"+d), "31", "0")
			for _, st := range interleavedMoves(w) {
				add(st...)
			}
		case 7: // composed spellings of one directory, entries created below it
			add("fs", "mkdir", d+"/dir")
			add("fs", "mkdir", d+"/dir/sub")
			t := []string{d + "/dir", d + "/dir/sub"}[w.rng.Intn(2)]
			sp := w.spell2(t)
			add("add", hx(sp), "31", "0")
			add("fs", "create", t+"/e1")
			add("fs", "create", t+"/"+longName(w.rng, 16*(1+w.rng.Intn(3))))
			add("proc", "A")
			add("list")
			add("remove", hx(w.spell2(t)))
			add("list")
		case 8: // entry names whose length is a multiple of 16 (16 padding bytes), at varying offsets
			add("add", hx(w.spell2(d)), "31", "0")
			for i := 0; i < 3; i++ {
				n := longName(w.rng, 16*(1+w.rng.Intn(15)))
				if w.rng.Intn(3) == 0 {
					n = longName(w.rng, 1+w.rng.Intn(30))
				}
				add("fs", "create", d+"/"+n)
				add("fs", "write", d+"/"+n)
			}
			add(w.procStep()...)
			add("proc", "A")
		case 9: // a listed path is replaced while its old file stays alive (open descriptor or hard link), re-added in place
			p := d + "/p"
			add("fs", "create", p)
			sp := w.spell2(p)
			add("add", hx(sp), "31", "0")
			if w.rng.Intn(2) == 0 {
				add("fs", "open", p, "2")
			} else {
				add("fs", "link", p, d+"/keep")
			}
			w.maybeProc(sc)
			add("fs", "unlink", p)
			add("fs", "create", p)
			add("add", hx(sp), "31", "0")
			add("proc", "A")
			add("fs", "write", p)
			add("proc", "A")
			add("list")
			add("remove", hx(sp))
			add("proc", "A")
			add("list")
		case 10: // Add of a listed path fails because a parent component changed; the set must stay as it was
			add("fs", "mkdir", d+"/par")
			f := d + "/par/f"
			add("fs", "create", f)
			add("add", hx("$R/"+f), "31", "0")
			w.maybeProc(sc)
			switch w.rng.Intn(3) {
			case 0:
				add("fs", "rename", d+"/par", d+"/par2")
			case 1:
				add("fs", "rename", d+"/par", d+"/par2")
				add("fs", "create", d+"/par")
			default:
				add("fs", "rename", d+"/par", d+"/par2")
				add("fs", "symlink", "par", d+"/par")
			}
			add("add", hx("$R/"+f), "31", "0")
			add("list")
			add("fs", "write", d+"/par2/f")
			add("proc", "A")
			add("remove", hx("$R/"+f))
		case 13: // a watch whose subscription lacks Remove (no IN_DELETE_SELF): IN_IGNORED is all the library hears when it goes
			f := d + "/nf"
			if w.rng.Intn(3) == 0 {
				add("fs", "mkdir", f)
			} else {
				add("fs", "create", f)
			}
			ops := []string{"2", "18", "3", "16", "10", "26"}[w.rng.Intn(6)] // subsets of Create|Write|Rename|Chmod, never Remove (4)
			sp := w.spell2(f)
			add("add", hx(sp), ops, "0")
			w.maybeProc(sc)
			add("fs", "rmrf", f)
			add("proc", "A")
			add("list")
			add("remove", hx(sp))
			add("list")
		case 14: // the working directory itself, watched as ".", is deleted: the last thing that happens in this history
			if len(sc.steps) < 8 {
				continue
			}
			rootSp := []string{".", "./", "./.", "s1/.."}[w.rng.Intn(4)]
			add("add", hx(rootSp), "31", "0")
			w.maybeProc(sc)
			add("fs", "rmrf", ".")
			add("proc", "A")
			add("fs", "leavecwd", ".")
			add("proc", "A")
			add("list")
			add("remove", hx(rootSp))
			return
		case 12: // records that produce no event (a delete the parent reports, IN_IGNORED) followed by real events in ONE read
			f, g := d+"/f", d+"/g"
			add("fs", "create", f)
			add("add", hx(w.spell2(d)), "31", "0")
			add("add", hx(w.spell2(f)), "31", "0")
			if w.rng.Intn(2) == 0 {
				add("fs", "create", d+"/x")
				add("add", hx("$R/"+d+"/x"), "31", "0")
				add("remove", hx("$R/"+d+"/x")) // its IN_IGNORED is queued
			}
			add("fs", "chmod", f)
			add("fs", "unlink", f)
			add("fs", "create", g)
			add("fs", "write", g)
			if w.rng.Intn(2) == 0 {
				add("fs", "chmod", g)
			}
			add("fs", "unlink", g)
			add("proc", "A")
			add("list")
		case 11: // names directly in the working directory: bare relative spellings, watched together with "." itself
			f := fmt.Sprintf("rootf%d", k)
			if w.rng.Intn(4) == 0 {
				add("fs", "mkdir", f)
			} else {
				add("fs", "create", f)
			}
			rootSp := []string{".", "./", "$R", "$R/.", "./."}[w.rng.Intn(5)]
			fSp := []string{f, "./" + f, f + "/.", "$R/" + f, "s1/../" + f}[w.rng.Intn(5)]
			if w.rng.Intn(2) == 0 {
				add("add", hx(rootSp), "31", "0")
				add("add", hx(fSp), "31", "0")
			} else {
				add("add", hx(fSp), "31", "0")
				add("add", hx(rootSp), "31", "0")
			}
			w.maybeProc(sc)
			switch w.rng.Intn(4) {
			case 0:
				add("fs", "rmrf", f)
			case 1:
				add("fs", "open", f, "3")
				add("fs", "rmrf", f)
				add("proc", "A")
				add("fs", "close", "3")
			case 2:
				add("fs", "rename", f, f+"moved")
				add("fs", "chmod", f+"moved")
			default:
				add("fs", "chmod", f)
				add("fs", "rmrf", f)
			}
			add("proc", "A")
			add("list")
			add("remove", hx(rootSp))
			add("proc", "A")
		default: // move out of a watched directory followed by more activity in the same batch
			add("fs", "mkdir", d+"/w")
			add("fs", "mkdir", d+"/out")
			add("add", hx(w.spell2(d+"/w")), "31", "0")
			add("fs", "create", d+"/w/file")
			add("proc", "A")
			add("fs", "rename", d+"/w/file", d+"/out/file")
			add("fs", "create", d+"/w/file")
			add("fs", "write", d+"/w/file")
			add("proc", "A")
		}
	}
}

// genFull: one read that fills the reader's 64 KiB buffer to the last byte (or stops 16/32 bytes short of it): mkdir
// records of chosen sizes (16 + the name padded to a multiple of 16) whose total, plus the 16-byte sentinel record the
// harness appends, is exactly 65536 — then ordinary traffic in a second read.
func genFull(w *world, sc *scriptT) {
	add := func(f ...string) { sc.steps = append(sc.steps, step{f}) }
	add("fs", "mkdir", "d")
	add("add", hx(w.spell("d")), "31", "0")
	target := 65536 - 16 - []int{0, 0, 0, 16, 32}[w.rng.Intn(5)]
	total, i := 0, 0
	for total < target {
		left := target - total
		sz := 32
		switch {
		case left == 48 || left == 32 || left == 64:
			sz = left
		case left < 96:
			sz = 32
		case w.rng.Intn(6) == 0:
			sz = 48 + 16*w.rng.Intn(3)
		}
		// a name of length L gives a record of 16 + roundup(L+1, 16) bytes
		L := sz - 16 - 1 - w.rng.Intn(15)
		if L < 6 {
			L = sz - 16 - 1
		}
		name := fmt.Sprintf("%05d", i)
		for len(name) < L {
			name += "x"
		}
		add("fs", "mkdir", "d/"+name[:L])
		total += sz
		i++
	}
	add("proc", "A")
	add("fs", "create", "d/after")
	add("fs", "write", "d/after")
	add("proc", "A")
	add("list")
}
