(* Obligations for C15, instantiated on the tables generated from /repo. *)
From Coq Require Import NArith Arith List String Bool.
From Fsn Require Import Bits Tables Names Doc.
From FsnGen Require Import GenTables GenNames.
Import ListNotations.
Local Open Scope N_scope.

Lemma inotify_translate_recognised : recognised inotify_newEvent_tbl && forallb post_recognised inotify_newEvent_post = true.
Proof. vm_compute. reflexivity. Qed.
Lemma inotify_translate_sweep : agree_on_support inotify_newEvent_tbl inotify_newEvent_post (doc_table inotify_doc) [] = true.
Proof. vm_compute. reflexivity. Qed.
Lemma inotify_doc_bits : doc_single_bits inotify_doc = true.
Proof. vm_compute. reflexivity. Qed.

Lemma inotify_request_recognised : recognised inotify_request_tbl && forallb post_recognised inotify_request_post = true.
Proof. vm_compute. reflexivity. Qed.
Lemma inotify_request_sweep : agree_on_support inotify_request_tbl inotify_request_post (doc_table inotify_needs) [] = true.
Proof. vm_compute. reflexivity. Qed.
Lemma inotify_needs_bits : doc_single_bits inotify_needs = true.
Proof. vm_compute. reflexivity. Qed.

(* every requested, defined operation is observable: some subscribed flag translates to it *)
Definition observable_sweep : bool :=
  forallb (fun ops => N.land (N.land ops all_ops) (doc_union inotify_doc (doc_union inotify_needs ops)) =? N.land ops all_ops)
          (submasks (supp (doc_table inotify_needs))).
Lemma inotify_observable_sweep : observable_sweep = true.
Proof. vm_compute. reflexivity. Qed.

Lemma inotify_observable ops :
  N.land (N.land ops all_ops) (doc_union inotify_doc (doc_union inotify_needs ops)) = N.land ops all_ops.
Proof.
  set (s := supp (doc_table inotify_needs)).
  set (f := fun ops => N.land (N.land ops all_ops) (doc_union inotify_doc (doc_union inotify_needs ops))).
  set (g := fun ops => N.land ops all_ops).
  change (f ops = g ops).
  assert (Hs : N.land s all_ops = all_ops) by (vm_compute; reflexivity).
  assert (Hn : forall m, doc_union inotify_needs (N.land m s) = doc_union inotify_needs m).
  { intro m. unfold doc_union, s. symmetry. apply support_only. }
  apply (sweep_lift N f g N.eqb (fun x y => proj1 (N.eqb_eq x y)) s).
  - intro m. unfold f. rewrite Hn, (land_restrict m s all_ops Hs). reflexivity.
  - intro m. unfold g. rewrite (land_restrict m s all_ops Hs). reflexivity.
  - exact inotify_observable_sweep.
Qed.

Lemma inotify_supports_all : forall op, ceval inotify_supports op = true.
Proof. intro op. vm_compute. reflexivity. Qed.

Lemma kqueue_translate_recognised : recognised kqueue_newEvent_tbl && forallb post_recognised kqueue_newEvent_post = true.
Proof. vm_compute. reflexivity. Qed.
Lemma kqueue_translate_sweep : agree_on_support kqueue_newEvent_tbl kqueue_newEvent_post (doc_table kqueue_doc) kqueue_doc_post = true.
Proof. vm_compute. reflexivity. Qed.
Lemma kqueue_doc_bits : doc_single_bits kqueue_doc = true.
Proof. vm_compute. reflexivity. Qed.
Lemma kqueue_request : (kqueue_noteAllEvents =? fold_right (fun fo acc => N.lor (fst fo) acc) 0 kqueue_doc) && kqueue_AddWith_flags_is_noteAllEvents = true.
Proof. vm_compute. reflexivity. Qed.

Definition supports_portable_only (c : cond) : bool :=
  crecognised c && forallb (fun op => Bool.eqb (ceval c op) (N.land op unportable =? 0)) (submasks (N.lor (csupp c) unportable)).
Lemma supports_portable_only_ok c : supports_portable_only c = true ->
  forall op, ceval c op = (N.land op unportable =? 0).
Proof.
  intros H. apply andb_prop in H as [_ H].
  apply (sweep_lift bool (ceval c) (fun op => N.land op unportable =? 0) Bool.eqb (fun x y => proj1 (Bool.eqb_true_iff x y))
           (N.lor (csupp c) unportable)).
  - intro m. apply ceval_support. apply land_lor_absorb_l.
  - intro m. f_equal. symmetry. apply land_restrict. apply land_lor_absorb_r.
  - exact H.
Qed.
Lemma kqueue_supports_ok : supports_portable_only kqueue_supports = true.
Proof. vm_compute. reflexivity. Qed.

Lemma windows_translate_recognised : recognised windows_newEvent_tbl && forallb post_recognised windows_newEvent_post = true.
Proof. vm_compute. reflexivity. Qed.
Lemma windows_translate_sweep : agree_on_support windows_newEvent_tbl windows_newEvent_post (doc_table windows_doc) [] = true.
Proof. vm_compute. reflexivity. Qed.
Lemma windows_doc_bits : doc_single_bits windows_doc = true.
Proof. vm_compute. reflexivity. Qed.
Lemma windows_actions_ok : switch_eqb windows_toFSnotifyFlags_sw windows_actions = true.
Proof. vm_compute. reflexivity. Qed.
Lemma windows_subscribe_recognised : recognised windows_toWindowsFlags_tbl && forallb post_recognised windows_toWindowsFlags_post = true.
Proof. vm_compute. reflexivity. Qed.
Lemma windows_subscribe_sweep : agree_on_support windows_toWindowsFlags_tbl windows_toWindowsFlags_post windows_subscribe [] = true.
Proof. vm_compute. reflexivity. Qed.
Lemma windows_request_all : (windows_sysFSALLEVENTS =? 4095) && windows_AddWith_flags_is_ALLEVENTS = true.
Proof. vm_compute. reflexivity. Qed.
Lemma windows_supports_ok : supports_portable_only windows_supports = true.
Proof. vm_compute. reflexivity. Qed.
Lemma fen_supports_ok : supports_portable_only fen_supports = true.
Proof. vm_compute. reflexivity. Qed.

Lemma doc_union_never (d : doc) (bit : N) :
  forallb (fun fo => N.land (snd fo) bit =? 0) d = true -> forall m, N.land (doc_union d m) bit = 0.
Proof.
  induction d as [|[f o] d IH]; intros H m.
  - reflexivity.
  - cbn in H. apply andb_prop in H as [Ho Hd]. apply N.eqb_eq in Ho.
    rewrite doc_union_cons, N.land_lor_distr_l, (IH Hd).
    destruct (subN f m); [rewrite Ho|]; reflexivity.
Qed.

Lemma gen_default_ops_ok : gen_default_ops =? 31 = true.
Proof. vm_compute. reflexivity. Qed.
