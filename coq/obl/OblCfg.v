(* Obligations on the control-flow skeletons and constants generated from the current source of /repo. *)
From Coq Require Import NArith List String Bool.
From Fsn Require Import CfgLang Cfg.
From FsnGen Require Import GenCfg GenConsts.
Import ListNotations.

(* the certificate: lock-set discipline on every path of every entry point + the shape facts (Cfg.cfg_ok) *)
Lemma gen_cfg_ok : cfg_ok gen_program = true.
Proof. vm_compute. reflexivity. Qed.

Lemma gen_send_in_cs_false : send_in_cs gen_program = false.
Proof. exact (cfg_ok_send_in_cs _ gen_cfg_ok). Qed.

Lemma gen_guard_first_true : guard_first gen_program = true.
Proof. exact (cfg_ok_guard_first _ gen_cfg_ok). Qed.

(* channel capacities and global state (GenConsts.v) *)
Lemma gen_capacities :
  (gen_newbuffered_events_cap_is_arg && gen_newbuffered_errors_unbuffered &&
   gen_newwatcher_events_cap_is_default && gen_newwatcher_errors_unbuffered &&
   (gen_default_buffer_linux =? 0)%N && (gen_default_buffer_freebsd =? 0)%N &&
   (gen_default_buffer_solaris =? 0)%N && (gen_default_buffer_windows =? 50)%N)%bool = true.
Proof. vm_compute. reflexivity. Qed.

Lemma gen_no_global_state :
  gen_global_writes_linux = [] /\ gen_global_writes_freebsd = [] /\ gen_global_writes_windows = [] /\ gen_global_writes_solaris = [].
Proof. vm_compute. repeat split; reflexivity. Qed.
