(* Obligations for C16, instantiated on the facts generated from /repo. *)
From Coq Require Import NArith Arith List String Bool.
From Fsn Require Import Bits Tables Names Doc.
From FsnGen Require Import GenNames.
Import ListNotations.
Local Open Scope N_scope.

Fixpoint names_eqb (a b : names) : bool :=
  match a, b with
  | [], [] => true
  | (x, s) :: a', (y, t) :: b' => (x =? y) && String.eqb s t && names_eqb a' b'
  | _, _ => false
  end.
Lemma names_eqb_eq a b : names_eqb a b = true -> a = b.
Proof.
  revert b. induction a as [|[x s] a IH]; intros [|[y t] b] H; cbn in H; try discriminate; [reflexivity|].
  apply andb_prop in H as [H H3]. apply andb_prop in H as [H1 H2].
  apply N.eqb_eq in H1. apply String.eqb_eq in H2. subst. f_equal. auto.
Qed.

(* --- obligations on the generated facts (each is a closed boolean computation) --- *)
Lemma gen_has_shape : gen_has = HAndNe0.
Proof. vm_compute. reflexivity. Qed.

Lemma gen_event_has_ok : gen_event_has_delegates = true.
Proof. vm_compute. reflexivity. Qed.

Lemma gen_string_recognised : gen_string_unrecognised = [].
Proof. vm_compute. reflexivity. Qed.

Lemma gen_rows_are_doc : names_eqb gen_string_rows (rows_of doc_sep doc_names) = true.
Proof. vm_compute. reflexivity. Qed.

Lemma gen_empty_is_doc : String.eqb gen_string_empty doc_empty = true.
Proof. vm_compute. reflexivity. Qed.

Lemma gen_strip_is_sep : Nat.eqb gen_string_strip (String.length doc_sep) = true.
Proof. vm_compute. reflexivity. Qed.

Lemma doc_renderings_distinct : renderings_distinct doc_names doc_empty doc_sep = true.
Proof. vm_compute. reflexivity. Qed.

Lemma doc_names_nodup : NoDup (map snd doc_names).
Proof.
  apply (NoDup_map_inv (fun s => s)). rewrite map_id.
  repeat (constructor; [cbn; intuition discriminate|]). constructor.
Qed.

Lemma gen_event_formats :
  (String.eqb gen_event_fmt_plain (bytes_to_string [37; 45; 49; 51; 115; 32; 37; 113]) &&
   String.eqb gen_event_fmt_renamed (bytes_to_string [37; 45; 49; 51; 115; 32; 37; 113; 32; 226; 134; 144; 32; 37; 113]) &&
   String.eqb gen_event_args_plain "e.Op.String(),e.Name" &&
   String.eqb gen_event_args_renamed "e.Op.String(),e.Name,e.renamedFrom" &&
   String.eqb gen_event_cond "e.renamedFrom != """"")%bool = true.
Proof. vm_compute. reflexivity. Qed.

Lemma gen_op_values :
  ((gen_op_Create =? 1) && (gen_op_Write =? 2) && (gen_op_Remove =? 4) && (gen_op_Rename =? 8) && (gen_op_Chmod =? 16) &&
   (gen_op_xUnportableOpen =? 32) && (gen_op_xUnportableRead =? 64) &&
   (gen_op_xUnportableCloseWrite =? 128) && (gen_op_xUnportableCloseRead =? 256))%bool = true.
Proof. vm_compute. reflexivity. Qed.

(* The generated code-shaped function *)
Definition gen_op_string (o : N) : string := code_string gen_string_rows gen_string_empty gen_string_strip o.

Lemma gen_op_string_is_spec o : gen_op_string o = op_string doc_names doc_empty doc_sep o.
Proof.
  unfold gen_op_string.
  rewrite (names_eqb_eq _ _ gen_rows_are_doc).
  pose proof gen_empty_is_doc as E. apply String.eqb_eq in E. rewrite E.
  pose proof gen_strip_is_sep as S. apply PeanoNat.Nat.eqb_eq in S. rewrite S.
  apply string_exact. cbn. auto.
Qed.
