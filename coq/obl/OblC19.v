(* Obligation of C19 on the control-flow skeletons generated from the current source of /repo (kept apart from OblCfg.v
   so that a change to the reader's structure that breaks only this shape fact does not touch the other properties). *)
From Coq Require Import List String Bool.
From Fsn Require Import CfgLang Cfg CfgExtra.
From FsnGen Require Import GenCfg.
Import ListNotations.

(* the reader registers a notification's watches before it sends its event *)
Lemma gen_register_before_send : register_before_send gen_program = true.
Proof. vm_compute. reflexivity. Qed.
