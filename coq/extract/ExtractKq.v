(* Extraction of the kqueue model and of the specification-level predicates for driver/kqdriver.ml.
   Directives: ExtrOcamlBasic (bool, option, unit, list, prod, sumbool, sumor -> OCaml natives),
   ExtrOcamlString (ascii -> char, string -> char list). Numbers are NOT remapped (N, positive, nat stay Coq datatypes). *)
From Coq Require Import Extraction ExtrOcamlBasic ExtrOcamlString NArith List String.
From Fsn Require Import KqModel.

Definition kq_cfg_repo := cfg_repo.
Definition kq_cfg_before_fix := cfg_before_fix.
Definition kq_st_init := st_init.
Definition kq_sp_init := sp_init.
Definition kq_model_obs := model_obs.
Definition kq_spec_step := spec_step.
Definition kq_tree := tree_list.
Definition kq_regs := regs_list.
Definition kq_pending (s : st) : nat := List.length (k_pend (K s)).
Definition kq_errs (s : st) := errs s.
Definition kq_clean := clean.

Extraction "kqmodel.ml" kq_cfg_repo kq_cfg_before_fix kq_st_init kq_sp_init kq_model_obs kq_spec_step kq_tree kq_regs kq_pending kq_errs kq_clean.
