(* Extraction of the inotify system model for the `ino` correspondence driver.
   Directives: ExtrOcamlBasic, ExtrOcamlString only; numbers are not remapped. *)
From Coq Require Import Extraction ExtrOcamlBasic ExtrOcamlString.
From stdpp Require Import gmap strings list.
From Fsn Require Import PathLex Bytes Tables Doc Watcher System.

Definition x_init := init_sys.
Definition x_step := sys_step.
Definition x_env_ok := env_ok.
Definition x_decode := decode.
Definition x_clean := clean.
Definition x_marks (s : sys) : list (N * N) := map_to_list (marks (K s)).
Definition x_twd (s : sys) : list (N * watch) := map_to_list (t_wd (W s)).
Definition x_tpath (s : sys) : list (string * N) := map_to_list (t_path (W s)).
Definition x_kq (s : sys) : list raw := kq (K s).
Definition x_outs (s : sys) : list output := outs s.

Extraction "inomodel.ml" x_init x_step x_env_ok x_decode x_clean x_marks x_twd x_tpath x_kq x_outs mkCfg mkRaw.
