(* Extraction of the Diff / DiffMatch model and of the C20 specification predicates for driver/diffdriver.ml.
   Directives: ExtrOcamlBasic (bool, option, unit, list, prod, sumbool -> OCaml natives),
   ExtrOcamlString (ascii -> char, string -> char list). Numbers are NOT remapped (nat stays a Coq datatype). *)
From Coq Require Import Extraction ExtrOcamlBasic ExtrOcamlString List String.
From Fsn Require Import Diff Match.

(* the model *)
Definition m_diff : string -> string -> option string := diff.
Definition m_diffmatch_empty : string -> list item -> bool := diffmatch_empty.
Definition m_render_items : list item -> string := render_items.
(* the specification side: reader of unified diffs and the clauses of C20 *)
Definition s_parse : string -> option (list (hunk string)) := parse_unified.
Definition s_empty_iff : string -> string -> string -> bool := spec_empty_iff.
Definition s_patch : string -> string -> list (hunk string) -> bool := spec_patch.
Definition s_headers : list (hunk string) -> bool := spec_headers.
Definition s_context : list (hunk string) -> bool := spec_context.
Definition s_changes : list (hunk string) -> bool := spec_changes.
Definition s_lines : string -> list string := lines_of.

Extraction "diffmodel.ml" m_diff m_diffmatch_empty m_render_items
  s_parse s_empty_iff s_patch s_headers s_context s_changes s_lines.
