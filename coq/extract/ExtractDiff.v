(* Extraction of the Diff / DiffMatch model and of the C20 specification predicates for driver/diffdriver.ml.
   Directives: ExtrOcamlBasic (bool, option, unit, list, prod, sumbool -> OCaml natives),
   ExtrOcamlString (ascii -> char, string -> char list). Numbers are NOT remapped (nat stays a Coq datatype). *)
From Coq Require Import Extraction ExtrOcamlBasic ExtrOcamlString List String.
From Fsn Require Import Diff Match.

(* the model *)
Definition m_diff : string -> string -> option string := diff.
Definition m_diffmatch_empty : string -> list item -> bool := diffmatch_empty.
Definition m_render_items : list item -> string := render_items.
(* the specification side: reader of unified diffs and the clauses of C20 *)
Definition s_parse : string -> option (list (hunk string)) := parse_unified.
Definition s_empty_iff : string -> string -> string -> bool := spec_empty_iff.
Definition s_patch : string -> string -> list (hunk string) -> bool := spec_patch.
Definition s_headers : list (hunk string) -> bool := spec_headers.
Definition s_context : list (hunk string) -> bool := spec_context.
Definition s_changes : list (hunk string) -> bool := spec_changes.
Definition s_lines : string -> list string := lines_of.

(* the inner functions and their contracts (function-level correspondence) *)
Definition m_flm : list string -> list string -> nat -> nat -> nat -> nat -> mtch := find_longest_match String.eqb.
Definition m_blocks : list string -> list string -> option (list mtch) := matching_blocks String.eqb.
Definition m_opcodes : list string -> list string -> option (list opcode) := get_opcodes String.eqb.
Definition m_groups : list string -> list string -> option (list (list opcode)) := grouped_opcodes String.eqb 3.
Definition m_format_range (start stop : nat) : string := render_range (format_range start stop).
Definition m_split_lines : string -> list string := split_lines.
Definition m_diff_lines : list string -> list string -> option string := diff_lines.
Definition s_flm_ok : list string -> list string -> nat -> nat -> nat -> nat -> mtch -> bool := flm_okb String.eqb.
Definition s_flm_max : list string -> list string -> nat -> nat -> nat -> nat -> mtch -> bool := flm_maxb String.eqb.
Definition s_flm_first : list string -> list string -> nat -> nat -> nat -> nat -> mtch -> bool := flm_firstb String.eqb.
Definition s_blocks_ok (a b : list string) (ms : list mtch) : bool := blocks_okb String.eqb a b 0 0 ms.
Definition s_tiles_ok (a b : list string) (cs : list opcode) : bool :=
  tiles_okb String.eqb a b 0 0 cs (List.length a) (List.length b).
Definition s_patch_lines : list string -> list string -> list (hunk string) -> bool := spec_patch_lines.
Definition s_empty_iff_lines : list string -> list string -> string -> bool := spec_empty_iff_lines.

Extraction "diffmodel.ml" m_flm m_blocks m_opcodes m_groups m_format_range m_split_lines m_diff_lines
  s_flm_ok s_flm_max s_flm_first s_blocks_ok s_tiles_ok s_patch_lines s_empty_iff_lines m_diff m_diffmatch_empty m_render_items
  s_parse s_empty_iff s_patch s_headers s_context s_changes s_lines.
