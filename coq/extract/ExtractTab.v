(* Extraction of the table / name models for the correspondence driver.
   Directives: ExtrOcamlBasic (bool, option, unit, list, prod, sumbool -> OCaml natives),
   ExtrOcamlString (ascii -> char, string -> char list). Numbers are NOT remapped (N, positive, nat stay Coq datatypes). *)
From Coq Require Import Extraction ExtrOcamlBasic ExtrOcamlString NArith List String.
From Fsn Require Import Bits Tables Names Doc.
From FsnGen Require Import GenTables GenNames.

Definition m_gen_newevent := eval_post inotify_newEvent_tbl inotify_newEvent_post.
Definition m_doc_newevent := doc_union inotify_doc.
Definition m_gen_request := eval_post inotify_request_tbl inotify_request_post.
Definition m_doc_request := doc_union inotify_needs.
Definition m_gen_supports := ceval inotify_supports.
Definition m_gen_has := has_eval gen_has.
Definition m_doc_has := has.
Definition m_gen_opstring := code_string gen_string_rows gen_string_empty gen_string_strip.
Definition m_doc_opstring := op_string doc_names doc_empty doc_sep.
Definition m_doc_evstring (qn qf : string) (name : string) (op : N) (from : string) : string :=
  event_string (fun s => if String.eqb s name then qn else qf) doc_names doc_empty doc_sep name op from.
Definition m_gen_kq_newevent := eval_post kqueue_newEvent_tbl kqueue_newEvent_post.
Definition m_doc_kq_newevent := eval_post (doc_table kqueue_doc) kqueue_doc_post.
Definition m_gen_win_newevent := eval_post windows_newEvent_tbl windows_newEvent_post.
Definition m_doc_win_newevent := doc_union windows_doc.
Definition m_gen_win_actions := sw_eval windows_toFSnotifyFlags_sw.
Definition m_doc_win_actions := sw_eval windows_actions.
Definition m_gen_win_subscribe := eval_post windows_toWindowsFlags_tbl windows_toWindowsFlags_post.
Definition m_doc_win_subscribe := eval windows_subscribe.
Definition m_gen_default_ops := gen_default_ops.

Extraction "tabmodel.ml" m_gen_newevent m_doc_newevent m_gen_request m_doc_request m_gen_supports
  m_gen_has m_doc_has m_gen_opstring m_doc_opstring m_doc_evstring
  m_gen_kq_newevent m_doc_kq_newevent m_gen_win_newevent m_doc_win_newevent m_gen_win_actions m_doc_win_actions
  m_gen_win_subscribe m_doc_win_subscribe m_gen_default_ops.
