(* Bridge.v — the statement every inotify property file starts from: for every history the contract allows, the model of
   the code (System.v: two tables, in-place updates, rm_watch loop, handleEvent) behaves exactly like the
   specification (Spec.v) — same API results (WatchList up to order), same delivered log, same kernel calls — and the
   specification's invariant holds.  Statements only. *)
From stdpp Require Import gmap strings list.
From Fsn Require Import PathLex Bytes Tables Doc Watcher System Spec SpecDefs Refine SpecInv Transfer.
Local Open Scope N_scope.

Theorem model_refines_spec : forall (cfg : config) (h : list step),
  c_recurse cfg = false ->
  Rel (run cfg h init_sys).1 (spec_run h init_spec).1 /\
  Forall2 res_equiv (run cfg h init_sys).2 (spec_run h init_spec).2.
Proof. exact (fun cfg h Hnr => run_refines cfg h init_sys init_spec Hnr init_rel). Qed.

Theorem model_log_is_spec_log : forall cfg h, history_ok cfg h ->
  outs (run cfg h init_sys).1 = souts (spec_run h init_spec).1 /\
  handled (run cfg h init_sys).1 = shandled (spec_run h init_spec).1.
Proof. exact impl_outs. Qed.

Theorem spec_invariant : forall cfg h, history_ok cfg h -> SInv (spec_run h init_spec).1.
Proof. exact final_inv. Qed.

Theorem contract_transfers : forall cfg h s a,
  c_recurse cfg = false -> Rel s a -> valid cfg h s = true -> no_inject h = true -> spec_valid h a = true.
Proof. exact valid_transfer. Qed.

Print Assumptions model_refines_spec.
Print Assumptions model_log_is_spec_log.
Print Assumptions spec_invariant.
