(* C10 — Errors carries only genuine failures; overflow is reported and survivable.  Statements only. *)
From stdpp Require Import gmap strings list.
From Fsn Require Import PathLex Bytes Tables Doc Watcher System Spec SpecDefs Refine SpecInv SpecStream Transfer.
Local Open Scope N_scope.

(* on the model of the code: a history without injected faults and without queue overflow — Add/Remove calls and ANY
   kernel-side activity the contract allows, handled at ANY speed (SHandle steps may come arbitrarily late, e.g. after
   the kernel has already dropped a watch) — never puts a value on Errors *)
Theorem C10_benign_no_errors : forall cfg h, history_ok cfg h -> benign h = true ->
  errs (run cfg h init_sys).1 = [].
Proof. exact impl_benign_no_errors. Qed.

(* per notification: the only error is the overflow report *)
Theorem C10_errors_only_from_overflow : forall a r q,
  err_list (handle_outs a r q) = if has_any (r_mask r) IN_Q_OVERFLOW then [ErrEventOverflow] else [].
Proof. exact handle_errors. Qed.

Theorem C10_overflow_reported : forall a st, (exists d q, st = SHandle d /\ kq (sK a) = overflow_rec :: q) ->
  err_list (souts (spec_step a st).1) = err_list (souts a) ++ [ErrEventOverflow].
Proof. exact overflow_reported. Qed.

(* the watcher survives an overflow: the invariant is preserved by KOverflow and by handling the marker, so every
   theorem about later events, Add and Remove keeps holding *)
Theorem C10_survives_overflow : forall a st, SInv a -> spec_env_ok a st = true -> is_inject st = false ->
  SInv (spec_step a st).1.
Proof. exact spec_inv_step. Qed.

Example C10_example :   (* rename then delete, both handled late: no error; then an overflow: exactly one *)
  let cfg := mkCfg false "/" in
  let h := [SAdd "f" 31 false [("f"%string, (inr 7, inr 7))];
            KEmit (mkRaw 1 2048 0 0 ""); KRelease 1 true; SHandle []; SHandle []; SHandle []; SHandle []] in
  valid cfg h init_sys = true /\ errs (run cfg h init_sys).1 = [] /\
  errs (run cfg (h ++ [KOverflow; SHandle []]) init_sys).1 = [ErrEventOverflow].
Proof. vm_compute. done. Qed.

Print Assumptions C10_benign_no_errors.
Print Assumptions C10_errors_only_from_overflow.
Print Assumptions C10_overflow_reported.
Print Assumptions C10_survives_overflow.
