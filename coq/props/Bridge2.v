(* Bridge2.v — the protocol model and the sequential model are one system: every concurrent execution of the Watcher
   (reader goroutine, any number of API callers and closers, the kernel, the consumer; any schedule, any capacity) whose
   reads are faithful is a sequential System history, so the sequential theorems hold of every reachable concurrent
   state and the consumer receives a prefix of that state's log.  Statements only (proofs in theories/ConcSystem.v). *)
From stdpp Require Import gmap strings list.
From Fsn Require Import PathLex Bytes Tables Doc Watcher System Spec SpecDefs Refine SpecInv Transfer.
From Fsn Require Import Conc ConcDefs ConcSafety ConcSystem.

Notation scstate := (@cstate sev err sys acall api_result sitem kcall).
Notation slabel := (@label acall api_result sitem kcall).

(* the instance: the critical sections are the steps of System.v *)
Theorem B2_api_is_sys_step : forall cfg d c, sys_api cfg d c = sys_step cfg d (step_of c).
Proof. reflexivity. Qed.
Theorem B2_env_is_sys_step : forall cfg d k,
  sys_env cfg d k = if env_ok d (kstep_of k) then Some (sys_step cfg d (kstep_of k)).1 else None.
Proof. reflexivity. Qed.
Theorem B2_hnd_is_sys_step : forall cfg d r dirs q,
  kq (K d) = r :: q ->
  (sys_hnd cfg d (r, dirs)).1 = (sys_step cfg d (SHandle dirs)).1 /\ (sys_step cfg d (SHandle dirs)).2 = RNil.
Proof. exact sys_hnd_is_handle. Qed.
(* what is sent before the lock ++ what is sent after it = what the step appends to the log *)
Theorem B2_pre_post_is_log : forall cfg d i,
  map out_msg (outs (sys_hnd cfg d i).1) = map out_msg (outs d) ++ sys_pre i ++ (sys_hnd cfg d i).2.
Proof. exact sys_hnd_outs. Qed.

(* the kernel queue: API calls and kernel-side steps only append; SHandle pops the head and may append *)
Theorem B2_api_appends : forall cfg d c, exists g, kq (K (sys_api cfg d c).1) = kq (K d) ++ g.
Proof. exact sys_api_kext. Qed.
Theorem B2_env_appends : forall cfg d k d', sys_env cfg d k = Some d' -> exists g, kq (K d') = kq (K d) ++ g.
Proof. exact sys_env_kext. Qed.
Theorem B2_handle_pops_head : forall cfg d dirs r q,
  kq (K d) = r :: q -> exists g, kq (K (sys_step cfg d (SHandle dirs)).1) = q ++ g.
Proof. exact sys_step_handle_kq. Qed.

(* the records the reader holds are the head of the model's queue, in order *)
Theorem B2_reader_holds_queue_head : forall cfg cap cf d0 ls (s : scstate),
  scrun cfg cap cf (cinit d0) ls = Some s -> faithful_reads cfg cap cf (cinit d0) ls = true ->
  exists q, kq (K (data s)) = (held (rd s)).*1 ++ q.
Proof. exact reader_holds_queue_head. Qed.

(* (a) *)
Theorem B2_conc_is_sequential : forall cfg cap cf d0 ls (s : scstate),
  scrun cfg cap cf (cinit d0) ls = Some s -> faithful_reads cfg cap cf (cinit d0) ls = true ->
  let h := hist (lin s) in
  valid cfg h d0 = true /\ no_inject h = true /\ (run cfg h d0).1 = data s /\ Forall2 res_ok (lin s) (run cfg h d0).2.
Proof. exact conc_is_sequential. Qed.

(* (b) *)
Theorem B2_history_ok : forall cfg, c_recurse cfg = false -> forall cap cf ls (s : scstate),
  scrun cfg cap cf (cinit init_sys) ls = Some s -> faithful_reads cfg cap cf (cinit init_sys) ls = true ->
  history_ok cfg (hist (lin s)).
Proof. exact conc_history_ok. Qed.
Theorem B2_refines_spec : forall cfg, c_recurse cfg = false -> forall cap cf ls (s : scstate),
  scrun cfg cap cf (cinit init_sys) ls = Some s -> faithful_reads cfg cap cf (cinit init_sys) ls = true ->
  Rel (data s) (spec_run (hist (lin s)) init_spec).1 /\ SInv (spec_run (hist (lin s)) init_spec).1 /\
  Forall2 res_equiv (run cfg (hist (lin s)) init_sys).2 (spec_run (hist (lin s)) init_spec).2.
Proof. exact conc_refines_spec. Qed.
Theorem B2_tables_in_step : forall cfg, c_recurse cfg = false -> forall cap cf ls (s : scstate),
  scrun cfg cap cf (cinit init_sys) ls = Some s -> faithful_reads cfg cap cf (cinit init_sys) ls = true ->
  kq (K (data s)) = [] ->
  dom (marks (K (data s))) ≡@{gset N} dom (t_wd (W (data s))) /\
  size (t_wd (W (data s))) = size (t_path (W (data s))) /\
  length (watch_list (W (data s))) = size (t_wd (W (data s))) /\ NoDup (watch_list (W (data s))).
Proof. exact conc_tables_in_step. Qed.
Theorem B2_benign_no_errors : forall cfg, c_recurse cfg = false -> forall cap cf ls (s : scstate),
  scrun cfg cap cf (cinit init_sys) ls = Some s -> faithful_reads cfg cap cf (cinit init_sys) ls = true ->
  benign (hist (lin s)) = true -> errs (data s) = [].
Proof. exact conc_benign_no_errors. Qed.
Theorem B2_log_is_spec_log : forall cfg, c_recurse cfg = false -> forall cap cf ls (s : scstate),
  scrun cfg cap cf (cinit init_sys) ls = Some s -> faithful_reads cfg cap cf (cinit init_sys) ls = true ->
  outs (data s) = souts (spec_run (hist (lin s)) init_spec).1 /\ handled (data s) = shandled (spec_run (hist (lin s)) init_spec).1.
Proof. exact conc_log_is_spec_log. Qed.
Theorem B2_paths_are_add_arguments : forall cfg, c_recurse cfg = false -> forall cap cf ls (s : scstate),
  scrun cfg cap cf (cinit init_sys) ls = Some s -> faithful_reads cfg cap cf (cinit init_sys) ls = true ->
  forall wd x, t_wd (W (data s)) !! wd = Some x ->
  exists arg ops nf walk r, LinCall (AAdd arg ops nf walk) r ∈ lin s /\ w_path x = clean arg.
Proof. exact conc_paths_are_add_arguments. Qed.

(* (c) *)
Theorem B2_stream : forall cfg cap cf ls (s : scstate),
  scrun cfg cap cf (cinit init_sys) ls = Some s -> faithful_reads cfg cap cf (cinit init_sys) ls = true ->
  (recvd_ev s ++ ev_buf s) `prefix_of` evs (data s) /\
  (reader_exiting (rd s) = false -> evs (data s) = recvd_ev s ++ ev_buf s ++ evs_of (pending_msgs (rd s))) /\
  exists u, started s = handled_items (lin s) ++ u /\ (length u <= 1)%nat /\
            (reader_exiting (rd s) = false -> u = cur_items (rd s)) /\
            recvd_er s `prefix_of` errs (data s) ++ ers_of (concat (map sys_pre u)) /\
            (reader_exiting (rd s) = false ->
             errs (data s) ++ ers_of (concat (map sys_pre u)) = recvd_er s ++ ers_of (pending_msgs (rd s))).
Proof. exact conc_stream. Qed.
Theorem B2_events_are_log_prefix : forall cfg cap cf ls (s : scstate),
  scrun cfg cap cf (cinit init_sys) ls = Some s -> faithful_reads cfg cap cf (cinit init_sys) ls = true ->
  recvd_ev s `prefix_of` evs (data s).
Proof. exact conc_events_are_log_prefix. Qed.
Theorem B2_errors_are_log_prefix : forall cfg cap cf ls (s : scstate),
  scrun cfg cap cf (cinit init_sys) ls = Some s -> faithful_reads cfg cap cf (cinit init_sys) ls = true ->
  reader_exiting (rd s) = false -> cur_items (rd s) = [] -> recvd_er s `prefix_of` errs (data s).
Proof. exact conc_errors_are_log_prefix. Qed.

(* non-vacuity: Add("e") racing the handling of a Create in "d" *)
Example B2_example :
  exists s, scrun ex_cfg 0 (mkCf false true) (cinit init_sys) ex_ls = Some s /\
            valid ex_cfg (hist (lin s)) init_sys = true /\ (run ex_cfg (hist (lin s)) init_sys).1 = data s /\
            history_ok ex_cfg (hist (lin s)) /\ recvd_ev s `prefix_of` evs (data s).
Proof. exact ex_conc_sequential. Qed.

Print Assumptions B2_hnd_is_sys_step.
Print Assumptions B2_pre_post_is_log.
Print Assumptions B2_reader_holds_queue_head.
Print Assumptions B2_conc_is_sequential.
Print Assumptions B2_history_ok.
Print Assumptions B2_refines_spec.
Print Assumptions B2_tables_in_step.
Print Assumptions B2_benign_no_errors.
Print Assumptions B2_log_is_spec_log.
Print Assumptions B2_paths_are_add_arguments.
Print Assumptions B2_stream.
Print Assumptions B2_events_are_log_prefix.
Print Assumptions B2_errors_are_log_prefix.
Print Assumptions B2_example.
