(* C09 — a watch ends when its path is deleted or renamed, and can be re-added.  Statements only. *)
From stdpp Require Import gmap strings list.
From Fsn Require Import PathLex Bytes Tables Doc Watcher System Spec SpecDefs Refine SpecInv SpecStream SpecWatchSet Transfer.
Local Open Scope N_scope.

(* handling IN_DELETE_SELF, IN_MOVE_SELF (or IN_IGNORED / IN_UNMOUNT) for a watch ends exactly that watch *)
Theorem C09_watch_ends : forall a r q x, sA a !! r_wd r = Some x ->
  (has_any (r_mask r) IN_IGNORED = true \/ has_any (r_mask r) IN_UNMOUNT = true \/
   has_all (r_mask r) IN_DELETE_SELF = true \/ has_all (r_mask r) IN_MOVE_SELF = true) ->
  sA (spec_handle a r q) !! r_wd r = None /\
  (forall wd, wd <> r_wd r -> sA (spec_handle a r q) !! wd = sA a !! wd).
Proof. exact watch_ends. Qed.

(* its path disappears from WatchList and Remove on it reports ErrNonExistentWatch *)
Theorem C09_path_unlisted : forall a r q x, SInv a -> sA a !! r_wd r = Some x ->
  (has_any (r_mask r) IN_IGNORED = true \/ has_any (r_mask r) IN_UNMOUNT = true \/
   has_all (r_mask r) IN_DELETE_SELF = true \/ has_all (r_mask r) IN_MOVE_SELF = true) ->
  a_path x ∉ spec_list (sA (spec_handle a r q)).
Proof. exact watch_ends_not_in_list. Qed.
Theorem C09_remove_reports_nonexistent : forall a r q x, SInv a -> sA a !! r_wd r = Some x ->
  (has_any (r_mask r) IN_IGNORED = true \/ has_any (r_mask r) IN_UNMOUNT = true \/
   has_all (r_mask r) IN_DELETE_SELF = true \/ has_all (r_mask r) IN_MOVE_SELF = true) ->
  let a' := spec_handle a r q in
  spec_remove_core (sK a') (sA a') (a_path x) = (sK a', sA a', RErr ErrNonExistentWatch).
Proof. exact watch_ends_remove_reports. Qed.

(* for a move the kernel watch is released as well, so the moved file reports nothing further *)
Theorem C09_move_releases_kernel_watch : forall a r q x, sA a !! r_wd r = Some x ->
  has_all (r_mask r) IN_MOVE_SELF = true -> has_all (r_mask r) IN_DELETE_SELF = false ->
  has_any (r_mask r) IN_IGNORED = false -> has_any (r_mask r) IN_UNMOUNT = false ->
  marks (sK (spec_handle a r q)) !! r_wd r = None.
Proof. exact move_self_releases_kernel_watch. Qed.

(* the ended watch's descriptor never denotes a watch again: nothing is reported about a new file under the old name
   unless it is added again *)
Theorem C09_nothing_further : forall h a wd, SInv a -> spec_valid h a = true ->
  wd < next_wd (sK a) -> marks (sK a) !! wd = None -> sA a !! wd = None ->
  sA (spec_run h a).1 !! wd = None /\ marks (sK (spec_run h a).1) !! wd = None.
Proof. exact wd_never_returns. Qed.

(* … and it can be added again, which watches the file now at that path *)
Theorem C09_re_add_watches_new_file : forall a p f ino, SInv a ->
  find_path (sA a) p = None -> find_mark (sK a) ino = None ->
  spec_add_core (sK a) (sA a) p f (inr ino, inr ino) =
    (mkK (<[next_wd (sK a) := ino]> (marks (sK a))) (N.succ (next_wd (sK a))) (kq (sK a)),
     <[next_wd (sK a) := mkAw p f]> (sA a), RNil).
Proof. exact re_add_after_end_inv. Qed.

(* every other notification — in particular the IN_ATTRIB of an unlink while a descriptor is still open — keeps the watch *)
Theorem C09_other_notifications_keep_the_watch : forall a r q,
  has_any (r_mask r) IN_IGNORED = false -> has_any (r_mask r) IN_UNMOUNT = false ->
  has_all (r_mask r) IN_DELETE_SELF = false -> has_all (r_mask r) IN_MOVE_SELF = false ->
  sA (spec_handle a r q) = sA a /\ marks (sK (spec_handle a r q)) = marks (sK a).
Proof. exact other_notifications_keep_the_watch. Qed.

(* unlink while open: Chmod now, watch kept; last close: the watch ends and Remove is delivered (no listed parent) *)
Example C09_example :
  let h := [SAdd "f" 31 false [("f"%string, (inr 7, inr 7))];
            KEmit (mkRaw 1 4 0 0 ""); SHandle []; SList;
            KRelease 1 true; SHandle []; SHandle []; SList; SRemove "f"] in
  (spec_run h init_spec).2 = [RNil; RNil; RNil; RList ["f"%string]; RNil; RNil; RNil; RList []; RErr ErrNonExistentWatch] /\
  ev_list (souts (spec_run h init_spec).1) = [("f"%string, 16, ""%string); ("f"%string, 4, ""%string)].
Proof. vm_compute. done. Qed.

Print Assumptions C09_watch_ends.
Print Assumptions C09_path_unlisted.
Print Assumptions C09_remove_reports_nonexistent.
Print Assumptions C09_move_releases_kernel_watch.
Print Assumptions C09_nothing_further.
Print Assumptions C09_re_add_watches_new_file.
Print Assumptions C09_other_notifications_keep_the_watch.
