(* C15 — native notification flags map to the documented operations on every backend.
   Only statements, closed by [exact]; the work is in theories/Tables.v and obl/OblC15.v.
   The *_tbl / *_post / *_sw values are generated from the current source of /repo on every run. *)
From Coq Require Import NArith List Bool.
From Fsn Require Import Bits Tables Doc.
From FsnGen Require Import GenTables.
From FsnObl Require Import OblC15.
Import ListNotations.
Local Open Scope N_scope.

(* ---------- inotify ---------- *)
(* for every mask (all of N, hence all 2^32, housekeeping bits included) the source's newEvent yields the
   union of the documented operation of each native flag present *)
Theorem C15_inotify_translate : forall mask : N,
  eval_post inotify_newEvent_tbl inotify_newEvent_post mask = doc_union inotify_doc mask.
Proof. exact (tables_agree _ _ _ _ inotify_translate_sweep). Qed.

Theorem C15_inotify_union_of_parts : forall m1 m2 : N,
  eval_post inotify_newEvent_tbl inotify_newEvent_post (N.lor m1 m2) =
  N.lor (eval_post inotify_newEvent_tbl inotify_newEvent_post m1) (eval_post inotify_newEvent_tbl inotify_newEvent_post m2).
Proof.
  intros m1 m2. rewrite !(tables_agree _ _ _ _ inotify_translate_sweep).
  exact (doc_union_lor inotify_doc inotify_doc_bits m1 m2).
Qed.

(* the subscription for a requested set (input = operation bits, plus bit 32 for the no-follow option) is exactly the
   union of what each requested operation needs: nothing needed is missing, nothing unrelated is requested *)
Theorem C15_inotify_request_exact : forall ops : N,
  eval_post inotify_request_tbl inotify_request_post ops = doc_union inotify_needs ops.
Proof. exact (tables_agree _ _ _ _ inotify_request_sweep). Qed.

(* … and every requested defined operation can then be observed *)
Theorem C15_inotify_request_observable : forall ops : N,
  N.land (N.land ops all_ops)
         (eval_post inotify_newEvent_tbl inotify_newEvent_post (eval_post inotify_request_tbl inotify_request_post ops))
  = N.land ops all_ops.
Proof.
  intro ops. rewrite (tables_agree _ _ _ _ inotify_request_sweep), (tables_agree _ _ _ _ inotify_translate_sweep).
  exact (inotify_observable ops).
Qed.

Theorem C15_inotify_supports_everything : forall op : N, ceval inotify_supports op = true.
Proof. exact inotify_supports_all. Qed.

Theorem C15_default_ops : gen_default_ops = N.lor Create (N.lor Write (N.lor Remove (N.lor Rename Chmod))).
Proof. exact (proj1 (N.eqb_eq _ _) gen_default_ops_ok). Qed.

(* ---------- kqueue ---------- *)
Theorem C15_kqueue_translate : forall fflags : N,
  eval_post kqueue_newEvent_tbl kqueue_newEvent_post fflags =
  (let u := doc_union kqueue_doc fflags in
   if negb (N.land u Write =? 0) && negb (N.land u Remove =? 0) then N.ldiff u Write else u).
Proof. exact (tables_agree _ _ _ _ kqueue_translate_sweep). Qed.

Theorem C15_kqueue_union_of_parts : forall m1 m2 : N,
  doc_union kqueue_doc (N.lor m1 m2) = N.lor (doc_union kqueue_doc m1) (doc_union kqueue_doc m2).
Proof. exact (doc_union_lor kqueue_doc kqueue_doc_bits). Qed.

Theorem C15_kqueue_request :
  kqueue_noteAllEvents = N.lor NOTE_DELETE (N.lor NOTE_WRITE (N.lor NOTE_RENAME NOTE_ATTRIB)) /\
  kqueue_AddWith_flags_is_noteAllEvents = true.
Proof.
  pose proof kqueue_request as H. apply andb_prop in H as [H1 H2]. apply N.eqb_eq in H1.
  exact (conj H1 H2).
Qed.

Theorem C15_kqueue_supports : forall op : N, ceval kqueue_supports op = (N.land op unportable =? 0).
Proof. exact (supports_portable_only_ok _ kqueue_supports_ok). Qed.

(* ---------- Windows ---------- *)
Theorem C15_windows_translate : forall mask : N,
  eval_post windows_newEvent_tbl windows_newEvent_post mask = doc_union windows_doc mask.
Proof. exact (tables_agree _ _ _ _ windows_translate_sweep). Qed.

Theorem C15_windows_union_of_parts : forall m1 m2 : N,
  doc_union windows_doc (N.lor m1 m2) = N.lor (doc_union windows_doc m1) (doc_union windows_doc m2).
Proof. exact (doc_union_lor windows_doc windows_doc_bits). Qed.

Theorem C15_windows_never_chmod : forall mask : N,
  N.land (eval_post windows_newEvent_tbl windows_newEvent_post mask) Chmod = 0.
Proof.
  intro mask. rewrite (tables_agree _ _ _ _ windows_translate_sweep).
  exact (doc_union_never windows_doc Chmod eq_refl mask).
Qed.

Theorem C15_windows_actions : forall action : N,
  sw_eval windows_toFSnotifyFlags_sw action = sw_eval windows_actions action.
Proof. exact (switch_agree _ _ windows_actions_ok). Qed.

Theorem C15_windows_subscription : forall mask : N,
  eval_post windows_toWindowsFlags_tbl windows_toWindowsFlags_post mask = eval windows_subscribe mask.
Proof. exact (tables_agree _ _ _ _ windows_subscribe_sweep). Qed.

Theorem C15_windows_request_all : windows_sysFSALLEVENTS = 4095 /\ windows_AddWith_flags_is_ALLEVENTS = true.
Proof.
  pose proof windows_request_all as H. apply andb_prop in H as [H1 H2]. apply N.eqb_eq in H1. exact (conj H1 H2).
Qed.

Theorem C15_windows_supports : forall op : N, ceval windows_supports op = (N.land op unportable =? 0).
Proof. exact (supports_portable_only_ok _ windows_supports_ok). Qed.

Theorem C15_fen_supports : forall op : N, ceval fen_supports op = (N.land op unportable =? 0).
Proof. exact (supports_portable_only_ok _ fen_supports_ok). Qed.

(* non-vacuity: concrete values of the generated tables *)
Example C15_example :
  eval_post inotify_newEvent_tbl inotify_newEvent_post (N.lor IN_MOVED_TO 1073741824 (* IN_ISDIR *)) = Create /\
  eval_post kqueue_newEvent_tbl kqueue_newEvent_post (N.lor NOTE_WRITE NOTE_DELETE) = Remove /\
  eval_post inotify_request_tbl inotify_request_post 31 = 4038.
Proof. repeat split; vm_compute; reflexivity. Qed.

Print Assumptions C15_inotify_translate.
Print Assumptions C15_inotify_union_of_parts.
Print Assumptions C15_inotify_request_exact.
Print Assumptions C15_inotify_request_observable.
Print Assumptions C15_inotify_supports_everything.
Print Assumptions C15_default_ops.
Print Assumptions C15_kqueue_translate.
Print Assumptions C15_kqueue_union_of_parts.
Print Assumptions C15_kqueue_request.
Print Assumptions C15_kqueue_supports.
Print Assumptions C15_windows_translate.
Print Assumptions C15_windows_union_of_parts.
Print Assumptions C15_windows_never_chmod.
Print Assumptions C15_windows_actions.
Print Assumptions C15_windows_subscription.
Print Assumptions C15_windows_request_all.
Print Assumptions C15_windows_supports.
Print Assumptions C15_fen_supports.
