(* C16 — Op and Event predicates and renderings are total, exact and unambiguous.
   Only statements, closed by [exact]; the work is in theories/Names.v and obl/OblC16.v. *)
From Coq Require Import NArith List String Bool.
From Fsn Require Import Bits Names Doc.
From FsnGen Require Import GenNames.
From FsnObl Require Import OblC16.
Local Open Scope N_scope.

(* Op.Has, as written in the current source (gen_has), is true exactly when the sets intersect — for all N. *)
Theorem C16_has_iff_intersect : forall o h : N,
  has_eval gen_has o h = true <-> exists i, N.testbit o i = true /\ N.testbit h i = true.
Proof. rewrite gen_has_shape. exact has_iff_intersect. Qed.

Theorem C16_event_has_agrees : gen_event_has_delegates = true.
Proof. exact gen_event_has_ok. Qed.

(* Op.String, as written in the current source, renders exactly the documented names present … *)
Theorem C16_string_exact : forall o : N,
  gen_op_string o =
    match present doc_names o with nil => doc_empty | l => join doc_sep l end.
Proof. exact gen_op_string_is_spec. Qed.

(* … where [present] lists exactly the names whose bit is in o, each once, in table order. *)
Theorem C16_present_exact : forall o n,
  In n (present doc_names o) <-> exists b, In (b, n) doc_names /\ has o b = true.
Proof. exact (present_exact doc_names). Qed.
Theorem C16_present_once : forall o, NoDup (present doc_names o).
Proof. exact (fun o => present_once doc_names o doc_names_nodup). Qed.

(* distinct sets of defined operations render differently; undefined bits never alter the text *)
Theorem C16_string_injective : forall o1 o2 : N,
  N.land o1 (defined doc_names) <> N.land o2 (defined doc_names) -> gen_op_string o1 <> gen_op_string o2.
Proof.
  intros o1 o2 H. rewrite !gen_op_string_is_spec.
  exact (string_injective doc_names doc_empty doc_sep doc_renderings_distinct o1 o2 H).
Qed.
Theorem C16_undefined_bits_ignored : forall o : N,
  gen_op_string o = gen_op_string (N.land o (defined doc_names)).
Proof.
  intro o. rewrite !gen_op_string_is_spec.
  exact (undefined_bits_ignored doc_names doc_empty doc_sep o).
Qed.

(* Event.String: text of the operations padded to 13, the quoted name, and for the new name of a rename the old name;
   for every quoting function q. *)
Theorem C16_event_string_shape : forall (q : string -> string) name op from,
  event_string q doc_names doc_empty doc_sep name op from =
    (pad_right 13 (op_string doc_names doc_empty doc_sep op) ++ " " ++ q name ++
      (match from with EmptyString => "" | _ => " " ++ arrow ++ " " ++ q from end))%string.
Proof. exact (fun q => event_string_shape q doc_names doc_empty doc_sep). Qed.
Theorem C16_event_string_source_shape :
  (String.eqb gen_event_fmt_plain (bytes_to_string (37 :: 45 :: 49 :: 51 :: 115 :: 32 :: 37 :: 113 :: nil)) &&
   String.eqb gen_event_fmt_renamed (bytes_to_string (37 :: 45 :: 49 :: 51 :: 115 :: 32 :: 37 :: 113 :: 32 :: 226 :: 134 :: 144 :: 32 :: 37 :: 113 :: nil)) &&
   String.eqb gen_event_args_plain "e.Op.String(),e.Name" &&
   String.eqb gen_event_args_renamed "e.Op.String(),e.Name,e.renamedFrom" &&
   String.eqb gen_event_cond "e.renamedFrom != """"")%bool = true.
Proof. exact gen_event_formats. Qed.

(* non-vacuity: a concrete value *)
Example C16_example : gen_op_string 13 = "CREATE|REMOVE|RENAME"%string /\ gen_op_string 512 = "[no events]"%string.
Proof. split; vm_compute; reflexivity. Qed.

Print Assumptions C16_has_iff_intersect.
Print Assumptions C16_event_has_agrees.
Print Assumptions C16_string_exact.
Print Assumptions C16_present_exact.
Print Assumptions C16_present_once.
Print Assumptions C16_string_injective.
Print Assumptions C16_undefined_bits_ignored.
Print Assumptions C16_event_string_shape.
Print Assumptions C16_event_string_source_shape.
