(* C02 — no phantom events: everything reported really happened to a watched path.  Statements only. *)
From stdpp Require Import gmap strings list.
From Fsn Require Import PathLex Bytes Tables Doc Watcher System Spec SpecDefs Refine SpecInv SpecStream SpecWatchSet Transfer.
Local Open Scope N_scope.

(* every event has a non-empty operation set, is named after a path that is listed when the notification is handled
   or after one entry directly below it, carries the translation of that very notification, and is never caused by
   kernel housekeeping (IN_IGNORED, IN_UNMOUNT) *)
Theorem C02_event_shape : forall a r q n op f,
  (n, op, f) ∈ ev_list (handle_outs a r q) ->
  exists x, sA a !! r_wd r = Some x /\ op = translate (r_mask r) /\ op <> 0 /\
    n = (if r_len r =? 0 then a_path x else a_path x +:+ "/" +:+ r_name r) /\
    has_any (r_mask r) IN_IGNORED = false /\ has_any (r_mask r) IN_UNMOUNT = false.
Proof. exact handle_event_shape. Qed.

Theorem C02_at_most_one_event_per_notification : forall a r q, (length (ev_list (handle_outs a r q)) <= 1)%nat.
Proof. exact handle_at_most_one_event. Qed.

Theorem C02_housekeeping_silent : forall a r q,
  has_any (r_mask r) IN_IGNORED = true \/ has_any (r_mask r) IN_UNMOUNT = true -> ev_list (handle_outs a r q) = [].
Proof. exact housekeeping_silent. Qed.

(* the overflow marker (wd = -1) is never mistaken for a watch *)
Theorem C02_overflow_marker_silent : forall a q, (forall wd, is_Some (sA a !! wd) -> wd < 4294967295) ->
  ev_list (handle_outs a overflow_rec q) = [] /\ err_list (handle_outs a overflow_rec q) = [ErrEventOverflow].
Proof. exact overflow_marker. Qed.

(* a notification whose watch is gone (removed by the user, or ended) reports nothing … *)
Theorem C02_no_watch_no_event : forall a r q, sA a !! r_wd r = None -> ev_list (handle_outs a r q) = [].
Proof. exact unknown_wd_silent. Qed.

(* … Remove takes the watch out of the set at once … *)
Theorem C02_remove_unlists : forall k A p wd, find_path A p = Some wd ->
  exists k' r, spec_remove_core k A p = (k', delete wd A, r) /\
    ((is_Some (marks k !! wd) /\ r = RNil /\ marks k' !! wd = None /\ kq k' = kq k ++ [ignored_rec wd]) \/
     (marks k !! wd = None /\ r = RErr (ErrNo EINVAL) /\ k' = k)).
Proof. exact remove_listed. Qed.

(* … and its descriptor never denotes a watch again, so nothing queued before or after Remove returned is ever
   attributed to it, whatever names are re-used later *)
Theorem C02_silent_after_remove : forall h a wd, SInv a -> spec_valid h a = true ->
  wd < next_wd (sK a) -> marks (sK a) !! wd = None -> sA a !! wd = None ->
  sA (spec_run h a).1 !! wd = None /\ marks (sK (spec_run h a).1) !! wd = None.
Proof. exact wd_never_returns. Qed.

(* API calls and kernel-side steps deliver nothing by themselves *)
Theorem C02_only_handling_delivers : forall a st, let a' := (spec_step a st).1 in
  (shandled a' = shandled a /\ souts a' = souts a) \/
  (exists r q, shandled a' = shandled a ++ [r] /\ souts a' = souts a ++ handle_outs a r q /\
     ((exists d, st = SInject r d /\ q = kq (sK a)) \/ (exists d, st = SHandle d /\ kq (sK a) = r :: q))).
Proof. exact step_log_strong. Qed.

Theorem C02_model_log_is_spec_log : forall cfg h, history_ok cfg h ->
  outs (run cfg h init_sys).1 = souts (spec_run h init_spec).1 /\
  handled (run cfg h init_sys).1 = shandled (spec_run h init_spec).1.
Proof. exact impl_outs. Qed.

(* non-vacuity: a create inside an unwatched subdirectory is not something the kernel reports for the watch on its
   parent, and a record for a removed watch is dropped *)
Example C02_example :
  let h := [SAdd "d" 31 false [("d"%string, (inr 7, inr 7))]; KEmit (mkRaw 1 256 0 16 "f");
            SRemove "d"; SHandle []; SHandle []] in
  ev_list (souts (spec_run h init_spec).1) = [].
Proof. vm_compute. reflexivity. Qed.

Print Assumptions C02_event_shape.
Print Assumptions C02_at_most_one_event_per_notification.
Print Assumptions C02_housekeeping_silent.
Print Assumptions C02_overflow_marker_silent.
Print Assumptions C02_no_watch_no_event.
Print Assumptions C02_remove_unlists.
Print Assumptions C02_silent_after_remove.
Print Assumptions C02_only_handling_delivers.
Print Assumptions C02_model_log_is_spec_log.
