(* C01 — no lost events: every change to a watched path is reported.  Statements only.
   Layers: (1) the read buffer is decoded completely at every offset; (2) every decoded notification of a live watch
   yields exactly one event with the documented operation and name; (3) the model of the code does what the
   specification does on every history; (4) the default subscription contains every flag the five default operations
   need.  The kernel's part (a change => a notification) is the inotify contract, validated by the harness. *)
From Coq Require Import NArith List.
From Fsn Require Import Bytes BytesProofs.
From stdpp Require Import gmap strings list.
From Fsn Require Import PathLex Tables Doc Watcher System Spec SpecDefs Refine SpecInv SpecStream Transfer.
Local Open Scope N_scope.

(* (1) for any number of records, any name lengths and any legal NUL paddings — i.e. at every buffer offset *)
Theorem C01_decode_all : forall (rs : list (raw * nat)),
  Forall (fun rp => raw_wf (fst rp) = true /\ legal_pad (fst rp) (snd rp) = true) rs ->
  Bytes.decode (List.concat (List.map (fun rp => Bytes.encode (fst rp) (snd rp)) rs)) = List.map fst rs.
Proof. exact BytesProofs.decode_encode. Qed.

(* … whatever the batching *)
Theorem C01_batching_irrelevant : forall rs1 rs2, recs_wf rs1 -> recs_wf rs2 ->
  Bytes.decode (bufof rs1 ++ bufof rs2) = Bytes.decode (bufof rs1) ++ Bytes.decode (bufof rs2).
Proof. exact BytesProofs.decode_app. Qed.

(* (2) a notification for a live watch is delivered exactly once, named after the watch (plus the entry name), with
   the documented operations — unless it is kernel housekeeping, translates to no operation, or is the delete of a
   path whose listed parent directory reports it *)
Theorem C01_delivered_once : forall a r q x,
  sA a !! r_wd r = Some x -> has_any (r_mask r) IN_IGNORED = false -> has_any (r_mask r) IN_UNMOUNT = false ->
  translate (r_mask r) <> 0 ->
  (has_any (r_mask r) IN_DELETE_SELF = true ->
   find_path (spec_end_of_watch (mkK (marks (sK a)) (next_wd (sK a)) q) (sA a) (r_wd r) (r_mask r)).2 (dir (a_path x)) = None) ->
  exists f, ev_list (handle_outs a r q) =
    [((if r_len r =? 0 then a_path x else a_path x +:+ "/" +:+ r_name r), translate (r_mask r), f)].
Proof. exact handle_delivers. Qed.

(* the only loss is an overflow, and that is announced *)
Theorem C01_overflow_announced : forall a st, (exists d q, st = SHandle d /\ kq (sK a) = overflow_rec :: q) ->
  err_list (souts (spec_step a st).1) = err_list (souts a) ++ [ErrEventOverflow].
Proof. exact overflow_reported. Qed.

(* nothing delivered is ever taken back or reordered: the log only grows, one handled record at a time, in queue order *)
Theorem C01_log_append_only : forall a st, let a' := (spec_step a st).1 in
  (shandled a' = shandled a /\ souts a' = souts a) \/
  (exists r q, shandled a' = shandled a ++ [r] /\ souts a' = souts a ++ handle_outs a r q /\
     ((exists d, st = SInject r d /\ q = kq (sK a)) \/ (exists d, st = SHandle d /\ kq (sK a) = r :: q))).
Proof. exact step_log_strong. Qed.

(* (3) *)
Theorem C01_model_log_is_spec_log : forall cfg h, history_ok cfg h ->
  outs (run cfg h init_sys).1 = souts (spec_run h init_spec).1 /\
  handled (run cfg h init_sys).1 = shandled (spec_run h init_spec).1.
Proof. exact impl_outs. Qed.

(* (4) the default subscription observes every default operation *)
Theorem C01_default_request_complete :
  N.land 31 (translate (request_flags 31 false)) = 31.
Proof. vm_compute. reflexivity. Qed.

Example C01_example :
  let h := [SAdd "d" 31 false [("d"%string, (inr 7, inr 7))];
            KEmit (mkRaw 1 256 0 16 "f"); SHandle []] in
  ev_list (souts (spec_run h init_spec).1) = [("d/f"%string, 1, ""%string)].
Proof. vm_compute. reflexivity. Qed.

Print Assumptions C01_decode_all.
Print Assumptions C01_batching_irrelevant.
Print Assumptions C01_delivered_once.
Print Assumptions C01_overflow_announced.
Print Assumptions C01_log_append_only.
Print Assumptions C01_model_log_is_spec_log.
Print Assumptions C01_default_request_complete.
