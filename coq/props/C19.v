(* C19 — recursive watches report true paths and cover exactly their own tree.  Statements only.
   Two layers:
   (1) step level (Recurse.v): which watches are removed / rewritten / created by one call or one notification, and
       how events are named;
   (2) history level (RecurseHist.v): a ground-truth directory tree (inode ↦ true current path) evolving by mkdir one
       level at a time, inner renames, file operations, recursive Add / Remove of one of several roots; every macro-step
       expands to a valid System history (kernel notifications per the inotify contract, then the reader handles all of
       them).  For ALL well-formed histories: every directory below a watched root is watched and listed under its TRUE
       CURRENT PATH and nothing else is; the events delivered are exactly those computed from the tree alone.
   The history layer is about the rename loop that re-keys watches.path together with the watch paths
   (Watcher.rekey_paths); with the earlier loop the keys stayed at the old names (see the examples at the end). *)
From stdpp Require Import gmap strings list.
From Fsn Require Import PathLex Bytes Tables Doc Watcher System Recurse RecurseHist CfgLang Cfg CfgExtra.
From FsnGen Require Import GenCfg.
From FsnObl Require Import OblC19.
From Fsn Require PathLexProofs.
Local Open Scope N_scope.

(* removing a recursive watch removes exactly the path-table entries of ITS tree (sub-trees are delimited by path
   components) and hands exactly their descriptors to inotify_rm_watch *)
Theorem C19_remove_exact : forall W arg root r wd x,
  recursive_path true arg = (root, r) -> t_path W !! root = Some wd -> t_wd W !! wd = Some x -> w_rec x = true ->
  exists W' wds, remove_path true W arg = (W', inr wds) /\
    (forall p, t_path W' !! p = if is_under p root then None else t_path W !! p) /\
    (forall w, w ∈ wds <-> w = wd \/ exists p, t_path W !! p = Some w /\ p <> root /\ is_under p root = true).
Proof.
  intros W arg root r wd x H1 H2 H3 H4.
  destruct (rec_remove_exact W arg root r wd x H1 H2 H3 H4) as (W' & wds & Hr & Hp & Hw & _).
  exists W', wds. exact (conj Hr (conj Hp Hw)).
Qed.

(* a sibling whose name merely shares a string prefix (dir1 / dir10, sub / sub2), and everything below it, is untouched *)
Theorem C19_siblings_not_confused : forall parent a b,
  PathLexProofs.no_slash a -> PathLexProofs.no_slash b ->
  is_under (parent ++ "/" ++ a) (parent ++ "/" ++ b) = true -> a = b.
Proof. exact PathLexProofs.siblings_not_confused. Qed.

(* renaming a directory inside the tree: the watches at and below the old name move to the new one, everything else —
   siblings included — keeps its name; descriptors, flags never change *)
Theorem C19_rename_moves_subtree : forall W skip old new wd x rest,
  t_wd W !! wd = Some x -> w_wd x <> skip -> w_path x = old +:+ "/" +:+ rest -> old +:+ "/" +:+ rest <> new ->
  t_wd (rewrite_paths W skip old new) !! wd = Some (mkWatch (w_wd x) (w_flags x) (new +:+ "/" +:+ rest) (w_rec x)).
Proof. exact rewrite_paths_below. Qed.
Theorem C19_rename_moves_root : forall W skip old new wd x,
  t_wd W !! wd = Some x -> w_wd x <> skip -> w_path x = old ->
  t_wd (rewrite_paths W skip old new) !! wd = Some (mkWatch (w_wd x) (w_flags x) new (w_rec x)).
Proof. exact rewrite_paths_root. Qed.
Theorem C19_rename_spares_others : forall W skip old new wd x,
  t_wd W !! wd = Some x -> is_under (w_path x) old = false -> t_wd (rewrite_paths W skip old new) !! wd = Some x.
Proof. exact rewrite_paths_outside. Qed.
Theorem C19_rename_spares_siblings : forall W skip parent a b new wd x,
  PathLexProofs.no_slash a -> a <> b -> t_wd W !! wd = Some x -> w_path x = parent +:+ "/" +:+ a ->
  t_wd (rewrite_paths W skip (parent +:+ "/" +:+ b) new) !! wd = Some x.
Proof. exact rewrite_paths_spares_sibling. Qed.

(* events below a recursive watch are named watch-path / entry-name, whatever else the handler does *)
Theorem C19_event_names : forall cwd W2 K2 dirs x r pre pending W' K' outs,
  r_len r <> 0 ->
  deliver cwd W2 K2 dirs x r (if r_len r =? 0 then w_path x else w_path x +:+ "/" +:+ r_name r) pre pending = (W', K', outs) ->
  exists tail, outs = pre ++ tail /\ forall n op f, OEv n op f ∈ tail -> n = w_path x +:+ "/" +:+ r_name r.
Proof. exact rec_event_named_in_handle. Qed.

(* a directory created inside the tree is registered — under its true name: watch path / entry name — in the very step
   that delivers its Create event *)
Theorem C19_new_dir_covered cwd W2 K2 dirs x r pre pending ino :
  let name := w_path x +:+ "/" +:+ r_name r in
  w_rec x = true →
  has_all (r_mask r) IN_ISDIR = true →
  has_all (r_mask r) IN_CREATE = true →
  has_any (r_mask r) IN_DELETE_SELF = false →
  r_cookie r = 0 →
  t_path W2 !! name = None →
  lookup_dir cwd dirs name = (inr ino, inr ino) →
  find_mark K2 ino = None →
  t_wd W2 !! next_wd K2 = None →
  ∃ W' K',
    deliver cwd W2 K2 dirs x r name pre pending = (W', K', pre ++ [OEv name (translate (r_mask r)) ""]) ∧
    has_any (translate (r_mask r)) Create = true ∧
    t_wd W' !! next_wd K2 = Some (mkWatch (next_wd K2) (w_flags x) name true) ∧
    t_path W' !! name = Some (next_wd K2) ∧
    marks K' !! next_wd K2 = Some ino ∧
    next_wd K' = N.succ (next_wd K2) ∧
    w_ring W' = w_ring W2 ∧
    (∀ p, p ≠ name → t_path W' !! p = t_path W2 !! p) ∧
    (∀ w, w ≠ next_wd K2 → w ≠ 0 → t_wd W' !! w = t_wd W2 !! w).
Proof. exact (@rec_new_dir_registered cwd W2 K2 dirs x r pre pending ino). Qed.

(* … and in the current source the reader performs that registration before it sends the event, never after *)
Theorem C19_registered_before_create_is_sent : register_before_send gen_program = true.
Proof. exact gen_register_before_send. Qed.

Example C19_example_remove :
  let W := mkW (list_to_map [(1, mkWatch 1 4038 "t" true); (2, mkWatch 2 4038 "t/dir1" true); (3, mkWatch 3 4038 "t/dir10" true);
                             (4, mkWatch 4 4038 "t/dir1/sub" true); (5, mkWatch 5 4038 "t2" true)])
               (list_to_map [("t"%string, 1); ("t/dir1"%string, 2); ("t/dir10"%string, 3); ("t/dir1/sub"%string, 4); ("t2"%string, 5)])
               init_ring in
  (map_to_list (t_path (remove_path true W "t/dir1/...").1)).*1 ≡ₚ ["t"%string; "t/dir10"%string; "t2"%string].
Proof. vm_compute. apply NoDup_Permutation; [repeat constructor; set_solver.. | set_solver]. Qed.

Print Assumptions C19_remove_exact.
Print Assumptions C19_siblings_not_confused.
Print Assumptions C19_rename_moves_subtree.
Print Assumptions C19_rename_moves_root.
Print Assumptions C19_rename_spares_others.
Print Assumptions C19_rename_spares_siblings.
Print Assumptions C19_event_names.
Print Assumptions C19_new_dir_covered.
Print Assumptions C19_registered_before_create_is_sent.

(* ------------------------------------------------------------------ the path index follows a rename *)
(* When the index is exact (its keys are the watch paths), the skip conditions of the loop do not bite and no re-pathed
   watch lands on the path of another watch, the re-keyed index is exact again for the new paths: no key of the old
   location is left behind. *)
Theorem C19_rename_rekeys_index : forall twd tpath skip old new,
  (forall k wd, tpath !! k = Some wd <-> exists x, twd !! wd = Some x /\ w_path x = k) ->
  (forall wd x, twd !! wd = Some x -> repathed skip old new x = is_under (w_path x) old) ->
  (forall wd wd' x x', twd !! wd = Some x -> twd !! wd' = Some x' ->
     moved_path old new (w_path x) = moved_path old new (w_path x') -> w_path x = w_path x') ->
  forall k wd, rekey_paths twd tpath skip old new !! k = Some wd <->
               exists x, twd !! wd = Some x /\ moved_path old new (w_path x) = k.
Proof. exact rekey_paths_index. Qed.

(* ------------------------------------------------------------------ whole histories (RecurseHist.v) *)
(* after every well-formed macro-history from any initial tree: coverage with true paths, nothing stale or dangling,
   queue drained *)
Theorem C19_covered_all_histories : forall E0 h,
  init_ok E0 = true -> mwf E0 h = true ->
  let E := (mrun (E0, init_sys) h).1 in let s := (mrun (E0, init_sys) h).2 in
  (forall r i p, r ∈ e_roots E -> e_tree E !! i = Some p -> is_under p r = true ->
     exists wd x, marks (K s) !! wd = Some i /\ t_wd (W s) !! wd = Some x /\ w_wd x = wd /\ w_path x = p /\
                  w_rec x = true /\ t_path (W s) !! p = Some wd) /\
  (forall wd x, t_wd (W s) !! wd = Some x ->
     exists i r, marks (K s) !! wd = Some i /\ e_tree E !! i = Some (w_path x) /\ r ∈ e_roots E /\
                 is_under (w_path x) r = true /\ w_wd x = wd /\ w_rec x = true /\
                 t_path (W s) !! w_path x = Some wd) /\
  (forall k wd, t_path (W s) !! k = Some wd -> exists x, t_wd (W s) !! wd = Some x /\ w_path x = k) /\
  (forall wd i, marks (K s) !! wd = Some i -> is_Some (t_wd (W s) !! wd)) /\
  kq (K s) = [].
Proof. exact (fun E0 h H0 Hwf => covered_spec _ _ (covered_run E0 h H0 Hwf)). Qed.

(* the events delivered are exactly the expected ones, named by true paths and computed from the tree alone (steps
   outside every watched tree expect — and deliver — nothing); no error is ever sent *)
Theorem C19_events_true_paths_all_histories : forall E0 h,
  init_ok E0 = true -> mwf E0 h = true ->
  evs (mrun (E0, init_sys) h).2 = expected_all E0 h /\ errs (mrun (E0, init_sys) h).2 = [].
Proof. exact events_true_paths. Qed.

(* what is expected, step by step *)
Theorem C19_expected_unfold : forall E st,
  expected E st =
  match st with
  | MMkdir d n => if watched (e_roots E) d then [(child d n, Create, ""%string)] else []
  | MFile d n mask => if watched (e_roots E) d then [(child d n, translate mask, ""%string)] else []
  | MRenameDir d n d' n' => [(child d n, Rename, ""%string); (child d' n', Create, child d n)]
  | MAddRec _ | MRemoveRec _ => []
  end.
Proof. exact (fun E st => eq_refl). Qed.

(* the macro-history is literally a System history the inotify contract allows; it reaches the same state and none of
   its API calls fails *)
Theorem C19_expansion_is_valid_history : forall E0 h,
  init_ok E0 = true -> mwf E0 h = true ->
  valid cfgR (expand_all (E0, init_sys) h) init_sys = true /\
  (run cfgR (expand_all (E0, init_sys) h) init_sys).1 = (mrun (E0, init_sys) h).2 /\
  Forall (fun r => r = RNil) (run cfgR (expand_all (E0, init_sys) h) init_sys).2.
Proof. exact expand_valid. Qed.

(* a directory created inside the tree is covered from the moment its own Create has been delivered *)
Theorem C19_new_dir_covered_all_histories : forall E0 h d n,
  init_ok E0 = true -> mwf E0 (h ++ [MMkdir d n]) = true ->
  let M := mrun (E0, init_sys) h in
  let M' := mrun (E0, init_sys) (h ++ [MMkdir d n]) in
  watched (e_roots M.1) d = true ->
  evs M'.2 = evs M.2 ++ [(child d n, Create, ""%string)] /\
  exists wd x, marks (K M'.2) !! wd = Some (e_next_ino M.1) /\ t_wd (W M'.2) !! wd = Some x /\
          w_path x = child d n /\ w_rec x = true /\ t_path (W M'.2) !! child d n = Some wd /\
          forall f mask, expected M'.1 (MFile (child d n) f mask) = [(child (child d n) f, translate mask, ""%string)].
Proof. exact mkdir_covered_at_once_hist. Qed.

(* renaming a directory within the tree: no watch is dropped or re-created; the directory and all its descendants are
   covered and listed under the new location and no longer under the old; everything else keeps its path *)
Theorem C19_rename_keeps_coverage : forall E0 h d n d' n',
  init_ok E0 = true -> mwf E0 (h ++ [MRenameDir d n d' n']) = true ->
  let old := child d n in let new := child d' n' in
  let M := mrun (E0, init_sys) h in
  let M' := mrun (E0, init_sys) (h ++ [MRenameDir d n d' n']) in
  Covered M'.1 M'.2 /\
  marks (K M'.2) = marks (K M.2) /\
  (forall i rest, e_tree M.1 !! i = Some (old +:+ rest) -> comp_tail rest ->
     exists wd x, marks (K M'.2) !! wd = Some i /\ t_wd (W M'.2) !! wd = Some x /\ w_path x = new +:+ rest /\
             w_rec x = true /\ t_path (W M'.2) !! (new +:+ rest) = Some wd /\
             t_path (W M'.2) !! (old +:+ rest) = None) /\
  (forall i p, e_tree M.1 !! i = Some p -> watched (e_roots M.1) p = true -> is_under p old = false ->
     exists wd x, marks (K M'.2) !! wd = Some i /\ t_wd (W M'.2) !! wd = Some x /\ w_path x = p /\
             t_path (W M'.2) !! p = Some wd) /\
  evs M'.2 = evs M.2 ++ [(old, Rename, ""%string); (new, Create, old)] /\ errs M'.2 = errs M.2.
Proof. exact rename_keeps_coverage_hist. Qed.

(* ... in particular a sibling whose name merely extends the renamed one as a string (dir1 / dir10), with its subtree *)
Theorem C19_rename_spares_prefix_siblings : forall E s parent a b d' n' rest i,
  Covered E s -> mstep_ok E (MRenameDir parent b d' n') = true ->
  PathLexProofs.no_slash a -> a <> b -> comp_tail rest ->
  e_tree E !! i = Some (parent +:+ "/" +:+ a +:+ rest) -> watched (e_roots E) (parent +:+ "/" +:+ a +:+ rest) = true ->
  let M' := mstep_run (E, s) (MRenameDir parent b d' n') in
  exists wd x, marks (K M'.2) !! wd = Some i /\ t_wd (W M'.2) !! wd = Some x /\
          w_path x = parent +:+ "/" +:+ a +:+ rest /\ t_path (W M'.2) !! (parent +:+ "/" +:+ a +:+ rest) = Some wd.
Proof. exact rename_spares_prefix_siblings. Qed.

(* removing one of several recursive roots stops reports from exactly that tree: nothing below it is watched, listed or
   expected any more; every other root's tree is covered as before; the call delivers nothing *)
Theorem C19_remove_exactly_that_tree_all_histories : forall E0 h root,
  init_ok E0 = true -> mwf E0 (h ++ [MRemoveRec root]) = true ->
  let M := mrun (E0, init_sys) h in
  let M' := mrun (E0, init_sys) (h ++ [MRemoveRec root]) in
  Covered M'.1 M'.2 /\
  (forall i p, e_tree M.1 !! i = Some p -> is_under p root = true ->
     (forall wd, marks (K M'.2) !! wd <> Some i) /\ t_path (W M'.2) !! p = None /\
     (forall wd x, t_wd (W M'.2) !! wd = Some x -> w_path x <> p) /\
     watched (e_roots M'.1) p = false /\ forall n mask, expected M'.1 (MFile p n mask) = []) /\
  (forall r i p, r ∈ e_roots M.1 -> r <> root -> e_tree M.1 !! i = Some p -> is_under p r = true ->
     exists wd x, marks (K M'.2) !! wd = Some i /\ t_wd (W M'.2) !! wd = Some x /\ w_path x = p /\
             t_path (W M'.2) !! p = Some wd) /\
  evs M'.2 = evs M.2 /\ errs M'.2 = errs M.2.
Proof. exact remove_exactly_that_tree_hist. Qed.

(* the premises are satisfiable: two roots sharing a prefix, prefix-sharing siblings, nested mkdirs, an inner rename
   with descendants, file operations at depth 4 after it, re-use of the old name, Remove of /t, activity in /t2/sub *)
Example C19_example_history :
  init_ok ex_env = true /\ mwf ex_env ex_h1 = true /\
  evs (mrun ex_M0 ex_h1).2 =
    [("/t/dir1", 1, ""); ("/t/dir10", 1, ""); ("/t/dir1/sub", 1, ""); ("/t/dir1/sub/deep", 1, "");
     ("/t2/sub", 1, ""); ("/t/dir1/sub/f", 1, "");
     ("/t/dir1", 8, ""); ("/t/dir10/mv", 1, "/t/dir1");
     ("/t/dir10/mv/sub/deep/g", 2, ""); ("/t/dir10/h", 1, "");
     ("/t/dir1", 1, ""); ("/t/dir1/again", 1, "");
     ("/t2/sub/y", 16, ""); ("/t2/sub/deeper", 1, ""); ("/t2/sub/deeper/z", 4, "")]%string.
Proof. vm_compute. repeat split; reflexivity. Qed.

(* the three histories that went wrong with the earlier rename loop now behave *)
Example C19_example_repaired :
  (sys_step cfgR (mrun ex_M0 ex_ha).2 SList).2 = RList ["/t"; "/t/b"; "/t/b/s"]%string /\
  evs (mrun ex_M0 ex_hb).2 =
    [("/t/a", 1, ""); ("/t/a/s", 1, ""); ("/t/a", 8, ""); ("/t/b", 1, "/t/a");
     ("/t/a", 1, ""); ("/t/a/f", 1, ""); ("/t/b/g", 1, ""); ("/t/b/s/k", 1, "")]%string /\
  map_to_list (marks (K (mrun ex_M0 ex_hc).2)) = [] /\ errs (mrun ex_M0 ex_hc).2 = [].
Proof. vm_compute. repeat split; reflexivity. Qed.

Print Assumptions C19_rename_rekeys_index.
Print Assumptions C19_covered_all_histories.
Print Assumptions C19_events_true_paths_all_histories.
Print Assumptions C19_expansion_is_valid_history.
Print Assumptions C19_new_dir_covered_all_histories.
Print Assumptions C19_rename_keeps_coverage.
Print Assumptions C19_rename_spares_prefix_siblings.
Print Assumptions C19_remove_exactly_that_tree_all_histories.
