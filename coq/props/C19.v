(* C19 — recursive watches report true paths and cover exactly their own tree.  Statements only.
   PARTIAL: the theorems below are about the bookkeeping functions (which watches are removed / rewritten / created,
   and how events are named); the whole-history statement "every event name is the entry's current true path" needs a
   filesystem model relating inodes to paths, which this development does not have — it is covered by the
   correspondence harness only (recursive families: prefix-sharing siblings, one level at a time, inner renames). *)
From stdpp Require Import gmap strings list.
From Fsn Require Import PathLex Bytes Tables Doc Watcher System Recurse CfgLang Cfg CfgExtra.
From FsnGen Require Import GenCfg.
From FsnObl Require Import OblCfg.
From Fsn Require PathLexProofs.
Local Open Scope N_scope.

(* removing a recursive watch removes exactly the path-table entries of ITS tree (sub-trees are delimited by path
   components) and hands exactly their descriptors to inotify_rm_watch *)
Theorem C19_remove_exact : forall W arg root r wd x,
  recursive_path true arg = (root, r) -> t_path W !! root = Some wd -> t_wd W !! wd = Some x -> w_rec x = true ->
  exists W' wds, remove_path true W arg = (W', inr wds) /\
    (forall p, t_path W' !! p = if is_under p root then None else t_path W !! p) /\
    (forall w, w ∈ wds <-> w = wd \/ exists p, t_path W !! p = Some w /\ p <> root /\ is_under p root = true).
Proof.
  intros W arg root r wd x H1 H2 H3 H4.
  destruct (rec_remove_exact W arg root r wd x H1 H2 H3 H4) as (W' & wds & Hr & Hp & Hw & _).
  exists W', wds. exact (conj Hr (conj Hp Hw)).
Qed.

(* a sibling whose name merely shares a string prefix (dir1 / dir10, sub / sub2), and everything below it, is untouched *)
Theorem C19_siblings_not_confused : forall parent a b,
  PathLexProofs.no_slash a -> PathLexProofs.no_slash b ->
  is_under (parent ++ "/" ++ a) (parent ++ "/" ++ b) = true -> a = b.
Proof. exact PathLexProofs.siblings_not_confused. Qed.

(* renaming a directory inside the tree: the watches at and below the old name move to the new one, everything else —
   siblings included — keeps its name; descriptors, flags never change *)
Theorem C19_rename_moves_subtree : forall W skip old new wd x rest,
  t_wd W !! wd = Some x -> w_wd x <> skip -> w_path x = old +:+ "/" +:+ rest -> old +:+ "/" +:+ rest <> new ->
  t_wd (rewrite_paths W skip old new) !! wd = Some (mkWatch (w_wd x) (w_flags x) (new +:+ "/" +:+ rest) (w_rec x)).
Proof. exact rewrite_paths_below. Qed.
Theorem C19_rename_moves_root : forall W skip old new wd x,
  t_wd W !! wd = Some x -> w_wd x <> skip -> w_path x = old ->
  t_wd (rewrite_paths W skip old new) !! wd = Some (mkWatch (w_wd x) (w_flags x) new (w_rec x)).
Proof. exact rewrite_paths_root. Qed.
Theorem C19_rename_spares_others : forall W skip old new wd x,
  t_wd W !! wd = Some x -> is_under (w_path x) old = false -> t_wd (rewrite_paths W skip old new) !! wd = Some x.
Proof. exact rewrite_paths_outside. Qed.
Theorem C19_rename_spares_siblings : forall W skip parent a b new wd x,
  PathLexProofs.no_slash a -> a <> b -> t_wd W !! wd = Some x -> w_path x = parent +:+ "/" +:+ a ->
  t_wd (rewrite_paths W skip (parent +:+ "/" +:+ b) new) !! wd = Some x.
Proof. exact rewrite_paths_spares_sibling. Qed.

(* events below a recursive watch are named watch-path / entry-name, whatever else the handler does *)
Theorem C19_event_names : forall cwd W2 K2 dirs x r pre pending W' K' outs,
  r_len r <> 0 ->
  deliver cwd W2 K2 dirs x r (if r_len r =? 0 then w_path x else w_path x +:+ "/" +:+ r_name r) pre pending = (W', K', outs) ->
  exists tail, outs = pre ++ tail /\ forall n op f, OEv n op f ∈ tail -> n = w_path x +:+ "/" +:+ r_name r.
Proof. exact rec_event_named_in_handle. Qed.

(* a directory created inside the tree is registered — under its true name: watch path / entry name — in the very step
   that delivers its Create event *)
Theorem C19_new_dir_covered cwd W2 K2 dirs x r pre pending ino :
  let name := w_path x +:+ "/" +:+ r_name r in
  w_rec x = true →
  has_all (r_mask r) IN_ISDIR = true →
  has_all (r_mask r) IN_CREATE = true →
  has_any (r_mask r) IN_DELETE_SELF = false →
  r_cookie r = 0 →
  t_path W2 !! name = None →
  lookup_dir cwd dirs name = (inr ino, inr ino) →
  find_mark K2 ino = None →
  t_wd W2 !! next_wd K2 = None →
  ∃ W' K',
    deliver cwd W2 K2 dirs x r name pre pending = (W', K', pre ++ [OEv name (translate (r_mask r)) ""]) ∧
    has_any (translate (r_mask r)) Create = true ∧
    t_wd W' !! next_wd K2 = Some (mkWatch (next_wd K2) (w_flags x) name true) ∧
    t_path W' !! name = Some (next_wd K2) ∧
    marks K' !! next_wd K2 = Some ino ∧
    next_wd K' = N.succ (next_wd K2) ∧
    w_ring W' = w_ring W2 ∧
    (∀ p, p ≠ name → t_path W' !! p = t_path W2 !! p) ∧
    (∀ w, w ≠ next_wd K2 → w ≠ 0 → t_wd W' !! w = t_wd W2 !! w).
Proof. exact (@rec_new_dir_registered cwd W2 K2 dirs x r pre pending ino). Qed.

(* … and in the current source the reader performs that registration before it sends the event, never after *)
Theorem C19_registered_before_create_is_sent : register_before_send gen_program = true.
Proof. exact gen_register_before_send. Qed.

Example C19_example_remove :
  let W := mkW (list_to_map [(1, mkWatch 1 4038 "t" true); (2, mkWatch 2 4038 "t/dir1" true); (3, mkWatch 3 4038 "t/dir10" true);
                             (4, mkWatch 4 4038 "t/dir1/sub" true); (5, mkWatch 5 4038 "t2" true)])
               (list_to_map [("t"%string, 1); ("t/dir1"%string, 2); ("t/dir10"%string, 3); ("t/dir1/sub"%string, 4); ("t2"%string, 5)])
               init_ring in
  (map_to_list (t_path (remove_path true W "t/dir1/...").1)).*1 ≡ₚ ["t"%string; "t/dir10"%string; "t2"%string].
Proof. vm_compute. apply NoDup_Permutation; [repeat constructor; set_solver.. | set_solver]. Qed.

Print Assumptions C19_remove_exact.
Print Assumptions C19_siblings_not_confused.
Print Assumptions C19_rename_moves_subtree.
Print Assumptions C19_rename_moves_root.
Print Assumptions C19_rename_spares_others.
Print Assumptions C19_rename_spares_siblings.
Print Assumptions C19_event_names.
Print Assumptions C19_new_dir_covered.
Print Assumptions C19_registered_before_create_is_sent.
