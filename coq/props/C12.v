(* C12 — kernel watches and bookkeeping stay in step; usage is bounded by live watches.  Statements only. *)
From stdpp Require Import gmap strings list.
From Fsn Require Import PathLex Bytes Tables Doc Watcher System Spec SpecDefs Refine SpecInv SpecStream Transfer.
Local Open Scope N_scope.

(* On the model of the code: for EVERY history of Add/Remove/WatchList calls, kernel-side events allowed by the inotify
   contract and reader steps (any length, any interleaving, handling arbitrarily late), whenever the event stream is
   quiescent the kernel's watches are exactly the entries of the wd table, the two tables have the same size, and
   WatchList shows one path per entry, each once. *)
Theorem C12_in_step : forall (cfg : config) (h : list step), history_ok cfg h ->
  let s := (run cfg h init_sys).1 in
  kq (K s) = [] ->
  dom (marks (K s)) ≡@{gset N} dom (t_wd (W s)) /\
  size (t_wd (W s)) = size (t_path (W s)) /\
  length (watch_list (W s)) = size (t_wd (W s)) /\ NoDup (watch_list (W s)).
Proof. exact impl_in_step. Qed.

(* the invariant behind it, for every reachable state (quiescent or not): a kernel watch always backs a listed path; a
   listed path without kernel watch is one whose IN_IGNORED is still queued; descriptors are never reused *)
Theorem C12_invariant : forall h a, SInv a -> spec_valid h a = true -> SInv (spec_run h a).1.
Proof. exact spec_inv_run. Qed.

(* any number of add / remove / delete / recreate / re-add cycles: kernel watch usage = number of listed paths *)
Theorem C12_cycles_are_flat : forall h a, SInv a -> spec_valid h a = true ->
  kq (sK (spec_run h a).1) = [] -> size (marks (sK (spec_run h a).1)) = size (sA (spec_run h a).1).
Proof. exact cycles_are_flat. Qed.

(* a watch descriptor, once released, never denotes a watch again *)
Theorem C12_wd_never_returns : forall h a wd, SInv a -> spec_valid h a = true ->
  wd < next_wd (sK a) -> marks (sK a) !! wd = None -> sA a !! wd = None ->
  sA (spec_run h a).1 !! wd = None /\ marks (sK (spec_run h a).1) !! wd = None.
Proof. exact wd_never_returns. Qed.

(* non-vacuity: a concrete history (add, the file is deleted, the records are handled) reaches quiescence with empty tables *)
Example C12_example :
  let cfg := mkCfg false "/" in
  let h := [SAdd "f" 31 false [("f"%string, (inr 7, inr 7))]; KRelease 1 true; SHandle []; SHandle []] in
  valid cfg h init_sys = true /\ kq (K (run cfg h init_sys).1) = [] /\
  size (t_wd (W (run cfg h init_sys).1)) = 0%nat /\ size (marks (K (run cfg h init_sys).1)) = 0%nat.
Proof. vm_compute. done. Qed.

Print Assumptions C12_in_step.
Print Assumptions C12_invariant.
Print Assumptions C12_cycles_are_flat.
Print Assumptions C12_wd_never_returns.
