(* C13 — Close releases every resource the Watcher acquired.  Statements only.
   Resources of a Watcher: its inotify descriptor (file_closed), its kernel watches (released by the kernel when the
   descriptor is closed — kernel contract), its reader goroutine (rd = RDead).  *)
From stdpp Require Import gmap list.
From Fsn Require Import CfgLang Cfg Conc ConcDefs ConcSafety ConcLive ConcMain.
From FsnGen Require Import GenCfg.
From FsnObl Require Import OblCfg.
Local Open Scope nat_scope.

(* read off the current source: newBackend starts with inotify_init1 and returns at once when it fails (a failed
   NewWatcher has allocated nothing); the reader is the only goroutine ever started; Close closes the descriptor and
   waits for the reader; the reader's deferred exit block runs on every way out of its loop *)
Theorem C13_generated_facts :
  init_first gen_program = true /\ single_reader_start gen_program = true /\ close_shape gen_program = true /\
  reader_exit_shape gen_program = true.
Proof. pose proof gen_cfg_ok as H. unfold cfg_ok in H. rewrite !Bool.andb_true_iff in H. tauto. Qed.

Section Protocol.
  Context {E X D C R I K : Type}.
  Variable api : D -> C -> D * R.
  Variable closed_result : C -> R.
  Variable pre : I -> list (@msg E X).
  Variable hnd : D -> I -> D * list (@msg E X).
  Variable env : D -> K -> option D.
  Notation cstate := (@cstate E X D C R I K).
  Notation reachable := (reachable api closed_result pre hnd env).
  Notation crun := (crun api closed_result pre hnd env).
  Notation cstep := (cstep api closed_result pre hnd env).
  Notation reader_step := (reader_step pre hnd).
  Let cf := mkCf (send_in_cs gen_program) (guard_first gen_program).

  (* once a Close has been acknowledged and no Close is still on its way to the descriptor: descriptor closed, done
     closed, reader past its exit — for any prior history, any racing calls, any capacity *)
  Theorem C13_released : forall cap d (s : cstate) t,
    reachable cap cf d s -> (forall t', thr s !! t' <> Some KCloseFile) ->
    thr s !! t = Some KDone -> resp_closed s = true ->
    file_closed s = true /\ done_closed s = true /\ (rd s = RExit2 \/ rd s = RExit3 \/ rd s = RDead).
  Proof. exact (fun cap d s t => close_releases api closed_result pre hnd env cap cf d s t). Qed.

  (* the goroutine is gone at most two (always enabled) steps later and never runs again *)
  Theorem C13_reader_gone : forall cap d (s : cstate),
    reachable cap cf d s -> resp_closed s = true ->
    exists ls s', only_threads ls /\ List.length ls <= 2 /\ crun cap cf s ls = Some s' /\
                  rd s' = RDead /\ ev_closed s' = true /\ er_closed s' = true.
  Proof. exact (fun cap d s => channels_close_after_close api closed_result pre hnd env cap cf d s). Qed.
  Theorem C13_dead_reader_stays_dead : forall cap (s : cstate), rd s = RDead -> reader_step cap cf s = None.
  Proof. exact (fun cap s => reader_dead_stuck pre hnd cap cf s). Qed.

  (* the step that closes the descriptor is always enabled for a closer that has closed done *)
  Theorem C13_descriptor_gets_closed : forall cap (s : cstate) t,
    t <> reader_tid -> thr s !! t = Some KCloseFile ->
    exists s', cstep cap cf s (LThr t) = Some s' /\ file_closed s' = true.
  Proof. exact (fun cap s t => closefile_enabled api closed_result pre hnd env cap cf s t). Qed.

  (* and from done+descriptor closed the reader always reaches its end, closing all three channels *)
  Theorem C13_reader_exits : forall cap d (s : cstate),
    reachable cap cf d s -> done_closed s = true -> file_closed s = true ->
    exists ls s', only_threads ls /\ List.length ls <= reader_measure (rd s) + 1 /\ crun cap cf s ls = Some s' /\
                  rd s' = RDead /\ ev_closed s' = true /\ er_closed s' = true /\ resp_closed s' = true.
  Proof. exact (fun cap d s => reader_exits_after_close api closed_result pre hnd env cap cf d s gen_send_in_cs_false). Qed.
End Protocol.

Print Assumptions C13_generated_facts.
Print Assumptions C13_released.
Print Assumptions C13_reader_gone.
Print Assumptions C13_dead_reader_stays_dead.
Print Assumptions C13_descriptor_gets_closed.
Print Assumptions C13_reader_exits.
