(* C04 — watch-set semantics: Add, Remove and WatchList obey the sequential specification.  Statements only.
   The specification is Spec.v (one map: kernel watch descriptor, i.e. watched file, -> first cleaned spelling);
   the model of the code (two tables, updatePath/register/removePath) is proved to refine it on every history. *)
From stdpp Require Import gmap strings list.
From Fsn Require Import PathLex Bytes Tables Doc Watcher System Spec SpecDefs Refine SpecInv SpecWatchSet Transfer.
From Fsn Require PathLexProofs PathLexMore.
Local Open Scope N_scope.

(* the code's model does, call by call, what the specification does: same results (WatchList up to order), same state *)
Theorem C04_refines_spec : forall (cfg : config) (h : list step), c_recurse cfg = false ->
  Rel (run cfg h init_sys).1 (spec_run h init_spec).1 /\
  Forall2 res_equiv (run cfg h init_sys).2 (spec_run h init_spec).2.
Proof. exact (fun cfg h Hnr => run_refines cfg h init_sys init_spec Hnr init_rel). Qed.

(* WatchList: exactly one path per watched file *)
Theorem C04_list_exact : forall A p, p ∈ spec_list A <-> exists wd x, A !! wd = Some x /\ a_path x = p.
Proof. exact spec_list_exact. Qed.
Theorem C04_list_nodup : forall a, SInv a -> NoDup (spec_list (sA a)).
Proof. exact spec_list_nodup. Qed.

(* a failed Add (whatever errno the resolution gives: missing path, non-directory component, symlink loop, over-long
   name) changes neither the set nor the kernel *)
Theorem C04_failed_add_changes_nothing : forall k A p f res k' A' e,
  spec_add_core k A p f res = (k', A', RErr e) -> k' = k /\ A' = A.
Proof. exact add_failed_changes_nothing. Qed.

(* adding a listed path whose file is unchanged changes nothing *)
Theorem C04_add_same_file_noop : forall a p f res wd, SInv a -> find_path (sA a) p = Some wd ->
  (exists k1, add_watch (sK a) (pick_res (match sA a !! wd with Some x => N.lor f (N.lor (a_flags x) IN_MASK_ADD) | None => f end) res)
              = (k1, inr wd)) ->
  spec_add_core (sK a) (sA a) p f res = (sK a, sA a, RNil).
Proof. exact add_same_file_noop_inv. Qed.

(* adding another name (symlink, hard link, other spelling) of a watched file changes nothing: first spelling wins *)
Theorem C04_add_alias_noop : forall k A p f res k1 wd x,
  find_path A p = None -> add_watch k (pick_res f res) = (k1, inr wd) -> A !! wd = Some x ->
  spec_add_core k A p f res = (k1, A, RNil).
Proof. exact add_alias_noop. Qed.

Theorem C04_add_new_watch : forall k A p f res k1 wd,
  find_path A p = None -> add_watch k (pick_res f res) = (k1, inr wd) -> A !! wd = None ->
  spec_add_core k A p f res = (k1, <[wd := mkAw p f]> A, RNil).
Proof. exact add_new_watch. Qed.

(* adding a listed path that has come to name a different file moves its watch there and releases the old one *)
Theorem C04_add_moves_watch : forall k A p f res wd0 x0 k1 wd k' A' r,
  find_path A p = Some wd0 -> A !! wd0 = Some x0 ->
  add_watch k (pick_res (N.lor f (N.lor (a_flags x0) IN_MASK_ADD)) res) = (k1, inr wd) ->
  wd <> wd0 ->
  spec_add_core k A p f res = (k', A', r) ->
  A' !! wd0 = None /\ marks k' !! wd0 = None /\ k' = (rm_watch k1 wd0).1 /\ r = RNil /\
  ((exists y, A !! wd = Some y /\ A' = delete wd0 A) \/
   (A !! wd = None /\ A' = <[wd := mkAw p (N.lor f (N.lor (a_flags x0) IN_MASK_ADD))]> (delete wd0 A))).
Proof. exact add_moves_watch. Qed.

(* Remove of a path that is not listed: ErrNonExistentWatch, nothing changes; it never panics *)
Theorem C04_remove_unlisted : forall k A p,
  find_path A p = None -> spec_remove_core k A p = (k, A, RErr ErrNonExistentWatch).
Proof. exact remove_unlisted. Qed.
Theorem C04_remove_nonexistent_only_if_unlisted : forall k A p k' A',
  spec_remove_core k A p = (k', A', RErr ErrNonExistentWatch) -> find_path A p = None /\ k' = k /\ A' = A.
Proof. exact remove_unlisted_conv. Qed.
Theorem C04_remove_never_panics : forall cfg s a arg,
  c_recurse cfg = false -> Rel s a -> (sys_step cfg s (SRemove arg)).2 <> RErr ErrPanic.
Proof. exact remove_total. Qed.

(* Remove of a listed path takes it out; the only error is EINVAL in the window where the kernel has already dropped
   the watch (the file is gone) and the reader has not handled IN_IGNORED yet *)
Theorem C04_remove_listed : forall k A p wd, find_path A p = Some wd ->
  exists k' r, spec_remove_core k A p = (k', delete wd A, r) /\
    ((is_Some (marks k !! wd) /\ r = RNil /\ marks k' !! wd = None /\ kq k' = kq k ++ [ignored_rec wd]) \/
     (marks k !! wd = None /\ r = RErr (ErrNo EINVAL) /\ k' = k)).
Proof. exact remove_listed. Qed.

(* Remove depends on its argument only through Clean — in the specification and in the model of the code — so every
   redundant spelling of a listed path removes it (and of an unlisted one fails) exactly as the plain spelling does *)
Theorem C04_remove_by_cleaned_spelling : forall (cfg : config) (ss : spec) (s : sys) a b, clean a = clean b ->
  (spec_step ss (SRemove a) = spec_step ss (SRemove b)) /\ (sys_step cfg s (SRemove a) = sys_step cfg s (SRemove b)).
Proof. intros cfg ss s a b E. split; cbn [spec_step sys_step]; rewrite E; reflexivity. Qed.
Theorem C04_add_by_cleaned_spelling : forall (cfg : config) (ss : spec) (s : sys) a b ops nf walk, clean a = clean b ->
  (spec_step ss (SAdd a ops nf walk) = spec_step ss (SAdd b ops nf walk)) /\
  (sys_step cfg s (SAdd a ops nf walk) = sys_step cfg s (SAdd b ops nf walk)).
Proof.
  intros cfg ss s a b ops nf walk E. split; cbn [spec_step sys_step]; unfold recursive_path; rewrite E; reflexivity.
Qed.
Theorem C04_remove_spellings : forall (cfg : config) (s : sys) (a b : string), (a ++ "/" ++ b)%string <> ""%string ->
  (sys_step cfg s (SRemove (a ++ "//" ++ b)%string) = sys_step cfg s (SRemove (a ++ "/" ++ b)%string)) /\
  (sys_step cfg s (SRemove (a ++ "/./" ++ b)%string) = sys_step cfg s (SRemove (a ++ "/" ++ b)%string)) /\
  (sys_step cfg s (SRemove ((a ++ "/" ++ b) ++ "/")%string) = sys_step cfg s (SRemove (a ++ "/" ++ b)%string)) /\
  (sys_step cfg s (SRemove ((a ++ "/" ++ b) ++ "/.")%string) = sys_step cfg s (SRemove (a ++ "/" ++ b)%string)).
Proof.
  intros cfg s a b Hne. repeat split; cbn [sys_step].
  - rewrite PathLexMore.clean_double_slash. reflexivity.
  - rewrite PathLexMore.clean_dot_component. reflexivity.
  - rewrite PathLexProofs.clean_trailing_slash by exact Hne. reflexivity.
  - rewrite PathLexMore.clean_trailing_dot by exact Hne. reflexivity.
Qed.

(* Add and Remove normalise their argument with the same idempotent Clean *)
Theorem C04_clean_idempotent : forall p, clean (clean p) = clean p.
Proof. exact PathLexProofs.clean_idem. Qed.

(* non-vacuity: alias then retarget, on the model of the code *)
Example C04_example :
  let cfg := mkCfg false "/" in
  let h := [SAdd "a" 31 false [("a"%string, (inr 7, inr 7))];          (* wd 1 watches inode 7 as "a" *)
            SAdd "./l" 31 false [("l"%string, (inr 7, inr 7))];        (* symlink to the same file: nothing changes *)
            SList;
            SAdd "a" 31 false [("a"%string, (inr 9, inr 9))];          (* "a" now names inode 9: the watch moves *)
            SList; SRemove "missing"; SRemove "a/"] in
  (run cfg h init_sys).2 = [RNil; RNil; RList ["a"%string]; RNil; RList ["a"%string]; RErr ErrNonExistentWatch; RNil]
  /\ map_to_list (marks (K (run cfg h init_sys).1)) = [].
Proof. vm_compute. done. Qed.

Print Assumptions C04_refines_spec.
Print Assumptions C04_list_exact.
Print Assumptions C04_list_nodup.
Print Assumptions C04_failed_add_changes_nothing.
Print Assumptions C04_add_same_file_noop.
Print Assumptions C04_add_alias_noop.
Print Assumptions C04_add_new_watch.
Print Assumptions C04_add_moves_watch.
Print Assumptions C04_remove_unlisted.
Print Assumptions C04_remove_nonexistent_only_if_unlisted.
Print Assumptions C04_remove_never_panics.
Print Assumptions C04_remove_listed.
Print Assumptions C04_clean_idempotent.
Print Assumptions C04_remove_by_cleaned_spelling.
Print Assumptions C04_remove_spellings.
Print Assumptions C04_add_by_cleaned_spelling.
