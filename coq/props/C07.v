(* C07 — thread safety: concurrent API use is race-free and linearizable.  Statements only. *)
From stdpp Require Import gmap list.
From Fsn Require Import CfgLang Cfg Conc ConcDefs ConcSafety ConcLive ConcMain.
From FsnGen Require Import GenCfg.
From FsnObl Require Import OblCfg.
Local Open Scope nat_scope.

(* lock-set discipline of the current source, for every execution of every entry point: the tables are only touched
   with mu held, the cookie ring only with cookiesMu held (data-race freedom as a lock-set property) *)
Theorem C07_tables_only_under_lock : forall f, In f entry_points ->
  forall trace held' o, exec_fun gen_program f [] trace held' o ->
  Forall obs_ok trace /\ o <> OError /\ (o = ONormal -> held' = []).
Proof. exact (cfg_ok_sound gen_program gen_cfg_ok). Qed.

Section Protocol.
  Context {E X D C R : Type}.
  Variable api : D -> C -> D * R.
  Variable closed_result : C -> R.

  (* at most one goroutine is inside a critical section *)
  Theorem C07_mutual_exclusion : forall cap cf d (s : @cstate E X D C R),
    reachable api closed_result cap cf d s ->
    (forall t1 t2, mu s = Some t1 -> mu s = Some t2 -> t1 = t2) /\
    (forall t1 t2 p1 p2, thr s !! t1 = Some p1 -> thr s !! t2 = Some p2 ->
                         thread_in_cs p1 = true -> thread_in_cs p2 = true -> t1 = t2) /\
    (forall t p, thr s !! t = Some p -> thread_in_cs p = true -> reader_in_cs (rd s) = false).
  Proof. exact (mutual_exclusion api closed_result). Qed.

  (* the results of all API calls of any concurrent execution are those of running them one after another, in the order
     of their critical sections, on the sequential semantics [api] (= Watcher.v's add / remove / list) *)
  Theorem C07_linearizable : forall cap cf d ls (s : @cstate E X D C R),
    crun api closed_result cap cf (cinit d) ls = Some s ->
    seq_run api d (lin s) = Some (data s) /\ seq_results_ok api d (lin s).
  Proof. exact (linearizable api closed_result). Qed.

  (* … and that order respects real time: a call takes effect at one step between its invocation and its return *)
  Theorem C07_linearisation_point : forall cap cf (s s' : @cstate E X D C R) l,
    cstep api closed_result cap cf s l = Some s' -> lin s' <> lin s -> exists t c, l = LThr t /\ thr s !! t = Some (CInCs c).
  Proof. exact (fun cap cf s s' l => lin_only_in_cs api closed_result cap cf s l s'). Qed.

  (* no panic, and nobody inside a critical section is ever blocked (no deadlock through the mutex) *)
  Theorem C07_no_panic : forall cap cf d (s : @cstate E X D C R), reachable api closed_result cap cf d s -> panicked s = false.
  Proof. exact (no_panic api closed_result). Qed.
  Theorem C07_holder_never_blocked : forall cap cf (s : @cstate E X D C R) t p,
    t <> reader_tid -> thr s !! t = Some p -> thread_in_cs p = true -> is_Some (cstep api closed_result cap cf s (LThr t)).
  Proof. exact (cs_thread_not_blocked api closed_result). Qed.
End Protocol.

(* the sequential consequence quoted in the property: of two Removes of one listed path the second reports
   ErrNonExistentWatch (Spec.v / SpecWatchSet.remove_twice); by C07_linearizable this holds for concurrent Removes too *)
From Fsn Require Import Spec SpecWatchSet.
Theorem C07_two_removes_one_wins : forall k A p wd,
  (forall w1 w2 x1 x2, A !! w1 = Some x1 -> A !! w2 = Some x2 -> a_path x1 = a_path x2 -> w1 = w2) ->
  find_path A p = Some wd ->
  let '(k1, A1, _) := spec_remove_core k A p in
  spec_remove_core k1 A1 p = (k1, A1, System.RErr Watcher.ErrNonExistentWatch).
Proof. exact remove_twice. Qed.

Print Assumptions C07_tables_only_under_lock.
Print Assumptions C07_mutual_exclusion.
Print Assumptions C07_linearizable.
Print Assumptions C07_linearisation_point.
Print Assumptions C07_no_panic.
Print Assumptions C07_holder_never_blocked.
Print Assumptions C07_two_removes_one_wins.
