(* C07 — thread safety: concurrent API use is race-free and linearizable.  Statements only. *)
From stdpp Require Import gmap list.
From Fsn Require Import CfgLang Cfg Conc ConcDefs ConcSafety ConcLive ConcMain.
From FsnGen Require Import GenCfg.
From FsnObl Require Import OblCfg.
Local Open Scope nat_scope.

(* lock-set discipline of the current source, for every execution of every entry point: the tables are only touched
   with mu held, the cookie ring only with cookiesMu held (data-race freedom as a lock-set property) *)
Theorem C07_tables_only_under_lock : forall f, In f entry_points ->
  forall trace held' o, exec_fun gen_program f [] trace held' o ->
  Forall obs_ok trace /\ o <> OError /\ (o = ONormal -> held' = []).
Proof. exact (cfg_ok_sound gen_program gen_cfg_ok). Qed.

Section Protocol.
  Context {E X D C R I K : Type}.
  Variable api : D -> C -> D * R.
  Variable closed_result : C -> R.
  Variable pre : I -> list (@msg E X).
  Variable hnd : D -> I -> D * list (@msg E X).
  Variable env : D -> K -> option D.
  Notation cstate := (@cstate E X D C R I K).
  Notation reachable := (reachable api closed_result pre hnd env).
  Notation crun := (crun api closed_result pre hnd env).
  Notation cstep := (cstep api closed_result pre hnd env).
  Notation reader_step := (reader_step pre hnd).

  (* at most one goroutine is inside a critical section *)
  Theorem C07_mutual_exclusion : forall cap cf d (s : cstate),
    reachable cap cf d s ->
    (forall t1 t2, mu s = Some t1 -> mu s = Some t2 -> t1 = t2) /\
    (forall t1 t2 p1 p2, thr s !! t1 = Some p1 -> thr s !! t2 = Some p2 ->
                         thread_in_cs p1 = true -> thread_in_cs p2 = true -> t1 = t2) /\
    (forall t p, thr s !! t = Some p -> thread_in_cs p = true -> reader_in_cs (rd s) = false).
  Proof. exact (mutual_exclusion api closed_result pre hnd env). Qed.

  (* everything that touches the shared tables — the critical sections of API calls, the reader's critical section
     (handleEvent) and the kernel-side steps — is recorded in lin in the order it happened; replaying lin one entry after
     another on the sequential semantics ([api], [hnd], [env] = System.sys_step, see ConcSystem.v) from the initial data
     yields the current data, and every recorded API result / message list is what the sequential semantics returns at
     that point of the replay *)
  Theorem C07_linearizable : forall cap cf d ls (s : cstate),
    crun cap cf (cinit d) ls = Some s ->
    seq_run api hnd env d (lin s) = Some (data s) /\ seq_results_ok api hnd env d (lin s).
  Proof. exact (linearizable api closed_result pre hnd env). Qed.

  (* … and that order respects real time: a call takes effect at one step between its invocation and its return; lin
     (and the data) change only in a critical-section step — of a caller or of the reader — or in a kernel-side step *)
  Theorem C07_linearisation_point : forall cap cf (s s' : cstate) l,
    cstep cap cf s l = Some s' -> lin s' <> lin s ->
    (exists t c, l = LThr t /\ t <> reader_tid /\ thr s !! t = Some (CInCs c)) \/
    (exists it rest, l = LThr reader_tid /\ rd s = RInCs it rest) \/
    (exists k, l = LEnv k).
  Proof. exact (fun cap cf s s' l => lin_only_in_cs api closed_result pre hnd env cap cf s l s'). Qed.
  Theorem C07_data_changes_only_there : forall cap cf (s s' : cstate) l,
    cstep cap cf s l = Some s' -> data s' <> data s ->
    (exists t c, l = LThr t /\ t <> reader_tid /\ thr s !! t = Some (CInCs c)) \/
    (exists it rest, l = LThr reader_tid /\ rd s = RInCs it rest) \/
    (exists k, l = LEnv k).
  Proof. exact (fun cap cf s s' l => data_only_in_cs api closed_result pre hnd env cap cf s l s'). Qed.
  Theorem C07_call_takes_effect_once : forall cap cf (s : cstate) t c s',
    t <> reader_tid -> thr s !! t = Some (CInCs c) -> cstep cap cf s (LThr t) = Some s' ->
    exists r, thr s' !! t = Some (CDone r) /\ lin s' = lin s ++ [LinCall c r] /\ api (data s) c = (data s', r) /\ mu s' = None.
  Proof. exact (lin_point api closed_result pre hnd env). Qed.
  Theorem C07_handle_takes_effect_once : forall cap cf (s : cstate) it rest s',
    rd s = RInCs it rest -> cstep cap cf s (LThr reader_tid) = Some s' ->
    exists post, lin s' = lin s ++ [LinHandle it post] /\ hnd (data s) it = (data s', post) /\
                 (rd s' = RPost post rest /\ mu s' = None \/
                  rd s' = RCsSend (err_msgs post) (ev_msgs post) rest /\ mu s' = mu s /\ cf_send_in_cs cf = true).
  Proof. exact (lin_point_reader api closed_result pre hnd env). Qed.

  (* no panic, and nobody inside a critical section is ever blocked (no deadlock through the mutex) *)
  Theorem C07_no_panic : forall cap cf d (s : cstate), reachable cap cf d s -> panicked s = false.
  Proof. exact (no_panic api closed_result pre hnd env). Qed.
  Theorem C07_holder_never_blocked : forall cap cf (s : cstate) t p,
    t <> reader_tid -> thr s !! t = Some p -> thread_in_cs p = true -> is_Some (cstep cap cf s (LThr t)).
  Proof. exact (cs_thread_not_blocked api closed_result pre hnd env). Qed.
  Theorem C07_reader_in_cs_never_blocked : forall cap cf (s : cstate) it rest,
    rd s = RInCs it rest -> is_Some (cstep cap cf s (LThr reader_tid)).
  Proof. exact (cs_reader_not_blocked api closed_result pre hnd env). Qed.
End Protocol.

(* the sequential consequence quoted in the property: of two Removes of one listed path the second reports
   ErrNonExistentWatch (Spec.v / SpecWatchSet.remove_twice); by C07_linearizable this holds for concurrent Removes too *)
From Fsn Require Import Spec SpecWatchSet.
Theorem C07_two_removes_one_wins : forall k A p wd,
  (forall w1 w2 x1 x2, A !! w1 = Some x1 -> A !! w2 = Some x2 -> a_path x1 = a_path x2 -> w1 = w2) ->
  find_path A p = Some wd ->
  let '(k1, A1, _) := spec_remove_core k A p in
  spec_remove_core k1 A1 p = (k1, A1, System.RErr Watcher.ErrNonExistentWatch).
Proof. exact remove_twice. Qed.

Print Assumptions C07_tables_only_under_lock.
Print Assumptions C07_mutual_exclusion.
Print Assumptions C07_linearizable.
Print Assumptions C07_linearisation_point.
Print Assumptions C07_data_changes_only_there.
Print Assumptions C07_call_takes_effect_once.
Print Assumptions C07_handle_takes_effect_once.
Print Assumptions C07_reader_in_cs_never_blocked.
Print Assumptions C07_no_panic.
Print Assumptions C07_holder_never_blocked.
Print Assumptions C07_two_removes_one_wins.
