(* C20 — the test-support Diff / DiffMatch (internal/ztest/diff.go).
   Only statements, closed by [exact]; the model is theories/Diff.v and Match.v, the work is in
   theories/DiffProofs.v.  The statements are about the Coq model; the model is tied to the code by
   lib/diffcheck.py (exact output equality on generated inputs, and these predicates evaluated on the
   implementation's own output). *)
From Coq Require Import List String Arith.
From Fsn Require Import Diff Match DiffProofs.
Import ListNotations.

(* findLongestMatch: the block lies inside the window and is a common slice *)
Theorem C20_flm_sound : forall (a b : list string) alo ahi blo bhi,
  alo <= ahi <= List.length a -> blo <= bhi <= List.length b ->
  let m := find_longest_match String.eqb a b alo ahi blo bhi in
  alo <= mA m /\ mA m + mSize m <= ahi /\ blo <= mB m /\ mB m + mSize m <= bhi
  /\ sub a (mA m) (mSize m) = sub b (mB m) (mSize m).
Proof. exact (fun a b => flm_sound string String.eqb a b string_eqb_spec). Qed.

(* ... no common slice inside the window is longer ... *)
Theorem C20_flm_maximal : forall (a b : list string) alo ahi blo bhi,
  alo <= ahi <= List.length a -> blo <= bhi <= List.length b ->
  forall i j k, alo <= i -> i + k <= ahi -> blo <= j -> j + k <= bhi ->
  sub a i k = sub b j k -> k <= mSize (find_longest_match String.eqb a b alo ahi blo bhi).
Proof. exact (fun a b => flm_maximal_sub string String.eqb string_eqb_spec a b). Qed.

(* ... of all longest common runs inside the window it is the one that starts earliest in a, and of
   those the one that starts earliest in b; (alo, blo, 0) when nothing matches *)
Theorem C20_flm_earliest : forall (a b : list string) alo ahi blo bhi,
  alo <= ahi <= List.length a -> blo <= bhi <= List.length b ->
  let m := find_longest_match String.eqb a b alo ahi blo bhi in
  (mSize m = 0 -> mA m = alo /\ mB m = blo)
  /\ forall i j, alo <= i -> i + mSize m <= ahi -> blo <= j -> j + mSize m <= bhi ->
     0 < mSize m -> sub a i (mSize m) = sub b j (mSize m) ->
     mA m < i \/ (mA m = i /\ mB m <= j).
Proof. exact (fun a b => flm_earliest_sub string String.eqb string_eqb_spec a b). Qed.

(* soundness, maximality (no common run inside the window is longer) and the tie-break as the decidable
   predicates that the driver evaluates on what the real findLongestMatch returns *)
Theorem C20_flm_checked : forall (a b : list string) alo ahi blo bhi,
  alo <= ahi <= List.length a -> blo <= bhi <= List.length b ->
  flm_okb String.eqb a b alo ahi blo bhi (find_longest_match String.eqb a b alo ahi blo bhi) = true
  /\ flm_maxb String.eqb a b alo ahi blo bhi (find_longest_match String.eqb a b alo ahi blo bhi) = true
  /\ flm_firstb String.eqb a b alo ahi blo bhi (find_longest_match String.eqb a b alo ahi blo bhi) = true.
Proof. exact (fun a b => flm_checked string String.eqb string_eqb_spec a b). Qed.

(* matchingBlocks: fuel |a|+|b|+1 suffices; the blocks are non-empty equal slices, increasing in both
   texts (each starts at or after the end of the previous one), followed by the sentinel *)
Theorem C20_matching_blocks : forall a b : list string,
  exists l, matching_blocks String.eqb a b = Some (l ++ [(List.length a, List.length b, 0)])
            /\ mono_blocks string a b 0 0 l (List.length a) (List.length b).
Proof. exact (matching_blocks_sound string String.eqb string_eqb_spec). Qed.

(* ... and no two consecutive blocks are adjacent in both texts (the collapse) *)
Theorem C20_matching_blocks_nonadjacent : forall a b : list string,
  exists l, matching_blocks String.eqb a b = Some (l ++ [(List.length a, List.length b, 0)])
            /\ nonadj l.
Proof. exact (matching_blocks_nonadjacent string String.eqb). Qed.

(* GetOpCodes: the codes tile [0,|a|) and [0,|b|) contiguously; 'e' ranges are equal slices,
   'd' has j1 = j2, 'i' has i1 = i2, 'r' has both ranges non-empty *)
Theorem C20_opcodes_tile : forall a b : list string,
  exists cs, get_opcodes String.eqb a b = Some cs
             /\ tiles_spec string a b 0 0 cs (List.length a) (List.length b).
Proof. exact (opcodes_tile string String.eqb string_eqb_spec). Qed.

(* the last two as decidable predicates (evaluated on the real matchingBlocks / GetOpCodes results) *)
Theorem C20_blocks_checked : forall a b : list string,
  exists ms, matching_blocks String.eqb a b = Some ms /\ blocks_okb String.eqb a b 0 0 ms = true.
Proof. exact (blocks_okb_holds string String.eqb string_eqb_spec). Qed.
Theorem C20_opcodes_checked : forall a b : list string,
  exists cs, get_opcodes String.eqb a b = Some cs
             /\ tiles_okb String.eqb a b 0 0 cs (List.length a) (List.length b) = true.
Proof. exact (tiles_okb_holds string String.eqb string_eqb_spec). Qed.

(* Diff always returns (the model's fuel never runs out) ... *)
Theorem C20_total : forall have want, diff have want <> None.
Proof. exact diff_total. Qed.

(* ... the empty string exactly when the texts are equal after trimming surrounding white space ... *)
Theorem C20_empty_iff : forall have want,
  diff have want = Some ""%string <-> trim_space have = trim_space want.
Proof. exact diff_empty_iff. Qed.

Theorem C20_split_lines_injective : forall s1 s2, split_lines s1 = split_lines s2 -> s1 = s2.
Proof. exact split_lines_inj. Qed.

(* ... and otherwise "\n" followed by the rendering of the hunks computed from the two line lists *)
Theorem C20_output_shape : forall have want,
  exists hs, hunks String.eqb (lines_of have) (lines_of want) = Some hs
             /\ diff have want = Some (match hs with [] => "" | _ => nls ++ render_unified hs end)%string.
Proof. exact diff_shape. Qed.

(* the hunks, applied to the first text by the independent applier, produce the second *)
Theorem C20_patch : forall (a b : list string) hs,
  hunks String.eqb a b = Some hs -> apply_unified String.eqb hs a = Some b.
Proof. exact (patch_lines string String.eqb string_eqb_spec). Qed.

(* every header's counts are the numbers of (' '+'-') and (' '+'+') body lines, its starts are consistent *)
Theorem C20_headers : forall (a b : list string) hs,
  hunks String.eqb a b = Some hs -> headers_ok hs = true.
Proof. exact (headers_lines string String.eqb string_eqb_spec). Qed.

(* every hunk begins and ends with at most three unchanged lines *)
Theorem C20_context : forall (a b : list string) hs,
  hunks String.eqb a b = Some hs -> context_ok 3 hs = true.
Proof. exact (context_lines string String.eqb). Qed.

(* DiffMatch, for an expectation built from the documented placeholders: empty exactly when the text
   matches (Matches is the inductive semantics in Match.v, matchb the matcher that is run) *)
Theorem C20_diffmatch_empty_iff : forall have items,
  diffmatch_empty have items = true <-> Matches items have.
Proof. exact diffmatch_empty_iff. Qed.

(* The clauses together, on the text that Diff returns, phrased with exactly the predicates that
   lib/diffcheck.py evaluates on the implementation's output (spec_* and parse_unified are extracted):
   the result is empty exactly for equal trimmed inputs; a non-empty result reads back (parse_unified)
   as hunks that patch the first text into the second, with headers that agree with the bodies and at
   most three unchanged lines at either end of every hunk. *)
Theorem C20_diff_spec : forall have want d,
  diff have want = Some d ->
  spec_empty_iff have want d = true
  /\ (d <> ""%string ->
      exists hs, parse_unified d = Some hs /\ hs <> []
                 /\ spec_patch have want hs = true /\ spec_headers hs = true /\ spec_context hs = true).
Proof. exact diff_spec. Qed.

(* the same for makeUnifiedDiff called on any two lists of newline-terminated lines (also empty lists) *)
Theorem C20_lines_spec : forall a b : list string,
  Forall proper a -> Forall proper b ->
  exists d, diff_lines a b = Some d
    /\ spec_empty_iff_lines a b d = true
    /\ (d <> ""%string ->
        exists hs, parse_unified (nls ++ d)%string = Some hs /\ hs <> []
                   /\ spec_patch_lines a b hs = true /\ spec_headers hs = true /\ spec_context hs = true).
Proof. exact diff_lines_spec. Qed.

(* rendering loses nothing: the text of a diff over newline-terminated lines reads back as its hunks *)
Theorem C20_parse_render : forall hs, hs <> [] -> Forall proper_hunk hs ->
  parse_unified (nls ++ render_unified hs)%string = Some hs.
Proof. exact parse_render. Qed.

(* non-vacuity: a concrete two-hunk diff, its patch, headers and context *)
Example C20_example :
  let have := ("a" ++ nls ++ "b" ++ nls ++ "c" ++ nls ++ "d" ++ nls ++ "e" ++ nls ++ "f" ++ nls ++ "g" ++ nls
               ++ "h" ++ nls ++ "i" ++ nls ++ "j" ++ nls ++ "k")%string in
  let want := ("  a" ++ nls ++ "X" ++ nls ++ "c" ++ nls ++ "d" ++ nls ++ "e" ++ nls ++ "f" ++ nls ++ "g" ++ nls
               ++ "h" ++ nls ++ "i" ++ nls ++ "j" ++ nls ++ nls)%string in
  exists hs, hunks String.eqb (lines_of have) (lines_of want) = Some hs
    /\ List.length hs = 2
    /\ map (fun h => (hA h, hB h)) hs = [((1, 5), (1, 5)); ((8, 4), (8, 3))]
    /\ apply_unified String.eqb hs (lines_of have) = Some (lines_of want)
    /\ headers_ok hs = true /\ context_ok 3 hs = true
    /\ option_map parse_unified (diff have want) = Some (Some hs).
Proof. vm_compute. eexists. repeat split. Qed.

Example C20_example_match :
  Matches [Lit "id="; Number (BBetween 1 3); Lit " "; Any BPlus; Lit "."] "id=42 hello world."
  /\ ~ Matches [Lit "id="; Number (BExact 3)] "id=42".
Proof.
  split; [apply C20_diffmatch_empty_iff | intro H; apply C20_diffmatch_empty_iff in H; revert H];
    vm_compute; [reflexivity | discriminate].
Qed.

Print Assumptions C20_flm_sound.
Print Assumptions C20_matching_blocks.
Print Assumptions C20_opcodes_tile.
Print Assumptions C20_total.
Print Assumptions C20_empty_iff.
Print Assumptions C20_split_lines_injective.
Print Assumptions C20_output_shape.
Print Assumptions C20_patch.
Print Assumptions C20_headers.
Print Assumptions C20_context.
Print Assumptions C20_matching_blocks_nonadjacent.
Print Assumptions C20_diff_spec.
Print Assumptions C20_parse_render.
Print Assumptions C20_diffmatch_empty_iff.
Print Assumptions C20_flm_checked.
Print Assumptions C20_flm_earliest.
Print Assumptions C20_flm_maximal.
Print Assumptions C20_blocks_checked.
Print Assumptions C20_opcodes_checked.
Print Assumptions C20_lines_spec.
