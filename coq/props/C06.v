(* C06 — Close protocol: channels close, nothing is sent afterwards, API goes inert.  Statements only. *)
From stdpp Require Import gmap list.
From Fsn Require Import CfgLang Cfg Conc ConcDefs ConcSafety ConcLive ConcMain.
From FsnGen Require Import GenCfg.
From FsnObl Require Import OblCfg.
Local Open Scope nat_scope.

(* facts read off the current source: only the reader sends on / closes Events, Errors, doneResp (in its deferred exit
   block, nowhere else); done is closed once, under the mutex, guarded by isClosed; sends select on done; the API
   functions test isClosed first; no goroutine other than the reader is ever started *)
Theorem C06_generated_facts :
  only_reader_sends gen_program = true /\ reader_exit_shape gen_program = true /\ close_shape gen_program = true /\
  sends_select_done gen_program = true /\ guard_first gen_program = true /\
  no_go_in_reader gen_program = true /\ single_reader_start gen_program = true.
Proof. pose proof gen_cfg_ok as H. unfold cfg_ok in H. rewrite !Bool.andb_true_iff in H. tauto. Qed.

Section Protocol.
  Context {E X D C R I K : Type}.
  Variable api : D -> C -> D * R.
  Variable closed_result : C -> R.
  Variable pre : I -> list (@msg E X).
  Variable hnd : D -> I -> D * list (@msg E X).
  Variable env : D -> K -> option D.
  Notation cstate := (@cstate E X D C R I K).
  Notation reachable := (reachable api closed_result pre hnd env).
  Notation crun := (crun api closed_result pre hnd env).
  Notation cstep := (cstep api closed_result pre hnd env).
  Notation reader_step := (reader_step pre hnd).
  Let cf := mkCf (send_in_cs gen_program) (guard_first gen_program).

  (* no value is ever sent on a closed channel and no channel is closed twice: for every capacity, every number of
     callers and closers, every consumer behaviour, every interleaving *)
  Theorem C06_no_panic : forall cap cf' d (s : cstate),
    reachable cap cf' d s -> panicked s = false.
  Proof. exact (no_panic api closed_result pre hnd env). Qed.

  (* the invariant behind it: Events is closed only once the reader is dead, Errors only in its last two steps … *)
  Theorem C06_invariant : forall cap cf' d (s : cstate),
    reachable cap cf' d s -> CInv cap s.
  Proof. exact (cinv_reachable api closed_result pre hnd env). Qed.

  (* after Close has been acknowledged (doneResp closed) both channels are closed within two reader steps that are
     always enabled — consumer loops terminate *)
  Theorem C06_channels_close_promptly : forall cap d (s : cstate),
    reachable cap cf d s -> resp_closed s = true ->
    exists ls s', only_threads ls /\ List.length ls <= 2 /\ crun cap cf s ls = Some s' /\
                  rd s' = RDead /\ ev_closed s' = true /\ er_closed s' = true.
  Proof. exact (fun cap d s => channels_close_after_close api closed_result pre hnd env cap cf d s). Qed.

  (* nothing arrives after the close has been observed: once Events is closed the reader is dead and takes no step *)
  Theorem C06_nothing_after_close : forall cap d (s : cstate),
    reachable cap cf d s -> ev_closed s = true -> rd s = RDead /\ reader_step cap cf s = None.
  Proof.
    intros cap d s Hr He. pose proof (ci_ev_closed _ _ (cinv_reachable api closed_result pre hnd env cap cf d s Hr) He) as Hd.
    exact (conj Hd (reader_dead_stuck pre hnd cap cf s Hd)).
  Qed.

  (* from then on the API is inert: the guard returns the closed result (ErrClosed / nil / nil) without touching state *)
  Theorem C06_inert_after_close : forall cap (s : cstate) t c,
    done_closed s = true -> thr s !! t = Some (CStart c) -> t <> reader_tid ->
    exists s', cstep cap cf s (LThr t) = Some s' /\ thr s' !! t = Some (CDone (closed_result c)) /\
               data s' = data s /\ mu s' = mu s /\ lin s' = lin s.
  Proof. exact (fun cap s t c => inert_after_close api closed_result pre hnd env cap cf s t c gen_guard_first_true). Qed.

  (* closed stays closed; done is closed by exactly one step, the critical section of the first Close *)
  Theorem C06_closed_is_stable : forall cap cf' (s : cstate) l s',
    cstep cap cf' s l = Some s' ->
    (done_closed s = true -> done_closed s' = true) /\ (file_closed s = true -> file_closed s' = true) /\
    (resp_closed s = true -> resp_closed s' = true) /\ (ev_closed s = true -> ev_closed s' = true) /\
    (er_closed s = true -> er_closed s' = true).
  Proof. exact (done_stays_closed api closed_result pre hnd env). Qed.
  Theorem C06_done_closed_by_first_close : forall cap cf' (s : cstate) l s',
    cstep cap cf' s l = Some s' -> done_closed s = false -> done_closed s' = true ->
    exists t, l = LThr t /\ t <> reader_tid /\ thr s !! t = Some KInCs /\ thr s' !! t = Some KCloseFile.
  Proof. exact (done_closed_by api closed_result pre hnd env). Qed.
End Protocol.

Print Assumptions C06_generated_facts.
Print Assumptions C06_no_panic.
Print Assumptions C06_invariant.
Print Assumptions C06_channels_close_promptly.
Print Assumptions C06_nothing_after_close.
Print Assumptions C06_inert_after_close.
Print Assumptions C06_closed_is_stable.
Print Assumptions C06_done_closed_by_first_close.
