(* C14 — the event stream does not depend on buffering or on other Watchers.  Statements only. *)
From stdpp Require Import gmap list.
From Coq Require Import NArith.
From Fsn Require Import CfgLang Cfg Conc ConcDefs ConcSafety ConcLive ConcMain.
From FsnGen Require Import GenCfg GenConsts.
From FsnObl Require Import OblCfg.
Local Open Scope nat_scope.

(* read off the current source: NewBufferedWatcher's Events capacity is its argument, NewWatcher's is
   defaultBufferSize (0 on inotify / kqueue / fen, 50 on Windows), Errors is unbuffered in both; no non-test function
   writes a package-level variable (no state shared between Watchers) on any platform *)
Theorem C14_capacities :
  (gen_newbuffered_events_cap_is_arg && gen_newbuffered_errors_unbuffered &&
   gen_newwatcher_events_cap_is_default && gen_newwatcher_errors_unbuffered &&
   (gen_default_buffer_linux =? 0)%N && (gen_default_buffer_freebsd =? 0)%N &&
   (gen_default_buffer_solaris =? 0)%N && (gen_default_buffer_windows =? 50)%N)%bool = true.
Proof. exact gen_capacities. Qed.
Theorem C14_no_shared_state :
  gen_global_writes_linux = [] /\ gen_global_writes_freebsd = [] /\ gen_global_writes_windows = [] /\ gen_global_writes_solaris = [].
Proof. exact gen_no_global_state. Qed.

Section Protocol.
  Context {E X D C R : Type}.
  Variable api : D -> C -> D * R.
  Variable closed_result : C -> R.

  (* for EVERY capacity, schedule and consumer pace: received ++ buffered (++ not yet sent) is the stream of events the
     kernel's notifications stand for, in order; nothing lost or reordered until the reader exits *)
  Theorem C14_events_fifo : forall cap cf d ls (s : @cstate E X D C R),
    crun api closed_result cap cf (cinit d) ls = Some s ->
    (exists dropped, evs_of (delivered ls) = recvd_ev s ++ ev_buf s ++ evs_of (pending_msgs (rd s)) ++ dropped
                     /\ (reader_exiting (rd s) = false -> dropped = [])) /\
    (reader_exiting (rd s) = false -> recvd_ev s ++ ev_buf s ++ evs_of (pending_msgs (rd s)) = evs_of (delivered ls)) /\
    (recvd_ev s ++ ev_buf s) `prefix_of` evs_of (delivered ls).
  Proof. exact (events_fifo api closed_result). Qed.

  (* two Watchers differing in capacity (and schedule, consumer) that are handed the same notifications have received
     comparable sequences *)
  Theorem C14_capacity_independent : forall cap1 cap2 cf1 cf2 d1 d2 ls1 ls2 (s1 s2 : @cstate E X D C R),
    crun api closed_result cap1 cf1 (cinit d1) ls1 = Some s1 -> crun api closed_result cap2 cf2 (cinit d2) ls2 = Some s2 ->
    delivered ls1 = delivered ls2 ->
    (recvd_ev s1 `prefix_of` recvd_ev s2 \/ recvd_ev s2 `prefix_of` recvd_ev s1) /\
    (recvd_er s1 `prefix_of` recvd_er s2 \/ recvd_er s2 `prefix_of` recvd_er s1).
  Proof. exact (capacity_independent api closed_result). Qed.

  (* a buffered Watcher absorbs events up to its capacity with no consumer present; when full it waits (never drops);
     the consumer then gets the oldest first *)
  Theorem C14_buffer_absorbs : forall cap cf (s : @cstate E X D C R) e ms rest,
    done_closed s = false -> List.length (ev_buf s) < cap -> rd s = RPost (MEv e :: ms) rest ->
    exists s', reader_step cap cf s = Some s' /\ ev_buf s' = ev_buf s ++ [e] /\ rd s' = RPost ms rest.
  Proof. exact buffer_absorbs. Qed.
  Theorem C14_buffer_full_waits : forall cap cf (s : @cstate E X D C R) e ms rest,
    List.length (ev_buf s) = cap -> done_closed s = false -> rd s = RPost (MEv e :: ms) rest -> reader_step cap cf s = None.
  Proof. exact buffer_full_waits. Qed.
  Theorem C14_oldest_first : forall (s : @cstate E X D C R) e b,
    ev_buf s = e :: b -> exists s', consume_ev s = Some s' /\ ev_buf s' = b /\ recvd_ev s' = recvd_ev s ++ [e] /\ rd s' = rd s.
  Proof. exact buffer_full_consume. Qed.
End Protocol.

(* independence from other Watchers at the kernel boundary: each Watcher talks to its own descriptor only (all
   inotify_add_watch / inotify_rm_watch calls of Watcher.v take the Watcher's own kernel state [kernel] and return it;
   there is no other shared value in the model, matching C14_no_shared_state); the kernel's delivery to one instance
   depends on the filesystem and on that instance's marks only — kernel contract, validated by the harness with 1-8
   co-existing Watchers. *)

Print Assumptions C14_capacities.
Print Assumptions C14_no_shared_state.
Print Assumptions C14_events_fifo.
Print Assumptions C14_capacity_independent.
Print Assumptions C14_buffer_absorbs.
Print Assumptions C14_buffer_full_waits.
Print Assumptions C14_oldest_first.
