(* C14 — the event stream does not depend on buffering or on other Watchers.  Statements only. *)
From stdpp Require Import gmap list.
From Coq Require Import NArith.
From Fsn Require Import CfgLang Cfg Conc ConcDefs ConcSafety ConcLive ConcMain.
From FsnGen Require Import GenCfg GenConsts.
From FsnObl Require Import OblCfg.
Local Open Scope nat_scope.

(* read off the current source: NewBufferedWatcher's Events capacity is its argument, NewWatcher's is
   defaultBufferSize (0 on inotify / kqueue / fen, 50 on Windows), Errors is unbuffered in both; no non-test function
   writes a package-level variable (no state shared between Watchers) on any platform *)
Theorem C14_capacities :
  (gen_newbuffered_events_cap_is_arg && gen_newbuffered_errors_unbuffered &&
   gen_newwatcher_events_cap_is_default && gen_newwatcher_errors_unbuffered &&
   (gen_default_buffer_linux =? 0)%N && (gen_default_buffer_freebsd =? 0)%N &&
   (gen_default_buffer_solaris =? 0)%N && (gen_default_buffer_windows =? 50)%N)%bool = true.
Proof. exact gen_capacities. Qed.
Theorem C14_no_shared_state :
  gen_global_writes_linux = [] /\ gen_global_writes_freebsd = [] /\ gen_global_writes_windows = [] /\ gen_global_writes_solaris = [].
Proof. exact gen_no_global_state. Qed.

Section Protocol.
  Context {E X D C R I K : Type}.
  Variable api : D -> C -> D * R.
  Variable closed_result : C -> R.
  Variable pre : I -> list (@msg E X).
  Variable hnd : D -> I -> D * list (@msg E X).
  Variable env : D -> K -> option D.
  Notation cstate := (@cstate E X D C R I K).
  Notation reachable := (reachable api closed_result pre hnd env).
  Notation crun := (crun api closed_result pre hnd env).
  Notation cstep := (cstep api closed_result pre hnd env).
  Notation reader_step := (reader_step pre hnd).

  (* THE STREAM of a state: [pre i] then the [post] computed in i's critical section, for every item handled so far in
     handling order (both recorded in lin), then [pre] of the item begun but not yet handled.  For EVERY capacity,
     schedule and consumer pace: received ++ buffered ++ still to send (of what is determined) is exactly the events of
     the stream, in order; nothing lost, duplicated, reordered or invented until the reader exits *)
  Theorem C14_events_fifo : forall cap cf d ls (s : cstate),
    crun cap cf (cinit d) ls = Some s ->
    (exists dropped, evs_of (stream pre s) = recvd_ev s ++ ev_buf s ++ evs_of (pending_msgs (rd s)) ++ dropped
                     /\ (reader_exiting (rd s) = false -> dropped = [])) /\
    (reader_exiting (rd s) = false -> recvd_ev s ++ ev_buf s ++ evs_of (pending_msgs (rd s)) = evs_of (stream pre s)) /\
    (recvd_ev s ++ ev_buf s) `prefix_of` evs_of (stream pre s).
  Proof. exact (events_fifo api closed_result pre hnd env). Qed.
  Theorem C14_errors_fifo : forall cap cf d ls (s : cstate),
    crun cap cf (cinit d) ls = Some s ->
    (exists dropped, ers_of (stream pre s) = recvd_er s ++ ers_of (pending_msgs (rd s)) ++ dropped
                     /\ (reader_exiting (rd s) = false -> dropped = [])) /\
    (reader_exiting (rd s) = false -> recvd_er s ++ ers_of (pending_msgs (rd s)) = ers_of (stream pre s)) /\
    recvd_er s `prefix_of` ers_of (stream pre s).
  Proof. exact (errors_fifo api closed_result pre hnd env). Qed.

  (* the stream is determined by the linearisation: the begun items are the handled ones plus at most the current one *)
  Theorem C14_stream_determined : forall cap cf d ls (s : cstate),
    crun cap cf (cinit d) ls = Some s ->
    exists u, started s = handled_items (lin s) ++ u /\ List.length u <= 1 /\
              (reader_exiting (rd s) = false -> u = cur_items (rd s)) /\
              stream pre s = lin_msgs pre (lin s) ++ concat (map pre u).
  Proof. exact (started_shape api closed_result pre hnd env). Qed.
  (* … is never revised, only extended … *)
  Theorem C14_stream_grows : forall cap cf d ls1 ls2 (s1 s2 : cstate),
    crun cap cf (cinit d) ls1 = Some s1 -> crun cap cf s1 ls2 = Some s2 -> stream pre s1 `prefix_of` stream pre s2.
  Proof. exact (stream_mono api closed_result pre hnd env). Qed.
  (* … and every notification the kernel handed over is begun in order, or still in the reader's batch *)
  Theorem C14_items_fifo : forall cap cf d ls (s : cstate),
    crun cap cf (cinit d) ls = Some s ->
    exists dropped, delivered ls = started s ++ unstarted (rd s) ++ dropped /\ (reader_exiting (rd s) = false -> dropped = []).
  Proof. exact (items_fifo api closed_result pre hnd env). Qed.

  (* two Watchers differing in capacity (and schedule, consumer) whose streams are comparable have received comparable
     sequences *)
  Theorem C14_capacity_independent : forall cap1 cap2 cf1 cf2 d1 d2 ls1 ls2 (s1 s2 : cstate),
    crun cap1 cf1 (cinit d1) ls1 = Some s1 -> crun cap2 cf2 (cinit d2) ls2 = Some s2 ->
    stream pre s1 `prefix_of` stream pre s2 \/ stream pre s2 `prefix_of` stream pre s1 ->
    (recvd_ev s1 `prefix_of` recvd_ev s2 \/ recvd_ev s2 `prefix_of` recvd_ev s1) /\
    (recvd_er s1 `prefix_of` recvd_er s2 \/ recvd_er s2 `prefix_of` recvd_er s1).
  Proof. exact (capacity_independent api closed_result pre hnd env). Qed.

  (* a buffered Watcher absorbs events up to its capacity with no consumer present; when full it waits (never drops);
     the consumer then gets the oldest first *)
  Theorem C14_buffer_absorbs : forall cap cf (s : cstate) e ms rest,
    done_closed s = false -> List.length (ev_buf s) < cap -> rd s = RPost (MEv e :: ms) rest ->
    exists s', reader_step cap cf s = Some s' /\ ev_buf s' = ev_buf s ++ [e] /\ rd s' = RPost ms rest.
  Proof. exact (buffer_absorbs pre hnd). Qed.
  Theorem C14_buffer_full_waits : forall cap cf (s : cstate) e ms rest,
    List.length (ev_buf s) = cap -> done_closed s = false -> rd s = RPost (MEv e :: ms) rest -> reader_step cap cf s = None.
  Proof. exact (buffer_full_waits pre hnd). Qed.
  Theorem C14_oldest_first : forall (s : cstate) e b,
    ev_buf s = e :: b -> exists s', consume_ev s = Some s' /\ ev_buf s' = b /\ recvd_ev s' = recvd_ev s ++ [e] /\ rd s' = rd s.
  Proof. exact buffer_full_consume. Qed.
End Protocol.

(* independence from other Watchers at the kernel boundary: each Watcher talks to its own descriptor only (all
   inotify_add_watch / inotify_rm_watch calls of Watcher.v take the Watcher's own kernel state [kernel] and return it;
   there is no other shared value in the model, matching C14_no_shared_state); the kernel's delivery to one instance
   depends on the filesystem and on that instance's marks only — kernel contract, validated by the harness with 1-8
   co-existing Watchers. *)

Print Assumptions C14_capacities.
Print Assumptions C14_no_shared_state.
Print Assumptions C14_events_fifo.
Print Assumptions C14_errors_fifo.
Print Assumptions C14_stream_determined.
Print Assumptions C14_stream_grows.
Print Assumptions C14_items_fifo.
Print Assumptions C14_capacity_independent.
Print Assumptions C14_buffer_absorbs.
Print Assumptions C14_buffer_full_waits.
Print Assumptions C14_oldest_first.
