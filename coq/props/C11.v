(* C11 — rename correlation: Create carries the old name of the same move, or none.  Statements only.
   [ring_run R recs] feeds the (name, mask, cookie) triples of the notifications that reach newEvent — those of live
   watches that are not suppressed — through the ring in order and returns the (name, operations, old name) triples
   produced; spec_deliver / deliver call exactly this newEvent on the watcher's ring (Spec.v, Watcher.v). *)
From stdpp Require Import gmap strings list.
From Fsn Require Import PathLex Bytes Tables Doc Watcher System Spec SpecDefs RingProofs.
Local Open Scope N_scope.

(* the ring index always stays inside the array *)
Theorem C11_ring_in_bounds : forall R recs, ring_wf R -> ring_wf (ring_run R recs).1.
Proof. exact ring_run_wf. Qed.

(* the window theorem — the strongest true statement: if fewer than ring_len (10) other move-outs are stored between the
   two halves of a move, the Create for the new name carries exactly the name of the Rename event of the same move,
   whatever else is interleaved (pre, mid, post arbitrary) *)
Theorem C11_window : forall R pre old mfrom c mid new mto post,
  ring_wf R -> (forall s, s ∈ rg R -> s.1 <> c) -> c <> 0 -> is_from mfrom = true -> is_to mto = true ->
  (forall r, r ∈ pre ++ mid -> r.2 = c -> is_from r.1.2 = false) -> (nstores mid < ring_len)%nat ->
  let out := (ring_run R (pre ++ [(old, mfrom, c)] ++ mid ++ [(new, mto, c)] ++ post)).2 in
  length out = (length pre + 1 + length mid + 1 + length post)%nat /\
  out !! length pre = Some (old, translate mfrom, ""%string) /\ has_any (translate mfrom) Rename = true /\
  out !! (length pre + 1 + length mid)%nat = Some (new, translate mto, old) /\ has_any (translate mto) Create = true.
Proof. exact RingProofs.C11_window. Qed.

(* a Create that did not result from a move between listed names never carries an old name, however many unmatched
   moves out preceded it: *)
(*  - move in from an unwatched place: its cookie was never stored *)
Theorem C11_no_false_partner : forall R pre new mto c post,
  c <> 0 -> (forall s, s ∈ rg R -> s.1 <> c) -> (forall r, r ∈ pre -> r.2 = c -> is_from r.1.2 = false) ->
  is_to mto = true ->
  (ring_run R (pre ++ [(new, mto, c)] ++ post)).2 !! length pre = Some (new, translate mto, ""%string).
Proof. exact RingProofs.C11_no_false_partner. Qed.
(*  - plain creation, hard link, anything without a cookie *)
Theorem C11_cookie_zero : forall R name mask,
  (new_event R name mask 0).2.2 = ""%string /\ (new_event R name mask 0).1 = R.
Proof. exact RingProofs.C11_cookie_zero. Qed.
(*  - anything that is not a move-in *)
Theorem C11_only_moved_to : forall R name mask c,
  has_all mask IN_MOVED_TO = false -> (new_event R name mask c).2.2 = ""%string.
Proof. exact RingProofs.C11_only_moved_to. Qed.

(* soundness: an old name that IS reported was stored under the same cookie by a move-out *)
Theorem C11_partner_sound : forall R pre new m c post p,
  (ring_run R (pre ++ [(new, m, c)] ++ post)).2 !! length pre = Some (new, translate m, p) -> p <> ""%string ->
  c <> 0 /\ is_to m = true /\ ((c, p) ∈ rg R \/ exists r, r ∈ pre /\ stores r = true /\ r.2 = c /\ r.1.1 = p).
Proof. exact RingProofs.C11_partner_sound. Qed.

(* the window is sharp (KNOWN FINDING, KNOWN_FINDINGS.txt key ring-overrun): with exactly ring_len move-outs stored
   between the two halves the correlation is lost — the full statement "for all interleavings" is false of the code *)
Theorem C11_full_refuted : exists R pre old mfrom c mid new mto post,
  ring_wf R /\ (forall s, s ∈ rg R -> s.1 <> c) /\ c <> 0 /\ is_from mfrom = true /\ is_to mto = true /\
  (forall r, r ∈ pre ++ mid -> r.2 = c -> is_from r.1.2 = false) /\ nstores mid = ring_len /\
  length (pre ++ [(old, mfrom, c)] ++ mid ++ [(new, mto, c)] ++ post) = 12%nat /\
  (ring_run R (pre ++ [(old, mfrom, c)] ++ mid ++ [(new, mto, c)] ++ post)).2
    !! (length pre + 1 + length mid)%nat = Some (new, translate mto, ""%string).
Proof. exact RingProofs.C11_full_refuted. Qed.

Example C11_example :
  (ring_run init_ring [("d/a"%string, 64, 5); ("d/x"%string, 256, 0); ("d/b"%string, 128, 5)]).2
  = [("d/a"%string, 8, ""%string); ("d/x"%string, 1, ""%string); ("d/b"%string, 1, "d/a"%string)].
Proof. vm_compute. reflexivity. Qed.

Print Assumptions C11_ring_in_bounds.
Print Assumptions C11_window.
Print Assumptions C11_no_false_partner.
Print Assumptions C11_cookie_zero.
Print Assumptions C11_only_moved_to.
Print Assumptions C11_partner_sound.
Print Assumptions C11_full_refuted.
