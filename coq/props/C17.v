(* C17 — kqueue: watch descriptors are always closed again; only user paths are listed.
   Only statements, closed by [exact]; the model is theories/KqModel.v, the proofs are in theories/KqInv.v.
   The statements range over ALL histories / ALL states satisfying the invariant, arbitrary filesystem contents and
   all three repair flags; [cfg_repo] is the tree as it is (with the repairs 833aa17 and c3f1f06), [cfg_before_fix] the tree
   before them.  What is still false on the tree as it is appears as _refuted, tied to its KNOWN_FINDINGS.txt key. *)
From Coq Require Import NArith List String Bool.
From stdpp Require Import gmap.
From Fsn Require Import KqModel KqInv.
Import ListNotations.
Local Open Scope N_scope.
Local Open Scope string_scope.

(* ledger = dom wd, registrations = dom wd, wd/path/byDir mutually consistent: preserved by every history step *)
Theorem C17_kq_inv_step : forall c s x, KqInv s -> KqInv (do_step c s x).1.
Proof. exact kq_inv_step. Qed.
Theorem C17_kq_inv_run : forall c h, KqInv (run c h st_init).
Proof. exact kq_inv_run. Qed.
Theorem C17_ledger_is_dom_wd : forall c h fd,
  is_Some (k_led (K (run c h st_init)) !! fd) <-> is_Some (t_wd (T (run c h st_init)) !! fd).
Proof. exact ledger_is_dom_wd. Qed.

(* a watch that ends through Remove has its descriptor closed (and Remove returns nil) … *)
Theorem C17_remove_closes_fd : forall c s name fd w,
  KqInv s -> closed s = false -> gone s = false -> tb_byPath (T s) (clean name) = Some (fd, w) ->
  k_led (K (api_remove c s name).1) !! fd = None /\ (api_remove c s name).2 = None.
Proof. exact remove_closes_fd. Qed.

(* … and so has one that ends through deletion or rename of its path, for watches filed under their own cleaned name *)
Theorem C17_watch_end_closes_fd : forall c s fd w mask,
  KqInv s -> gone s = false -> negb (fx_close c) && closed s = false ->
  t_wd (T s) !! fd = Some w -> w_link w = "" -> clean (w_name w) = w_name w ->
  has mask NOTE_DELETE = true \/ has mask NOTE_RENAME = true ->
  k_led (K (handle c s (fd, mask))) !! fd = None.
Proof. exact watch_end_closes_fd. Qed.
(* without those hypotheses it is false on the tree as it is: keys symlink-added, watched-dir-renamed *)
Theorem C17_watch_end_closes_fd_refuted :
  (exists h, let s := run cfg_repo h st_init in ledger_list s = [(1, "f")] /\ fails "deleted-file-descriptor-open" cfg_repo h = true)
  /\ (exists h, let s := run cfg_repo h st_init in ledger_list s = [(2, "d/a")] /\ api_list s = [] /\ fails "all-removed-empty" cfg_repo h = true).
Proof. exact watch_end_closes_fd_refuted. Qed.

(* Close (repaired, 833aa17): when Close returns no watch, no watch descriptor, no registration is left … *)
Theorem C17_close_empties : forall c s,
  fx_close c = true -> KqInv s -> closed s = false -> gone s = false -> names_clean s ->
  let s' := api_close c s in
  closed s' = true /\ t_wd (T s') = ∅ /\ k_led (K s') = ∅ /\ k_regs (K s') = ∅ /\ t_bydir (T s') = ∅ /\ k_pw (K s') = false.
Proof. exact close_empties. Qed.
(* … and for all histories before and after the Close, for every configuration with the repaired Close, the ledger
   holds no watch descriptor and the kqueue no registration from the Close on (so also after the reader has exited) *)
Theorem C17_close_releases_all : forall c h1 h2,
  fx_close c = true ->
  let s0 := before_close c (run c h1 st_init) in
  closed s0 = false -> gone s0 = false -> names_clean s0 ->
  let s := run c (h1 ++ SClose :: h2) st_init in
  k_led (K s) = ∅ /\ k_regs (K s) = ∅ /\ closed s = true.
Proof. exact close_releases_all. Qed.
(* the premise [names_clean] always holds: a watch is only ever filed under a cleaned name (addWatch cleans its argument
   and the symlink target; the names of directory entries reach the tables through addWatch), for every history, every
   filesystem content and every configuration … *)
Theorem C17_names_clean : forall c h, names_clean (run c h st_init).
Proof. exact names_clean_run. Qed.
Theorem C17_names_clean_before_close : forall c h, names_clean (before_close c (run c h st_init)).
Proof. exact names_clean_before_close. Qed.
(* … so Close releases everything without it (the two premises left say that Close has not been called before) *)
Theorem C17_close_releases_all_unconditional : forall c h1 h2,
  fx_close c = true ->
  let s0 := before_close c (run c h1 st_init) in
  closed s0 = false -> gone s0 = false ->
  let s := run c (h1 ++ SClose :: h2) st_init in
  k_led (K s) = ∅ /\ k_regs (K s) = ∅ /\ closed s = true.
Proof. exact close_releases_all_unconditional. Qed.
(* the witness of the repaired defect (watch filed under the raw, unclean absolute link target: Close did not find it) *)
Theorem C17_close_unclean_link_released :
  let s := run cfg_repo w_unclean_link_close st_init in
  gone s = true /\ ledger_list s = [] /\ fails "close-releases-all" cfg_repo w_unclean_link_close = false.
Proof. exact close_unclean_link_released. Qed.
(* the three repaired defects: gone on cfg_repo, present on cfg_before_fix (what the seeded-defect test reverts to) *)
Theorem C17_before_fix_refuted :
  (let s := run cfg_before_fix w_close st_init in gone s = true /\ ledger_list s = [(1, "f")] /\ fails "close-releases-all" cfg_before_fix w_close = true)
  /\ (api_list (run cfg_before_fix w_unclean st_init) = ["./d"] /\ fails "removed-not-listed" cfg_before_fix w_unclean = true)
  /\ (api_list (run cfg_before_fix w_fifo st_init) = ["p"] /\ fails "all-removed-empty" cfg_before_fix w_fifo = true).
Proof. exact before_fix_refuted. Qed.

(* Remove unlists (repaired addUserWatch, c3f1f06): the cleaned path leaves byUser and WatchList *)
Theorem C17_remove_unlists : forall c s name fd w,
  KqInv s -> closed s = false -> gone s = false -> tb_byPath (T s) (clean name) = Some (fd, w) ->
  clean name ∉ t_user (T (api_remove c s name).1) /\ ~ In (clean name) (api_list (api_remove c s name).1).
Proof. exact remove_unlists. Qed.

(* WatchList: only arguments of earlier Add calls, never an internal per-entry watch *)
Theorem C17_watchlist_user_only : forall c h q,
  In q (api_list (run c h st_init)) -> exists p, In (SAdd p) h /\ q = user_name c p.
Proof. exact watchlist_user_only. Qed.

(* once no watch is left: no descriptor, no registration, no byDir bucket, path holds link entries only (partial) … *)
Theorem C17_all_removed_empty_partial : forall s,
  KqInv s -> t_wd (T s) = ∅ ->
  k_led (K s) = ∅ /\ (gone s = false -> k_regs (K s) = ∅) /\ t_bydir (T s) = ∅ /\ (forall p fd, t_path (T s) !! p = Some fd -> fd = 0).
Proof. exact all_removed_empty_partial. Qed.
(* … the full statement is still false; the possible leftovers, one witness per remaining cause:
   symlink-added (byUser, path->0, seen), watched-dir-renamed (entries of the renamed directory), fifo-entry (seen[""]),
   watched-file-overwritten (internal re-watch), dangling-symlink-entry (half-added directory) *)
Theorem C17_all_removed_empty_refuted :
  (exists h, let s := run cfg_repo h st_init in api_list s = ["l"] /\ sizes s = (0, 1, 0, 1, 1) /\ t_path (T s) !! "l" = Some 0 /\ fails "remove-of-added-fails" cfg_repo h = true)
  /\ (exists h, let s := run cfg_repo h st_init in api_list s = [] /\ ledger_list s = [(2, "d/a")] /\ sizes s = (1, 1, 1, 1, 0) /\ fails "all-removed-empty" cfg_repo h = true)
  /\ (exists h, let s := run cfg_repo h st_init in api_list s = [] /\ ledger_list s = [] /\ sizes s = (0, 0, 0, 1, 0) /\ fails "all-removed-empty" cfg_repo h = true)
  /\ (exists h, let s := run cfg_repo h st_init in api_list s = [] /\ ledger_list s = [(2, "a")] /\ sizes s = (1, 1, 1, 1, 0) /\ fails "all-removed-empty" cfg_repo h = true)
  /\ (exists h, let s := run cfg_repo h st_init in api_list s = [] /\ ledger_list s = [(1, "d"); (2, "d/a")] /\ fails "all-removed-empty" cfg_repo h = true).
Proof. exact all_removed_empty_refuted. Qed.
(* keys remove-of-unadded-succeeds, entry-user-removed *)
Theorem C17_remove_semantics_refuted :
  (fails "remove-of-unadded-succeeds" cfg_repo w_remove_unadded = true /\ ledger_list (run cfg_repo w_remove_unadded st_init) = [(1, "d")])
  /\ (fails "change-missed" cfg_repo w_entry_user_removed = true /\ api_list (run cfg_repo w_entry_user_removed st_init) = ["d"]).
Proof. exact remove_semantics_refuted. Qed.

(* non-vacuity: a directory with entries, watched under an unclean spelling, changed, removed, re-added, closed:
   everything is released, every clause of the specification holds; before the fix two descriptors leaked *)
Example C17_example :
  let h := [SFs (OMkdir "d"); SFs (OCreate "d/a"); SAdd "./d"; SFs (OCreate "d/b"); SFs (OUnlink "d/a"); SRemove "d"; SAdd "d"; SClose] in
  let s := run cfg_repo h st_init in
  ledger_list s = [] /\ sizes s = (0, 0, 0, 0, 0) /\ infra s = (false, false, false) /\ spec_of_model cfg_repo h = []
  /\ ledger_list (run cfg_before_fix h st_init) = [(4, "d"); (5, "d/b")].
Proof. vm_compute. repeat split; reflexivity. Qed.

Print Assumptions C17_kq_inv_step.
Print Assumptions C17_kq_inv_run.
Print Assumptions C17_ledger_is_dom_wd.
Print Assumptions C17_remove_closes_fd.
Print Assumptions C17_watch_end_closes_fd.
Print Assumptions C17_watch_end_closes_fd_refuted.
Print Assumptions C17_close_empties.
Print Assumptions C17_close_releases_all.
Print Assumptions C17_names_clean.
Print Assumptions C17_names_clean_before_close.
Print Assumptions C17_close_releases_all_unconditional.
Print Assumptions C17_close_unclean_link_released.
Print Assumptions C17_before_fix_refuted.
Print Assumptions C17_remove_unlists.
Print Assumptions C17_remove_semantics_refuted.
Print Assumptions C17_watchlist_user_only.
Print Assumptions C17_all_removed_empty_partial.
Print Assumptions C17_all_removed_empty_refuted.
