(* C17 — kqueue: watch descriptors are always closed again; only user paths are listed.
   Only statements, closed by [exact]; the model is theories/KqModel.v, the proofs are in theories/KqInv.v.
   The statements range over ALL histories / ALL states satisfying the invariant, arbitrary filesystem contents and
   all three repair flags; [cfg_repo] is the tree as it is.  What is false on the tree as it is appears as _refuted. *)
From Coq Require Import NArith List String Bool.
From stdpp Require Import gmap.
From Fsn Require Import KqModel KqInv.
Import ListNotations.
Local Open Scope N_scope.
Local Open Scope string_scope.

(* ledger = dom wd, registrations = dom wd, wd/path/byDir mutually consistent: preserved by every history step *)
Theorem C17_kq_inv_step : forall c s x, KqInv s -> KqInv (do_step c s x).1.
Proof. exact kq_inv_step. Qed.
Theorem C17_kq_inv_run : forall c h, KqInv (run c h st_init).
Proof. exact kq_inv_run. Qed.
Theorem C17_ledger_is_dom_wd : forall c h fd,
  is_Some (k_led (K (run c h st_init)) !! fd) <-> is_Some (t_wd (T (run c h st_init)) !! fd).
Proof. exact ledger_is_dom_wd. Qed.

(* a watch that ends through Remove has its descriptor closed (and Remove returns nil) … *)
Theorem C17_remove_closes_fd : forall c s name fd w,
  KqInv s -> closed s = false -> gone s = false -> tb_byPath (T s) (clean name) = Some (fd, w) ->
  k_led (K (api_remove c s name).1) !! fd = None /\ (api_remove c s name).2 = None.
Proof. exact remove_closes_fd. Qed.

(* … and so has one that ends through deletion or rename of its path, for watches filed under their own cleaned name *)
Theorem C17_watch_end_closes_fd : forall c s fd w mask,
  KqInv s -> gone s = false -> negb (fx_close c) && closed s = false ->
  t_wd (T s) !! fd = Some w -> w_link w = "" -> clean (w_name w) = w_name w ->
  has mask NOTE_DELETE = true \/ has mask NOTE_RENAME = true ->
  k_led (K (handle c s (fd, mask))) !! fd = None.
Proof. exact watch_end_closes_fd. Qed.
(* without those hypotheses it is false on the tree as it is: symlinked watch, entries of a renamed directory *)
Theorem C17_watch_end_closes_fd_refuted :
  (exists h, let s := run cfg_repo h st_init in ledger_list s = [(1, "f")] /\ fails "deleted-file-descriptor-open" cfg_repo h = true)
  /\ (exists h, let s := run cfg_repo h st_init in ledger_list s = [(2, "d/a")] /\ api_list s = [] /\ fails "all-removed-empty" cfg_repo h = true).
Proof. exact watch_end_closes_fd_refuted. Qed.

(* Close: false on the tree as it is (F3) *)
Theorem C17_close_releases_all_refuted :
  exists h, let s := run cfg_repo h st_init in gone s = true /\ ledger_list s = [(1, "f")] /\ infra s = (false, false, false)
            /\ fails "close-releases-all" cfg_repo h = true.
Proof. exact close_releases_all_refuted. Qed.

(* WatchList: only arguments of earlier Add calls, never an internal per-entry watch *)
Theorem C17_watchlist_user_only : forall c h q,
  In q (api_list (run c h st_init)) -> exists p, In (SAdd p) h /\ q = user_name c p.
Proof. exact watchlist_user_only. Qed.

(* once no watch is left: no descriptor, no registration, no byDir bucket, path holds link entries only (partial) … *)
Theorem C17_all_removed_empty_partial : forall s,
  KqInv s -> t_wd (T s) = ∅ ->
  k_led (K s) = ∅ /\ (gone s = false -> k_regs (K s) = ∅) /\ t_bydir (T s) = ∅ /\ (forall p fd, t_path (T s) !! p = Some fd -> fd = 0).
Proof. exact all_removed_empty_partial. Qed.
(* … the full statement is false on the tree as it is *)
Theorem C17_all_removed_empty_refuted :
  (exists h, let s := run cfg_repo h st_init in api_list s = ["./d"] /\ sizes s = (0, 0, 0, 0, 1) /\ fails "removed-not-listed" cfg_repo h = true)
  /\ (exists h, let s := run cfg_repo h st_init in api_list s = ["p"] /\ sizes s = (0, 0, 0, 0, 1) /\ fails "all-removed-empty" cfg_repo h = true)
  /\ (exists h, let s := run cfg_repo h st_init in api_list s = ["l"] /\ sizes s = (0, 1, 0, 1, 1) /\ t_path (T s) !! "l" = Some 0 /\ fails "remove-of-added-fails" cfg_repo h = true)
  /\ (exists h, let s := run cfg_repo h st_init in api_list s = [] /\ ledger_list s = [(2, "d/a")] /\ sizes s = (1, 1, 1, 1, 0) /\ fails "all-removed-empty" cfg_repo h = true)
  /\ (exists h, let s := run cfg_repo h st_init in api_list s = [] /\ ledger_list s = [] /\ sizes s = (0, 0, 0, 1, 0) /\ fails "all-removed-empty" cfg_repo h = true).
Proof. exact all_removed_empty_refuted. Qed.

(* non-vacuity: a directory with entries, watched, changed, removed, closed — under the repaired flags everything is released *)
Example C17_example :
  let h := [SFs (OMkdir "d"); SFs (OCreate "d/a"); SAdd "./d"; SFs (OCreate "d/b"); SFs (OUnlink "d/a"); SRemove "d"; SAdd "d"; SClose] in
  let s := run cfg_fixed h st_init in
  ledger_list s = [] /\ sizes s = (0, 0, 0, 0, 0) /\ infra s = (false, false, false) /\ spec_of_model cfg_fixed h = []
  /\ ledger_list (run cfg_repo h st_init) = [(4, "d"); (5, "d/b")].
Proof. vm_compute. repeat split; reflexivity. Qed.

Print Assumptions C17_kq_inv_step.
Print Assumptions C17_kq_inv_run.
Print Assumptions C17_ledger_is_dom_wd.
Print Assumptions C17_remove_closes_fd.
Print Assumptions C17_watch_end_closes_fd.
Print Assumptions C17_watch_end_closes_fd_refuted.
Print Assumptions C17_close_releases_all_refuted.
Print Assumptions C17_watchlist_user_only.
Print Assumptions C17_all_removed_empty_partial.
Print Assumptions C17_all_removed_empty_refuted.
