(* C05 — control operations never block on event consumption; Close always returns.  Statements only.
   gen_program is the skeleton of the CURRENT source (regenerated on every run); the first theorem is the certificate
   that the code never performs a channel operation while holding a mutex — for every execution of every entry point —
   and the following ones are the protocol theorems that rest on it. *)
From stdpp Require Import gmap list.

From Fsn Require Import CfgLang Cfg Conc ConcDefs ConcSafety ConcLive ConcMain.
From FsnGen Require Import GenCfg.
From FsnObl Require Import OblCfg.
Local Open Scope nat_scope.

(* every execution (finite prefix) of every entry point of the generated skeleton: blocking operations only with no
   mutex held, table accesses only under mu, ring accesses only under cookiesMu, no lock error, balanced on return *)
Theorem C05_no_blocking_while_locked : forall f, In f entry_points ->
  forall trace held' o, exec_fun gen_program f [] trace held' o ->
  Forall obs_ok trace /\ o <> OError /\ (o = ONormal -> held' = []).
Proof. exact (cfg_ok_sound gen_program gen_cfg_ok). Qed.

Theorem C05_generated_fact : send_in_cs gen_program = false.
Proof. exact gen_send_in_cs_false. Qed.

Section Protocol.
  Context {E X D C R I K : Type}.
  Variable api : D -> C -> D * R.
  Variable closed_result : C -> R.
  Variable pre : I -> list (@msg E X).
  Variable hnd : D -> I -> D * list (@msg E X).
  Variable env : D -> K -> option D.
  Notation cstate := (@cstate E X D C R I K).
  Notation reachable := (reachable api closed_result pre hnd env).
  Notation crun := (crun api closed_result pre hnd env).
  Notation cstep := (cstep api closed_result pre hnd env).
  Notation reader_step := (reader_step pre hnd).
  Let cf := mkCf (send_in_cs gen_program) (guard_first gen_program).

  (* Add / Remove / WatchList in flight complete within 4 steps of threads, with NO consumer, kernel or other step
     needed, from every reachable state: whatever is buffered or pending, for every capacity and schedule so far *)
  Theorem C05_api_call_returns : forall cap d (s : cstate) t p,
    reachable cap cf d s -> t <> reader_tid -> thr s !! t = Some p ->
    (exists c, p = CStart c \/ p = CWantLock c \/ p = CInCs c) ->
    exists ls s', only_threads ls /\ List.length ls <= 4 /\ crun cap cf s ls = Some s' /\
                  exists r, thr s' !! t = Some (CDone r).
  Proof. exact (fun cap d s t p => api_call_returns api closed_result pre hnd env cap cf d s t p gen_send_in_cs_false). Qed.

  (* every Close call, from any number of goroutines, returns: bounded by the reader's remaining work for the batch *)
  Theorem C05_close_returns : forall cap d (s : cstate) t p,
    reachable cap cf d s -> t <> reader_tid -> thr s !! t = Some p ->
    (p = KStart \/ p = KInCs \/ p = KCloseFile \/ p = KWaitResp) ->
    exists ls s', only_threads ls /\ List.length ls <= reader_measure (rd s) + 5 /\
                  crun cap cf s ls = Some s' /\ thr s' !! t = Some KDone.
  Proof. exact (fun cap d s t p => close_call_returns api closed_result pre hnd env cap cf d s t p gen_send_in_cs_false). Qed.

  (* not merely possible: the measure strictly decreases with every reader step and never increases *)
  Theorem C05_measure_decreases : forall cap (s s' : cstate),
    CInv cap s -> done_closed s = true -> file_closed s = true ->
    cstep cap cf s (LThr reader_tid) = Some s' -> reader_measure (rd s') < reader_measure (rd s).
  Proof. exact (fun cap s s' => reader_measure_decreases api closed_result pre hnd env cap cf s s' gen_send_in_cs_false). Qed.

  (* a blocked reader never holds the mutex *)
  Theorem C05_blocked_reader_holds_nothing : forall cap d (s : cstate),
    reachable cap cf d s ->
    (forall ms a r, rd s <> RCsSend ms a r) /\ (reader_step cap cf s = None -> mu s <> Some reader_tid).
  Proof. exact (fun cap d s => no_blocking_in_cs api closed_result pre hnd env cap cf d s gen_send_in_cs_false). Qed.
End Protocol.

(* the certificate matters: were a send performed inside the critical section (the repaired defect 46e1ed3), a caller
   and a closer would wait for ever unless somebody consumes Errors *)
Theorem C05_send_in_cs_deadlocks :
  exists (cap : nat) (ls : list (@label nat nat nat nat)) (s : @Conc.cstate nat nat nat nat nat nat nat),
    Conc.crun (fun d c => (d, 0)) (fun _ => 0) dl_pre dl_hnd dl_env cap (mkCf true true) (cinit 0) ls = Some s /\
    thr s !! 1 = Some (CWantLock 7) /\ thr s !! 2 = Some KStart /\
    (forall ls' s', no_consumer ls' -> Conc.crun (fun d c => (d, 0)) (fun _ => 0) dl_pre dl_hnd dl_env cap (mkCf true true) s ls' = Some s' ->
       thr s' !! 1 = Some (CWantLock 7) /\ thr s' !! 2 = Some KStart /\ done_closed s' = false).
Proof. exact send_in_cs_deadlocks_nat. Qed.

Print Assumptions C05_no_blocking_while_locked.
Print Assumptions C05_api_call_returns.
Print Assumptions C05_close_returns.
Print Assumptions C05_measure_decreases.
Print Assumptions C05_blocked_reader_holds_nothing.
Print Assumptions C05_send_in_cs_deadlocks.
