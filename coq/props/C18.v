(* C18 — kqueue: a watched directory reports each new entry once, then its changes.
   Only statements, closed by [exact]; model theories/KqModel.v, proofs theories/KqInv.v.
   On the tree as it is every history-level clause has a counterexample (FIFO entries, unresolvable symlinks, symlink
   entries, failed Add); they are stated as _refuted with witnesses that the check replays on the real code.  What holds
   for all states is stated beside them; the history-level statements for histories without those ingredients are
   PARTIAL: proved for every history of two finite families (side conditions as explicit predicates, see KqInv.v), and
   beyond the bound established by the differential runs only. *)
From Coq Require Import NArith List String Bool.
From stdpp Require Import gmap.
From Fsn Require Import KqModel KqInv.
Import ListNotations.
Local Open Scope N_scope.
Local Open Scope string_scope.

(* create_once / preexisting_silent, state level: for a name already marked seen sendCreateIfNew sends nothing and only
   refreshes the watch; a successful call leaves a name marked seen *)
Theorem C18_create_only_if_unseen : forall s p k,
  tb_seenBefore (T s) p = true ->
  sendCreateIfNew s p k = (let '(s1, r) := internalWatch aw_entry s p k in
                           match r with RErr e => (s1, Some e) | ROk p' => (set_T (fun t => tb_markSeen t p' true) s1, None) end).
Proof. exact create_only_if_unseen. Qed.
Theorem C18_create_marks_returned_name : forall s p k s',
  sendCreateIfNew s p k = (s', None) -> closed s = false -> exists p', p' ∈ t_seen (T s').
Proof. exact create_marks_returned_name. Qed.

(* history level, tree as it is; keys: create_once fifo-entry + dangling-symlink-entry, preexisting_silent fifo-entry,
   recreate symlink-entry + rename-then-recreate-in-burst, dir_removed symlink-entry, names dangling-symlink-entry *)
Theorem C18_create_once_refuted :
  (exists h, creates "d/p" (run cfg_repo h st_init) = 2%nat /\ fails "create-once" cfg_repo h = true)
  /\ (exists h, creates "d/a" (run cfg_repo h st_init) = 2%nat /\ creates "d/b" (run cfg_repo h st_init) = 0%nat
             /\ fails "create-once" cfg_repo h = true /\ fails "create-missed" cfg_repo h = true).
Proof. exact create_once_refuted. Qed.
Theorem C18_preexisting_silent_refuted :
  exists h, creates "d/p" (run cfg_repo h st_init) = 1%nat /\ fails "preexisting-silent" cfg_repo h = true.
Proof. exact preexisting_silent_refuted. Qed.
Theorem C18_recreate_refuted :
  (exists h, evs (run cfg_repo h st_init) = [] /\ fails "recreate" cfg_repo h = true /\ fails "remove-missed" cfg_repo h = true)
  /\ (exists h, creates "d/l" (run cfg_repo h st_init) = 0%nat /\ creates "d/c" (run cfg_repo h st_init) = 1%nat /\ fails "create-missed" cfg_repo h = true).
Proof. exact recreate_refuted. Qed.
Theorem C18_dir_removed_refuted :
  exists h, rev (evs (run cfg_repo h st_init)) = [ {| e_name := "d/l"; e_op := Remove |}; {| e_name := "d/f"; e_op := Remove |}; {| e_name := "d"; e_op := Remove |} ]
            /\ fails "remove-missed" cfg_repo h = true.
Proof. exact dir_removed_refuted. Qed.

(* history level, positive, PARTIAL (bounded): every clause (create-once, preexisting-silent, create-missed, recreate,
   remove-missed, change-missed, names-user-spelling) holds on the model's trace of every history prologue ++ w with w
   any 4 steps of [alphabet], and of every burst prologue ++ hold :: w ++ [release; x] with w any 3 steps and x any step of
   [alpha_b], provided no name is created in the burst after having been renamed away (key rename-then-recreate-in-burst) *)
Theorem C18_history_clauses_bounded_plain_partial : forall w, In w (words alphabet 4) -> c18_ok (prologue ++ w) = true.
Proof. exact c18_clauses_bounded_plain_partial. Qed.
Theorem C18_history_clauses_bounded_burst_partial : forall w x,
  In (w, x) burst_family -> no_rename_recreate [] w = true -> c18_ok (prologue ++ SHold :: w ++ [SRelease; x]) = true.
Proof. exact c18_clauses_bounded_burst_partial. Qed.

(* names: link name substitution *)
Theorem C18_names_user_spelling : forall name link mask,
  e_name (newEvent name link mask) = if String.eqb link "" then name else link.
Proof. exact names_user_spelling. Qed.
Theorem C18_names_user_spelling_refuted :
  exists h, api_list (run cfg_repo h st_init) = [] /\ fails "names-user-spelling" cfg_repo h = true.
Proof. exact names_user_spelling_refuted. Qed.

(* the invariant the reader relies on holds whatever records arrive *)
Theorem C18_kq_inv_handle : forall c s r, KqInv s -> KqInv (handle c s r).
Proof. exact kq_inv_handle. Qed.

(* non-vacuity: 22 events over pre-existing entries, bursts, name re-use, overwrite by rename, removal of the directory:
   every clause of the specification holds on the model's trace *)
Example C18_example : spec_of_model cfg_repo h_plain = [] /\ length (evs (run cfg_repo h_plain st_init)) = 22%nat.
Proof. exact plain_history_meets_spec. Qed.

Print Assumptions C18_create_only_if_unseen.
Print Assumptions C18_create_marks_returned_name.
Print Assumptions C18_create_once_refuted.
Print Assumptions C18_preexisting_silent_refuted.
Print Assumptions C18_recreate_refuted.
Print Assumptions C18_dir_removed_refuted.
Print Assumptions C18_history_clauses_bounded_plain_partial.
Print Assumptions C18_history_clauses_bounded_burst_partial.
Print Assumptions C18_names_user_spelling.
Print Assumptions C18_names_user_spelling_refuted.
Print Assumptions C18_kq_inv_handle.
