(* C18 — kqueue: a watched directory reports each new entry once, then its changes.
   Only statements, closed by [exact]; model theories/KqModel.v, proofs theories/KqInv.v.
   On the tree as it is every history-level clause has a counterexample (FIFO entries, unresolvable symlinks, symlink
   entries, failed Add); they are stated as _refuted with witnesses that the check replays on the real code.  What holds
   for all states is stated beside them; the history-level statements for histories without those ingredients are
   PARTIAL: proved for every history of two finite families (side conditions as explicit predicates, see KqInv.v), and
   beyond the bound established by the differential runs only.
   UNBOUNDED (theories/KqHist.v, induction over the history): create_once and preexisting_silent, at the level of the
   event log and as the clauses "create-once" / "preexisting-silent" of the specification on the model's own trace, for
   EVERY history satisfying the decidable premise run_ok (and adds_ok); see the section "UNBOUNDED" below.  The other
   clauses (create-missed, recreate, remove-missed, change-missed, names-user-spelling) remain bounded. *)
From Coq Require Import NArith List String Bool.
From stdpp Require Import gmap.
From Fsn Require Import KqModel KqInv KqHist.
Import ListNotations.
Local Open Scope N_scope.
Local Open Scope string_scope.

(* create_once / preexisting_silent, state level: for a name already marked seen sendCreateIfNew sends nothing and only
   refreshes the watch; a successful call leaves a name marked seen *)
Theorem C18_create_only_if_unseen : forall s p k,
  tb_seenBefore (T s) p = true ->
  sendCreateIfNew s p k = (let '(s1, r) := internalWatch aw_entry s p k in
                           match r with RErr e => (s1, Some e) | ROk p' => (set_T (fun t => tb_markSeen t p' true) s1, None) end).
Proof. exact create_only_if_unseen. Qed.
Theorem C18_create_marks_returned_name : forall s p k s',
  sendCreateIfNew s p k = (s', None) -> closed s = false -> exists p', p' ∈ t_seen (T s').
Proof. exact create_marks_returned_name. Qed.

(* history level, tree as it is; keys: create_once fifo-entry + dangling-symlink-entry, preexisting_silent fifo-entry,
   recreate symlink-entry + rename-then-recreate-in-burst, dir_removed symlink-entry, names dangling-symlink-entry *)
Theorem C18_create_once_refuted :
  (exists h, creates "d/p" (run cfg_repo h st_init) = 2%nat /\ fails "create-once" cfg_repo h = true)
  /\ (exists h, creates "d/a" (run cfg_repo h st_init) = 2%nat /\ creates "d/b" (run cfg_repo h st_init) = 0%nat
             /\ fails "create-once" cfg_repo h = true /\ fails "create-missed" cfg_repo h = true).
Proof. exact create_once_refuted. Qed.
Theorem C18_preexisting_silent_refuted :
  exists h, creates "d/p" (run cfg_repo h st_init) = 1%nat /\ fails "preexisting-silent" cfg_repo h = true.
Proof. exact preexisting_silent_refuted. Qed.
Theorem C18_recreate_refuted :
  (exists h, evs (run cfg_repo h st_init) = [] /\ fails "recreate" cfg_repo h = true /\ fails "remove-missed" cfg_repo h = true)
  /\ (exists h, creates "d/l" (run cfg_repo h st_init) = 0%nat /\ creates "d/c" (run cfg_repo h st_init) = 1%nat /\ fails "create-missed" cfg_repo h = true).
Proof. exact recreate_refuted. Qed.
Theorem C18_dir_removed_refuted :
  exists h, rev (evs (run cfg_repo h st_init)) = [ {| e_name := "d/l"; e_op := Remove |}; {| e_name := "d/f"; e_op := Remove |}; {| e_name := "d"; e_op := Remove |} ]
            /\ fails "remove-missed" cfg_repo h = true.
Proof. exact dir_removed_refuted. Qed.

(* history level, positive, PARTIAL (bounded): every clause (create-once, preexisting-silent, create-missed, recreate,
   remove-missed, change-missed, names-user-spelling) holds on the model's trace of every history prologue ++ w with w
   any 4 steps of [alphabet], and of every burst prologue ++ hold :: w ++ [release; x] with w any 3 steps and x any step of
   [alpha_b], provided no name is created in the burst after having been renamed away (key rename-then-recreate-in-burst) *)
Theorem C18_history_clauses_bounded_plain_partial : forall w, In w (words alphabet 4) -> c18_ok (prologue ++ w) = true.
Proof. exact c18_clauses_bounded_plain_partial. Qed.
Theorem C18_history_clauses_bounded_burst_partial : forall w x,
  In (w, x) burst_family -> no_rename_recreate [] w = true -> c18_ok (prologue ++ SHold :: w ++ [SRelease; x]) = true.
Proof. exact c18_clauses_bounded_burst_partial. Qed.

(* history level, positive, UNBOUNDED (theories/KqHist.v: induction over the history, every length).
   Premise: [run_ok c h s = true], a boolean computed along the run of h from s.  It checks, in the states the reader
   actually goes through, that none of the ingredients of the known defects occurs:
     - when sendCreateIfNew has sent a Create for p, internalWatch succeeds and returns p
       (false for a FIFO entry and for an unresolvable symlink entry: keys fifo-entry, dangling-symlink-entry);
     - a Remove/Rename record belongs to a descriptor that is still watched;
     - a directory watch does not receive Write and Rename in ONE record (the reader then re-scans the directory
       INSTEAD of sending the Rename: w_dir_rename_dropped, a refutation of create-once not listed before);
     - the user does not Remove a path that is watched (keys remove-of-unadded-succeeds, entry-user-removed);
   nothing is checked once the watcher is closed.  It holds on h_plain, h_burst (C18_unbounded_nonvacuous) and is false
   on every witness that refutes create-once / preexisting-silent (C18_premise_false_on_witnesses). *)

(* create_once: between two Create events for one name there is a Remove or Rename event for that name *)
Theorem C18_create_once_unbounded : forall c h,
  run_ok c h st_init = true ->
  forall A e1 B e2 C, rev (evs (run c h st_init)) = (A ++ e1 :: B ++ e2 :: C)%list ->
    is_create e1 = true -> is_create e2 = true -> e_name e1 = e_name e2 ->
    exists e, In e B /\ e_name e = e_name e1 /\ is_end e = true.
Proof. exact create_once_unbounded. Qed.

(* the same for the events sent during h2 after an ARBITRARY history h1 (only h2 has to satisfy the premise) *)
Theorem C18_create_once_suffix_unbounded : forall c h1 h2,
  run_ok c h2 (run c h1 st_init) = true ->
  exists new, evs (run c (h1 ++ h2) st_init) = (new ++ evs (run c h1 st_init))%list /\
    forall A e1 B e2 C, rev new = (A ++ e1 :: B ++ e2 :: C)%list ->
      is_create e1 = true -> is_create e2 = true -> e_name e1 = e_name e2 ->
      exists e, In e B /\ e_name e = e_name e1 /\ is_end e = true.
Proof. exact create_once_suffix. Qed.

(* preexisting_silent: the entries a successful Add of a not yet watched directory finds get no Create before a
   Remove / Rename event for them, however long the history goes on (h1 arbitrary; no FIFO among the entries: "" unmarked) *)
Theorem C18_preexisting_silent_unbounded : forall c h1 d h2 names,
  let s1 := run c h1 st_init in
  (exists got, (api_add c s1 d).2 = ROk got) ->
  tb_byPath (T s1) (clean d) = None -> v_lstat (fs_of s1) (clean d) = inr KDir -> v_readdir (fs_of s1) (clean d) = inr names ->
  "" ∉ t_seen (T (api_add c s1 d).1) ->
  run_ok c (SAdd d :: h2) s1 = true ->
  exists new, evs (run c (h1 ++ SAdd d :: h2) st_init) = (new ++ evs s1)%list /\
    forall f, In f names ->
      forall A e C, rev new = (A ++ e :: C)%list -> is_create e = true -> e_name e = pjoin (clean d) f ->
        exists e', In e' A /\ e_name e' = pjoin (clean d) f /\ is_end e' = true.
Proof. exact preexisting_silent_unbounded. Qed.

(* … more generally every name that is marked seen when the Add returns *)
Theorem C18_seen_silent_unbounded : forall c h1 d h2,
  let s1 := run c h1 st_init in
  run_ok c (SAdd d :: h2) s1 = true ->
  exists new, evs (run c (h1 ++ SAdd d :: h2) st_init) = (new ++ evs s1)%list /\
    forall p, p ∈ t_seen (T (api_add c s1 d).1) ->
      forall A e C, rev new = (A ++ e :: C)%list -> is_create e = true -> e_name e = p ->
        exists e', In e' A /\ e_name e' = p /\ is_end e' = true.
Proof. exact preexisting_silent_seen. Qed.

(* what a successful Add of a directory marks: every entry it scans, unless a FIFO was among them *)
Theorem C18_add_marks_entries : forall c s d s' got names,
  api_add c s d = (s', ROk got) ->
  tb_byPath (T s) (clean d) = None -> v_lstat (fs_of s) (clean d) = inr KDir -> v_readdir (fs_of s) (clean d) = inr names ->
  "" ∉ t_seen (T s') ->
  forall f, In f names -> pjoin (clean d) f ∈ t_seen (T s').
Proof. exact api_add_marks. Qed.

(* the clause "create-once" of the specification (KqModel section 7), evaluated on the model's own trace, never fails *)
Theorem C18_spec_create_once_unbounded : forall c h, run_ok c h st_init = true -> fails "create-once" c h = false.
Proof. exact spec_create_once_unbounded. Qed.

(* the clause "preexisting-silent" likewise; [adds_ok]: after each successful Add every entry of the directory is marked
   seen when the step is over (C18_add_marks_entries: so it is for a directory not watched before, unless a FIFO is
   among the entries; false on the witness w_fifo_pre) *)
Theorem C18_spec_preexisting_silent_unbounded : forall c h,
  run_ok c h st_init = true -> adds_ok c h st_init = true -> fails "preexisting-silent" c h = false.
Proof. exact spec_preexisting_silent_unbounded. Qed.

(* the check that can fail for an entry: only for a FIFO, a symlink, or a name that is watched already without being marked *)
Theorem C18_premise_entry_check_characterised : forall s p k,
  v_lstat (fs_of s) p = inr k -> is_fifo k = false -> is_link k = false -> tb_byPath (T s) p = None -> clean p = p ->
  sc_ok s p k = true.
Proof. exact sc_ok_fresh. Qed.

(* every history of the two bounded families of the _partial statements above satisfies the premise *)
Theorem C18_premise_on_bounded_families :
  (forall w, In w (words alphabet 4) ->
     run_ok cfg_repo (prologue ++ w) st_init = true /\ adds_ok cfg_repo (prologue ++ w) st_init = true)
  /\ (forall w x, In (w, x) burst_family ->
        run_ok cfg_repo (prologue ++ SHold :: w ++ [SRelease; x]) st_init = true
        /\ adds_ok cfg_repo (prologue ++ SHold :: w ++ [SRelease; x]) st_init = true).
Proof. exact premise_on_bounded_families. Qed.

(* every reachable state has cleaned watch names and link names (the side condition [Cl] of the next theorem) *)
Theorem C18_reachable_names_clean : forall c h, Cl (run c h st_init).
Proof. exact Cl_run. Qed.

(* the invariant behind them, from any state with cleaned watch names: the new events contain no Create for a name
   that is marked seen in the base state or had a Create since, unless a Remove / Rename for it came in between *)
Theorem C18_history_invariant_unbounded : forall c s0 h,
  Cl s0 -> run_ok c h s0 = true ->
  exists new, evs (run c h s0) = (new ++ evs s0)%list /\ log_ok (fun p => bool_decide (p ∈ t_seen (T s0))) new = true.
Proof. exact hist_general. Qed.

(* non-vacuity and sharpness of the premise *)
Example C18_unbounded_nonvacuous :
  run_ok cfg_repo h_plain st_init = true /\ length (evs (run cfg_repo h_plain st_init)) = 22%nat
  /\ run_ok cfg_repo h_burst st_init = true /\ length (evs (run cfg_repo h_burst st_init)) = 9%nat
  /\ run_ok cfg_before_fix h_plain st_init = true.
Proof. exact run_ok_examples. Qed.

Example C18_preexisting_premises_satisfiable :
  let h1 := [SFs (OMkdir "d"); SFs (OCreate "d/pre"); SFs (OMkdir "d/sub")] in
  let h2 := [SFs (OCreate "d/a"); SHold; SFs (OUnlink "d/pre"); SFs (OCreate "d/pre"); SRelease; SFs (ORmdir "d/sub"); SFs (OWrite "d/pre")] in
  let s1 := run cfg_repo h1 st_init in
  (api_add cfg_repo s1 "./d/").2 = ROk "d" /\ tb_byPath (T s1) (clean "./d/") = None
  /\ v_lstat (fs_of s1) (clean "./d/") = inr KDir /\ v_readdir (fs_of s1) (clean "./d/") = inr ["pre"; "sub"]
  /\ bool_decide ("" ∈ t_seen (T (api_add cfg_repo s1 "./d/").1)) = false
  /\ run_ok cfg_repo (SAdd "./d/" :: h2) s1 = true
  /\ rev (evs (run cfg_repo (h1 ++ SAdd "./d/" :: h2) st_init))
      = [ {| e_name := "d/a"; e_op := Create |}; {| e_name := "d/pre"; e_op := Remove |}; {| e_name := "d/pre"; e_op := Create |};
          {| e_name := "d/sub"; e_op := Remove |}; {| e_name := "d/pre"; e_op := Write |} ].
Proof. vm_compute. repeat split; reflexivity. Qed.

Example C18_premise_false_on_witnesses :
  run_ok cfg_repo w_fifo_entry st_init = false
  /\ run_ok cfg_repo w_dangling st_init = false
  /\ run_ok cfg_repo w_fifo_pre st_init = false
  /\ run_ok cfg_repo w_failed_add st_init = false
  /\ run_ok cfg_repo w_remove_unadded st_init = false
  /\ run_ok cfg_repo w_entry_user_removed st_init = false
  /\ run_ok cfg_repo w_dir_rename_dropped st_init = false
  /\ run_ok cfg_repo w_remove_entry_recreated st_init = false.
Proof. exact run_ok_false_on_witnesses. Qed.

Example C18_fifo_pre_marks_empty_name :
  let s := run cfg_repo [SFs (OMkdir "d"); SFs (OMkfifo "d/p"); SAdd "d"] st_init in
  "" ∈ t_seen (T s) /\ "d/p" ∉ t_seen (T s).
Proof. exact fifo_pre_marks_empty_name. Qed.

(* create-once at the level of the log is FALSE without the premise: the four ingredients, one witness each
   (w_dir_rename_dropped: p/d is user-watched, written and renamed away in one burst; the Rename is never reported) *)
Example C18_create_once_log_refuted :
  (rev (evs (run cfg_repo w_dir_rename_dropped st_init))
     = [ {| e_name := "p/d"; e_op := Create |}; {| e_name := "p/e"; e_op := Create |}; {| e_name := "p/d"; e_op := Create |} ]
   /\ log_ok (fun _ => false) (evs (run cfg_repo w_dir_rename_dropped st_init)) = false
   /\ fails "remove-missed" cfg_repo w_dir_rename_dropped = true)
  /\ (rev (evs (run cfg_repo w_remove_entry_recreated st_init))
        = [ {| e_name := "d/x"; e_op := Create |}; {| e_name := "d/x"; e_op := Create |}; {| e_name := "d/y"; e_op := Create |} ]
      /\ log_ok (fun _ => false) (evs (run cfg_repo w_remove_entry_recreated st_init)) = false)
  /\ log_ok (fun _ => false) (evs (run cfg_repo w_fifo_entry st_init)) = false
  /\ log_ok (fun _ => false) (evs (run cfg_repo w_dangling st_init)) = false.
Proof. exact create_once_log_refuted. Qed.

Example C18_adds_ok_examples :
  adds_ok cfg_repo h_plain st_init = true /\ adds_ok cfg_repo h_burst st_init = true
  /\ adds_ok cfg_repo w_fifo_pre st_init = false
  /\ fails "preexisting-silent" cfg_repo h_plain = false /\ fails "preexisting-silent" cfg_repo w_fifo_pre = true.
Proof. exact adds_ok_examples. Qed.

(* Remove by the user has to be excluded also for a path the user had added: the specification's own clauses fail
   (same ingredient as key entry-user-removed, other symptom: a second Create / a Create for a pre-existing entry) *)
Example C18_user_remove_refutes :
  (rev (evs (run cfg_repo w_entry_removed_created_again st_init))
     = [ {| e_name := "p/d"; e_op := Create |}; {| e_name := "p/d"; e_op := Create |}; {| e_name := "p/x"; e_op := Create |} ]
   /\ fails "create-once" cfg_repo w_entry_removed_created_again = true
   /\ run_ok cfg_repo w_entry_removed_created_again st_init = false)
  /\ (rev (evs (run cfg_repo w_pre_entry_removed_created st_init))
        = [ {| e_name := "p/f"; e_op := Create |}; {| e_name := "p/x"; e_op := Create |} ]
      /\ fails "preexisting-silent" cfg_repo w_pre_entry_removed_created = true
      /\ run_ok cfg_repo w_pre_entry_removed_created st_init = false).
Proof. exact user_remove_refutes. Qed.

(* the witnesses of the other clauses (keys symlink-entry, rename-then-recreate-in-burst) satisfy the premise, and
   create-once holds on them *)
Example C18_premise_on_other_witnesses :
  run_ok cfg_repo w_link_entry st_init = true /\ run_ok cfg_repo w_dir_removed st_init = true /\ run_ok cfg_repo w_burst st_init = true
  /\ fails "create-once" cfg_repo w_link_entry = false /\ fails "create-once" cfg_repo w_dir_removed = false
  /\ fails "create-once" cfg_repo w_burst = false.
Proof. exact run_ok_other_witnesses. Qed.

(* names: link name substitution *)
Theorem C18_names_user_spelling : forall name link mask,
  e_name (newEvent name link mask) = if String.eqb link "" then name else link.
Proof. exact names_user_spelling. Qed.
Theorem C18_names_user_spelling_refuted :
  exists h, api_list (run cfg_repo h st_init) = [] /\ fails "names-user-spelling" cfg_repo h = true.
Proof. exact names_user_spelling_refuted. Qed.

(* the invariant the reader relies on holds whatever records arrive *)
Theorem C18_kq_inv_handle : forall c s r, KqInv s -> KqInv (handle c s r).
Proof. exact kq_inv_handle. Qed.

(* non-vacuity: 22 events over pre-existing entries, bursts, name re-use, overwrite by rename, removal of the directory:
   every clause of the specification holds on the model's trace *)
Example C18_example : spec_of_model cfg_repo h_plain = [] /\ length (evs (run cfg_repo h_plain st_init)) = 22%nat.
Proof. exact plain_history_meets_spec. Qed.

Print Assumptions C18_create_only_if_unseen.
Print Assumptions C18_create_marks_returned_name.
Print Assumptions C18_create_once_refuted.
Print Assumptions C18_preexisting_silent_refuted.
Print Assumptions C18_recreate_refuted.
Print Assumptions C18_dir_removed_refuted.
Print Assumptions C18_history_clauses_bounded_plain_partial.
Print Assumptions C18_history_clauses_bounded_burst_partial.
Print Assumptions C18_names_user_spelling.
Print Assumptions C18_names_user_spelling_refuted.
Print Assumptions C18_kq_inv_handle.
Print Assumptions C18_create_once_unbounded.
Print Assumptions C18_create_once_suffix_unbounded.
Print Assumptions C18_preexisting_silent_unbounded.
Print Assumptions C18_seen_silent_unbounded.
Print Assumptions C18_add_marks_entries.
Print Assumptions C18_spec_create_once_unbounded.
Print Assumptions C18_history_invariant_unbounded.
Print Assumptions C18_spec_preexisting_silent_unbounded.
Print Assumptions C18_premise_entry_check_characterised.
Print Assumptions C18_premise_on_bounded_families.
Print Assumptions C18_reachable_names_clean.
