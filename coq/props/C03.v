(* C03 — events are delivered in the order the kernel reported them.  Statements only.
   (The channel part — FIFO for every capacity and consumer pace — is in Conc.v / props C14.) *)
From stdpp Require Import gmap strings list.
From Fsn Require Import PathLex Bytes Tables Doc Watcher System Spec SpecDefs Refine SpecInv SpecStream RingProofs Transfer.
Local Open Scope N_scope.

(* the kernel queue is popped only at its head and pushed only at its tail *)
Theorem C03_queue_fifo : forall a st, exists gained,
  kq (sK (spec_step a st).1) = (match st with SHandle _ => tail (kq (sK a)) | _ => kq (sK a) end) ++ gained.
Proof. exact queue_fifo. Qed.

(* the delivered log grows only by appending the output of the record at the HEAD of the queue *)
Theorem C03_log_in_queue_order : forall a st, let a' := (spec_step a st).1 in
  (shandled a' = shandled a /\ souts a' = souts a) \/
  (exists r q, shandled a' = shandled a ++ [r] /\ souts a' = souts a ++ handle_outs a r q /\
     ((exists d, st = SInject r d /\ q = kq (sK a)) \/ (exists d, st = SHandle d /\ kq (sK a) = r :: q))).
Proof. exact step_log_strong. Qed.

Theorem C03_earlier_output_is_never_disturbed : forall h a, souts a `prefix_of` souts (spec_run h a).1.
Proof. exact run_outs_prefix. Qed.

(* a move between two listed names: Rename of the old name, then Create of the new name carrying the old one *)
Theorem C03_rename_pair : forall R pre old mfrom c mid new mto post,
  ring_wf R -> (forall s, s ∈ rg R -> s.1 <> c) -> c <> 0 -> is_from mfrom = true -> is_to mto = true ->
  (forall r, r ∈ pre ++ mid -> r.2 = c -> is_from r.1.2 = false) -> (nstores mid < ring_len)%nat ->
  let out := (ring_run R (pre ++ [(old, mfrom, c)] ++ mid ++ [(new, mto, c)] ++ post)).2 in
  length out = (length pre + 1 + length mid + 1 + length post)%nat /\
  out !! length pre = Some (old, translate mfrom, ""%string) /\ has_any (translate mfrom) Rename = true /\
  out !! (length pre + 1 + length mid)%nat = Some (new, translate mto, old) /\ has_any (translate mto) Create = true.
Proof. exact C11_window. Qed.

Theorem C03_model_log_is_spec_log : forall cfg h, history_ok cfg h ->
  outs (run cfg h init_sys).1 = souts (spec_run h init_spec).1 /\
  handled (run cfg h init_sys).1 = shandled (spec_run h init_spec).1.
Proof. exact impl_outs. Qed.

Example C03_example :
  let h := [SAdd "d" 31 false [("d"%string, (inr 7, inr 7))];
            KEmit (mkRaw 1 256 0 16 "f"); KEmit (mkRaw 1 2 0 16 "f"); KEmit (mkRaw 1 512 0 16 "f");
            SHandle []; SHandle []; SHandle []] in
  ev_list (souts (spec_run h init_spec).1) = [("d/f"%string, 1, ""%string); ("d/f"%string, 2, ""%string); ("d/f"%string, 4, ""%string)].
Proof. vm_compute. reflexivity. Qed.

Print Assumptions C03_queue_fifo.
Print Assumptions C03_log_in_queue_order.
Print Assumptions C03_earlier_output_is_never_disturbed.
Print Assumptions C03_rename_pair.
Print Assumptions C03_model_log_is_spec_log.
