(* C08 — event names are spelled relative to the caller's Add argument.  Statements only. *)
From Coq Require Import NArith List.
From Fsn Require Import Bytes BytesProofs.
From stdpp Require Import gmap strings list.
From Fsn Require Import PathLex Tables Doc Watcher System Spec SpecDefs Refine SpecInv SpecStream SpecWatchSet Transfer.
From Fsn Require PathLexProofs PathLexMore.
Local Open Scope N_scope.

(* an event is named after the stored spelling of its watch: that spelling itself for the watched path, spelling + "/" +
   entry name for directory entries *)
Theorem C08_event_name : forall a r q n op f,
  (n, op, f) ∈ ev_list (handle_outs a r q) ->
  exists x, sA a !! r_wd r = Some x /\ op = translate (r_mask r) /\ op <> 0 /\
    n = (if r_len r =? 0 then a_path x else a_path x +:+ "/" +:+ r_name r) /\
    has_any (r_mask r) IN_IGNORED = false /\ has_any (r_mask r) IN_UNMOUNT = false.
Proof. exact handle_event_shape. Qed.

(* the stored spelling is always the cleaned argument of some Add of the history: the resolved link target never
   enters the state *)
Theorem C08_spelling_is_an_add_argument : forall h wd x,
  sA (spec_run h init_spec).1 !! wd = Some x -> a_path x ∈ add_args h.
Proof. exact paths_are_add_arguments_init. Qed.
Theorem C08_spelling_is_an_add_argument_model : forall cfg h, history_ok cfg h ->
  forall wd x, t_wd (W (run cfg h init_sys).1) !! wd = Some x -> w_path x ∈ add_args h.
Proof. exact impl_paths_are_add_arguments. Qed.

(* when several names of one file are added, the first one stays *)
Theorem C08_first_spelling_wins : forall k A p f res k1 wd x,
  find_path A p = None -> add_watch k (pick_res f res) = (k1, inr wd) -> A !! wd = Some x ->
  spec_add_core k A p f res = (k1, A, RNil).
Proof. exact add_alias_noop. Qed.

(* the entry name is exactly the kernel's: all NUL padding is removed and nothing else, for every padding length *)
Theorem C08_trim_exact : forall (n : list byte) k,
  forallb (fun b => negb (b =? 0)%N) n = true -> trim_nul (n ++ repeat 0%N k) = n.
Proof. exact trim_exact. Qed.
Theorem C08_name_roundtrip : forall r pad rest, raw_wf r = true -> legal_pad r pad = true ->
  decode_one (Bytes.encode r pad ++ rest) = Some (r, rest).
Proof. exact decode_one_encode. Qed.

(* shape of cleaned arguments *)
Theorem C08_clean_no_double_slash : forall p, ~ (exists a b, clean p = (a ++ "//" ++ b)%string).
Proof. exact PathLexProofs.clean_no_double_slash. Qed.
Theorem C08_clean_no_trailing_slash : forall p, clean p <> "/"%string -> ~ (exists a, clean p = (a ++ "/")%string).
Proof. exact PathLexProofs.clean_no_trailing_slash. Qed.

(* redundant spellings of one argument are stored — hence reported — alike: "./" prefix, trailing "/", "d/../" detour *)
Theorem C08_dot_slash_invisible : forall p, p <> ""%string -> rooted p = false -> clean ("./" ++ p)%string = clean p.
Proof. exact PathLexMore.clean_dot_slash. Qed.
Theorem C08_trailing_slash_invisible : forall p, p <> ""%string -> clean (p ++ "/")%string = clean p.
Proof. exact PathLexProofs.clean_trailing_slash. Qed.
Theorem C08_detour_invisible : forall d p,
  PathLexProofs.no_slash d -> d <> ""%string -> d <> "."%string -> d <> ".."%string -> p <> ""%string -> rooted p = false ->
  clean (d ++ "/../" ++ p)%string = clean p.
Proof. exact PathLexMore.clean_detour. Qed.
Theorem C08_double_slash_invisible : forall a b, clean (a ++ "//" ++ b)%string = clean (a ++ "/" ++ b)%string.
Proof. exact PathLexMore.clean_double_slash. Qed.
Theorem C08_dot_component_invisible : forall a b, clean (a ++ "/./" ++ b)%string = clean (a ++ "/" ++ b)%string.
Proof. exact PathLexMore.clean_dot_component. Qed.
Theorem C08_trailing_dot_invisible : forall p, p <> ""%string -> clean (p ++ "/.")%string = clean p.
Proof. exact PathLexMore.clean_trailing_dot. Qed.
Theorem C08_clean_idempotent : forall p, clean (clean p) = clean p.
Proof. exact PathLexProofs.clean_idem. Qed.
Example C08_spellings_example :
  clean "./d//sub/../" = "d"%string /\ clean "d/../d/" = "d"%string /\ clean "./d/" = "d"%string.
Proof. vm_compute. auto. Qed.

Example C08_example :
  let h := [SAdd "./d//sub/../" 31 false [("d"%string, (inr 7, inr 7))];
            KEmit (mkRaw 1 256 0 16 "0123456789abcdef"); SHandle []] in
  ev_list (souts (spec_run h init_spec).1) = [("d/0123456789abcdef"%string, 1, ""%string)].
Proof. vm_compute. reflexivity. Qed.

Print Assumptions C08_event_name.
Print Assumptions C08_spelling_is_an_add_argument.
Print Assumptions C08_spelling_is_an_add_argument_model.
Print Assumptions C08_first_spelling_wins.
Print Assumptions C08_trim_exact.
Print Assumptions C08_name_roundtrip.
Print Assumptions C08_clean_no_double_slash.
Print Assumptions C08_clean_no_trailing_slash.
Print Assumptions C08_dot_slash_invisible.
Print Assumptions C08_trailing_slash_invisible.
Print Assumptions C08_detour_invisible.
Print Assumptions C08_clean_idempotent.
Print Assumptions C08_double_slash_invisible.
Print Assumptions C08_dot_component_invisible.
Print Assumptions C08_trailing_dot_invisible.
