(* Spec.v — the abstract specification the inotify backend is proved to refine (non-recursive watches).
   ONE map: kernel watch descriptor -> the cleaned spelling under which that file was first added (plus the flags the
   next inotify_add_watch will carry).  No second table, no in-place mutation, no "existing entry" plumbing.
   Kept short on purpose: this is the part a reader has to agree with. *)
From stdpp Require Import gmap strings list.
From Fsn Require Import PathLex Bytes Tables Doc Watcher System.
Local Open Scope N_scope.

Record aw := mkAw { a_path : string; a_flags : N }.
Record spec := mkSpec {
  sK : kernel;
  sA : gmap N aw;                 (* watched files: wd -> first spelling *)
  sR : ringst;                    (* the last [ring_len] move-outs *)
  souts : list output;
  shandled : list raw;
}.
Definition init_spec : spec := mkSpec init_k ∅ init_ring [] [].

(* the wd under which a path is listed, if any *)
Definition find_path (A : gmap N aw) (p : string) : option N :=
  fst <$> head (filter (λ e, bool_decide (a_path e.2 = p)) (map_to_list A)).
Definition listed (A : gmap N aw) (p : string) : Prop := ∃ wd x, A !! wd = Some x ∧ a_path x = p.
Definition spec_list (A : gmap N aw) : list string := a_path <$> (map_to_list A).*2.

(* Add(path): resolve; error => nothing changes; the file is already watched => nothing changes (first spelling wins);
   the path is listed but names another file now => its watch moves there and the old kernel watch is released. *)
Definition spec_add_core (k : kernel) (A : gmap N aw) (path : string) (flags : N) (res : resolution)
  : kernel * gmap N aw * api_result :=
  let ex := find_path A path in
  let flags' := match ex ≫= (λ wd, A !! wd) with
                | Some x => N.lor flags (N.lor (a_flags x) IN_MASK_ADD) | None => flags end in
  let '(K1, r) := add_watch k (pick_res flags' res) in
  match r with
  | inl e => (K1, A, RErr (ErrNo e))
  | inr wd =>
    let '(K2, A1) := match ex with
                     | Some wd0 => if wd0 =? wd then (K1, A) else (fst (rm_watch K1 wd0), delete wd0 A)
                     | None => (K1, A)
                     end in
    let A2 := match A1 !! wd with
              | Some _ => A1                                     (* that file is watched already *)
              | None => <[wd := mkAw path flags']> A1
              end in
    (K2, A2, RNil)
  end.
Definition spec_add (s : spec) (path : string) (flags : N) (res : resolution) : spec * api_result :=
  let '(k, A, r) := spec_add_core (sK s) (sA s) path flags res in (mkSpec k A (sR s) (souts s) (shandled s), r).

(* Remove(path) *)
Definition spec_remove_core (k : kernel) (A : gmap N aw) (path : string) : kernel * gmap N aw * api_result :=
  match find_path A path with
  | None => (k, A, RErr ErrNonExistentWatch)
  | Some wd =>
    let '(K1, e) := rm_watch k wd in
    (K1, delete wd A, match e with Some x => RErr (ErrNo x) | None => RNil end)
  end.
Definition spec_remove (s : spec) (path : string) : spec * api_result :=
  let '(k, A, r) := spec_remove_core (sK s) (sA s) path in (mkSpec k A (sR s) (souts s) (shandled s), r).

(* the watched path itself was deleted or moved away: the watch ends; for a move the kernel watch is released *)
Definition spec_end_of_watch (K0 : kernel) (A : gmap N aw) (wd : N) (mask : N) : kernel * gmap N aw :=
  let ends := has_all mask IN_DELETE_SELF || has_all mask IN_MOVE_SELF in
  (if has_all mask IN_MOVE_SELF && negb (has_all mask IN_DELETE_SELF) then fst (rm_watch K0 wd) else K0,
   if ends then delete wd A else A).

(* the event for a notification: named after the first spelling (plus the entry name), documented operations,
   old name by cookie; a deleted path whose parent directory is listed is reported by the parent *)
Definition spec_deliver (A1 : gmap N aw) (R : ringst) (x : aw) (r : raw) (name : string) : ringst * list output :=
  if has_any (r_mask r) IN_DELETE_SELF && bool_decide (is_Some (find_path A1 (dir (a_path x))))
  then (R, [])
  else let '(R1, ev) := new_event R name (r_mask r) (r_cookie r) in (R1, ev_out ev).

(* the reader handles one notification; [queue] is what remains queued behind it *)
Definition spec_handle (s : spec) (r : raw) (queue : list raw) : spec :=
  let mask := r_mask r in
  let K0 := mkK (marks (sK s)) (next_wd (sK s)) queue in
  let pre := if has_any mask IN_Q_OVERFLOW then [OErr ErrEventOverflow] else [] in
  let fin K A R o := mkSpec K A R (souts s ++ pre ++ o) (shandled s ++ [r]) in
  match sA s !! r_wd r with
  | None => fin K0 (sA s) (sR s) []                               (* no such watch (any more): nothing to report *)
  | Some x =>
    let name := if r_len r =? 0 then a_path x else a_path x +:+ "/" +:+ r_name r in
    if has_any mask IN_IGNORED || has_any mask IN_UNMOUNT
    then fin K0 (delete (r_wd r) (sA s)) (sR s) []                (* kernel housekeeping: the watch has ended *)
    else
      let '(K1, A1) := spec_end_of_watch K0 (sA s) (r_wd r) mask in
      let '(R1, o) := spec_deliver A1 (sR s) x r name in
      fin K1 A1 R1 o
  end.

Definition spec_step (s : spec) (st : step) : spec * api_result :=
  match st with
  | SAdd arg ops nofollow walk =>
    match walk with
    | (_, res) :: _ => spec_add s (clean arg) (request_flags ops nofollow) res
    | [] => (s, RErr (ErrNo ENOENT))
    end
  | SRemove arg => spec_remove s (clean arg)
  | SList => (s, RList (spec_list (sA s)))
  | KEmit r => (mkSpec (k_emit (sK s) r) (sA s) (sR s) (souts s) (shandled s), RNil)
  | KRelease wd ds =>
    (mkSpec (mkK (delete wd (marks (sK s))) (next_wd (sK s))
                 (kq (sK s) ++ (if ds then [delete_self_rec wd] else []) ++ [ignored_rec wd]))
            (sA s) (sR s) (souts s) (shandled s), RNil)
  | KOverflow => (mkSpec (k_emit (sK s) overflow_rec) (sA s) (sR s) (souts s) (shandled s), RNil)
  | SHandle _ =>
    match kq (sK s) with
    | [] => (s, RNil)
    | r :: q => (spec_handle s r q, RNil)
    end
  | SInject r _ => (spec_handle s r (kq (sK s)), RNil)
  end.

Fixpoint spec_run (h : list step) (s : spec) : spec * list api_result :=
  match h with
  | [] => (s, [])
  | st :: h' => let '(s1, r) := spec_step s st in
                let '(s2, rs) := spec_run h' s1 in (s2, r :: rs)
  end.
