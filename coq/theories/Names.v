(* Names.v — Op.Has / Op.String / Event.String: code-shaped model, specification,
   and the generic theorems instantiated on coq/gen/GenNames.v.  Stdlib only. *)
From Coq Require Import NArith List Bool Lia String Ascii.
From Fsn Require Import Bits.
Import ListNotations.
Local Open Scope string_scope.
Local Open Scope N_scope.

(* strings are generated as byte lists *)
Definition bytes_to_string (l : list N) : string :=
  fold_right (fun b s => String (ascii_of_N b) s) EmptyString l.

(* ---------- Has ---------- *)
Inductive hasexpr := HAndNe0 (* o&h != 0 *) | HAndEqH (* o&h == h *) | HUnrecognised (src : string).
Definition has_eval (e : hasexpr) (o h : N) : bool :=
  match e with
  | HAndNe0 => negb (N.land o h =? 0)
  | HAndEqH => N.land o h =? h
  | HUnrecognised _ => false
  end.
Definition has (o h : N) : bool := has_eval HAndNe0 o h.

Theorem has_iff_intersect o h :
  has o h = true <-> exists i, N.testbit o i = true /\ N.testbit h i = true.
Proof.
  unfold has, has_eval. rewrite negb_true_iff, N.eqb_neq. split.
  - intro Hne. destruct (N.land o h) as [|p] eqn:E; [congruence|].
    assert (Hex : exists i, N.testbit (N.land o h) i = true).
    { rewrite E. exists (N.log2 (Npos p)). apply N.bit_log2. discriminate. }
    destruct Hex as [i Hi]. rewrite N.land_spec in Hi. apply andb_prop in Hi. exists i. exact Hi.
  - intros [i [Ho Hh]] E.
    assert (N.testbit (N.land o h) i = true) by (rewrite N.land_spec, Ho, Hh; reflexivity).
    rewrite E in H. rewrite N.bits_0 in H. discriminate.
Qed.

Lemma has_land_restrict o h d : N.land d h = h -> has o h = has (N.land o d) h.
Proof. intro H. unfold has, has_eval. rewrite (land_restrict o d h H). reflexivity. Qed.

(* ---------- Op.String ---------- *)
Definition names := list (N * string).

Fixpoint join (sep : string) (l : list string) : string :=
  match l with
  | [] => ""
  | [x] => x
  | x :: l' => x ++ sep ++ join sep l'
  end.

Definition present (ns : names) (o : N) : list string :=
  map snd (filter (fun bn => has o (fst bn)) ns).

(* specification: the names of the defined operations present, in table order,
   joined by the separator; the empty text when none is present *)
Definition op_string (ns : names) (empty sep : string) (o : N) : string :=
  match present ns o with [] => empty | l => join sep l end.

(* code-shaped model: append the row text for every bit present, then either
   return the empty text or drop [strip] characters from the front *)
Fixpoint drop (n : nat) (s : string) : string :=
  match n, s with O, _ => s | S n', String _ s' => drop n' s' | S _, EmptyString => EmptyString end.

Definition code_buffer (rows : names) (o : N) : string :=
  fold_right (fun bn acc => (if has o (fst bn) then snd bn else "") ++ acc) "" rows.

Definition code_string (rows : names) (empty : string) (strip : nat) (o : N) : string :=
  let b := code_buffer rows o in
  if Nat.eqb (String.length b) 0 then empty else drop strip b.

Definition rows_of (sep : string) (ns : names) : names := map (fun bn => (fst bn, sep ++ snd bn)) ns.

Lemma drop_app s t : drop (String.length s) (s ++ t) = t.
Proof. induction s as [|c s IH]; cbn; [reflexivity|exact IH]. Qed.

Lemma append_assoc (a b c : string) : (a ++ b) ++ c = a ++ (b ++ c).
Proof. induction a as [|x a IH]; cbn; [reflexivity| rewrite IH; reflexivity]. Qed.

Lemma append_nil_r (a : string) : a ++ "" = a.
Proof. induction a as [|x a IH]; cbn; [reflexivity| rewrite IH; reflexivity]. Qed.

Lemma length_append (a b : string) : String.length (a ++ b) = (String.length a + String.length b)%nat.
Proof. induction a as [|x a IH]; cbn; [reflexivity| rewrite IH; reflexivity]. Qed.

Definition prefixed (sep : string) (l : list string) : string :=
  fold_right (fun x acc => (sep ++ x) ++ acc) "" l.

Lemma code_buffer_rows sep ns o :
  code_buffer (rows_of sep ns) o = prefixed sep (present ns o).
Proof.
  induction ns as [|[b n] ns IH]; [reflexivity|].
  change (code_buffer (rows_of sep ((b, n) :: ns)) o)
    with ((if has o b then sep ++ n else "") ++ code_buffer (rows_of sep ns) o).
  rewrite IH. unfold present. cbn [filter fst snd].
  destruct (has o b); reflexivity.
Qed.

Lemma prefixed_join sep x l : prefixed sep (x :: l) = sep ++ join sep (x :: l).
Proof.
  revert x. induction l as [|y l IH]; intro x.
  - cbn. rewrite !append_nil_r. reflexivity.
  - change (prefixed sep (x :: y :: l)) with ((sep ++ x) ++ prefixed sep (y :: l)).
    rewrite IH. change (join sep (x :: y :: l)) with (x ++ sep ++ join sep (y :: l)).
    rewrite append_assoc. reflexivity.
Qed.

(* the code computes the specification, whatever the set of names *)
Theorem string_exact sep ns empty o : (0 < String.length sep)%nat ->
  code_string (rows_of sep ns) empty (String.length sep) o = op_string ns empty sep o.
Proof.
  intro Hsep. unfold code_string, op_string. rewrite code_buffer_rows.
  destruct (present ns o) as [|x l] eqn:E.
  - reflexivity.
  - rewrite prefixed_join, length_append.
    destruct (String.length sep) eqn:L; [lia|].
    cbn [Nat.add Nat.eqb]. rewrite <- L. apply drop_app.
Qed.

(* the defined bits *)
Definition defined (ns : names) : N := fold_right (fun bn acc => N.lor (fst bn) acc) 0 ns.

Lemma defined_in ns b n : In (b, n) ns -> N.land (defined ns) b = b.
Proof.
  induction ns as [|[b' n'] ns IH]; cbn; [tauto|]. intros [E|Hin].
  - inversion E; subst. apply land_lor_absorb_l.
  - eapply land_sub_trans; [apply (IH Hin)| apply land_lor_absorb_r].
Qed.

Lemma present_restrict ns0 ns o : (forall b n, In (b, n) ns -> In (b, n) ns0) ->
  present ns o = present ns (N.land o (defined ns0)).
Proof.
  unfold present. induction ns as [|[b n] ns IH]; intro Hsub; [reflexivity|].
  cbn [filter fst snd].
  assert (E : has o b = has (N.land o (defined ns0)) b).
  { apply has_land_restrict. apply (defined_in ns0 b n), Hsub. left. reflexivity. }
  rewrite <- E.
  assert (IH' : map snd (filter (fun bn => has o (fst bn)) ns) =
                map snd (filter (fun bn => has (N.land o (defined ns0)) (fst bn)) ns)).
  { apply IH. intros; apply Hsub; right; assumption. }
  destruct (has o b); cbn [map]; rewrite IH'; reflexivity.
Qed.

(* undefined bits never alter the text *)
Theorem undefined_bits_ignored ns empty sep o :
  op_string ns empty sep o = op_string ns empty sep (N.land o (defined ns)).
Proof. unfold op_string. rewrite <- (present_restrict ns ns o); auto. Qed.

(* injectivity on the defined bits by a finite sweep over the 2^|names| subsets *)
Fixpoint all_distinct (l : list string) : bool :=
  match l with
  | [] => true
  | x :: l' => forallb (fun y => negb (String.eqb x y)) l' && all_distinct l'
  end.

Lemma all_distinct_inj {A} (f : A -> string) (l : list A) :
  all_distinct (map f l) = true -> NoDup l ->
  forall x y, In x l -> In y l -> f x = f y -> x = y.
Proof.
  induction l as [|a l IH]; cbn; [tauto|].
  intros H ND x y Hx Hy E. apply andb_prop in H as [Ha Hl]. inversion ND as [|? ? Hnin ND']; subst.
  rewrite forallb_forall in Ha.
  destruct Hx as [->|Hx], Hy as [->|Hy]; auto.
  - exfalso. specialize (Ha (f y) (in_map f l y Hy)). rewrite E, String.eqb_refl in Ha. discriminate.
  - exfalso. specialize (Ha (f x) (in_map f l x Hx)). rewrite <- E, String.eqb_refl in Ha. discriminate.
Qed.

Fixpoint nodupb (l : list N) : bool :=
  match l with [] => true | x :: l' => forallb (fun y => negb (x =? y)) l' && nodupb l' end.
Lemma nodupb_NoDup l : nodupb l = true -> NoDup l.
Proof.
  induction l as [|a l IH]; cbn; intro H; constructor.
  - apply andb_prop in H as [Ha _]. rewrite forallb_forall in Ha. intro Hin.
    specialize (Ha a Hin). rewrite N.eqb_refl in Ha. discriminate.
  - apply IH. apply andb_prop in H as [_ H]. exact H.
Qed.

Definition renderings_distinct (ns : names) (empty sep : string) : bool :=
  nodupb (submasks (defined ns)) &&
  all_distinct (map (op_string ns empty sep) (submasks (defined ns))).

Theorem string_injective ns empty sep : renderings_distinct ns empty sep = true ->
  forall o1 o2, N.land o1 (defined ns) <> N.land o2 (defined ns) ->
  op_string ns empty sep o1 <> op_string ns empty sep o2.
Proof.
  unfold renderings_distinct. intros H o1 o2 Hne E. apply andb_prop in H as [Hnd Hd].
  apply Hne.
  rewrite (undefined_bits_ignored ns empty sep o1), (undefined_bits_ignored ns empty sep o2) in E.
  exact (all_distinct_inj (op_string ns empty sep) _ Hd (nodupb_NoDup _ Hnd) _ _
           (submasks_complete _ _) (submasks_complete _ _) E).
Qed.

(* exactly the names of the operations present, each at most once *)
Theorem present_exact ns o n :
  In n (present ns o) <-> exists b, In (b, n) ns /\ has o b = true.
Proof.
  unfold present. rewrite in_map_iff. split.
  - intros [[b n'] [E Hin]]. cbn in E. subst n'. apply filter_In in Hin as [Hin Hh]. exists b. split; assumption.
  - intros [b [Hin Hh]]. exists (b, n). split; [reflexivity|]. apply filter_In. split; assumption.
Qed.

Lemma NoDup_map_filter {A B} (f : A -> B) (p : A -> bool) (l : list A) :
  NoDup (map f l) -> NoDup (map f (filter p l)).
Proof.
  induction l as [|a l IH]; cbn; intro H; [constructor|].
  inversion H as [|? ? Hnin ND]; subst. destruct (p a); cbn; [constructor|]; auto.
  intro Hin. apply Hnin. apply in_map_iff in Hin as [x [E Hx]]. apply filter_In in Hx as [Hx _].
  rewrite <- E. apply in_map. exact Hx.
Qed.

Theorem present_once ns o : NoDup (map snd ns) -> NoDup (present ns o).
Proof. apply NoDup_map_filter. Qed.

(* ---------- Event.String ---------- *)
(* [q] stands for Go's %q (strconv.Quote): the theorem holds for every quoting function. *)
Section EventString.
  Variable q : string -> string.

  Fixpoint spaces (n : nat) : string := match n with O => "" | S n' => String " " (spaces n') end.
  Definition pad_right (w : nat) (s : string) : string := s ++ spaces (w - String.length s).

  Definition arrow : string := bytes_to_string [226; 134; 144].   (* U+2190 in UTF-8 *)

  Definition event_string (ns : names) (empty sep : string) (name : string) (op : N) (from : string) : string :=
    let head := pad_right 13 (op_string ns empty sep op) ++ " " ++ q name in
    if Nat.eqb (String.length from) 0 then head else head ++ " " ++ arrow ++ " " ++ q from.

  Theorem event_string_shape ns empty sep name op from :
    event_string ns empty sep name op from =
      pad_right 13 (op_string ns empty sep op) ++ " " ++ q name ++
      (match from with EmptyString => "" | _ => " " ++ arrow ++ " " ++ q from end).
  Proof.
    unfold event_string. destruct from as [|c f]; cbn [String.length Nat.eqb].
    - rewrite append_nil_r. reflexivity.
    - rewrite !append_assoc. reflexivity.
  Qed.
End EventString.
