(* Bytes.v — the read-buffer layout of inotify and the decode loop of readEvents
   (backend_inotify.go: `for offset <= uint32(n-SizeofInotifyEvent)` … `offset += SizeofInotifyEvent + Len`),
   with the name slicing and NUL trimming of handleEvent.  Executable; proofs in BytesProofs.v. *)
From Coq Require Import NArith List String Ascii Bool Arith Lia.
Import ListNotations.
Local Open Scope N_scope.

Definition byte := N.            (* 0..255 *)
Definition hdr_len : nat := 16.

(* one inotify_event as the reader sees it: [r_len] is the raw length field (name + padding) *)
Record raw := mkRaw { r_wd : N; r_mask : N; r_cookie : N; r_len : N; r_name : string }.

Definition le32 (x : N) : list byte :=
  [x mod 256; (x / 256) mod 256; (x / 65536) mod 256; (x / 16777216) mod 256].

Definition rd32 (l : list byte) : N :=
  match l with
  | a :: b :: c :: d :: _ => a + 256 * b + 65536 * c + 16777216 * d
  | _ => 0
  end.

Definition bytes_of_string (s : string) : list byte := map N_of_ascii (list_ascii_of_string s).
Definition string_of_bytes (l : list byte) : string := string_of_list_ascii (map ascii_of_N l).

(* strings.TrimRight(s, "\x00") on bytes *)
Fixpoint trim_nul_rev (l : list byte) : list byte :=
  match l with 0 :: l' => trim_nul_rev l' | _ => l end.
Definition trim_nul (l : list byte) : list byte := rev (trim_nul_rev (rev l)).

(* encode with [pad] NUL bytes after the name; pad = 0 only for an empty name *)
Definition encode (r : raw) (pad : nat) : list byte :=
  le32 (r_wd r) ++ le32 (r_mask r) ++ le32 (r_cookie r) ++
  le32 (N.of_nat (String.length (r_name r) + pad)) ++ bytes_of_string (r_name r) ++ repeat 0 pad.

(* decode one record at the head of [buf]; None when fewer than 16 bytes remain (loop exit) or when the
   length field points outside the buffer (the real code would index out of range) *)
Definition decode_one (buf : list byte) : option (raw * list byte) :=
  if Nat.ltb (List.length buf) hdr_len then None
  else
    let wd := rd32 buf in
    let mask := rd32 (skipn 4 buf) in
    let cookie := rd32 (skipn 8 buf) in
    let len := rd32 (skipn 12 buf) in
    let rest := skipn hdr_len buf in
    if Nat.ltb (List.length rest) (N.to_nat len) then None
    else
      let name := string_of_bytes (trim_nul (firstn (N.to_nat len) rest)) in
      Some (mkRaw wd mask cookie len name, skipn (N.to_nat len) rest).

(* the loop; fuel = number of bytes is always enough since every iteration consumes >= 16 bytes *)
Fixpoint decode_fuel (fuel : nat) (buf : list byte) : list raw :=
  match fuel with
  | O => []
  | S f => match decode_one buf with
           | None => []
           | Some (r, rest) => r :: decode_fuel f rest
           end
  end.
Definition decode (buf : list byte) : list raw := decode_fuel (List.length buf) buf.

(* what the reader does with a read of n bytes before the loop *)
Inductive read_class := ReadShort | ReadEOF | ReadOK.
Definition classify_read (n : nat) : read_class :=
  if Nat.ltb n hdr_len then (if Nat.eqb n 0 then ReadEOF else ReadShort) else ReadOK.

(* a record is what a kernel can produce: 32-bit fields, no NUL inside the name, name <= 255 bytes *)
Definition no_nul (s : string) : bool := forallb (fun b => negb (b =? 0)) (bytes_of_string s).
Definition raw_wf (r : raw) : bool :=
  (r_wd r <? 4294967296) && (r_mask r <? 4294967296) && (r_cookie r <? 4294967296) && no_nul (r_name r).
Definition legal_pad (r : raw) (pad : nat) : bool :=
  (match r_name r with EmptyString => true | _ => Nat.ltb 0 pad end) &&
  (r_len r =? N.of_nat (String.length (r_name r) + pad)) && (N.of_nat (String.length (r_name r) + pad) <? 4294967296).
