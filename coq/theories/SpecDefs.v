(* SpecDefs.v — vocabulary for the theorems about the abstract specification (Spec.v): which histories the inotify
   contract allows, the invariant that ties the watch set to the kernel's marks, projections of the output log. *)
From stdpp Require Import gmap strings list.
From Fsn Require Import PathLex Bytes Tables Doc Watcher System Spec.
Local Open Scope N_scope.

(* the kernel-side steps allowed by the inotify contract, evaluated on the specification state
   (same test as System.env_ok, which looks at the same kernel) *)
Definition spec_env_ok (a : spec) (st : step) : bool :=
  match st with
  | KEmit r => bool_decide (is_Some (marks (sK a) !! r_wd r))
               && negb (has_any (r_mask r) (N.lor IN_IGNORED (N.lor IN_Q_OVERFLOW (N.lor IN_DELETE_SELF IN_UNMOUNT))))
               && raw_wf r
  | KRelease wd _ => bool_decide (is_Some (marks (sK a) !! wd))
  | _ => true
  end.

Definition is_inject (st : step) : bool := match st with SInject _ _ => true | _ => false end.
Definition is_overflow (st : step) : bool := match st with KOverflow => true | _ => false end.

(* a history the contract allows, without injected faults *)
Fixpoint spec_valid (h : list step) (a : spec) : bool :=
  match h with
  | [] => true
  | st :: h' => spec_env_ok a st && negb (is_inject st) && spec_valid h' (spec_step a st).1
  end.
Definition benign (h : list step) : bool := forallb (λ st, negb (is_inject st) && negb (is_overflow st)) h.

(* the invariant *)
Record SInv (a : spec) : Prop := mkSInv {
  si_marks_watched : ∀ wd, is_Some (marks (sK a) !! wd) → is_Some (sA a !! wd);
      (* every kernel watch backs a listed path *)
  si_watched_marks : ∀ wd, is_Some (sA a !! wd) → marks (sK a) !! wd = None → ignored_rec wd ∈ kq (sK a);
      (* a listed path without a kernel watch is one whose IN_IGNORED is still queued *)
  si_bound : ∀ wd, is_Some (marks (sK a) !! wd) ∨ is_Some (sA a !! wd) → 0 < wd < next_wd (sK a);
  si_queue_bound : ∀ r, r ∈ kq (sK a) → r_wd r < next_wd (sK a) ∨ r = overflow_rec;
  si_queue_dead : ∀ r, r ∈ kq (sK a) →
      has_any (r_mask r) IN_IGNORED = true ∨ has_any (r_mask r) IN_UNMOUNT = true ∨ has_all (r_mask r) IN_DELETE_SELF = true →
      marks (sK a) !! r_wd r = None;
      (* the kernel reports IN_IGNORED / IN_DELETE_SELF only for marks it has dropped *)
  si_inj : ∀ wd1 wd2 i, marks (sK a) !! wd1 = Some i → marks (sK a) !! wd2 = Some i → wd1 = wd2;
      (* one mark per file *)
  si_paths : ∀ wd1 wd2 x1 x2, sA a !! wd1 = Some x1 → sA a !! wd2 = Some x2 → a_path x1 = a_path x2 → wd1 = wd2;
      (* one entry per listed path *)
  si_next : 0 < next_wd (sK a);
}.

Definition is_ev (o : output) : bool := match o with OEv _ _ _ => true | _ => false end.
Definition ev_list (l : list output) : list (string * N * string) :=
  omap (λ o, match o with OEv n op f => Some (n, op, f) | _ => None end) l.
Definition err_list (l : list output) : list err :=
  omap (λ o, match o with OErr e => Some e | _ => None end) l.

(* what handling one record appends to the log *)
Definition handle_outs (a : spec) (r : raw) (q : list raw) : list output :=
  drop (length (souts a)) (souts (spec_handle a r q)).
