(* ConcMain.v — the protocol theorems of ConcSafety.v / ConcLive.v packaged for reachable states. *)
From stdpp Require Import gmap list.
From Fsn Require Import Conc ConcDefs ConcSafety ConcLive.
Local Open Scope nat_scope.

Section Main.
  Context {E X D C R I K : Type}.
  Variable api : D → C → D * R.
  Variable closed_result : C → R.
  Variable pre : I → list (@msg E X).
  Variable hnd : D → I → D * list (@msg E X).
  Variable env : D → K → option D.
  Notation cstate := (@cstate E X D C R I K).
  Notation reachable := (reachable api closed_result pre hnd env).
  Notation crun := (crun api closed_result pre hnd env).

  (* an API call in flight completes within 4 steps of threads — no consumer, kernel or new call needed — from every
     reachable state, whatever is pending *)
  Theorem api_call_returns cap cf d (s : cstate) t p :
    cf_send_in_cs cf = false → reachable cap cf d s → t ≠ reader_tid → thr s !! t = Some p →
    (∃ c, p = CStart c ∨ p = CWantLock c ∨ p = CInCs c) →
    ∃ ls s', only_threads ls ∧ length ls ≤ 4 ∧ crun cap cf s ls = Some s' ∧ ∃ r, thr s' !! t = Some (CDone r).
  Proof.
    intros Hcf Hr.
    pose proof (cinv_reachable api closed_result pre hnd env cap cf d s Hr) as HI.
    pose proof (reachable_LInv api closed_result pre hnd env cap cf d s Hr) as HL.
    eapply caller_returns; eauto.
  Qed.

  Theorem close_call_returns cap cf d (s : cstate) t p :
    cf_send_in_cs cf = false → reachable cap cf d s → t ≠ reader_tid → thr s !! t = Some p →
    (p = KStart ∨ p = KInCs ∨ p = KCloseFile ∨ p = KWaitResp) →
    ∃ ls s', only_threads ls ∧ length ls ≤ reader_measure (rd s) + 5 ∧ crun cap cf s ls = Some s' ∧ thr s' !! t = Some KDone.
  Proof.
    intros Hcf Hr.
    pose proof (cinv_reachable api closed_result pre hnd env cap cf d s Hr) as HI.
    pose proof (reachable_LInv api closed_result pre hnd env cap cf d s Hr) as HL.
    eapply close_returns; eauto.
  Qed.

  Theorem channels_close_after_close cap cf d (s : cstate) :
    reachable cap cf d s → resp_closed s = true →
    ∃ ls s', only_threads ls ∧ length ls ≤ 2 ∧ crun cap cf s ls = Some s' ∧
             rd s' = RDead ∧ ev_closed s' = true ∧ er_closed s' = true.
  Proof.
    intros Hr.
    pose proof (cinv_reachable api closed_result pre hnd env cap cf d s Hr) as HI.
    pose proof (reachable_LInv api closed_result pre hnd env cap cf d s Hr) as HL.
    eapply channels_close_promptly; eauto.
  Qed.

  Theorem reader_exits_after_close cap cf d (s : cstate) :
    cf_send_in_cs cf = false → reachable cap cf d s → done_closed s = true → file_closed s = true →
    ∃ ls s', only_threads ls ∧ length ls ≤ reader_measure (rd s) + 1 ∧ crun cap cf s ls = Some s' ∧
             rd s' = RDead ∧ ev_closed s' = true ∧ er_closed s' = true ∧ resp_closed s' = true.
  Proof.
    intros Hcf Hr.
    pose proof (cinv_reachable api closed_result pre hnd env cap cf d s Hr) as HI.
    pose proof (reachable_LInv api closed_result pre hnd env cap cf d s Hr) as HL.
    eapply reader_exits; eauto.
  Qed.

  (* once a closer has gone all the way (doneResp closed) and no closer is still about to close the file: descriptor
     closed, done closed, reader past its exit *)
  Theorem close_releases cap cf d (s : cstate) t :
    reachable cap cf d s → (∀ t', thr s !! t' ≠ Some KCloseFile) → thr s !! t = Some KDone → resp_closed s = true →
    file_closed s = true ∧ done_closed s = true ∧ (rd s = RExit2 ∨ rd s = RExit3 ∨ rd s = RDead).
  Proof.
    intros Hr.
    pose proof (cinv_reachable api closed_result pre hnd env cap cf d s Hr) as HI.
    pose proof (reachable_LInv api closed_result pre hnd env cap cf d s Hr) as HL.
    eapply resources_released; eauto.
  Qed.
End Main.
