(* KqHist.v — C18 at the level of whole histories, UNBOUNDED (induction over the history).

   What is proved here, for every history length:
     - create-once: in the event log of a run, between two Create events for one name there is a Remove or Rename
       event for that name;
     - preexisting-silent: a name that is marked seen in some state gets no Create before a Remove / Rename event for it;
       the entries a successful Add of a directory scans are marked seen (unless a FIFO was among them);
   under a premise [run_ok c h s = true] that is a boolean computed along the run (section 3): it says that none of the
   known-defect ingredients occurs (internalWatch fails / returns another name after a Create was sent: FIFO entry,
   unresolvable symlink entry; Remove of a watched path by the user; a Rename of a directory watch that arrives in one
   record with a Write, which the reader drops; a record for a descriptor that is no longer watched).

     - the clauses "create-once" and "preexisting-silent" of the specification (KqModel section 7) never fail on the
       model's own trace (sections 6 and 9);
     - the premise is satisfiable (h_plain, h_burst, every history of the bounded families of KqInv.v), false on the
       refutation witnesses, and its entry check can only fail for a FIFO, a symlink or an unmarked watched name
       (sections 7 and 8).

   Method: [HInv] links the table [t_seen] with the log: every name whose last Create/Remove/Rename event is a Create
   (or that counted as present at the base state and had none of them since) is marked seen.  Every function of the
   reader and of the API is shown to preserve it; the functions below addWatch only need a frame property (they send
   no event and never unmark a name). *)
From Coq Require Import String Ascii NArith List Bool Lia.
From stdpp Require Import gmap strings.
From Fsn Require Import KqModel KqInv.
From Fsn Require PathLex PathLexProofs.
Import ListNotations.
Local Open Scope string_scope.
Local Open Scope N_scope.

(* ------------------------------------------------------------------ 1. predicates on the event log (newest first) *)

Definition is_create (e : event) : bool := has (e_op e) Create.
Definition is_end (e : event) : bool := has (e_op e) Rename || has (e_op e) Remove.

(* does name [p] count as "created and not removed/renamed since" after the log [l], when it counted as [b0] before *)
Fixpoint live (b0 : bool) (p : string) (l : list event) : bool :=
  match l with
  | [] => b0
  | e :: r => if String.eqb (e_name e) p
              then (if is_create e then true else if is_end e then false else live b0 p r)
              else live b0 p r
  end.

(* every Create in the log is for a name that was not live just before; [pre] says which names count as live at the start *)
Fixpoint log_ok (pre : string -> bool) (l : list event) : bool :=
  match l with
  | [] => true
  | e :: r => (negb (is_create e) || negb (live (pre (e_name e)) (e_name e) r)) && log_ok pre r
  end.

(* the readable forms, on the chronological log *)
Definition ends_in (p : string) (l : list event) : Prop := exists e, In e l /\ e_name e = p /\ is_end e = true.

Definition create_once (chron : list event) : Prop :=
  forall A e1 B e2 C, chron = (A ++ e1 :: B ++ e2 :: C)%list ->
    is_create e1 = true -> is_create e2 = true -> e_name e1 = e_name e2 -> ends_in (e_name e1) B.

Definition silent_until_end (p : string) (chron : list event) : Prop :=
  forall A e C, chron = (A ++ e :: C)%list -> is_create e = true -> e_name e = p -> ends_in p A.

Lemma live_false_end b0 p : forall B e1 A,
  is_create e1 = true -> e_name e1 = p -> live b0 p (B ++ e1 :: A) = false -> ends_in p B.
Proof.
  induction B as [|e B IH]; intros e1 A Hc Hn; simpl.
  - rewrite Hn, String.eqb_refl, Hc. discriminate.
  - intros Hl. destruct (String.eqb (e_name e) p) eqn:E.
    + apply String.eqb_eq in E. destruct (is_create e); [discriminate|].
      destruct (is_end e) eqn:Ee.
      * exists e. simpl. auto.
      * destruct (IH e1 A Hc Hn Hl) as (x & Hx & Hxn & Hxe). exists x. simpl. auto.
    + destruct (IH e1 A Hc Hn Hl) as (x & Hx & Hxn & Hxe). exists x. simpl. auto.
Qed.

Lemma live_pre_false_end p : forall A, live true p A = false -> ends_in p A.
Proof.
  induction A as [|e A IH]; simpl; [discriminate|].
  intros Hl. destruct (String.eqb (e_name e) p) eqn:E.
  - apply String.eqb_eq in E. destruct (is_create e); [discriminate|].
    destruct (is_end e) eqn:Ee.
    + exists e. simpl. auto.
    + destruct (IH Hl) as (x & Hx & Hxn & Hxe). exists x. simpl. auto.
  - destruct (IH Hl) as (x & Hx & Hxn & Hxe). exists x. simpl. auto.
Qed.

Lemma log_ok_suffix pre : forall X Y, log_ok pre (X ++ Y) = true -> log_ok pre Y = true.
Proof. induction X as [|e X IH]; simpl; intros Y H; [exact H|]. apply andb_true_iff in H as [_ H]. auto. Qed.

Lemma log_ok_head pre e r : log_ok pre (e :: r) = true -> is_create e = true -> live (pre (e_name e)) (e_name e) r = false.
Proof.
  simpl. intros H Hc. apply andb_true_iff in H as [H _]. rewrite Hc in H. simpl in H.
  destruct (live (pre (e_name e)) (e_name e) r); [discriminate|reflexivity].
Qed.

Lemma ends_in_rev p l : ends_in p (rev l) <-> ends_in p l.
Proof. split; intros (e & Hi & H); exists e; (split; [|exact H]); [apply in_rev; exact Hi|apply in_rev in Hi; exact Hi]. Qed.

(* log_ok on the newest-first log gives the readable statements on the chronological one *)
Theorem log_ok_create_once pre l : log_ok pre l = true -> create_once (rev l).
Proof.
  intros Hok A e1 B e2 C Hl Hc1 Hc2 Hn.
  assert (Hr : l = (rev C ++ e2 :: rev B ++ e1 :: rev A)%list).
  { rewrite <- (rev_involutive l), Hl. rewrite rev_app_distr. simpl. rewrite rev_app_distr. simpl.
    rewrite <- !app_assoc. simpl. reflexivity. }
  rewrite Hr in Hok. apply log_ok_suffix in Hok. pose proof (log_ok_head _ _ _ Hok Hc2) as Hlive.
  rewrite <- Hn in Hlive. apply ends_in_rev. eapply live_false_end; [exact Hc1|reflexivity|exact Hlive].
Qed.

Theorem log_ok_silent pre l p : log_ok pre l = true -> pre p = true -> silent_until_end p (rev l).
Proof.
  intros Hok Hp A e C Hl Hc Hn.
  assert (Hr : l = (rev C ++ e :: rev A)%list).
  { rewrite <- (rev_involutive l), Hl. rewrite rev_app_distr. simpl. rewrite <- app_assoc. reflexivity. }
  rewrite Hr in Hok. apply log_ok_suffix in Hok. pose proof (log_ok_head _ _ _ Hok Hc) as Hlive.
  rewrite Hn, Hp in Hlive. apply ends_in_rev. apply live_pre_false_end. exact Hlive.
Qed.

(* ------------------------------------------------------------------ 2. frames: what addWatch and remove leave alone *)

(* addWatch and everything below it: no event, closed unchanged, no name unmarked, filesystem untouched *)
Record aw_frame (s s' : st) : Prop := mk_awf {
  af_evs : evs s' = evs s;
  af_closed : closed s' = closed s;
  af_seen : t_seen (T s) ⊆ t_seen (T s');
  af_fs : k_fs (K s') = k_fs (K s);
}.

Lemma awf_refl s : aw_frame s s.
Proof. constructor; done. Qed.
Lemma awf_trans s1 s2 s3 : aw_frame s1 s2 -> aw_frame s2 s3 -> aw_frame s1 s3.
Proof. intros [A1 B1 C1 D1] [A2 B2 C2 D2]. constructor; [congruence|congruence|set_solver|congruence]. Qed.

Lemma awf_mark s p : aw_frame s (set_T (fun t => tb_markSeen t p true) s).
Proof. constructor; simpl; try done. set_solver. Qed.

Section aw_frames.
  Variable aw : st -> string -> N -> bool -> st * res.
  Hypothesis aw_fr : forall s n f l, aw_frame s (aw s n f l).1.

  Lemma internalWatch_frame s p k : aw_frame s (internalWatch aw s p k).1.
  Proof. unfold internalWatch. case_match; apply aw_fr. Qed.

  Lemma wdf_loop_frame d names : forall s, aw_frame s (wdf_loop aw d names s).1.
  Proof.
    induction names as [|f r IH]; intros s; simpl; [apply awf_refl|].
    destruct (v_lstat (fs_of s) (pjoin d f)) as [e|k]; simpl; [apply awf_refl|].
    pose proof (internalWatch_frame s (pjoin d f) k) as Hi.
    destruct (internalWatch aw s (pjoin d f) k) as [s1 r1]. simpl in Hi.
    destruct r1 as [cp|e].
    - eapply awf_trans; [exact Hi|]. eapply awf_trans; [apply awf_mark|apply IH].
    - destruct e as [| |o|]; simpl; try exact Hi.
      destruct o; simpl; try exact Hi.
      eapply awf_trans; [exact Hi|]. eapply awf_trans; [apply awf_mark|apply IH].
  Qed.

  Lemma watchDirectoryFiles_frame s d : aw_frame s (watchDirectoryFiles aw s d).1.
  Proof. unfold watchDirectoryFiles. case_match; simpl; [apply awf_refl|apply wdf_loop_frame]. Qed.

  Lemma aw_finish_frame s name fd link isdir dflags already flags :
    aw_frame s (aw_finish aw s name fd link isdir dflags already flags).1.
  Proof.
    unfold aw_finish. destruct (sys_register (K s) fd flags) as [k1|] eqn:Er; simpl.
    2: { constructor; simpl; done. }
    assert (Hk : k_fs k1 = k_fs (K s)).
    { unfold sys_register in Er. destruct (k_led (K s) !! fd); [injection Er as <-; reflexivity|discriminate]. }
    assert (F2 : aw_frame s (if already then set_K (fun _ => k1) s else set_T (fun t => tb_add t name link fd isdir) (set_K (fun _ => k1) s))).
    { destruct already; constructor; simpl; done. }
    revert F2. generalize (if already then set_K (fun _ => k1) s else set_T (fun t => tb_add t name link fd isdir) (set_K (fun _ => k1) s)).
    intros s2 F2.
    destruct isdir; [|exact F2].
    destruct (tb_updateDirFlags (T s2) name flags) as [t3|] eqn:Eu; [|exact F2].
    assert (F3 : aw_frame s (set_T (fun _ => t3) s2)).
    { eapply awf_trans; [exact F2|]. unfold tb_updateDirFlags in Eu. destruct (t_path (T s2) !! name); [|discriminate].
      injection Eu as <-. constructor; simpl; done. }
    destruct (has flags NOTE_WRITE && (negb already || negb (has dflags NOTE_WRITE))); [|exact F3].
    pose proof (watchDirectoryFiles_frame (set_T (fun _ => t3) s2) (if String.eqb link "" then name else link)) as Hw.
    destruct (watchDirectoryFiles aw _ _) as [s4 [e|]]; simpl in *; eapply awf_trans; eauto.
  Qed.
End aw_frames.

Lemma addWatch_frame fuel : forall s name flags ld, aw_frame s (addWatch fuel s name flags ld).1.
Proof.
  induction fuel as [|fuel IH]; intros s name flags ld; simpl; [apply awf_refl|].
  destruct (closed s); simpl; [apply awf_refl|].
  destruct (tb_byPath (T s) (clean name)) as [[fd info]|].
  - apply aw_finish_frame, IH.
  - destruct (v_lstat (fs_of s) (clean name)) as [e|k]; simpl; [apply awf_refl|].
    destruct (is_fifo k); simpl; [apply awf_refl|].
    assert (Hopen : forall nm lk k0,
              aw_frame s (match sys_open (K s) nm with
                          | inl e => (s, RErr (EOs e))
                          | inr (k1, fd) => aw_finish (addWatch fuel) (set_K (fun _ => k1) s) nm fd lk (is_dir k0) 0 false flags
                          end).1).
    { intros nm lk k0. destruct (sys_open (K s) nm) as [e|[k1 fd]] eqn:Eo; [apply awf_refl|].
      eapply awf_trans; [|apply aw_finish_frame, IH].
      unfold sys_open in Eo. destruct (v_open (k_fs (K s)) nm); [discriminate|]. injection Eo as <- <-.
      constructor; simpl; done. }
    destruct (negb ld && is_link k); simpl.
    + destruct (v_readlink (fs_of s) (clean name)) as [e|l]; simpl; [apply awf_refl|].
      destruct (tb_byPath (T s) _) as [?|]; simpl.
      * constructor; simpl; try done. set_solver.
      * destruct (v_lstat (fs_of s) _) as [e|k']; simpl; [apply awf_refl|]. apply Hopen.
    + apply Hopen.
Qed.

Lemma api_add_frame c s name : aw_frame s (api_add c s name).1.
Proof.
  unfold api_add. pose proof (addWatch_frame aw_fuel s name noteAllEvents false) as H.
  destruct (addWatch aw_fuel s name noteAllEvents false) as [s1 [got|e]]; simpl in *; [|exact H].
  case_match; simpl; [exact H|]. eapply awf_trans; [exact H|]. constructor; simpl; done.
Qed.

(* remove: no event, closed unchanged, filesystem untouched; without unwatchFiles only the one name is unmarked *)
Record rm_frame (s s' : st) : Prop := mk_rmf {
  rf_evs : evs s' = evs s;
  rf_closed : closed s' = closed s;
  rf_fs : k_fs (K s') = k_fs (K s);
}.
Lemma rmf_refl s : rm_frame s s.
Proof. constructor; done. Qed.
Lemma rmf_trans s1 s2 s3 : rm_frame s1 s2 -> rm_frame s2 s3 -> rm_frame s1 s3.
Proof. intros [A1 B1 C1] [A2 B2 C2]. constructor; congruence. Qed.

Lemma remove_core_frame fuel : forall s name uw, rm_frame s (remove_core fuel s name uw).1.
Proof.
  induction fuel as [|fuel IH]; intros s name uw; [apply rmf_refl|]. cbn [remove_core].
  destruct (tb_byPath (T s) (clean name)) as [[fd w]|]; [|apply rmf_refl].
  destruct (evdelete_err (K s) fd) as [k1 res] eqn:Ee.
  destruct (tb_remove (T s) fd (clean name)) as [t1 isd].
  assert (F1 : rm_frame s (set_T (fun _ => t1) (set_K (fun _ => sys_close k1 fd) s))).
  { unfold evdelete_err, sys_evdelete in Ee. destruct (k_regs (K s) !! fd); injection Ee as <- _; constructor; simpl; done. }
  destruct (uw && isd); [|exact F1]. cbn [fst].
  revert F1. generalize (set_T (fun _ => t1) (set_K (fun _ => sys_close k1 fd) s)).
  induction (tb_watchesInDir t1 (clean name)) as [|ch r IHr]; intros s0 F0; [exact F0|].
  cbn [fold_left]. apply IHr. eapply rmf_trans; [exact F0|apply IH].
Qed.

Lemma remove_core_seen1 fuel s name : t_seen (T s) ∖ {[clean name]} ⊆ t_seen (T (remove_core fuel s name false).1).
Proof.
  destruct fuel as [|fuel]; [simpl; set_solver|]. cbn [remove_core].
  destruct (tb_byPath (T s) (clean name)) as [[fd w]|]; [|simpl; set_solver].
  destruct (evdelete_err (K s) fd) as [k1 res].
  destruct (tb_remove (T s) fd (clean name)) as [t1 isd] eqn:Et. cbn [andb fst].
  unfold tb_remove in Et. injection Et as <- _. simpl. set_solver.
Qed.

Lemma remove_core_none fuel s p uw : tb_byPath (T s) (clean p) = None -> remove_core (S fuel) s p uw = (s, Some ErrNonExistentWatch).
Proof. intros H. cbn [remove_core]. rewrite H. reflexivity. Qed.

Lemma remove_frame c s name uw : rm_frame s (remove c s name uw).1.
Proof. unfold remove. case_match; [apply rmf_refl|apply remove_core_frame]. Qed.
Lemma remove_seen1 c s name : t_seen (T s) ∖ {[clean name]} ⊆ t_seen (T (remove c s name false).1).
Proof. unfold remove. case_match; [simpl; set_solver|apply remove_core_seen1]. Qed.

Lemma fold_remove_frame l : forall s, rm_frame s (fold_left (fun s p => (remove_core (rm_fuel s) s p true).1) l s).
Proof. induction l as [|p r IH]; intros s; cbn [fold_left]; [apply rmf_refl|]. eapply rmf_trans; [apply remove_core_frame|apply IH]. Qed.

Lemma api_close_evs c s : evs (api_close c s) = evs s.
Proof.
  unfold api_close. destruct (closed s); [reflexivity|]. simpl.
  destruct (fx_close c); [|reflexivity]. rewrite (rf_evs _ _ (fold_remove_frame _ _)). reflexivity.
Qed.
Lemma api_close_closed c s : closed (api_close c s) = true.
Proof.
  unfold api_close. destruct (closed s) eqn:E; [exact E|]. simpl.
  destruct (fx_close c); [|reflexivity]. rewrite (rf_closed _ _ (fold_remove_frame _ _)). reflexivity.
Qed.

(* ------------------------------------------------------------------ event facts *)

Lemma newEvent_not_create name link mask : is_create (newEvent name link mask) = false.
Proof.
  unfold is_create, newEvent. simpl.
  destruct (has mask NOTE_DELETE), (has mask NOTE_WRITE), (has mask NOTE_RENAME), (has mask NOTE_ATTRIB); vm_compute; reflexivity.
Qed.

Lemma is_end_nonzero e : is_end e = true -> N.eqb (e_op e) 0 = false.
Proof.
  unfold is_end, has. destruct (N.eqb_spec (e_op e) 0) as [E|E]; [|reflexivity]. rewrite E. simpl. discriminate.
Qed.

(* ------------------------------------------------------------------ watch names and link names are cleaned *)

Definition links_clean (s : st) : Prop :=
  forall fd w, t_wd (T s) !! fd = Some w -> w_link w = "" \/ clean (w_link w) = w_link w.

Lemma prim_links_clean U s s' : links_clean s -> prim U s s' -> links_clean s'.
Proof.
  intros Hlc H. destruct H; unfold links_clean in *; simpl; auto.
  - match goal with HT : T _ = T _ |- _ => rewrite HT end. exact Hlc.
  - match goal with Hb : is_Some (tb_byPath ?t ?q), Hu : tb_updateDirFlags _ _ _ = Some _ |- _ =>
      destruct Hb as [[f0 w0] Hb]; unfold tb_byPath in Hb; unfold tb_updateDirFlags in Hu;
      destruct (t_path t !! q) as [f1|]; [|discriminate]; simpl in Hb;
      destruct (t_wd t !! f1) as [w1|] eqn:Ew; [|discriminate]; injection Hu as <- end. simpl.
    intros fd w. destruct (decide (f1 = fd)) as [->|Hd].
    + rewrite lookup_insert. intros [= <-]. simpl. exact (Hlc _ _ Ew).
    + rewrite lookup_insert_ne by done. apply Hlc.
  - intros fd0 w. destruct (decide (fd = fd0)) as [->|Hd].
    + rewrite lookup_insert. intros [= <-]. simpl. assumption.
    + rewrite lookup_insert_ne by done. apply Hlc.
  - intros fd0 w0. destruct (decide (fd = fd0)) as [->|Hd]; [rewrite lookup_delete; discriminate|].
    rewrite lookup_delete_ne by done. apply Hlc.
  - intros fd0 w0. destruct (decide (fd = fd0)) as [->|Hd]; [rewrite lookup_delete; discriminate|].
    rewrite lookup_delete_ne by done. apply Hlc.
Qed.

Definition Cl (s : st) : Prop := names_clean s /\ links_clean s.

Lemma steps_Cl U s s' : steps U s s' -> Cl s -> Cl s'.
Proof.
  apply steps_ind_inv. intros x y [A B] Hp. split; [eapply prim_names_clean; eauto|eapply prim_links_clean; eauto].
Qed.

Lemma Cl_init : Cl st_init.
Proof. split; intros fd w Hw; simpl in Hw; rewrite lookup_empty in Hw; discriminate. Qed.

Lemma Cl_run c h : Cl (run c h st_init).
Proof. eapply (steps_Cl (fun _ => True)); [apply run_steps; auto|apply Cl_init]. Qed.

Lemma ev_name_clean s fd w mask : Cl s -> t_wd (T s) !! fd = Some w ->
  clean (e_name (newEvent (w_name w) (w_link w) mask)) = e_name (newEvent (w_name w) (w_link w) mask).
Proof.
  intros [Hn Hl] Hw. unfold newEvent. simpl. destruct (String.eqb (w_link w) "") eqn:E.
  - exact (Hn _ _ Hw).
  - destruct (Hl _ _ Hw) as [H|H]; [rewrite H in E; discriminate|exact H].
Qed.

(* ------------------------------------------------------------------ 3. the premise: a boolean computed along the run

   Each function of the reader has a companion that follows it step by step and checks, in the states the reader
   actually goes through, that none of the ingredients of the known defects occurs:
     [sc_ok]      when sendCreateIfNew sends a Create for p, internalWatch succeeds and returns p
                  (false: FIFO entry — returns "" —, unresolvable symlink entry — fails; keys fifo-entry, dangling-symlink-entry)
     [handle_ok]  a Remove/Rename record belongs to a descriptor that is still watched, and a directory watch does not
                  receive Write and Rename in one record without Delete (the reader then calls dirChange INSTEAD of
                  sending the Rename: w_dir_rename_dropped below)
     [step_ok]    the user does not Remove a watched path (Remove unmarks the path and, for a directory, its entries
                  without any event; keys remove-of-unadded-succeeds, entry-user-removed)
   Nothing is checked once the watcher is closed (no event is sent any more). *)

Definition sc_ok (s : st) (p : string) (k : kind) : bool :=
  tb_seenBefore (T s) p || closed s ||
  match (internalWatch aw_entry (sendEvent s {| e_name := p; e_op := Create |}).1 p k).2 with
  | ROk p' => String.eqb p' p
  | RErr _ => false
  end.

Fixpoint dc_ok (d : string) (names : list string) (s : st) : bool :=
  match names with
  | [] => true
  | f :: r =>
      match v_lstat (fs_of s) (pjoin d f) with
      | inl _ => true
      | inr k => sc_ok s (pjoin d f) k &&
                 match sendCreateIfNew s (pjoin d f) k with
                 | (s1, None) => dc_ok d r s1
                 | (_, Some _) => true
                 end
      end
  end.

Definition dirChange_ok (s : st) (d : string) : bool :=
  match v_readdir (fs_of s) d with inr names => dc_ok d names s | inl _ => true end.

Definition after_remove_ok (s2 : st) (w : watch) (ev : event) : bool :=
  if has (e_op ev) Remove then
    if w_isdir w then
      match tb_byPath (T s2) (clean (e_name ev)) with
      | Some _ => dirChange_ok s2 (clean (e_name ev))
      | None => true
      end
    else
      match v_lstat (fs_of s2) (clean (e_name ev)) with
      | inr k => sc_ok s2 (clean (e_name ev)) k
      | inl _ => true
      end
  else true.

Definition handle_ok (c : cfg) (s : st) (r : N * N) : bool :=
  let '(fd, mask) := r in
  if N.eqb fd 0 then true else
  let w := default watch0 (tb_byWd (T s) fd) in
  let ev := newEvent (w_name w) (w_link w) mask in
  let s1 := if has (e_op ev) Rename || has (e_op ev) Remove
            then set_T (fun t => tb_markSeen t (e_name ev) false) (fst (remove c s (e_name ev) false))
            else s in
  closed s ||
  ((negb (is_end ev) || match t_wd (T s) !! fd with Some _ => true | None => false end)
   && if w_isdir w && has (e_op ev) Write && negb (has (e_op ev) Remove)
      then negb (has (e_op ev) Rename)
           && dirChange_ok s1 (e_name ev) && after_remove_ok (fst (dirChange s1 (e_name ev))) w ev
      else let '(s2, sent) := sendEvent s1 ev in if sent then after_remove_ok s2 w ev else true).

Fixpoint handle_batch_ok (c : cfg) (s : st) (b : list (N * N)) : bool :=
  match b with
  | [] => true
  | r :: rest => if gone s then true else handle_ok c s r && handle_batch_ok c (handle c s r) rest
  end.

Fixpoint read_all_ok (c : cfg) (fuel : nat) (s : st) : bool :=
  match fuel with
  | O => true
  | S fuel' =>
      if gone s then true else
      match k_pend (K s) with
      | [] => true
      | _ =>
          let batch := firstn 10 (k_pend (K s)) in
          let s1 := set_K (k_set_pend (skipn 10)) s in
          handle_batch_ok c s1 batch && read_all_ok c fuel' (handle_batch c s1 batch)
      end
  end.

Definition settle_ok (c : cfg) (s : st) : bool := if held s then true else read_all_ok c (read_fuel s) s.

Definition step_ok (c : cfg) (s : st) (x : step) : bool :=
  match x with
  | SFs o => let '(k1, _) := k_fsop (K s) o in settle_ok c (set_K (fun _ => k1) s)
  | SAdd p => settle_ok c (api_add c s p).1
  | SRemove p => (closed s || match tb_byPath (T s) (clean p) with Some _ => false | None => true end)
                 && settle_ok c (api_remove c s p).1
  | SList => true
  | SClose => settle_ok c (set_held false s)
  | SHold => true
  | SRelease => settle_ok c (set_held false s)
  | SCloseRace o => settle_ok c (set_held false s)
  end.

Fixpoint run_ok (c : cfg) (h : list step) (s : st) : bool :=
  match h with
  | [] => true
  | x :: r => step_ok c s x && run_ok c r (do_step c s x).1
  end.

(* ------------------------------------------------------------------ 4. the invariant *)

Section hist.
Variable pre : string -> bool.       (* the names that count as present at the base state *)
Variable old : list event.           (* the log of the base state *)

Definition HInv (s : st) : Prop :=
  exists new, evs s = (new ++ old)%list /\ log_ok pre new = true /\
    (closed s = false -> forall p, live (pre p) p new = true -> p ∈ t_seen (T s)).

Lemma HInv_frame s s' :
  evs s' = evs s -> closed s' = closed s -> (closed s = false -> t_seen (T s) ⊆ t_seen (T s')) -> HInv s -> HInv s'.
Proof.
  intros He Hc Hs (new & E & L & S). exists new. rewrite He, Hc. split; [exact E|]. split; [exact L|].
  intros C p Hp. apply (Hs C). apply S; assumption.
Qed.

Lemma HInv_awf s s' : aw_frame s s' -> HInv s -> HInv s'.
Proof. intros [A B C D]. apply HInv_frame; auto. Qed.

Lemma HInv_closed_evs s s' : closed s' = true -> evs s' = evs s -> HInv s -> HInv s'.
Proof.
  intros Hc He (new & E & L & S). exists new. rewrite He. split; [exact E|]. split; [exact L|]. rewrite Hc. discriminate.
Qed.

(* --- sendCreateIfNew *)

Lemma sendCreateIfNew_closed s p k : closed (sendCreateIfNew s p k).1 = closed s.
Proof.
  unfold sendCreateIfNew.
  assert (H0 : closed (if tb_seenBefore (T s) p then (s, true) else sendEvent s {| e_name := p; e_op := Create |}).1 = closed s).
  { destruct (tb_seenBefore (T s) p); [reflexivity|]. unfold sendEvent. simpl. destruct (closed s) eqn:E; simpl; auto. }
  destruct (if tb_seenBefore (T s) p then (s, true) else sendEvent s {| e_name := p; e_op := Create |}) as [s0 sent]. simpl in H0.
  destruct sent; simpl; [|exact H0].
  pose proof (internalWatch_frame aw_entry (addWatch_frame 2) s0 p k) as Hf.
  destruct (internalWatch aw_entry s0 p k) as [s1 [p'|e]]; simpl in *; rewrite <- H0; apply Hf.
Qed.

Lemma sendCreateIfNew_hinv s p k : HInv s -> sc_ok s p k = true -> HInv (sendCreateIfNew s p k).1.
Proof.
  intros HI Hok. unfold sendCreateIfNew.
  destruct (tb_seenBefore (T s) p) eqn:Eseen.
  - pose proof (internalWatch_frame aw_entry (addWatch_frame 2) s p k) as Hf.
    destruct (internalWatch aw_entry s p k) as [s1 [p'|e]]; simpl in *.
    + eapply HInv_awf; [|exact HI]. eapply awf_trans; [exact Hf|apply awf_mark].
    + eapply HInv_awf; [exact Hf|exact HI].
  - unfold sc_ok in Hok. rewrite Eseen in Hok. unfold sendEvent in *. simpl in *.
    destruct (closed s) eqn:Ec; simpl in *; [exact HI|].
    match goal with |- context [internalWatch aw_entry ?s0 p k] => set (s0' := s0) in * end.
    pose proof (internalWatch_frame aw_entry (addWatch_frame 2) s0' p k) as Hf.
    destruct (internalWatch aw_entry s0' p k) as [s1 [p'|e]]; simpl in *; [|discriminate].
    apply String.eqb_eq in Hok. subst p'.
    destruct HI as (new & E & L & S). destruct Hf as [A B C D]. simpl in *.
    exists ({| e_name := p; e_op := Create |} :: new). split; [simpl; rewrite A; subst s0'; simpl; rewrite E; reflexivity|]. split.
    + simpl. rewrite L, andb_true_r.
      destruct (live (pre p) p new) eqn:El; [|reflexivity]. exfalso.
      apply (S Ec) in El. unfold tb_seenBefore in Eseen. apply bool_decide_eq_false in Eseen. contradiction.
    + intros _ q. simpl. destruct (String.eqb p q) eqn:Epq.
      * apply String.eqb_eq in Epq. subst q. intros _. set_solver.
      * intros Hq. apply (S Ec) in Hq. set_solver.
Qed.

Lemma sc_ok_closed s p k : closed s = true -> sc_ok s p k = true.
Proof. intros H. unfold sc_ok. rewrite H, orb_true_r. reflexivity. Qed.

(* --- dirChange *)

Lemma dc_loop_closed d names : forall s, closed (dc_loop d names s).1 = closed s.
Proof.
  induction names as [|f r IH]; intros s; simpl; [reflexivity|].
  destruct (v_lstat (fs_of s) (pjoin d f)) as [e|k]; simpl; [destruct e; reflexivity|].
  pose proof (sendCreateIfNew_closed s (pjoin d f) k) as H.
  destruct (sendCreateIfNew s (pjoin d f) k) as [s1 [e|]]; simpl in *.
  - destruct (ignorable e); exact H.
  - rewrite IH. exact H.
Qed.

Lemma dc_loop_hinv d names : forall s, HInv s -> (closed s = false -> dc_ok d names s = true) -> HInv (dc_loop d names s).1.
Proof.
  induction names as [|f r IH]; intros s HI Hok; simpl in *; [exact HI|].
  destruct (v_lstat (fs_of s) (pjoin d f)) as [e|k]; simpl; [destruct e; exact HI|].
  assert (Hsc : sc_ok s (pjoin d f) k = true).
  { destruct (closed s) eqn:Ec; [apply sc_ok_closed, Ec|]. specialize (Hok eq_refl). apply andb_true_iff in Hok. tauto. }
  pose proof (sendCreateIfNew_hinv s (pjoin d f) k HI Hsc) as H1.
  pose proof (sendCreateIfNew_closed s (pjoin d f) k) as Hc1.
  destruct (sendCreateIfNew s (pjoin d f) k) as [s1 [e|]]; simpl in *.
  - destruct (ignorable e); exact H1.
  - apply IH; [exact H1|]. rewrite Hc1. intros Ec. specialize (Hok Ec). apply andb_true_iff in Hok. tauto.
Qed.

Lemma dirChange_closed s d : closed (dirChange s d).1 = closed s.
Proof. unfold dirChange. destruct (v_readdir (fs_of s) d) as [e|names]; simpl; [destruct e; reflexivity|apply dc_loop_closed]. Qed.

Lemma dirChange_hinv s d : HInv s -> (closed s = false -> dirChange_ok s d = true) -> HInv (dirChange s d).1.
Proof.
  unfold dirChange, dirChange_ok. intros HI Hok.
  destruct (v_readdir (fs_of s) d) as [e|names]; simpl; [destruct e; exact HI|apply dc_loop_hinv; assumption].
Qed.

(* --- sendError, reader_exit *)

Lemma sendError_same s e : let s' := (sendError s e).1 in evs s' = evs s /\ closed s' = closed s /\ T s' = T s.
Proof. unfold sendError. destruct e; simpl; [|auto]. destruct (closed s) eqn:E; simpl; auto. Qed.

Lemma tail_hinv s e : HInv s -> HInv (let '(s4, sent) := sendError s e in if sent then s4 else reader_exit s4).
Proof.
  intros HI. pose proof (sendError_same s e) as (A & B & C). destruct (sendError s e) as [s4 sent]. simpl in *.
  assert (H4 : HInv s4) by (eapply HInv_frame; [exact A|exact B|rewrite C; done|exact HI]).
  destruct sent; [exact H4|]. eapply HInv_frame; [| | |exact H4]; simpl; done.
Qed.
Lemma tail_closed s e : closed (let '(s4, sent) := sendError s e in if sent then s4 else reader_exit s4) = closed s.
Proof. pose proof (sendError_same s e) as (A & B & C). destruct (sendError s e) as [s4 sent]. simpl in *. destruct sent; simpl; exact B. Qed.

(* --- after_remove *)

Lemma after_remove_closed s w ev : closed (after_remove s w ev) = closed s.
Proof.
  unfold after_remove. destruct (has (e_op ev) Remove); [|reflexivity].
  destruct (w_isdir w).
  - destruct (tb_byPath (T s) (clean (e_name ev))); [|reflexivity].
    pose proof (dirChange_closed s (clean (e_name ev))) as H. destruct (dirChange s (clean (e_name ev))) as [s3 e]. simpl in H.
    rewrite tail_closed. exact H.
  - destruct (v_lstat (fs_of s) (clean (e_name ev))) as [e|k]; [reflexivity|].
    pose proof (sendCreateIfNew_closed s (clean (e_name ev)) k) as H. destruct (sendCreateIfNew s (clean (e_name ev)) k) as [s3 e]. simpl in H.
    rewrite tail_closed. exact H.
Qed.

Lemma after_remove_hinv s w ev : HInv s -> (closed s = false -> after_remove_ok s w ev = true) -> HInv (after_remove s w ev).
Proof.
  unfold after_remove, after_remove_ok. intros HI Hok. destruct (has (e_op ev) Remove); [|exact HI].
  destruct (w_isdir w).
  - destruct (tb_byPath (T s) (clean (e_name ev))); [|exact HI].
    pose proof (dirChange_hinv s (clean (e_name ev)) HI Hok) as H. destruct (dirChange s (clean (e_name ev))) as [s3 e]. simpl in H.
    apply tail_hinv, H.
  - destruct (v_lstat (fs_of s) (clean (e_name ev))) as [e|k]; [exact HI|].
    assert (Hsc : sc_ok s (clean (e_name ev)) k = true).
    { destruct (closed s) eqn:Ec; [apply sc_ok_closed, Ec|auto]. }
    pose proof (sendCreateIfNew_hinv s (clean (e_name ev)) k HI Hsc) as H. destruct (sendCreateIfNew s (clean (e_name ev)) k) as [s3 e]. simpl in H.
    apply tail_hinv, H.
Qed.

(* --- handle *)

Lemma sendEvent_closed s e : closed (sendEvent s e).1 = closed s.
Proof. unfold sendEvent. destruct (N.eqb (e_op e) 0); [reflexivity|]. destruct (closed s) eqn:E; simpl; auto. Qed.

(* an event that is neither a Create nor a Remove/Rename changes nothing for the invariant *)
Lemma sendEvent_neutral s e : is_create e = false -> is_end e = false -> HInv s -> HInv (sendEvent s e).1.
Proof.
  intros Hc He HI. unfold sendEvent. destruct (N.eqb (e_op e) 0); [exact HI|]. destruct (closed s) eqn:Ec; simpl; [exact HI|].
  destruct HI as (new & E & L & S). exists (e :: new). simpl. rewrite E. split; [reflexivity|]. split.
  - rewrite Hc, L. reflexivity.
  - intros _ p. rewrite Hc, He. destruct (String.eqb (e_name e) p); apply (S Ec).
Qed.

Lemma handle_closed c s r : closed (handle c s r) = closed s.
Proof.
  unfold handle. destruct r as [fd mask]. destruct (N.eqb fd 0); [reflexivity|].
  set (w := default watch0 (tb_byWd (T s) fd)). set (ev := newEvent (w_name w) (w_link w) mask).
  set (s1 := if has (e_op ev) Rename || has (e_op ev) Remove then _ else s).
  assert (H1 : closed s1 = closed s).
  { subst s1. destruct (has (e_op ev) Rename || has (e_op ev) Remove); [|reflexivity]. simpl. apply (rf_closed _ _ (remove_frame c s (e_name ev) false)). }
  destruct (w_isdir w && has (e_op ev) Write && negb (has (e_op ev) Remove)).
  - rewrite after_remove_closed, dirChange_closed. exact H1.
  - pose proof (sendEvent_closed s1 ev) as H2. destruct (sendEvent s1 ev) as [s2 sent]. simpl in H2.
    destruct sent; [rewrite after_remove_closed|simpl]; congruence.
Qed.

Lemma handle_hinv c s r : Cl s -> HInv s -> (closed s = false -> handle_ok c s r = true) -> HInv (handle c s r).
Proof.
  intros HCl HI Hok. unfold handle, handle_ok in *. destruct r as [fd mask].
  destruct (N.eqb fd 0); [eapply HInv_frame; [| | |exact HI]; simpl; done|].
  set (w := default watch0 (tb_byWd (T s) fd)) in *. set (ev := newEvent (w_name w) (w_link w) mask) in *.
  change (has (e_op ev) Rename || has (e_op ev) Remove) with (is_end ev) in *.
  set (s1 := if is_end ev then _ else s) in *.
  assert (Hnc : is_create ev = false) by apply newEvent_not_create.
  (* the state after the unwatching *)
  assert (Hs1 : evs s1 = evs s /\ closed s1 = closed s /\
                (is_end ev = true -> closed s = false -> t_seen (T s) ∖ {[e_name ev]} ⊆ t_seen (T s1)) /\ (is_end ev = false -> s1 = s)).
  { subst s1. destruct (is_end ev) eqn:Ee.
    - pose proof (remove_frame c s (e_name ev) false) as [A B _].
      split; [exact A|]. split; [exact B|]. split; [|discriminate].
      intros _ Ec. specialize (Hok Ec). rewrite Ec in Hok. cbn [orb] in Hok. apply andb_true_iff in Hok as [Hlive _].
      cbn [negb orb] in Hlive.
      remember (t_wd (T s) !! fd) as o eqn:Ew in Hlive. destruct o as [w0|]; [|discriminate]. symmetry in Ew.
      assert (Hw : w = w0) by (subst w; unfold tb_byWd; rewrite Ew; reflexivity).
      assert (Hcl : clean (e_name ev) = e_name ev) by (subst ev; rewrite Hw; apply (ev_name_clean s fd w0 mask HCl Ew)).
      pose proof (remove_seen1 c s (e_name ev)) as Hr. rewrite Hcl in Hr. cbn [T set_T t_seen tb_markSeen]. set_solver.
    - split; [reflexivity|]. split; [reflexivity|]. split; [discriminate|reflexivity]. }
  destruct Hs1 as (E1 & C1 & S1 & N1).
  destruct (bool_dec (closed s) true) as [Ec|Ec]; [|apply not_true_is_false in Ec].
  { (* closed: nothing is sent *)
    assert (H1 : HInv s1) by (eapply HInv_closed_evs; [congruence|exact E1|exact HI]).
    destruct (w_isdir w && has (e_op ev) Write && negb (has (e_op ev) Remove)).
    - apply after_remove_hinv; [apply dirChange_hinv; [exact H1|congruence]|rewrite dirChange_closed; congruence].
    - unfold sendEvent. destruct (N.eqb (e_op ev) 0); [apply after_remove_hinv; [exact H1|congruence]|].
      rewrite C1, Ec. eapply HInv_frame; [| | |exact H1]; simpl; done. }
  specialize (Hok Ec). rewrite Ec in Hok. cbn [orb] in Hok. apply andb_true_iff in Hok as [_ Hok].
  destruct (w_isdir w && has (e_op ev) Write && negb (has (e_op ev) Remove)) eqn:Ebr; rewrite ?Ebr in Hok.
  - (* directory written: dirChange instead of an event; the flag excludes that a Rename is dropped here *)
    apply andb_true_iff in Hok as [Hok Har]. apply andb_true_iff in Hok as [Hnr Hdc].
    assert (Hne : is_end ev = false).
    { unfold is_end. apply andb_true_iff in Ebr as [_ Hnrm]. destruct (has (e_op ev) Rename); [discriminate|].
      destruct (has (e_op ev) Remove); [discriminate|reflexivity]. }
    assert (Hs : s1 = s) by (apply N1; exact Hne). clearbody s1. subst s1.
    apply after_remove_hinv; [apply dirChange_hinv; auto|auto].
  - destruct (is_end ev) eqn:Ee.
    + (* Remove / Rename: the name is unmarked and the event says so *)
      unfold sendEvent in Hok |- *. rewrite (is_end_nonzero _ Ee), C1, Ec in Hok |- *.
      apply after_remove_hinv; [|intros _; exact Hok].
      destruct HI as (new & E & L & S). exists (ev :: new).
      split; [cbn [evs app]; rewrite E1, E; reflexivity|]. split.
      * cbn [log_ok]. rewrite Hnc, L. reflexivity.
      * intros _ p. cbn [live T]. rewrite Hnc, Ee.
        destruct (String.eqb (e_name ev) p) eqn:Ep; [discriminate|]. intros Hp.
        apply (S Ec) in Hp. apply (S1 eq_refl Ec).
        apply String.eqb_neq in Ep. set_solver.
    + assert (Hs : s1 = s) by (apply N1; reflexivity). clearbody s1. subst s1.
      pose proof (sendEvent_neutral s ev Hnc Ee HI) as H2.
      pose proof (sendEvent_closed s ev) as C2.
      destruct (sendEvent s ev) as [s2 sent]. cbn [fst] in H2, C2. destruct sent.
      * apply after_remove_hinv; [exact H2|intros _; exact Hok].
      * eapply HInv_frame; [| | |exact H2]; simpl; done.
Qed.

(* --- batches *)

Lemma handle_batch_hinv c b : forall s, Cl s -> HInv s -> (closed s = false -> handle_batch_ok c s b = true) -> HInv (handle_batch c s b).
Proof.
  induction b as [|r rest IH]; intros s HCl HI Hok; simpl in *; [exact HI|].
  destruct (gone s); [exact HI|].
  apply IH.
  - eapply (steps_Cl (fun _ => True)); [apply handle_steps|exact HCl].
  - apply handle_hinv; [exact HCl|exact HI|]. intros Ec. specialize (Hok Ec). apply andb_true_iff in Hok. tauto.
  - rewrite handle_closed. intros Ec. specialize (Hok Ec). apply andb_true_iff in Hok. tauto.
Qed.
Lemma handle_batch_closed c b : forall s, closed (handle_batch c s b) = closed s.
Proof. induction b as [|r rest IH]; intros s; simpl; [reflexivity|]. destruct (gone s); [reflexivity|]. rewrite IH. apply handle_closed. Qed.

Lemma read_all_hinv c fuel : forall s, Cl s -> HInv s -> (closed s = false -> read_all_ok c fuel s = true) -> HInv (read_all c fuel s).
Proof.
  induction fuel as [|fuel IH]; intros s HCl HI Hok; simpl in *; [exact HI|].
  destruct (gone s); [exact HI|]. destruct (k_pend (K s)) as [|r0 rest] eqn:Ep; [exact HI|].
  set (s1 := set_K (k_set_pend (skipn 10)) s) in *. set (batch := firstn 10 (r0 :: rest)) in *.
  assert (HCl1 : Cl s1) by exact HCl.
  assert (HI1 : HInv s1) by (eapply HInv_frame; [| | |exact HI]; simpl; done).
  apply IH.
  - eapply (steps_Cl (fun _ => True)); [apply handle_batch_steps|exact HCl1].
  - apply handle_batch_hinv; [exact HCl1|exact HI1|]. intros Ec. specialize (Hok Ec). apply andb_true_iff in Hok. tauto.
  - rewrite handle_batch_closed. intros Ec. specialize (Hok Ec). apply andb_true_iff in Hok. tauto.
Qed.
Lemma read_all_closed c fuel : forall s, closed (read_all c fuel s) = closed s.
Proof.
  induction fuel as [|fuel IH]; intros s; simpl; [reflexivity|]. destruct (gone s); [reflexivity|].
  destruct (k_pend (K s)); [reflexivity|]. rewrite IH, handle_batch_closed. reflexivity.
Qed.

Lemma settle_hinv c s : Cl s -> HInv s -> (closed s = false -> settle_ok c s = true) -> HInv (settle c s).
Proof. unfold settle, settle_ok. intros HCl HI Hok. destruct (held s); [exact HI|apply read_all_hinv; assumption]. Qed.
Lemma settle_closed c s : closed (settle c s) = closed s.
Proof. unfold settle. destruct (held s); [reflexivity|apply read_all_closed]. Qed.
Lemma settle_Cl c s : Cl s -> Cl (settle c s).
Proof. apply (steps_Cl (fun _ => True)), settle_steps. Qed.

(* --- history steps *)

Lemma do_step_Cl c s x : Cl s -> Cl (do_step c s x).1.
Proof. apply (steps_Cl (fun _ => True)), do_step_steps. auto. Qed.

Lemma closed_settle_hinv c s : Cl s -> HInv s -> closed s = true -> HInv (settle c s).
Proof. intros HCl HI Hc. apply settle_hinv; [exact HCl|exact HI|]. rewrite Hc. discriminate. Qed.

Lemma do_step_hinv c s x : Cl s -> HInv s -> step_ok c s x = true -> HInv (do_step c s x).1.
Proof.
  intros HCl HI Hok. destruct x; simpl in *.
  - (* filesystem operation *)
    destruct (k_fsop (K s) o) as [k1 ok]. simpl.
    apply settle_hinv; [exact HCl| |intros _; exact Hok]. eapply HInv_frame; [| | |exact HI]; simpl; done.
  - (* Add *)
    pose proof (api_add_frame c s p) as Hf.
    assert (HCl1 : Cl (api_add c s p).1) by (eapply (steps_Cl (fun _ => True)); [apply api_add_steps; exact I|exact HCl]).
    destruct (api_add c s p) as [s1 r]. simpl in *.
    apply settle_hinv; [exact HCl1|eapply HInv_awf; eauto|intros _; exact Hok].
  - (* Remove: only when it does nothing *)
    apply andb_true_iff in Hok as [Hno Hok].
    assert (Hsame : (api_remove c s p).1 = s).
    { unfold api_remove. destruct (closed s) eqn:Ec; [reflexivity|]. simpl in Hno.
      destruct (tb_byPath (T s) (clean p)) eqn:Eb; [discriminate|].
      unfold rm_fuel. rewrite (remove_core_none _ _ _ _ Eb). reflexivity. }
    destruct (api_remove c s p) as [s1 e]. simpl in *. subst s1.
    apply settle_hinv; [exact HCl|exact HI|intros _; exact Hok].
  - exact HI.
  - (* Close *)
    set (s0 := settle c (set_held false s)).
    assert (HCl0 : Cl s0) by (apply settle_Cl; exact HCl).
    assert (HI0 : HInv s0).
    { apply settle_hinv; [exact HCl| |intros _; exact Hok]. eapply HInv_frame; [| | |exact HI]; simpl; done. }
    apply closed_settle_hinv.
    + eapply (steps_Cl (fun _ => True)); [apply api_close_steps|exact HCl0].
    + eapply HInv_closed_evs; [apply api_close_closed|apply api_close_evs|exact HI0].
    + apply api_close_closed.
  - eapply HInv_frame; [| | |exact HI]; simpl; done.
  - apply settle_hinv; [exact HCl| |intros _; exact Hok]. eapply HInv_frame; [| | |exact HI]; simpl; done.
  - (* Close racing with the reader *)
    set (s0 := settle c (set_held false s)) in *.
    assert (HCl0 : Cl s0) by (apply settle_Cl; exact HCl).
    assert (HI0 : HInv s0).
    { apply settle_hinv; [exact HCl| |intros _; exact Hok]. eapply HInv_frame; [| | |exact HI]; simpl; done. }
    destruct (k_fsop (K s0) o) as [k1 ok]. simpl.
    set (s2 := set_K (k_set_pend (skipn 10)) (set_K (fun _ => k1) s0)).
    assert (HI2 : HInv s2) by (eapply HInv_frame; [| | |exact HI0]; simpl; done).
    assert (HCl2 : Cl s2) by exact HCl0.
    set (s3 := api_close c s2).
    assert (HCl3 : Cl s3) by (eapply (steps_Cl (fun _ => True)); [apply api_close_steps|exact HCl2]).
    assert (HI3 : HInv s3) by (eapply HInv_closed_evs; [apply api_close_closed|apply api_close_evs|exact HI2]).
    assert (C3 : closed s3 = true) by apply api_close_closed.
    apply closed_settle_hinv.
    + eapply (steps_Cl (fun _ => True)); [apply handle_batch_steps|exact HCl3].
    + apply handle_batch_hinv; [exact HCl3|exact HI3|]. rewrite C3. discriminate.
    + rewrite handle_batch_closed. exact C3.
Qed.

Theorem run_hinv c h : forall s, Cl s -> HInv s -> run_ok c h s = true -> HInv (run c h s).
Proof.
  induction h as [|x r IH]; intros s HCl HI Hok; simpl in *; [exact HI|].
  apply andb_true_iff in Hok as [H1 H2].
  apply IH; [apply do_step_Cl; exact HCl|apply do_step_hinv; assumption|exact H2].
Qed.

End hist.

(* ------------------------------------------------------------------ 5. the theorems, for every history *)

(* from ANY state whose watch and link names are cleaned (every reachable state is), along ANY history satisfying the
   premise: the events sent from then on contain no Create for a name that is marked seen in the base state or had a
   Create since, unless a Remove / Rename for that name came in between *)
Theorem hist_general c s0 h :
  Cl s0 -> run_ok c h s0 = true ->
  exists new, evs (run c h s0) = (new ++ evs s0)%list /\ log_ok (fun p => bool_decide (p ∈ t_seen (T s0))) new = true.
Proof.
  intros HCl Hok.
  destruct (run_hinv (fun p => bool_decide (p ∈ t_seen (T s0))) (evs s0) c h s0 HCl) as (new & E & L & _); [|exact Hok|eauto].
  exists []. split; [reflexivity|]. split; [reflexivity|]. intros _ p Hp. simpl in Hp. apply bool_decide_eq_true in Hp. exact Hp.
Qed.

(* (1) create-once, unbounded *)
Theorem create_once_log c h : run_ok c h st_init = true -> log_ok (fun _ => false) (evs (run c h st_init)) = true.
Proof.
  intros Hok.
  destruct (run_hinv (fun _ => false) [] c h st_init Cl_init) as (new & E & L & _); [|exact Hok|].
  - exists []. split; [reflexivity|]. split; [reflexivity|]. intros _ p Hp. discriminate Hp.
  - rewrite E, app_nil_r. exact L.
Qed.

Theorem create_once_unbounded c h : run_ok c h st_init = true -> create_once (rev (evs (run c h st_init))).
Proof. intros Hok. eapply log_ok_create_once, create_once_log, Hok. Qed.

(* the same after an arbitrary prefix: only the part of the history under consideration has to satisfy the premise *)
Theorem create_once_suffix c h1 h2 :
  run_ok c h2 (run c h1 st_init) = true ->
  exists new, evs (run c (h1 ++ h2) st_init) = (new ++ evs (run c h1 st_init))%list /\ create_once (rev new).
Proof.
  intros Hok. destruct (hist_general c (run c h1 st_init) h2 (Cl_run c h1) Hok) as (new & E & L).
  exists new. split; [|eapply log_ok_create_once; exact L].
  unfold run in *. rewrite fold_left_app. exact E.
Qed.

(* (2) preexisting-silent, unbounded: a name marked seen when Add returns gets no Create before a Remove / Rename *)
Theorem seen_silent c s0 h p :
  Cl s0 -> run_ok c h s0 = true -> p ∈ t_seen (T s0) ->
  exists new, evs (run c h s0) = (new ++ evs s0)%list /\ silent_until_end p (rev new).
Proof.
  intros HCl Hok Hp. destruct (hist_general c s0 h HCl Hok) as (new & E & L). exists new. split; [exact E|].
  eapply log_ok_silent; [exact L|]. apply bool_decide_eq_true. exact Hp.
Qed.

Lemma run_add_unfold c s d h : run c (SAdd d :: h) s = run c h (settle c (api_add c s d).1).
Proof. unfold run. cbn [fold_left do_step]. destruct (api_add c s d) as [s1 r]. reflexivity. Qed.

Theorem settle_run_general c s0 h :
  Cl s0 -> settle_ok c s0 = true -> run_ok c h (settle c s0) = true ->
  exists new, evs (run c h (settle c s0)) = (new ++ evs s0)%list /\ log_ok (fun p => bool_decide (p ∈ t_seen (T s0))) new = true.
Proof.
  intros HCl Hok1 Hok2.
  assert (H0 : HInv (fun p => bool_decide (p ∈ t_seen (T s0))) (evs s0) s0).
  { exists []. split; [reflexivity|]. split; [reflexivity|]. intros _ p Hp. simpl in Hp. apply bool_decide_eq_true in Hp. exact Hp. }
  destruct (run_hinv (fun p => bool_decide (p ∈ t_seen (T s0))) (evs s0) c h (settle c s0) (settle_Cl c s0 HCl)) as (new & E & L & _); [|exact Hok2|eauto].
  apply settle_hinv; [exact HCl|exact H0|intros _; exact Hok1].
Qed.

Theorem preexisting_silent_seen c h1 d h2 :
  let s1 := run c h1 st_init in
  run_ok c (SAdd d :: h2) s1 = true ->
  exists new, evs (run c (h1 ++ SAdd d :: h2) st_init) = (new ++ evs s1)%list /\
              forall p, p ∈ t_seen (T (api_add c s1 d).1) -> silent_until_end p (rev new).
Proof.
  intros s1 Hok. cbn [run_ok step_ok] in Hok. apply andb_true_iff in Hok as [Hok1 Hok2].
  assert (HCl : Cl (api_add c s1 d).1) by (eapply (steps_Cl (fun _ => True)); [apply api_add_steps; exact I|apply Cl_run]).
  assert (Hd : (do_step c s1 (SAdd d)).1 = settle c (api_add c s1 d).1) by (cbn [do_step]; destruct (api_add c s1 d); reflexivity).
  rewrite Hd in Hok2.
  destruct (settle_run_general c _ h2 HCl Hok1 Hok2) as (new & E & L).
  exists new. split.
  - unfold run at 1. rewrite fold_left_app. fold (run c h1 st_init). fold s1. fold (run c (SAdd d :: h2) s1).
    rewrite run_add_unfold, E. rewrite (af_evs _ _ (api_add_frame c s1 d)). reflexivity.
  - intros p Hp. eapply log_ok_silent; [exact L|]. apply bool_decide_eq_true. exact Hp.
Qed.

(* --- which names a successful Add of a directory marks seen: every entry it scans, unless a FIFO was among them
       (a FIFO entry makes addWatch return "" and the name marked is "": key fifo-entry) *)

Lemma aw_finish_ret aw s name fd link isdir dflags already flags s' cp :
  aw_finish aw s name fd link isdir dflags already flags = (s', ROk cp) -> cp = name \/ cp = "".
Proof.
  unfold aw_finish. destruct (sys_register (K s) fd flags); [|discriminate].
  destruct isdir; [|intros [= _ <-]; auto].
  destruct (tb_updateDirFlags _ name flags); [|intros [= _ <-]; auto].
  destruct (has flags NOTE_WRITE && (negb already || negb (has dflags NOTE_WRITE))); [|intros [= _ <-]; auto].
  destruct (watchDirectoryFiles aw _ _) as [s4 [e|]]; [discriminate|intros [= _ <-]; auto].
Qed.

Lemma addWatch_ret fuel s p fl s' cp : addWatch fuel s p fl true = (s', ROk cp) -> cp = clean p \/ cp = "".
Proof.
  destruct fuel as [|fuel]; simpl; [discriminate|].
  destruct (closed s); [discriminate|].
  destruct (tb_byPath (T s) (clean p)) as [[fd info]|]; [apply aw_finish_ret|].
  destruct (v_lstat (fs_of s) (clean p)) as [e|k]; [discriminate|].
  destruct (is_fifo k); [intros [= _ <-]; auto|]. simpl.
  destruct (sys_open (K s) (clean p)) as [e|[k1 fd]]; [discriminate|apply aw_finish_ret].
Qed.

Lemma internalWatch_ret fuel s p k s' cp : internalWatch (addWatch fuel) s p k = (s', ROk cp) -> cp = clean p \/ cp = "".
Proof. unfold internalWatch. destruct (is_dir k); apply addWatch_ret. Qed.

Lemma wdf_loop_marks fuel d names : forall s s',
  wdf_loop (addWatch fuel) d names s = (s', None) ->
  forall f, In f names -> clean (pjoin d f) ∈ t_seen (T s') \/ "" ∈ t_seen (T s').
Proof.
  induction names as [|f0 r IH]; intros s s' H f Hf; [destruct Hf|]. simpl in H.
  destruct (v_lstat (fs_of s) (pjoin d f0)) as [e|k]; [discriminate|].
  pose proof (internalWatch_ret fuel s (pjoin d f0) k) as Hret.
  destruct (internalWatch (addWatch fuel) s (pjoin d f0) k) as [s1 r1].
  assert (Hmark : forall cp, wdf_loop (addWatch fuel) d r (set_T (fun t => tb_markSeen t cp true) s1) = (s', None) ->
                             (cp = clean (pjoin d f0) \/ cp = "") -> clean (pjoin d f) ∈ t_seen (T s') \/ "" ∈ t_seen (T s')).
  { intros cp Hl Hcp. destruct Hf as [<-|Hf]; [|eapply IH; eauto].
    pose proof (wdf_loop_frame (addWatch fuel) (addWatch_frame fuel) d r (set_T (fun t => tb_markSeen t cp true) s1)) as Hfr.
    rewrite Hl in Hfr. destruct Hfr as [_ _ Hsub _]. simpl in Hsub.
    destruct Hcp as [->| ->]; [left|right]; set_solver. }
  destruct r1 as [cp|e].
  - apply (Hmark cp H). eapply Hret. reflexivity.
  - destruct e as [| |o|]; try discriminate. destruct o; try discriminate. apply (Hmark _ H). auto.
Qed.

Lemma clean_ne s : clean s <> "".
Proof. rewrite clean_pathlex. apply PathLexProofs.clean_nonempty. Qed.

Lemma pjoin_clean a b : a <> "" -> clean (pjoin a b) = pjoin a b.
Proof.
  intros Ha. unfold pjoin. destruct (String.eqb a "") eqn:E; [apply String.eqb_eq in E; contradiction|].
  destruct (String.eqb b ""); apply clean_idem.
Qed.

Lemma addWatch_marks fuel s d s1 g names :
  addWatch (S fuel) s d noteAllEvents false = (s1, ROk g) ->
  tb_byPath (T s) (clean d) = None -> v_lstat (fs_of s) (clean d) = inr KDir -> v_readdir (fs_of s) (clean d) = inr names ->
  forall f, In f names -> clean (pjoin (clean d) f) ∈ t_seen (T s1) \/ "" ∈ t_seen (T s1).
Proof.
  intros Haw Hb Hl Hr f Hf.
  cbn [addWatch] in Haw.
  destruct (closed s); [discriminate|]. rewrite Hb, Hl in Haw. cbn [is_fifo is_link negb andb is_dir] in Haw.
  destruct (sys_open (K s) (clean d)) as [e|[k1 fd]] eqn:Eo; [discriminate|].
  assert (Hk1 : k_fs k1 = k_fs (K s)).
  { unfold sys_open in Eo. destruct (v_open (k_fs (K s)) (clean d)); [discriminate|]. injection Eo as <- _. reflexivity. }
  unfold aw_finish in Haw. cbn [K set_K] in Haw.
  destruct (sys_register k1 fd noteAllEvents) as [k2|] eqn:Er; [|discriminate].
  assert (Hk2 : k_fs k2 = k_fs (K s)).
  { unfold sys_register in Er. destruct (k_led k1 !! fd); [injection Er as <-; exact Hk1|discriminate]. }
  unfold tb_updateDirFlags in Haw. cbn [T set_T tb_add t_path] in Haw. rewrite lookup_insert in Haw.
  replace (has noteAllEvents NOTE_WRITE && (negb false || negb (has 0 NOTE_WRITE))) with true in Haw by (vm_compute; reflexivity).
  cbn [String.eqb] in Haw.
  match type of Haw with context [watchDirectoryFiles ?aw ?s3 ?dd] => destruct (watchDirectoryFiles aw s3 dd) as [s4 [e|]] eqn:Ew end; [discriminate|].
  injection Haw as <- _.
  unfold watchDirectoryFiles in Ew.
  match type of Ew with context [v_readdir ?fs _] => change fs with (k_fs k2) in Ew end.
  rewrite Hk2 in Ew. change (k_fs (K s)) with (fs_of s) in Ew. rewrite Hr in Ew.
  exact (wdf_loop_marks _ _ _ _ _ Ew f Hf).
Qed.

Theorem api_add_marks c s d s' got names :
  api_add c s d = (s', ROk got) ->
  tb_byPath (T s) (clean d) = None -> v_lstat (fs_of s) (clean d) = inr KDir -> v_readdir (fs_of s) (clean d) = inr names ->
  "" ∉ t_seen (T s') ->
  forall f, In f names -> pjoin (clean d) f ∈ t_seen (T s').
Proof.
  intros Ha Hb Hl Hr Hno f Hf.
  assert (Hs1 : exists s1 g, addWatch aw_fuel s d noteAllEvents false = (s1, ROk g) /\ t_seen (T s') = t_seen (T s1)).
  { unfold api_add in Ha. destruct (addWatch aw_fuel s d noteAllEvents false) as [s1 [g|e]]; [|discriminate].
    exists s1, g. split; [reflexivity|]. destruct (fx_fifo_user c && String.eqb g ""); injection Ha as <- _; reflexivity. }
  destruct Hs1 as (s1 & g & Haw & Hseen). rewrite Hseen in *. clear Ha Hseen.
  destruct (addWatch_marks 2 s d s1 g names Haw Hb Hl Hr f Hf) as [H|H]; [|contradiction].
  rewrite pjoin_clean in H by apply clean_ne. exact H.
Qed.

(* (2) in full: the entries a successful Add of a (not yet watched) directory finds get no Create before a Remove / Rename
   for them, however long the history goes on.  Premises: the Add succeeds on a real directory that is not watched yet,
   no FIFO among its entries ("" is not marked), and the part of the history from the Add on satisfies [run_ok]; the
   history before the Add is arbitrary. *)
Theorem preexisting_silent_unbounded c h1 d h2 names :
  let s1 := run c h1 st_init in
  (exists got, (api_add c s1 d).2 = ROk got) ->
  tb_byPath (T s1) (clean d) = None -> v_lstat (fs_of s1) (clean d) = inr KDir -> v_readdir (fs_of s1) (clean d) = inr names ->
  "" ∉ t_seen (T (api_add c s1 d).1) ->
  run_ok c (SAdd d :: h2) s1 = true ->
  exists new, evs (run c (h1 ++ SAdd d :: h2) st_init) = (new ++ evs s1)%list /\
              forall f, In f names -> silent_until_end (pjoin (clean d) f) (rev new).
Proof.
  intros s1 [got Hgot] Hb Hl Hr Hno Hok.
  destruct (preexisting_silent_seen c h1 d h2 Hok) as (new & E & Hs). fold s1 in E, Hs.
  exists new. split; [exact E|]. intros f Hf. apply Hs.
  destruct (api_add c s1 d) as [s1' r] eqn:Ea. cbn [fst snd] in *. subst r.
  eapply api_add_marks; eauto.
Qed.

(* ------------------------------------------------------------------ 6. the connection with the specification of KqModel section 7

   The specification follows the observation trace and keeps [sp_known] (names that pre-existed or had their Create)
   and [sp_pre] (the pre-existing ones among them).  While it is not closed, every known name that is not pre-existing
   is live in the model's log: its last Create/Remove/Rename event is a Create.  The specification reports
   "create-once" exactly when a Create arrives for such a name (same inode); [log_ok] says that no Create is sent for
   a live name.  Hence the clause never fails on the model's own trace, for every history satisfying the premise. *)

Definition SR (sp : spst) (l : list event) : Prop :=
  forall n, is_Some (sp_known sp !! n) -> n ∉ sp_pre sp -> live false n l = true.

Definition not_co (v : viol) : Prop := v.1 <> "create-once".

Lemma Forall_omap_nco {A} (f : A -> option viol) l : (forall a b, f a = Some b -> not_co b) -> Forall not_co (omap f l).
Proof. intros H. induction l as [|a l IH]; simpl; [constructor|]. destruct (f a) eqn:E; [constructor; eauto|auto]. Qed.

Lemma Forall_filter_nco (Q : viol -> Prop) `{forall x, Decision (Q x)} l : Forall not_co l -> Forall not_co (filter Q l).
Proof. rewrite !Forall_forall. intros H0 x Hx. apply elem_of_list_filter in Hx as [_ Hx]. auto. Qed.

Lemma sp_event_SR sp e l :
  SR sp l -> (is_create e = true -> live false (e_name e) l = false) ->
  SR (sp_event sp e).1 (e :: l) /\ Forall not_co (sp_event sp e).2.
Proof.
  intros HR Hlog. unfold sp_event.
  set (v_name := if str_in (e_name e) (map clean (sp_ever sp)) || str_in (dir (e_name e)) (map clean (sp_ever sp)) then [] else [("names-user-spelling", e_name e)]).
  assert (Hvn : Forall not_co v_name).
  { subst v_name. destruct (_ || _); [constructor|]. constructor; [unfold not_co; simpl; discriminate|constructor]. }
  destruct (has (e_op e) Create) eqn:Ec.
  - cbn [fst snd]. split.
    + intros n Hk Hp. cbn [sp_known sp_pre] in Hk, Hp. cbn [live]. unfold is_create. rewrite Ec.
      destruct (String.eqb (e_name e) n) eqn:En; [reflexivity|]. apply String.eqb_neq in En.
      rewrite lookup_insert_ne in Hk by done. apply HR; [exact Hk|set_solver].
    + apply Forall_app. split; [exact Hvn|].
      destruct (sp_known sp !! e_name e) as [j|] eqn:Ek; [|constructor].
      destruct (negb _); [constructor|].
      destruct (bool_decide (e_name e ∈ sp_pre sp)) eqn:Ep.
      * constructor; [unfold not_co; simpl; discriminate|constructor].
      * exfalso. apply bool_decide_eq_false in Ep.
        assert (Hl : live false (e_name e) l = true) by (apply HR; [rewrite Ek; eauto|exact Ep]).
        rewrite Hlog in Hl; [discriminate|exact Ec].
  - destruct (has (e_op e) Remove || has (e_op e) Rename) eqn:Ee.
    + cbn [fst snd]. split; [|exact Hvn].
      intros n Hk Hp. cbn [sp_known sp_pre] in Hk, Hp. destruct Hk as [j Hj].
      apply map_filter_lookup_Some in Hj as [Hj HP]. cbn [fst snd] in HP.
      apply andb_prop_elim in HP as [HP _]. apply negb_prop_elim in HP.
      assert (Hne : n <> e_name e).
      { intros ->. apply HP. rewrite String.eqb_refl. exact I. }
      cbn [live]. replace (String.eqb (e_name e) n) with false by (symmetry; apply String.eqb_neq; congruence).
      apply HR; [eauto|set_solver].
    + cbn [fst snd]. split; [|exact Hvn].
      intros n Hk Hp. cbn [live]. unfold is_create, is_end. rewrite Ec, (orb_comm (has (e_op e) Rename)), Ee.
      destruct (String.eqb (e_name e) n); apply HR; assumption.
Qed.

Lemma sp_events_SR : forall chron sp l,
  SR sp l -> log_ok (fun _ => false) (rev chron ++ l) = true ->
  SR (sp_events sp chron).1 (rev chron ++ l) /\ Forall not_co (sp_events sp chron).2.
Proof.
  induction chron as [|e r IH]; intros sp l HR Hlog; [simpl; split; [exact HR|constructor]|].
  cbn [sp_events]. cbn [rev] in *. rewrite <- app_assoc in *. cbn [app] in *.
  assert (Hel : log_ok (fun _ => false) (e :: l) = true) by (eapply log_ok_suffix; exact Hlog).
  destruct (sp_event_SR sp e l HR) as [HR1 Hv1]; [intros Hc; exact (log_ok_head _ _ _ Hel Hc)|].
  destruct (sp_event sp e) as [sp1 v1]. cbn [fst snd] in *.
  destruct (IH sp1 (e :: l) HR1 Hlog) as [HR2 Hv2].
  destruct (sp_events sp1 r) as [sp2 v2]. cbn [fst snd] in *.
  split; [exact HR2|]. apply Forall_app. auto.
Qed.

Lemma sp_event_closed sp e : sp_closed (sp_event sp e).1 = sp_closed sp.
Proof. unfold sp_event. destruct (has (e_op e) Create); [reflexivity|]. destruct (_ || _); reflexivity. Qed.
Lemma sp_events_closed : forall l sp, sp_closed (sp_events sp l).1 = sp_closed sp.
Proof.
  induction l as [|e r IH]; intros sp; [reflexivity|]. cbn [sp_events].
  pose proof (sp_event_closed sp e) as H1. destruct (sp_event sp e) as [sp1 v1]. cbn [fst] in H1.
  pose proof (IH sp1) as H2. destruct (sp_events sp1 r) as [sp2 v2]. cbn [fst] in *. congruence.
Qed.

Lemma fold_known_in (ents : list (string * N)) : forall (m : gmap string N) n,
  is_Some (fold_left (fun m (ni : string * N) => <[ ni.1 := ni.2 ]> m) ents m !! n) -> In n (map fst ents) \/ is_Some (m !! n).
Proof.
  induction ents as [|[a i] r IH]; intros m n H; [right; exact H|]. cbn [fold_left map fst] in *.
  destruct (IH _ _ H) as [Hi|Hs]; [left; right; exact Hi|].
  cbn [fst snd] in Hs. destruct (decide (a = n)) as [->|Hne]; [left; left; reflexivity|].
  rewrite lookup_insert_ne in Hs by done. right. exact Hs.
Qed.
Lemma fold_pre_in (ents : list (string * N)) : forall (S : gset string) n,
  In n (map fst ents) \/ n ∈ S -> n ∈ fold_left (fun m (ni : string * N) => {[ ni.1 ]} ∪ m) ents S.
Proof.
  induction ents as [|[a i] r IH]; intros S n H; [destruct H as [[]|H]; exact H|]. cbn [fold_left map fst] in *.
  apply IH. cbn [fst]. destruct H as [[->|H]|H]; [right; set_solver|left; exact H|right; set_solver].
Qed.

Lemma expect_change_nco sp o p follow op what : Forall not_co (expect_change sp o p follow op what).
Proof.
  unfold expect_change. destruct (ino_of (sp_fs sp) p follow); [|constructor]. destruct (is_file _); [|constructor].
  apply Forall_omap_nco. intros a b H. destruct (_ || _); [discriminate|]. injection H as <-. unfold not_co. simpl. discriminate.
Qed.

Ltac nco_one := unfold not_co; simpl; discriminate.
Ltac nco_omap := apply Forall_omap_nco; let a := fresh in let b := fresh in let H := fresh in
                 intros a b H; repeat case_match; try discriminate; simplify_eq; nco_one.

Lemma sp_c17_nco sp x o : Forall not_co (sp_c17 sp x o).
Proof.
  unfold sp_c17. destruct (sp_closed sp).
  - destruct x; try constructor.
    + apply Forall_app; split; repeat case_match; repeat constructor; try nco_one.
    + apply Forall_app; split; repeat case_match; repeat constructor; try nco_one.
  - apply Forall_app; split; [nco_omap|].
    apply Forall_app; split.
    { destruct x; try constructor. destruct (ob_ok o); [nco_omap|]. case_match; repeat constructor; nco_one. }
    apply Forall_app; split.
    { destruct (sp_held sp); [constructor|nco_omap]. }
    destruct (sp_user sp); [|nco_omap]. case_match; repeat constructor; nco_one.
Qed.

Lemma sp_c18_idle_nco sp : Forall not_co (sp_c18_idle sp).
Proof.
  unfold sp_c18_idle. destruct (_ || _); [constructor|].
  apply Forall_app; split; [|apply Forall_app; split; nco_omap].
  apply Forall_concat. apply Forall_forall. intros l Hl. apply elem_of_list_In, in_map_iff in Hl as (bi & <- & _).
  destruct (_ && _); [|constructor]. nco_omap.
Qed.

Lemma firstn_new {A} (new old : list A) : firstn (length (new ++ old) - length old) (new ++ old) = new.
Proof.
  rewrite app_length. replace (length new + length old - length old)%nat with (length new) by lia.
  rewrite firstn_app, Nat.sub_diag, firstn_all. simpl. apply app_nil_r.
Qed.

Definition SRc (sp : spst) (l : list event) : Prop := sp_closed sp = false -> SR sp l.

Lemma spec_step_SR sp x o l new :
  SRc sp l -> ob_evs o = rev new -> log_ok (fun _ => false) (new ++ l) = true ->
  SRc (spec_step sp x o).1 (new ++ l) /\ Forall not_co (spec_step sp x o).2.
Proof.
  intros HR Hev Hlog. unfold spec_step.
  set (pre_v := if sp_held sp || sp_closed sp then [] else _).
  assert (Hpre : Forall not_co pre_v).
  { subst pre_v. destruct (_ || _); [constructor|]. destruct x; try constructor. destruct o0; try constructor;
      (destruct (ob_ok o); [apply expect_change_nco|constructor]). }
  match goal with |- context [sp_events ?a (ob_evs o)] => set (sp1 := a) end.
  assert (H1 : (sp_closed sp = true -> sp_closed sp1 = true) /\ (match x with SCloseRace _ => sp_closed sp1 = true | _ => True end)
               /\ (sp_closed sp = false -> SR sp1 l)).
  { subst sp1. split; [|split].
    - intros Hc. destruct x; try exact Hc; try reflexivity. destruct (ob_ok o); [|exact Hc]. destruct (fs_apply (sp_fs sp) o0) as [[fs' ?]|]; exact Hc.
    - destruct x; try exact I. reflexivity.
    - intros Hc. specialize (HR Hc).
      destruct x; try exact HR; try (intros n [j Hj]; cbn [sp_known] in Hj; rewrite lookup_empty in Hj; discriminate).
      destruct (ob_ok o); [|exact HR]. destruct (fs_apply (sp_fs sp) o0) as [[fs' ?]|]; exact HR. }
  destruct H1 as (Hc1 & Hrace & HR1).
  set (racing := match x with SCloseRace _ => true | _ => false end).
  assert (Hrc : racing = true -> sp_closed sp1 = true).
  { subst racing. destruct x; try discriminate. intros _. exact Hrace. }
  clearbody sp1 pre_v racing.
  destruct (sp_closed sp || racing) eqn:Ecr.
  - (* the events of the step are not judged; afterwards the specification is closed *)
    assert (Hcl1 : sp_closed sp1 = true).
    { apply orb_true_iff in Ecr as [Hc|Hr]; auto. }
    cbn [fst snd].
    split.
    + intros Hc. exfalso.
      destruct x; try congruence; (rewrite Hcl1 in Hc; cbn [negb] in Hc; rewrite andb_false_r in Hc; congruence).
    + apply Forall_app; split; [exact Hpre|]. apply Forall_app; split; [apply Forall_filter_nco; constructor|].
      apply Forall_app; split; [|apply Forall_app; split; [apply sp_c17_nco|apply Forall_filter_nco, sp_c18_idle_nco]].
      destruct x; try constructor. case_match; repeat constructor; nco_one.
  - apply orb_false_iff in Ecr as [Hc Hr].
    rewrite Hev. destruct (sp_events_SR (rev new) sp1 l (HR1 Hc)) as [HR2 Hv2]; [rewrite rev_involutive; exact Hlog|].
    rewrite rev_involutive in HR2.
    destruct (sp_events sp1 (rev new)) as [sp2 v_ev]. cbn [fst snd] in *.
    split.
    + intros _.
      destruct x; try exact HR2.
      * (* Add *)
        destruct (ob_ok o && negb (sp_closed sp2)); [|exact HR2].
        intros n Hk Hp. cbn [sp_known sp_pre] in Hk, Hp.
        apply fold_known_in in Hk as [Hin|Hk].
        -- exfalso. apply Hp. apply fold_pre_in. left. exact Hin.
        -- apply HR2; [exact Hk|]. intros Hn. apply Hp. apply fold_pre_in. right. exact Hn.
      * (* Remove *)
        destruct (ob_ok o && negb (sp_closed sp2)); [|exact HR2].
        intros n Hk Hp. cbn [sp_known sp_pre] in Hk, Hp. destruct Hk as [j Hj].
        apply map_filter_lookup_Some in Hj as [Hj _]. apply HR2; eauto.
    + apply Forall_app; split; [exact Hpre|]. apply Forall_app; split; [apply Forall_filter_nco; exact Hv2|].
      apply Forall_app; split; [|apply Forall_app; split; [apply sp_c17_nco|apply Forall_filter_nco, sp_c18_idle_nco]].
      destruct x; try constructor. case_match; repeat constructor; nco_one.
Qed.

Lemma step_evs_ext c s x : Cl s -> step_ok c s x = true -> exists new, evs (do_step c s x).1 = (new ++ evs s)%list.
Proof.
  intros HCl Hok.
  destruct (do_step_hinv (fun p => bool_decide (p ∈ t_seen (T s))) (evs s) c s x HCl) as (new & E & _); [|exact Hok|eauto].
  exists []. split; [reflexivity|]. split; [reflexivity|]. intros _ p Hp. simpl in Hp. apply bool_decide_eq_true in Hp. exact Hp.
Qed.

Lemma trace_nco c h : forall s sp n,
  Cl s -> run_ok c h s = true -> log_ok (fun _ => false) (evs (run c h s)) = true -> SRc sp (evs s) ->
  Forall (fun v : nat * viol => not_co v.2) (spec_trace sp n (model_trace c s h)).
Proof.
  induction h as [|x r IH]; intros s sp n HCl Hok Hlog HR; [constructor|].
  cbn [run_ok] in Hok. apply andb_true_iff in Hok as [Hok1 Hok2].
  destruct (step_evs_ext c s x HCl Hok1) as (new & Hnew).
  pose proof (do_step_Cl c s x HCl) as HCl'.
  destruct (hist_general c _ r HCl' Hok2) as (Y & HY & _).
  assert (Hrun : run c (x :: r) s = run c r (do_step c s x).1) by reflexivity.
  rewrite Hrun in Hlog.
  assert (Hlog' : log_ok (fun _ => false) (new ++ evs s) = true).
  { rewrite HY, Hnew in Hlog. eapply log_ok_suffix. exact Hlog. }
  cbn [model_trace]. unfold model_obs.
  destruct (do_step c s x) as [s' res]. cbn [fst] in *.
  cbn [spec_trace].
  match goal with |- context [spec_step sp x ?o] => set (ob := o) end.
  assert (Hev : ob_evs ob = rev new) by (subst ob; cbn [ob_evs]; rewrite Hnew, firstn_new; reflexivity).
  destruct (spec_step_SR sp x ob (evs s) new HR Hev Hlog') as [HR' Hv].
  destruct (spec_step sp x ob) as [sp' v]. cbn [fst snd] in *.
  apply Forall_app. split.
  - apply Forall_forall. intros y Hy. apply elem_of_list_In, in_map_iff in Hy as (v0 & <- & Hv0).
    cbn [snd]. rewrite Forall_forall in Hv. apply Hv, elem_of_list_In, Hv0.
  - apply IH; [exact HCl'|exact Hok2|exact Hlog|rewrite Hnew; exact HR'].
Qed.

(* (3) the clause "create-once" of the specification never fails on the model's own trace, for every history
   satisfying the premise *)
Theorem spec_create_once_unbounded c h : run_ok c h st_init = true -> fails "create-once" c h = false.
Proof.
  intros Hok. unfold fails, clause_fails, spec_of_model.
  pose proof (trace_nco c h st_init sp_init 0%nat Cl_init Hok (create_once_log c h Hok)) as H.
  assert (H0 : SRc sp_init (evs st_init)).
  { intros _ n [j Hj]. cbn in Hj. rewrite lookup_empty in Hj. discriminate. }
  specialize (H H0). induction H as [|y l Hy _ IH]; [reflexivity|].
  cbn [existsb]. rewrite IH, orb_false_r. apply String.eqb_neq. exact Hy.
Qed.

(* ------------------------------------------------------------------ 7. the premise: satisfiable, and false on the witnesses *)

(* non-vacuity: the premise holds on h_plain (KqInv.v: 22 events; pre-existing entry, unclean spelling of the Add, rename,
   remove and re-create, two bursts with hold/release — one removing and re-creating a name —, overwrite by rename,
   removal of the directory), on bursts of the bounded families, and after a Close *)
Definition h_burst : list step :=
  [SFs (OMkdir "d"); SFs (OCreate "d/pre"); SAdd "d"; SHold; SFs (OCreate "d/a"); SFs (OUnlink "d/a"); SFs (OCreate "d/a");
   SFs (OUnlink "d/pre"); SFs (OCreate "d/pre"); SFs (OMkdir "d/s"); SRelease; SFs (ORename "d/a" "d/b"); SFs (OCreate "d/a");
   SFs (ORmdir "d/s"); SFs (OMkdir "d/s"); SRemove "nowhere"; SClose; SFs (OCreate "d/z"); SRemove "d"].

Example run_ok_examples :
  run_ok cfg_repo h_plain st_init = true /\ length (evs (run cfg_repo h_plain st_init)) = 22%nat
  /\ run_ok cfg_repo h_burst st_init = true /\ length (evs (run cfg_repo h_burst st_init)) = 9%nat
  /\ run_ok cfg_before_fix h_plain st_init = true.
Proof. vm_compute. repeat split; reflexivity. Qed.

(* the Rename of a directory watch that arrives together with a Write is dropped by the reader (handle: dirChange INSTEAD
   of sendEvent): the user-watched directory p/d is written and renamed away in one burst, then a new p/d is made.
   Log: Create p/d, Create p/e, Create p/d — two Creates for p/d and nothing in between.  The premise excludes it. *)
Definition w_dir_rename_dropped : list step :=
  [SFs (OMkdir "p"); SAdd "p"; SFs (OMkdir "p/d"); SAdd "p/d"; SHold; SFs (OCreate "p/d/x"); SFs (ORename "p/d" "p/e"); SRelease;
   SFs (OMkdir "p/d")].
(* Remove of an entry by the user unmarks it without any event; the next change of the directory reports it again *)
Definition w_remove_entry_recreated : list step := w_remove_unadded ++ [SFs (OCreate "d/y")].

Example create_once_log_refuted :
  (rev (evs (run cfg_repo w_dir_rename_dropped st_init))
     = [ {| e_name := "p/d"; e_op := Create |}; {| e_name := "p/e"; e_op := Create |}; {| e_name := "p/d"; e_op := Create |} ]
   /\ log_ok (fun _ => false) (evs (run cfg_repo w_dir_rename_dropped st_init)) = false
   /\ fails "remove-missed" cfg_repo w_dir_rename_dropped = true)
  /\ (rev (evs (run cfg_repo w_remove_entry_recreated st_init))
        = [ {| e_name := "d/x"; e_op := Create |}; {| e_name := "d/x"; e_op := Create |}; {| e_name := "d/y"; e_op := Create |} ]
      /\ log_ok (fun _ => false) (evs (run cfg_repo w_remove_entry_recreated st_init)) = false)
  /\ log_ok (fun _ => false) (evs (run cfg_repo w_fifo_entry st_init)) = false
  /\ log_ok (fun _ => false) (evs (run cfg_repo w_dangling st_init)) = false.
Proof. vm_compute. repeat split; reflexivity. Qed.

(* the premise is false on every witness that refutes create-once / preexisting-silent (KqInv.v) and on the two above *)
Example run_ok_false_on_witnesses :
  run_ok cfg_repo w_fifo_entry st_init = false          (* create_once_refuted, key fifo-entry *)
  /\ run_ok cfg_repo w_dangling st_init = false         (* create_once_refuted, key dangling-symlink-entry *)
  /\ run_ok cfg_repo w_fifo_pre st_init = false         (* preexisting_silent_refuted, key fifo-entry *)
  /\ run_ok cfg_repo w_failed_add st_init = false       (* names_user_spelling_refuted, key dangling-symlink-entry *)
  /\ run_ok cfg_repo w_remove_unadded st_init = false   (* key remove-of-unadded-succeeds *)
  /\ run_ok cfg_repo w_entry_user_removed st_init = false
  /\ run_ok cfg_repo w_dir_rename_dropped st_init = false
  /\ run_ok cfg_repo w_remove_entry_recreated st_init = false.
Proof. vm_compute. repeat split; reflexivity. Qed.

(* … and the extra premise of the marking theorem is false on the preexisting-silent witness: the FIFO is filed as "" *)
Example fifo_pre_marks_empty_name :
  let s := run cfg_repo [SFs (OMkdir "d"); SFs (OMkfifo "d/p"); SAdd "d"] st_init in
  "" ∈ t_seen (T s) /\ "d/p" ∉ t_seen (T s).
Proof. vm_compute. split; [reflexivity|]. intros H. discriminate H. Qed.

(* the witnesses of the OTHER clauses (recreate, remove-missed, create-missed: keys symlink-entry,
   rename-then-recreate-in-burst) satisfy the premise; create-once does hold on them, as the theorem says *)
Example run_ok_other_witnesses :
  run_ok cfg_repo w_link_entry st_init = true /\ run_ok cfg_repo w_dir_removed st_init = true /\ run_ok cfg_repo w_burst st_init = true
  /\ fails "create-once" cfg_repo w_link_entry = false /\ fails "create-once" cfg_repo w_dir_removed = false
  /\ fails "create-once" cfg_repo w_burst = false.
Proof. vm_compute. repeat split; reflexivity. Qed.

(* ------------------------------------------------------------------ 8. what the premise excludes: the check [sc_ok] can only fail
   for a FIFO, for a symlink, or for a name that is watched already without being marked *)

Lemma resolve_nofollow_follow fs : forall fuel cur cs stk i,
  resolve fuel fs cur cs false = inr (stk, i) -> is_link (kind_of fs i) = false -> resolve fuel fs cur cs true = inr (stk, i).
Proof.
  induction fuel as [|fuel IH]; intros cur cs stk i H Hk; [discriminate|]. cbn [resolve] in *.
  destruct cs as [|c r]; [exact H|].
  destruct (String.eqb c "" || String.eqb c "."); [apply IH; assumption|].
  destruct (String.eqb c ".."); [apply IH; assumption|].
  destruct (f_ent fs !! cpath (c :: cur)) as [i0|]; [|exact H].
  destruct (f_kind fs !! i0) as [k0|] eqn:Ek; [|exact H].
  destruct k0 as [| |t|]; try exact H; [apply IH; assumption|].
  destruct r as [|c' r'].
  - injection H as <- <-. unfold kind_of in Hk. rewrite Ek in Hk. discriminate.
  - destruct (is_abs t); [destruct (abs_comps (split_slash t)); [apply IH; assumption|exact H]|apply IH; assumption].
Qed.

Lemma lstat_open fs p k : v_lstat fs p = inr k -> is_link k = false -> exists i, v_open fs p = inr i.
Proof.
  unfold v_lstat, v_open, lookup_path. intros H Hk.
  destruct (is_abs p).
  - destruct (abs_comps (split_slash p)) as [rest|]; [|discriminate].
    destruct (resolve res_fuel fs [] rest false) as [e|[stk i]] eqn:E; [discriminate|]. injection H as <-.
    rewrite (resolve_nofollow_follow fs _ _ _ _ _ E Hk). eauto.
  - destruct (resolve res_fuel fs [] (split_slash p) false) as [e|[stk i]] eqn:E; [discriminate|]. injection H as <-.
    rewrite (resolve_nofollow_follow fs _ _ _ _ _ E Hk). eauto.
Qed.

Theorem sc_ok_fresh s p k :
  v_lstat (fs_of s) p = inr k -> is_fifo k = false -> is_link k = false -> tb_byPath (T s) p = None -> clean p = p ->
  sc_ok s p k = true.
Proof.
  intros Hl Hf Hk Hb Hc. unfold sc_ok. destruct (tb_seenBefore (T s) p); [reflexivity|].
  destruct (closed s) eqn:Ecl; [reflexivity|]. cbn [orb].
  unfold sendEvent. cbn [e_op]. replace (N.eqb Create 0) with false by reflexivity. rewrite Ecl. cbn [fst].
  match goal with |- context [internalWatch aw_entry ?s0 p k] => set (s0' := s0) end.
  assert (Hb0 : tb_byPath (T s0') p = None) by exact Hb.
  assert (Hl0 : v_lstat (fs_of s0') p = inr k) by exact Hl.
  assert (Hc0 : closed s0' = false) by reflexivity.
  destruct (lstat_open _ _ _ Hl0 Hk) as [i Hi].
  assert (Haw : forall fl, has fl NOTE_WRITE = false \/ is_dir k = false -> (addWatch 2 s0' p fl true).2 = ROk p).
  { intros fl Hfl. clearbody s0'. cbn [addWatch]. rewrite Hc0, Hc, Hb0, Hl0, Hf. cbn [negb andb].
    unfold sys_open. change (k_fs (K s0')) with (fs_of s0'). rewrite Hi. unfold aw_finish. cbn [K set_K].
    unfold sys_register. cbn [k_led]. rewrite lookup_insert.
    destruct (is_dir k) eqn:Ed; [|reflexivity].
    unfold tb_updateDirFlags. cbn [T set_T tb_add t_path]. rewrite lookup_insert.
    destruct Hfl as [Hfl|Hfl]; [|discriminate]. rewrite Hfl. reflexivity. }
  unfold internalWatch, aw_entry. destruct (is_dir k) eqn:Ed.
  - rewrite Hb0. rewrite Haw; [apply String.eqb_refl|]. left. vm_compute. reflexivity.
  - rewrite Haw; [apply String.eqb_refl|]. right. reflexivity.
Qed.

(* ------------------------------------------------------------------ 9. the specification's clause "preexisting-silent"

   For this clause the specification's bookkeeping has to be related to the model's state: the specification's copy
   of the filesystem is the model's, it is closed when the watcher is, and every name in [sp_pre] is marked seen.
   The last point needs one more check along the run ([add_ok]): after a successful Add every entry of the directory
   is marked seen (api_add_marks: so it is for a directory that was not watched, unless a FIFO is among the entries). *)

(* --- the reader and the API leave the filesystem alone *)

Lemma sendCreateIfNew_fs s p k : fs_of (sendCreateIfNew s p k).1 = fs_of s.
Proof.
  unfold sendCreateIfNew.
  assert (H0 : fs_of (if tb_seenBefore (T s) p then (s, true) else sendEvent s {| e_name := p; e_op := Create |}).1 = fs_of s).
  { destruct (tb_seenBefore (T s) p); [reflexivity|]. unfold sendEvent. simpl. destruct (closed s) eqn:E; reflexivity. }
  destruct (if tb_seenBefore (T s) p then (s, true) else sendEvent s {| e_name := p; e_op := Create |}) as [s0 sent]. simpl in H0.
  destruct sent; simpl; [|exact H0].
  pose proof (internalWatch_frame aw_entry (addWatch_frame 2) s0 p k) as Hf.
  destruct (internalWatch aw_entry s0 p k) as [s1 [p'|e]]; simpl in *; rewrite <- H0; apply Hf.
Qed.

Lemma dc_loop_fs d names : forall s, fs_of (dc_loop d names s).1 = fs_of s.
Proof.
  induction names as [|f r IH]; intros s; simpl; [reflexivity|].
  destruct (v_lstat (fs_of s) (pjoin d f)) as [e|k]; simpl; [destruct e; reflexivity|].
  pose proof (sendCreateIfNew_fs s (pjoin d f) k) as H.
  destruct (sendCreateIfNew s (pjoin d f) k) as [s1 [e|]]; simpl in *.
  - destruct (ignorable e); exact H.
  - rewrite IH. exact H.
Qed.

Lemma dirChange_fs s d : fs_of (dirChange s d).1 = fs_of s.
Proof. unfold dirChange. destruct (v_readdir (fs_of s) d) as [e|names]; simpl; [destruct e; reflexivity|apply dc_loop_fs]. Qed.

Lemma tail_fs s e : fs_of (let '(s4, sent) := sendError s e in if sent then s4 else reader_exit s4) = fs_of s.
Proof. unfold sendError. destruct e; simpl; [|reflexivity]. destruct (closed s); reflexivity. Qed.

Lemma after_remove_fs s w ev : fs_of (after_remove s w ev) = fs_of s.
Proof.
  unfold after_remove. destruct (has (e_op ev) Remove); [|reflexivity].
  destruct (w_isdir w).
  - destruct (tb_byPath (T s) (clean (e_name ev))); [|reflexivity].
    pose proof (dirChange_fs s (clean (e_name ev))) as H. destruct (dirChange s (clean (e_name ev))) as [s3 e]. simpl in H.
    rewrite tail_fs. exact H.
  - destruct (v_lstat (fs_of s) (clean (e_name ev))) as [e|k]; [reflexivity|].
    pose proof (sendCreateIfNew_fs s (clean (e_name ev)) k) as H. destruct (sendCreateIfNew s (clean (e_name ev)) k) as [s3 e]. simpl in H.
    rewrite tail_fs. exact H.
Qed.

Lemma sendEvent_fs s e : fs_of (sendEvent s e).1 = fs_of s.
Proof. unfold sendEvent. destruct (N.eqb (e_op e) 0); [reflexivity|]. destruct (closed s); reflexivity. Qed.

Lemma handle_fs c s r : fs_of (handle c s r) = fs_of s.
Proof.
  unfold handle. destruct r as [fd mask]. destruct (N.eqb fd 0); [reflexivity|].
  set (w := default watch0 (tb_byWd (T s) fd)). set (ev := newEvent (w_name w) (w_link w) mask).
  set (s1 := if has (e_op ev) Rename || has (e_op ev) Remove then _ else s).
  assert (H1 : fs_of s1 = fs_of s).
  { subst s1. destruct (has (e_op ev) Rename || has (e_op ev) Remove); [|reflexivity]. apply (rf_fs _ _ (remove_frame c s (e_name ev) false)). }
  destruct (w_isdir w && has (e_op ev) Write && negb (has (e_op ev) Remove)).
  - rewrite after_remove_fs, dirChange_fs. exact H1.
  - pose proof (sendEvent_fs s1 ev) as H2. destruct (sendEvent s1 ev) as [s2 sent]. simpl in H2.
    destruct sent; [rewrite after_remove_fs|change (fs_of (reader_exit s2)) with (fs_of s2)]; congruence.
Qed.

Lemma handle_batch_fs c b : forall s, fs_of (handle_batch c s b) = fs_of s.
Proof. induction b as [|r rest IH]; intros s; simpl; [reflexivity|]. destruct (gone s); [reflexivity|]. rewrite IH. apply handle_fs. Qed.

Lemma read_all_fs c fuel : forall s, fs_of (read_all c fuel s) = fs_of s.
Proof.
  induction fuel as [|fuel IH]; intros s; simpl; [reflexivity|]. destruct (gone s); [reflexivity|].
  destruct (k_pend (K s)); [reflexivity|]. rewrite IH, handle_batch_fs. reflexivity.
Qed.

Lemma settle_fs c s : fs_of (settle c s) = fs_of s.
Proof. unfold settle. destruct (held s); [reflexivity|apply read_all_fs]. Qed.

Lemma api_close_fs c s : fs_of (api_close c s) = fs_of s.
Proof.
  unfold api_close. destruct (closed s); [reflexivity|]. unfold fs_of. simpl.
  destruct (fx_close c); [|reflexivity]. rewrite (rf_fs _ _ (fold_remove_frame _ _)). reflexivity.
Qed.

Lemma fold_raise_fs hints : forall k, k_fs (fold_left k_raise hints k) = k_fs k.
Proof. induction hints as [|[i h] r IH]; intros k; simpl; [reflexivity|]. rewrite IH. reflexivity. Qed.

Definition fs_after (fs : fsst) (o : fsop) : fsst := match fs_apply fs o with Some (fs', _) => fs' | None => fs end.
Definition fs_ok (fs : fsst) (o : fsop) : bool := match fs_apply fs o with Some _ => true | None => false end.

Lemma k_fsop_fs k o : k_fs (k_fsop k o).1 = fs_after (k_fs k) o /\ (k_fsop k o).2 = fs_ok (k_fs k) o.
Proof.
  unfold k_fsop, fs_after, fs_ok. destruct (fs_apply (k_fs k) o) as [[fs' hints]|]; simpl; [|auto].
  rewrite fold_raise_fs. auto.
Qed.

Lemma api_remove_fs c s p : fs_of (api_remove c s p).1 = fs_of s.
Proof. unfold api_remove. destruct (closed s); [reflexivity|]. apply (rf_fs _ _ (remove_core_frame _ s p true)). Qed.

Lemma do_step_fs c s x :
  fs_of (do_step c s x).1 = match x with SFs o | SCloseRace o => fs_after (fs_of s) o | _ => fs_of s end.
Proof.
  destruct x; cbn [do_step].
  - pose proof (k_fsop_fs (K s) o) as [A _]. destruct (k_fsop (K s) o) as [k1 ok]. cbn [fst] in *. rewrite settle_fs. exact A.
  - pose proof (af_fs _ _ (api_add_frame c s p)) as A. destruct (api_add c s p) as [s1 r]. cbn [fst] in *. rewrite settle_fs. exact A.
  - pose proof (api_remove_fs c s p) as A. destruct (api_remove c s p) as [s1 r]. cbn [fst] in *. rewrite settle_fs. exact A.
  - reflexivity.
  - cbn [fst]. rewrite settle_fs, api_close_fs, settle_fs. reflexivity.
  - reflexivity.
  - cbn [fst]. rewrite settle_fs. reflexivity.
  - set (s0 := settle c (set_held false s)).
    assert (H0 : fs_of s0 = fs_of s) by (subst s0; rewrite settle_fs; reflexivity).
    pose proof (k_fsop_fs (K s0) o) as [A _]. destruct (k_fsop (K s0) o) as [k1 ok]. cbn [fst] in *.
    rewrite settle_fs, handle_batch_fs, api_close_fs. unfold fs_of in *. simpl. rewrite A, H0. reflexivity.
Qed.

Lemma do_step_ok c s x :
  match x with SFs o => (do_step c s x).2 = RFs (fs_ok (fs_of s) o) | SCloseRace o => (do_step c s x).2 = RFs (fs_ok (fs_of s) o) | _ => True end.
Proof.
  destruct x; cbn [do_step]; try exact I.
  - pose proof (k_fsop_fs (K s) o) as [_ B]. destruct (k_fsop (K s) o) as [k1 ok]. cbn [snd] in *. rewrite B. reflexivity.
  - set (s0 := settle c (set_held false s)).
    assert (H0 : fs_of s0 = fs_of s) by (subst s0; rewrite settle_fs; reflexivity).
    pose proof (k_fsop_fs (K s0) o) as [_ B]. destruct (k_fsop (K s0) o) as [k1 ok]. cbn [snd] in *. rewrite B.
    unfold fs_of in H0. rewrite H0. reflexivity.
Qed.

Lemma do_step_closed c s x :
  closed (do_step c s x).1 = match x with SClose | SCloseRace _ => true | _ => closed s end.
Proof.
  destruct x; cbn [do_step].
  - destruct (k_fsop (K s) o) as [k1 ok]. cbn [fst]. rewrite settle_closed. reflexivity.
  - pose proof (af_closed _ _ (api_add_frame c s p)) as A. destruct (api_add c s p) as [s1 r]. cbn [fst] in *. rewrite settle_closed. exact A.
  - assert (A : closed (api_remove c s p).1 = closed s).
    { unfold api_remove. destruct (closed s) eqn:E; [exact E|]. rewrite (rf_closed _ _ (remove_core_frame _ s p true)). exact E. }
    destruct (api_remove c s p) as [s1 r]. cbn [fst] in *. rewrite settle_closed. exact A.
  - reflexivity.
  - cbn [fst]. rewrite settle_closed. apply api_close_closed.
  - reflexivity.
  - cbn [fst]. rewrite settle_closed. reflexivity.
  - destruct (k_fsop (K (settle c (set_held false s))) o) as [k1 ok]. cbn [fst].
    rewrite settle_closed, handle_batch_closed. apply api_close_closed.
Qed.

(* --- the specification's side *)

Lemma sp_event_fs sp e : sp_fs (sp_event sp e).1 = sp_fs sp.
Proof. unfold sp_event. destruct (has (e_op e) Create); [reflexivity|]. destruct (_ || _); reflexivity. Qed.
Lemma sp_events_fs : forall l sp, sp_fs (sp_events sp l).1 = sp_fs sp.
Proof.
  induction l as [|e r IH]; intros sp; [reflexivity|]. cbn [sp_events].
  pose proof (sp_event_fs sp e) as H1. destruct (sp_event sp e) as [sp1 v1]. cbn [fst] in H1.
  pose proof (IH sp1) as H2. destruct (sp_events sp1 r) as [sp2 v2]. cbn [fst] in *. congruence.
Qed.

Lemma spec_step_fs_closed sp x o :
  sp_fs (spec_step sp x o).1 = match x with
                               | SFs op | SCloseRace op => if ob_ok o then fs_after (sp_fs sp) op else sp_fs sp
                               | _ => sp_fs sp end
  /\ sp_closed (spec_step sp x o).1 = match x with SClose | SCloseRace _ => true | _ => sp_closed sp end.
Proof.
  unfold spec_step.
  match goal with |- context [sp_events ?a (ob_evs o)] => set (sp1 := a) end.
  assert (H1 : sp_fs sp1 = match x with
                           | SFs op | SCloseRace op => if ob_ok o then fs_after (sp_fs sp) op else sp_fs sp
                           | _ => sp_fs sp end
               /\ sp_closed sp1 = match x with SClose | SCloseRace _ => true | _ => sp_closed sp end).
  { subst sp1. unfold fs_after. destruct x; try (split; reflexivity);
      (destruct (ob_ok o); [|split; reflexivity]; destruct (fs_apply (sp_fs sp) o0) as [[fs' ?]|]; split; reflexivity). }
  destruct H1 as [F1 C1]. clearbody sp1.
  set (pr := if sp_closed sp || match x with SCloseRace _ => true | _ => false end then (sp1, []) else sp_events sp1 (ob_evs o)).
  assert (H2 : sp_fs pr.1 = sp_fs sp1 /\ sp_closed pr.1 = sp_closed sp1).
  { subst pr. destruct (_ || _); [split; reflexivity|]. split; [apply sp_events_fs|apply sp_events_closed]. }
  destruct H2 as [F2 C2]. destruct pr as [sp2 v_ev]. cbn [fst snd] in *.
  rewrite <- F1, <- C1, <- F2, <- C2.
  destruct x; try (split; reflexivity); (destruct (ob_ok o && negb (sp_closed sp2)); split; reflexivity).
Qed.

Definition not_ps (v : viol) : Prop := v.1 <> "preexisting-silent".

Lemma Forall_omap_nps {A} (f : A -> option viol) l : (forall a b, f a = Some b -> not_ps b) -> Forall not_ps (omap f l).
Proof. intros H. induction l as [|a l IH]; simpl; [constructor|]. destruct (f a) eqn:E; [constructor; eauto|auto]. Qed.
Lemma Forall_filter_nps (Q : viol -> Prop) `{forall x, Decision (Q x)} l : Forall not_ps l -> Forall not_ps (filter Q l).
Proof. rewrite !Forall_forall. intros H0 x Hx. apply elem_of_list_filter in Hx as [_ Hx]. auto. Qed.

Ltac nps_one := unfold not_ps; simpl; discriminate.
Ltac nps_omap := apply Forall_omap_nps; let a := fresh in let b := fresh in let H := fresh in
                 intros a b H; repeat case_match; try discriminate; simplify_eq; nps_one.

Lemma expect_change_nps sp o p follow op what : Forall not_ps (expect_change sp o p follow op what).
Proof.
  unfold expect_change. destruct (ino_of (sp_fs sp) p follow); [|constructor]. destruct (is_file _); [|constructor].
  apply Forall_omap_nps. intros a b H. destruct (_ || _); [discriminate|]. injection H as <-. nps_one.
Qed.
Lemma sp_c17_nps sp x o : Forall not_ps (sp_c17 sp x o).
Proof.
  unfold sp_c17. destruct (sp_closed sp).
  - destruct x; try constructor.
    + apply Forall_app; split; repeat case_match; repeat constructor; try nps_one.
    + apply Forall_app; split; repeat case_match; repeat constructor; try nps_one.
  - apply Forall_app; split; [nps_omap|].
    apply Forall_app; split.
    { destruct x; try constructor. destruct (ob_ok o); [nps_omap|]. case_match; repeat constructor; nps_one. }
    apply Forall_app; split.
    { destruct (sp_held sp); [constructor|nps_omap]. }
    destruct (sp_user sp); [|nps_omap]. case_match; repeat constructor; nps_one.
Qed.
Lemma sp_c18_idle_nps sp : Forall not_ps (sp_c18_idle sp).
Proof.
  unfold sp_c18_idle. destruct (_ || _); [constructor|].
  apply Forall_app; split; [|apply Forall_app; split; nps_omap].
  apply Forall_concat. apply Forall_forall. intros l Hl. apply elem_of_list_In, in_map_iff in Hl as (bi & <- & _).
  destruct (_ && _); [|constructor]. nps_omap.
Qed.

Section ps.
Variable pre0 : string -> bool.

Definition SP (sp : spst) (cur : list event) : Prop := forall n, n ∈ sp_pre sp -> live (pre0 n) n cur = true.

Lemma sp_event_PS sp e cur :
  SP sp cur -> (is_create e = true -> live (pre0 (e_name e)) (e_name e) cur = false) ->
  SP (sp_event sp e).1 (e :: cur) /\ Forall not_ps (sp_event sp e).2.
Proof.
  intros HS Hlog. unfold sp_event.
  set (v_name := if str_in (e_name e) (map clean (sp_ever sp)) || str_in (dir (e_name e)) (map clean (sp_ever sp)) then [] else [("names-user-spelling", e_name e)]).
  assert (Hvn : Forall not_ps v_name).
  { subst v_name. destruct (_ || _); [constructor|]. constructor; [nps_one|constructor]. }
  assert (Hother : forall n, n <> e_name e -> n ∈ sp_pre sp -> live (pre0 n) n (e :: cur) = true).
  { intros n Hne Hn. cbn [live]. replace (String.eqb (e_name e) n) with false by (symmetry; apply String.eqb_neq; congruence). apply HS, Hn. }
  destruct (has (e_op e) Create) eqn:Ec.
  - cbn [fst snd]. split.
    + intros n Hn. cbn [sp_pre] in Hn. apply Hother; set_solver.
    + apply Forall_app. split; [exact Hvn|].
      destruct (sp_known sp !! e_name e) as [j|]; [|constructor].
      destruct (negb _); [constructor|].
      destruct (bool_decide (e_name e ∈ sp_pre sp)) eqn:Ep.
      * exfalso. apply bool_decide_eq_true in Ep. rewrite (HS _ Ep) in Hlog. specialize (Hlog Ec). discriminate.
      * constructor; [nps_one|constructor].
  - destruct (has (e_op e) Remove || has (e_op e) Rename) eqn:Ee.
    + cbn [fst snd]. split; [|exact Hvn]. intros n Hn. cbn [sp_pre] in Hn. apply Hother; set_solver.
    + cbn [fst snd]. split; [|exact Hvn]. intros n Hn. cbn [live]. unfold is_create, is_end.
      rewrite Ec, (orb_comm (has (e_op e) Rename)), Ee. destruct (String.eqb (e_name e) n); apply HS, Hn.
Qed.

Lemma sp_events_PS : forall chron sp cur,
  SP sp cur -> log_ok pre0 (rev chron ++ cur) = true ->
  SP (sp_events sp chron).1 (rev chron ++ cur) /\ Forall not_ps (sp_events sp chron).2.
Proof.
  induction chron as [|e r IH]; intros sp cur HS Hlog; [simpl; split; [exact HS|constructor]|].
  cbn [sp_events]. cbn [rev] in *. rewrite <- app_assoc in *. cbn [app] in *.
  assert (Hel : log_ok pre0 (e :: cur) = true) by (eapply log_ok_suffix; exact Hlog).
  destruct (sp_event_PS sp e cur HS) as [HS1 Hv1]; [intros Hc; exact (log_ok_head _ _ _ Hel Hc)|].
  destruct (sp_event sp e) as [sp1 v1]. cbn [fst snd] in *.
  destruct (IH sp1 (e :: cur) HS1 Hlog) as [HS2 Hv2].
  destruct (sp_events sp1 r) as [sp2 v2]. cbn [fst snd] in *.
  split; [exact HS2|]. apply Forall_app. auto.
Qed.
End ps.

Lemma fold_pre_inv (ents : list (string * N)) : forall (S : gset string) n,
  n ∈ fold_left (fun m (ni : string * N) => {[ ni.1 ]} ∪ m) ents S -> In n (map fst ents) \/ n ∈ S.
Proof.
  induction ents as [|[a i] r IH]; intros S n H; [right; exact H|]. cbn [fold_left map fst] in *.
  destruct (IH _ _ H) as [Hi|Hs]; [left; right; exact Hi|]. cbn [fst] in Hs.
  apply elem_of_union in Hs as [Hs|Hs]; [left; left; set_solver|right; exact Hs].
Qed.

Lemma spec_step_PS (pre0 : string -> bool) (seen' : gset string) sp x o new :
  (sp_closed sp = false -> forall n, n ∈ sp_pre sp -> pre0 n = true) ->
  ob_evs o = rev new -> log_ok pre0 new = true ->
  (sp_closed (spec_step sp x o).1 = false -> forall n, live (pre0 n) n new = true -> n ∈ seen') ->
  (forall p, x = SAdd p -> ob_ok o = true -> forall ni, In ni (entries_of (sp_fs sp) (clean p)) -> ni.1 ∈ seen') ->
  (sp_closed (spec_step sp x o).1 = false -> forall n, n ∈ sp_pre (spec_step sp x o).1 -> n ∈ seen')
  /\ Forall not_ps (spec_step sp x o).2.
Proof.
  intros HPR Hev Hlog Hend Hadd.
  pose proof (spec_step_fs_closed sp x o) as [_ Hcl']. revert Hend. rewrite Hcl'. clear Hcl'. intros Hend.
  unfold spec_step.
  set (pre_v := if sp_held sp || sp_closed sp then [] else _).
  assert (Hpre : Forall not_ps pre_v).
  { subst pre_v. destruct (_ || _); [constructor|]. destruct x; try constructor. destruct o0; try constructor;
      (destruct (ob_ok o); [apply expect_change_nps|constructor]). }
  match goal with |- context [sp_events ?a (ob_evs o)] => set (sp1 := a) end.
  assert (H1 : (sp_closed sp = true -> sp_closed sp1 = true) /\ (match x with SCloseRace _ => sp_closed sp1 = true | _ => True end)
               /\ (forall n, n ∈ sp_pre sp1 -> n ∈ sp_pre sp)
               /\ sp_closed sp1 = match x with SClose | SCloseRace _ => true | _ => sp_closed sp end
               /\ match x with SAdd _ => sp1 = sp | _ => True end).
  { subst sp1. split; [|split; [|split; [|split]]].
    - intros Hc. destruct x; try exact Hc; try reflexivity. destruct (ob_ok o); [|exact Hc]. destruct (fs_apply (sp_fs sp) o0) as [[fs' ?]|]; exact Hc.
    - destruct x; try exact I. reflexivity.
    - intros n. destruct x; try (intros H; exact H); try (cbn [sp_pre]; set_solver).
      destruct (ob_ok o); [|intros H; exact H]. destruct (fs_apply (sp_fs sp) o0) as [[fs' ?]|]; intros H; exact H.
    - destruct x; try reflexivity. destruct (ob_ok o); [|reflexivity]. destruct (fs_apply (sp_fs sp) o0) as [[fs' ?]|]; reflexivity.
    - destruct x; try exact I. reflexivity. }
  destruct H1 as (Hc1 & Hrace & Hsub1 & Hcl1eq & Hadd1).
  set (racing := match x with SCloseRace _ => true | _ => false end).
  assert (Hrc : racing = true -> sp_closed sp1 = true).
  { subst racing. destruct x; try discriminate. intros _. exact Hrace. }
  clearbody sp1 pre_v racing.
  destruct (sp_closed sp || racing) eqn:Ecr.
  - assert (Hcl1 : sp_closed sp1 = true).
    { apply orb_true_iff in Ecr as [Hc|Hr]; auto. }
    cbn [fst snd].
    split.
    + intros Hc. exfalso.
      destruct x; try congruence; (rewrite Hcl1 in Hc; cbn [negb] in Hc; rewrite andb_false_r in Hc; congruence).
    + apply Forall_app; split; [exact Hpre|]. apply Forall_app; split; [apply Forall_filter_nps; constructor|].
      apply Forall_app; split; [|apply Forall_app; split; [apply sp_c17_nps|apply Forall_filter_nps, sp_c18_idle_nps]].
      destruct x; try constructor. case_match; repeat constructor; nps_one.
  - apply orb_false_iff in Ecr as [Hc Hr].
    rewrite Hev.
    assert (HS1 : SP pre0 sp1 []) by (intros n Hn; cbn [live]; apply (HPR Hc), Hsub1, Hn).
    destruct (sp_events_PS pre0 (rev new) sp1 [] HS1) as [HS2 Hv2]; [rewrite rev_involutive, app_nil_r; exact Hlog|].
    rewrite rev_involutive, app_nil_r in HS2.
    pose proof (sp_events_fs (rev new) sp1) as Hfs2. pose proof (sp_events_closed (rev new) sp1) as Hcl2.
    destruct (sp_events sp1 (rev new)) as [sp2 v_ev]. cbn [fst snd] in *.
    split.
    + intros Hc3.
      assert (Hbase : forall n, n ∈ sp_pre sp2 -> n ∈ seen').
      { intros n Hn. apply Hend; [|apply HS2, Hn]. destruct x; congruence. }
      destruct x; try exact Hbase.
      * (* Add *)
        subst sp1. destruct (ob_ok o) eqn:Eok; [|exact Hbase]. destruct (negb (sp_closed sp2)); [|exact Hbase]. cbn [andb sp_pre].
        intros n Hn. apply fold_pre_inv in Hn as [Hin|Hn]; [|apply Hbase, Hn].
        apply in_map_iff in Hin as (ni & <- & Hni).
        apply (Hadd p eq_refl eq_refl). rewrite <- Hfs2.
        destruct (_ && _); [|destruct Hni]. apply elem_of_list_In, elem_of_list_filter in Hni as [_ Hni]. apply elem_of_list_In, Hni.
      * (* Remove *)
        destruct (ob_ok o && negb (sp_closed sp2)); exact Hbase.
    + apply Forall_app; split; [exact Hpre|]. apply Forall_app; split; [apply Forall_filter_nps; exact Hv2|].
      apply Forall_app; split; [|apply Forall_app; split; [apply sp_c17_nps|apply Forall_filter_nps, sp_c18_idle_nps]].
      destruct x; try constructor. case_match; repeat constructor; nps_one.
Qed.

(* --- the additional check: after a successful Add every entry of the directory is marked seen *)

Definition add_ok (c : cfg) (s : st) (x : step) : bool :=
  match x with
  | SAdd p => if ob_ok (model_obs c s x).2
              then forallb (fun ni : string * N => bool_decide (ni.1 ∈ t_seen (T (do_step c s x).1))) (entries_of (fs_of s) (clean p))
              else true
  | _ => true
  end.

Fixpoint adds_ok (c : cfg) (h : list step) (s : st) : bool :=
  match h with
  | [] => true
  | x :: r => add_ok c s x && adds_ok c r (do_step c s x).1
  end.

Definition REL (sp : spst) (s : st) : Prop :=
  sp_fs sp = fs_of s /\ sp_closed sp = closed s /\ (closed s = false -> forall n, n ∈ sp_pre sp -> n ∈ t_seen (T s)).

Lemma fs_ok_false fs o : fs_ok fs o = false -> fs_after fs o = fs.
Proof. unfold fs_ok, fs_after. destruct (fs_apply fs o) as [[fs' ?]|]; [discriminate|reflexivity]. Qed.

Lemma trace_nps c h : forall s sp n,
  Cl s -> run_ok c h s = true -> adds_ok c h s = true -> REL sp s ->
  Forall (fun v : nat * viol => not_ps v.2) (spec_trace sp n (model_trace c s h)).
Proof.
  induction h as [|x r IH]; intros s sp n HCl Hok Hadds (Hfs & Hcl & Hpr); [constructor|].
  cbn [run_ok adds_ok] in Hok, Hadds. apply andb_true_iff in Hok as [Hok1 Hok2]. apply andb_true_iff in Hadds as [Hadd1 Hadd2].
  set (pre0 := fun p => bool_decide (p ∈ t_seen (T s))).
  destruct (do_step_hinv pre0 (evs s) c s x HCl) as (new & Hnew & L & S3); [|exact Hok1|].
  { exists []. split; [reflexivity|]. split; [reflexivity|]. intros _ p Hp. simpl in Hp. apply bool_decide_eq_true in Hp. exact Hp. }
  pose proof (do_step_Cl c s x HCl) as HCl'.
  pose proof (do_step_fs c s x) as Dfs. pose proof (do_step_ok c s x) as Dok. pose proof (do_step_closed c s x) as Dcl.
  cbn [model_trace]. unfold add_ok, model_obs in *.
  destruct (do_step c s x) as [s' res]. cbn [fst snd] in *.
  cbn [spec_trace].
  match goal with |- context [spec_step sp x ?o] => set (ob := o) in * end.
  assert (Hev : ob_evs ob = rev new) by (subst ob; cbn [ob_evs]; rewrite Hnew, firstn_new; reflexivity).
  pose proof (spec_step_fs_closed sp x ob) as [Sfs Scl].
  assert (Hcl' : sp_closed (spec_step sp x ob).1 = closed s').
  { rewrite Scl, Dcl. destruct x; congruence. }
  destruct (spec_step_PS pre0 (t_seen (T s')) sp x ob new) as [HPR' Hv].
  - intros Hc m Hm. apply bool_decide_eq_true. apply Hpr; [congruence|exact Hm].
  - exact Hev.
  - exact L.
  - intros Hc. apply S3. congruence.
  - intros p -> Hobok ni Hni. rewrite Hobok in Hadd1. rewrite Hfs in Hni.
    rewrite forallb_forall in Hadd1. specialize (Hadd1 _ Hni). apply bool_decide_eq_true in Hadd1. exact Hadd1.
  - assert (Hfs' : sp_fs (spec_step sp x ob).1 = fs_of s').
    { rewrite Sfs, Dfs, Hfs. destruct x; try reflexivity.
      - subst ob. cbn [ob_ok]. rewrite Dok. destruct (fs_ok (fs_of s) o) eqn:E; [reflexivity|]. symmetry. apply fs_ok_false, E.
      - subst ob. cbn [ob_ok]. rewrite Dok. destruct (fs_ok (fs_of s) o) eqn:E; [reflexivity|]. symmetry. apply fs_ok_false, E. }
    destruct (spec_step sp x ob) as [sp' v]. cbn [fst snd] in *.
    apply Forall_app. split.
    + apply Forall_forall. intros y Hy. apply elem_of_list_In, in_map_iff in Hy as (v0 & <- & Hv0).
      cbn [snd]. rewrite Forall_forall in Hv. apply Hv, elem_of_list_In, Hv0.
    + apply IH; [exact HCl'|exact Hok2|exact Hadd2|].
      split; [exact Hfs'|]. split; [exact Hcl'|]. intros Hc. apply HPR'. congruence.
Qed.

(* (3), second clause: "preexisting-silent" never fails on the model's own trace *)
Theorem spec_preexisting_silent_unbounded c h :
  run_ok c h st_init = true -> adds_ok c h st_init = true -> fails "preexisting-silent" c h = false.
Proof.
  intros Hok Hadds. unfold fails, clause_fails, spec_of_model.
  assert (H0 : REL sp_init st_init).
  { split; [reflexivity|]. split; [reflexivity|]. intros _ n Hn. cbn in Hn. set_solver. }
  pose proof (trace_nps c h st_init sp_init 0%nat Cl_init Hok Hadds H0) as H.
  induction H as [|y l Hy _ IH]; [reflexivity|].
  cbn [existsb]. rewrite IH, orb_false_r. apply String.eqb_neq. exact Hy.
Qed.

Example adds_ok_examples :
  adds_ok cfg_repo h_plain st_init = true /\ adds_ok cfg_repo h_burst st_init = true
  /\ adds_ok cfg_repo w_fifo_pre st_init = false
  /\ fails "preexisting-silent" cfg_repo h_plain = false /\ fails "preexisting-silent" cfg_repo w_fifo_pre = true.
Proof. vm_compute. repeat split; reflexivity. Qed.

(* Remove by the user is excluded for a reason also when the path had been added by the user (key entry-user-removed
   has the same ingredient, with another symptom): p/d is an entry of the watched p and is added, then removed again
   by the user; Remove unmarks it silently and the next change of p reports Create p/d a second time (the
   specification itself says create-once; for a pre-existing entry it says preexisting-silent) *)
Definition w_entry_removed_created_again : list step :=
  [SFs (OMkdir "p"); SAdd "p"; SFs (OMkdir "p/d"); SAdd "p/d"; SRemove "p/d"; SFs (OCreate "p/x")].
Definition w_pre_entry_removed_created : list step :=
  [SFs (OMkdir "p"); SFs (OCreate "p/f"); SAdd "p"; SAdd "p/f"; SRemove "p/f"; SFs (OCreate "p/x")].

Example user_remove_refutes :
  (rev (evs (run cfg_repo w_entry_removed_created_again st_init))
     = [ {| e_name := "p/d"; e_op := Create |}; {| e_name := "p/d"; e_op := Create |}; {| e_name := "p/x"; e_op := Create |} ]
   /\ fails "create-once" cfg_repo w_entry_removed_created_again = true
   /\ run_ok cfg_repo w_entry_removed_created_again st_init = false)
  /\ (rev (evs (run cfg_repo w_pre_entry_removed_created st_init))
        = [ {| e_name := "p/f"; e_op := Create |}; {| e_name := "p/x"; e_op := Create |} ]
      /\ fails "preexisting-silent" cfg_repo w_pre_entry_removed_created = true
      /\ run_ok cfg_repo w_pre_entry_removed_created st_init = false).
Proof. vm_compute. repeat split; reflexivity. Qed.

(* the premise is no stronger than the side conditions of the bounded statements of KqInv.v: every history of the two
   bounded families satisfies it (for the burst family even without no_rename_recreate, which concerns create-missed) *)
Lemma premise_on_plain_family :
  forallb (fun w => run_ok cfg_repo (prologue ++ w) st_init && adds_ok cfg_repo (prologue ++ w) st_init) (words alphabet 4) = true.
Proof. vm_compute. reflexivity. Qed.
Lemma premise_on_burst_family :
  forallb (fun wx : list step * step =>
             run_ok cfg_repo (prologue ++ SHold :: wx.1 ++ [SRelease; wx.2]) st_init
             && adds_ok cfg_repo (prologue ++ SHold :: wx.1 ++ [SRelease; wx.2]) st_init) burst_family = true.
Proof. vm_compute. reflexivity. Qed.

Theorem premise_on_bounded_families :
  (forall w, In w (words alphabet 4) ->
     run_ok cfg_repo (prologue ++ w) st_init = true /\ adds_ok cfg_repo (prologue ++ w) st_init = true)
  /\ (forall w x, In (w, x) burst_family ->
        run_ok cfg_repo (prologue ++ SHold :: w ++ [SRelease; x]) st_init = true
        /\ adds_ok cfg_repo (prologue ++ SHold :: w ++ [SRelease; x]) st_init = true).
Proof.
  split.
  - intros w Hw. pose proof (proj1 (forallb_forall _ _) premise_on_plain_family w Hw) as H. apply andb_true_iff in H. exact H.
  - intros w x Hw. pose proof (proj1 (forallb_forall _ _) premise_on_burst_family (w, x) Hw) as H. apply andb_true_iff in H. exact H.
Qed.
