(* PathLexMore.v — spelling invariance of clean: the redundant spellings the C08 quantifier lists ("./" prefix,
   "dir/../" detour, trailing "/.") all clean to the same stored spelling.  Proofs only; the model is PathLex.v. *)
From Coq Require Import List String Ascii Bool Arith.
Import ListNotations.
From Fsn Require Import PathLex PathLexProofs.
Local Open Scope string_scope.

Lemma no_slash_dot : no_slash ".".
Proof. apply no_slash_cons. split; [discriminate | apply no_slash_nil]. Qed.
Lemma no_slash_dotdot : no_slash "..".
Proof. apply no_slash_cons. split; [discriminate | exact no_slash_dot]. Qed.

Lemma rooted_app_nonempty : forall a b, a <> "" -> rooted (a ++ b) = rooted a.
Proof. intros a b Ha. destruct a as [|c a]; [congruence | reflexivity]. Qed.

(* "./p" and "p" are one spelling (p relative, non-empty) *)
Theorem clean_dot_slash : forall p, p <> "" -> rooted p = false -> clean ("./" ++ p) = clean p.
Proof.
  intros p Hp Hr. rewrite (clean_unfold p Hp).
  rewrite clean_unfold by discriminate.
  change (rooted ("./" ++ p)) with false. rewrite Hr. cbv iota.
  change ("./" ++ p) with ("." ++ "/" ++ p).
  rewrite split_cons by exact no_slash_dot.
  rewrite clean_comps_cons.
  change (String.eqb "." "" || String.eqb "." ".") with true. cbv iota. reflexivity.
Qed.

(* a plain component followed by ".." is a detour that leaves no trace: "d/../p" = "p" *)
Theorem clean_detour : forall d p,
  no_slash d -> d <> "" -> d <> "." -> d <> ".." -> p <> "" -> rooted p = false ->
  clean (d ++ "/../" ++ p) = clean p.
Proof.
  intros d p Hd H0 H1 H2 Hp Hr. rewrite (clean_unfold p Hp).
  rewrite clean_unfold by (apply sapp_nonempty_r; discriminate).
  rewrite rooted_app_nonempty by exact H0.
  assert (Hrd : rooted d = false).
  { destruct d as [|c d]; [reflexivity|]. apply no_slash_cons in Hd. destruct Hd as [Hc _].
    simpl. unfold is_slash, slash. apply Ascii.eqb_neq. exact Hc. }
  rewrite Hrd, Hr. cbv iota.
  change (d ++ "/../" ++ p) with (d ++ "/" ++ (".." ++ "/" ++ p)).
  rewrite split_cons by exact Hd. rewrite split_cons by exact no_slash_dotdot.
  rewrite clean_comps_cons.
  apply String.eqb_neq in H0, H1, H2. rewrite H0, H1, H2. cbv iota. simpl orb. cbv iota.
  rewrite clean_comps_cons.
  change (String.eqb ".." "" || String.eqb ".." ".") with false.
  change (String.eqb ".." "..") with true. cbv iota. rewrite H2. reflexivity.
Qed.

(* the common "dir/../dir" spelling *)
Corollary clean_dir_dotdot_dir : forall d,
  no_slash d -> d <> "" -> d <> "." -> d <> ".." -> clean (d ++ "/../" ++ d) = clean d.
Proof.
  intros d Hd H0 H1 H2. apply clean_detour; try assumption.
  destruct d as [|c d]; [reflexivity|]. apply no_slash_cons in Hd. destruct Hd as [Hc _].
  simpl. unfold is_slash, slash. apply Ascii.eqb_neq. exact Hc.
Qed.

(* all three redundant spellings of one relative argument are stored alike *)
Corollary clean_spellings_agree : forall p, p <> "" -> rooted p = false ->
  clean ("./" ++ p) = clean p /\ clean (p ++ "/") = clean p /\ clean ("./" ++ p ++ "/") = clean p.
Proof.
  intros p Hp Hr. split; [apply clean_dot_slash; assumption|]. split; [apply clean_trailing_slash; exact Hp|].
  rewrite clean_dot_slash.
  - apply clean_trailing_slash. exact Hp.
  - apply sapp_nonempty_r. discriminate.
  - rewrite rooted_app_nonempty by exact Hp. exact Hr.
Qed.

Print Assumptions clean_dot_slash.
Print Assumptions clean_detour.
Print Assumptions clean_spellings_agree.
