(* PathLexMore.v — spelling invariance of clean: the redundant spellings the C08 quantifier lists ("./" prefix,
   "dir/../" detour, trailing "/.") all clean to the same stored spelling.  Proofs only; the model is PathLex.v. *)
From Coq Require Import List String Ascii Bool Arith.
Import ListNotations.
From Fsn Require Import PathLex PathLexProofs.
Local Open Scope string_scope.

Lemma no_slash_dot : no_slash ".".
Proof. apply no_slash_cons. split; [discriminate | apply no_slash_nil]. Qed.
Lemma no_slash_dotdot : no_slash "..".
Proof. apply no_slash_cons. split; [discriminate | exact no_slash_dot]. Qed.

Lemma rooted_app_nonempty : forall a b, a <> "" -> rooted (a ++ b) = rooted a.
Proof. intros a b Ha. destruct a as [|c a]; [congruence | reflexivity]. Qed.

(* "./p" and "p" are one spelling (p relative, non-empty) *)
Theorem clean_dot_slash : forall p, p <> "" -> rooted p = false -> clean ("./" ++ p) = clean p.
Proof.
  intros p Hp Hr. rewrite (clean_unfold p Hp).
  rewrite clean_unfold by discriminate.
  change (rooted ("./" ++ p)) with false. rewrite Hr. cbv iota.
  change ("./" ++ p) with ("." ++ "/" ++ p).
  rewrite split_cons by exact no_slash_dot.
  rewrite clean_comps_cons.
  change (String.eqb "." "" || String.eqb "." ".") with true. cbv iota. reflexivity.
Qed.

(* a plain component followed by ".." is a detour that leaves no trace: "d/../p" = "p" *)
Theorem clean_detour : forall d p,
  no_slash d -> d <> "" -> d <> "." -> d <> ".." -> p <> "" -> rooted p = false ->
  clean (d ++ "/../" ++ p) = clean p.
Proof.
  intros d p Hd H0 H1 H2 Hp Hr. rewrite (clean_unfold p Hp).
  rewrite clean_unfold by (apply sapp_nonempty_r; discriminate).
  rewrite rooted_app_nonempty by exact H0.
  assert (Hrd : rooted d = false).
  { destruct d as [|c d]; [reflexivity|]. apply no_slash_cons in Hd. destruct Hd as [Hc _].
    simpl. unfold is_slash, slash. apply Ascii.eqb_neq. exact Hc. }
  rewrite Hrd, Hr. cbv iota.
  change (d ++ "/../" ++ p) with (d ++ "/" ++ (".." ++ "/" ++ p)).
  rewrite split_cons by exact Hd. rewrite split_cons by exact no_slash_dotdot.
  rewrite clean_comps_cons.
  apply String.eqb_neq in H0, H1, H2. rewrite H0, H1, H2. cbv iota. simpl orb. cbv iota.
  rewrite clean_comps_cons.
  change (String.eqb ".." "" || String.eqb ".." ".") with false.
  change (String.eqb ".." "..") with true. cbv iota. rewrite H2. reflexivity.
Qed.

(* the common "dir/../dir" spelling *)
Corollary clean_dir_dotdot_dir : forall d,
  no_slash d -> d <> "" -> d <> "." -> d <> ".." -> clean (d ++ "/../" ++ d) = clean d.
Proof.
  intros d Hd H0 H1 H2. apply clean_detour; try assumption.
  destruct d as [|c d]; [reflexivity|]. apply no_slash_cons in Hd. destruct Hd as [Hc _].
  simpl. unfold is_slash, slash. apply Ascii.eqb_neq. exact Hc.
Qed.

(* all three redundant spellings of one relative argument are stored alike *)
Corollary clean_spellings_agree : forall p, p <> "" -> rooted p = false ->
  clean ("./" ++ p) = clean p /\ clean (p ++ "/") = clean p /\ clean ("./" ++ p ++ "/") = clean p.
Proof.
  intros p Hp Hr. split; [apply clean_dot_slash; assumption|]. split; [apply clean_trailing_slash; exact Hp|].
  rewrite clean_dot_slash.
  - apply clean_trailing_slash. exact Hp.
  - apply sapp_nonempty_r. discriminate.
  - rewrite rooted_app_nonempty by exact Hp. exact Hr.
Qed.

(* ------------------------------------------------------------------ *)
(* redundant separators and "." components anywhere in the argument    *)
(* ------------------------------------------------------------------ *)

Lemma split_aux_app_slash : forall a b cur,
  split_slash_aux (a ++ "/" ++ b) cur = (split_slash_aux a cur ++ split_slash b)%list.
Proof.
  induction a as [|c a IH]; intros b cur.
  - reflexivity.
  - change ((String c a) ++ "/" ++ b) with (String c (a ++ "/" ++ b)).
    cbn [split_slash_aux]. destruct (is_slash c); rewrite IH; reflexivity.
Qed.
Lemma split_app_slash : forall a b, split_slash (a ++ "/" ++ b) = (split_slash a ++ split_slash b)%list.
Proof. intros a b. apply split_aux_app_slash. Qed.

(* an empty or "." component is skipped wherever it stands *)
Lemma clean_comps_skip : forall r c l1 l2 stack,
  c = "" \/ c = "." -> clean_comps r (l1 ++ c :: l2)%list stack = clean_comps r (l1 ++ l2)%list stack.
Proof.
  intros r c l1 l2 stack Hc. revert stack. induction l1 as [|x l1 IH]; intro stack.
  - cbn [app]. rewrite clean_comps_cons.
    assert (E : String.eqb c "" || String.eqb c "." = true).
    { destruct Hc as [-> | ->]; reflexivity. }
    rewrite E. reflexivity.
  - cbn [app]. rewrite !clean_comps_cons.
    destruct (String.eqb x "" || String.eqb x "."); [apply IH|].
    destruct (String.eqb x "..").
    + destruct stack as [|top rest].
      * destruct r; apply IH.
      * destruct (String.eqb top ".."); apply IH.
    + apply IH.
Qed.

Lemma rooted_app_slash : forall a b c, rooted (a ++ "/" ++ b) = rooted (a ++ "/" ++ c).
Proof. intros a b c. destruct a as [|x a]; reflexivity. Qed.

(* "a//b" and "a/b" are one spelling, for every a and b (also at the very start or end) *)
Theorem clean_double_slash : forall a b, clean (a ++ "//" ++ b) = clean (a ++ "/" ++ b).
Proof.
  intros a b.
  rewrite (clean_unfold (a ++ "//" ++ b)) by (apply sapp_nonempty_r; discriminate).
  rewrite (clean_unfold (a ++ "/" ++ b)) by (apply sapp_nonempty_r; discriminate).
  change (a ++ "//" ++ b) with (a ++ "/" ++ (String "/" b)).
  rewrite (rooted_app_slash a (String "/" b) b).
  rewrite !split_app_slash. rewrite split_leading_slash.
  rewrite !(clean_comps_skip _ "") by (left; reflexivity). reflexivity.
Qed.

(* "a/./b" and "a/b" are one spelling *)
Theorem clean_dot_component : forall a b, clean (a ++ "/./" ++ b) = clean (a ++ "/" ++ b).
Proof.
  intros a b.
  rewrite (clean_unfold (a ++ "/./" ++ b)) by (apply sapp_nonempty_r; discriminate).
  rewrite (clean_unfold (a ++ "/" ++ b)) by (apply sapp_nonempty_r; discriminate).
  change (a ++ "/./" ++ b) with (a ++ "/" ++ ("." ++ "/" ++ b)).
  rewrite (rooted_app_slash a ("." ++ "/" ++ b) b).
  rewrite !split_app_slash. change (split_slash ".") with ["."]. cbn [app].
  rewrite !(clean_comps_skip _ ".") by (right; reflexivity). reflexivity.
Qed.

(* a trailing "/." is invisible *)
Theorem clean_trailing_dot : forall p, p <> "" -> clean (p ++ "/.") = clean p.
Proof.
  intros p Hp.
  rewrite <- (clean_trailing_slash (p ++ "/.")) by (apply sapp_nonempty_r; discriminate).
  rewrite sapp_assoc. change ("/." ++ "/") with ("/./" ++ "").
  rewrite clean_dot_component. change ("/" ++ "") with "/". apply clean_trailing_slash. exact Hp.
Qed.

Print Assumptions clean_double_slash.
Print Assumptions clean_dot_component.
Print Assumptions clean_trailing_dot.
Print Assumptions clean_dot_slash.
Print Assumptions clean_detour.
Print Assumptions clean_spellings_agree.
