(* SpecWatchSet.v — the clauses of the watch-set semantics (properties C04, C08, C09) read off the specification
   (Spec.v): what Add / Remove / the end of a watch do to the set of listed paths and to the kernel's marks. *)
From stdpp Require Import gmap strings list.
From Fsn Require Import PathLex Bytes Tables Doc Watcher System Spec SpecDefs Refine.
Local Open Scope N_scope.

(* "one entry per listed path" (SInv's si_paths), as a predicate on the map *)
Definition paths_unique (A : gmap N aw) : Prop :=
  ∀ w1 w2 x1 x2, A !! w1 = Some x1 → A !! w2 = Some x2 → a_path x1 = a_path x2 → w1 = w2.

(* ================================================================== A. find_path / spec_list *)
Lemma find_path_Some : forall A p wd, find_path A p = Some wd -> exists x, A !! wd = Some x /\ a_path x = p.
Proof.
  intros A p wd. unfold find_path.
  destruct (head _) as [[w x]|] eqn:E; [|done]. simpl. intros [= <-].
  apply head_Some_elem_of in E. apply elem_of_list_filter in E as [P E].
  apply bool_decide_unpack in P. simpl in P. apply elem_of_map_to_list in E. eauto.
Qed.

Lemma find_path_None : forall A p, find_path A p = None <-> (forall wd x, A !! wd = Some x -> a_path x <> p).
Proof.
  intros A p. unfold find_path. split.
  - intros H wd x Hx Hp.
    destruct (head (filter (λ e : N * aw, bool_decide (a_path e.2 = p)) (map_to_list A))) as [e|] eqn:E; [done|].
    apply head_None in E.
    assert (Hin : (wd, x) ∈ filter (λ e : N * aw, bool_decide (a_path e.2 = p)) (map_to_list A)).
    { apply elem_of_list_filter. split; [by apply bool_decide_pack|by apply elem_of_map_to_list]. }
    rewrite E in Hin. by apply elem_of_nil in Hin.
  - intros H. rewrite head_filter_none; [done|].
    intros [w x] Hin P. apply elem_of_map_to_list in Hin. apply bool_decide_unpack in P. simpl in P.
    by apply (H w x).
Qed.

Lemma find_path_unique : forall A p wd x,
  (forall w1 w2 x1 x2, A !! w1 = Some x1 -> A !! w2 = Some x2 -> a_path x1 = a_path x2 -> w1 = w2) ->
  A !! wd = Some x -> a_path x = p -> find_path A p = Some wd.
Proof.
  intros A p wd x Hu Hx Hp. unfold find_path.
  rewrite (head_filter_unique _ _ (wd, x)); [done| | |].
  - intros [w1 x1] [w2 x2] H1 H2 P1 P2. apply elem_of_map_to_list in H1, H2.
    apply bool_decide_unpack in P1, P2. simpl in *.
    assert (w1 = w2) as -> by (apply (Hu w1 w2 x1 x2); congruence).
    rewrite H1 in H2. by inversion H2.
  - by apply elem_of_map_to_list.
  - by apply bool_decide_pack.
Qed.

Lemma find_path_is_Some : forall A p, is_Some (find_path A p) <-> listed A p.
Proof.
  intros A p. unfold listed. split.
  - intros [wd H]. apply find_path_Some in H. eauto.
  - intros (wd & x & Hx & Hp). destruct (find_path A p) eqn:E; [by eexists|].
    exfalso. by apply (proj1 (find_path_None A p) E wd x).
Qed.

Lemma spec_list_exact : forall A p, p ∈ spec_list A <-> exists wd x, A !! wd = Some x /\ a_path x = p.
Proof.
  intros A p. unfold spec_list. rewrite elem_of_list_fmap. split.
  - intros (x & -> & Hx). apply elem_of_list_fmap in Hx as ([wd y] & -> & Hin).
    apply elem_of_map_to_list in Hin. eauto.
  - intros (wd & x & Hx & Hp). exists x. split; [done|].
    apply elem_of_list_fmap. exists (wd, x). split; [done|]. by apply elem_of_map_to_list.
Qed.

Lemma spec_list_nodup_paths : forall A, paths_unique A -> NoDup (spec_list A).
Proof.
  intros A Hu. unfold spec_list. rewrite <- list_fmap_compose.
  apply NoDup_fmap_2_strong; [|apply NoDup_map_to_list].
  intros [w1 x1] [w2 x2] H1 H2 Heq. apply elem_of_map_to_list in H1, H2. simpl in Heq.
  assert (w1 = w2) as -> by (by apply (Hu w1 w2 x1 x2)).
  rewrite H1 in H2. by inversion H2.
Qed.

Lemma spec_list_nodup : forall a, SInv a -> NoDup (spec_list (sA a)).
Proof. intros a Hi. apply spec_list_nodup_paths. exact (si_paths a Hi). Qed.

(* deleting the entry of a path unlists it (given one entry per path) *)
Lemma find_path_delete : forall A p wd x,
  paths_unique A -> A !! wd = Some x -> a_path x = p -> find_path (delete wd A) p = None.
Proof.
  intros A p wd x Hu Hx Hp. apply find_path_None. intros w y Hy Hyp.
  apply lookup_delete_Some in Hy as [Hne Hy]. apply Hne. apply (Hu wd w x y); congruence.
Qed.

(* ================================================================== kernel lemmas *)
(* add_watch hands out either the wd of an existing mark (kernel unchanged) or the fresh [next_wd k] *)
Lemma add_watch_inr : forall k res k1 wd, add_watch k res = (k1, inr wd) ->
  (k1 = k /\ is_Some (marks k !! wd)) \/
  (exists ino, res = inr ino /\ find_mark k ino = None /\ wd = next_wd k /\
               k1 = mkK (<[next_wd k := ino]> (marks k)) (N.succ (next_wd k)) (kq k)).
Proof.
  intros k res k1 wd. unfold add_watch. destruct res as [e|ino]; [done|].
  destruct (find_mark k ino) as [w|] eqn:E.
  - intros [= <- <-]. left. split; [done|]. apply find_mark_Some in E. by eexists.
  - intros [= <- <-]. right. eauto.
Qed.

Lemma add_watch_existing : forall k res k1 wd, add_watch k res = (k1, inr wd) -> wd <> next_wd k -> k1 = k.
Proof.
  intros k res k1 wd H Hne. apply add_watch_inr in H as [[-> _]|(ino & _ & _ & -> & _)]; done.
Qed.

(* the form suggested in the task *)
Lemma add_watch_existing_mark : forall k res k1 wd, add_watch k res = (k1, inr wd) ->
  is_Some (marks k !! wd) -> (forall w, is_Some (marks k !! w) -> w < next_wd k) -> k1 = k.
Proof.
  intros k res k1 wd H Hm Hb. apply (add_watch_existing k res k1 wd H). specialize (Hb wd Hm). lia.
Qed.

Lemma rm_watch_marks_None : forall k wd, marks (rm_watch k wd).1 !! wd = None.
Proof.
  intros k wd. unfold rm_watch. destruct (marks k !! wd) eqn:E; simpl; [by rewrite lookup_delete|done].
Qed.

(* ================================================================== B. Add *)
Theorem add_failed_changes_nothing : forall k A p f res k' A' e,
  spec_add_core k A p f res = (k', A', RErr e) -> k' = k /\ A' = A.
Proof.
  intros k A p f res k' A' e. unfold spec_add_core.
  destruct (add_watch k _) as [K1 [er|wd]] eqn:Ea.
  - intros [= <- <- _]. split; [|done]. by apply add_watch_err_same in Ea.
  - destruct (match find_path A p with
              | Some wd0 => if wd0 =? wd then (K1, A) else ((rm_watch K1 wd0).1, delete wd0 A)
              | None => (K1, A) end) as [K2 A1]. done.
Qed.

(* the error reported is the errno of the resolution, whichever it is *)
Theorem add_failed_errno : forall k A p f res k' A' e,
  spec_add_core k A p f res = (k', A', RErr e) -> exists en, e = ErrNo en /\ (res.1 = inl en \/ res.2 = inl en).
Proof.
  intros k A p f res k' A' e. unfold spec_add_core.
  destruct (add_watch k _) as [K1 [er|wd]] eqn:Ea.
  - intros [= _ _ <-]. exists er. split; [done|].
    unfold add_watch, pick_res in Ea. destruct res as [r1 r2]. simpl in *.
    destruct (negb _); [right; destruct r2 as [e2|i2]|left; destruct r1 as [e2|i2]];
      try (by inversion Ea); by destruct (find_mark k i2).
  - destruct (match find_path A p with
              | Some wd0 => if wd0 =? wd then (K1, A) else ((rm_watch K1 wd0).1, delete wd0 A)
              | None => (K1, A) end) as [K2 A1]. done.
Qed.

(* general form: the kernel is whatever add_watch left *)
Lemma add_same_file_gen : forall k A p f res wd k1,
  find_path A p = Some wd ->
  add_watch k (pick_res (match A !! wd with Some x => N.lor f (N.lor (a_flags x) IN_MASK_ADD) | None => f end) res)
    = (k1, inr wd) ->
  spec_add_core k A p f res = (k1, A, RNil).
Proof.
  intros k A p f res wd k1 Hf Ha. unfold spec_add_core. rewrite Hf. simpl. rewrite Ha.
  rewrite N.eqb_refl. apply find_path_Some in Hf as (x & Hx & _). by rewrite Hx.
Qed.

(* ORIGINAL STATEMENT (false as it stands, see the report):
   forall k A p f res wd, find_path A p = Some wd ->
     (exists k1, add_watch k (pick_res (match A !! wd with ... end) res) = (k1, inr wd)) ->
     spec_add_core k A p f res = (k, A, RNil).
   Counterexample: A = {[ next_wd k := mkAw p 0 ]} with no mark for the file: add_watch allocates wd = next_wd k and the
   kernel gains a mark.  Excluded by [wd <> next_wd k], which SInv's si_bound gives for every listed wd. *)
Theorem add_same_file_noop : forall k A p f res wd,
  wd <> next_wd k ->
  find_path A p = Some wd ->
  (exists k1, add_watch k (pick_res (match A !! wd with Some x => N.lor f (N.lor (a_flags x) IN_MASK_ADD) | None => f end) res)
              = (k1, inr wd)) ->
  spec_add_core k A p f res = (k, A, RNil).
Proof.
  intros k A p f res wd Hne Hf [k1 Ha].
  rewrite (add_same_file_gen k A p f res wd k1 Hf Ha).
  by rewrite (add_watch_existing _ _ _ _ Ha Hne).
Qed.

(* the side condition cannot be dropped: the original statement fails on this (invariant-violating) state *)
Example add_same_file_noop_needs_bound :
  let k := init_k in let A : gmap N aw := {[ 1 := mkAw "p" 0 ]} in
  find_path A "p" = Some 1 /\
  (exists k1, add_watch k (pick_res (match A !! 1 with Some x => N.lor 0 (N.lor (a_flags x) IN_MASK_ADD) | None => 0 end)
                                    (inr 7, inr 7)) = (k1, inr 1)) /\
  spec_add_core k A "p" 0 (inr 7, inr 7) <> (k, A, RNil).
Proof.
  simpl. split; [by vm_compute|]. split; [eexists; by vm_compute|].
  intros H. apply (f_equal (λ t, next_wd t.1.1)) in H. vm_compute in H. done.
Qed.

(* with the two hypotheses suggested in the task *)
Corollary add_same_file_noop_mark : forall k A p f res wd,
  is_Some (marks k !! wd) -> (forall w, is_Some (marks k !! w) -> w < next_wd k) ->
  find_path A p = Some wd ->
  (exists k1, add_watch k (pick_res (match A !! wd with Some x => N.lor f (N.lor (a_flags x) IN_MASK_ADD) | None => f end) res)
              = (k1, inr wd)) ->
  spec_add_core k A p f res = (k, A, RNil).
Proof.
  intros k A p f res wd Hm Hb. apply add_same_file_noop. specialize (Hb wd Hm). lia.
Qed.

(* on a state satisfying the invariant no side condition is left *)
Corollary add_same_file_noop_inv : forall a p f res wd,
  SInv a ->
  find_path (sA a) p = Some wd ->
  (exists k1, add_watch (sK a) (pick_res (match sA a !! wd with Some x => N.lor f (N.lor (a_flags x) IN_MASK_ADD) | None => f end) res)
              = (k1, inr wd)) ->
  spec_add_core (sK a) (sA a) p f res = (sK a, sA a, RNil).
Proof.
  intros a p f res wd Hi Hf. apply add_same_file_noop; [|done].
  apply find_path_Some in Hf as (x & Hx & _).
  assert (0 < wd < next_wd (sK a)) by (apply (si_bound a Hi); right; by eexists). lia.
Qed.

Theorem add_alias_noop : forall k A p f res k1 wd x,
  find_path A p = None -> add_watch k (pick_res f res) = (k1, inr wd) -> A !! wd = Some x ->
  spec_add_core k A p f res = (k1, A, RNil).
Proof.
  intros k A p f res k1 wd x Hf Ha Hx. unfold spec_add_core. rewrite Hf. simpl. rewrite Ha. by rewrite Hx.
Qed.

Theorem add_new_watch : forall k A p f res k1 wd,
  find_path A p = None -> add_watch k (pick_res f res) = (k1, inr wd) -> A !! wd = None ->
  spec_add_core k A p f res = (k1, <[wd := mkAw p f]> A, RNil).
Proof.
  intros k A p f res k1 wd Hf Ha Hx. unfold spec_add_core. rewrite Hf. simpl. rewrite Ha. by rewrite Hx.
Qed.

Theorem add_moves_watch : forall k A p f res wd0 x0 k1 wd k' A' r,
  find_path A p = Some wd0 -> A !! wd0 = Some x0 ->
  add_watch k (pick_res (N.lor f (N.lor (a_flags x0) IN_MASK_ADD)) res) = (k1, inr wd) ->
  wd <> wd0 ->
  spec_add_core k A p f res = (k', A', r) ->
  A' !! wd0 = None /\ marks k' !! wd0 = None /\ k' = (rm_watch k1 wd0).1 /\ r = RNil /\
  ((exists y, A !! wd = Some y /\ A' = delete wd0 A) \/
   (A !! wd = None /\ A' = <[wd := mkAw p (N.lor f (N.lor (a_flags x0) IN_MASK_ADD))]> (delete wd0 A))).
Proof.
  intros k A p f res wd0 x0 k1 wd k' A' r Hf Hx0 Ha Hne. unfold spec_add_core.
  rewrite Hf. simpl. rewrite Hx0. rewrite Ha.
  destruct (wd0 =? wd) eqn:E; [apply N.eqb_eq in E; congruence|].
  rewrite lookup_delete_ne by done.
  destruct (A !! wd) as [y|] eqn:Ey; intros [= <- <- <-].
  - split_and!; [by rewrite lookup_delete|apply rm_watch_marks_None|done|done|]. left. eauto.
  - split_and!; [|apply rm_watch_marks_None|done|done|].
    + rewrite lookup_insert_ne by done. by rewrite lookup_delete.
    + right. done.
Qed.

(* ================================================================== C. Remove *)
Theorem remove_unlisted : forall k A p,
  find_path A p = None -> spec_remove_core k A p = (k, A, RErr ErrNonExistentWatch).
Proof. intros k A p Hf. unfold spec_remove_core. by rewrite Hf. Qed.

Theorem remove_unlisted_conv : forall k A p k' A',
  spec_remove_core k A p = (k', A', RErr ErrNonExistentWatch) -> find_path A p = None /\ k' = k /\ A' = A.
Proof.
  intros k A p k' A'. unfold spec_remove_core. destruct (find_path A p) as [wd|]; [|by intros [= <- <-]].
  destruct (rm_watch k wd) as [K1 [e|]]; intros [=].
Qed.

Theorem remove_listed : forall k A p wd, find_path A p = Some wd ->
  exists k' r, spec_remove_core k A p = (k', delete wd A, r) /\
    ((is_Some (marks k !! wd) /\ r = RNil /\ marks k' !! wd = None /\ kq k' = kq k ++ [ignored_rec wd]) \/
     (marks k !! wd = None /\ r = RErr (ErrNo EINVAL) /\ k' = k)).
Proof.
  intros k A p wd Hf. unfold spec_remove_core. rewrite Hf. unfold rm_watch.
  destruct (marks k !! wd) as [i|] eqn:E.
  - eexists _, _. split; [done|]. left. split_and!; [by eexists|done|simpl; by rewrite lookup_delete|done].
  - eexists _, _. split; [done|]. right. done.
Qed.

Theorem remove_never_panics : forall k A p k' A', spec_remove_core k A p <> (k', A', RErr ErrPanic).
Proof.
  intros k A p k' A'. unfold spec_remove_core. destruct (find_path A p) as [wd|]; [|by intros [=]].
  destruct (rm_watch k wd) as [K1 [e|]]; intros [=].
Qed.

Theorem remove_twice : forall k A p wd,
  (forall w1 w2 x1 x2, A !! w1 = Some x1 -> A !! w2 = Some x2 -> a_path x1 = a_path x2 -> w1 = w2) ->
  find_path A p = Some wd ->
  let '(k1, A1, _) := spec_remove_core k A p in
  spec_remove_core k1 A1 p = (k1, A1, RErr ErrNonExistentWatch).
Proof.
  intros k A p wd Hu Hf. unfold spec_remove_core at 1. rewrite Hf.
  destruct (rm_watch k wd) as [K1 e]. apply remove_unlisted.
  apply find_path_Some in Hf as (x & Hx & Hp). by apply (find_path_delete A p wd x).
Qed.

(* ================================================================== D. a watch ends with its path *)
Definition ends_watch (m : N) : Prop :=
  has_any m IN_IGNORED = true \/ has_any m IN_UNMOUNT = true \/
  has_all m IN_DELETE_SELF = true \/ has_all m IN_MOVE_SELF = true.

(* the watch set and the kernel after one notification, spelled out *)
Lemma spec_handle_sA : forall a r q,
  sA (spec_handle a r q) =
    match sA a !! r_wd r with
    | None => sA a
    | Some _ => if has_any (r_mask r) IN_IGNORED || has_any (r_mask r) IN_UNMOUNT
                   || has_all (r_mask r) IN_DELETE_SELF || has_all (r_mask r) IN_MOVE_SELF
                then delete (r_wd r) (sA a) else sA a
    end.
Proof.
  intros a r q. unfold spec_handle. destruct (sA a !! r_wd r) as [x|]; [|done].
  destruct (has_any (r_mask r) IN_IGNORED || has_any (r_mask r) IN_UNMOUNT) eqn:E; [done|].
  unfold spec_end_of_watch. destruct (spec_deliver _ _ _ _ _) as [R1 o]. done.
Qed.

Lemma spec_handle_sK : forall a r q,
  sK (spec_handle a r q) =
    let K0 := mkK (marks (sK a)) (next_wd (sK a)) q in
    match sA a !! r_wd r with
    | None => K0
    | Some _ => if has_any (r_mask r) IN_IGNORED || has_any (r_mask r) IN_UNMOUNT then K0
                else if has_all (r_mask r) IN_MOVE_SELF && negb (has_all (r_mask r) IN_DELETE_SELF)
                     then (rm_watch K0 (r_wd r)).1 else K0
    end.
Proof.
  intros a r q. unfold spec_handle. destruct (sA a !! r_wd r) as [x|]; [|done].
  destruct (has_any (r_mask r) IN_IGNORED || has_any (r_mask r) IN_UNMOUNT) eqn:E; [done|].
  unfold spec_end_of_watch. destruct (spec_deliver _ _ _ _ _) as [R1 o]. done.
Qed.

Lemma watch_ends_delete : forall a r q x, sA a !! r_wd r = Some x ->
  (has_any (r_mask r) IN_IGNORED = true \/ has_any (r_mask r) IN_UNMOUNT = true \/
   has_all (r_mask r) IN_DELETE_SELF = true \/ has_all (r_mask r) IN_MOVE_SELF = true) ->
  sA (spec_handle a r q) = delete (r_wd r) (sA a).
Proof.
  intros a r q x Hx He. rewrite spec_handle_sA, Hx.
  destruct He as [E|[E|[E|E]]]; rewrite E; by rewrite ?orb_true_r.
Qed.

Theorem watch_ends : forall a r q x, sA a !! r_wd r = Some x ->
  (has_any (r_mask r) IN_IGNORED = true \/ has_any (r_mask r) IN_UNMOUNT = true \/
   has_all (r_mask r) IN_DELETE_SELF = true \/ has_all (r_mask r) IN_MOVE_SELF = true) ->
  sA (spec_handle a r q) !! r_wd r = None /\
  (forall wd, wd <> r_wd r -> sA (spec_handle a r q) !! wd = sA a !! wd).
Proof.
  intros a r q x Hx He. rewrite (watch_ends_delete a r q x Hx He). split; [by rewrite lookup_delete|].
  intros wd Hne. by rewrite lookup_delete_ne.
Qed.

Theorem watch_ends_unlisted : forall a r q x, SInv a -> sA a !! r_wd r = Some x ->
  (has_any (r_mask r) IN_IGNORED = true \/ has_any (r_mask r) IN_UNMOUNT = true \/
   has_all (r_mask r) IN_DELETE_SELF = true \/ has_all (r_mask r) IN_MOVE_SELF = true) ->
  find_path (sA (spec_handle a r q)) (a_path x) = None.
Proof.
  intros a r q x Hi Hx He. rewrite (watch_ends_delete a r q x Hx He).
  apply (find_path_delete (sA a) (a_path x) (r_wd r) x); [exact (si_paths a Hi)|done|done].
Qed.

Corollary watch_ends_remove_reports : forall a r q x, SInv a -> sA a !! r_wd r = Some x ->
  (has_any (r_mask r) IN_IGNORED = true \/ has_any (r_mask r) IN_UNMOUNT = true \/
   has_all (r_mask r) IN_DELETE_SELF = true \/ has_all (r_mask r) IN_MOVE_SELF = true) ->
  let a' := spec_handle a r q in
  spec_remove_core (sK a') (sA a') (a_path x) = (sK a', sA a', RErr ErrNonExistentWatch).
Proof. intros a r q x Hi Hx He. simpl. apply remove_unlisted. by apply watch_ends_unlisted. Qed.

Corollary watch_ends_not_in_list : forall a r q x, SInv a -> sA a !! r_wd r = Some x ->
  (has_any (r_mask r) IN_IGNORED = true \/ has_any (r_mask r) IN_UNMOUNT = true \/
   has_all (r_mask r) IN_DELETE_SELF = true \/ has_all (r_mask r) IN_MOVE_SELF = true) ->
  a_path x ∉ spec_list (sA (spec_handle a r q)).
Proof.
  intros a r q x Hi Hx He Hin. apply spec_list_exact in Hin as (wd & y & Hy & Hp).
  pose proof (watch_ends_unlisted a r q x Hi Hx He) as Hn.
  by apply (proj1 (find_path_None _ _) Hn wd y).
Qed.

Theorem move_self_releases_kernel_watch : forall a r q x, sA a !! r_wd r = Some x ->
  has_all (r_mask r) IN_MOVE_SELF = true -> has_all (r_mask r) IN_DELETE_SELF = false ->
  has_any (r_mask r) IN_IGNORED = false -> has_any (r_mask r) IN_UNMOUNT = false ->
  marks (sK (spec_handle a r q)) !! r_wd r = None.
Proof.
  intros a r q x Hx Hm Hd Hi Hu. rewrite spec_handle_sK. simpl. rewrite Hx, Hm, Hd, Hi, Hu. simpl.
  apply rm_watch_marks_None.
Qed.

Theorem other_notifications_keep_the_watch : forall a r q,
  has_any (r_mask r) IN_IGNORED = false -> has_any (r_mask r) IN_UNMOUNT = false ->
  has_all (r_mask r) IN_DELETE_SELF = false -> has_all (r_mask r) IN_MOVE_SELF = false ->
  sA (spec_handle a r q) = sA a /\ marks (sK (spec_handle a r q)) = marks (sK a).
Proof.
  intros a r q Hi Hu Hd Hm. rewrite spec_handle_sA, spec_handle_sK. simpl. rewrite Hi, Hu, Hd, Hm. simpl.
  by destruct (sA a !! r_wd r).
Qed.

(* Re-Add after the end: the path is unlisted, the (new) file has no mark: a fresh watch under the same spelling *)
Theorem re_add_after_end : forall k A p f ino,
  find_path A p = None -> find_mark k ino = None -> A !! next_wd k = None ->
  spec_add_core k A p f (inr ino, inr ino) =
    (mkK (<[next_wd k := ino]> (marks k)) (N.succ (next_wd k)) (kq k), <[next_wd k := mkAw p f]> A, RNil).
Proof.
  intros k A p f ino Hf Hm Hn. apply add_new_watch; [done| |done].
  unfold pick_res. simpl. assert (Hr : (if negb (N.land f IN_DONT_FOLLOW_FLAG =? 0) then inr ino else inr ino)
                                       = (inr ino : errno + N)) by (by destruct (negb _)).
  rewrite Hr. unfold add_watch. by rewrite Hm.
Qed.

Corollary re_add_after_end_or : forall k A p f ino,
  find_path A p = None -> find_mark k ino = None ->
  spec_add_core k A p f (inr ino, inr ino) =
    (mkK (<[next_wd k := ino]> (marks k)) (N.succ (next_wd k)) (kq k), <[next_wd k := mkAw p f]> A, RNil)
  \/ is_Some (A !! next_wd k).
Proof.
  intros k A p f ino Hf Hm. destruct (A !! next_wd k) eqn:E; [right; by eexists|left].
  by apply re_add_after_end.
Qed.

Corollary re_add_after_end_inv : forall a p f ino, SInv a ->
  find_path (sA a) p = None -> find_mark (sK a) ino = None ->
  spec_add_core (sK a) (sA a) p f (inr ino, inr ino) =
    (mkK (<[next_wd (sK a) := ino]> (marks (sK a))) (N.succ (next_wd (sK a))) (kq (sK a)),
     <[next_wd (sK a) := mkAw p f]> (sA a), RNil).
Proof.
  intros a p f ino Hi Hf Hm. apply re_add_after_end; [done|done|].
  destruct (sA a !! next_wd (sK a)) eqn:E; [|done].
  assert (0 < next_wd (sK a) < next_wd (sK a)) by (apply (si_bound a Hi); right; by eexists). lia.
Qed.

(* ================================================================== E. names follow the caller's spelling *)
Fixpoint add_args (h : list step) : list string :=
  match h with
  | [] => []
  | SAdd arg _ _ _ :: h' => clean arg :: add_args h'
  | _ :: h' => add_args h'
  end.

Definition paths_in (A : gmap N aw) (L : list string) : Prop := ∀ wd x, A !! wd = Some x → a_path x ∈ L.

Lemma paths_in_mono A L L' : paths_in A L → L ⊆ L' → paths_in A L'.
Proof. intros H Hs wd x Hx. apply Hs. by apply (H wd x). Qed.

Lemma paths_in_delete A L wd : paths_in A L → paths_in (delete wd A) L.
Proof. intros H w x Hx. apply lookup_delete_Some in Hx as [_ Hx]. by apply (H w x). Qed.

Lemma spec_add_core_paths k A p f res k' A' r L :
  paths_in A L → spec_add_core k A p f res = (k', A', r) → paths_in A' (L ++ [p]).
Proof.
  intros H. unfold spec_add_core.
  destruct (add_watch k _) as [K1 [er|wd]].
  - intros [= _ <- _]. apply (paths_in_mono A L); [done|set_solver].
  - set (fl := match find_path A p ≫= (λ wd0, A !! wd0) with Some x => _ | None => f end).
    assert (HA1 : paths_in (match find_path A p with
              | Some wd0 => if wd0 =? wd then (K1, A) else ((rm_watch K1 wd0).1, delete wd0 A)
              | None => (K1, A) end).2 L).
    { destruct (find_path A p) as [wd0|]; [|done]. destruct (wd0 =? wd); [done|]. by apply paths_in_delete. }
    destruct (match find_path A p with
              | Some wd0 => if wd0 =? wd then (K1, A) else ((rm_watch K1 wd0).1, delete wd0 A)
              | None => (K1, A) end) as [K2 A1]. simpl in HA1.
    destruct (A1 !! wd) eqn:E; intros [= _ <- _].
    + apply (paths_in_mono A1 L); [done|set_solver].
    + intros w x Hx. apply lookup_insert_Some in Hx as [[_ <-]|[_ Hx]]; simpl; [set_solver|].
      apply elem_of_app. left. by apply (HA1 w x).
Qed.

Lemma spec_handle_paths a r q L : paths_in (sA a) L → paths_in (sA (spec_handle a r q)) L.
Proof.
  intros H. rewrite spec_handle_sA. destruct (sA a !! r_wd r); [|done].
  destruct (_ || _); [by apply paths_in_delete|done].
Qed.

Lemma spec_step_paths a st L : paths_in (sA a) L → paths_in (sA (spec_step a st).1) (L ++ add_args [st]).
Proof.
  intros H. destruct st as [arg ops nf walk|arg| |r|wd ds| |dirs|r dirs]; simpl; rewrite ?app_nil_r; try done.
  - destruct walk as [|[w res] walk]; simpl; [apply (paths_in_mono _ L); [done|set_solver]|].
    unfold spec_add. destruct (spec_add_core _ _ _ _ _) as [[k' A'] r] eqn:E. simpl.
    by apply (spec_add_core_paths _ _ _ _ _ _ _ _ L) in E.
  - unfold spec_remove, spec_remove_core. destruct (find_path _ _) as [wd|]; simpl; [|done].
    destruct (rm_watch _ _) as [K1 e]. simpl. by apply paths_in_delete.
  - destruct (kq (sK a)) as [|r q]; simpl; [done|]. by apply spec_handle_paths.
  - by apply spec_handle_paths.
Qed.

Lemma add_args_cons st h : add_args (st :: h) = add_args [st] ++ add_args h.
Proof. by destruct st. Qed.

Theorem paths_are_add_arguments : forall h a L,
  (forall wd x, sA a !! wd = Some x -> a_path x ∈ L) ->
  forall wd x, sA (spec_run h a).1 !! wd = Some x -> a_path x ∈ L ++ add_args h.
Proof.
  induction h as [|st h IH]; intros a L H.
  - simpl. rewrite app_nil_r. exact H.
  - rewrite add_args_cons, app_assoc. pose proof (spec_step_paths a st L H) as H1.
    cbn [spec_run]. destruct (spec_step a st) as [s1 r1] eqn:E1. cbn [fst] in H1.
    specialize (IH s1 _ H1). destruct (spec_run h s1) as [s2 rs]. exact IH.
Qed.

Corollary paths_are_add_arguments_init : forall h wd x,
  sA (spec_run h init_spec).1 !! wd = Some x -> a_path x ∈ add_args h.
Proof.
  intros h wd x Hx. apply (paths_are_add_arguments h init_spec [] ) in Hx; [done|].
  intros w y Hy. simpl in Hy. by rewrite lookup_empty in Hy.
Qed.

(* hence everything WatchList shows is the cleaned argument of some Add *)
Corollary listed_are_add_arguments : forall h p,
  p ∈ spec_list (sA (spec_run h init_spec).1) -> p ∈ add_args h.
Proof.
  intros h p Hp. apply spec_list_exact in Hp as (wd & x & Hx & <-). by apply (paths_are_add_arguments_init h wd x).
Qed.

Print Assumptions add_moves_watch.
Print Assumptions watch_ends_unlisted.
Print Assumptions paths_are_add_arguments.
