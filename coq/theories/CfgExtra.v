(* CfgExtra.v — one more shape fact read off the generated skeleton, used by C19: in the reader, a notification's
   watches are registered BEFORE its event is sent, never after: once `sendEvent` has been called for a notification,
   nothing that can reach inotify_add_watch runs before the next notification is decoded.  (So a directory created
   inside a recursive tree is covered from the moment its Create event is delivered.) *)
From Coq Require Import List String Bool Arith.
From Fsn Require Import CfgLang Cfg.
Import ListNotations.
Local Open Scope string_scope.

Definition is_add_watch (a : act) : bool :=
  match a with ASyscall n => String.eqb n "InotifyAddWatch" | _ => false end.

(* does statement s (syntactically, through calls) reach inotify_add_watch? *)
Definition reaches_add_watch (p : program) (s : sk) : bool :=
  existsb is_add_watch (acts_in s) ||
  existsb (fun f => existsb is_add_watch (acts_of (reach_fuel p) p f)) (calls_in s).

Definition is_call (f : string) (s : sk) : bool := match s with SCall g => String.eqb f g | _ => false end.

(* in a statement list: everything after the first call of sendEvent *)
Fixpoint after_send (l : list sk) : option (list sk) :=
  match l with
  | [] => None
  | s :: r => if is_call "shared.sendEvent" s then Some r else after_send r
  end.

(* every statement list inside s in which sendEvent is called: nothing after that call reaches inotify_add_watch *)
Fixpoint no_add_after_send (p : program) (s : sk) : bool :=
  match s with
  | SSeq l => (match after_send l with Some r => negb (existsb (reaches_add_watch p) r) | None => true end)
              && forallb (no_add_after_send p) l
  | SIf bs => forallb (no_add_after_send p) bs
  | SLoop b => no_add_after_send p b
  | SDefer b => forallb (no_add_after_send p) b
  | _ => true
  end.

Definition calls_send_event (p : program) : bool := existsb (String.eqb "shared.sendEvent") (calls_in (body_of p "inotify.readEvents")).

Definition register_before_send (p : program) : bool :=
  calls_send_event p && no_add_after_send p (body_of p "inotify.readEvents").

(* the check can fail *)
Example register_after_send_rejected :
  register_before_send
    [("inotify.readEvents", SLoop (SSeq [SCall "inotify.handleEvent"; SCall "shared.sendEvent"; SCall "inotify.watchNewDir"]));
     ("inotify.handleEvent", SSeq []); ("shared.sendEvent", SSeq []);
     ("inotify.watchNewDir", SSeq [SAct (ALock MuMain); SCall "inotify.register"; SAct (AUnlock MuMain)]);
     ("inotify.register", SAct (ASyscall "InotifyAddWatch"))] = false.
Proof. vm_compute. reflexivity. Qed.
Example register_before_send_accepted :
  register_before_send
    [("inotify.readEvents", SLoop (SSeq [SCall "inotify.handleEvent"; SCall "shared.sendEvent"; SIf [SReturn; SSeq []]]));
     ("inotify.handleEvent", SSeq [SAct (ALock MuMain); SCall "inotify.register"; SAct (AUnlock MuMain)]); ("shared.sendEvent", SSeq []);
     ("inotify.register", SAct (ASyscall "InotifyAddWatch"))] = true.
Proof. vm_compute. reflexivity. Qed.
