(* CfgExtra.v — one more shape fact read off the generated skeleton, used by C19: in the reader, a notification's
   watches are registered BEFORE its event is sent, never after: once `sendEvent` has been called for a notification,
   nothing that can reach inotify_add_watch runs before the next notification is decoded.  (So a directory created
   inside a recursive tree is covered from the moment its Create event is delivered.) *)
From Coq Require Import List String Bool Arith.
From Fsn Require Import CfgLang Cfg.
Import ListNotations.
Local Open Scope string_scope.

Definition is_add_watch (a : act) : bool :=
  match a with ASyscall n => String.eqb n "InotifyAddWatch" | _ => false end.

(* does statement s (syntactically, through calls) reach inotify_add_watch? *)
Definition reaches_add_watch (p : program) (s : sk) : bool :=
  existsb is_add_watch (acts_in s) ||
  existsb (fun f => existsb is_add_watch (acts_of (reach_fuel p) p f)) (calls_in s).

(* a call that (transitively) reaches sendEvent counts as the send: the reader may keep its buffer walk in a helper *)
Definition sends (p : program) (g : string) : bool := str_mem "shared.sendEvent" (reach (reach_fuel p) p g).
Definition is_send_call (p : program) (s : sk) : bool := match s with SCall g => sends p g | _ => false end.

(* in a statement list: everything after the first call that sends the event *)
Fixpoint after_send (p : program) (l : list sk) : option (list sk) :=
  match l with
  | [] => None
  | s :: r => if is_send_call p s then Some r else after_send p r
  end.

(* every statement list inside s in which the event is sent: nothing after that call reaches inotify_add_watch *)
Fixpoint no_add_after_send (p : program) (s : sk) : bool :=
  match s with
  | SSeq l => (match after_send p l with Some r => negb (existsb (reaches_add_watch p) r) | None => true end)
              && forallb (no_add_after_send p) l
  | SIf bs => forallb (no_add_after_send p) bs
  | SLoop b => no_add_after_send p b
  | SDefer b => forallb (no_add_after_send p) b
  | _ => true
  end.

(* the functions the reader goroutine runs *)
Definition reader_funs (p : program) : list string := reach (reach_fuel p) p "inotify.readEvents".

Definition calls_send_event (p : program) : bool := str_mem "shared.sendEvent" (reader_funs p).

Definition register_before_send (p : program) : bool :=
  calls_send_event p && forallb (fun f => no_add_after_send p (body_of p f)) (reader_funs p).

(* the check can fail *)
Example register_after_send_rejected :
  register_before_send
    [("inotify.readEvents", SLoop (SSeq [SCall "inotify.handleEvent"; SCall "shared.sendEvent"; SCall "inotify.watchNewDir"]));
     ("inotify.handleEvent", SSeq []); ("shared.sendEvent", SSeq []);
     ("inotify.watchNewDir", SSeq [SAct (ALock MuMain); SCall "inotify.register"; SAct (AUnlock MuMain)]);
     ("inotify.register", SAct (ASyscall "InotifyAddWatch"))] = false.
Proof. vm_compute. reflexivity. Qed.
Example register_before_send_accepted :
  register_before_send
    [("inotify.readEvents", SLoop (SSeq [SCall "inotify.handleEvent"; SCall "shared.sendEvent"; SIf [SReturn; SSeq []]]));
     ("inotify.handleEvent", SSeq [SAct (ALock MuMain); SCall "inotify.register"; SAct (AUnlock MuMain)]); ("shared.sendEvent", SSeq []);
     ("inotify.register", SAct (ASyscall "InotifyAddWatch"))] = true.
Proof. vm_compute. reflexivity. Qed.

(* the buffer walk in a helper of its own: still accepted; a registration after the helper's send: rejected *)
Example register_before_send_helper_accepted :
  register_before_send
    [("inotify.readEvents", SLoop (SSeq [SAct AFileRead; SCall "inotify.handleBuffer"]));
     ("inotify.handleBuffer", SLoop (SSeq [SCall "inotify.handleEvent"; SCall "shared.sendEvent"]));
     ("inotify.handleEvent", SSeq [SAct (ALock MuMain); SCall "inotify.register"; SAct (AUnlock MuMain)]); ("shared.sendEvent", SSeq []);
     ("inotify.register", SAct (ASyscall "InotifyAddWatch"))] = true.
Proof. vm_compute. reflexivity. Qed.
Example register_after_helper_send_rejected :
  register_before_send
    [("inotify.readEvents", SLoop (SSeq [SAct AFileRead; SCall "inotify.handleBuffer"; SCall "inotify.register"]));
     ("inotify.handleBuffer", SLoop (SSeq [SCall "inotify.handleEvent"; SCall "shared.sendEvent"]));
     ("inotify.handleEvent", SSeq []); ("shared.sendEvent", SSeq []);
     ("inotify.register", SAct (ASyscall "InotifyAddWatch"))] = false.
Proof. vm_compute. reflexivity. Qed.
