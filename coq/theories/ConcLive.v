(* ConcLive.v — progress theorems for the goroutine-level model (Conc.v): control operations (Add / Remove /
   WatchList / Close) never wait for the consumer of Events / Errors, provided no channel operation happens while
   `mu` is held (cf_send_in_cs = false); with cf_send_in_cs = true there is a concrete deadlock. *)
From stdpp Require Import gmap list.
From Fsn Require Import Conc ConcDefs.
Local Open Scope nat_scope.

Section Live.
  Context {E X D C R I K : Type}.
  Variable api : D → C → D * R.
  Variable closed_result : C → R.
  Variable pre : I → list (@msg E X).
  Variable hnd : D → I → D * list (@msg E X).
  Variable env : D → K → option D.
  Notation cstate := (@cstate E X D C R I K).
  Notation rpc := (@rpc E X I).
  Notation cpc := (@cpc C R).
  Notation label := (@label C R I K).
  Notation msg := (@msg E X).
  Notation cstep := (cstep api closed_result pre hnd env).
  Notation crun := (crun api closed_result pre hnd env).
  Notation thread_step := (thread_step api closed_result).
  Notation reader_step := (reader_step pre hnd).

  (* ------------------------------------------------------------------------------------------------------------ *)
  (* Auxiliary invariant (facts about reachable states that CInv of ConcDefs.v does not record)                    *)
  (* ------------------------------------------------------------------------------------------------------------ *)
  Record LInv (cf : cfacts) (s : cstate) : Prop := mkLInv {
    li_no_cs_send : cf_send_in_cs cf = false → ∀ ms a r, rd s ≠ RCsSend ms a r;
    li_dead_ev : rd s = RDead → ev_closed s = true;
    li_exit_er : rd s = RExit3 ∨ rd s = RDead → er_closed s = true;
    li_done_file : done_closed s = true → file_closed s = true ∨ ∃ t', thr s !! t' = Some KCloseFile;
  }.

  (* upper bound on the number of reader steps to RDead once done and the file are closed *)
  Definition reader_measure (p : rpc) : nat :=
    match p with
    | RDead => 0 | RExit3 => 1 | RExit2 => 2 | RExit1 => 3 | RTop => 4 | RRead => 4
    | RBatch items => 5 * length items + 5
    | RPre _ _ rest => 5 * length rest + 9
    | RWantLock _ rest => 5 * length rest + 8
    | RInCs _ rest => 5 * length rest + 7
    | RCsSend ms _ rest => length ms + 5 * length rest + 7
    | RPost _ rest => 5 * length rest + 6
    end.

  (* which channels the reader has closed, by program counter *)
  Definition Fin (s : cstate) : Prop :=
    (rd s = RExit2 → resp_closed s = true) ∧
    (rd s = RExit3 → resp_closed s = true ∧ er_closed s = true) ∧
    (rd s = RDead → resp_closed s = true ∧ er_closed s = true ∧ ev_closed s = true).
  (* nobody but (possibly) the reader holds mu *)
  Definition RdMu (s : cstate) : Prop := reader_in_cs (rd s) = false → mu s = None.

  Lemma Fin_of_inv cap cf s : CInv cap s → LInv cf s → Fin s.
  Proof.
    intros HI HL. unfold Fin. split; [|split]; intros Hrd; repeat split.
    - apply (ci_exit_resp _ _ HI); auto.
    - apply (ci_exit_resp _ _ HI); auto.
    - apply (li_exit_er _ _ HL); auto.
    - apply (ci_exit_resp _ _ HI); auto.
    - apply (li_exit_er _ _ HL); auto.
    - apply (li_dead_ev _ _ HL); auto.
  Qed.

  Lemma Fin_ext s s' :
    rd s' = rd s → resp_closed s' = resp_closed s → er_closed s' = er_closed s → ev_closed s' = ev_closed s →
    Fin s → Fin s'.
  Proof. unfold Fin. intros -> -> -> ->. done. Qed.

  (* ------------------------------------------------------------------------------------------------------------ *)
  (* crun                                                                                                          *)
  (* ------------------------------------------------------------------------------------------------------------ *)
  Lemma crun_app cap cf (s : cstate) l1 l2 s1 : crun cap cf s l1 = Some s1 → crun cap cf s (l1 ++ l2) = crun cap cf s1 l2.
  Proof.
    revert s. induction l1 as [|l l1 IH]; intros s; simpl.
    - by intros [= ->].
    - destruct (cstep cap cf s l); [apply IH|done].
  Qed.
  Lemma crun_cons cap cf (s : cstate) l ls s1 : cstep cap cf s l = Some s1 → crun cap cf s (l :: ls) = crun cap cf s1 ls.
  Proof. simpl. by intros ->. Qed.
  Lemma cstep_thr cap cf (s : cstate) t : t ≠ reader_tid → cstep cap cf s (LThr t) = thread_step cf s t.
  Proof. intros Ht. unfold Conc.cstep. by rewrite decide_False. Qed.
  Lemma cstep_rd cap cf (s : cstate) : cstep cap cf s (LThr reader_tid) = reader_step cap cf s.
  Proof. unfold Conc.cstep. by rewrite decide_True. Qed.

  Lemma only_threads_nil : only_threads ([] : list label).
  Proof. constructor. Qed.
  Lemma only_threads_cons t ls : only_threads ls → only_threads (LThr t :: ls : list label).
  Proof. by constructor. Qed.
  Lemma only_threads_app l1 l2 : only_threads l1 → only_threads l2 → only_threads (l1 ++ l2 : list label).
  Proof. apply Forall_app_2. Qed.
  Lemma only_threads_replicate n t : only_threads (replicate n (LThr t) : list label).
  Proof. apply Forall_replicate. done. Qed.

  (* ------------------------------------------------------------------------------------------------------------ *)
  (* The reader once done and the file are closed                                                                  *)
  (* ------------------------------------------------------------------------------------------------------------ *)
  Lemma reader_step_closed cap cf (s s' : cstate) :
    cf_send_in_cs cf = false → done_closed s = true → file_closed s = true →
    reader_step cap cf s = Some s' →
    reader_measure (rd s') < reader_measure (rd s) ∧ done_closed s' = true ∧ file_closed s' = true ∧ thr s' = thr s.
  Proof.
    intros Hcf Hd Hf. unfold Conc.reader_step. rewrite Hcf, Hd, Hf.
    destruct (rd s) as [| |[|it items]|[|[e|x] ms] it rest|it rest|it rest|[|[e|x] ms] after rest|[|[e|x] ms] rest| | | |];
      destruct (mu s); try destruct (hnd (data s) it); intros; simplify_eq/=; repeat split; auto; lia.
  Qed.

  Lemma reader_step_keeps cap cf (s s' : cstate) :
    done_closed s = true → reader_step cap cf s = Some s' → Fin s → RdMu s → Fin s' ∧ RdMu s'.
  Proof.
    intros Hd Hs (H2 & H3 & H4) Hmu. unfold Conc.reader_step in Hs. unfold Fin, RdMu in *. rewrite Hd in Hs.
    destruct (rd s) as [| |[|it items]|[|[e|x] ms] it rest|it rest|it rest|[|[e|x] ms] after rest|[|[e|x] ms] rest| | | |];
      simpl in *; try destruct (hnd (data s) it); destruct (mu s) eqn:Hm, (cf_send_in_cs cf), (file_closed s); simplify_eq/=;
      (split; [repeat split|]); intros; simplify_eq/=; auto;
      try (by apply H3); try (by apply H2); try (by apply Hmu); try (by specialize (Hmu eq_refl)).
  Qed.

  Lemma reader_enabled cap cf (s : cstate) :
    done_closed s = true → file_closed s = true → RdMu s → rd s ≠ RDead → is_Some (reader_step cap cf s).
  Proof.
    intros Hd Hf. unfold Conc.reader_step, RdMu. rewrite Hd, Hf.
    destruct (rd s) as [| |[|it items]|[|[e|x] ms] it rest|it rest|it rest|[|[e|x] ms] after rest|[|[e|x] ms] rest| | | |];
      intros Hmu ?; simpl in *; try rewrite Hmu by done; try destruct (hnd (data s) it);
      try destruct (cf_send_in_cs cf); try done; eauto.
  Qed.

  Lemma reader_run cap cf n : ∀ s : cstate,
    reader_measure (rd s) ≤ n → cf_send_in_cs cf = false → done_closed s = true → file_closed s = true →
    Fin s → RdMu s →
    ∃ k s', k ≤ reader_measure (rd s) ∧ crun cap cf s (replicate k (LThr reader_tid)) = Some s' ∧
            rd s' = RDead ∧ ev_closed s' = true ∧ er_closed s' = true ∧ resp_closed s' = true ∧
            thr s' = thr s ∧ done_closed s' = true ∧ file_closed s' = true.
  Proof.
    induction n as [|n IH]; intros s Hn Hcf Hd Hf HF HM.
    - assert (rd s = RDead) as Hrd by (destruct (rd s); simpl in *; done || lia).
      exists 0, s. destruct HF as (_ & _ & HF). destruct (HF Hrd) as (? & ? & ?). simpl. repeat split; auto. lia.
    - assert (rd s = RDead ∨ rd s ≠ RDead) as [Hrd|Hrd] by (destruct (rd s); auto).
      { exists 0, s. destruct HF as (_ & _ & HF). destruct (HF Hrd) as (? & ? & ?). simpl. repeat split; auto. lia. }
      destruct (reader_enabled cap cf s Hd Hf HM Hrd) as [s1 Hs1].
      destruct (reader_step_closed _ _ _ _ Hcf Hd Hf Hs1) as (Hlt & Hd1 & Hf1 & Ht1).
      destruct (reader_step_keeps _ _ _ _ Hd Hs1 HF HM) as (HF1 & HM1).
      destruct (IH s1) as (k & s' & Hk & Hrun & ? & ? & ? & ? & Ht' & ? & ?); auto; [lia|].
      exists (S k), s'. split; [lia|]. split.
      { simpl replicate. rewrite (crun_cons _ _ _ _ _ s1); [done|]. by rewrite cstep_rd. }
      repeat split; auto. congruence.
  Qed.

  (* ------------------------------------------------------------------------------------------------------------ *)
  (* Steps of callers and closers                                                                                  *)
  (* ------------------------------------------------------------------------------------------------------------ *)
  Lemma step_CStart cf (s : cstate) t c :
    thr s !! t = Some (CStart c) →
    ∃ p, (p = CWantLock c ∨ ∃ r, p = CDone r) ∧ thread_step cf s t = Some (upd_thr s t p).
  Proof.
    intros Ht. unfold Conc.thread_step. rewrite Ht.
    destruct (cf_guard_first cf && done_closed s); eauto.
  Qed.
  Lemma step_CWantLock cf (s : cstate) t c :
    thr s !! t = Some (CWantLock c) → mu s = None →
    thread_step cf s t = Some (upd_mu (upd_thr s t (CInCs c)) (Some t)).
  Proof. intros Ht Hm. unfold Conc.thread_step. by rewrite Ht, Hm. Qed.
  Lemma step_CInCs cf (s : cstate) t c :
    thr s !! t = Some (CInCs c) →
    ∃ s' r, thread_step cf s t = Some s' ∧ mu s' = None ∧ thr s' = <[t := CDone r]> (thr s) ∧ rd s' = rd s ∧
            done_closed s' = done_closed s ∧ file_closed s' = file_closed s ∧ resp_closed s' = resp_closed s ∧
            ev_closed s' = ev_closed s ∧ er_closed s' = er_closed s.
  Proof.
    intros Ht. unfold Conc.thread_step. rewrite Ht. destruct (api (data s) c) as [d' r].
    eexists _, r. split; [done|]. simpl. repeat split.
  Qed.
  Lemma step_KStart cf (s : cstate) t :
    thr s !! t = Some KStart → mu s = None → thread_step cf s t = Some (upd_mu (upd_thr s t KInCs) (Some t)).
  Proof. intros Ht Hm. unfold Conc.thread_step. by rewrite Ht, Hm. Qed.
  Lemma step_KInCs cf (s : cstate) t :
    thr s !! t = Some KInCs →
    ∃ s' p, thread_step cf s t = Some s' ∧ mu s' = None ∧ thr s' = <[t := p]> (thr s) ∧ rd s' = rd s ∧
            done_closed s' = true ∧ file_closed s' = file_closed s ∧ resp_closed s' = resp_closed s ∧
            ev_closed s' = ev_closed s ∧ er_closed s' = er_closed s ∧
            (p = KDone ∨ p = KCloseFile).
  Proof.
    intros Ht. unfold Conc.thread_step. rewrite Ht. destruct (done_closed s) eqn:Hd.
    - eexists _, KDone. split; [done|]. simpl. repeat split; auto.
    - eexists _, KCloseFile. split; [done|]. simpl. repeat split; auto.
  Qed.
  Lemma step_KCloseFile cf (s : cstate) t :
    thr s !! t = Some KCloseFile →
    ∃ s', thread_step cf s t = Some s' ∧ mu s' = mu s ∧ thr s' = <[t := KWaitResp]> (thr s) ∧ rd s' = rd s ∧
          done_closed s' = done_closed s ∧ file_closed s' = true ∧ resp_closed s' = resp_closed s ∧
          ev_closed s' = ev_closed s ∧ er_closed s' = er_closed s.
  Proof. intros Ht. unfold Conc.thread_step. rewrite Ht. eexists. split; [done|]. simpl. repeat split. Qed.
  Lemma step_KWaitResp cf (s : cstate) t :
    thr s !! t = Some KWaitResp → resp_closed s = true → thread_step cf s t = Some (upd_thr s t KDone).
  Proof. intros Ht Hr. unfold Conc.thread_step. by rewrite Ht, Hr. Qed.

  (* whoever holds mu (other than the reader) releases it with its next step, which is always enabled *)
  Lemma holder_release cf (s : cstate) h p :
    thr s !! h = Some p → thread_in_cs p = true →
    ∃ s', thread_step cf s h = Some s' ∧ mu s' = None ∧ rd s' = rd s ∧ (∀ t, t ≠ h → thr s' !! t = thr s !! t) ∧
          (done_closed s = true → done_closed s' = true) ∧ file_closed s' = file_closed s ∧
          resp_closed s' = resp_closed s ∧ ev_closed s' = ev_closed s ∧ er_closed s' = er_closed s.
  Proof.
    intros Hh Hp. destruct p; try done.
    - destruct (step_CInCs cf s h c Hh) as (s' & r & Hs & ? & Ht & ? & Hd & ? & ? & ? & ?).
      exists s'. repeat split; auto; [|congruence]. intros t ?. rewrite Ht. by rewrite lookup_insert_ne.
    - destruct (step_KInCs cf s h Hh) as (s' & p & Hs & ? & Ht & ? & Hd & ? & ? & ? & ? & _).
      exists s'. repeat split; auto. intros t ?. rewrite Ht. by rewrite lookup_insert_ne.
  Qed.

  (* after at most one step of the holder, mu is free — no consumer, kernel or spawn step is involved *)
  Lemma free_lock cap cf (s : cstate) :
    cf_send_in_cs cf = false → CInv cap s → LInv cf s →
    ∃ ls s', only_threads ls ∧ crun cap cf s ls = Some s' ∧ length ls ≤ 1 ∧
             length ls + reader_measure (rd s') ≤ reader_measure (rd s) + 1 ∧
             mu s' = None ∧ reader_in_cs (rd s') = false ∧ Fin s' ∧
             (∀ t p, t ≠ reader_tid → thr s !! t = Some p → thread_in_cs p = false → thr s' !! t = Some p) ∧
             (done_closed s = true → done_closed s' = true) ∧ file_closed s' = file_closed s.
  Proof.
    intros Hcf HI HL. pose proof (Fin_of_inv _ _ _ HI HL) as HF.
    destruct (mu s) as [h|] eqn:Hm.
    - destruct (decide (h = reader_tid)) as [->|Hh].
      + (* the reader is inside handleEvent's critical section: its next step unlocks *)
        pose proof (proj1 (ci_reader_mu _ _ HI) Hm) as Hcs.
        destruct (rd s) as [| | | | |it rest|ms a r| | | | |] eqn:Hrd; try done.
        2:{ by destruct (li_no_cs_send _ _ HL Hcf ms a r). }
        destruct (hnd (data s) it) as [d' post] eqn:Hh.
        eexists [LThr reader_tid], _.
        split; [apply only_threads_cons, only_threads_nil|].
        split. { erewrite crun_cons; [done|]. rewrite cstep_rd. unfold Conc.reader_step. by rewrite Hrd, Hh, Hcf. }
        simpl. split_and!; auto; try lia; try done.
      + destruct (proj1 (ci_thread_mu _ _ HI h Hh) Hm) as (p & Hp & Hpcs).
        destruct (holder_release cf s h p Hp Hpcs) as (s' & Hs & ? & Hrd & Ht & ? & ? & ? & ? & ?).
        exists [LThr h], s'. split; [apply only_threads_cons, only_threads_nil|].
        split. { erewrite crun_cons; [done|]. by rewrite cstep_thr. }
        rewrite Hrd. simpl. split_and!; auto; try lia.
        * destruct (reader_in_cs (rd s)) eqn:Hcs; [|done].
          apply (ci_reader_mu _ _ HI) in Hcs. congruence.
        * by apply (Fin_ext s).
        * intros t q ? Hq Hqcs. rewrite Ht; [done|]. intros ->. congruence.
    - exists [], s. split; [apply only_threads_nil|]. simpl. split_and!; auto; try lia.
      destruct (reader_in_cs (rd s)) eqn:Hcs; [|done].
      apply (ci_reader_mu _ _ HI) in Hcs. congruence.
  Qed.

  (* ------------------------------------------------------------------------------------------------------------ *)
  (* 1. API callers return                                                                                         *)
  (* ------------------------------------------------------------------------------------------------------------ *)
  Lemma caller_from_incs cap cf (s : cstate) t c :
    t ≠ reader_tid → thr s !! t = Some (CInCs c) →
    ∃ s', crun cap cf s [LThr t] = Some s' ∧ ∃ r, thr s' !! t = Some (CDone r).
  Proof.
    intros Ht Hp. destruct (step_CInCs cf s t c Hp) as (s2 & r & H2 & _ & Hthr & _).
    exists s2. split.
    - erewrite crun_cons by (rewrite cstep_thr; eauto). done.
    - exists r. rewrite Hthr. apply lookup_insert.
  Qed.
  Lemma caller_from_wantlock cap cf (s : cstate) t c :
    t ≠ reader_tid → thr s !! t = Some (CWantLock c) → mu s = None →
    ∃ s', crun cap cf s [LThr t; LThr t] = Some s' ∧ ∃ r, thr s' !! t = Some (CDone r).
  Proof.
    intros Ht Hp Hm. pose proof (step_CWantLock cf s t c Hp Hm) as H1.
    destruct (caller_from_incs cap cf (upd_mu (upd_thr s t (CInCs c)) (Some t)) t c Ht) as (s2 & H2 & Hr).
    { simpl. apply lookup_insert. }
    exists s2. split; [|done]. erewrite crun_cons by (rewrite cstep_thr; eauto). done.
  Qed.
  Lemma caller_from_start cap cf (s : cstate) t c :
    t ≠ reader_tid → thr s !! t = Some (CStart c) → mu s = None →
    ∃ ls s', only_threads ls ∧ length ls ≤ 3 ∧ crun cap cf s ls = Some s' ∧ ∃ r, thr s' !! t = Some (CDone r).
  Proof.
    intros Ht Hp Hm. destruct (step_CStart cf s t c Hp) as (p & [->|[r ->]] & H1).
    - destruct (caller_from_wantlock cap cf (upd_thr s t (CWantLock c)) t c Ht) as (s2 & H2 & Hr).
      { simpl. apply lookup_insert. } { done. }
      exists [LThr t; LThr t; LThr t], s2. split; [repeat apply only_threads_cons; apply only_threads_nil|].
      split; [simpl; lia|]. split; [|done]. erewrite crun_cons by (rewrite cstep_thr; eauto). done.
    - exists [LThr t], (upd_thr s t (CDone r)). split; [repeat apply only_threads_cons; apply only_threads_nil|].
      split; [simpl; lia|]. split. { erewrite crun_cons by (rewrite cstep_thr; eauto). done. }
      exists r. simpl. apply lookup_insert.
  Qed.

  (* Add / Remove / WatchList return after at most 4 steps: at most one step of whoever holds mu (the reader inside
     handleEvent's critical section, another caller or a closer in its critical section), then at most three steps of
     the caller itself.  No consumer, kernel or spawn step: the reader may be blocked on a send for ever.
     Extra premise w.r.t. CInv: LInv (here: cf_send_in_cs = false → the reader is never at RCsSend), which holds in all
     reachable states (reachable_LInv below); CInv alone allows rd = RCsSend (MEr _ :: _) with done open, where the
     reader holds mu and waits for the consumer. *)
  Theorem caller_returns : ∀ cap cf (s : cstate) t p,
    cf_send_in_cs cf = false → CInv cap s → LInv cf s → t ≠ reader_tid → thr s !! t = Some p →
    (∃ c, p = CStart c ∨ p = CWantLock c ∨ p = CInCs c) →
    ∃ ls s', only_threads ls ∧ length ls ≤ 4 ∧ crun cap cf s ls = Some s' ∧ ∃ r, thr s' !! t = Some (CDone r).
  Proof.
    intros cap cf s t p Hcf HI HL Ht Hp (c & Hc).
    destruct Hc as [->|[->| ->]].
    - destruct (free_lock cap cf s Hcf HI HL) as (l1 & s1 & Ho1 & Hr1 & Hl1 & _ & Hm1 & _ & _ & Hthr & _).
      destruct (caller_from_start cap cf s1 t c Ht) as (l2 & s2 & Ho2 & Hl2 & Hr2 & Hr); auto.
      exists (l1 ++ l2), s2. split; [by apply only_threads_app|]. split; [rewrite app_length; lia|].
      split; [|done]. by rewrite (crun_app _ _ _ _ _ s1).
    - destruct (free_lock cap cf s Hcf HI HL) as (l1 & s1 & Ho1 & Hr1 & Hl1 & _ & Hm1 & _ & _ & Hthr & _).
      destruct (caller_from_wantlock cap cf s1 t c Ht) as (s2 & Hr2 & Hr); auto.
      exists (l1 ++ [LThr t; LThr t]), s2.
      split; [apply only_threads_app; [done|repeat apply only_threads_cons; apply only_threads_nil]|].
      split; [rewrite app_length; simpl; lia|].
      split; [|done]. by rewrite (crun_app _ _ _ _ _ s1).
    - destruct (caller_from_incs cap cf s t c Ht Hp) as (s2 & Hr2 & Hr).
      exists [LThr t], s2. split; [repeat apply only_threads_cons; apply only_threads_nil|].
      split; [simpl; lia|]. done.
  Qed.

  (* ------------------------------------------------------------------------------------------------------------ *)
  (* 2. The reader exits and Close returns                                                                         *)
  (* ------------------------------------------------------------------------------------------------------------ *)
  Theorem reader_exits : ∀ cap cf (s : cstate),
    cf_send_in_cs cf = false → CInv cap s → LInv cf s → done_closed s = true → file_closed s = true →
    ∃ ls s', only_threads ls ∧ length ls ≤ reader_measure (rd s) + 1 ∧ crun cap cf s ls = Some s' ∧
             rd s' = RDead ∧ ev_closed s' = true ∧ er_closed s' = true ∧ resp_closed s' = true.
  Proof.
    intros cap cf s Hcf HI HL Hd Hf.
    destruct (free_lock cap cf s Hcf HI HL) as (l1 & s1 & Ho1 & Hr1 & Hl1 & Hms & Hm1 & Hcs1 & HF1 & _ & Hd1 & Hf1).
    destruct (reader_run cap cf _ s1 (le_n _) Hcf) as (k & s2 & Hk & Hr2 & ? & ? & ? & ? & _); auto; try congruence.
    exists (l1 ++ replicate k (LThr reader_tid)), s2.
    split; [apply only_threads_app; [done|apply only_threads_replicate]|].
    split; [rewrite app_length, replicate_length; lia|].
    split; [|done]. by rewrite (crun_app _ _ _ _ _ s1).
  Qed.

  Lemma closer_from_waitresp cap cf (s : cstate) t :
    cf_send_in_cs cf = false → t ≠ reader_tid → thr s !! t = Some KWaitResp →
    done_closed s = true → file_closed s = true → Fin s → RdMu s →
    ∃ ls s', only_threads ls ∧ length ls ≤ reader_measure (rd s) + 1 ∧ crun cap cf s ls = Some s' ∧
             thr s' !! t = Some KDone.
  Proof.
    intros Hcf Ht Hp Hd Hf HF HM.
    destruct (reader_run cap cf _ s (le_n _) Hcf Hd Hf HF HM) as (k & s1 & Hk & Hr1 & _ & _ & _ & Hresp & Hthr & _).
    assert (thr s1 !! t = Some KWaitResp) as Hp1 by (by rewrite Hthr).
    pose proof (step_KWaitResp cf s1 t Hp1 Hresp) as H2.
    exists (replicate k (LThr reader_tid) ++ [LThr t]), (upd_thr s1 t KDone).
    split; [apply only_threads_app; [apply only_threads_replicate|apply only_threads_cons, only_threads_nil]|].
    split; [rewrite app_length, replicate_length; simpl; lia|].
    split; [|simpl; apply lookup_insert].
    rewrite (crun_app _ _ _ _ _ s1) by done. erewrite crun_cons by (rewrite cstep_thr; eauto). done.
  Qed.

  Lemma closer_from_closefile cap cf (s : cstate) t :
    cf_send_in_cs cf = false → t ≠ reader_tid → thr s !! t = Some KCloseFile →
    done_closed s = true → Fin s → RdMu s →
    ∃ ls s', only_threads ls ∧ length ls ≤ reader_measure (rd s) + 2 ∧ crun cap cf s ls = Some s' ∧
             thr s' !! t = Some KDone.
  Proof.
    intros Hcf Ht Hp Hd HF HM.
    destruct (step_KCloseFile cf s t Hp) as (s1 & H1 & Hm1 & Hthr & Hrd & Hd1 & Hf1 & ? & ? & ?).
    destruct (closer_from_waitresp cap cf s1 t Hcf Ht) as (l2 & s2 & Ho2 & Hl2 & Hr2 & Hfin); auto; try congruence.
    { rewrite Hthr. apply lookup_insert. }
    { by apply (Fin_ext s). }
    { unfold RdMu. by rewrite Hrd, Hm1. }
    exists (LThr t :: l2), s2. split; [by apply only_threads_cons|].
    split; [simpl; rewrite Hrd in Hl2; lia|]. split; [|done].
    erewrite crun_cons by (rewrite cstep_thr; eauto). done.
  Qed.

  Lemma closer_from_incs cap cf (s : cstate) t :
    cf_send_in_cs cf = false → t ≠ reader_tid → thr s !! t = Some KInCs →
    reader_in_cs (rd s) = false → Fin s →
    ∃ ls s', only_threads ls ∧ length ls ≤ reader_measure (rd s) + 3 ∧ crun cap cf s ls = Some s' ∧
             thr s' !! t = Some KDone.
  Proof.
    intros Hcf Ht Hp Hcs HF.
    destruct (step_KInCs cf s t Hp) as (s1 & p & H1 & Hm1 & Hthr & Hrd & Hd1 & Hf1 & ? & ? & ? & [->| ->]).
    - exists [LThr t], s1. split; [apply only_threads_cons, only_threads_nil|].
      split; [simpl; lia|]. split; [|rewrite Hthr; apply lookup_insert].
      erewrite crun_cons by (rewrite cstep_thr; eauto). done.
    - destruct (closer_from_closefile cap cf s1 t Hcf Ht) as (l2 & s2 & Ho2 & Hl2 & Hr2 & Hfin); auto.
      { rewrite Hthr. apply lookup_insert. }
      { by apply (Fin_ext s). }
      { by intros _. }
        exists (LThr t :: l2), s2. split; [by apply only_threads_cons|].
      split; [simpl; rewrite Hrd in Hl2; lia|]. split; [|done].
      erewrite crun_cons by (rewrite cstep_thr; eauto). done.
  Qed.

  Lemma closer_from_start cap cf (s : cstate) t :
    cf_send_in_cs cf = false → t ≠ reader_tid → thr s !! t = Some KStart →
    mu s = None → reader_in_cs (rd s) = false → Fin s →
    ∃ ls s', only_threads ls ∧ length ls ≤ reader_measure (rd s) + 4 ∧ crun cap cf s ls = Some s' ∧
             thr s' !! t = Some KDone.
  Proof.
    intros Hcf Ht Hp Hm Hcs HF. pose proof (step_KStart cf s t Hp Hm) as H1.
    destruct (closer_from_incs cap cf (upd_mu (upd_thr s t KInCs) (Some t)) t Hcf Ht) as (l2 & s2 & Ho2 & Hl2 & Hr2 & Hfin);
      auto.
    { simpl. apply lookup_insert. }
    exists (LThr t :: l2), s2. split; [by apply only_threads_cons|].
    split; [simpl in *; lia|]. split; [|done].
    erewrite crun_cons by (rewrite cstep_thr; eauto). done.
  Qed.

  (* Close returns: at most one step of the holder of mu, at most four steps of the closer itself, and the reader's
     steps to its exit (every one of them enabled because done and the descriptor are closed).  Any number of closers
     may be present; each of them satisfies this statement. *)
  Theorem close_returns : ∀ cap cf (s : cstate) t p,
    cf_send_in_cs cf = false → CInv cap s → LInv cf s → t ≠ reader_tid → thr s !! t = Some p →
    (p = KStart ∨ p = KInCs ∨ p = KCloseFile ∨ p = KWaitResp) →
    ∃ ls s', only_threads ls ∧ length ls ≤ reader_measure (rd s) + 5 ∧ crun cap cf s ls = Some s' ∧
             thr s' !! t = Some KDone.
  Proof.
    intros cap cf s t p Hcf HI HL Ht Hp Hc.
    destruct Hc as [->|[->|[->| ->]]].
    - destruct (free_lock cap cf s Hcf HI HL) as (l1 & s1 & Ho1 & Hr1 & Hl1 & Hms & Hm1 & Hcs1 & HF1 & Hthr & _).
      destruct (closer_from_start cap cf s1 t Hcf Ht) as (l2 & s2 & Ho2 & Hl2 & Hr2 & Hfin); auto.
      exists (l1 ++ l2), s2. split; [by apply only_threads_app|]. split; [rewrite app_length; lia|].
      split; [|done]. by rewrite (crun_app _ _ _ _ _ s1).
    - assert (mu s = Some t) as Hm by (apply (ci_thread_mu _ _ HI t Ht); eauto).
      destruct (closer_from_incs cap cf s t Hcf Ht Hp) as (l2 & s2 & Ho2 & Hl2 & Hr2 & Hfin).
      { destruct (reader_in_cs (rd s)) eqn:Hcs; [|done]. apply (ci_reader_mu _ _ HI) in Hcs. congruence. }
      { by apply (Fin_of_inv cap cf). }
      exists l2, s2. split; [done|]. split; [lia|]. done.
    - destruct (free_lock cap cf s Hcf HI HL) as (l1 & s1 & Ho1 & Hr1 & Hl1 & Hms & Hm1 & Hcs1 & HF1 & Hthr & Hd1 & _).
      destruct (closer_from_closefile cap cf s1 t Hcf Ht) as (l2 & s2 & Ho2 & Hl2 & Hr2 & Hfin); auto.
      { apply Hd1. apply (ci_closer_done _ _ HI t KCloseFile); auto. }
      { by intros _. }
        exists (l1 ++ l2), s2. split; [by apply only_threads_app|]. split; [rewrite app_length; lia|].
      split; [|done]. by rewrite (crun_app _ _ _ _ _ s1).
    - destruct (free_lock cap cf s Hcf HI HL) as (l1 & s1 & Ho1 & Hr1 & Hl1 & Hms & Hm1 & Hcs1 & HF1 & Hthr & Hd1 & Hf1).
      destruct (closer_from_waitresp cap cf s1 t Hcf Ht) as (l2 & s2 & Ho2 & Hl2 & Hr2 & Hfin); auto.
      { apply Hd1. apply (ci_closer_done _ _ HI t KWaitResp); auto. }
      { rewrite Hf1. by apply (ci_waitresp_file _ _ HI t). }
      { by intros _. }
        exists (l1 ++ l2), s2. split; [by apply only_threads_app|]. split; [rewrite app_length; lia|].
      split; [|done]. by rewrite (crun_app _ _ _ _ _ s1).
  Qed.

  (* once doneResp is closed the reader needs at most two more steps, both always enabled *)
  Corollary channels_close_promptly : ∀ cap cf (s : cstate),
    CInv cap s → LInv cf s → resp_closed s = true →
    ∃ ls s', only_threads ls ∧ length ls ≤ 2 ∧ crun cap cf s ls = Some s' ∧
             rd s' = RDead ∧ ev_closed s' = true ∧ er_closed s' = true.
  Proof.
    intros cap cf s HI HL Hr.
    destruct (ci_resp_closed _ _ HI Hr) as [Hrd|[Hrd|Hrd]].
    - eexists [LThr reader_tid; LThr reader_tid], _.
      split; [repeat apply only_threads_cons; apply only_threads_nil|]. split; [simpl; lia|].
      split. { erewrite crun_cons by (rewrite cstep_rd; unfold Conc.reader_step; rewrite Hrd; done).
               erewrite crun_cons by (rewrite cstep_rd; unfold Conc.reader_step; simpl; done). done. }
      done.
    - eexists [LThr reader_tid], _.
      split; [repeat apply only_threads_cons; apply only_threads_nil|]. split; [simpl; lia|].
      split. { erewrite crun_cons by (rewrite cstep_rd; unfold Conc.reader_step; rewrite Hrd; done). done. }
      simpl. split_and!; auto. apply (li_exit_er _ _ HL); auto.
    - exists [], s. split; [apply only_threads_nil|]. split; [simpl; lia|]. split; [done|].
      split_and!; auto. { apply (li_dead_ev _ _ HL); auto. } { apply (li_exit_er _ _ HL); auto. }
  Qed.

  (* ------------------------------------------------------------------------------------------------------------ *)
  (* 3. The measure is monotone: the schedules above are not mere possibilities                                    *)
  (* ------------------------------------------------------------------------------------------------------------ *)
  Lemma thread_step_frame cf (s s' : cstate) t :
    thread_step cf s t = Some s' →
    rd s' = rd s ∧ resp_closed s' = resp_closed s ∧ ev_closed s' = ev_closed s ∧ er_closed s' = er_closed s ∧
    ev_buf s' = ev_buf s ∧ (done_closed s = true → done_closed s' = true) ∧ (file_closed s = true → file_closed s' = true).
  Proof.
    unfold Conc.thread_step. destruct (thr s !! t) as [[c|c|c|r| | | | |]|]; try done.
    - destruct (cf_guard_first cf && done_closed s); intros; by simplify_eq/=.
    - destruct (mu s); intros; by simplify_eq/=.
    - destruct (api (data s) c); intros; by simplify_eq/=.
    - destruct (mu s); intros; by simplify_eq/=.
    - destruct (done_closed s) eqn:Hd; intros; simplify_eq/=; rewrite ?Hd; done.
    - intros; by simplify_eq/=.
    - destruct (resp_closed s) eqn:Hr; intros; simplify_eq/=; rewrite ?Hr; done.
  Qed.

  Theorem reader_measure_decreases : ∀ cap cf (s s' : cstate),
    cf_send_in_cs cf = false → CInv cap s → done_closed s = true → file_closed s = true →
    cstep cap cf s (LThr reader_tid) = Some s' → reader_measure (rd s') < reader_measure (rd s).
  Proof.
    intros cap cf s s' Hcf _ Hd Hf Hs. rewrite cstep_rd in Hs.
    by destruct (reader_step_closed _ _ _ _ Hcf Hd Hf Hs) as (? & _).
  Qed.

  Theorem reader_measure_mono : ∀ cap cf (s s' : cstate) l,
    cf_send_in_cs cf = false → cstep cap cf s l = Some s' → done_closed s = true → file_closed s = true →
    reader_measure (rd s') ≤ reader_measure (rd s).
  Proof.
    intros cap cf s s' l Hcf Hs Hd Hf. destruct l as [t| | |b|t p|k].
    - destruct (decide (t = reader_tid)) as [->|Ht].
      + rewrite cstep_rd in Hs. destruct (reader_step_closed _ _ _ _ Hcf Hd Hf Hs) as (? & _). lia.
      + rewrite cstep_thr in Hs by done. apply thread_step_frame in Hs as (-> & _). done.
    - unfold Conc.cstep, consume_ev in Hs.
      destruct (ev_buf s); [|by simplify_eq/=].
      destruct (rd s) as [| |?|[|[e|x] ms] it rest|? ?|? ?|? ? ?|[|[e|x] ms] rest| | | |]; by simplify_eq/=.
    - unfold Conc.cstep, consume_er in Hs.
      destruct (rd s) as [| |?|[|[e|x] ms] it rest|? ?|? ?|[|[e|x] ms] ? ?|[|[e|x] ms] rest| | | |]; simplify_eq/=; lia.
    - unfold Conc.cstep in Hs. rewrite Hf in Hs. by destruct (rd s).
    - unfold Conc.cstep in Hs. destruct (decide (t = reader_tid)); [done|].
      destruct (thr s !! t), p; by simplify_eq/=.
    - unfold Conc.cstep in Hs. destruct (env (data s) k); by simplify_eq/=.
  Qed.

  (* with done and the file closed, the reader is blocked only while waiting for mu held by another thread *)
  Theorem reader_blocked_only_at_lock : ∀ cap cf (s : cstate),
    CInv cap s → done_closed s = true → file_closed s = true →
    reader_step cap cf s = None → rd s ≠ RDead →
    ∃ it rest t, rd s = RWantLock it rest ∧ mu s = Some t ∧ t ≠ reader_tid.
  Proof.
    intros cap cf s HI Hd Hf Hs Hrd. unfold Conc.reader_step in Hs. rewrite Hd, Hf in Hs.
    destruct (rd s) as [| |[|it items]|[|[e|x] ms] it rest|it rest|it rest|[|[e|x] ms] after rest|[|[e|x] ms] rest| | | |] eqn:Hr;
      try done; try (destruct (cf_send_in_cs cf); done); try (destruct (hnd (data s) it), (cf_send_in_cs cf); done).
    destruct (mu s) as [t|] eqn:Hm; [|done]. exists it, rest, t. split_and!; auto.
    intros ->. apply (ci_reader_mu _ _ HI) in Hm. by rewrite Hr in Hm.
  Qed.

  (* ------------------------------------------------------------------------------------------------------------ *)
  (* 5. Capacity: a buffered Watcher absorbs events up to its capacity with no consumer present; it never drops    *)
  (* ------------------------------------------------------------------------------------------------------------ *)
  Theorem buffer_absorbs : ∀ cap cf (s : cstate) e ms rest,
    done_closed s = false → length (ev_buf s) < cap → rd s = RPost (MEv e :: ms) rest →
    ∃ s', reader_step cap cf s = Some s' ∧ ev_buf s' = ev_buf s ++ [e] ∧ rd s' = RPost ms rest.
  Proof.
    intros cap cf s e ms rest Hd Hl Hrd. unfold Conc.reader_step. rewrite Hrd, Hd, decide_True by done.
    eexists. split; [done|]. done.
  Qed.
  Theorem buffer_absorbs_pre : ∀ cap cf (s : cstate) e ms it rest,
    done_closed s = false → length (ev_buf s) < cap → rd s = RPre (MEv e :: ms) it rest →
    ∃ s', reader_step cap cf s = Some s' ∧ ev_buf s' = ev_buf s ++ [e] ∧ rd s' = RPre ms it rest.
  Proof.
    intros cap cf s e ms it rest Hd Hl Hrd. unfold Conc.reader_step. rewrite Hrd, Hd, decide_True by done.
    eexists. split; [done|]. done.
  Qed.
  Theorem buffer_full_waits : ∀ cap cf (s : cstate) e ms rest,
    length (ev_buf s) = cap → done_closed s = false → rd s = RPost (MEv e :: ms) rest →
    reader_step cap cf s = None.
  Proof.
    intros cap cf s e ms rest Hl Hd Hrd. unfold Conc.reader_step. rewrite Hrd, Hd, decide_False by lia. done.
  Qed.
  Theorem buffer_full_waits_pre : ∀ cap cf (s : cstate) e ms it rest,
    length (ev_buf s) = cap → done_closed s = false → rd s = RPre (MEv e :: ms) it rest →
    reader_step cap cf s = None.
  Proof.
    intros cap cf s e ms it rest Hl Hd Hrd. unfold Conc.reader_step. rewrite Hrd, Hd, decide_False by lia. done.
  Qed.
  (* … and the consumer then gets exactly the oldest buffered event; nothing is dropped *)
  Theorem buffer_full_consume : ∀ (s : cstate) e b,
    ev_buf s = e :: b → ∃ s', consume_ev s = Some s' ∧ ev_buf s' = b ∧ recvd_ev s' = recvd_ev s ++ [e] ∧ rd s' = rd s.
  Proof. intros s e b Hb. unfold consume_ev. rewrite Hb. eexists. split; [done|]. done. Qed.

  (* ------------------------------------------------------------------------------------------------------------ *)
  (* 6. Resources                                                                                                  *)
  (* ------------------------------------------------------------------------------------------------------------ *)
  (* ORIGINAL STATEMENT (false, also for reachable states):
       CInv cap s → thr s !! t = Some KDone → resp_closed s = true →
       file_closed s = true ∧ done_closed s = true ∧ (rd s = RExit2 ∨ rd s = RExit3 ∨ rd s = RDead).
     Counterexample (reachable): closer 1 closes done and stands at KCloseFile (descriptor still open); the reader, at
     RTop, sees done closed and runs RExit1 → RExit2 (doneResp closed); closer 2 does KStart → KInCs → KDone
     ("already closed").  Then thr !! 2 = KDone, resp_closed, but file_closed = false: the descriptor is closed by
     closer 1's next step, which is always enabled (closefile_enabled).  The model does not distinguish a KDone reached
     through KWaitResp from a KDone reached through "already closed". *)
  Theorem resources_released_partial : ∀ cap cf (s : cstate) t,
    CInv cap s → LInv cf s → thr s !! t = Some KDone → resp_closed s = true →
    (file_closed s = true ∨ ∃ t', thr s !! t' = Some KCloseFile) ∧ done_closed s = true ∧
    (rd s = RExit2 ∨ rd s = RExit3 ∨ rd s = RDead).
  Proof.
    intros cap cf s t HI HL Ht Hr.
    assert (done_closed s = true) as Hd by (apply (ci_closer_done _ _ HI t KDone); auto).
    split_and!; auto. - by apply (li_done_file _ _ HL). - by apply (ci_resp_closed _ _ HI).
  Qed.
  (* the statement as asked, with the extra premise that no closer is still between close(done) and the close of the
     descriptor (in particular: when every Close call has returned) *)
  Theorem resources_released : ∀ cap cf (s : cstate) t,
    CInv cap s → LInv cf s → (∀ t', thr s !! t' ≠ Some KCloseFile) →
    thr s !! t = Some KDone → resp_closed s = true →
    file_closed s = true ∧ done_closed s = true ∧ (rd s = RExit2 ∨ rd s = RExit3 ∨ rd s = RDead).
  Proof.
    intros cap cf s t HI HL Hno Ht Hr.
    destruct (resources_released_partial cap cf s t HI HL Ht Hr) as ([Hf|[t' Ht']] & Hd & Hrd); [done|].
    by destruct (Hno t').
  Qed.
  Theorem closefile_enabled : ∀ cap cf (s : cstate) t,
    t ≠ reader_tid → thr s !! t = Some KCloseFile →
    ∃ s', cstep cap cf s (LThr t) = Some s' ∧ file_closed s' = true.
  Proof.
    intros cap cf s t Ht Hp. destruct (step_KCloseFile cf s t Hp) as (s' & Hs & _ & _ & _ & _ & Hf & _).
    exists s'. by rewrite cstep_thr.
  Qed.
  (* the reader is the watcher's only goroutine; once it is dead it takes no step *)
  Theorem reader_dead_stuck : ∀ cap cf (s : cstate), rd s = RDead → reader_step cap cf s = None.
  Proof. intros cap cf s Hrd. unfold Conc.reader_step. by rewrite Hrd. Qed.

  (* ------------------------------------------------------------------------------------------------------------ *)
  (* LInv holds in every reachable state                                                                           *)
  (* ------------------------------------------------------------------------------------------------------------ *)
  Lemma LInv_init cf d : LInv cf (cinit d : cstate).
  Proof. constructor; simpl; try done. by intros [|]. Qed.

  Lemma LInv_reader cap cf (s s' : cstate) : reader_step cap cf s = Some s' → LInv cf s → LInv cf s'.
  Proof.
    intros Hs [H1 H2 H3 H4]. unfold Conc.reader_step in Hs.
    destruct (rd s) as [| |[|it items]|[|[e|x] ms] it rest|it rest|it rest|[|[e|x] ms] after rest|[|[e|x] ms] rest| | | |] eqn:Hr;
      repeat case_match; simplify_eq/=; constructor; simpl; intros; try done; try congruence;
      try (by destruct (H1 ltac:(done) _ _ _ eq_refl)); try (by intuition); auto.
  Qed.

  Lemma LInv_thread_done_file cf (s s' : cstate) t :
    thread_step cf s t = Some s' →
    (done_closed s = true → file_closed s = true ∨ ∃ t', thr s !! t' = Some KCloseFile) →
    (done_closed s' = true → file_closed s' = true ∨ ∃ t', thr s' !! t' = Some KCloseFile).
  Proof.
    assert (∀ p, thr s !! t = Some p → p ≠ KCloseFile → ∀ q,
              (∃ t', thr s !! t' = Some KCloseFile) → ∃ t', <[t:=q]> (thr s) !! t' = Some KCloseFile) as Hkeep.
    { intros p Ht Hp q (t' & Ht'). exists t'. rewrite lookup_insert_ne; [done|]. intros ->. congruence. }
    unfold Conc.thread_step. destruct (thr s !! t) as [[c|c|c|r| | | | |]|] eqn:Ht; try done.
    - destruct (cf_guard_first cf && done_closed s); intros ? H4 Hd; simplify_eq/=;
        (destruct (H4 Hd); [by left|right; by eapply (Hkeep _ eq_refl)]).
    - destruct (mu s); intros ? H4 Hd; simplify_eq/=. destruct (H4 Hd); [by left|right; by eapply (Hkeep _ eq_refl)].
    - destruct (api (data s) c); intros ? H4 Hd; simplify_eq/=. destruct (H4 Hd); [by left|right; by eapply (Hkeep _ eq_refl)].
    - destruct (mu s); intros ? H4 Hd; simplify_eq/=. destruct (H4 Hd); [by left|right; by eapply (Hkeep _ eq_refl)].
    - destruct (done_closed s) eqn:Hd0; intros ? H4 Hd; simplify_eq/=.
      + destruct (H4 eq_refl); [by left|right; by eapply (Hkeep _ eq_refl)].
      + right. exists t. apply lookup_insert.
    - intros; simplify_eq/=. by left.
    - destruct (resp_closed s); intros ? H4 Hd; simplify_eq/=. destruct (H4 Hd); [by left|right; by eapply (Hkeep _ eq_refl)].
  Qed.

  Lemma LInv_step cap cf (s s' : cstate) l : cstep cap cf s l = Some s' → LInv cf s → LInv cf s'.
  Proof.
    intros Hs HL. destruct l as [t| | |b|t p|k].
    - destruct (decide (t = reader_tid)) as [->|Ht].
      + rewrite cstep_rd in Hs. by eapply LInv_reader.
      + rewrite cstep_thr in Hs by done. destruct HL as [H1 H2 H3 H4].
        pose proof (LInv_thread_done_file _ _ _ _ Hs H4) as H4'.
        apply thread_step_frame in Hs as (Hrd & _ & Hev & Her & _).
        constructor; rewrite ?Hrd, ?Hev, ?Her; auto.
    - destruct HL as [H1 H2 H3 H4]. unfold Conc.cstep, consume_ev in Hs.
      destruct (ev_buf s); [|simplify_eq/=; by constructor].
      destruct (rd s) as [| |?|[|[e|x] ms] it rest|? ?|? ?|? ? ?|[|[e|x] ms] rest| | | |]; simplify_eq/=;
        constructor; simpl; intros; try done; by intuition.
    - destruct HL as [H1 H2 H3 H4]. unfold Conc.cstep, consume_er in Hs.
      destruct (rd s) as [| |?|[|[e|x] ms] it rest|? ?|? ?|[|[e|x] ms] ? ?|[|[e|x] ms] rest| | | |]; simplify_eq/=;
        constructor; simpl; intros; try done; try (by intuition).
      by destruct (H1 ltac:(done) _ _ _ eq_refl).
    - destruct HL as [H1 H2 H3 H4]. unfold Conc.cstep in Hs.
      destruct (rd s); try done. destruct (file_closed s); simplify_eq/=.
      constructor; simpl; intros; try done; by intuition.
    - destruct HL as [H1 H2 H3 H4]. unfold Conc.cstep in Hs. destruct (decide (t = reader_tid)); [done|].
      destruct (thr s !! t) eqn:Ht; [done|].
      assert (s' = upd_thr s t p) as -> by (destruct p; by simplify_eq/=).
      constructor; simpl; auto. intros Hd. destruct (H4 Hd) as [?|[t' Ht']]; [by left|right].
      exists t'. rewrite lookup_insert_ne; [done|]. intros ->. congruence.
    - destruct HL as [H1 H2 H3 H4]. unfold Conc.cstep in Hs. destruct (env (data s) k); [|done]. simplify_eq/=.
      by constructor.
  Qed.

  Lemma LInv_run cap cf ls : ∀ s s' : cstate, crun cap cf s ls = Some s' → LInv cf s → LInv cf s'.
  Proof.
    induction ls as [|l ls IH]; intros s s'; simpl.
    - by intros [= ->].
    - destruct (cstep cap cf s l) as [s1|] eqn:Hs; [|done]. intros Hr HL. eapply IH; [done|]. by eapply LInv_step.
  Qed.
  Theorem reachable_LInv : ∀ cap cf d (s : cstate), reachable api closed_result pre hnd env cap cf d s → LInv cf s.
  Proof. intros cap cf d s [ls Hr]. eapply LInv_run; [done|]. apply LInv_init. Qed.

  (* ------------------------------------------------------------------------------------------------------------ *)
  (* 4. The hypothesis cf_send_in_cs = false is necessary: the deadlock that was repaired                          *)
  (* ------------------------------------------------------------------------------------------------------------ *)
  Section Deadlock.
    Variable d0 : D.
    Variable c0 : C.
    Variable x0 : X.
    Variable i0 : I.
    (* one notification whose handling, on the initial data, sends an error (a pending error) and nothing else *)
    Hypothesis Hpre0 : pre i0 = [].
    Hypothesis Hhnd0 : (hnd d0 i0).2 = [MEr x0].

    Definition cf_bad : cfacts := mkCf true true.
    Definition dl_labels : list label :=
      [LThr reader_tid; LKernel [i0]; LThr reader_tid; LThr reader_tid; LThr reader_tid; LThr reader_tid;
       LSpawn 1 (CStart c0); LThr 1; LSpawn 2 KStart].
    Definition dl_state : cstate :=
      mkC (Some reader_tid) false false false [] false false (RCsSend [MEr x0] [] [])
          (<[2:=KStart]> (<[1:=CWantLock c0]> (<[1:=CStart c0]> ∅))) (hnd d0 i0).1 [] [] [LinHandle i0 [MEr x0]] [i0] false.

    Lemma dl_run cap : crun cap cf_bad (cinit d0) dl_labels = Some dl_state.
    Proof.
      unfold dl_labels, dl_state. destruct (hnd d0 i0) as [d1 post] eqn:Hh. simpl in Hhnd0. subst post.
      do 3 (erewrite crun_cons by reflexivity).
      erewrite crun_cons by (rewrite cstep_rd; unfold Conc.reader_step; simpl; rewrite Hpre0; reflexivity).
      erewrite crun_cons by reflexivity.
      erewrite crun_cons by (rewrite cstep_rd; unfold Conc.reader_step; simpl; rewrite Hh; reflexivity).
      reflexivity.
    Qed.

    Definition idle (p : cpc) : Prop :=
      match p with CStart _ | CWantLock _ | CDone _ | KStart => True | _ => False end.
    (* the reader holds mu and waits for the consumer of Errors; everybody else waits for mu or has returned *)
    Definition Stuck (s : cstate) : Prop :=
      mu s = Some reader_tid ∧ done_closed s = false ∧ rd s = RCsSend [MEr x0] [] [] ∧
      thr s !! (1 : tid) = Some (CWantLock c0) ∧ thr s !! (2 : tid) = Some KStart ∧ ∀ t p, thr s !! t = Some p → idle p.

    Lemma dl_state_stuck : Stuck dl_state.
    Proof.
      unfold Stuck, dl_state; simpl. split_and!; try reflexivity.
      intros t p. rewrite !lookup_insert_Some, lookup_empty. intros [[_ <-]|[_ [[_ <-]|[_ [[_ <-]|[_ ?]]]]]]; done.
    Qed.

    Lemma Stuck_upd_thr (s : cstate) t p :
      Stuck s → idle p → t ≠ 1 → t ≠ 2 → Stuck (upd_thr s t p).
    Proof.
      intros (Hm & Hd & Hrd & H1 & H2 & Hi) Hp Ht1 Ht2. unfold Stuck. simpl. split_and!; auto.
      - by rewrite lookup_insert_ne.
      - by rewrite lookup_insert_ne.
      - intros t' p'. rewrite lookup_insert_Some. intros [[_ <-]|[_ ?]]; eauto.
    Qed.

    Lemma stuck_step cap (s s' : cstate) l :
      Stuck s → match l with LConsumeEv | LConsumeEr => False | _ => True end →
      cstep cap cf_bad s l = Some s' → Stuck s'.
    Proof.
      intros HS Hl Hs. pose proof HS as (Hm & Hd & Hrd & H1 & H2 & Hi). destruct l as [t| | |b|t p|k]; try done.
      - destruct (decide (t = reader_tid)) as [->|Ht].
        + rewrite cstep_rd in Hs. unfold Conc.reader_step in Hs. by rewrite Hrd, Hd in Hs.
        + rewrite cstep_thr in Hs by done. unfold Conc.thread_step in Hs.
          destruct (thr s !! t) as [p|] eqn:Hp; [|done]. pose proof (Hi t p Hp) as Hidle.
          destruct p as [c|c|c|r| | | | |]; try done.
          * rewrite Hd in Hs. simpl in Hs. injection Hs as <-.
            apply Stuck_upd_thr; [done|done| |].
            { intros ->. congruence. }
            { intros ->. congruence. }
          * by rewrite Hm in Hs.
          * by rewrite Hm in Hs.
      - unfold Conc.cstep in Hs. by rewrite Hrd in Hs.
      - unfold Conc.cstep in Hs. destruct (decide (t = reader_tid)); [done|].
        destruct (thr s !! t) eqn:Ht; [done|].
        assert (s' = upd_thr s t p ∧ idle p) as [-> Hp] by (destruct p; by simplify_eq/=).
        apply Stuck_upd_thr; [done|done| |].
        { intros ->. congruence. }
        { intros ->. congruence. }
      - unfold Conc.cstep in Hs. destruct (env (data s) k); [|done]. injection Hs as <-. exact HS.
    Qed.

    Lemma stuck_run cap ls : ∀ s s' : cstate,
      Stuck s → no_consumer ls → crun cap cf_bad s ls = Some s' → Stuck s'.
    Proof.
      induction ls as [|l ls IH]; intros s s' HS Hn; simpl.
      - by intros [= <-].
      - destruct (cstep cap cf_bad s l) as [s1|] eqn:Hs; [|done]. intros Hr.
        apply Forall_cons in Hn as [Hl Hn]. eapply IH; [|done..]. eapply stuck_step; [done| |done].
        by destruct l.
    Qed.

    (* The reader (cf_send_in_cs = true) holds mu while sending on Errors; nobody receives.  A caller (thread 1) and a
       closer (thread 2) wait for mu for ever: whatever the scheduler, the kernel and further callers do — short of the
       consumer receiving the error — they stay where they are and done is never closed, so the send is never released. *)
    Theorem send_in_cs_deadlocks :
      ∃ (cap : nat) (ls : list label) (s : cstate),
        crun cap (mkCf true true) (cinit d0) ls = Some s ∧
        thr s !! 1 = Some (CWantLock c0) ∧ thr s !! 2 = Some KStart ∧
        (∀ ls' s', no_consumer ls' → crun cap (mkCf true true) s ls' = Some s' →
                   thr s' !! 1 = Some (CWantLock c0) ∧ thr s' !! 2 = Some KStart ∧ done_closed s' = false).
    Proof.
      exists 0, dl_labels, dl_state. split; [apply dl_run|].
      pose proof dl_state_stuck as HS. split; [apply HS|]. split; [apply HS|].
      intros ls' s' Hn Hr. pose proof (stuck_run 0 ls' _ _ HS Hn Hr) as (_ & Hd & _ & H1 & H2 & _). done.
    Qed.
    (* the same for every capacity of Events: buffering Events does not help, Errors is unbuffered *)
    Theorem send_in_cs_deadlocks_any_cap : ∀ cap ls' (s' : cstate),
      crun cap (mkCf true true) (cinit d0) dl_labels = Some dl_state ∧
      (no_consumer ls' → crun cap (mkCf true true) dl_state ls' = Some s' →
       thr s' !! 1 = Some (CWantLock c0) ∧ thr s' !! 2 = Some KStart ∧ done_closed s' = false ∧
       mu s' = Some reader_tid ∧ rd s' = RCsSend [MEr x0] [] []).
    Proof.
      intros cap ls' s'. split; [apply dl_run|]. intros Hn Hr.
      pose proof (stuck_run cap ls' _ _ dl_state_stuck Hn Hr) as (? & ? & ? & ? & ? & _). done.
    Qed.

    (* ---------------------------------------------------------------------------------------------------------- *)
    (* Sharpness of the extra premises (why CInv alone does not suffice)                                           *)
    (* ---------------------------------------------------------------------------------------------------------- *)
    (* (a) CInv allows rd = RCsSend … also when cf_send_in_cs = false; there a caller never gets mu.  Hence the premise
       LInv (li_no_cs_send) of caller_returns / reader_exits / close_returns. *)
    Definition sharp_a : cstate :=
      mkC (Some reader_tid) false false false [] false false (RCsSend [MEr x0] [] [])
          {[ (1 : tid) := CWantLock c0 ]} d0 [] [] [] [] false.
    Lemma sharp_a_CInv cap : CInv cap sharp_a.
    Proof.
      constructor; simpl; try done; try lia.
      - intros t Ht. split; [intros [= <-]; done|].
        intros (p & Hp & Hcs). apply lookup_singleton_Some in Hp as [_ <-]. done.
      - intros [?|[?|?]]; done.
      - intros t p Hp. apply lookup_singleton_Some in Hp as [_ <-]. by intros [?|[?|?]].
      - intros t Hp. by apply lookup_singleton_Some in Hp as [_ ?].
    Qed.
    Theorem caller_returns_needs_LInv : ∀ cap cf,
      CInv cap sharp_a ∧ thr sharp_a !! (1 : tid) = Some (CWantLock c0) ∧
      ∀ ls s', only_threads ls → crun cap cf sharp_a ls = Some s' → s' = sharp_a.
    Proof.
      intros cap cf. split; [apply sharp_a_CInv|]. split; [reflexivity|].
      intros [|[t| | |b|t p|k] ls] s' Ho; [by intros [= <-]|..]; try (by apply Forall_cons in Ho as [[] _]).
      intros Hr. exfalso. simpl in Hr. destruct (decide (t = reader_tid)) as [->|Ht]; [done|].
      unfold Conc.thread_step in Hr. simpl in Hr.
      destruct (decide (t = 1)) as [->|Ht1]; [by rewrite lookup_singleton in Hr|].
      by rewrite lookup_singleton_ne in Hr.
    Qed.

    (* (b) resources_released as originally stated fails in a reachable state satisfying CInv: closer 1 has closed done
       and stands at KCloseFile; the reader has seen done closed and closed doneResp; closer 2 found the watcher
       already closed and returned — the descriptor is still open (until closer 1's next step). *)
    Definition sharp_b_labels : list label :=
      [LSpawn 1 KStart; LThr 1; LThr 1; LThr reader_tid; LThr reader_tid; LSpawn 2 KStart; LThr 2; LThr 2].
    Definition sharp_b : cstate :=
      mkC None true false true [] false false RExit2
          (<[2:=KDone]> (<[2:=KInCs]> (<[2:=KStart]> (<[1:=KCloseFile]> (<[1:=KInCs]> (<[1:=KStart]> ∅))))))
          d0 [] [] [] [] false.
    Lemma sharp_b_run cap cf : crun cap cf (cinit d0) sharp_b_labels = Some sharp_b.
    Proof. reflexivity. Qed.
    Lemma sharp_b_thr t p :
      thr sharp_b !! t = Some p → (t = 1 ∧ p = KCloseFile) ∨ (t = 2 ∧ p = KDone).
    Proof.
      simpl. rewrite !lookup_insert_Some, lookup_empty. naive_solver.
    Qed.
    Lemma sharp_b_CInv cap : CInv cap sharp_b.
    Proof.
      constructor; try (simpl; done); try (simpl; lia).
      - intros t Ht. split; [done|]. intros (p & Hp & Hcs).
        apply sharp_b_thr in Hp as [[_ ->]|[_ ->]]; done.
      - simpl. intros _. by left.
      - intros t Hp. apply sharp_b_thr in Hp as [[_ ?]|[_ ?]]; done.
    Qed.
    Theorem resources_released_as_stated_fails : ∀ cap cf,
      reachable api closed_result pre hnd env cap cf d0 sharp_b ∧ CInv cap sharp_b ∧
      thr sharp_b !! (2 : tid) = Some KDone ∧ resp_closed sharp_b = true ∧ file_closed sharp_b = false.
    Proof.
      intros cap cf. split; [exists sharp_b_labels; apply sharp_b_run|]. split; [apply sharp_b_CInv|]. done.
    Qed.
  End Deadlock.
End Live.

(* a closed instance of the deadlock witness *)
Definition dl_pre : nat → list (@msg nat nat) := λ _, [].
Definition dl_hnd : nat → nat → nat * list (@msg nat nat) := λ d _, (d, [MEr 3]).
Definition dl_env : nat → nat → option nat := λ d k, Some (d + k).
Example send_in_cs_deadlocks_nat :
  ∃ (cap : nat) (ls : list (@label nat nat nat nat)) (s : @cstate nat nat nat nat nat nat nat),
    crun (λ d c, (d, 0)) (λ _, 0) dl_pre dl_hnd dl_env cap (mkCf true true) (cinit 0) ls = Some s ∧
    thr s !! 1 = Some (CWantLock 7) ∧ thr s !! 2 = Some KStart ∧
    (∀ ls' s', no_consumer ls' → crun (λ d c, (d, 0)) (λ _, 0) dl_pre dl_hnd dl_env cap (mkCf true true) s ls' = Some s' →
               thr s' !! 1 = Some (CWantLock 7) ∧ thr s' !! 2 = Some KStart ∧ done_closed s' = false).
Proof. apply (send_in_cs_deadlocks (λ d c, (d, 0)) (λ _, 0) dl_pre dl_hnd dl_env 0 7 3 0 eq_refl eq_refl). Qed.

Print Assumptions caller_returns.
Print Assumptions close_returns.
Print Assumptions reader_exits.
Print Assumptions reachable_LInv.
Print Assumptions send_in_cs_deadlocks.
Print Assumptions send_in_cs_deadlocks_nat.
