(* KqModel.v — executable model of the kqueue backend's bookkeeping (backend_kqueue.go) over a
   simulated vnode kernel (DESIGN 3.6).  std++ style (gmap / gset); everything is total and computable.

   Layers, top to bottom of this file:
     1. path text functions            (filepath.Clean / Dir / Join / IsAbs)
     2. filesystem                     (tree with inodes, kernel-style name resolution, operations with their NOTE_* hints)
     3. kernel: descriptors, registrations, pending records  (what simunix implements in Go)
     4. tables                         (type watches and its methods, line by line)
     5. watcher                        (addWatch, remove, Close, WatchList, newEvent, watchDirectoryFiles, dirChange,
                                        sendCreateIfNew, one reader step)
     6. closed system                  (history steps, run)

   The model follows the code AS IT IS.  Three defects of DESIGN section 9 / C17 have been repaired in /repo
   (commits 833aa17 and c3f1f06); the three flags of [cfg] switch between the behaviour before and after:
   [cfg_repo] is the tree as checked in (all three repairs), [cfg_before_fix] the tree before them (kept for the
   seeded-defect tests: the check must report a tree whose Close is reverted).  The remaining defects
   (KNOWN_FINDINGS.txt) are modelled as they are. *)
From Coq Require Import String Ascii NArith List Bool.
From stdpp Require Import gmap strings.
Import ListNotations.
Local Open Scope string_scope.
Local Open Scope N_scope.

(* ------------------------------------------------------------------ 0. configuration *)

Record cfg := {
  fx_close : bool;       (* Close and the child loop use the unguarded remove; the closed-guard sits in Remove   (833aa17; false: F3) *)
  fx_user_clean : bool;  (* addUserWatch records filepath.Clean(name)                                            (c3f1f06)            *)
  fx_fifo_user : bool;   (* AddWith returns without a user watch when addWatch returned ""  (FIFO / socket)      (c3f1f06)            *)
}.
Definition cfg_repo : cfg := {| fx_close := true; fx_user_clean := true; fx_fifo_user := true |}.
Definition cfg_before_fix : cfg := {| fx_close := false; fx_user_clean := false; fx_fifo_user := false |}.
Definition cfg_fixed : cfg := cfg_repo.

(* ------------------------------------------------------------------ 1. path text *)

Definition slash : ascii := "/"%char.

(* strings.Split(s, "/") *)
Fixpoint split_slash (s : string) : list string :=
  match s with
  | EmptyString => [EmptyString]
  | String c r =>
      if Ascii.eqb c slash then EmptyString :: split_slash r
      else match split_slash r with
           | x :: xs => String c x :: xs
           | [] => [String c EmptyString]
           end
  end.

Definition is_abs (s : string) : bool :=
  match s with String c _ => Ascii.eqb c slash | EmptyString => false end.

Definition join_slash (l : list string) : string := String.concat "/" l.

(* the lexical normalisation of filepath.Clean on a component list; [stk] is the output so far, reversed *)
Fixpoint norm (abs : bool) (stk : list string) (cs : list string) : list string :=
  match cs with
  | [] => rev stk
  | c :: r =>
      if String.eqb c "" || String.eqb c "." then norm abs stk r
      else if String.eqb c ".." then
        match stk with
        | t :: stk' => if String.eqb t ".." then norm abs (c :: stk) r else norm abs stk' r
        | [] => if abs then norm abs [] r else norm abs [c] r
        end
      else norm abs (c :: stk) r
  end.

Definition clean (s : string) : string :=
  let cs := norm (is_abs s) [] (split_slash s) in
  if is_abs s then "/" ++ join_slash cs
  else match cs with [] => "." | _ => join_slash cs end.

(* filepath.Dir: everything up to and including the last slash, cleaned *)
Definition dir (s : string) : string :=
  let cs := split_slash s in
  match cs with
  | [] | [_] => clean ""
  | _ => clean (join_slash (removelast cs) ++ "/")
  end.

(* filepath.Join of two elements *)
Definition pjoin (a b : string) : string :=
  if String.eqb a "" then (if String.eqb b "" then "" else clean b)
  else if String.eqb b "" then clean a
  else clean (a ++ "/" ++ b).

(* ------------------------------------------------------------------ 2. filesystem *)

Inductive kind := KFile | KDir | KLink (target : string) | KFifo.
Inductive oserr := ENOENT | ENOTDIR | ELOOP | EACCES | EEXIST | EOTHER.

Definition is_dir (k : kind) : bool := match k with KDir => true | _ => false end.
Definition is_fifo (k : kind) : bool := match k with KFifo => true | _ => false end.
Definition is_link (k : kind) : bool := match k with KLink _ => true | _ => false end.
Definition is_file (k : kind) : bool := match k with KFile => true | _ => false end.

(* entries are keyed by canonical path relative to the private root: "" is the root itself, "d/a" an entry.
   The root's absolute name is "/T" (the harness substitutes the real temporary directory). *)
Record fsst := { f_ent : gmap string N; f_kind : gmap N kind; f_next : N }.

Definition root_ino : N := 1.
Definition fs_init : fsst := {| f_ent := {[ "" := root_ino ]}; f_kind := {[ root_ino := KDir ]}; f_next := 2 |}.

Definition cpath (stk : list string) : string := join_slash (rev stk).

Definition abs_comps (cs : list string) : option (list string) :=
  match cs with
  | e :: t :: rest => if String.eqb e "" && String.eqb t "T" then Some rest else None
  | _ => None
  end.

(* kernel name resolution from directory [cur] (reversed component stack of an existing directory) *)
Fixpoint resolve (fuel : nat) (fs : fsst) (cur : list string) (cs : list string) (follow_last : bool)
  : oserr + (list string * N) :=
  match fuel with
  | O => inl ELOOP
  | S fuel' =>
      match cs with
      | [] => match f_ent fs !! cpath cur with Some i => inr (cur, i) | None => inl ENOENT end
      | c :: r =>
          if String.eqb c "" || String.eqb c "." then resolve fuel' fs cur r follow_last
          else if String.eqb c ".." then resolve fuel' fs (tl cur) r follow_last
          else
            match f_ent fs !! cpath (c :: cur) with
            | None => inl ENOENT
            | Some i =>
                match f_kind fs !! i with
                | None => inl ENOENT
                | Some KDir => resolve fuel' fs (c :: cur) r follow_last
                | Some (KLink t) =>
                    match r, follow_last with
                    | [], false => inr (c :: cur, i)
                    | _, _ =>
                        let tc := split_slash t in
                        if is_abs t then
                          match abs_comps tc with
                          | Some rest => resolve fuel' fs [] (rest ++ r) follow_last
                          | None => inl ENOENT
                          end
                        else resolve fuel' fs cur (tc ++ r) follow_last
                    end
                | Some _ => match r with [] => inr (c :: cur, i) | _ => inl ENOTDIR end
                end
            end
      end
  end.

Definition res_fuel : nat := 400.

Definition lookup_path (fs : fsst) (p : string) (follow : bool) : oserr + (list string * N) :=
  let cs := split_slash p in
  if is_abs p then
    match abs_comps cs with
    | Some rest => resolve res_fuel fs [] rest follow
    | None => inl ENOENT
    end
  else resolve res_fuel fs [] cs follow.

Definition kind_of (fs : fsst) (i : N) : kind := default KFile (f_kind fs !! i).

(* the view the watcher has of the filesystem *)
Definition v_lstat (fs : fsst) (p : string) : oserr + kind :=
  match lookup_path fs p false with inl e => inl e | inr (_, i) => inr (kind_of fs i) end.
Definition v_readlink (fs : fsst) (p : string) : oserr + string :=
  match lookup_path fs p false with
  | inl e => inl e
  | inr (_, i) => match kind_of fs i with KLink t => inr t | _ => inl EOTHER end
  end.
Definition v_open (fs : fsst) (p : string) : oserr + N :=
  match lookup_path fs p true with inl e => inl e | inr (_, i) => inr i end.

(* insertion sort of names in byte order (os.ReadDir sorts by file name) *)
Fixpoint ins_str (x : string) (l : list string) : list string :=
  match l with [] => [x] | y :: r => if String.leb x y then x :: l else y :: ins_str x r end.
Definition sort_str (l : list string) : list string := fold_right ins_str [] l.

Definition parent_and_name (p : string) : string * string :=
  let cs := split_slash p in (join_slash (removelast cs), List.last cs "").

Definition children (fs : fsst) (cp : string) : list string :=
  sort_str (omap (fun kv : string * N =>
                    if String.eqb kv.1 "" then None
                    else let '(par, nm) := parent_and_name kv.1 in
                         if String.eqb par cp then Some nm else None)
                 (map_to_list (f_ent fs))).

Definition v_readdir (fs : fsst) (p : string) : oserr + list string :=
  match lookup_path fs p true with
  | inl e => inl e
  | inr (stk, i) => if is_dir (kind_of fs i) then inr (children fs (cpath stk)) else inl ENOTDIR
  end.

(* --- operations (the primitives of the harness, each with the hints vop_*_post raises, in order) *)

Inductive fsop :=
| OCreate (p : string)            (* touch: O_CREAT; an existing regular file is truncated *)
| OWrite (p : string)
| OTrunc (p : string)
| OChmod (p : string)
| OUnlink (p : string)
| OMkdir (p : string)
| ORmdir (p : string)
| OMkfifo (p : string)
| OSymlink (target p : string)
| OLink (src p : string)
| ORename (src dst : string).

Definition NOTE_DELETE : N := 1.
Definition NOTE_WRITE : N := 2.
Definition NOTE_ATTRIB : N := 8.
Definition NOTE_LINK : N := 16.
Definition NOTE_RENAME : N := 32.
Definition noteAllEvents : N := 43.

(* parent directory (followed) and final component of an operation's path *)
Definition split_last (p : string) : string * string :=
  let cs := split_slash p in
  ((if is_abs p then "/" else "") ++ join_slash (filter (fun c => negb (String.eqb c "")) (removelast cs)), List.last cs "").

Definition lookup_parent (fs : fsst) (p : string) : oserr + (list string * N * string) :=
  let '(par, nm) := split_last p in
  if String.eqb nm "" || String.eqb nm "." || String.eqb nm ".." then inl EOTHER else
  match lookup_path fs (if String.eqb par "" then "." else par) true with
  | inl e => inl e
  | inr (stk, i) => if is_dir (kind_of fs i) then inr (stk, i, nm) else inl ENOTDIR
  end.

Definition nlink (fs : fsst) (i : N) : nat :=
  length (filter (fun kv : string * N => N.eqb kv.2 i) (map_to_list (f_ent fs))).

Definition add_entry (fs : fsst) (key : string) (k : kind) : fsst :=
  {| f_ent := <[ key := f_next fs ]> (f_ent fs);
     f_kind := <[ f_next fs := k ]> (f_kind fs);
     f_next := f_next fs + 1 |}.

Definition del_entry (fs : fsst) (key : string) : fsst :=
  {| f_ent := delete key (f_ent fs); f_kind := f_kind fs; f_next := f_next fs |}.

Fixpoint str_prefix (a b : string) : bool :=
  match a, b with
  | EmptyString, _ => true
  | String x a', String y b' => Ascii.eqb x y && str_prefix a' b'
  | _, _ => false
  end.
Fixpoint str_drop (n : nat) (s : string) : string :=
  match n, s with O, _ => s | S n', String _ s' => str_drop n' s' | S _, EmptyString => EmptyString end.

(* move the entry [src] and everything below it to [dst] *)
Definition rekey (fs : fsst) (src dst : string) : fsst :=
  let moved := fun k : string =>
    if String.eqb k src then Some dst
    else if str_prefix (src ++ "/") k then Some (dst ++ str_drop (String.length src) k) else None in
  {| f_ent := list_to_map (map (fun kv : string * N => match moved kv.1 with Some k' => (k', kv.2) | None => kv end)
                               (filter (fun kv : string * N => negb (String.eqb kv.1 dst)) (map_to_list (f_ent fs))));
     f_kind := f_kind fs; f_next := f_next fs |}.

Definition key_of (stk : list string) (nm : string) : string := cpath (nm :: stk).

(* result: new filesystem and the hints (inode, fflags) in the order they are raised; None = the operation fails *)
Definition fs_apply (fs : fsst) (o : fsop) : option (fsst * list (N * N)) :=
  match o with
  | OCreate p =>
      match lookup_parent fs p with
      | inl _ => None
      | inr (stk, di, nm) =>
          match f_ent fs !! key_of stk nm with
          | None => Some (add_entry fs (key_of stk nm) KFile, [(di, NOTE_WRITE)])
          | Some i => if is_file (kind_of fs i) then Some (fs, [(i, NOTE_ATTRIB)]) else None
          end
      end
  | OWrite p =>
      match lookup_path fs p true with
      | inr (_, i) => if is_file (kind_of fs i) then Some (fs, [(i, NOTE_WRITE)]) else None
      | inl _ => None
      end
  | OTrunc p =>
      match lookup_path fs p true with
      | inr (_, i) => if is_file (kind_of fs i) then Some (fs, [(i, NOTE_ATTRIB)]) else None
      | inl _ => None
      end
  | OChmod p =>
      match lookup_path fs p false with
      | inr (_, i) => if is_link (kind_of fs i) then None else Some (fs, [(i, NOTE_ATTRIB)])
      | inl _ => None
      end
  | OUnlink p =>
      match lookup_parent fs p with
      | inl _ => None
      | inr (stk, di, nm) =>
          match f_ent fs !! key_of stk nm with
          | None => None
          | Some i =>
              if is_dir (kind_of fs i) then None
              else Some (del_entry fs (key_of stk nm),
                         (di, NOTE_WRITE) :: (if Nat.leb (nlink fs i) 1 then [(i, NOTE_DELETE)] else []))
          end
      end
  | OMkdir p =>
      match lookup_parent fs p with
      | inl _ => None
      | inr (stk, di, nm) =>
          match f_ent fs !! key_of stk nm with
          | None => Some (add_entry fs (key_of stk nm) KDir, [(di, N.lor NOTE_WRITE NOTE_LINK)])
          | Some _ => None
          end
      end
  | ORmdir p =>
      match lookup_parent fs p with
      | inl _ => None
      | inr (stk, di, nm) =>
          match f_ent fs !! key_of stk nm with
          | None => None
          | Some i =>
              if is_dir (kind_of fs i) && match children fs (key_of stk nm) with [] => true | _ => false end
              then Some (del_entry fs (key_of stk nm), [(di, N.lor NOTE_WRITE NOTE_LINK); (i, NOTE_DELETE)])
              else None
          end
      end
  | OMkfifo p =>
      match lookup_parent fs p with
      | inl _ => None
      | inr (stk, di, nm) =>
          match f_ent fs !! key_of stk nm with
          | None => Some (add_entry fs (key_of stk nm) KFifo, [(di, NOTE_WRITE)])
          | Some _ => None
          end
      end
  | OSymlink t p =>
      match lookup_parent fs p with
      | inl _ => None
      | inr (stk, di, nm) =>
          match f_ent fs !! key_of stk nm with
          | None => Some (add_entry fs (key_of stk nm) (KLink t), [(di, NOTE_WRITE)])
          | Some _ => None
          end
      end
  | OLink src p =>
      match lookup_path fs src false, lookup_parent fs p with
      | inr (_, i), inr (stk, di, nm) =>
          match f_ent fs !! key_of stk nm with
          | None => if is_file (kind_of fs i)
                    then Some ({| f_ent := <[ key_of stk nm := i ]> (f_ent fs); f_kind := f_kind fs; f_next := f_next fs |},
                               [(di, NOTE_WRITE)])
                    else None
          | Some _ => None
          end
      | _, _ => None
      end
  | ORename src dst =>
      match lookup_parent fs src, lookup_parent fs dst with
      | inr (sstk, sdi, snm), inr (dstk, ddi, dnm) =>
          let sk := key_of sstk snm in
          let dk := key_of dstk dnm in
          match f_ent fs !! sk with
          | None => None
          | Some si =>
              let sdir := is_dir (kind_of fs si) in
              if String.eqb sk dk then None
              else if sdir && str_prefix (sk ++ "/") dk then None
              else
                match f_ent fs !! dk with
                | None => Some (rekey fs sk dk, [(sdi, NOTE_WRITE); (ddi, NOTE_WRITE); (si, NOTE_RENAME)])
                | Some ti =>
                    let tdir := is_dir (kind_of fs ti) in
                    if N.eqb si ti then None
                    else if sdir && negb tdir then None
                    else if negb sdir && tdir then None
                    else if tdir && match children fs dk with [] => false | _ => true end then None
                    else Some (rekey fs sk dk,
                               ([(sdi, NOTE_WRITE); (ddi, NOTE_WRITE); (si, NOTE_RENAME)]
                                 ++ (if tdir || Nat.leb (nlink fs ti) 1 then [(ti, NOTE_DELETE)] else []))%list)
                end
          end
      | _, _ => None
      end
  end.

(* ------------------------------------------------------------------ 3. kernel: descriptors and kqueue *)

(* Descriptors are numbered 1, 2, 3, … in order of open(2) (the serial number simunix assigns); 0 stands for the read
   end of the close pipe in pending records.  A descriptor number is never reused in the model; the invariant
   (KqInv: ledger = dom wd) is what makes the real code insensitive to reuse. *)
Record kernel := {
  k_led : gmap N (string * N);   (* open vnode descriptors: serial ↦ (path given to open, inode) *)
  k_kq : bool; k_pr : bool; k_pw : bool;   (* infrastructure descriptors still open: kqueue, pipe read end, pipe write end *)
  k_regs : gmap N N;             (* EVFILT_VNODE registrations: descriptor ↦ subscribed fflags *)
  k_pend : list (N * N);         (* activated registrations, activation order, with the fflags pending on each *)
  k_next : N;
  k_fs : fsst;
}.

Definition k_init : kernel :=
  {| k_led := ∅; k_kq := true; k_pr := true; k_pw := true; k_regs := ∅; k_pend := []; k_next := 1; k_fs := fs_init |}.

Definition k_set_led f (k : kernel) := {| k_led := f (k_led k); k_kq := k_kq k; k_pr := k_pr k; k_pw := k_pw k;
  k_regs := k_regs k; k_pend := k_pend k; k_next := k_next k; k_fs := k_fs k |}.
Definition k_set_regs f (k : kernel) := {| k_led := k_led k; k_kq := k_kq k; k_pr := k_pr k; k_pw := k_pw k;
  k_regs := f (k_regs k); k_pend := k_pend k; k_next := k_next k; k_fs := k_fs k |}.
Definition k_set_pend f (k : kernel) := {| k_led := k_led k; k_kq := k_kq k; k_pr := k_pr k; k_pw := k_pw k;
  k_regs := k_regs k; k_pend := f (k_pend k); k_next := k_next k; k_fs := k_fs k |}.
Definition k_set_fs f (k : kernel) := {| k_led := k_led k; k_kq := k_kq k; k_pr := k_pr k; k_pw := k_pw k;
  k_regs := k_regs k; k_pend := k_pend k; k_next := k_next k; k_fs := f (k_fs k) |}.

(* open(2): a new descriptor *)
Definition sys_open (k : kernel) (p : string) : oserr + (kernel * N) :=
  match v_open (k_fs k) p with
  | inl e => inl e
  | inr i => inr ({| k_led := <[ k_next k := (p, i) ]> (k_led k); k_kq := k_kq k; k_pr := k_pr k; k_pw := k_pw k;
                    k_regs := k_regs k; k_pend := k_pend k; k_next := k_next k + 1; k_fs := k_fs k |}, k_next k)
  end.

Definition drop_pend (fd : N) (l : list (N * N)) : list (N * N) := filter (fun r : N * N => negb (N.eqb r.1 fd)) l.

(* close(2) of a vnode descriptor: the descriptor, its registration and its pending record go *)
Definition sys_close (k : kernel) (fd : N) : kernel :=
  k_set_pend (drop_pend fd) (k_set_regs (delete fd) (k_set_led (delete fd) k)).

(* kevent(EV_ADD|EV_CLEAR|EV_ENABLE): a new registration, or new fflags on an existing one (pending flags stay) *)
Definition sys_register (k : kernel) (fd flags : N) : option kernel :=
  match k_led k !! fd with
  | Some _ => Some (k_set_regs (<[ fd := flags ]>) k)
  | None => None     (* EBADF *)
  end.

(* kevent(EV_DELETE) *)
Definition sys_evdelete (k : kernel) (fd : N) : option kernel :=
  match k_regs k !! fd with
  | Some _ => Some (k_set_pend (drop_pend fd) (k_set_regs (delete fd) k))
  | None => None     (* ENOENT *)
  end.

Fixpoint pend_or (fd hint : N) (l : list (N * N)) : list (N * N) :=
  match l with
  | [] => [(fd, hint)]
  | (f, h) :: r => if N.eqb f fd then (f, N.lor h hint) :: r else (f, h) :: pend_or fd hint r
  end.

Fixpoint ins_desc (x : N) (l : list N) : list N :=
  match l with [] => [x] | y :: r => if N.leb y x then x :: l else y :: ins_desc x r end.
Definition sort_desc (l : list N) : list N := fold_right ins_desc [] l.
Fixpoint ins_asc (x : N) (l : list N) : list N :=
  match l with [] => [x] | y :: r => if N.leb x y then x :: l else y :: ins_asc x r end.
Definition sort_asc (l : list N) : list N := fold_right ins_asc [] l.

(* filt_vnode: if (kn->kn_sfflags & hint) kn->kn_fflags |= hint; knotes of one vnode most recently attached first *)
Definition k_raise (k : kernel) (ih : N * N) : kernel :=
  let '(ino, hint) := ih in
  let fds := sort_desc (omap (fun fr : N * N =>
                 match k_led k !! fr.1 with
                 | Some (_, i) => if N.eqb i ino && negb (N.eqb (N.land fr.2 hint) 0) then Some fr.1 else None
                 | None => None
                 end) (map_to_list (k_regs k))) in
  k_set_pend (fun l => fold_left (fun l fd => pend_or fd hint l) fds l) k.

Definition k_fsop (k : kernel) (o : fsop) : kernel * bool :=
  match fs_apply (k_fs k) o with
  | None => (k, false)
  | Some (fs', hints) => (fold_left k_raise hints (k_set_fs (fun _ => fs') k), true)
  end.

(* ------------------------------------------------------------------ 4. tables (type watches) *)

Record watch := { w_name : string; w_link : string; w_isdir : bool; w_dflags : N }.
Definition watch0 : watch := {| w_name := ""; w_link := ""; w_isdir := false; w_dflags := 0 |}.

Record tables := {
  t_wd : gmap N watch;            (* wd → watch *)
  t_path : gmap string N;         (* pathname → wd *)
  t_bydir : gmap string (gset N); (* dirname(path) → wd *)
  t_seen : gset string;
  t_user : gset string;
}.
Definition t_init : tables := {| t_wd := ∅; t_path := ∅; t_bydir := ∅; t_seen := ∅; t_user := ∅ |}.

Definition tb_byWd (t : tables) (fd : N) : option watch := t_wd t !! fd.
(* w.wd[w.path[path]]: a missing key reads as descriptor 0 *)
Definition tb_byPath (t : tables) (p : string) : option (N * watch) :=
  let fd := default 0 (t_path t !! p) in
  match t_wd t !! fd with Some w => Some (fd, w) | None => None end.

Definition tb_addUserWatch (t : tables) (p : string) : tables :=
  {| t_wd := t_wd t; t_path := t_path t; t_bydir := t_bydir t; t_seen := t_seen t; t_user := {[ p ]} ∪ t_user t |}.

Definition tb_addLink (t : tables) (p : string) : tables :=
  {| t_wd := t_wd t; t_path := <[ p := 0 ]> (t_path t); t_bydir := t_bydir t; t_seen := {[ p ]} ∪ t_seen t; t_user := t_user t |}.

Definition tb_add (t : tables) (p link : string) (fd : N) (isdir : bool) : tables :=
  {| t_wd := <[ fd := {| w_name := p; w_link := link; w_isdir := isdir; w_dflags := 0 |} ]> (t_wd t);
     t_path := <[ p := fd ]> (t_path t);
     t_bydir := <[ dir p := {[ fd ]} ∪ default ∅ (t_bydir t !! dir p) ]> (t_bydir t);
     t_seen := t_seen t; t_user := t_user t |}.

Definition tb_updateDirFlags (t : tables) (p : string) (flags : N) : option tables :=
  match t_path t !! p with
  | None => None
  | Some fd =>
      let info := default watch0 (t_wd t !! fd) in
      Some {| t_wd := <[ fd := {| w_name := w_name info; w_link := w_link info; w_isdir := w_isdir info; w_dflags := flags |} ]> (t_wd t);
              t_path := t_path t; t_bydir := t_bydir t; t_seen := t_seen t; t_user := t_user t |}
  end.

Definition tb_remove (t : tables) (fd : N) (p : string) : tables * bool :=
  let isdir := w_isdir (default watch0 (t_wd t !! fd)) in
  let parent := dir p in
  let bd := match t_bydir t !! parent with
            | None => t_bydir t
            | Some s => let s' := s ∖ {[ fd ]} in
                        if decide (s' = ∅) then delete parent (t_bydir t) else <[ parent := s' ]> (t_bydir t)
            end in
  ({| t_wd := delete fd (t_wd t); t_path := delete p (t_path t); t_bydir := bd;
      t_seen := t_seen t ∖ {[ p ]}; t_user := t_user t ∖ {[ p ]} |}, isdir).

Definition tb_markSeen (t : tables) (p : string) (exists_ : bool) : tables :=
  {| t_wd := t_wd t; t_path := t_path t; t_bydir := t_bydir t;
     t_seen := if exists_ then {[ p ]} ∪ t_seen t else t_seen t ∖ {[ p ]}; t_user := t_user t |}.

Definition tb_seenBefore (t : tables) (p : string) : bool := bool_decide (p ∈ t_seen t).

(* names of the watches below [p] that the user did not add; ascending descriptor order (Go: map order, immaterial) *)
Definition tb_watchesInDir (t : tables) (p : string) : list string :=
  omap (fun fd => let info := default watch0 (t_wd t !! fd) in
                  if bool_decide (w_name info ∈ t_user t) then None else Some (w_name info))
       (sort_asc (elements (default ∅ (t_bydir t !! p)))).

Definition tb_listPaths (t : tables) (userOnly : bool) : list string :=
  sort_str (if userOnly then elements (t_user t) else map fst (map_to_list (t_path t))).

(* ------------------------------------------------------------------ 5. watcher *)

Record event := { e_name : string; e_op : N }.
Definition Create : N := 1.
Definition Write : N := 2.
Definition Remove : N := 4.
Definition Rename : N := 8.
Definition Chmod : N := 16.
Definition has (o h : N) : bool := negb (N.eqb (N.land o h) 0).

Inductive err := ErrClosed | ErrNonExistentWatch | EOs (e : oserr) | ErrFuel.

Record st := {
  T : tables;
  K : kernel;
  closed : bool;        (* shared.done is closed *)
  gone : bool;          (* the reader goroutine has returned (Events and Errors are closed) *)
  held : bool;          (* harness: pending records are withheld from the reader *)
  evs : list event;     (* everything sent on Events, newest first *)
  errs : list err;      (* everything sent on Errors, newest first *)
}.

Definition st_init : st := {| T := t_init; K := k_init; closed := false; gone := false; held := false; evs := []; errs := [] |}.

Definition set_T f (s : st) := {| T := f (T s); K := K s; closed := closed s; gone := gone s; held := held s; evs := evs s; errs := errs s |}.
Definition set_K f (s : st) := {| T := T s; K := f (K s); closed := closed s; gone := gone s; held := held s; evs := evs s; errs := errs s |}.
Definition set_closed b (s : st) := {| T := T s; K := K s; closed := b; gone := gone s; held := held s; evs := evs s; errs := errs s |}.
Definition set_gone b (s : st) := {| T := T s; K := K s; closed := closed s; gone := b; held := held s; evs := evs s; errs := errs s |}.
Definition set_held b (s : st) := {| T := T s; K := K s; closed := closed s; gone := gone s; held := b; evs := evs s; errs := errs s |}.

Definition fs_of (s : st) : fsst := k_fs (K s).

(* sendEvent / sendError: Op 0 (resp. nil) is not sent and counts as sent; once closed nothing is sent and the
   result is false (the select also offers the channel then; the harness never lets that race happen) *)
Definition sendEvent (s : st) (e : event) : st * bool :=
  if N.eqb (e_op e) 0 then (s, true)
  else if closed s then (s, false)
  else ({| T := T s; K := K s; closed := closed s; gone := gone s; held := held s; evs := e :: evs s; errs := errs s |}, true).

Definition sendError (s : st) (e : option err) : st * bool :=
  match e with
  | None => (s, true)
  | Some x => if closed s then (s, false)
              else ({| T := T s; K := K s; closed := closed s; gone := gone s; held := held s; evs := evs s; errs := x :: errs s |}, true)
  end.

Definition newEvent (name link : string) (mask : N) : event :=
  let nm := if String.eqb link "" then name else link in
  let op := N.lor (N.lor (if has mask NOTE_DELETE then Remove else 0) (if has mask NOTE_WRITE then Write else 0))
                  (N.lor (if has mask NOTE_RENAME then Rename else 0) (if has mask NOTE_ATTRIB then Chmod else 0)) in
  let op := if has op Write && has op Remove then N.ldiff op Write else op in
  {| e_name := nm; e_op := op |}.

Inductive res := ROk (name : string) | RErr (e : err).

(* --- addWatch with watchDirectoryFiles and internalWatch (mutually recursive in the code: fuel) *)

Definition internalWatch (aw : st -> string -> N -> bool -> st * res) (s : st) (p : string) (k : kind) : st * res :=
  if is_dir k then
    let dflags := match tb_byPath (T s) p with Some (_, info) => w_dflags info | None => 0 end in
    aw s p (N.lor dflags (N.lor NOTE_DELETE NOTE_RENAME)) true
  else aw s p noteAllEvents true.

Fixpoint wdf_loop (aw : st -> string -> N -> bool -> st * res) (dirPath : string) (names : list string) (s : st) : st * option err :=
  match names with
  | [] => (s, None)
  | f :: r =>
      let p := pjoin dirPath f in
      match v_lstat (fs_of s) p with
      | inl e => (s, Some (EOs e))
      | inr k =>
          let '(s1, r1) := internalWatch aw s p k in
          match r1 with
          | ROk cp => wdf_loop aw dirPath r (set_T (fun t => tb_markSeen t cp true) s1)
          | RErr (EOs EACCES) => wdf_loop aw dirPath r (set_T (fun t => tb_markSeen t (clean p) true) s1)
          | RErr e => (s1, Some e)
          end
      end
  end.

Definition watchDirectoryFiles (aw : st -> string -> N -> bool -> st * res) (s : st) (dirPath : string) : st * option err :=
  match v_readdir (fs_of s) dirPath with
  | inl e => (s, Some (EOs e))
  | inr names => wdf_loop aw dirPath names s
  end.

(* the part of addWatch after the descriptor is known *)
Definition aw_finish (aw : st -> string -> N -> bool -> st * res) (s : st) (name : string) (fd : N) (link : string)
           (isdir : bool) (dflags : N) (already : bool) (flags : N) : st * res :=
  match sys_register (K s) fd flags with
  | None => (set_K (fun k => sys_close k fd) s, RErr (EOs EOTHER))
  | Some k1 =>
      let s1 := set_K (fun _ => k1) s in
      let s2 := if already then s1 else set_T (fun t => tb_add t name link fd isdir) s1 in
      if isdir then
        let watchDir := has flags NOTE_WRITE && (negb already || negb (has dflags NOTE_WRITE)) in
        match tb_updateDirFlags (T s2) name flags with
        | None => (s2, ROk "")
        | Some t3 =>
            let s3 := set_T (fun _ => t3) s2 in
            if watchDir then
              let d := if String.eqb link "" then name else link in
              match watchDirectoryFiles aw s3 d with
              | (s4, Some e) => (s4, RErr e)
              | (s4, None) => (s4, ROk name)
              end
            else (s3, ROk name)
        end
      else (s2, ROk name)
  end.

Fixpoint addWatch (fuel : nat) (s : st) (name : string) (flags : N) (listDir : bool) : st * res :=
  match fuel with
  | O => (s, RErr ErrFuel)
  | S fuel' =>
      let aw := addWatch fuel' in
      if closed s then (s, RErr ErrClosed) else
      let name := clean name in
      match tb_byPath (T s) name with
      | Some (fd, info) => aw_finish aw s name fd (w_link info) (w_isdir info) (w_dflags info) true flags
      | None =>
          match v_lstat (fs_of s) name with
          | inl e => (s, RErr (EOs e))
          | inr k =>
              if is_fifo k then (s, ROk "") else
              let open_and_finish := fun (s : st) (name link : string) (k : kind) =>
                match sys_open (K s) name with
                | inl e => (s, RErr (EOs e))
                | inr (k1, fd) => aw_finish aw (set_K (fun _ => k1) s) name fd link (is_dir k) 0 false flags
                end in
              if negb listDir && is_link k then
                match v_readlink (fs_of s) name with
                | inl e => (s, RErr (EOs e))
                | inr l =>
                    let l := clean (if is_abs l then l else pjoin (dir name) l) in     (* link = filepath.Clean(link) *)
                    match tb_byPath (T s) l with
                    | Some _ => (set_T (fun t => tb_addLink t name) s, ROk l)
                    | None =>
                        match v_lstat (fs_of s) l with
                        | inl e => (s, RErr (EOs e))
                        | inr k' => open_and_finish s l name k'
                        end
                    end
                end
              else open_and_finish s name "" k
          end
      end
  end.

Definition aw_fuel : nat := 3.

(* AddWith *)
Definition api_add (c : cfg) (s : st) (name : string) : st * res :=
  let '(s1, r) := addWatch aw_fuel s name noteAllEvents false in
  match r with
  | RErr e => (s1, r)
  | ROk got =>
      if fx_fifo_user c && String.eqb got "" then (s1, r)
      else (set_T (fun t => tb_addUserWatch t (if fx_user_clean c then clean name else name)) s1, r)
  end.

(* --- remove *)

(* w.register([]int{wd}, unix.EV_DELETE, 0) with its error: on failure the kernel state is what it was *)
Definition evdelete_err (k : kernel) (fd : N) : kernel * option err :=
  match sys_evdelete k fd with
  | Some k1 => (k1, None)
  | None => (k, Some (EOs ENOENT))
  end.

Fixpoint remove_core (fuel : nat) (s : st) (name : string) (unwatchFiles : bool) : st * option err :=
  match fuel with
  | O => (s, Some ErrFuel)
  | S fuel' =>
      let name := clean name in
      match tb_byPath (T s) name with
      | None => (s, Some ErrNonExistentWatch)
      | Some (fd, _) =>
          (* the error of kevent(EV_DELETE) does not end the function: the descriptor is closed, the tables are
             updated and the entries are removed in every case, and that error is what is returned at the end *)
          let '(k1, r) := evdelete_err (K s) fd in
          let k2 := sys_close k1 fd in
          let '(t1, isdir) := tb_remove (T s) fd name in
          let s1 := set_T (fun _ => t1) (set_K (fun _ => k2) s) in
          if unwatchFiles && isdir then
            (fold_left (fun s child => fst (remove_core fuel' s child true)) (tb_watchesInDir t1 name) s1, r)
          else (s1, r)
      end
  end.

Definition rm_fuel (s : st) : nat := S (size (t_wd (T s))).

(* w.remove: returns early once closed — unless Close has been repaired to use an unguarded remove *)
Definition remove (c : cfg) (s : st) (name : string) (unwatchFiles : bool) : st * option err :=
  if negb (fx_close c) && closed s then (s, None) else remove_core (rm_fuel s) s name unwatchFiles.

Definition api_remove (c : cfg) (s : st) (name : string) : st * option err :=
  if closed s then (s, None) else remove_core (rm_fuel s) s name true.

Definition api_list (s : st) : list string := if closed s then [] else tb_listPaths (T s) true.

(* Close: mark closed; "remove" every path; close the pipe's write end, which activates the read end's registration *)
Definition api_close (c : cfg) (s : st) : st :=
  if closed s then s else
  let s1 := set_closed true s in
  let s2 := if fx_close c
            then fold_left (fun s p => fst (remove_core (rm_fuel s) s p true)) (tb_listPaths (T s1) false) s1
            else s1 in
  set_K (fun k => {| k_led := k_led k; k_kq := k_kq k; k_pr := k_pr k; k_pw := false; k_regs := k_regs k;
                     k_pend := k_pend k ++ [(0, 0)]; k_next := k_next k; k_fs := k_fs k |}) s2.

(* --- sendCreateIfNew, dirChange *)

Definition aw_entry : st -> string -> N -> bool -> st * res := addWatch 2.

Definition sendCreateIfNew (s : st) (p : string) (k : kind) : st * option err :=
  let '(s0, sent) := if tb_seenBefore (T s) p then (s, true) else sendEvent s {| e_name := p; e_op := Create |} in
  if negb sent then (s0, None) else
  let '(s1, r) := internalWatch aw_entry s0 p k in
  match r with
  | RErr e => (s1, Some e)
  | ROk p' => (set_T (fun t => tb_markSeen t p' true) s1, None)
  end.

Definition ignorable (e : err) : bool :=
  match e with EOs EACCES | EOs ENOENT => true | _ => false end.

Fixpoint dc_loop (d : string) (names : list string) (s : st) : st * option err :=
  match names with
  | [] => (s, None)
  | f :: r =>
      match v_lstat (fs_of s) (pjoin d f) with
      | inl ENOENT => (s, None)
      | inl e => (s, Some (EOs e))
      | inr k =>
          match sendCreateIfNew s (pjoin d f) k with
          | (s1, None) => dc_loop d r s1
          | (s1, Some e) => if ignorable e then (s1, None) else (s1, Some e)
          end
      end
  end.

Definition dirChange (s : st) (d : string) : st * option err :=
  match v_readdir (fs_of s) d with
  | inl ENOENT => (s, None)
  | inl e => (s, Some (EOs e))
  | inr names => dc_loop d names s
  end.

(* --- the body of the readEvents loop for one kevent record *)

(* the deferred clean-up of readEvents: close the kqueue (which drops every registration) and the pipe's read end *)
Definition reader_exit (s : st) : st :=
  set_gone true (set_K (fun k => {| k_led := k_led k; k_kq := false; k_pr := false; k_pw := k_pw k; k_regs := ∅;
                                    k_pend := []; k_next := k_next k; k_fs := k_fs k |}) s).

Definition after_remove (s2 : st) (w : watch) (ev : event) : st :=
  if has (e_op ev) Remove then
    if w_isdir w then
      let fileDir := clean (e_name ev) in
      match tb_byPath (T s2) fileDir with
      | Some _ => let '(s3, e) := dirChange s2 fileDir in
                  let '(s4, sent) := sendError s3 e in if sent then s4 else reader_exit s4
      | None => s2
      end
    else
      let p := clean (e_name ev) in
      match v_lstat (fs_of s2) p with
      | inr k => let '(s3, e) := sendCreateIfNew s2 p k in
                 let '(s4, sent) := sendError s3 e in if sent then s4 else reader_exit s4
      | inl _ => s2
      end
  else s2.

Definition handle (c : cfg) (s : st) (r : N * N) : st :=
  let '(fd, mask) := r in
  if N.eqb fd 0 then reader_exit s else
  let w := default watch0 (tb_byWd (T s) fd) in
  let ev := newEvent (w_name w) (w_link w) mask in
  let s1 := if has (e_op ev) Rename || has (e_op ev) Remove
            then set_T (fun t => tb_markSeen t (e_name ev) false) (fst (remove c s (e_name ev) false))
            else s in
  if w_isdir w && has (e_op ev) Write && negb (has (e_op ev) Remove)
  then after_remove (fst (dirChange s1 (e_name ev))) w ev
  else let '(s2, sent) := sendEvent s1 ev in
       if sent then after_remove s2 w ev else reader_exit s2.

Fixpoint handle_batch (c : cfg) (s : st) (b : list (N * N)) : st :=
  match b with
  | [] => s
  | r :: rest => if gone s then s else handle_batch c (handle c s r) rest
  end.

(* kevent() hands out at most 10 records; EV_CLEAR resets what was handed out *)
Fixpoint read_all (c : cfg) (fuel : nat) (s : st) : st :=
  match fuel with
  | O => s
  | S fuel' =>
      if gone s then s else
      match k_pend (K s) with
      | [] => s
      | _ =>
          let batch := firstn 10 (k_pend (K s)) in
          let s1 := set_K (k_set_pend (skipn 10)) s in
          read_all c fuel' (handle_batch c s1 batch)
      end
  end.

Definition read_fuel (s : st) : nat := S (length (k_pend (K s))).

(* ------------------------------------------------------------------ 6. closed system *)

Inductive step :=
| SFs (o : fsop)
| SAdd (p : string)
| SRemove (p : string)
| SList
| SClose
| SHold
| SRelease
| SCloseRace (o : fsop).   (* the operation's notifications are retrieved by the reader, and Close runs before it has handled them *)

Inductive result := RFs (ok : bool) | RApi (e : option err) | RList (l : list string) | RNone.

Definition settle (c : cfg) (s : st) : st := if held s then s else read_all c (read_fuel s) s.

Definition do_step (c : cfg) (s : st) (x : step) : st * result :=
  match x with
  | SFs o => let '(k1, ok) := k_fsop (K s) o in (settle c (set_K (fun _ => k1) s), RFs ok)
  | SAdd p => let '(s1, r) := api_add c s p in
              (settle c s1, RApi (match r with ROk _ => None | RErr e => Some e end))
  | SRemove p => let '(s1, e) := api_remove c s p in (settle c s1, RApi e)
  | SList => (s, RList (api_list s))
  | SClose => let s0 := settle c (set_held false s) in (settle c (api_close c s0), RApi None)
  | SHold => (set_held true s, RNone)
  | SRelease => (settle c (set_held false s), RNone)
  | SCloseRace o =>
      (* schedule: earlier records are handled; the operation happens; kevent hands its records (one batch) to the reader;
         Close runs; only then does the reader go through the batch (every send now finds the watcher closed) *)
      let s0 := settle c (set_held false s) in
      let '(k1, ok) := k_fsop (K s0) o in
      let s1 := set_K (fun _ => k1) s0 in
      let batch := firstn 10 (k_pend (K s1)) in
      let s2 := set_K (k_set_pend (skipn 10)) s1 in
      let s3 := api_close c s2 in
      (settle c (handle_batch c s3 batch), RFs ok)
  end.

Definition run (c : cfg) (h : list step) (s : st) : st := fold_left (fun s x => fst (do_step c s x)) h s.

(* ------------------------------------------------------------------ observables *)

Definition sizes (s : st) : N * N * N * N * N :=
  (N.of_nat (size (t_wd (T s))), N.of_nat (size (t_path (T s))), N.of_nat (size (t_bydir (T s))),
   N.of_nat (size (t_seen (T s))), N.of_nat (size (t_user (T s)))).

Definition ledger_list (s : st) : list (N * string) :=
  map (fun fd => (fd, fst (default ("", 0) (k_led (K s) !! fd)))) (sort_asc (map fst (map_to_list (k_led (K s))))).

Definition regs_list (s : st) : list (N * N) :=
  map (fun fd => (fd, default 0 (k_regs (K s) !! fd))) (sort_asc (map fst (map_to_list (k_regs (K s))))).

Definition tree_list (s : st) : list (string * kind * nat) :=
  let fs := fs_of s in
  omap (fun p => if String.eqb p "" then None else
                 match f_ent fs !! p with Some i => Some (p, kind_of fs i, nlink fs i) | None => None end)
       (sort_str (map fst (map_to_list (f_ent fs)))).

Definition infra (s : st) : bool * bool * bool := (k_kq (K s), k_pr (K s), k_pw (K s)).

(* ------------------------------------------------------------------ 7. observations and specification-level predicates *)

(* What the harness records after a step (and what the model predicts): *)
Record obs := {
  ob_ok : bool;                          (* fs: the operation succeeded; api: the call returned nil *)
  ob_evs : list event;                   (* events delivered during the step, in order *)
  ob_nerr : nat;                         (* errors delivered during the step *)
  ob_list : list string;                 (* sorted WatchList *)
  ob_led : list (N * string * bool);     (* vnode descriptors in the ledger: serial, path opened, file already deleted *)
  ob_infra : bool * bool * bool;         (* kqueue, pipe read end, pipe write end still open *)
  ob_sizes : N * N * N * N * N;          (* len wd, path, byDir, seen, byUser *)
}.

Definition model_obs (c : cfg) (s : st) (x : step) : st * obs :=
  let '(s', r) := do_step c s x in
  (s', {| ob_ok := match r with RFs b => b | RApi None => true | RApi (Some _) => false | _ => true end;
          ob_evs := rev (firstn (length (evs s') - length (evs s)) (evs s'));
          ob_nerr := length (errs s') - length (errs s);
          ob_list := api_list s';
          ob_led := map (fun fp : N * string =>
                          (fp.1, fp.2, Nat.eqb (nlink (fs_of s') (snd (default ("", 0) (k_led (K s') !! fp.1)))) 0)) (ledger_list s');
          ob_infra := infra s';
          ob_sizes := sizes s' |}).

(* The specification does NOT use the watcher model.  It follows the history, the filesystem model (environment) and
   the observations, and names the clause of C17 / C18 an observation contradicts. *)
Record spst := {
  sp_fs : fsst;
  sp_user : list string;         (* user paths, as spelled, added successfully and neither removed nor ended since *)
  sp_ever : list string;         (* every user path ever added successfully *)
  sp_known : gmap string N;      (* entry name ↦ inode: entries of watched directories that pre-existed or had their Create *)
  sp_pre : gset string;          (* the known names that pre-existed when their directory was added *)
  sp_self : gmap string (N * N); (* cleaned user path ↦ inode it denoted (symlinks followed) when added, inode of its parent directory *)
  sp_held : bool;
  sp_closed : bool;
  sp_muted : gset string;        (* names the user took out of the reporting by a Remove that should have failed *)
}.
Definition sp_init : spst := {| sp_fs := fs_init; sp_user := []; sp_ever := []; sp_known := ∅; sp_pre := ∅; sp_self := ∅;
                                sp_held := false; sp_closed := false; sp_muted := ∅ |}.

Definition str_in (x : string) (l : list string) : bool := existsb (String.eqb x) l.
Definition ino_of (fs : fsst) (p : string) (follow : bool) : option N :=
  match lookup_path fs p follow with inr (_, i) => Some i | inl _ => None end.
Definition is_dir_path (fs : fsst) (p : string) : bool :=
  match ino_of fs p true with Some i => is_dir (kind_of fs i) | None => false end.
Definition entries_of (fs : fsst) (base : string) : list (string * N) :=
  match v_readdir fs base with
  | inr names => omap (fun x => match ino_of fs (pjoin base x) false with Some i => Some (pjoin base x, i) | None => None end) names
  | inl _ => []
  end.

Definition viol := (string * string)%type.   (* clause, detail *)

(* one delivered event *)
Definition sp_event (sp : spst) (e : event) : spst * list viol :=
  let n := e_name e in
  let bases := map clean (sp_ever sp) in
  let v_name := if str_in n bases || str_in (dir n) bases then [] else [("names-user-spelling", n)] in
  if has (e_op e) Create then
    let v := match sp_known sp !! n with
             | Some j =>
                 (* a different file under the known name: the missing Remove was reported when the reader went idle *)
                 if negb (N.eqb j (default j (ino_of (sp_fs sp) n false))) then []
                 else if bool_decide (n ∈ sp_pre sp) then [("preexisting-silent", n)] else [("create-once", n)]
             | None => []
             end in
    ({| sp_fs := sp_fs sp; sp_user := sp_user sp; sp_ever := sp_ever sp;
        sp_known := <[ n := default 0 (ino_of (sp_fs sp) n false) ]> (sp_known sp);
        sp_pre := sp_pre sp ∖ {[ n ]}; sp_self := sp_self sp; sp_held := sp_held sp; sp_closed := sp_closed sp; sp_muted := sp_muted sp |}, (v_name ++ v)%list)
  else if has (e_op e) Remove || has (e_op e) Rename then
    ({| sp_fs := sp_fs sp;
        sp_user := filter (fun p => negb (String.eqb (clean p) n)) (sp_user sp);
        sp_ever := sp_ever sp;
        sp_known := filter (fun kv : string * N => negb (String.eqb kv.1 n) && negb (String.eqb (dir kv.1) n)) (sp_known sp);
        sp_pre := sp_pre sp ∖ {[ n ]};
        sp_self := delete n (sp_self sp); sp_held := sp_held sp; sp_closed := sp_closed sp; sp_muted := sp_muted sp |}, v_name)
  else (sp, v_name).

Fixpoint sp_events (sp : spst) (l : list event) : spst * list viol :=
  match l with
  | [] => (sp, [])
  | e :: r => let '(sp1, v1) := sp_event sp e in let '(sp2, v2) := sp_events sp1 r in (sp2, (v1 ++ v2)%list)
  end.

Definition ev_with (l : list event) (n : string) (op : N) : bool :=
  existsb (fun e => String.eqb (e_name e) n && has (e_op e) op) l.

(* names under which inode [i] is reported *)
Definition names_of (sp : spst) (i : N) : list string :=
  (map fst (filter (fun kv : string * N => N.eqb kv.2 i) (map_to_list (sp_known sp)))
   ++ map fst (filter (fun kv : string * (N * N) => N.eqb kv.2.1 i) (map_to_list (sp_self sp))))%list.

Definition expect_change (sp : spst) (o : obs) (p : string) (follow : bool) (op : N) (what : string) : list viol :=
  match ino_of (sp_fs sp) p follow with
  | Some i => if is_file (kind_of (sp_fs sp) i)
              then omap (fun n => if ev_with (ob_evs o) n op || bool_decide (n ∈ sp_muted sp) then None
                                  else Some ("change-missed", what ++ " " ++ n)) (names_of sp i)
              else []
  | None => []
  end.

(* descriptor [q] is accounted for by a live user watch *)
Definition accounted (sp : spst) (q : string) : bool :=
  let bases := map clean (sp_user sp) in
  str_in (clean q) bases || str_in (dir q) bases
  || existsb (fun p => match v_readlink (sp_fs sp) (clean p) with
                       | inr t => String.eqb (if is_abs t then t else pjoin (dir (clean p)) t) q
                       | inl _ => false
                       end) (sp_user sp).

Definition all_zero (z : N * N * N * N * N) : bool :=
  match z with (a, b, c, d, e) => N.eqb a 0 && N.eqb b 0 && N.eqb c 0 && N.eqb d 0 && N.eqb e 0 end.

Definition show_sizes (z : N * N * N * N * N) : string :=
  match z with (a, b, c, d, e) =>
    (if N.eqb a 0 then "" else "wd ") ++ (if N.eqb b 0 then "" else "path ") ++ (if N.eqb c 0 then "" else "byDir ")
    ++ (if N.eqb d 0 then "" else "seen ") ++ (if N.eqb e 0 then "" else "byUser ") end.

(* clauses of C17 evaluated on the state of affairs after a step *)
Definition sp_c17 (sp : spst) (x : step) (o : obs) : list viol :=
  if sp_closed sp then
    match x with
    | SClose | SCloseRace _ =>
                (if match ob_led o with [] => true | _ => false end then [] else [("close-releases-all", "vnode descriptors left open")])
                ++ (match ob_infra o with (false, false, false) => [] | _ => [("close-releases-all", "kqueue or pipe left open")] end)
    | _ => []
    end
  else
    (omap (fun q => if str_in q (sp_ever sp) || str_in q (map clean (sp_ever sp)) then None else Some ("watchlist-user-only", q)) (ob_list o))
    ++ (match x with
        | SRemove p =>
            if ob_ok o then
              omap (fun q => if String.eqb (clean q) (clean p) then Some ("removed-not-listed", q) else None) (ob_list o)
            else if str_in (clean p) (map clean (sp_user sp)) then [("remove-of-added-fails", p)] else []
        | _ => []
        end)
    ++ (if sp_held sp then [] else
        omap (fun e : N * string * bool => if e.2 then Some ("deleted-file-descriptor-open", e.1.2) else None) (ob_led o))
    ++ (match sp_user sp with
        | [] => if all_zero (ob_sizes o) && match ob_led o with [] => true | _ => false end && match ob_list o with [] => true | _ => false end
                then [] else [("all-removed-empty", show_sizes (ob_sizes o) ++ (match ob_led o with [] => "" | _ => "descriptors " end)
                                                    ++ (match ob_list o with [] => "" | _ => "watchlist" end))]
        | _ => omap (fun e : N * string * bool => if accounted sp e.1.2 then None else Some ("unaccounted-descriptor", e.1.2)) (ob_led o)
        end).

(* clauses of C18 evaluated when the reader is idle; a watched path is only judged while its parent directory is
   still the same directory (what happens to a watch whose ancestors are renamed is not C18's subject) *)
Definition base_live (sp : spst) (base : string) : bool :=
  match sp_self sp !! base with
  | Some (i, _) => match ino_of (sp_fs sp) base true with Some j => N.eqb i j | None => false end
  | None => false
  end.

Definition sp_c18_idle (sp : spst) : list viol :=
  if sp_held sp || sp_closed sp then [] else
  let fs := sp_fs sp in
  (concat (map (fun bi : string * (N * N) =>
                  if base_live sp bi.1 && is_dir_path fs bi.1 then
                    omap (fun ni : string * N =>
                            match sp_known sp !! ni.1 with
                            | None => Some ("create-missed", ni.1)
                            | Some j => if N.eqb j ni.2 then None else Some ("recreate", ni.1)
                            end) (entries_of fs bi.1)
                  else []) (map_to_list (sp_self sp))))
  ++ omap (fun ni : string * N =>
             if base_live sp (dir ni.1) then
               match ino_of fs ni.1 false with
               | Some j => if N.eqb j ni.2 then None else None (* reported as recreate above *)
               | None => Some ("remove-missed", ni.1)
               end
             else None) (map_to_list (sp_known sp))
  ++ omap (fun bi : string * (N * N) =>
             match ino_of fs (dir bi.1) true with
             | Some pi => if N.eqb pi bi.2.2 then
                            match ino_of fs bi.1 true with
                            | Some j => if N.eqb j bi.2.1 then None else Some ("remove-missed", bi.1)
                            | None => Some ("remove-missed", bi.1)
                            end
                          else None
             | None => None
             end) (map_to_list (sp_self sp)).

Definition sp_set_fs (sp : spst) (fs : fsst) : spst :=
  {| sp_fs := fs; sp_user := sp_user sp; sp_ever := sp_ever sp; sp_known := sp_known sp; sp_pre := sp_pre sp;
     sp_self := sp_self sp; sp_held := sp_held sp; sp_closed := sp_closed sp; sp_muted := sp_muted sp |}.

Definition spec_step (sp : spst) (x : step) (o : obs) : spst * list viol :=
  (* expectations that refer to the state before the step *)
  let pre_v := if sp_held sp || sp_closed sp then [] else
    match x with
    | SFs (OWrite p) => if ob_ok o then expect_change sp o p true Write "write" else []
    | SFs (OTrunc p) => if ob_ok o then expect_change sp o p true Chmod "truncate" else []
    | SFs (OChmod p) => if ob_ok o then expect_change sp o p false Chmod "chmod" else []
    | SFs (OCreate p) => if ob_ok o then expect_change sp o p false Chmod "truncate" else []
    | _ => []
    end in
  (* 1. the step itself *)
  let sp1 :=
    match x with
    | SFs op => if ob_ok o then match fs_apply (sp_fs sp) op with Some (fs', _) => sp_set_fs sp fs' | None => sp end else sp
    | SHold => {| sp_fs := sp_fs sp; sp_user := sp_user sp; sp_ever := sp_ever sp; sp_known := sp_known sp; sp_pre := sp_pre sp;
                  sp_self := sp_self sp; sp_held := true; sp_closed := sp_closed sp; sp_muted := sp_muted sp |}
    | SRelease => {| sp_fs := sp_fs sp; sp_user := sp_user sp; sp_ever := sp_ever sp; sp_known := sp_known sp; sp_pre := sp_pre sp;
                     sp_self := sp_self sp; sp_held := false; sp_closed := sp_closed sp; sp_muted := sp_muted sp |}
    | SClose => {| sp_fs := sp_fs sp; sp_user := []; sp_ever := sp_ever sp; sp_known := ∅; sp_pre := ∅;
                   sp_self := ∅; sp_held := false; sp_closed := true; sp_muted := sp_muted sp |}
    | SCloseRace op =>
        {| sp_fs := if ob_ok o then match fs_apply (sp_fs sp) op with Some (fs', _) => fs' | None => sp_fs sp end else sp_fs sp;
           sp_user := []; sp_ever := sp_ever sp; sp_known := ∅; sp_pre := ∅;
           sp_self := ∅; sp_held := false; sp_closed := true; sp_muted := sp_muted sp |}
    | _ => sp
    end in
  (* 2. the events delivered during the step (for SClose: the ones delivered before Close took effect are still checked) *)
  (* a Close racing with the reader: which of the pending events still get through is up to the select in sendEvent *)
  let racing := match x with SCloseRace _ => true | _ => false end in
  let '(sp2, v_ev) := if sp_closed sp || racing then (sp1, []) else sp_events sp1 (ob_evs o) in
  (* 3. a successful Add / Remove takes effect *)
  let sp3 :=
    match x with
    | SAdd p =>
        if ob_ok o && negb (sp_closed sp2) then
          let base := clean p in
          let fs := sp_fs sp2 in
          let ents := if is_dir_path fs base && negb (bool_decide (is_Some (sp_self sp2 !! base))) then filter (fun ni : string * N => negb (bool_decide (is_Some (sp_known sp2 !! ni.1)))) (entries_of fs base) else [] in
          {| sp_fs := fs;
             (* Add of a FIFO/socket returns nil without watching anything: it does not count as a live user watch *)
             sp_user := if str_in p (sp_user sp2) || match ino_of fs base true with Some i => is_fifo (kind_of fs i) | None => false end
                        then sp_user sp2 else (p :: sp_user sp2);
             sp_ever := if str_in p (sp_ever sp2) then sp_ever sp2 else (p :: sp_ever sp2);
             sp_known := fold_left (fun m (ni : string * N) => <[ ni.1 := ni.2 ]> m) ents (sp_known sp2);
             sp_pre := fold_left (fun m (ni : string * N) => {[ ni.1 ]} ∪ m) ents (sp_pre sp2);
             sp_self := match ino_of fs base true with
                        | Some i => if is_fifo (kind_of fs i) then sp_self sp2
                                    else <[ base := (i, default 0 (ino_of fs (dir base) true)) ]> (sp_self sp2)
                        | None => sp_self sp2 end;
             sp_held := sp_held sp2; sp_closed := sp_closed sp2; sp_muted := sp_muted sp2 |}
        else sp2
    | SRemove p =>
        if ob_ok o && negb (sp_closed sp2) then
          let base := clean p in
          let user' := filter (fun q => negb (String.eqb (clean q) base)) (sp_user sp2) in
          {| sp_fs := sp_fs sp2; sp_user := user'; sp_ever := sp_ever sp2;
             (* a Remove that succeeds on an entry the user never added takes that entry out of the reporting (sp_muted) *)
             sp_known := filter (fun kv : string * N => negb (String.eqb (dir kv.1) base)) (sp_known sp2);
             sp_pre := sp_pre sp2;
             sp_self := delete base (sp_self sp2); sp_held := sp_held sp2; sp_closed := sp_closed sp2;
             sp_muted := if str_in base (map clean (sp_user sp2)) then sp_muted sp2 else {[ base ]} ∪ sp_muted sp2 |}
        else sp2
    | _ => sp2
    end in
  (* an entry that is itself a live user watch stays known through the removal of its directory: not needed by any clause *)
  let v_rm := match x with
              | SRemove p => if ob_ok o && negb (sp_closed sp2) && negb (str_in (clean p) (map clean (sp_user sp2)))
                             then [("remove-of-unadded-succeeds", p)] else []
              | _ => []
              end in
  let unmuted := filter (fun v : viol => negb (bool_decide (v.2 ∈ sp_muted sp3))) in
  (sp3, (pre_v ++ unmuted v_ev ++ v_rm ++ sp_c17 sp3 x o ++ unmuted (sp_c18_idle sp3))%list).

(* the whole specification over a recorded (or predicted) trace *)
Fixpoint spec_trace (sp : spst) (n : nat) (tr : list (step * obs)) : list (nat * viol) :=
  match tr with
  | [] => []
  | (x, o) :: r => let '(sp', v) := spec_step sp x o in (map (fun c => (n, c)) v ++ spec_trace sp' (S n) r)%list
  end.

(* the trace the model predicts for a history *)
Fixpoint model_trace (c : cfg) (s : st) (h : list step) : list (step * obs) :=
  match h with
  | [] => []
  | x :: r => let '(s', o) := model_obs c s x in (x, o) :: model_trace c s' r
  end.

Definition spec_of_model (c : cfg) (h : list step) : list (nat * viol) := spec_trace sp_init 0 (model_trace c st_init h).
Definition clause_fails (cl : string) (v : list (nat * viol)) : bool := existsb (fun x : nat * viol => String.eqb x.2.1 cl) v.
