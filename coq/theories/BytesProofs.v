(* BytesProofs.v — proofs about the read-buffer layout and the decode loop of Bytes.v:
   encode/decode round trip for any number of records, any name lengths and any legal paddings,
   batching independence, and robustness against short / truncated tails. *)
From Coq Require Import NArith List String Ascii Bool Arith Lia.
From Fsn Require Import Bytes.
Import ListNotations.
Local Open Scope N_scope.

(* ------------------------------------------------------------------ *)
(* 1. little-endian 32-bit fields                                      *)

Lemma le32_length : forall x, List.length (le32 x) = 4%nat.
Proof. reflexivity. Qed.

Lemma div_mod_256 : forall y, y = 256 * (y / 256) + y mod 256.
Proof. intro y. apply N.div_mod. discriminate. Qed.

Lemma le32_sum : forall x, x < 4294967296 ->
  x mod 256 + 256 * ((x / 256) mod 256) + 65536 * ((x / 65536) mod 256)
    + 16777216 * ((x / 16777216) mod 256) = x.
Proof.
  intros x Hx.
  assert (E2 : x / 65536 = x / 256 / 256)
    by (rewrite N.div_div by discriminate; reflexivity).
  assert (E3 : x / 16777216 = x / 256 / 256 / 256)
    by (rewrite !N.div_div by discriminate; reflexivity).
  rewrite E2, E3.
  pose proof (div_mod_256 x) as H0.
  pose proof (div_mod_256 (x / 256)) as H1.
  pose proof (div_mod_256 (x / 256 / 256)) as H2.
  pose proof (div_mod_256 (x / 256 / 256 / 256)) as H3.
  assert (H4 : x / 256 / 256 / 256 / 256 = 0).
  { rewrite !N.div_div by discriminate. apply N.div_small. exact Hx. }
  rewrite H4 in H3.
  remember (x / 256) as q1 eqn:Eq1.
  remember (q1 / 256) as q2 eqn:Eq2.
  remember (q2 / 256) as q3 eqn:Eq3.
  remember (x mod 256) as m0.
  remember (q1 mod 256) as m1.
  remember (q2 mod 256) as m2.
  remember (q3 mod 256) as m3.
  lia.
Qed.

Theorem rd32_le32 : forall x rest, (x < 4294967296)%N -> rd32 (le32 x ++ rest) = x.
Proof.
  intros x rest Hx.
  unfold le32, rd32. cbn [app].
  apply le32_sum. exact Hx.
Qed.

(* ------------------------------------------------------------------ *)
(* 2. NUL trimming                                                     *)

Definition nz (b : byte) : bool := negb (b =? 0)%N.

Lemma trim_nul_rev_zeros : forall k l,
  trim_nul_rev (rev (repeat 0%N k) ++ l) = trim_nul_rev l.
Proof.
  induction k as [|k IH]; intro l.
  - reflexivity.
  - cbn [repeat rev]. rewrite <- app_assoc. cbn [app].
    rewrite IH. reflexivity.
Qed.

Lemma trim_nul_rev_head_nz : forall l,
  match l with [] => True | b :: _ => b <> 0%N end -> trim_nul_rev l = l.
Proof.
  intros [|b l] H.
  - reflexivity.
  - destruct b as [|p].
    + exfalso. apply H. reflexivity.
    + reflexivity.
Qed.

Lemma forallb_rev : forall (A : Type) (f : A -> bool) l,
  forallb f l = true -> forallb f (rev l) = true.
Proof.
  intros A f l H. rewrite forallb_forall in *.
  intros x Hx. apply H. apply in_rev. exact Hx.
Qed.

Lemma head_nz : forall l : list byte,
  forallb (fun b => negb (b =? 0)%N) l = true ->
  match l with [] => True | b :: _ => b <> 0%N end.
Proof.
  intros [|b l] H.
  - exact I.
  - cbn [forallb] in H. apply andb_prop in H. destruct H as [Hb _].
    intro Hz. rewrite Hz in Hb. discriminate Hb.
Qed.

Theorem trim_exact : forall (n : list byte) k,
  forallb (fun b => negb (b =? 0)%N) n = true -> trim_nul (n ++ repeat 0%N k) = n.
Proof.
  intros n k Hn.
  unfold trim_nul.
  rewrite rev_app_distr, trim_nul_rev_zeros.
  rewrite trim_nul_rev_head_nz.
  - apply rev_involutive.
  - apply head_nz, forallb_rev. exact Hn.
Qed.

(* ------------------------------------------------------------------ *)
(* 3. strings <-> bytes                                                *)

Theorem string_bytes_roundtrip : forall s, string_of_bytes (bytes_of_string s) = s.
Proof.
  unfold string_of_bytes, bytes_of_string.
  induction s as [|a s IH].
  - reflexivity.
  - cbn [list_ascii_of_string map string_of_list_ascii].
    rewrite ascii_N_embedding, IH. reflexivity.
Qed.

Lemma bytes_of_string_length : forall s,
  List.length (bytes_of_string s) = String.length s.
Proof.
  unfold bytes_of_string.
  induction s as [|a s IH].
  - reflexivity.
  - cbn [list_ascii_of_string map List.length String.length]. rewrite IH. reflexivity.
Qed.

(* ------------------------------------------------------------------ *)
(* 4. one record                                                       *)

Lemma sk4 : forall a l, skipn 4 (le32 a ++ l) = l.
Proof. reflexivity. Qed.
Lemma sk8 : forall a b l, skipn 8 (le32 a ++ le32 b ++ l) = l.
Proof. reflexivity. Qed.
Lemma sk12 : forall a b c l, skipn 12 (le32 a ++ le32 b ++ le32 c ++ l) = l.
Proof. reflexivity. Qed.
Lemma sk16 : forall a b c d l,
  skipn 16 (le32 a ++ le32 b ++ le32 c ++ le32 d ++ l) = l.
Proof. reflexivity. Qed.

Lemma hdr_app_length : forall a b c d l,
  List.length (le32 a ++ le32 b ++ le32 c ++ le32 d ++ l) = (16 + List.length l)%nat.
Proof. reflexivity. Qed.

(* the header is read back and the length field decides where the record ends *)
Lemma decode_one_header : forall wd mask cookie L l,
  wd < 4294967296 -> mask < 4294967296 -> cookie < 4294967296 -> L < 4294967296 ->
  decode_one (le32 wd ++ le32 mask ++ le32 cookie ++ le32 L ++ l) =
  if Nat.ltb (List.length l) (N.to_nat L) then None
  else Some (mkRaw wd mask cookie L (string_of_bytes (trim_nul (firstn (N.to_nat L) l))),
             skipn (N.to_nat L) l).
Proof.
  intros wd mask cookie L l Hwd Hmask Hcookie HL.
  unfold decode_one, hdr_len.
  rewrite hdr_app_length.
  destruct (Nat.ltb_spec (16 + List.length l) 16) as [Hlt|Hge]; [lia|].
  cbv zeta.
  rewrite sk4, sk8, sk12, sk16.
  rewrite !rd32_le32 by assumption.
  reflexivity.
Qed.

Lemma decode_one_layout : forall wd mask cookie L body rest,
  wd < 4294967296 -> mask < 4294967296 -> cookie < 4294967296 -> L < 4294967296 ->
  List.length body = N.to_nat L ->
  decode_one (le32 wd ++ le32 mask ++ le32 cookie ++ le32 L ++ body ++ rest) =
  Some (mkRaw wd mask cookie L (string_of_bytes (trim_nul body)), rest).
Proof.
  intros wd mask cookie L body rest Hwd Hmask Hcookie HL Hlen.
  rewrite decode_one_header by assumption.
  rewrite <- Hlen.
  destruct (Nat.ltb_spec (List.length (body ++ rest)) (List.length body)) as [Hlt|Hge].
  - rewrite app_length in Hlt. lia.
  - rewrite firstn_app, skipn_app, Nat.sub_diag, firstn_all, skipn_all.
    cbn [firstn skipn]. rewrite app_nil_r. reflexivity.
Qed.

Lemma raw_wf_inv : forall r, raw_wf r = true ->
  r_wd r < 4294967296 /\ r_mask r < 4294967296 /\ r_cookie r < 4294967296 /\
  no_nul (r_name r) = true.
Proof.
  intros r H. unfold raw_wf in H.
  apply andb_prop in H. destruct H as [H Hnn].
  apply andb_prop in H. destruct H as [H Hc].
  apply andb_prop in H. destruct H as [Hw Hm].
  apply N.ltb_lt in Hw, Hm, Hc.
  repeat split; assumption.
Qed.

Lemma legal_pad_inv : forall r pad, legal_pad r pad = true ->
  r_len r = N.of_nat (String.length (r_name r) + pad) /\
  N.of_nat (String.length (r_name r) + pad) < 4294967296.
Proof.
  intros r pad H. unfold legal_pad in H.
  apply andb_prop in H. destruct H as [H Hlt].
  apply andb_prop in H. destruct H as [_ Heq].
  apply N.eqb_eq in Heq. apply N.ltb_lt in Hlt.
  split; assumption.
Qed.

Theorem decode_one_encode : forall r pad rest,
  raw_wf r = true -> legal_pad r pad = true ->
  decode_one (encode r pad ++ rest) = Some (r, rest).
Proof.
  intros r pad rest Hwf Hpad.
  apply raw_wf_inv in Hwf. destruct Hwf as (Hwd & Hmask & Hcookie & Hnn).
  apply legal_pad_inv in Hpad. destruct Hpad as (Hlen & HL).
  unfold encode.
  rewrite <- !app_assoc.
  rewrite (app_assoc (bytes_of_string (r_name r)) (repeat 0 pad) rest).
  rewrite decode_one_layout; try assumption.
  - unfold no_nul in Hnn.
    rewrite trim_exact by exact Hnn.
    rewrite string_bytes_roundtrip.
    rewrite <- Hlen.
    destruct r; reflexivity.
  - rewrite app_length, repeat_length, bytes_of_string_length, Nat2N.id. reflexivity.
Qed.

Lemma encode_length : forall r pad,
  List.length (encode r pad) = (16 + (String.length (r_name r) + pad))%nat.
Proof.
  intros r pad. unfold encode.
  rewrite hdr_app_length, app_length, repeat_length, bytes_of_string_length.
  reflexivity.
Qed.

Lemma encode_length_ge : forall r pad, (List.length (encode r pad) >= 16)%nat.
Proof. intros r pad. rewrite encode_length. lia. Qed.

(* ------------------------------------------------------------------ *)
(* 5. the loop                                                         *)

Definition bufof (rs : list (raw * nat)) : list byte :=
  List.concat (map (fun rp => encode (fst rp) (snd rp)) rs).

Definition recs_wf (rs : list (raw * nat)) : Prop :=
  Forall (fun rp => raw_wf (fst rp) = true /\ legal_pad (fst rp) (snd rp) = true) rs.

Lemma bufof_cons : forall rp rs, bufof (rp :: rs) = encode (fst rp) (snd rp) ++ bufof rs.
Proof. reflexivity. Qed.

Lemma bufof_app : forall rs1 rs2, bufof (rs1 ++ rs2) = bufof rs1 ++ bufof rs2.
Proof. intros rs1 rs2. unfold bufof. rewrite map_app, List.concat_app. reflexivity. Qed.

Lemma bufof_length_ge : forall rs, (List.length (bufof rs) >= 16 * List.length rs)%nat.
Proof.
  induction rs as [|rp rs IH].
  - cbn. lia.
  - rewrite bufof_cons, app_length. cbn [List.length].
    pose proof (encode_length_ge (fst rp) (snd rp)). lia.
Qed.

(* any fuel >= number of records is enough; whatever follows the records only has to make
   decode_one stop *)
Lemma decode_fuel_stop : forall rs tail fuel,
  recs_wf rs -> decode_one tail = None -> (fuel >= List.length rs)%nat ->
  decode_fuel fuel (bufof rs ++ tail) = map fst rs.
Proof.
  induction rs as [|rp rs IH]; intros tail fuel Hwf Htail Hfuel.
  - cbn [bufof map List.concat app].
    destruct fuel as [|f]; [reflexivity|].
    cbn [decode_fuel]. rewrite Htail. reflexivity.
  - inversion Hwf as [|rp' rs' [Hr Hp] Hrs]; subst.
    cbn [List.length] in Hfuel.
    destruct fuel as [|f]; [lia|].
    rewrite bufof_cons, <- app_assoc.
    cbn [decode_fuel].
    rewrite decode_one_encode by assumption.
    cbn [map]. f_equal.
    apply IH; [assumption|assumption|lia].
Qed.

Lemma decode_one_short : forall tail, (List.length tail < 16)%nat -> decode_one tail = None.
Proof.
  intros tail H. unfold decode_one, hdr_len.
  destruct (Nat.ltb_spec (List.length tail) 16) as [_|Hge]; [reflexivity|lia].
Qed.

Lemma decode_fuel_enough : forall rs fuel,
  recs_wf rs -> (fuel >= List.length rs)%nat ->
  decode_fuel fuel (bufof rs) = map fst rs.
Proof.
  intros rs fuel Hwf Hfuel.
  rewrite <- (app_nil_r (bufof rs)).
  apply decode_fuel_stop; try assumption.
  apply decode_one_short. cbn. lia.
Qed.

Lemma decode_stop : forall rs tail,
  recs_wf rs -> decode_one tail = None -> decode (bufof rs ++ tail) = map fst rs.
Proof.
  intros rs tail Hwf Htail. unfold decode.
  apply decode_fuel_stop; try assumption.
  rewrite app_length. pose proof (bufof_length_ge rs). lia.
Qed.

Theorem decode_encode : forall (rs : list (raw * nat)),
  Forall (fun rp => raw_wf (fst rp) = true /\ legal_pad (fst rp) (snd rp) = true) rs ->
  decode (List.concat (map (fun rp => encode (fst rp) (snd rp)) rs)) = map fst rs.
Proof.
  intros rs Hwf. fold (bufof rs). unfold decode.
  apply decode_fuel_enough; [exact Hwf|].
  pose proof (bufof_length_ge rs). lia.
Qed.

(* ------------------------------------------------------------------ *)
(* 6. batching independence                                            *)

Theorem decode_app : forall rs1 rs2,
  Forall (fun rp => raw_wf (fst rp) = true /\ legal_pad (fst rp) (snd rp) = true) rs1 ->
  Forall (fun rp => raw_wf (fst rp) = true /\ legal_pad (fst rp) (snd rp) = true) rs2 ->
  decode (bufof rs1 ++ bufof rs2) = decode (bufof rs1) ++ decode (bufof rs2).
Proof.
  intros rs1 rs2 H1 H2.
  rewrite <- bufof_app. unfold bufof.
  rewrite !decode_encode; try assumption.
  - apply map_app.
  - apply Forall_app. split; assumption.
Qed.

(* ------------------------------------------------------------------ *)
(* 7. short and truncated tails                                        *)

Theorem decode_short_tail : forall rs tail,
  Forall (fun rp => raw_wf (fst rp) = true /\ legal_pad (fst rp) (snd rp) = true) rs ->
  (List.length tail < 16)%nat ->
  decode (bufof rs ++ tail) = map fst rs.
Proof.
  intros rs tail Hwf Hshort.
  apply decode_stop; [exact Hwf|].
  apply decode_one_short. exact Hshort.
Qed.

(* a record cut anywhere (inside the header or inside the name/padding) stops the loop *)
Lemma decode_one_truncated : forall r pad k,
  raw_wf r = true -> legal_pad r pad = true ->
  (k < List.length (encode r pad))%nat ->
  decode_one (firstn k (encode r pad)) = None.
Proof.
  intros r pad k Hwf Hpad Hk.
  destruct (Nat.lt_ge_cases k 16) as [Hlt|Hge].
  - apply decode_one_short. rewrite firstn_length. lia.
  - apply raw_wf_inv in Hwf. destruct Hwf as (Hwd & Hmask & Hcookie & _).
    apply legal_pad_inv in Hpad. destruct Hpad as (_ & HL).
    rewrite encode_length in Hk.
    unfold encode.
    set (body := bytes_of_string (r_name r) ++ repeat 0 pad).
    assert (Hbody : List.length body = (String.length (r_name r) + pad)%nat).
    { unfold body. rewrite app_length, repeat_length, bytes_of_string_length. reflexivity. }
    replace (firstn k (le32 (r_wd r) ++ le32 (r_mask r) ++ le32 (r_cookie r) ++
               le32 (N.of_nat (String.length (r_name r) + pad)) ++ body))
      with (le32 (r_wd r) ++ le32 (r_mask r) ++ le32 (r_cookie r) ++
               le32 (N.of_nat (String.length (r_name r) + pad)) ++ firstn (k - 16) body).
    + rewrite decode_one_header by assumption.
      rewrite Nat2N.id, firstn_length.
      destruct (Nat.ltb_spec (Nat.min (k - 16) (List.length body))
                             (String.length (r_name r) + pad)) as [_|Hge'];
        [reflexivity|lia].
    + rewrite !app_assoc.
      rewrite (firstn_app k). f_equal.
      symmetry. apply firstn_all2. rewrite !app_length, !le32_length. lia.
Qed.

Theorem decode_truncated_tail : forall rs r pad k,
  Forall (fun rp => raw_wf (fst rp) = true /\ legal_pad (fst rp) (snd rp) = true) rs ->
  raw_wf r = true -> legal_pad r pad = true ->
  (k < List.length (encode r pad))%nat ->
  decode (bufof rs ++ firstn k (encode r pad)) = map fst rs.
Proof.
  intros rs r pad k Hwf Hr Hp Hk.
  apply decode_stop; [exact Hwf|].
  apply decode_one_truncated; assumption.
Qed.

(* ------------------------------------------------------------------ *)
(* 8. non-vacuity                                                      *)

Definition ex_r1 : raw := mkRaw 1 256 0 32 "0123456789abcdef".  (* 16-byte name, 16 NULs *)
Definition ex_r2 : raw := mkRaw 2 32768 4242 0 "".              (* no name, no padding *)

Example ex_wf :
  raw_wf ex_r1 = true /\ legal_pad ex_r1 16 = true /\
  raw_wf ex_r2 = true /\ legal_pad ex_r2 0 = true /\
  List.length (bufof [(ex_r1, 16%nat); (ex_r2, 0%nat)]) = 64%nat.
Proof. vm_compute. repeat split. Qed.

Example decode_encode_example :
  decode (bufof [(ex_r1, 16%nat); (ex_r2, 0%nat)]) = [ex_r1; ex_r2].
Proof. vm_compute. reflexivity. Qed.

(* a name without padding is NOT legal, so the hypotheses are not trivially satisfiable *)
Example legal_pad_needs_nul : legal_pad (mkRaw 1 256 0 16 "0123456789abcdef") 0 = false.
Proof. vm_compute. reflexivity. Qed.

Print Assumptions decode_encode.
