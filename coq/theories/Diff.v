(* Diff.v — executable model of /repo/internal/ztest/diff.go (Diff with no options):
   findLongestMatch, matchingBlocks, GetOpCodes, GetGroupedOpCodes, formatRangeUnified,
   makeUnifiedDiff, splitLines, ASCII TrimSpace, Diff; plus the specification-level
   predicates of C20 (patch applier, header counts, context bound, output parser) and the
   contracts of the inner functions as decidable predicates (flm_okb, flm_maxb, flm_firstb,
   blocks_okb, tiles_okb) — these are what the driver evaluates on the implementation's output.
   Definitions only: the proofs live in DiffProofs.v so that the model still runs
   (and is extracted) if a proof breaks.  Stdlib only. *)
From Coq Require Import List Arith Bool String Ascii DecimalString.
Import ListNotations.

(* opcode tags 'r' 'd' 'i' 'e' *)
Inductive tag := TR | TD | TI | TE.
Record opcode := mkOp { oTag : tag; oI1 : nat; oI2 : nat; oJ1 : nat; oJ2 : nat }.
Definition is_e (t : tag) : bool := match t with TE => true | _ => false end.

(* kinds of body lines: "      "  "-have "  "+want " *)
Inductive kind := Ctx | Del | Ins.

(* a match / a matching block: (A, B, Size) *)
Definition mtch := (nat * nat * nat)%type.
Definition mA (m : mtch) := fst (fst m).
Definition mB (m : mtch) := snd (fst m).
Definition mSize (m : mtch) := snd m.

Fixpoint list_eqb {X} (e : X -> X -> bool) (l1 l2 : list X) : bool :=
  match l1, l2 with
  | [], [] => true
  | x :: r1, y :: r2 => e x y && list_eqb e r1 r2
  | _, _ => false
  end.

(* ------------------------------------------------------------------ sequences *)
Section Seq.
  Variable T : Type.
  Variable eqb : T -> T -> bool.       (* m.cmp; for Diff it is string equality *)

  (* a[i : i+n]  (total: shorter when the slice leaves the list) *)
  Definition sub (a : list T) (i n : nat) : list T := firstn n (skipn i a).

  (* a[i] == b[j]; false when an index is out of range (Go would panic; never happens) *)
  Definition eqat (a b : list T) (i j : nat) : bool :=
    match nth_error a i, nth_error b j with
    | Some x, Some y => eqb x y
    | _, _ => false
    end.

  (* ---------- findLongestMatch ----------
     The Go code keeps j2len[j] = length of the longest common run ending at a[i-1], b[j]
     (a map; absent = 0) and visits, for each i in [alo,ahi), the positions j in [blo,bhi)
     with b[j] == a[i] in increasing order.  The model works on the two windows
     aw = a[alo:ahi], bw = b[blo:bhi] with window-relative indices; a row is the list
     of the values newj2len[blo+0], newj2len[blo+1], ...; the empty list stands for the empty map. *)

  (* newj2len for one element x = a[i]:  k = j2len[j-1] + 1 where b[j] == x, absent (0) elsewhere.
     pm1 is j2len[j-1] for the current j; prev is j2len[j], j2len[j+1], ... *)
  Fixpoint flm_row (x : T) (bw : list T) (pm1 : nat) (prev : list nat) : list nat :=
    match bw with
    | [] => []
    | y :: bw' => (if eqb x y then S pm1 else 0) :: flm_row x bw' (hd 0 prev) (tl prev)
    end.

  (* the "if k > bestsize" updates of one row, j increasing (k = 0: no entry, never an update) *)
  Fixpoint flm_scan (i j : nat) (row : list nat) (best : mtch) : mtch :=
    match row with
    | [] => best
    | k :: row' =>
        flm_scan i (S j) row' (if mSize best <? k then (S i - k, S j - k, k) else best)
    end.

  Fixpoint flm_rows (aw : list T) (i : nat) (bw : list T) (prev : list nat) (best : mtch) : mtch :=
    match aw with
    | [] => best
    | x :: aw' =>
        let row := flm_row x bw 0 prev in
        flm_rows aw' (S i) bw row (flm_scan i 0 row best)
    end.

  (* for besti > alo && bestj > blo && cmp(a[besti-1], b[bestj-1]) { besti--, bestj--, bestsize++ }
     (window-relative: alo = blo = 0); structural on besti *)
  Fixpoint flm_back (aw bw : list T) (i j k : nat) : mtch :=
    match i, j with
    | S i', S j' => if eqat aw bw i' j' then flm_back aw bw i' j' (S k) else (i, j, k)
    | _, _ => (i, j, k)
    end.

  (* for besti+bestsize < ahi && bestj+bestsize < bhi && cmp(a[besti+bestsize], b[bestj+bestsize]) { bestsize++ }
     rem = ahi - (besti + bestsize) *)
  Fixpoint flm_fwd (aw bw : list T) (rem : nat) (i j k : nat) : nat :=
    match rem with
    | 0 => k
    | S rem' =>
        if (j + k <? List.length bw) && eqat aw bw (i + k) (j + k)
        then flm_fwd aw bw rem' i j (S k) else k
    end.

  Definition flm_win (aw bw : list T) : mtch :=
    let best := flm_rows aw 0 bw [] (0, 0, 0) in
    let '(i, j, k) := flm_back aw bw (mA best) (mB best) (mSize best) in
    (i, j, flm_fwd aw bw (List.length aw - (i + k)) i j k).

  Definition find_longest_match (a b : list T) (alo ahi blo bhi : nat) : mtch :=
    let m := flm_win (sub a alo (ahi - alo)) (sub b blo (bhi - blo)) in
    (alo + mA m, blo + mB m, mSize m).

  (* ---------- matchingBlocks ----------
     the recursive closure matchBlocks; `matched` is only ever appended to, so the
     model returns the blocks of a call instead of threading the accumulator.
     Non-structural recursion: explicit fuel, None on exhaustion. *)
  Fixpoint match_blocks (fuel : nat) (a b : list T) (alo ahi blo bhi : nat) : option (list mtch) :=
    match fuel with
    | 0 => None
    | S f =>
        let m := find_longest_match a b alo ahi blo bhi in
        let i := mA m in let j := mB m in let k := mSize m in
        if k =? 0 then Some [] else
          match (if (alo <? i) && (blo <? j) then match_blocks f a b alo i blo j else Some []) with
          | None => None
          | Some lft =>
              match (if (i + k <? ahi) && (j + k <? bhi) then match_blocks f a b (i + k) ahi (j + k) bhi else Some []) with
              | None => None
              | Some rgt => Some (lft ++ m :: rgt)
              end
          end
    end.

  (* the adjacent-block collapse; cur = (i1, j1, k1) *)
  Fixpoint collapse (l : list mtch) (cur : mtch) : list mtch :=
    let emit := if 0 <? mSize cur then [cur] else [] in
    match l with
    | [] => emit
    | m2 :: l' =>
        if (mA cur + mSize cur =? mA m2) && (mB cur + mSize cur =? mB m2)
        then collapse l' (mA cur, mB cur, mSize cur + mSize m2)
        else emit ++ collapse l' m2
    end.

  Definition mb_fuel (a b : list T) : nat := List.length a + List.length b + 1.

  Definition matching_blocks (a b : list T) : option (list mtch) :=
    match match_blocks (mb_fuel a b) a b 0 (List.length a) 0 (List.length b) with
    | None => None
    | Some matched => Some (collapse matched (0, 0, 0) ++ [(List.length a, List.length b, 0)])
    end.

  (* ---------- GetOpCodes ---------- *)
  Fixpoint opcodes_from (i j : nat) (ms : list mtch) : list opcode :=
    match ms with
    | [] => []
    | m :: ms' =>
        let ai := mA m in let bj := mB m in let size := mSize m in
        (if (i <? ai) && (j <? bj) then [mkOp TR i ai j bj]
         else if i <? ai then [mkOp TD i ai j bj]
         else if j <? bj then [mkOp TI i ai j bj]
         else [])
        ++ (if 0 <? size then [mkOp TE ai (ai + size) bj (bj + size)] else [])
        ++ opcodes_from (ai + size) (bj + size) ms'
    end.

  Definition get_opcodes (a b : list T) : option (list opcode) :=
    match matching_blocks a b with
    | None => None
    | Some ms => Some (opcodes_from 0 0 ms)
    end.

  (* ---------- GetGroupedOpCodes(n) ---------- *)
  Definition fix_first (n : nat) (codes : list opcode) : list opcode :=
    match codes with
    | mkOp TE i1 i2 j1 j2 :: r => mkOp TE (Nat.max i1 (i2 - n)) i2 (Nat.max j1 (j2 - n)) j2 :: r
    | _ => codes
    end.

  Fixpoint fix_last (n : nat) (codes : list opcode) : list opcode :=
    match codes with
    | [] => []
    | [c] =>
        match c with
        | mkOp TE i1 i2 j1 j2 => [mkOp TE i1 (Nat.min i2 (i1 + n)) j1 (Nat.min j2 (j1 + n))]
        | _ => [c]
        end
    | c :: r => c :: fix_last n r
    end.

  (* the for loop; `group` is the group being built *)
  Fixpoint group_loop (n : nat) (codes : list opcode) (group : list opcode) : list (list opcode) :=
    match codes with
    | [] =>
        match group with
        | [] => []
        | [mkOp TE _ _ _ _] => []
        | _ => [group]
        end
    | c :: rest =>
        let i1 := oI1 c in let i2 := oI2 c in let j1 := oJ1 c in let j2 := oJ2 c in
        if is_e (oTag c) && (n + n <? i2 - i1)
        then (group ++ [mkOp (oTag c) i1 (Nat.min i2 (i1 + n)) j1 (Nat.min j2 (j1 + n))])
             :: group_loop n rest [mkOp (oTag c) (Nat.max i1 (i2 - n)) i2 (Nat.max j1 (j2 - n)) j2]
        else group_loop n rest (group ++ [c])
    end.

  Definition group_codes (n : nat) (codes : list opcode) : list (list opcode) :=
    let codes := match codes with [] => [mkOp TE 0 1 0 1] | _ => codes end in
    group_loop n (fix_last n (fix_first n codes)) [].

  Definition grouped_opcodes (n : nat) (a b : list T) : option (list (list opcode)) :=
    match get_opcodes a b with
    | None => None
    | Some codes => Some (group_codes n codes)
    end.

  (* ---------- unified diff, structured ---------- *)
  (* formatRangeUnified(start, stop) as the pair (beginning, length) that is printed *)
  Definition format_range (start stop : nat) : nat * nat :=
    let len := stop - start in
    (if len =? 0 then start else start + 1, len).

  Record hunk := mkHunk { hA : nat * nat; hB : nat * nat; hBody : list (kind * T) }.

  Definition code_lines (a b : list T) (c : opcode) : list (kind * T) :=
    let la := sub a (oI1 c) (oI2 c - oI1 c) in
    let lb := sub b (oJ1 c) (oJ2 c - oJ1 c) in
    match oTag c with
    | TE => map (pair Ctx) la
    | TR => map (pair Del) la ++ map (pair Ins) lb
    | TD => map (pair Del) la
    | TI => map (pair Ins) lb
    end.

  Definition dummy_op := mkOp TE 0 0 0 0.

  Definition hunk_of_group (a b : list T) (g : list opcode) : hunk :=
    let first := hd dummy_op g in let lst := last g dummy_op in
    mkHunk (format_range (oI1 first) (oI2 lst)) (format_range (oJ1 first) (oJ2 lst))
           (flat_map (code_lines a b) g).

  Definition hunks (a b : list T) : option (list hunk) :=
    match grouped_opcodes 3 a b with
    | None => None
    | Some gs => Some (map (hunk_of_group a b) gs)
    end.

  (* ---------- specification-level predicates (independent of the matcher) ---------- *)

  (* 0-based index of the first line a printed range refers to *)
  Definition range_start (r : nat * nat) : nat := if snd r =? 0 then fst r else fst r - 1.

  Definition count_a (body : list (kind * T)) : nat :=
    List.length (filter (fun kl => match fst kl with Ins => false | _ => true end) body).
  Definition count_b (body : list (kind * T)) : nat :=
    List.length (filter (fun kl => match fst kl with Del => false | _ => true end) body).

  (* the patch applier: consumes the source lines, checks context and removed lines *)
  Fixpoint apply_body (body : list (kind * T)) (src : list T) : option (list T * list T) :=
    match body with
    | [] => Some ([], src)
    | (Ins, l) :: r =>
        match apply_body r src with Some (o, s) => Some (l :: o, s) | None => None end
    | (k, l) :: r =>
        match src with
        | x :: src' =>
            if eqb x l then
              match apply_body r src' with
              | Some (o, s) => Some (match k with Ctx => l :: o | _ => o end, s)
              | None => None
              end
            else None
        | [] => None
        end
    end.

  (* pos = number of source lines already consumed; src = the remaining source lines *)
  Fixpoint apply_hunks (hs : list hunk) (pos : nat) (src : list T) : option (list T) :=
    match hs with
    | [] => Some src
    | h :: hs' =>
        let start := range_start (hA h) in
        if start <? pos then None else
        let skip := start - pos in
        if List.length src <? skip then None else
        match apply_body (hBody h) (skipn skip src) with
        | None => None
        | Some (out, rest) =>
            match apply_hunks hs' (start + count_a (hBody h)) rest with
            | Some o => Some (firstn skip src ++ out ++ o)
            | None => None
            end
        end
    end.

  Definition apply_unified (hs : list hunk) (a : list T) : option (list T) := apply_hunks hs 0 a.

  (* header counts equal the body's (' '+'-') and (' '+'+') line counts; a printed range with a
     positive length starts at line >= 1; hunks are in order and the want-side start of each
     hunk is where the patched text has got to (offa/offb = first line not yet covered) *)
  Fixpoint headers_from (offa offb : nat) (hs : list hunk) : bool :=
    match hs with
    | [] => true
    | h :: hs' =>
        let sa := range_start (hA h) in let sb := range_start (hB h) in
        (snd (hA h) =? count_a (hBody h)) && (snd (hB h) =? count_b (hBody h))
        && ((snd (hA h) =? 0) || (1 <=? fst (hA h))) && ((snd (hB h) =? 0) || (1 <=? fst (hB h)))
        && (offa <=? sa) && (offb <=? sb) && (sa - offa =? sb - offb)
        && headers_from (sa + snd (hA h)) (sb + snd (hB h)) hs'
    end.
  Definition headers_ok (hs : list hunk) : bool := headers_from 0 0 hs.

  Fixpoint leading_ctx (body : list (kind * T)) : nat :=
    match body with
    | (Ctx, _) :: r => S (leading_ctx r)
    | _ => 0
    end.
  Definition trailing_ctx (body : list (kind * T)) : nat := leading_ctx (rev body).

  Definition context_ok (n : nat) (hs : list hunk) : bool :=
    forallb (fun h => (leading_ctx (hBody h) <=? n) && (trailing_ctx (hBody h) <=? n)) hs.

  (* a hunk changes something *)
  Definition has_change (h : hunk) : bool :=
    existsb (fun kl => match fst kl with Ctx => false | _ => true end) (hBody h).

  (* ---------- contracts of the inner functions as decidable predicates
     (evaluated by the driver on what the implementation's functions return) ---------- *)

  (* findLongestMatch: inside the window, equal slices ... *)
  Definition flm_okb (a b : list T) (alo ahi blo bhi : nat) (m : mtch) : bool :=
    (alo <=? mA m) && (mA m + mSize m <=? ahi) && (blo <=? mB m) && (mB m + mSize m <=? bhi)
    && list_eqb eqb (sub a (mA m) (mSize m)) (sub b (mB m) (mSize m)).

  Fixpoint common_len (x y : list T) : nat :=
    match x, y with
    | u :: x', v :: y' => if eqb u v then S (common_len x' y') else 0
    | _, _ => 0
    end.

  (* ... and no common run inside the window is longer *)
  Definition flm_maxb (a b : list T) (alo ahi blo bhi : nat) (m : mtch) : bool :=
    forallb (fun i =>
      forallb (fun j => common_len (sub a i (ahi - i)) (sub b j (bhi - j)) <=? mSize m)
              (seq blo (bhi - blo)))
            (seq alo (ahi - alo)).

  (* ... and of the longest runs it is the one that starts earliest in a, then earliest in b;
     (alo, blo, 0) when nothing matches *)
  Definition flm_firstb (a b : list T) (alo ahi blo bhi : nat) (m : mtch) : bool :=
    if mSize m =? 0 then (mA m =? alo) && (mB m =? blo) else
    forallb (fun i =>
      forallb (fun j => negb (mSize m <=? common_len (sub a i (ahi - i)) (sub b j (bhi - j)))
                        || (mA m <? i) || ((mA m =? i) && (mB m <=? j)))
              (seq blo (bhi - blo)))
            (seq alo (ahi - alo)).

  (* matchingBlocks (with the sentinel): non-empty equal slices in increasing order, then (|a|,|b|,0) *)
  Fixpoint blocks_okb (a b : list T) (alo blo : nat) (l : list mtch) : bool :=
    match l with
    | [] => false
    | [s] => (mA s =? List.length a) && (mB s =? List.length b) && (mSize s =? 0)
             && (alo <=? List.length a) && (blo <=? List.length b)
    | m :: l' =>
        (alo <=? mA m) && (blo <=? mB m) && (0 <? mSize m)
        && (mA m + mSize m <=? List.length a) && (mB m + mSize m <=? List.length b)
        && list_eqb eqb (sub a (mA m) (mSize m)) (sub b (mB m) (mSize m))
        && blocks_okb a b (mA m + mSize m) (mB m + mSize m) l'
    end.

  (* GetOpCodes: contiguous tiling of both texts; what each tag promises *)
  Definition op_okb (a b : list T) (c : opcode) : bool :=
    (oI1 c <=? oI2 c) && (oI2 c <=? List.length a) && (oJ1 c <=? oJ2 c) && (oJ2 c <=? List.length b)
    && match oTag c with
       | TE => (oI2 c - oI1 c =? oJ2 c - oJ1 c)
               && list_eqb eqb (sub a (oI1 c) (oI2 c - oI1 c)) (sub b (oJ1 c) (oJ2 c - oJ1 c))
       | TD => (oI1 c <? oI2 c) && (oJ1 c =? oJ2 c)
       | TI => (oI1 c =? oI2 c) && (oJ1 c <? oJ2 c)
       | TR => (oI1 c <? oI2 c) && (oJ1 c <? oJ2 c)
       end.

  Fixpoint tiles_okb (a b : list T) (i j : nat) (cs : list opcode) (I J : nat) : bool :=
    match cs with
    | [] => (i =? I) && (j =? J)
    | c :: r => (oI1 c =? i) && (oJ1 c =? j) && op_okb a b c && tiles_okb a b (oI2 c) (oJ2 c) r I J
    end.
End Seq.

Arguments sub {T}.
Arguments eqat {T}.
Arguments mkHunk {T}.
Arguments hA {T}.
Arguments hB {T}.
Arguments hBody {T}.
Arguments apply_unified {T}.
Arguments apply_hunks {T}.
Arguments apply_body {T}.
Arguments headers_ok {T}.
Arguments headers_from {T}.
Arguments context_ok {T}.
Arguments leading_ctx {T}.
Arguments trailing_ctx {T}.
Arguments count_a {T}.
Arguments count_b {T}.
Arguments has_change {T}.
Arguments hunks {T}.
Arguments find_longest_match {T}.
Arguments matching_blocks {T}.
Arguments match_blocks {T}.
Arguments get_opcodes {T}.
Arguments grouped_opcodes {T}.
Arguments hunk_of_group {T}.
Arguments code_lines {T}.
Arguments flm_okb {T}.
Arguments flm_maxb {T}.
Arguments flm_firstb {T}.
Arguments common_len {T}.
Arguments blocks_okb {T}.
Arguments op_okb {T}.
Arguments tiles_okb {T}.

(* ------------------------------------------------------------------ text *)
Local Open Scope string_scope.
Local Open Scope nat_scope.

Definition nl : ascii := "010"%char.
Definition nls : string := String nl "".

(* strings.SplitAfter(s, "\n") *)
Fixpoint split_after_nl (s : string) : list string :=
  match s with
  | "" => [""]
  | String c s' =>
      match split_after_nl s' with
      | [] => [String c ""]                      (* unreachable *)
      | l :: ls => if Ascii.eqb c nl then String c "" :: l :: ls else String c l :: ls
      end
  end.

Fixpoint append_to_last (ls : list string) (x : string) : list string :=
  match ls with
  | [] => []
  | [l] => [l ++ x]
  | l :: r => l :: append_to_last r x
  end.

(* splitLines: SplitAfter, then lines[len-1] += "\n" *)
Definition split_lines (s : string) : list string := append_to_last (split_after_nl s) nls.

(* the ASCII part of unicode.IsSpace: '\t' '\n' '\v' '\f' '\r' ' ' *)
Definition is_space (c : ascii) : bool :=
  let n := nat_of_ascii c in ((9 <=? n) && (n <=? 13)) || (n =? 32).

Fixpoint trim_left (s : string) : string :=
  match s with
  | String c s' => if is_space c then trim_left s' else s
  | "" => ""
  end.
Fixpoint trim_right (s : string) : string :=
  match s with
  | "" => ""
  | String c s' =>
      match trim_right s' with
      | "" => if is_space c then "" else String c ""
      | t => String c t
      end
  end.
Definition trim_space (s : string) : string := trim_right (trim_left s).

Definition dec (n : nat) : string := NilEmpty.string_of_uint (Nat.to_uint n).

(* what fmt prints for formatRangeUnified *)
Definition render_range (r : nat * nat) : string :=
  if snd r =? 1 then dec (fst r) else dec (fst r) ++ "," ++ dec (snd r).

Definition kind_prefix (k : kind) : string :=
  match k with Ctx => "      " | Del => "-have " | Ins => "+want " end.

Definition render_hunk (h : hunk string) : string :=
  "@@ -" ++ render_range (hA h) ++ " +" ++ render_range (hB h) ++ " @@" ++ nls
  ++ String.concat "" (map (fun kl => kind_prefix (fst kl) ++ snd kl) (hBody h)).

Definition file_header : string := "--- have" ++ nls ++ "+++ want" ++ nls.

(* makeUnifiedDiff *)
Definition render_unified (hs : list (hunk string)) : string :=
  match hs with
  | [] => ""
  | _ => file_header ++ String.concat "" (map render_hunk hs)
  end.

Definition diff_lines (a b : list string) : option string :=
  match hunks String.eqb a b with
  | None => None
  | Some hs => Some (render_unified hs)
  end.

(* Diff(have, want) with no options; None = the model ran out of fuel (proved impossible) *)
Definition diff (have want : string) : option string :=
  match diff_lines (split_lines (trim_space have)) (split_lines (trim_space want)) with
  | None => None
  | Some "" => Some ""
  | Some d => Some (nls ++ d)
  end.

(* ------------------------------------------------------------------ reading a unified diff back
   (specification side: used to evaluate the predicates on the implementation's own output) *)

Fixpoint strip_prefix (p s : string) : option string :=
  match p, s with
  | "", _ => Some s
  | String c p', String d s' => if Ascii.eqb c d then strip_prefix p' s' else None
  | _, "" => None
  end.

Fixpoint split_on (c : ascii) (s : string) : list string :=   (* strings.Split on one character *)
  match s with
  | "" => [""]
  | String d s' =>
      match split_on c s' with
      | [] => [""]
      | l :: ls => if Ascii.eqb d c then "" :: l :: ls else String d l :: ls
      end
  end.

Definition parse_nat (s : string) : option nat :=
  match s with
  | "" => None
  | _ => match NilEmpty.uint_of_string s with Some u => Some (Nat.of_uint u) | None => None end
  end.

(* "12" -> (12, 1);  "12,3" -> (12, 3) *)
Definition parse_range (s : string) : option (nat * nat) :=
  match split_on ","%char s with
  | [x] => match parse_nat x with Some n => Some (n, 1) | None => None end
  | [x; y] => match parse_nat x, parse_nat y with Some n, Some m => Some (n, m) | _, _ => None end
  | _ => None
  end.

(* "@@ -R +R @@\n" *)
Definition parse_header (l : string) : option ((nat * nat) * (nat * nat)) :=
  match split_on " "%char l with
  | [a; ra; rb; e] =>
      if String.eqb a "@@" && String.eqb e ("@@" ++ nls) then
        match strip_prefix "-" ra, strip_prefix "+" rb with
        | Some ra', Some rb' =>
            match parse_range ra', parse_range rb' with
            | Some x, Some y => Some (x, y)
            | _, _ => None
            end
        | _, _ => None
        end
      else None
  | _ => None
  end.

Definition parse_body_line (l : string) : option (kind * string) :=
  match strip_prefix (kind_prefix Ctx) l with
  | Some r => Some (Ctx, r)
  | None =>
      match strip_prefix (kind_prefix Del) l with
      | Some r => Some (Del, r)
      | None =>
          match strip_prefix (kind_prefix Ins) l with
          | Some r => Some (Ins, r)
          | None => None
          end
      end
  end.

(* lines of the output after the two file-header lines; cur = the hunk being read (body reversed) *)
Fixpoint parse_hunks (ls : list string) (cur : option (hunk string)) (acc : list (hunk string))
  : option (list (hunk string)) :=
  let close := match cur with
               | Some h => (acc ++ [mkHunk (hA h) (hB h) (rev (hBody h))])%list
               | None => acc
               end in
  match ls with
  | [] => Some close
  | l :: ls' =>
      match parse_header l with
      | Some (ra, rb) => parse_hunks ls' (Some (mkHunk ra rb [])) close
      | None =>
          match cur, parse_body_line l with
          | Some h, Some kl => parse_hunks ls' (Some (mkHunk (hA h) (hB h) (kl :: hBody h))) acc
          | _, _ => None
          end
      end
  end.

Fixpoint drop_last {X} (l : list X) : list X :=
  match l with [] => [] | [_] => [] | x :: r => x :: drop_last r end.

(* the text of a non-empty Diff result -> hunks; every line must end in "\n" *)
Definition parse_unified (out : string) : option (list (hunk string)) :=
  match strip_prefix (nls ++ file_header) out with
  | None => None
  | Some rest =>
      let pieces := split_after_nl rest in
      match last pieces "x" with
      | "" => match parse_hunks (drop_last pieces) None [] with
              | Some [] => None
              | r => r
              end
      | _ => None
      end
  end.

(* ---------- the clauses of C20 as decidable predicates on (have, want, output of Diff) ---------- *)
Definition lines_of (s : string) : list string := split_lines (trim_space s).

Definition spec_empty_iff (have want out : string) : bool :=
  Bool.eqb (String.eqb out "") (String.eqb (trim_space have) (trim_space want)).

Definition spec_patch (have want : string) (hs : list (hunk string)) : bool :=
  match apply_unified String.eqb hs (lines_of have) with
  | Some r => list_eqb String.eqb r (lines_of want)
  | None => false
  end.
(* the same on line lists (makeUnifiedDiff called directly) *)
Definition spec_patch_lines (a b : list string) (hs : list (hunk string)) : bool :=
  match apply_unified String.eqb hs a with
  | Some r => list_eqb String.eqb r b
  | None => false
  end.
Definition spec_empty_iff_lines (a b : list string) (out : string) : bool :=
  Bool.eqb (String.eqb out "") (list_eqb String.eqb a b).
Definition spec_headers (hs : list (hunk string)) : bool := headers_ok hs.
Definition spec_context (hs : list (hunk string)) : bool := context_ok 3 hs.
Definition spec_changes (hs : list (hunk string)) : bool := forallb has_change hs.
