(* Match.v — the documented placeholder language of ztest.DiffMatch:
   literal text, %(ANY), %(ANY n), %(ANY n,), %(ANY n,m), %(NUMBER), %(NUMBER n...), %(UUID).
   An expectation is a list of items; [Matches] is the semantics (the whole text must be
   consumed: DiffMatch anchors the expression with ^...$), [matchb] the boolean matcher,
   [render_items] the text of the expectation as it is passed to DiffMatch.
   Outside the model: regexp itself, the free-form %(..) escape, the date placeholders
   (%(YEAR) %(MONTH) %(DAY) are replaced by literal text before matching), non-ASCII text
   (the real `.` counts runes).  Definitions only; proofs are in DiffProofs.v.  Stdlib only. *)
From Coq Require Import List Arith Bool String Ascii.
From Fsn Require Import Diff.
Import ListNotations.
Local Open Scope string_scope.
Local Open Scope nat_scope.

Inductive bound :=
| BPlus                        (* no argument:  +?      one or more *)
| BExact (n : nat)             (* "n"           {n}?   *)
| BAtLeast (n : nat)           (* "n,"          {n,}?  *)
| BBetween (n m : nat).        (* "n,m"         {n,m}? *)

Inductive item :=
| Lit (s : string)
| Any (b : bound)              (* .   : every character but "\n" *)
| Number (b : bound)           (* \d  : 0-9 *)
| Uuid.                        (* [[:xdigit:]]{8}-[[:xdigit:]]{4}-[[:xdigit:]]{4}-[[:xdigit:]]{4}-[[:xdigit:]]{12} *)

Definition in_bound (b : bound) (n : nat) : bool :=
  match b with
  | BPlus => 1 <=? n
  | BExact k => n =? k
  | BAtLeast k => k <=? n
  | BBetween k m => (k <=? n) && (n <=? m)
  end.

Definition is_any (c : ascii) : bool := negb (Ascii.eqb c nl).
Definition is_digit (c : ascii) : bool := let n := nat_of_ascii c in (48 <=? n) && (n <=? 57).
Definition is_xdigit (c : ascii) : bool :=
  let n := nat_of_ascii c in
  is_digit c || ((65 <=? n) && (n <=? 70)) || ((97 <=? n) && (n <=? 102)).
Definition is_dash (c : ascii) : bool := Ascii.eqb c "-"%char.

Fixpoint all_chars (p : ascii -> bool) (s : string) : bool :=
  match s with "" => true | String c s' => p c && all_chars p s' end.

(* a fixed-length shape: one character class per position *)
Fixpoint shape_ok (shape : list (ascii -> bool)) (s : string) : bool :=
  match shape, s with
  | [], "" => true
  | p :: shape', String c s' => p c && shape_ok shape' s'
  | _, _ => false
  end.

Definition uuid_shape : list (ascii -> bool) :=
  repeat is_xdigit 8 ++ [is_dash] ++ repeat is_xdigit 4 ++ [is_dash] ++ repeat is_xdigit 4
  ++ [is_dash] ++ repeat is_xdigit 4 ++ [is_dash] ++ repeat is_xdigit 12.

(* ---------- semantics ---------- *)
Inductive Matches : list item -> string -> Prop :=
| M_nil : Matches [] ""
| M_lit l r s : Matches r s -> Matches (Lit l :: r) (l ++ s)
| M_any b t r s :
    in_bound b (String.length t) = true -> all_chars is_any t = true ->
    Matches r s -> Matches (Any b :: r) (t ++ s)
| M_number b t r s :
    in_bound b (String.length t) = true -> all_chars is_digit t = true ->
    Matches r s -> Matches (Number b :: r) (t ++ s)
| M_uuid t r s :
    shape_ok uuid_shape t = true -> Matches r s -> Matches (Uuid :: r) (t ++ s).

(* ---------- matcher ---------- *)
(* some split s = t ++ s' with n + |t| within the bound, every character of t in class p, and k s' *)
Fixpoint rep_match (p : ascii -> bool) (k : string -> bool) (b : bound) (n : nat) (s : string) : bool :=
  (in_bound b n && k s)
  || match s with
     | "" => false
     | String c s' => p c && rep_match p k b (S n) s'
     end.

(* the shape is a prefix of s; continue with the rest *)
Fixpoint shape_match (shape : list (ascii -> bool)) (k : string -> bool) (s : string) : bool :=
  match shape with
  | [] => k s
  | p :: shape' =>
      match s with
      | "" => false
      | String c s' => p c && shape_match shape' k s'
      end
  end.

Fixpoint matchb (items : list item) (s : string) : bool :=
  match items with
  | [] => match s with "" => true | _ => false end
  | Lit l :: r => match strip_prefix l s with Some s' => matchb r s' | None => false end
  | Any b :: r => rep_match is_any (matchb r) b 0 s
  | Number b :: r => rep_match is_digit (matchb r) b 0 s
  | Uuid :: r => shape_match uuid_shape (matchb r) s
  end.

(* ---------- the expectation text ---------- *)
Definition render_bound (b : bound) : string :=
  match b with
  | BPlus => ""
  | BExact n => " " ++ dec n
  | BAtLeast n => " " ++ dec n ++ ","
  | BBetween n m => " " ++ dec n ++ "," ++ dec m
  end.

Definition render_item (i : item) : string :=
  match i with
  | Lit s => s
  | Any b => "%(ANY" ++ render_bound b ++ ")"
  | Number b => "%(NUMBER" ++ render_bound b ++ ")"
  | Uuid => "%(UUID)"
  end.

Definition render_items (l : list item) : string := String.concat "" (map render_item l).

(* DiffMatch(have, want) = "" for want = render_items items, as the model sees it *)
Definition diffmatch_empty (have : string) (items : list item) : bool := matchb items have.
