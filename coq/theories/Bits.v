(* Bits.v — bit-level lemmas on N used by the flag-table theorems.
   Stdlib only.  No axioms. *)
From Coq Require Import NArith List Bool Lia.
Import ListNotations.
Local Open Scope N_scope.

(* [sub a b]: every bit of a is a bit of b. *)
Definition subN (a b : N) : bool := N.land a b =? a.

Lemma subN_spec a b : subN a b = true <-> N.land a b = a.
Proof. unfold subN. apply N.eqb_eq. Qed.

Lemma land_lor_absorb_l a b : N.land (N.lor a b) a = a.
Proof.
  apply N.bits_inj; intro i.
  rewrite N.land_spec, N.lor_spec. destruct (N.testbit a i), (N.testbit b i); reflexivity.
Qed.

Lemma land_lor_absorb_r a b : N.land (N.lor a b) b = b.
Proof. rewrite N.lor_comm. apply land_lor_absorb_l. Qed.

(* If k is within s then masking with s first does not change (m & k). *)
Lemma land_restrict m s k : N.land s k = k -> N.land (N.land m s) k = N.land m k.
Proof. intro H. rewrite <- N.land_assoc, H. reflexivity. Qed.

Lemma land_sub_trans s t k : N.land s k = k -> N.land t s = s -> N.land t k = k.
Proof.
  intros H1 H2. rewrite <- H1. rewrite N.land_assoc, H2. reflexivity.
Qed.

(* ---- enumeration of all sub-masks of a mask ---- *)

Fixpoint submasks_pos (p : positive) : list N :=
  match p with
  | xH => [0; 1]
  | xO q => map N.double (submasks_pos q)
  | xI q => map N.double (submasks_pos q) ++ map N.succ_double (submasks_pos q)
  end.

Definition submasks (s : N) : list N :=
  match s with N0 => [0] | Npos p => submasks_pos p end.

Lemma land_pos_cases m p :
  N.land m (Npos p) =
  match m with N0 => 0 | Npos q => Pos.land q p end.
Proof. destruct m; reflexivity. Qed.

Lemma Nsucc_double_Pos q : Pos.Nsucc_double q = N.succ_double q.
Proof. destruct q; reflexivity. Qed.
Lemma Ndouble_Pos q : Pos.Ndouble q = N.double q.
Proof. destruct q; reflexivity. Qed.

Lemma submasks_pos_complete p : forall m, In (N.land m (Npos p)) (submasks_pos p).
Proof.
  induction p as [p IH|p IH|]; intro m; rewrite land_pos_cases; destruct m as [|q].
  - (* xI, m = 0 *) cbn. apply in_or_app. left.
    change 0 with (N.double 0). apply in_map. specialize (IH 0). rewrite N.land_0_l in IH. exact IH.
  - destruct q as [q|q|]; cbn [Pos.land].
    + rewrite Nsucc_double_Pos. apply in_or_app. right. apply in_map.
      specialize (IH (Npos q)). exact IH.
    + rewrite Ndouble_Pos. apply in_or_app. left. apply in_map.
      specialize (IH (Npos q)). exact IH.
    + cbn. apply in_or_app. right.
      change 1 with (N.succ_double 0). apply in_map. specialize (IH 0). rewrite N.land_0_l in IH. exact IH.
  - cbn. change 0 with (N.double 0). apply in_map. specialize (IH 0). rewrite N.land_0_l in IH. exact IH.
  - destruct q as [q|q|]; cbn [Pos.land].
    + rewrite Ndouble_Pos. cbn [submasks_pos]. apply in_map. exact (IH (Npos q)).
    + rewrite Ndouble_Pos. cbn [submasks_pos]. apply in_map. exact (IH (Npos q)).
    + cbn [submasks_pos]. change 0 with (N.double 0). apply in_map.
      specialize (IH 0). rewrite N.land_0_l in IH. exact IH.
  - cbn. auto.
  - destruct q; cbn; auto.
Qed.

Lemma submasks_complete s m : In (N.land m s) (submasks s).
Proof.
  destruct s as [|p].
  - rewrite N.land_0_r. cbn. auto.
  - apply submasks_pos_complete.
Qed.

(* Lifting a finite sweep over the sub-masks of [s] to all of N, for any two
   functions that only look at the bits of [s]. *)
Theorem sweep_lift (A : Type) (f g : N -> A) (eqb : A -> A -> bool)
  (eqb_ok : forall x y, eqb x y = true -> x = y) (s : N) :
  (forall m, f m = f (N.land m s)) ->
  (forall m, g m = g (N.land m s)) ->
  forallb (fun m => eqb (f m) (g m)) (submasks s) = true ->
  forall m, f m = g m.
Proof.
  intros Hf Hg Hall m. rewrite Hf, Hg.
  rewrite forallb_forall in Hall. apply eqb_ok, Hall, submasks_complete.
Qed.

(* Single-bit masks *)
Definition single_bit (k : N) : bool :=
  match k with Npos p => (fix pw (p : positive) := match p with xH => true | xO q => pw q | xI _ => false end) p | N0 => false end.

Lemma single_bit_pow2 k : single_bit k = true -> exists i, k = 2 ^ i.
Proof.
  destruct k as [|p]; [discriminate|]. cbn.
  induction p as [p IH|p IH|]; intro H; try discriminate.
  - destruct (IH H) as [i Hi]. exists (N.succ i).
    rewrite N.pow_succ_r'. rewrite <- Hi. reflexivity.
  - exists 0. reflexivity.
Qed.

(* a single bit is inside (a | b) iff it is inside a or inside b *)
Lemma single_bit_sub_lor k a b : single_bit k = true ->
  subN k (N.lor a b) = subN k a || subN k b.
Proof.
  intro H. destruct (single_bit_pow2 _ H) as [i ->].
  unfold subN.
  assert (E : forall x, (N.land (2^i) x =? 2^i) = N.testbit x i).
  { intro x. destruct (N.testbit x i) eqn:T.
    - apply N.eqb_eq. apply N.bits_inj; intro j. rewrite N.land_spec.
      destruct (N.eq_dec j i) as [->|Hne].
      + rewrite N.pow2_bits_true, T. reflexivity.
      + rewrite N.pow2_bits_false by congruence. reflexivity.
    - apply N.eqb_neq. intro E.
      assert (N.testbit (N.land (2^i) x) i = N.testbit (2^i) i) by (rewrite E; reflexivity).
      rewrite N.land_spec, N.pow2_bits_true, T in H0. discriminate. }
  rewrite !E. apply N.lor_spec.
Qed.
