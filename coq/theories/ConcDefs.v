(* ConcDefs.v — vocabulary for the theorems about the goroutine-level model (Conc.v). *)
From stdpp Require Import gmap list.
From Fsn Require Import Conc.
Local Open Scope nat_scope.

Section Defs.
  Context {E X D C R I K : Type}.
  Variable api : D → C → D * R.
  Variable closed_result : C → R.
  Variable pre : I → list (@msg E X).
  Variable hnd : D → I → D * list (@msg E X).
  Variable env : D → K → option D.
  Notation cstate := (@cstate E X D C R I K).
  Notation rpc := (@rpc E X I).
  Notation cpc := (@cpc C R).
  Notation label := (@label C R I K).
  Notation linent := (@linent E X C R I K).
  Notation msg := (@msg E X).

  Definition reader_in_cs (p : rpc) : bool := match p with RInCs _ _ | RCsSend _ _ _ => true | _ => false end.
  Definition thread_in_cs (p : cpc) : bool := match p with CInCs _ | KInCs => true | _ => false end.
  Definition reader_exiting (p : rpc) : bool := match p with RExit1 | RExit2 | RExit3 | RDead => true | _ => false end.
  Definition thread_finished (p : cpc) : bool := match p with CDone _ | KDone => true | _ => false end.

  (* the protocol invariant *)
  Record CInv (cap : nat) (s : cstate) : Prop := mkCInv {
    ci_reader_mu : mu s = Some reader_tid ↔ reader_in_cs (rd s) = true;
    ci_thread_mu : ∀ t, t ≠ reader_tid → (mu s = Some t ↔ ∃ p, thr s !! t = Some p ∧ thread_in_cs p = true);
    ci_no_reader_thread : thr s !! reader_tid = None;
    ci_no_panic : panicked s = false;
    ci_ev_closed : ev_closed s = true → rd s = RDead;
    ci_er_closed : er_closed s = true → rd s = RExit3 ∨ rd s = RDead;
    ci_resp_closed : resp_closed s = true → rd s = RExit2 ∨ rd s = RExit3 ∨ rd s = RDead;
    ci_exit_resp : (rd s = RExit2 ∨ rd s = RExit3 ∨ rd s = RDead) → resp_closed s = true;
    ci_exit_done : reader_exiting (rd s) = true → done_closed s = true;
    ci_file_done : file_closed s = true → done_closed s = true;
    ci_buf_cap : length (ev_buf s) ≤ cap;
    ci_closer_done : ∀ t p, thr s !! t = Some p → (p = KCloseFile ∨ p = KWaitResp ∨ p = KDone) → done_closed s = true;
    ci_waitresp_file : ∀ t, thr s !! t = Some KWaitResp → file_closed s = true;
  }.

  (* ghost: every item the kernel handed to the reader, in order *)
  Fixpoint delivered (ls : list label) : list I :=
    match ls with
    | [] => []
    | LKernel b :: ls' => b ++ delivered ls'
    | _ :: ls' => delivered ls'
    end.

  (* the items of the reader's current batch it has not begun to process *)
  Definition unstarted (p : rpc) : list I :=
    match p with
    | RBatch items => items
    | RPre _ _ rest | RWantLock _ rest | RInCs _ rest | RCsSend _ _ rest | RPost _ rest => rest
    | _ => []
    end.

  (* the item the reader has begun to process but not yet handled (its critical section has not run) *)
  Definition cur_items (p : rpc) : list I :=
    match p with RPre _ it _ | RWantLock it _ | RInCs it _ => [it] | _ => [] end.

  (* the items the reader holds: handed over by the kernel, critical section not yet run *)
  Definition held (p : rpc) : list I := cur_items p ++ unstarted p.

  (* the messages the reader is still to send for the work whose messages are already determined: the rest of [pre] of
     the item it has begun, or the rest of the [post] its critical section computed *)
  Definition pending_msgs (p : rpc) : list msg :=
    match p with
    | RPre ms _ _ => ms
    | RCsSend ms after _ => ms ++ after
    | RPost ms _ => ms
    | _ => []
    end.

  (* the items whose critical section has run, in that order, and the messages those items stand for: [pre i] followed
     by the [post] computed by [hnd] at the moment of the critical section (recorded in lin) *)
  Fixpoint handled_items (l : list linent) : list I :=
    match l with
    | [] => []
    | LinHandle i _ :: l' => i :: handled_items l'
    | _ :: l' => handled_items l'
    end.
  Fixpoint lin_msgs (l : list linent) : list msg :=
    match l with
    | [] => []
    | LinHandle i post :: l' => pre i ++ post ++ lin_msgs l'
    | _ :: l' => lin_msgs l'
    end.

  (* THE STREAM: everything the reader is committed to send, in order — pre and post of the handled items, then pre of
     the item(s) begun but not handled (at most one, see started_shape) *)
  Definition stream (s : cstate) : list msg :=
    lin_msgs (lin s) ++ concat (map pre (drop (length (handled_items (lin s))) (started s))).

  Definition only_threads (ls : list label) : Prop := Forall (λ l, match l with LThr _ => True | _ => False end) ls.
  Definition no_consumer (ls : list label) : Prop :=
    Forall (λ l, match l with LConsumeEv | LConsumeEr => False | _ => True end) ls.

  (* sequential replay of everything that touched the data, in linearisation order: API calls, the reader's critical
     sections, environment steps (which must be allowed where they are replayed) *)
  Fixpoint seq_run (d : D) (l : list linent) : option D :=
    match l with
    | [] => Some d
    | LinCall c _ :: l' => seq_run (api d c).1 l'
    | LinHandle i _ :: l' => seq_run (hnd d i).1 l'
    | LinEnv k :: l' => match env d k with Some d' => seq_run d' l' | None => None end
    end.
  (* … and every recorded result / message list is what the sequential semantics returns at that point *)
  Definition entry_ok (d1 : D) (e : linent) : Prop :=
    match e with
    | LinCall c r => (api d1 c).2 = r
    | LinHandle i post => (hnd d1 i).2 = post
    | LinEnv k => is_Some (env d1 k)
    end.
  Definition seq_results_ok (d : D) (l : list linent) : Prop :=
    ∀ l1 e l2, l = l1 ++ e :: l2 → ∃ d1, seq_run d l1 = Some d1 ∧ entry_ok d1 e.
End Defs.
