(* ConcDefs.v — vocabulary for the theorems about the goroutine-level model (Conc.v). *)
From stdpp Require Import gmap list.
From Fsn Require Import Conc.
Local Open Scope nat_scope.

Section Defs.
  Context {E X D C R : Type}.
  Variable api : D → C → D * R.
  Variable closed_result : C → R.
  Notation cstate := (@cstate E X D C R).
  Notation rpc := (@rpc E X).
  Notation cpc := (@cpc C R).
  Notation label := (@label E X C R).

  Definition reader_in_cs (p : rpc) : bool := match p with RInCs _ _ | RCsSend _ _ _ => true | _ => false end.
  Definition thread_in_cs (p : cpc) : bool := match p with CInCs _ | KInCs => true | _ => false end.
  Definition reader_exiting (p : rpc) : bool := match p with RExit1 | RExit2 | RExit3 | RDead => true | _ => false end.
  Definition thread_finished (p : cpc) : bool := match p with CDone _ | KDone => true | _ => false end.

  (* the protocol invariant *)
  Record CInv (cap : nat) (s : cstate) : Prop := mkCInv {
    ci_reader_mu : mu s = Some reader_tid ↔ reader_in_cs (rd s) = true;
    ci_thread_mu : ∀ t, t ≠ reader_tid → (mu s = Some t ↔ ∃ p, thr s !! t = Some p ∧ thread_in_cs p = true);
    ci_no_reader_thread : thr s !! reader_tid = None;
    ci_no_panic : panicked s = false;
    ci_ev_closed : ev_closed s = true → rd s = RDead;
    ci_er_closed : er_closed s = true → rd s = RExit3 ∨ rd s = RDead;
    ci_resp_closed : resp_closed s = true → rd s = RExit2 ∨ rd s = RExit3 ∨ rd s = RDead;
    ci_exit_resp : (rd s = RExit2 ∨ rd s = RExit3 ∨ rd s = RDead) → resp_closed s = true;
    ci_exit_done : reader_exiting (rd s) = true → done_closed s = true;
    ci_file_done : file_closed s = true → done_closed s = true;
    ci_buf_cap : length (ev_buf s) ≤ cap;
    ci_closer_done : ∀ t p, thr s !! t = Some p → (p = KCloseFile ∨ p = KWaitResp ∨ p = KDone) → done_closed s = true;
    ci_waitresp_file : ∀ t, thr s !! t = Some KWaitResp → file_closed s = true;
  }.

  (* ghost: everything the kernel handed to the reader, in order, as the messages it stands for *)
  Fixpoint delivered (ls : list label) : list (@msg E X) :=
    match ls with
    | [] => []
    | LKernel b :: ls' => concat (map item_msgs b) ++ delivered ls'
    | _ :: ls' => delivered ls'
    end.

  (* what the reader has taken from its current item list but not yet sent *)
  Definition pending_msgs (p : rpc) : list (@msg E X) :=
    match p with
    | RBatch items => concat (map item_msgs items)
    | RPre ms it rest => ms ++ it_post it ++ concat (map item_msgs rest)
    | RWantLock it rest | RInCs it rest => it_post it ++ concat (map item_msgs rest)
    | RCsSend ms after rest => ms ++ after ++ concat (map item_msgs rest)
    | RPost ms rest => ms ++ concat (map item_msgs rest)
    | _ => []
    end.

  Definition only_threads (ls : list label) : Prop := Forall (λ l, match l with LThr _ => True | _ => False end) ls.
  Definition no_consumer (ls : list label) : Prop :=
    Forall (λ l, match l with LConsumeEv | LConsumeEr => False | _ => True end) ls.

  (* sequential replay of the API calls in linearisation order *)
  Fixpoint seq_run (d : D) (cs : list (C * R)) : option D :=
    match cs with
    | [] => Some d
    | (c, r) :: cs' => let '(d', _) := api d c in seq_run d' cs'
    end.
  Definition seq_results_ok (d : D) (cs : list (C * R)) : Prop :=
    ∀ pre c r post, cs = pre ++ (c, r) :: post → ∃ d1, seq_run d pre = Some d1 ∧ (api d1 c).2 = r.
End Defs.
