(* Refine.v — the two-table implementation model (Watcher.v/System.v) refines the one-map specification (Spec.v),
   for non-recursive watches: every step produces the same API result, the same outputs and the same kernel calls,
   and the tables stay the index of the abstract map. *)
From stdpp Require Import gmap strings list.
From Fsn Require Import PathLex Bytes Tables Doc Watcher System Spec.
From Fsn Require PathLexProofs.
Local Open Scope N_scope.

Definition to_aw (x : watch) : aw := mkAw (w_path x) (w_flags x).

(* tables <-> abstract map *)
Record TRel (twd : gmap N watch) (tpath : gmap string N) (A : gmap N aw) : Prop := mkTRel {
  tr_A : A = to_aw <$> twd;
  tr_wd : ∀ wd x, twd !! wd = Some x → w_wd x = wd ∧ w_rec x = false ∧ tpath !! w_path x = Some wd;
  tr_path : ∀ p wd, tpath !! p = Some wd → ∃ x, twd !! wd = Some x ∧ w_path x = p;
  tr_clean : ∀ wd x, twd !! wd = Some x → clean (w_path x) = w_path x;
  tr_nz : twd !! 0 = None;
}.

(* watch descriptors are positive *)
Definition Kpos (k : kernel) : Prop := 0 < next_wd k ∧ ∀ wd, is_Some (marks k !! wd) → 0 < wd.

Lemma head_filter_unique {X} (P : X → Prop) `{∀ x, Decision (P x)} (l : list X) (e : X) :
  (∀ a b, a ∈ l → b ∈ l → P a → P b → a = b) → e ∈ l → P e → head (filter P l) = Some e.
Proof.
  induction l as [|a l IH]; intros Hu He HP; [by apply elem_of_nil in He|].
  rewrite filter_cons. destruct (decide (P a)) as [Ha|Ha].
  - simpl. f_equal. apply Hu; [left|exact He|exact Ha|exact HP].
  - apply IH; [|set_solver|exact HP].
    intros; apply Hu; [by right|by right|done|done].
Qed.

Lemma head_filter_none {X} (P : X → Prop) `{∀ x, Decision (P x)} (l : list X) :
  (∀ a, a ∈ l → ¬ P a) → head (filter P l) = None.
Proof.
  induction l as [|a l IH]; intros Hn; [done|].
  rewrite filter_cons. destruct (decide (P a)) as [Ha|Ha]; [exfalso; apply (Hn a); [left|done]|].
  apply IH. intros; apply Hn; by right.
Qed.

  Lemma find_path_tables twd tpath A p : TRel twd tpath A → find_path A p = tpath !! p.
  Proof.
    intros [HA Hwd Hpath _ _]. unfold find_path.
    destruct (tpath !! p) as [wd|] eqn:E.
    - destruct (Hpath _ _ E) as (x & Hx & Hp).
      rewrite (head_filter_unique _ _ (wd, to_aw x)); [done| | |].
      + intros [w1 a1] [w2 a2] H1 H2 P1 P2. apply elem_of_map_to_list in H1, H2.
        rewrite HA in H1, H2. rewrite lookup_fmap in H1, H2.
        destruct (twd !! w1) as [x1|] eqn:E1; [|done]. destruct (twd !! w2) as [x2|] eqn:E2; [|done].
        simpl in *. inversion H1; inversion H2; subst. apply bool_decide_unpack in P1, P2. simpl in *.
        destruct (Hwd _ _ E1) as (_ & _ & T1). destruct (Hwd _ _ E2) as (_ & _ & T2).
        rewrite P1 in T1. rewrite P2 in T2. rewrite T1 in T2. inversion T2; subst. rewrite E1 in E2. by inversion E2.
      + apply elem_of_map_to_list. rewrite HA, lookup_fmap, Hx. done.
      + apply bool_decide_pack. simpl. done.
    - rewrite head_filter_none; [done|].
      intros [w a] Hin P. apply elem_of_map_to_list in Hin. rewrite HA, lookup_fmap in Hin.
      destruct (twd !! w) as [x|] eqn:Ex; [|done]. simpl in Hin. inversion Hin; subst.
      apply bool_decide_unpack in P. simpl in P. destruct (Hwd _ _ Ex) as (_ & _ & T). rewrite P in T. congruence.
  Qed.

(* ------------------------------------------------------------------ kernel positivity *)
Lemma find_mark_Some k ino wd : find_mark k ino = Some wd → marks k !! wd = Some ino.
Proof.
  unfold find_mark. destruct (head _) as [[w i]|] eqn:E; [|done]. simpl. intros [= <-].
  apply head_Some_elem_of in E. apply elem_of_list_filter in E as [P E].
  apply bool_decide_unpack in P. simpl in P. subst. by apply elem_of_map_to_list in E.
Qed.

Lemma add_watch_pos k res k' wd : Kpos k → add_watch k res = (k', inr wd) → 0 < wd ∧ Kpos k'.
Proof.
  intros [Hn Hm]. unfold add_watch. destruct res as [e|ino]; [done|].
  destruct (find_mark k ino) as [w|] eqn:E.
  - intros [= <- <-]. split; [|done]. apply Hm. apply find_mark_Some in E. by eexists.
  - intros [= <- <-]. split; [done|]. split; simpl; [lia|].
    intros wd [i Hi]. destruct (decide (wd = next_wd k)) as [->|Hne]; [done|].
    rewrite lookup_insert_ne in Hi by done. apply Hm. by eexists.
Qed.

Lemma add_watch_err_same k res k' e : add_watch k res = (k', inl e) → k' = k.
Proof.
  unfold add_watch. destruct res as [e'|ino]; [by intros [= <- _]|].
  destruct (find_mark k ino); by intros [=].
Qed.

Lemma rm_watch_pos k wd : Kpos k → Kpos (fst (rm_watch k wd)).
Proof.
  intros [Hn Hm]. unfold rm_watch. destruct (marks k !! wd) eqn:E; simpl; [|done].
  split; [done|]. intros w [i Hi]. simpl in Hi. apply lookup_delete_Some in Hi as [_ Hi]. apply Hm. by eexists.
Qed.

(* ------------------------------------------------------------------ how the relation moves *)
Lemma TRel_delete twd tpath A wd x :
  TRel twd tpath A → twd !! wd = Some x → TRel (delete wd twd) (delete (w_path x) tpath) (delete wd A).
Proof.
  intros [HA Hwd Hpath Hcl Hnz] Hx. split.
  - rewrite HA, fmap_delete. done.
  - intros w y Hy. apply lookup_delete_Some in Hy as [Hne Hy]. destruct (Hwd _ _ Hy) as (H1 & H2 & H3).
    split_and!; [done|done|]. rewrite lookup_delete_ne; [done|].
    intros E. destruct (Hwd _ _ Hx) as (_ & _ & T). rewrite E in T. rewrite H3 in T. congruence.
  - intros p w Hp. apply lookup_delete_Some in Hp as [Hne Hp]. destruct (Hpath _ _ Hp) as (y & Hy & Hyp).
    exists y. split; [|done]. rewrite lookup_delete_ne; [done|]. intros <-. rewrite Hx in Hy. congruence.
  - intros w y Hy. apply lookup_delete_Some in Hy as [_ Hy]. eauto.
  - rewrite lookup_delete_None. by right.
Qed.

Lemma TRel_insert twd tpath A wd path flags :
  TRel twd tpath A → twd !! wd = None → tpath !! path = None → 0 < wd → clean path = path →
  TRel (<[wd := mkWatch wd flags path false]> twd) (<[path := wd]> tpath) (<[wd := mkAw path flags]> A).
Proof.
  intros [HA Hwd Hpath Hcl Hnz] Hx Hp Hpos Hc. split.
  - rewrite HA, fmap_insert. done.
  - intros w y Hy. apply lookup_insert_Some in Hy as [[<- <-]|[Hne Hy]].
    + simpl. rewrite lookup_insert. done.
    + destruct (Hwd _ _ Hy) as (H1 & H2 & H3). split_and!; [done|done|].
      rewrite lookup_insert_ne; [done|]. intros E. rewrite <- E in H3. congruence.
  - intros p w Hpw. apply lookup_insert_Some in Hpw as [[<- <-]|[Hne Hpw]].
    + eexists. rewrite lookup_insert. done.
    + destruct (Hpath _ _ Hpw) as (y & Hy & Hyp). exists y. split; [|done].
      rewrite lookup_insert_ne; [done|]. intros E. rewrite <- E in Hy. congruence.
  - intros w y Hy. apply lookup_insert_Some in Hy as [[<- <-]|[Hne Hy]]; [done|eauto].
  - rewrite lookup_insert_ne; [done|lia].
Qed.

(* ------------------------------------------------------------------ Add *)
Lemma register_refines W0 A k path flags res :
  TRel (t_wd W0) (t_path W0) A → Kpos k → clean path = path →
  ∃ W' k' e A' r,
    register W0 k path flags false res = (W', k', e) ∧
    spec_add_core k A path flags res = (k', A', r) ∧
    r = match e with Some x => RErr x | None => RNil end ∧
    TRel (t_wd W') (t_path W') A' ∧ Kpos k' ∧ w_ring W' = w_ring W0.
Proof.
  intros HT HK Hc. pose proof HT as [HA Hwd Hpath Hcl Hnz].
  unfold register, spec_add_core. rewrite (find_path_tables _ _ _ path HT).
  destruct W0 as [twd tpath rg0]. simpl in *.
  destruct (tpath !! path) as [wd0|] eqn:Ep; simpl.
  - (* the path is listed *)
    destruct (Hpath _ _ Ep) as (e & He & Hep). destruct (Hwd _ _ He) as (Hew & Her & _).
    rewrite He. rewrite HA, lookup_fmap, He. simpl.
    destruct (add_watch k _) as [K1 [er|wd]] eqn:Ea.
    + apply add_watch_err_same in Ea as ->. eexists _, _, _, _, _. split_and!; try done.
    + destruct (add_watch_pos _ _ _ _ HK Ea) as [Hpos HK1]. rewrite Hew.
      destruct (N.eqb_spec wd0 wd) as [->|Hne].
      * (* same file as before: nothing changes *)
        rewrite !He. rewrite lookup_fmap, He. cbn. rewrite Hew, N.eqb_refl.
        eexists _, _, _, _, _. split_and!; try done. simpl.
        rewrite (insert_id twd wd e He). rewrite Hep. rewrite (insert_id tpath path wd Ep). by rewrite <- HA.
      * (* the path names another file now *)
        rewrite lookup_delete_ne by done. rewrite lookup_fmap.
        destruct (twd !! wd) as [e'|] eqn:Ee'; simpl.
        -- (* … which is already watched under another name: the entry for this path goes away *)
           destruct (Hwd _ _ Ee') as (He'w & _ & He'p). rewrite He'w.
           destruct (N.eqb_spec wd wd0) as [E|_]; [congruence|].
           assert (w_path e' ≠ path) as Hpne by (intros E; rewrite E in He'p; congruence).
           destruct (String.eqb_spec (w_path e') path) as [E|_]; [done|].
           eexists _, _, _, _, _. split_and!; try done; simpl.
           ++ rewrite insert_id by done. rewrite (insert_id tpath) by done.
              rewrite <- HA, <- Hep. apply TRel_delete; [done|done].
           ++ by apply rm_watch_pos.
        -- (* … which is not watched yet: the watch moves *)
           destruct (N.eqb_spec wd wd0) as [E|_]; [congruence|].
           rewrite Hep, String.eqb_refl.
           eexists _, _, _, _, _. split_and!; try done; simpl.
           ++ rewrite delete_insert_ne by done.
              rewrite <- (insert_delete_insert tpath).
              rewrite Her, <- HA.
              apply TRel_insert; try done.
              ** rewrite <- Hep. apply TRel_delete; done.
              ** rewrite lookup_delete_ne; done.
              ** apply lookup_delete.
           ++ by apply rm_watch_pos.
  - (* the path is not listed *)
    destruct (add_watch k _) as [K1 [er|wd]] eqn:Ea.
    + apply add_watch_err_same in Ea as ->. eexists _, _, _, _, _. split_and!; try done.
    + destruct (add_watch_pos _ _ _ _ HK Ea) as [Hpos HK1].
      rewrite HA, lookup_fmap. destruct (twd !! wd) as [e'|] eqn:Ee'; simpl.
      * (* the file is watched under another name: first spelling wins *)
        destruct (Hwd _ _ Ee') as (He'w & _ & He'p). rewrite He'w.
        destruct (N.eqb_spec wd 0) as [E|_]; [lia|].
        assert (w_path e' ≠ path) as Hpne by (intros E; rewrite E in He'p; congruence).
        destruct (String.eqb_spec (w_path e') path) as [E|_]; [done|].
        eexists _, _, _, _, _. split_and!; try done; simpl.
        rewrite insert_id by done. rewrite (insert_id tpath) by done.
        rewrite delete_notin by done. rewrite delete_notin by done. done.
      * destruct (N.eqb_spec wd 0) as [E|_]; [lia|]. rewrite String.eqb_refl.
        eexists _, _, _, _, _. split_and!; try done; simpl.
        rewrite delete_notin by (rewrite lookup_insert_ne; [done|lia]).
        apply TRel_insert; done.
Qed.

(* ------------------------------------------------------------------ Remove *)
Lemma rm_all_single k wd : rm_all k [wd] = rm_watch k wd.
Proof. simpl. destruct (rm_watch k wd) as [K1 [e|]]; done. Qed.

Lemma remove_refines W0 A k p :
  TRel (t_wd W0) (t_path W0) A → Kpos k → clean p = p →
  ∃ W' k' e A' r,
    remove false W0 k p = (W', k', e) ∧
    spec_remove_core k A p = (k', A', r) ∧
    r = match e with Some x => RErr x | None => RNil end ∧
    TRel (t_wd W') (t_path W') A' ∧ Kpos k' ∧ w_ring W' = w_ring W0.
Proof.
  intros HT HK Hc. pose proof HT as [HA Hwd Hpath Hcl Hnz].
  unfold remove, remove_path, spec_remove_core, recursive_path. simpl. rewrite Hc.
  rewrite (find_path_tables _ _ _ p HT).
  destruct W0 as [twd tpath rg0]. simpl in *.
  destruct (tpath !! p) as [wd|] eqn:Ep.
  - destruct (Hpath _ _ Ep) as (x & Hx & Hxp). destruct (Hwd _ _ Hx) as (_ & Hr & _).
    rewrite Hx, Hr. simpl.
    assert (HK1 : Kpos (fst (rm_watch k wd))) by (by apply rm_watch_pos).
    destruct (rm_watch k wd) as [K1 [e|]] eqn:Er; simpl in *.
    + eexists _, _, _, _, _. split_and!; try done. simpl. rewrite <- Hxp. by apply TRel_delete.
    + eexists _, _, _, _, _. split_and!; try done. simpl. rewrite <- Hxp. by apply TRel_delete.
  - eexists _, _, _, _, _. split_and!; try done.
Qed.

(* ------------------------------------------------------------------ handling one notification *)
Lemma rm_watch_err k wd k' e : rm_watch k wd = (k', Some e) → e = EINVAL ∧ k' = k.
Proof. unfold rm_watch. destruct (marks k !! wd); intros [=]; subst; done. Qed.

Lemma kernel_eta k : mkK (marks k) (next_wd k) (kq k) = k.
Proof. by destruct k. Qed.

Lemma end_of_watch_refines W0 A k x mask :
  TRel (t_wd W0) (t_path W0) A → Kpos k → t_wd W0 !! w_wd x = Some x →
  ∃ W2 K2 A1,
    end_of_watch false W0 k x mask = (W2, K2, None, false) ∧
    spec_end_of_watch k A (w_wd x) mask = (K2, A1) ∧
    TRel (t_wd W2) (t_path W2) A1 ∧ Kpos K2 ∧ w_ring W2 = w_ring W0.
Proof.
  intros HT HK Ex. pose proof HT as [HA Hwd Hpath Hcl Hnz].
  destruct (Hwd _ _ Ex) as (_ & Hxr & Hxp). pose proof (Hcl _ _ Ex) as Hxc.
  unfold end_of_watch, spec_end_of_watch. rewrite Hxr.
  destruct (has_all mask IN_DELETE_SELF) eqn:Ed; destruct (has_all mask IN_MOVE_SELF) eqn:Em; simpl.
  - (* both bits: the entry is gone before remove() looks for it *)
    assert (HT1 : TRel (t_wd (remove_watch W0 x)) (t_path (remove_watch W0 x)) (delete (w_wd x) A))
      by (simpl; by apply TRel_delete).
    destruct (remove_refines _ _ k (w_path x) HT1 HK Hxc) as (W' & k' & e & A' & r & Hr & Hs & Hre & HT' & HK' & Hrg).
    rewrite Hr. unfold spec_remove_core in Hs. rewrite (find_path_tables _ _ _ _ HT1) in Hs.
    simpl in Hs. rewrite lookup_delete in Hs. inversion Hs; subst.
    destruct e as [[]|]; try done. eexists _, _, _. split_and!; try done.
  - eexists _, _, _. split_and!; try done. simpl. by apply TRel_delete.
  - destruct (remove_refines _ _ k (w_path x) HT HK Hxc) as (W' & k' & e & A' & r & Hr & Hs & Hre & HT' & HK' & Hrg).
    rewrite Hr. unfold spec_remove_core in Hs. rewrite (find_path_tables _ _ _ _ HT), Hxp in Hs.
    destruct (rm_watch k (w_wd x)) as [K1 e1] eqn:Erm. inversion Hs; subst. simpl.
    destruct e1 as [e1|].
    + destruct (rm_watch_err _ _ _ _ Erm) as [-> ->]. destruct e as [[| | |[]| | |]|]; try done.
      eexists _, _, _. split_and!; try done.
    + destruct e as [e|]; [done|]. eexists _, _, _. split_and!; try done.
  - eexists _, _, _. split_and!; try done.
Qed.

Lemma deliver_refines cwd W2 K2 A1 dirs x r name pre :
  TRel (t_wd W2) (t_path W2) A1 → w_rec x = false →
  ∃ W', deliver cwd W2 K2 dirs x r name pre None
          = (W', K2, pre ++ (spec_deliver A1 (w_ring W2) (to_aw x) r name).2) ∧
        w_ring W' = (spec_deliver A1 (w_ring W2) (to_aw x) r name).1 ∧
        t_wd W' = t_wd W2 ∧ t_path W' = t_path W2.
Proof.
  intros HT Hxr. unfold deliver, spec_deliver. simpl.
  rewrite (find_path_tables _ _ _ _ HT). rewrite Hxr. simpl.
  destruct (has_any (r_mask r) IN_DELETE_SELF && bool_decide (is_Some (t_path W2 !! dir (w_path x)))).
  - eexists. split_and!; try done.
  - destruct (new_event (w_ring W2) name (r_mask r) (r_cookie r)) as [R3 ev]. simpl.
    eexists. split_and!; try done.
Qed.

Lemma handle_refines cwd W0 A k dirs r so sh :
  TRel (t_wd W0) (t_path W0) A → Kpos k →
  ∃ W' k' o A',
    handle false cwd W0 k dirs r = (W', k', o) ∧
    spec_handle (mkSpec k A (w_ring W0) so sh) r (kq k) = mkSpec k' A' (w_ring W') (so ++ o) (sh ++ [r]) ∧
    TRel (t_wd W') (t_path W') A' ∧ Kpos k'.
Proof.
  intros HT HK. pose proof HT as [HA Hwd Hpath Hcl Hnz].
  unfold handle, spec_handle, by_wd.
  cbn [sK sA sR souts shandled]. rewrite kernel_eta.
  set (pre := if has_any (r_mask r) IN_Q_OVERFLOW then [OErr ErrEventOverflow] else []).
  assert (HAl : A !! r_wd r = to_aw <$> (t_wd W0 !! r_wd r)) by (by rewrite HA, lookup_fmap).
  rewrite HAl.
  destruct (t_wd W0 !! r_wd r) as [x|] eqn:Ex.
  2: { eexists _, _, _, _. split_and!; try done. simpl. by rewrite app_nil_r. }
  change (to_aw <$> Some x) with (Some (to_aw x)). cbn [a_path to_aw].
  destruct (Hwd _ _ Ex) as (Hxw & Hxr & Hxp). rewrite <- Hxw in Ex.
  destruct (has_any (r_mask r) IN_IGNORED || has_any (r_mask r) IN_UNMOUNT) eqn:Eh.
  { eexists _, _, _, _. split_and!; try done.
    - simpl. by rewrite app_nil_r.
    - simpl. rewrite <- Hxw. by apply TRel_delete. }
  destruct (end_of_watch_refines W0 A k x (r_mask r) HT HK Ex) as (W2 & K2 & A1 & He & Hs & HT2 & HK2 & Hrg).
  rewrite He. rewrite <- Hxw, Hs.
  destruct (deliver_refines cwd W2 K2 A1 dirs x r
              (if r_len r =? 0 then w_path x else w_path x +:+ "/" +:+ r_name r) pre HT2 Hxr) as (W' & Hd & Hr' & Htw & Htp).
  rewrite Hd. rewrite <- Hrg.
  destruct (spec_deliver A1 (w_ring W2) (to_aw x) r _) as [R1 o] eqn:Esd. simpl in Hr'. simpl.
  eexists _, _, _, _. split_and!; try done.
  - by rewrite Hr'.
  - by rewrite Htw, Htp.
Qed.

(* ------------------------------------------------------------------ whole system *)
Record Rel (s : sys) (a : spec) : Prop := mkRel {
  rel_K : K s = sK a;
  rel_R : w_ring (W s) = sR a;
  rel_outs : outs s = souts a;
  rel_handled : handled s = shandled a;
  rel_T : TRel (t_wd (W s)) (t_path (W s)) (sA a);
  rel_pos : Kpos (K s);
}.

(* WatchList's order is unspecified *)
Definition res_equiv (r1 r2 : api_result) : Prop :=
  match r1, r2 with RList l1, RList l2 => l1 ≡ₚ l2 | _, _ => r1 = r2 end.

Lemma init_rel : Rel init_sys init_spec.
Proof.
  split; try done.
  - split; try done. simpl. symmetry. apply fmap_empty.
  - split; simpl; [lia|]. intros wd [i Hi]. by rewrite lookup_empty in Hi.
Qed.

Lemma list_refines twd tpath A : TRel twd tpath A → (map_to_list tpath).*1 ≡ₚ a_path <$> (map_to_list A).*2.
Proof.
  intros [HA Hwd Hpath _ _]. apply NoDup_Permutation.
  - apply NoDup_fst_map_to_list.
  - rewrite <- list_fmap_compose. apply NoDup_fmap_2_strong; [|apply NoDup_map_to_list].
    intros [w1 a1] [w2 a2] H1 H2 E. simpl in E. apply elem_of_map_to_list in H1, H2.
    rewrite HA, lookup_fmap in H1, H2.
    destruct (twd !! w1) as [x1|] eqn:E1; [|done]. destruct (twd !! w2) as [x2|] eqn:E2; [|done].
    simpl in *. inversion H1; inversion H2; subst. simpl in E.
    destruct (Hwd _ _ E1) as (_ & _ & T1). destruct (Hwd _ _ E2) as (_ & _ & T2).
    rewrite E in T1. rewrite T1 in T2. inversion T2; subst. rewrite E1 in E2. by inversion E2.
  - intros p. rewrite elem_of_list_fmap. rewrite <- list_fmap_compose, elem_of_list_fmap. split.
    + intros ([p' w] & -> & Hin). apply elem_of_map_to_list in Hin. destruct (Hpath _ _ Hin) as (x & Hx & Hxp).
      exists (w, to_aw x). split; [by simpl|]. apply elem_of_map_to_list. by rewrite HA, lookup_fmap, Hx.
    + intros ([w a] & -> & Hin). apply elem_of_map_to_list in Hin. rewrite HA, lookup_fmap in Hin.
      destruct (twd !! w) as [x|] eqn:Ex; [|done]. simpl in Hin. inversion Hin; subst.
      destruct (Hwd _ _ Ex) as (_ & _ & T). exists (w_path x, w). split; [done|]. by apply elem_of_map_to_list.
Qed.

Lemma spec_handle_K k1 k2 A R o h r q :
  marks k1 = marks k2 → next_wd k1 = next_wd k2 →
  spec_handle (mkSpec k1 A R o h) r q = spec_handle (mkSpec k2 A R o h) r q.
Proof. unfold spec_handle. simpl. by intros -> ->. Qed.

Theorem step_refines cfg s a st :
  c_recurse cfg = false → Rel s a →
  Rel (sys_step cfg s st).1 (spec_step a st).1 ∧ res_equiv (sys_step cfg s st).2 (spec_step a st).2.
Proof.
  intros Hnr [HK HR Ho Hh HT HP]. destruct s as [k w o h]. destruct a as [ak aA aR ao ah]. simpl in *. subst.
  destruct st as [arg ops nf walk|arg| |r|wd ds| |dirs|r dirs]; simpl.
  - (* Add *)
    unfold recursive_path. rewrite Hnr. simpl.
    destruct walk as [|[p0 res] walk']; [split; [by split|done]|].
    destruct (register_refines w aA ak (clean arg) (request_flags ops nf) res HT HP (PathLexProofs.clean_idem arg))
      as (W' & k' & e & A' & r & Hreg & Hspec & Hr & HT' & HP' & Hrg).
    rewrite Hreg. unfold spec_add. simpl. rewrite Hspec. simpl. split; [by split|]. subst r. by destruct e.
  - (* Remove *)
    destruct (remove_refines w aA ak (clean arg) HT HP (PathLexProofs.clean_idem arg))
      as (W' & k' & e & A' & r & Hrem & Hspec & Hr & HT' & HP' & Hrg).
    rewrite Hnr, Hrem. unfold spec_remove. simpl. rewrite Hspec. simpl. split; [by split|]. subst r. by destruct e.
  - (* WatchList *)
    split; [by split|]. simpl. by apply (list_refines _ _ _ HT).
  - split; [|done]. split; try done.
  - split; [|done]. split; try done. destruct HP as [H1 H2]. split; simpl; [done|].
    intros w' [i Hi]. apply lookup_delete_Some in Hi as [_ Hi]. apply H2. by eexists.
  - split; [|done]. split; try done.
  - (* the reader handles the next notification *)
    destruct (kq ak) as [|r q] eqn:Eq; [split; [by split|done]|].
    unfold do_handle. simpl.
    assert (HPq : Kpos (mkK (marks ak) (next_wd ak) q)) by (destruct HP as [H1 H2]; by split).
    destruct (handle_refines (c_cwd cfg) w aA (mkK (marks ak) (next_wd ak) q) dirs r ao ah HT HPq)
      as (W' & k' & o' & A' & Hh' & Hs' & HT' & HP').
    rewrite Hnr, Hh'. simpl in Hs'.
    rewrite (spec_handle_K ak (mkK (marks ak) (next_wd ak) q)) by done. rewrite Hs'. split; [by split|done].
  - unfold do_handle. simpl.
    assert (HPq : Kpos (mkK (marks ak) (next_wd ak) (kq ak))) by (destruct HP as [H1 H2]; by split).
    destruct (handle_refines (c_cwd cfg) w aA (mkK (marks ak) (next_wd ak) (kq ak)) dirs r ao ah HT HPq)
      as (W' & k' & o' & A' & Hh' & Hs' & HT' & HP').
    rewrite Hnr, Hh'. simpl in Hs'.
    rewrite (spec_handle_K ak (mkK (marks ak) (next_wd ak) (kq ak))) by done. rewrite Hs'. split; [by split|done].
Qed.

Theorem run_refines cfg h : ∀ s a,
  c_recurse cfg = false → Rel s a →
  Rel (run cfg h s).1 (spec_run h a).1 ∧ Forall2 res_equiv (run cfg h s).2 (spec_run h a).2.
Proof.
  induction h as [|st h IH]; intros s a Hnr HR; simpl; [split; [done|constructor]|].
  destruct (step_refines cfg s a st Hnr HR) as [HR1 Hres].
  destruct (sys_step cfg s st) as [s1 r1]. destruct (spec_step a st) as [a1 r1']. simpl in *.
  destruct (IH s1 a1 Hnr HR1) as [HR2 Hrs].
  destruct (run cfg h s1) as [s2 rs]. destruct (spec_run h a1) as [a2 rs']. simpl in *.
  split; [done|]. by constructor.
Qed.

(* the implementation model never takes the nil-dereference path of removePath *)
Corollary remove_total cfg s a arg :
  c_recurse cfg = false → Rel s a → (sys_step cfg s (SRemove arg)).2 ≠ RErr ErrPanic.
Proof.
  intros Hnr HR. destruct (step_refines cfg s a (SRemove arg) Hnr HR) as [_ Hres].
  intros E. rewrite E in Hres. simpl in Hres. unfold spec_remove, spec_remove_core in Hres.
  destruct (find_path (sA a) (clean arg)); simpl in Hres; [|done].
  destruct (rm_watch (sK a) n) as [K1 [e|]]; simpl in Hres; done.
Qed.
