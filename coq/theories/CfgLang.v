(* CfgLang.v — the skeleton language in which the translator (xlate, cfg.go) renders the concurrency-relevant
   functions of the current source: only lock operations, channel operations, table / ring accesses, system calls,
   go statements, calls between these functions, and the control structure around them survive.
   Types only; the checker and its soundness proof are in Cfg.v. *)
From Coq Require Import List String.
Import ListNotations.

Inductive chan := ChEvents | ChErrors | ChDone | ChDoneResp | ChOther (name : string).
Inductive mutex := MuMain | MuCookies | MuOther (name : string).

Inductive act :=
| ALock (m : mutex) | AUnlock (m : mutex)
| ASend (c : chan)                      (* blocking send *)
| ARecv (c : chan)                      (* blocking receive *)
| AClose (c : chan)
| ASelect (cases : list (bool * chan))  (* blocking select: (true, c) = send on c, (false, c) = receive from c *)
| APoll (c : chan)                      (* select with default: never blocks *)
| ATable (write : bool)                 (* access to watches.wd / watches.path *)
| ARing                                 (* access to cookies / cookieIndex *)
| AFileRead                             (* inotifyFile.Read: blocks until data or close *)
| AFileClose
| ASyscall (name : string)
| AGo (f : string)
| AOther (what : string).               (* anything else that is irrelevant to the protocol (formatting, allocation…) *)

Inductive sk :=
| SAct (a : act)
| SDefer (b : list sk)                  (* deferred statements: run, last registered first, when the function returns *)
| SCall (f : string)                    (* call of a function that has a skeleton of its own *)
| SSeq (l : list sk)
| SIf (branches : list sk)              (* one of the branches runs (if / else / switch / select cases) *)
| SLoop (body : sk)                     (* zero or more iterations *)
| SReturn
| SBreak                                (* break / continue: leaves the current loop iteration *)
| SUnrecognised (src : string).         (* the translator did not understand this statement *)

Definition program := list (string * sk).
