(* PathLex.v — lexical path functions of Go's path/filepath on Unix (Clean, Dir, Base) as executable Gallina.
   Validated against the real functions by the correspondence harness; properties proved in PathLexProofs.v. *)
From Coq Require Import List String Ascii Bool Arith.
Import ListNotations.
Local Open Scope string_scope.

Definition slash : ascii := "/"%char.
Definition is_slash (c : ascii) : bool := Ascii.eqb c slash.

(* split on '/' : "a//b" -> ["a"; ""; "b"] *)
Fixpoint split_slash_aux (s : string) (cur : string) : list string :=
  match s with
  | EmptyString => [cur]
  | String c s' => if is_slash c then cur :: split_slash_aux s' "" else split_slash_aux s' (cur ++ String c "")
  end.
Definition split_slash (s : string) : list string := split_slash_aux s "".

Fixpoint join_slash (l : list string) : string :=
  match l with
  | [] => ""
  | [x] => x
  | x :: l' => x ++ "/" ++ join_slash l'
  end.

Definition rooted (s : string) : bool := match s with String c _ => is_slash c | _ => false end.

(* one pass over the components with a stack (most recent first) *)
Fixpoint clean_comps (root : bool) (comps : list string) (stack : list string) : list string :=
  match comps with
  | [] => rev stack
  | c :: cs =>
    if String.eqb c "" || String.eqb c "." then clean_comps root cs stack
    else if String.eqb c ".." then
      match stack with
      | top :: rest => if String.eqb top ".." then clean_comps root cs (c :: stack) else clean_comps root cs rest
      | [] => if root then clean_comps root cs [] else clean_comps root cs [c]
      end
    else clean_comps root cs (c :: stack)
  end.

Definition clean (p : string) : string :=
  match p with
  | EmptyString => "."
  | _ =>
    let r := rooted p in
    let out := join_slash (clean_comps r (split_slash p) []) in
    if r then "/" ++ out else match out with EmptyString => "." | _ => out end
  end.

(* filepath.Dir: everything up to the last separator, cleaned *)
Fixpoint last_slash_prefix (s : string) (acc : string) (best : string) : string :=
  match s with
  | EmptyString => best
  | String c s' => let acc' := acc ++ String c "" in
                   if is_slash c then last_slash_prefix s' acc' acc' else last_slash_prefix s' acc' best
  end.
Definition dir (p : string) : string := clean (last_slash_prefix p "" "").

(* filepath.Base *)
Fixpoint strip_trailing_slashes (l : list ascii) : list ascii :=   (* on the reversed list *)
  match l with c :: l' => if is_slash c then strip_trailing_slashes l' else l | [] => [] end.
Fixpoint take_until_slash (l : list ascii) : list ascii :=
  match l with c :: l' => if is_slash c then [] else c :: take_until_slash l' | [] => [] end.
Definition base (p : string) : string :=
  match p with
  | EmptyString => "."
  | _ =>
    let r := strip_trailing_slashes (rev (list_ascii_of_string p)) in
    match r with
    | [] => "/"
    | _ => string_of_list_ascii (rev (take_until_slash r))
    end
  end.

Fixpoint has_prefix (s pre : string) : bool :=
  match pre, s with
  | EmptyString, _ => true
  | String a pre', String b s' => Ascii.eqb a b && has_prefix s' pre'
  | _, _ => false
  end.

(* strings.Replace(s, old, new, 1) when s has prefix old (the only way the code uses it after HasPrefix) *)
Fixpoint drop_str (n : nat) (s : string) : string :=
  match n, s with O, _ => s | S n', String _ s' => drop_str n' s' | S _, EmptyString => EmptyString end.
Definition replace_prefix (s old new : string) : string := new ++ drop_str (String.length old) s.

(* component-wise subtree relation *)
Definition is_under (p root : string) : bool := String.eqb p root || has_prefix p (root ++ "/").
