(* Doc.v — the DOCUMENTED behaviour the generated facts are compared with: operation values, native ABI
   constants, flag-to-operation mappings per backend, Op.String names.  Written by hand from fsnotify.go's
   documentation, inotify(7), kevent(2) and the ReadDirectoryChangesW documentation; nothing here is generated. *)
From Coq Require Import NArith List String Bool.
From Fsn Require Import Bits Tables Names.
Import ListNotations.
Local Open Scope N_scope.

(* ---- documented portable operations (fsnotify.go) ---- *)
Definition Create := 1. Definition Write := 2. Definition Remove := 4. Definition Rename := 8. Definition Chmod := 16.
Definition UOpen := 32. Definition URead := 64. Definition UCloseWrite := 128. Definition UCloseRead := 256.
Definition all_ops := 511.
Definition unportable := 480.

(* ---- inotify(7) ABI ---- *)
Definition IN_ACCESS := 1. Definition IN_MODIFY := 2. Definition IN_ATTRIB := 4. Definition IN_CLOSE_WRITE := 8.
Definition IN_CLOSE_NOWRITE := 16. Definition IN_OPEN := 32. Definition IN_MOVED_FROM := 64. Definition IN_MOVED_TO := 128.
Definition IN_CREATE := 256. Definition IN_DELETE := 512. Definition IN_DELETE_SELF := 1024. Definition IN_MOVE_SELF := 2048.
Definition IN_DONT_FOLLOW := 33554432.
Definition NOFOLLOW_INPUT := 4294967296.     (* pseudo input bit 32: the noFollow option *)

(* documented mapping, one native flag per line *)
Definition inotify_doc : doc := [
  (IN_CREATE, Create); (IN_MOVED_TO, Create);
  (IN_DELETE, Remove); (IN_DELETE_SELF, Remove);
  (IN_MODIFY, Write);
  (IN_MOVED_FROM, Rename); (IN_MOVE_SELF, Rename);
  (IN_ATTRIB, Chmod);
  (IN_OPEN, UOpen); (IN_ACCESS, URead); (IN_CLOSE_WRITE, UCloseWrite); (IN_CLOSE_NOWRITE, UCloseRead) ].

(* what has to be subscribed to observe each operation (the move-in half belongs to Rename:
   testdata/watch-dir/only-rename) *)
Definition inotify_needs : doc := [
  (Create, IN_CREATE); (Write, IN_MODIFY); (Remove, N.lor IN_DELETE IN_DELETE_SELF);
  (Rename, N.lor IN_MOVED_TO (N.lor IN_MOVED_FROM IN_MOVE_SELF)); (Chmod, IN_ATTRIB);
  (UOpen, IN_OPEN); (URead, IN_ACCESS); (UCloseWrite, IN_CLOSE_WRITE); (UCloseRead, IN_CLOSE_NOWRITE);
  (NOFOLLOW_INPUT, IN_DONT_FOLLOW) ].


(* ---- kqueue: kevent(2) EVFILT_VNODE ---- *)
Definition NOTE_DELETE := 1. Definition NOTE_WRITE := 2. Definition NOTE_ATTRIB := 8. Definition NOTE_RENAME := 32.
Definition kqueue_doc : doc := [ (NOTE_DELETE, Remove); (NOTE_WRITE, Write); (NOTE_RENAME, Rename); (NOTE_ATTRIB, Chmod) ].
Definition kqueue_doc_post : list post := [ PClear (CAnd (AnySet Write) (AnySet Remove)) Write ].


(* ---- Windows: ReadDirectoryChangesW ---- *)
Definition sysFSCREATE := 256. Definition sysFSDELETE := 512. Definition sysFSDELETESELF := 1024. Definition sysFSMODIFY := 2.
Definition sysFSMOVEDFROM := 64. Definition sysFSMOVEDTO := 128. Definition sysFSMOVESELF := 2048.
Definition FILE_ACTION_ADDED := 1. Definition FILE_ACTION_REMOVED := 2. Definition FILE_ACTION_MODIFIED := 3.
Definition FILE_ACTION_RENAMED_OLD_NAME := 4. Definition FILE_ACTION_RENAMED_NEW_NAME := 5.
Definition FILE_NOTIFY_CHANGE_FILE_NAME := 1. Definition FILE_NOTIFY_CHANGE_DIR_NAME := 2. Definition FILE_NOTIFY_CHANGE_LAST_WRITE := 16.

Definition windows_doc : doc := [
  (sysFSCREATE, Create); (sysFSMOVEDTO, Create);
  (sysFSDELETE, Remove); (sysFSDELETESELF, Remove);
  (sysFSMODIFY, Write);
  (sysFSMOVEDFROM, Rename); (sysFSMOVESELF, Rename) ].
Definition windows_actions : switch := {| sw_cases := [
  (FILE_ACTION_ADDED, sysFSCREATE); (FILE_ACTION_REMOVED, sysFSDELETE); (FILE_ACTION_MODIFIED, sysFSMODIFY);
  (FILE_ACTION_RENAMED_OLD_NAME, sysFSMOVEDFROM); (FILE_ACTION_RENAMED_NEW_NAME, sysFSMOVEDTO) ];
  sw_default := 0; sw_ok := true |}.
(* which change classes must be subscribed for which internal mask bits *)
Definition windows_subscribe : table := [
  ROr (AnySet sysFSMODIFY) FILE_NOTIFY_CHANGE_LAST_WRITE;
  ROr (AnySet (N.lor (N.lor sysFSMOVEDFROM sysFSMOVEDTO) (N.lor sysFSCREATE sysFSDELETE)))
      (N.lor FILE_NOTIFY_CHANGE_FILE_NAME FILE_NOTIFY_CHANGE_DIR_NAME) ].


(* The documented names, in the documented order (fsnotify.go, Op.String). *)
Definition doc_names : names := [
  (1, "CREATE"%string); (4, "REMOVE"%string); (2, "WRITE"%string);
  (32, "OPEN"%string); (64, "READ"%string); (128, "CLOSE_WRITE"%string); (256, "CLOSE_READ"%string);
  (8, "RENAME"%string); (16, "CHMOD"%string) ].
Definition doc_sep : string := "|".
Definition doc_empty : string := "[no events]".

