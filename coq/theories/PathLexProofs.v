(* PathLexProofs.v — properties of the lexical path model in PathLex.v.
   Everything here is proved; no axioms. *)
From Coq Require Import List String Ascii Bool Arith Lia.
From Fsn Require Import PathLex.
Import ListNotations.
Local Open Scope list_scope.
Local Open Scope string_scope.

(* ------------------------------------------------------------------ *)
(* Strings                                                             *)
(* ------------------------------------------------------------------ *)

Lemma sapp_nil_r : forall s : string, s ++ "" = s.
Proof.
  induction s as [|c s IH]; simpl.
  - reflexivity.
  - rewrite IH. reflexivity.
Qed.

Lemma sapp_assoc : forall a b c : string, (a ++ b) ++ c = a ++ b ++ c.
Proof.
  induction a as [|x a IH]; intros b c; simpl.
  - reflexivity.
  - rewrite IH. reflexivity.
Qed.

Lemma sapp_cancel_l : forall a b c : string, a ++ b = a ++ c -> b = c.
Proof.
  induction a as [|x a IH]; intros b c H; simpl in H.
  - exact H.
  - injection H as H. apply IH. exact H.
Qed.

Lemma sapp_snoc : forall a c b, (a ++ String c "") ++ b = a ++ String c b.
Proof. intros a c b. rewrite sapp_assoc. reflexivity. Qed.

Lemma sapp_nonempty_r : forall a b : string, b <> "" -> a ++ b <> "".
Proof.
  intros a b Hb. destruct a as [|c a]; simpl.
  - exact Hb.
  - discriminate.
Qed.

Lemma is_slash_true : forall c, is_slash c = true <-> c = "/"%char.
Proof. intro c. unfold is_slash, slash. apply Ascii.eqb_eq. Qed.

Lemma is_slash_false : forall c, is_slash c = false <-> c <> "/"%char.
Proof. intro c. unfold is_slash, slash. apply Ascii.eqb_neq. Qed.

Lemma is_slash_slash : is_slash "/"%char = true.
Proof. reflexivity. Qed.

(* ------------------------------------------------------------------ *)
(* no_slash                                                            *)
(* ------------------------------------------------------------------ *)

Definition no_slash (s : string) : Prop :=
  forall c, In c (list_ascii_of_string s) -> c <> "/"%char.

Lemma no_slash_nil : no_slash "".
Proof. intros c H. destruct H. Qed.

Lemma no_slash_cons : forall c s, no_slash (String c s) <-> c <> "/"%char /\ no_slash s.
Proof.
  intros c s. unfold no_slash. simpl. split.
  - intro H. split.
    + apply H. left. reflexivity.
    + intros d Hd. apply H. right. exact Hd.
  - intros [H1 H2] d [Hd|Hd].
    + subst d. exact H1.
    + apply H2. exact Hd.
Qed.

Lemma no_slash_app : forall a b, no_slash (a ++ b) <-> no_slash a /\ no_slash b.
Proof.
  induction a as [|c a IH]; intro b; simpl.
  - split.
    + intro H. split; [apply no_slash_nil | exact H].
    + intros [_ H]. exact H.
  - split.
    + intro H. apply no_slash_cons in H. destruct H as [Hc H].
      apply IH in H. destruct H as [Ha Hb].
      split; [apply no_slash_cons; split; assumption | exact Hb].
    + intros [Ha Hb]. apply no_slash_cons in Ha. destruct Ha as [Hc Ha].
      apply no_slash_cons. split; [exact Hc | apply IH; split; assumption].
Qed.

Lemma no_slash_dotdot : no_slash "..".
Proof.
  intros c H. simpl in H.
  destruct H as [H|[H|[]]]; subst c; discriminate.
Qed.

Lemma slash_not_no_slash : forall a b, ~ no_slash (a ++ "/" ++ b).
Proof.
  intros a b H. apply no_slash_app in H. destruct H as [_ H].
  simpl in H. apply no_slash_cons in H. destruct H as [H _]. apply H. reflexivity.
Qed.

(* ------------------------------------------------------------------ *)
(* split_slash / join_slash                                            *)
(* ------------------------------------------------------------------ *)

Lemma split_aux_noslash_app : forall a s cur,
  no_slash a -> split_slash_aux (a ++ s) cur = split_slash_aux s (cur ++ a).
Proof.
  induction a as [|c a IH]; intros s cur Ha; simpl.
  - rewrite sapp_nil_r. reflexivity.
  - apply no_slash_cons in Ha. destruct Ha as [Hc Ha].
    apply is_slash_false in Hc. rewrite Hc.
    rewrite IH by exact Ha. rewrite sapp_snoc. reflexivity.
Qed.

Lemma split_aux_noslash : forall a cur, no_slash a -> split_slash_aux a cur = [cur ++ a].
Proof.
  intros a cur Ha. rewrite <- (sapp_nil_r a) at 1.
  rewrite split_aux_noslash_app by exact Ha. reflexivity.
Qed.

(* the accumulator is just a prefix of the first component *)
Lemma split_aux_cur : forall s cur,
  split_slash_aux s cur =
  match split_slash_aux s "" with
  | [] => [cur]
  | x :: l => (cur ++ x) :: l
  end.
Proof.
  induction s as [|c s IH]; intro cur; simpl.
  - rewrite sapp_nil_r. reflexivity.
  - destruct (is_slash c).
    + rewrite sapp_nil_r. reflexivity.
    + rewrite (IH (cur ++ String c "")). rewrite (IH (String c "")).
      destruct (split_slash_aux s "") as [|x l].
      * reflexivity.
      * rewrite sapp_snoc. reflexivity.
Qed.

Lemma split_noslash : forall x, no_slash x -> split_slash x = [x].
Proof. intros x Hx. unfold split_slash. rewrite split_aux_noslash by exact Hx. reflexivity. Qed.

Lemma split_cons : forall x s, no_slash x -> split_slash (x ++ "/" ++ s) = x :: split_slash s.
Proof.
  intros x s Hx. unfold split_slash. rewrite split_aux_noslash_app by exact Hx.
  reflexivity.
Qed.

Lemma split_leading_slash : forall s, split_slash (String "/" s) = "" :: split_slash s.
Proof. intro s. reflexivity. Qed.

Lemma split_aux_all_noslash : forall s cur, no_slash cur -> Forall no_slash (split_slash_aux s cur).
Proof.
  induction s as [|c s IH]; intros cur Hcur; simpl.
  - constructor; [exact Hcur | constructor].
  - destruct (is_slash c) eqn:Ec.
    + constructor; [exact Hcur | apply IH; apply no_slash_nil].
    + apply IH. apply no_slash_app. split; [exact Hcur|].
      apply no_slash_cons. split; [apply is_slash_false; exact Ec | apply no_slash_nil].
Qed.

Lemma split_all_noslash : forall s, Forall no_slash (split_slash s).
Proof. intro s. apply split_aux_all_noslash. apply no_slash_nil. Qed.

Lemma split_aux_snoc_slash : forall s cur,
  split_slash_aux (s ++ "/") cur = (split_slash_aux s cur ++ [""])%list.
Proof.
  induction s as [|c s IH]; intro cur; simpl.
  - reflexivity.
  - destruct (is_slash c).
    + rewrite IH. reflexivity.
    + apply IH.
Qed.

Lemma join_cons2 : forall x y l, join_slash (x :: y :: l) = x ++ "/" ++ join_slash (y :: l).
Proof. reflexivity. Qed.

Lemma split_join : forall l, l <> [] -> Forall no_slash l -> split_slash (join_slash l) = l.
Proof.
  induction l as [|x l IH]; intros Hne Hall.
  - congruence.
  - inversion Hall as [|x' l' Hx Hl]; subst.
    destruct l as [|y l].
    + simpl. apply split_noslash. exact Hx.
    + rewrite join_cons2. rewrite split_cons by exact Hx.
      rewrite IH; [reflexivity | discriminate | exact Hl].
Qed.

(* ------------------------------------------------------------------ *)
(* Normal forms of component lists                                     *)
(* ------------------------------------------------------------------ *)

(* a component that may appear in a cleaned path (possibly "..") *)
Definition comp_ok (c : string) : Prop := c <> "" /\ c <> "." /\ no_slash c.
(* a component that is an ordinary name *)
Definition plain (c : string) : Prop := comp_ok c /\ c <> "..".

(* ".." only as a leading block, and never when rooted *)
Definition nf (r : bool) (l : list string) : Prop :=
  exists k l', l = (repeat ".." k ++ l')%list /\ Forall plain l' /\ (r = true -> k = 0).

(* the same, for the stack (most recent first) *)
Definition stk (r : bool) (stack : list string) : Prop :=
  exists k s', stack = (s' ++ repeat ".." k)%list /\ Forall plain s' /\ (r = true -> k = 0).

Lemma comp_ok_dotdot : comp_ok "..".
Proof. repeat split; try discriminate. apply no_slash_dotdot. Qed.

Lemma nf_comp_ok : forall r l, nf r l -> Forall comp_ok l.
Proof.
  intros r l (k & l' & -> & Hl' & _). apply Forall_app. split.
  - clear. induction k as [|k IH]; simpl; constructor; [apply comp_ok_dotdot | exact IH].
  - eapply Forall_impl; [|exact Hl']. intros c [H _]. exact H.
Qed.

Lemma comp_ok_no_slash : forall l, Forall comp_ok l -> Forall no_slash l.
Proof. intros l H. eapply Forall_impl; [|exact H]. intros c (_ & _ & Hc). exact Hc. Qed.

Lemma repeat_snoc : forall (x : string) n, (repeat x n ++ [x])%list = x :: repeat x n.
Proof.
  induction n as [|n IH]; simpl.
  - reflexivity.
  - rewrite IH. reflexivity.
Qed.

Lemma rev_repeat_s : forall (x : string) n, rev (repeat x n) = repeat x n.
Proof.
  induction n as [|n IH]; simpl.
  - reflexivity.
  - rewrite IH. apply repeat_snoc.
Qed.

(* ------------------------------------------------------------------ *)
(* clean_comps                                                         *)
(* ------------------------------------------------------------------ *)

Lemma clean_comps_cons : forall root c cs stack,
  clean_comps root (c :: cs) stack =
    if String.eqb c "" || String.eqb c "." then clean_comps root cs stack
    else if String.eqb c ".." then
      match stack with
      | top :: rest => if String.eqb top ".." then clean_comps root cs (c :: stack) else clean_comps root cs rest
      | [] => if root then clean_comps root cs [] else clean_comps root cs [c]
      end
    else clean_comps root cs (c :: stack).
Proof. reflexivity. Qed.

Lemma clean_comps_plain_step : forall r c cs stack,
  plain c -> clean_comps r (c :: cs) stack = clean_comps r cs (c :: stack).
Proof.
  intros r c cs stack [[H1 [H2 _]] H3]. rewrite clean_comps_cons.
  apply String.eqb_neq in H1. apply String.eqb_neq in H2. apply String.eqb_neq in H3.
  rewrite H1, H2, H3. reflexivity.
Qed.

Lemma clean_comps_plain : forall r l stack,
  Forall plain l -> clean_comps r l stack = (rev stack ++ l)%list.
Proof.
  induction l as [|c l IH]; intros stack H.
  - simpl. rewrite app_nil_r. reflexivity.
  - inversion H as [|c' l' Hc Hl]; subst.
    rewrite clean_comps_plain_step by exact Hc.
    rewrite IH by exact Hl. simpl. rewrite <- app_assoc. reflexivity.
Qed.

Lemma clean_comps_dotdots : forall k l' j,
  clean_comps false (repeat ".." k ++ l')%list (repeat ".." j) =
  clean_comps false l' (repeat ".." (k + j)).
Proof.
  induction k as [|k IH]; intros l' j.
  - reflexivity.
  - change (repeat ".." (S k) ++ l')%list with (".." :: (repeat ".." k ++ l'))%list.
    rewrite clean_comps_cons.
    change (String.eqb ".." "" || String.eqb ".." ".") with false.
    change (String.eqb ".." "..") with true. cbv iota.
    destruct j as [|j].
    + change (repeat ".." 0) with (@nil string).
      change [".."] with (repeat ".." 1). rewrite IH.
      replace (k + 1) with (S k + 0) by lia. reflexivity.
    + change (repeat ".." (S j)) with (".." :: repeat ".." j).
      change (String.eqb ".." "..") with true. cbv iota.
      change (".." :: ".." :: repeat ".." j) with (repeat ".." (S (S j))).
      rewrite IH. replace (k + S (S j)) with (S k + S j) by lia. reflexivity.
Qed.

Lemma clean_comps_nf_id : forall r l, nf r l -> clean_comps r l [] = l.
Proof.
  intros r l (k & l' & -> & Hl' & Hk). destruct r.
  - rewrite (Hk eq_refl). simpl. apply clean_comps_plain. exact Hl'.
  - change (@nil string) with (repeat ".." 0) at 1.
    rewrite clean_comps_dotdots. rewrite clean_comps_plain by exact Hl'.
    rewrite rev_repeat_s. replace (k + 0) with k by lia. reflexivity.
Qed.

Lemma clean_comps_nf : forall r cs stack,
  Forall no_slash cs -> stk r stack -> nf r (clean_comps r cs stack).
Proof.
  induction cs as [|c cs IH]; intros stack Hcs Hstk.
  - simpl. destruct Hstk as (k & s' & -> & Hs' & Hk).
    exists k, (rev s'). split; [|split].
    + rewrite rev_app_distr. rewrite rev_repeat_s. reflexivity.
    + apply Forall_rev. exact Hs'.
    + exact Hk.
  - inversion Hcs as [|c' cs' Hc Hcs']; subst.
    rewrite clean_comps_cons.
    destruct (String.eqb_spec c "") as [E1|N1]; [apply IH; assumption|].
    destruct (String.eqb_spec c ".") as [E2|N2]; [apply IH; assumption|].
    cbv [orb].
    destruct (String.eqb_spec c "..") as [E3|N3].
    + subst c. destruct Hstk as (k & s' & -> & Hs' & Hk).
      destruct s' as [|t s''].
      * destruct k as [|k].
        -- change ([] ++ repeat ".." 0)%list with (@nil string).
           destruct r.
           ++ apply IH; [exact Hcs'|]. exists 0, []. repeat split; auto.
           ++ apply IH; [exact Hcs'|]. exists 1, []. repeat split; auto. discriminate.
        -- change ([] ++ repeat ".." (S k))%list with (".." :: repeat ".." k).
           change (String.eqb ".." "..") with true. cbv iota.
           apply IH; [exact Hcs'|]. exists (S (S k)), []. repeat split; auto.
           intro Hr. specialize (Hk Hr). discriminate.
      * change ((t :: s'') ++ repeat ".." k)%list with (t :: (s'' ++ repeat ".." k))%list.
        inversion Hs' as [|t' s3 Ht Hs'']; subst.
        destruct Ht as [_ Ht]. apply String.eqb_neq in Ht. rewrite Ht.
        apply IH; [exact Hcs'|]. exists k, s''. repeat split; auto.
    + apply IH; [exact Hcs'|].
      destruct Hstk as (k & s' & -> & Hs' & Hk).
      exists k, (c :: s'). split; [reflexivity|]. split; [|exact Hk].
      constructor; [|exact Hs']. repeat split; assumption.
Qed.

Lemma stk_nil : forall r, stk r [].
Proof. intro r. exists 0, []. repeat split; auto. Qed.

Lemma clean_comps_split_nf : forall r p, nf r (clean_comps r (split_slash p) []).
Proof. intros r p. apply clean_comps_nf; [apply split_all_noslash | apply stk_nil]. Qed.

Lemma clean_comps_split_join : forall r l,
  nf r l -> clean_comps r (split_slash (join_slash l)) [] = l.
Proof.
  intros r l Hnf. destruct l as [|x l].
  - reflexivity.
  - rewrite split_join.
    + apply clean_comps_nf_id. exact Hnf.
    + discriminate.
    + apply comp_ok_no_slash. eapply nf_comp_ok. exact Hnf.
Qed.

Lemma clean_comps_snoc_empty : forall r cs stack,
  clean_comps r (cs ++ [""])%list stack = clean_comps r cs stack.
Proof.
  induction cs as [|c cs IH]; intro stack.
  - reflexivity.
  - change ((c :: cs) ++ [""])%list with (c :: (cs ++ [""]))%list.
    rewrite !clean_comps_cons.
    destruct (String.eqb c "" || String.eqb c "."); [apply IH|].
    destruct (String.eqb c "..").
    + destruct stack as [|t rest].
      * destruct r; apply IH.
      * destruct (String.eqb t ".."); apply IH.
    + apply IH.
Qed.

(* ------------------------------------------------------------------ *)
(* join_slash of a normal form                                         *)
(* ------------------------------------------------------------------ *)

Lemma rooted_join : forall l, Forall comp_ok l -> rooted (join_slash l) = false.
Proof.
  intros l H. destruct l as [|x l].
  - reflexivity.
  - inversion H as [|x' l' Hx Hl]; subst. destruct Hx as (Hne & _ & Hns).
    destruct x as [|c x]; [congruence|].
    apply no_slash_cons in Hns. destruct Hns as [Hc _]. apply is_slash_false in Hc.
    destruct l as [|y l]; simpl; exact Hc.
Qed.

Lemma join_nonempty : forall l, Forall comp_ok l -> l <> [] -> join_slash l <> "".
Proof.
  intros l H Hne. destruct l as [|x l]; [congruence|].
  inversion H as [|x' l' Hx Hl]; subst. destruct Hx as (Hx & _ & _).
  destruct x as [|c x]; [congruence|].
  destruct l as [|y l]; simpl; discriminate.
Qed.

(* ------------------------------------------------------------------ *)
(* clean                                                               *)
(* ------------------------------------------------------------------ *)

Lemma clean_unfold : forall p, p <> "" ->
  clean p =
    if rooted p then "/" ++ join_slash (clean_comps true (split_slash p) [])
    else let out := join_slash (clean_comps false (split_slash p) []) in
         match out with EmptyString => "." | _ => out end.
Proof.
  intros p H. destruct p as [|c p]; [congruence|].
  unfold clean. destruct (rooted (String c p)); reflexivity.
Qed.

Lemma clean_rooted_nf : forall l, nf true l -> clean ("/" ++ join_slash l) = "/" ++ join_slash l.
Proof.
  intros l Hnf. change ("/" ++ join_slash l) with (String "/" (join_slash l)).
  rewrite clean_unfold by discriminate.
  change (rooted (String "/" (join_slash l))) with true. cbv iota.
  rewrite split_leading_slash. rewrite clean_comps_cons.
  change (String.eqb "" "" || String.eqb "" ".") with true. cbv iota.
  rewrite clean_comps_split_join by exact Hnf. reflexivity.
Qed.

Lemma clean_unrooted_nf : forall l,
  nf false l -> join_slash l <> "" -> clean (join_slash l) = join_slash l.
Proof.
  intros l Hnf Hne. rewrite clean_unfold by exact Hne.
  rewrite rooted_join by (eapply nf_comp_ok; exact Hnf).
  rewrite clean_comps_split_join by exact Hnf. cbv zeta.
  destruct (join_slash l); [congruence | reflexivity].
Qed.

(* every output of clean has one of three shapes *)
Lemma clean_shape : forall p,
  clean p = "." \/
  (exists l, nf true l /\ clean p = "/" ++ join_slash l) \/
  (exists l, nf false l /\ l <> [] /\ clean p = join_slash l).
Proof.
  intro p. destruct (string_dec p "") as [->|Hp]; [left; reflexivity|].
  rewrite (clean_unfold p Hp). destruct (rooted p).
  - right. left. eexists. split; [apply clean_comps_split_nf | reflexivity].
  - pose proof (clean_comps_split_nf false p) as Hnf.
    set (l := clean_comps false (split_slash p) []) in *. cbv zeta.
    destruct (join_slash l) eqn:E.
    + left. reflexivity.
    + right. right. exists l. split; [exact Hnf|]. split.
      * intro Hl. rewrite Hl in E. discriminate.
      * symmetry. exact E.
Qed.

(* 1 *)
Theorem clean_idem : forall p : string, clean (clean p) = clean p.
Proof.
  intro p.
  destruct (clean_shape p) as [E | [(l & Hnf & E) | (l & Hnf & Hne & E)]]; rewrite E.
  - reflexivity.
  - apply clean_rooted_nf. exact Hnf.
  - apply clean_unrooted_nf; [exact Hnf|].
    apply join_nonempty; [eapply nf_comp_ok; exact Hnf | exact Hne].
Qed.

(* 2 *)
Theorem clean_nonempty : forall p, clean p <> EmptyString.
Proof.
  intro p.
  destruct (clean_shape p) as [E | [(l & Hnf & E) | (l & Hnf & Hne & E)]]; rewrite E.
  - discriminate.
  - discriminate.
  - apply join_nonempty; [eapply nf_comp_ok; exact Hnf | exact Hne].
Qed.

(* "//" occurs somewhere in s *)
Fixpoint has_dslash (s : string) : bool :=
  match s with
  | EmptyString => false
  | String c s' => (is_slash c && rooted s') || has_dslash s'
  end.

Lemma has_dslash_witness : forall a b, has_dslash (a ++ "//" ++ b) = true.
Proof.
  induction a as [|c a IH]; intro b.
  - reflexivity.
  - simpl. simpl in IH. rewrite IH. apply orb_true_r.
Qed.

Lemma has_dslash_noslash_app : forall x s, no_slash x -> has_dslash (x ++ s) = has_dslash s.
Proof.
  induction x as [|c x IH]; intros s Hx; simpl.
  - reflexivity.
  - apply no_slash_cons in Hx. destruct Hx as [Hc Hx]. apply is_slash_false in Hc.
    rewrite Hc. simpl. apply IH. exact Hx.
Qed.

Lemma has_dslash_noslash : forall x, no_slash x -> has_dslash x = false.
Proof.
  intros x Hx. rewrite <- (sapp_nil_r x). rewrite has_dslash_noslash_app by exact Hx. reflexivity.
Qed.

Lemma has_dslash_join : forall l, Forall comp_ok l -> has_dslash (join_slash l) = false.
Proof.
  induction l as [|x l IH]; intro H.
  - reflexivity.
  - inversion H as [|x' l' Hx Hl]; subst. destruct Hx as (_ & _ & Hns).
    destruct l as [|y l].
    + simpl. apply has_dslash_noslash. exact Hns.
    + rewrite join_cons2. rewrite has_dslash_noslash_app by exact Hns.
      change ("/" ++ join_slash (y :: l)) with (String "/" (join_slash (y :: l))).
      cbn [has_dslash]. rewrite (rooted_join (y :: l) Hl). rewrite (IH Hl). reflexivity.
Qed.

Theorem clean_no_double_slash : forall p, ~ (exists a b, clean p = (a ++ "//" ++ b)%string).
Proof.
  intros p (a & b & H).
  assert (Hd : has_dslash (clean p) = false).
  { destruct (clean_shape p) as [E | [(l & Hnf & E) | (l & Hnf & Hne & E)]]; rewrite E.
    - reflexivity.
    - change ("/" ++ join_slash l) with (String "/" (join_slash l)). cbn [has_dslash].
      rewrite rooted_join by (eapply nf_comp_ok; exact Hnf).
      rewrite has_dslash_join by (eapply nf_comp_ok; exact Hnf). reflexivity.
    - apply has_dslash_join. eapply nf_comp_ok. exact Hnf. }
  rewrite H in Hd. rewrite has_dslash_witness in Hd. discriminate.
Qed.

(* the last character of s is '/' *)
Fixpoint ends_slash (s : string) : bool :=
  match s with
  | EmptyString => false
  | String c s' => match s' with EmptyString => is_slash c | _ => ends_slash s' end
  end.

Lemma ends_slash_cons : forall c s, s <> "" -> ends_slash (String c s) = ends_slash s.
Proof. intros c s H. destruct s as [|d s]; [congruence | reflexivity]. Qed.

Lemma ends_slash_app : forall x s, s <> "" -> ends_slash (x ++ s) = ends_slash s.
Proof.
  induction x as [|c x IH]; intros s Hs.
  - reflexivity.
  - change (String c x ++ s) with (String c (x ++ s)).
    rewrite ends_slash_cons by (apply sapp_nonempty_r; exact Hs). apply IH. exact Hs.
Qed.

Lemma ends_slash_witness : forall a, ends_slash (a ++ "/") = true.
Proof. intro a. rewrite ends_slash_app by discriminate. reflexivity. Qed.

Lemma ends_slash_noslash : forall x, no_slash x -> ends_slash x = false.
Proof.
  induction x as [|c x IH]; intro Hx.
  - reflexivity.
  - apply no_slash_cons in Hx. destruct Hx as [Hc Hx].
    destruct x as [|d x].
    + simpl. apply is_slash_false. exact Hc.
    + rewrite ends_slash_cons by discriminate. apply IH. exact Hx.
Qed.

Lemma ends_slash_join : forall l, Forall comp_ok l -> ends_slash (join_slash l) = false.
Proof.
  induction l as [|x l IH]; intro H.
  - reflexivity.
  - inversion H as [|x' l' Hx Hl]; subst. destruct Hx as (_ & _ & Hns).
    destruct l as [|y l].
    + simpl. apply ends_slash_noslash. exact Hns.
    + rewrite join_cons2.
      assert (Hj : join_slash (y :: l) <> "") by (apply join_nonempty; [exact Hl | discriminate]).
      rewrite ends_slash_app by (apply sapp_nonempty_r; exact Hj).
      rewrite ends_slash_app by exact Hj. apply IH. exact Hl.
Qed.

Theorem clean_no_trailing_slash : forall p,
  clean p <> "/"%string -> ~ (exists a, clean p = (a ++ "/")%string).
Proof.
  intros p Hroot (a & H).
  assert (He : ends_slash (clean p) = false).
  { destruct (clean_shape p) as [E | [(l & Hnf & E) | (l & Hnf & Hne & E)]]; rewrite E.
    - reflexivity.
    - destruct l as [|x l].
      + exfalso. apply Hroot. rewrite E. reflexivity.
      + assert (Hc : Forall comp_ok (x :: l)) by (eapply nf_comp_ok; exact Hnf).
        rewrite ends_slash_app by (apply join_nonempty; [exact Hc | discriminate]).
        apply ends_slash_join. exact Hc.
    - apply ends_slash_join. eapply nf_comp_ok. exact Hnf. }
  rewrite H in He. rewrite ends_slash_witness in He. discriminate.
Qed.

(* ------------------------------------------------------------------ *)
(* 3. prefixes and the subtree relation                                *)
(* ------------------------------------------------------------------ *)

Theorem has_prefix_spec : forall s pre,
  has_prefix s pre = true <-> exists rest, s = (pre ++ rest)%string.
Proof.
  intros s pre. revert s. induction pre as [|a pre IH]; intro s.
  - simpl. split.
    + intros _. exists s. reflexivity.
    + intros _. destruct s; reflexivity.
  - destruct s as [|b s]; simpl.
    + split; [discriminate|]. intros (rest & H). discriminate.
    + split.
      * intro H. apply andb_true_iff in H. destruct H as [Hab H].
        apply Ascii.eqb_eq in Hab. apply IH in H. destruct H as (rest & ->).
        exists rest. rewrite Hab. reflexivity.
      * intros (rest & H). injection H as Hab Hs. apply andb_true_iff. split.
        -- apply Ascii.eqb_eq. symmetry. exact Hab.
        -- apply IH. exists rest. exact Hs.
Qed.

Theorem is_under_spec : forall p root,
  is_under p root = true <-> p = root \/ exists rest, p = (root ++ "/" ++ rest)%string.
Proof.
  intros p root. unfold is_under. rewrite orb_true_iff. split.
  - intros [H|H].
    + left. apply String.eqb_eq. exact H.
    + right. apply has_prefix_spec in H. destruct H as (rest & H).
      exists rest. rewrite H. apply sapp_assoc.
  - intros [H|(rest & H)].
    + left. apply String.eqb_eq. exact H.
    + right. apply has_prefix_spec. exists rest. rewrite H. symmetry. apply sapp_assoc.
Qed.

(* a sibling whose name merely extends b as a string is not inside b's subtree *)
Theorem siblings_not_confused_strong : forall parent a b,
  no_slash a ->
  is_under (parent ++ "/" ++ a) (parent ++ "/" ++ b) = true -> a = b.
Proof.
  intros parent a b Ha H. apply is_under_spec in H. destruct H as [H|(rest & H)].
  - apply sapp_cancel_l in H. apply sapp_cancel_l in H. exact H.
  - rewrite !sapp_assoc in H. apply sapp_cancel_l in H. apply sapp_cancel_l in H.
    exfalso. rewrite H in Ha. exact (slash_not_no_slash _ _ Ha).
Qed.

Theorem siblings_not_confused : forall parent a b,
  no_slash a -> no_slash b ->
  is_under (parent ++ "/" ++ a) (parent ++ "/" ++ b) = true -> a = b.
Proof. intros parent a b Ha _ H. eapply siblings_not_confused_strong; eassumption. Qed.

Example dir10_not_under_dir1 : is_under "t/dir10" "t/dir1" = false.
Proof. reflexivity. Qed.

(* ------------------------------------------------------------------ *)
(* 4. replace_prefix                                                   *)
(* ------------------------------------------------------------------ *)

Lemma drop_str_app : forall old rest, drop_str (String.length old) (old ++ rest) = rest.
Proof.
  induction old as [|c old IH]; intro rest; simpl.
  - reflexivity.
  - apply IH.
Qed.

Theorem replace_prefix_spec : forall old new rest,
  replace_prefix (old ++ rest) old new = (new ++ rest)%string.
Proof. intros old new rest. unfold replace_prefix. rewrite drop_str_app. reflexivity. Qed.

(* ------------------------------------------------------------------ *)
(* 5. dir                                                              *)
(* ------------------------------------------------------------------ *)

Lemma last_slash_prefix_noslash : forall n acc best,
  no_slash n -> last_slash_prefix n acc best = best.
Proof.
  induction n as [|c n IH]; intros acc best Hn; simpl.
  - reflexivity.
  - apply no_slash_cons in Hn. destruct Hn as [Hc Hn]. apply is_slash_false in Hc.
    rewrite Hc. apply IH. exact Hn.
Qed.

Lemma last_slash_prefix_app : forall a n acc best,
  no_slash n -> last_slash_prefix (a ++ "/" ++ n) acc best = acc ++ a ++ "/".
Proof.
  induction a as [|c a IH]; intros n acc best Hn.
  - simpl. apply last_slash_prefix_noslash. exact Hn.
  - change ((String c a) ++ "/" ++ n) with (String c (a ++ "/" ++ n)).
    cbn [last_slash_prefix]. cbv zeta.
    destruct (is_slash c); rewrite IH by exact Hn; apply sapp_snoc.
Qed.

(* a trailing slash is invisible to clean *)
Lemma clean_trailing_slash : forall p, p <> "" -> clean (p ++ "/") = clean p.
Proof.
  intros p Hp. rewrite (clean_unfold p Hp).
  rewrite clean_unfold by (apply sapp_nonempty_r; discriminate).
  assert (Hr : rooted (p ++ "/") = rooted p).
  { destruct p as [|c p]; [congruence | reflexivity]. }
  rewrite Hr. unfold split_slash. rewrite split_aux_snoc_slash.
  rewrite !clean_comps_snoc_empty. reflexivity.
Qed.

Lemma dir_of_child_gen : forall p n,
  clean p = p -> no_slash n -> dir (p ++ "/" ++ n) = p.
Proof.
  intros p n Hp Hn. unfold dir. rewrite last_slash_prefix_app by exact Hn. simpl.
  assert (Hne : p <> "").
  { intro E. rewrite E in Hp. discriminate. }
  rewrite clean_trailing_slash by exact Hne. exact Hp.
Qed.

Theorem dir_of_child : forall p n,
  clean p = p -> p <> "/"%string -> no_slash n -> n <> EmptyString ->
  n <> "."%string -> n <> ".."%string -> dir (p ++ "/" ++ n) = p.
Proof. intros p n Hp _ Hn _ _ _. apply dir_of_child_gen; assumption. Qed.

Print Assumptions clean_idem.
