(* RingProofs.v — property C11 (rename correlation): the rename-cookie ring of Watcher.v.
   A move reported as IN_MOVED_FROM(cookie c, old) ... IN_MOVED_TO(cookie c, new) yields a Create event for [new]
   carrying [old] as its "renamed from" name, provided fewer than [ring_len] other move-outs were stored in between;
   a move-in never receives a name that was not stored under its own cookie; the limit [ring_len] is sharp. *)
From stdpp Require Import gmap strings list.
From Fsn Require Import PathLex Bytes Tables Doc Watcher System Spec SpecDefs Refine.
Local Open Scope N_scope.

(* ---------------------------------------------------------------- stream semantics *)
Definition is_from (mask : N) : bool := has_all mask IN_MOVED_FROM.
Definition is_to (mask : N) : bool := negb (has_all mask IN_MOVED_FROM) && has_all mask IN_MOVED_TO.
(* the record writes a ring slot *)
Definition stores (r : string * N * N) : bool := is_from r.1.2 && negb (r.2 =? 0).
Definition nstores (recs : list (string * N * N)) : nat := length (filter (λ r, stores r = true) recs).

Fixpoint ring_run (R : ringst) (recs : list (string * N * N)) : ringst * list (string * N * string) :=
  match recs with
  | [] => (R, [])
  | r :: rest =>
    let s := new_event R r.1.1 r.1.2 r.2 in
    let t := ring_run s.1 rest in
    (t.1, s.2 :: t.2)
  end.

Lemma ring_run_app R a b :
  ring_run R (a ++ b) = ((ring_run (ring_run R a).1 b).1, (ring_run R a).2 ++ (ring_run (ring_run R a).1 b).2).
Proof.
  revert R. induction a as [|r a IH]; intros R; simpl.
  - by destruct (ring_run R b).
  - rewrite IH. done.
Qed.

Lemma ring_run_length R recs : length (ring_run R recs).2 = length recs.
Proof. revert R. induction recs as [|r recs IH]; intros R; simpl; [done|]. by rewrite IH. Qed.

Lemma nstores_cons r recs : nstores (r :: recs) = ((if stores r then 1 else 0) + nstores recs)%nat.
Proof.
  unfold nstores. rewrite filter_cons. destruct (stores r); case_decide; simpl; congruence.
Qed.

Lemma nstores_app a b : nstores (a ++ b) = (nstores a + nstores b)%nat.
Proof. unfold nstores. by rewrite filter_app, app_length. Qed.

(* ---------------------------------------------------------------- new_event, case by case *)
Lemma new_event_state R r :
  (new_event R r.1.1 r.1.2 r.2).1 = if stores r then ring_store R r.2 r.1.1 else R.
Proof.
  destruct r as [[n m] c]. unfold new_event, stores, is_from. simpl.
  destruct (c =? 0); simpl; [by rewrite andb_false_r|].
  destruct (has_all m IN_MOVED_FROM); simpl; [done|]. by destruct (has_all m IN_MOVED_TO).
Qed.

Lemma new_event_from R n m c :
  c ≠ 0 → is_from m = true → new_event R n m c = (ring_store R c n, (n, translate m, EmptyString)).
Proof.
  intros Hc Hm. unfold new_event. apply N.eqb_neq in Hc. rewrite Hc.
  unfold is_from in Hm. by rewrite Hm.
Qed.

Lemma new_event_to R n m c :
  c ≠ 0 → is_to m = true → new_event R n m c = (R, (n, translate m, ring_lookup R c)).
Proof.
  intros Hc Hm. unfold new_event. apply N.eqb_neq in Hc. rewrite Hc.
  unfold is_to in Hm. apply andb_true_iff in Hm as [H1 H2]. apply negb_true_iff in H1. by rewrite H1, H2.
Qed.

Lemma new_event_name_op R n m c : (new_event R n m c).2.1 = (n, translate m).
Proof.
  unfold new_event. destruct (c =? 0); [done|]. destruct (has_all m IN_MOVED_FROM); [done|].
  by destruct (has_all m IN_MOVED_TO).
Qed.

(* ---------------------------------------------------------------- 1. well-formedness: the index stays in bounds *)
Definition ring_wf (R : ringst) : Prop := length (rg R) = ring_len ∧ (rg_ix R < ring_len)%nat.

Lemma ring_wf_init : ring_wf init_ring.
Proof. split; [done|]. simpl. unfold ring_len. lia. Qed.

Lemma ring_store_ix R c p : ring_wf R → rg_ix (ring_store R c p) = (S (rg_ix R) mod ring_len)%nat.
Proof.
  intros [_ Hix]. unfold ring_store, ring_len in *. cbn [rg_ix].
  destruct (Nat.ltb_spec 9 (S (rg_ix R))) as [H|H].
  - assert (rg_ix R = 9%nat) as -> by lia. done.
  - symmetry. apply Nat.mod_small. lia.
Qed.

Lemma ring_store_wf R c p : ring_wf R → ring_wf (ring_store R c p).
Proof.
  intros Hwf. split.
  - unfold ring_store. simpl. rewrite insert_length. apply Hwf.
  - rewrite ring_store_ix by done. apply Nat.mod_upper_bound. done.
Qed.

Lemma new_event_wf R n m c : ring_wf R → ring_wf (new_event R n m c).1.
Proof.
  intros Hwf. change (new_event R n m c) with (new_event R (n, m, c).1.1 (n, m, c).1.2 (n, m, c).2).
  rewrite new_event_state. destruct (stores _); [by apply ring_store_wf|done].
Qed.

Lemma ring_run_wf R recs : ring_wf R → ring_wf (ring_run R recs).1.
Proof.
  revert R. induction recs as [|r recs IH]; intros R Hwf; simpl; [done|]. apply IH. by apply new_event_wf.
Qed.

(* ---------------------------------------------------------------- 2. lookup = first slot holding the cookie *)
Theorem ring_lookup_spec R c :
  ring_lookup R c =
  match filter (λ s : N * string, bool_decide (s.1 = c)) (rg R) with s :: _ => s.2 | [] => EmptyString end.
Proof.
  unfold ring_lookup. induction (rg R) as [|x l IH]; [done|].
  rewrite filter_cons. simpl.
  destruct (decide (x.1 = c)) as [E|E].
  - rewrite decide_True by by apply bool_decide_pack. simpl. by destruct x.
  - rewrite decide_False by (intros H; by apply bool_decide_unpack in H).
    rewrite <- IH. destruct (list_find _ l) as [[i [a b]]|]; done.
Qed.

(* the same, by position: the slot found is the first one holding the cookie *)
Lemma ring_lookup_first R c i p :
  rg R !! i = Some (c, p) → (∀ j s, (j < i)%nat → rg R !! j = Some s → s.1 ≠ c) → ring_lookup R c = p.
Proof.
  intros Hi Hlt. unfold ring_lookup.
  assert (list_find (λ s : N * string, s.1 = c) (rg R) = Some (i, (c, p))) as ->; [|done].
  apply list_find_Some. split_and!; [done|done|]. intros j y Hj Hji. by apply (Hlt j).
Qed.

Lemma ring_lookup_absent R c : (∀ s, s ∈ rg R → s.1 ≠ c) → ring_lookup R c = EmptyString.
Proof.
  intros Hno. unfold ring_lookup.
  assert (list_find (λ s : N * string, s.1 = c) (rg R) = None) as ->; [|done].
  apply list_find_None. apply Forall_forall. exact Hno.
Qed.

(* ---------------------------------------------------------------- cookies absent from the ring stay absent *)
Definition absent (R : ringst) (c : N) : Prop := ∀ s, s ∈ rg R → s.1 ≠ c.

Lemma elem_of_list_insert_inv {X} (l : list X) (i : nat) (x y : X) : y ∈ <[i:=x]> l → y = x ∨ y ∈ l.
Proof.
  intros Hy. apply elem_of_list_lookup in Hy as [j Hj].
  apply list_lookup_insert_Some in Hj as [(_ & -> & _)|[_ Hj]]; [by left|].
  right. by apply elem_of_list_lookup_2 in Hj.
Qed.

Lemma absent_init c : c ≠ 0 → absent init_ring c.
Proof. intros Hc s Hs. unfold init_ring in Hs. cbn [rg] in Hs. apply elem_of_replicate in Hs as [-> _]. done. Qed.

Lemma absent_store R c c' p : absent R c → c' ≠ c → absent (ring_store R c' p) c.
Proof.
  intros Ha Hc s Hs. unfold ring_store in Hs. simpl in Hs.
  apply elem_of_list_insert_inv in Hs as [->|Hs]; [done|by apply Ha].
Qed.

Lemma absent_run pre : ∀ R c,
  absent R c → (∀ r, r ∈ pre → r.2 = c → is_from r.1.2 = false) → absent (ring_run R pre).1 c.
Proof.
  induction pre as [|r pre IH]; intros R c Ha Hpre; simpl; [done|].
  apply IH; [|intros; apply Hpre; [by right|done]].
  rewrite new_event_state. destruct (stores r) eqn:Es; [|done].
  apply absent_store; [done|]. intros Hc.
  unfold stores in Es. rewrite (Hpre r) in Es; [done|by left|done].
Qed.

(* ---------------------------------------------------------------- the window invariant *)
(* slot [i] holds (c, p), no other slot holds cookie c, and [k] stores have happened since slot [i] was written *)
Definition holds (R : ringst) (i : nat) (c : N) (p : string) (k : nat) : Prop :=
  ring_wf R ∧ (i < ring_len)%nat ∧ rg_ix R = ((i + 1 + k) mod ring_len)%nat ∧
  rg R !! i = Some (c, p) ∧ ∀ j s, j ≠ i → rg R !! j = Some s → s.1 ≠ c.

Lemma mod_shift_ne i k : (i < ring_len)%nat → (S k < ring_len)%nat → ((i + 1 + k) mod ring_len)%nat ≠ i.
Proof.
  unfold ring_len. intros Hi Hk.
  destruct (decide (i + 1 + k < 10)%nat) as [H|H].
  - rewrite Nat.mod_small by done. lia.
  - replace (i + 1 + k)%nat with ((i + 1 + k - 10) + 1 * 10)%nat by lia.
    rewrite Nat.mod_add by done. rewrite Nat.mod_small by lia. lia.
Qed.

Lemma mod_succ_shift i k : (S ((i + 1 + k) mod ring_len) mod ring_len = (i + 1 + S k) mod ring_len)%nat.
Proof.
  unfold ring_len. replace (i + 1 + S k)%nat with (1 + (i + 1 + k))%nat by lia.
  rewrite (Nat.add_mod 1 (i + 1 + k) 10) by done.
  change (1 mod 10)%nat with 1%nat. done.
Qed.

Lemma holds_first_store R c p : ring_wf R → absent R c → holds (ring_store R c p) (rg_ix R) c p 0.
Proof.
  intros Hwf Ha. pose proof Hwf as [Hlen Hix]. split_and!.
  - by apply ring_store_wf.
  - done.
  - rewrite ring_store_ix by done. f_equal. lia.
  - unfold ring_store. simpl. apply list_lookup_insert. by rewrite Hlen.
  - intros j s Hj Hs. unfold ring_store in Hs. simpl in Hs.
    rewrite list_lookup_insert_ne in Hs by done. apply Ha. by apply elem_of_list_lookup_2 in Hs.
Qed.

Lemma holds_store R i c p k c' p' :
  holds R i c p k → c' ≠ c → (S k < ring_len)%nat → holds (ring_store R c' p') i c p (S k).
Proof.
  intros (Hwf & Hi & Hix & Hslot & Hoth) Hc Hk.
  assert (rg_ix R ≠ i) as Hne by (rewrite Hix; by apply mod_shift_ne).
  split_and!.
  - by apply ring_store_wf.
  - done.
  - rewrite ring_store_ix by done. rewrite Hix. apply mod_succ_shift.
  - unfold ring_store. simpl. by rewrite list_lookup_insert_ne.
  - intros j s Hj Hs. unfold ring_store in Hs. simpl in Hs.
    apply list_lookup_insert_Some in Hs as [(_ & <- & _)|[_ Hs]]; [done|by apply (Hoth j)].
Qed.

Lemma holds_run mid : ∀ R i c p k,
  holds R i c p k →
  (∀ r, r ∈ mid → r.2 = c → is_from r.1.2 = false) →
  (k + nstores mid < ring_len)%nat →
  holds (ring_run R mid).1 i c p (k + nstores mid).
Proof.
  induction mid as [|r mid IH]; intros R i c p k Hh Hmid Hn.
  - simpl. unfold nstores. simpl. by rewrite Nat.add_0_r.
  - simpl. rewrite nstores_cons in *. rewrite new_event_state.
    destruct (stores r) eqn:Es.
    + replace (k + (1 + nstores mid))%nat with (S k + nstores mid)%nat in * by lia.
      apply IH; [|intros; apply Hmid; [by right|done]|done].
      apply holds_store; [done| |lia].
      intros Hc. unfold stores in Es. rewrite (Hmid r) in Es; [done|by left|done].
    + apply IH; [done|intros; apply Hmid; [by right|done]|done].
Qed.

Lemma holds_lookup R i c p k : holds R i c p k → ring_lookup R c = p.
Proof.
  intros (_ & _ & _ & Hslot & Hoth). apply (ring_lookup_first R c i p Hslot).
  intros j s Hj. apply Hoth. lia.
Qed.

(* ---------------------------------------------------------------- 6. a move-out is a Rename *)
Lemma has_any_lor a b k : has_any (N.lor a b) k = has_any a k || has_any b k.
Proof.
  unfold has_any. rewrite N.land_lor_distr_l. rewrite <- negb_andb. f_equal.
  destruct (N.eqb_spec (N.land a k) 0) as [Ea|Ea], (N.eqb_spec (N.land b k) 0) as [Eb|Eb]; simpl;
    try (apply N.eqb_neq; intros H; apply N.lor_eq_0_iff in H; tauto).
  apply N.eqb_eq. apply N.lor_eq_0_iff. done.
Qed.

Lemma has_any_doc_union (d : doc) f o m k :
  (f, o) ∈ d → has_all m f = true → has_any o k = true → has_any (doc_union d m) k = true.
Proof.
  intros Hin Hf Ho. induction d as [|[f' o'] d IH]; [by apply elem_of_nil in Hin|].
  rewrite doc_union_cons, has_any_lor. apply orb_true_iff.
  apply elem_of_cons in Hin as [E|Hin].
  - left. inversion E; subst f' o'. unfold Bits.subN. unfold has_all in Hf. rewrite N.land_comm, Hf. done.
  - right. by apply IH.
Qed.

Theorem moved_from_is_rename m : has_all m IN_MOVED_FROM = true → has_any (translate m) Rename = true.
Proof.
  intros Hm. unfold translate. apply (has_any_doc_union inotify_doc IN_MOVED_FROM Rename); [|done|done].
  unfold inotify_doc. set_solver.
Qed.

Theorem moved_to_is_create m : has_all m IN_MOVED_TO = true → has_any (translate m) Create = true.
Proof.
  intros Hm. unfold translate. apply (has_any_doc_union inotify_doc IN_MOVED_TO Create); [|done|done].
  unfold inotify_doc. set_solver.
Qed.

(* ---------------------------------------------------------------- 3. the window theorem *)
(* A move-out with cookie c followed by a move-in with cookie c is paired, whatever happens before, after and in
   between, as long as fewer than ring_len (10) other move-outs are stored in between and none reuses cookie c. *)
Theorem C11_window R pre old mfrom c mid new mto post :
  ring_wf R →
  (∀ s, s ∈ rg R → s.1 ≠ c) →
  c ≠ 0 → is_from mfrom = true → is_to mto = true →
  (∀ r, r ∈ pre ++ mid → r.2 = c → is_from r.1.2 = false) →
  (nstores mid < ring_len)%nat →
  let out := (ring_run R (pre ++ [(old, mfrom, c)] ++ mid ++ [(new, mto, c)] ++ post)).2 in
  length out = (length pre + 1 + length mid + 1 + length post)%nat ∧
  out !! length pre = Some (old, translate mfrom, EmptyString) ∧
  has_any (translate mfrom) Rename = true ∧
  out !! (length pre + 1 + length mid)%nat = Some (new, translate mto, old) ∧
  has_any (translate mto) Create = true.
Proof.
  intros Hwf Habs Hc Hfrom Hto Hno Hn out.
  assert (ring_wf (ring_run R pre).1) as Hwf1 by by apply ring_run_wf.
  assert (absent (ring_run R pre).1 c) as Habs1.
  { apply absent_run; [done|]. intros r Hr. apply Hno. apply elem_of_app. by left. }
  set (R1 := (ring_run R pre).1) in *.
  assert (holds (ring_run (ring_store R1 c old) mid).1 (rg_ix R1) c old (0 + nstores mid)) as Hh.
  { apply holds_run; [by apply holds_first_store| |done].
    intros r Hr. apply Hno. apply elem_of_app. by right. }
  apply holds_lookup in Hh.
  split_and!.
  - subst out. rewrite ring_run_length, !app_length. simpl. lia.
  - subst out. rewrite ring_run_app. cbn [snd].
    rewrite lookup_app_r by (rewrite ring_run_length; lia).
    rewrite ring_run_length, Nat.sub_diag. simpl. fold R1.
    by rewrite (new_event_from R1 old mfrom c Hc Hfrom).
  - by apply moved_from_is_rename.
  - subst out. rewrite ring_run_app. cbn [snd].
    rewrite lookup_app_r by (rewrite ring_run_length; lia).
    rewrite ring_run_length. fold R1.
    replace (length pre + 1 + length mid - length pre)%nat with (S (length mid)) by lia.
    simpl. rewrite (new_event_from R1 old mfrom c Hc Hfrom). cbn [fst].
    rewrite ring_run_app. cbn [snd].
    rewrite lookup_app_r by (rewrite ring_run_length; lia).
    rewrite ring_run_length, Nat.sub_diag. simpl.
    rewrite (new_event_to _ new mto c Hc Hto). simpl. by rewrite Hh.
  - apply moved_to_is_create. unfold is_to in Hto. by apply andb_true_iff in Hto as [_ ?].
Qed.

(* ---------------------------------------------------------------- 4. no false partner *)
(* A move-in whose cookie was never stored gets no old name, however many unmatched move-outs precede it. *)
Theorem C11_no_false_partner R pre new mto c post :
  c ≠ 0 →
  (∀ s, s ∈ rg R → s.1 ≠ c) →
  (∀ r, r ∈ pre → r.2 = c → is_from r.1.2 = false) →
  is_to mto = true →
  (ring_run R (pre ++ [(new, mto, c)] ++ post)).2 !! length pre = Some (new, translate mto, EmptyString).
Proof.
  intros Hc Habs Hpre Hto.
  assert (absent (ring_run R pre).1 c) as Habs1 by by apply absent_run.
  rewrite ring_run_app. cbn [snd].
  rewrite lookup_app_r by (rewrite ring_run_length; lia).
  rewrite ring_run_length, Nat.sub_diag. simpl.
  rewrite (new_event_to _ new mto c Hc Hto). simpl. by rewrite ring_lookup_absent.
Qed.

(* a notification without cookie (plain create, hard link, ...) never gets an old name and never disturbs the ring *)
Theorem C11_cookie_zero R name mask :
  (new_event R name mask 0).2.2 = EmptyString ∧ (new_event R name mask 0).1 = R.
Proof. done. Qed.

Theorem C11_only_moved_to R name mask c :
  has_all mask IN_MOVED_TO = false → (new_event R name mask c).2.2 = EmptyString.
Proof.
  intros Hm. unfold new_event. destruct (c =? 0); [done|]. destruct (has_all mask IN_MOVED_FROM); [done|].
  by rewrite Hm.
Qed.

(* only a pure move-in (MOVED_TO without MOVED_FROM) with a cookie can carry an old name *)
Theorem C11_from_only_is_to R name mask c :
  (new_event R name mask c).2.2 ≠ EmptyString → c ≠ 0 ∧ is_to mask = true.
Proof.
  unfold new_event, is_to. destruct (N.eqb_spec c 0) as [->|Hc]; [done|].
  destruct (has_all mask IN_MOVED_FROM); [done|]. destruct (has_all mask IN_MOVED_TO); done.
Qed.

(* soundness of the partner: a non-empty old name was stored under the same cookie, either in the initial ring
   or by a storing record of the prefix *)
Lemma ring_lookup_elem R c p : ring_lookup R c = p → p ≠ EmptyString → (c, p) ∈ rg R.
Proof.
  unfold ring_lookup. intros Hl Hp.
  destruct (list_find _ (rg R)) as [[i [c' p']]|] eqn:E; [|congruence].
  apply list_find_Some in E as (Hi & Hc & _). simpl in Hc. subst. by apply elem_of_list_lookup_2 in Hi.
Qed.

Lemma run_slots pre : ∀ R s,
  s ∈ rg (ring_run R pre).1 → s ∈ rg R ∨ ∃ r, r ∈ pre ∧ stores r = true ∧ s = (r.2, r.1.1).
Proof.
  induction pre as [|r pre IH]; intros R s Hs; simpl in Hs; [by left|].
  apply IH in Hs as [Hs|(r' & Hr' & Hst & ->)].
  - rewrite new_event_state in Hs. destruct (stores r) eqn:Es; [|by left].
    unfold ring_store in Hs. simpl in Hs. apply elem_of_list_insert_inv in Hs as [->|Hs]; [|by left].
    right. exists r. split_and!; [by left|done|done].
  - right. exists r'. split_and!; [by right|done|done].
Qed.

Theorem C11_partner_sound R pre new m c post p :
  (ring_run R (pre ++ [(new, m, c)] ++ post)).2 !! length pre = Some (new, translate m, p) →
  p ≠ EmptyString →
  c ≠ 0 ∧ is_to m = true ∧
  ((c, p) ∈ rg R ∨ ∃ r, r ∈ pre ∧ stores r = true ∧ r.2 = c ∧ r.1.1 = p).
Proof.
  intros Hout Hp. rewrite ring_run_app in Hout. cbn [snd] in Hout.
  rewrite lookup_app_r in Hout by (rewrite ring_run_length; lia).
  rewrite ring_run_length, Nat.sub_diag in Hout. simpl in Hout.
  assert ((new_event (ring_run R pre).1 new m c).2.2 = p) as Hev by (inversion Hout as [H]; by rewrite H).
  destruct (C11_from_only_is_to (ring_run R pre).1 new m c) as [Hc Hto]; [by rewrite Hev|].
  split_and!; [done|done|].
  rewrite (new_event_to _ new m c Hc Hto) in Hev. simpl in Hev.
  apply ring_lookup_elem in Hev; [|done].
  apply run_slots in Hev as [?|(r & Hr & Hst & E)]; [by left|].
  right. exists r. inversion E. done.
Qed.

(* ---------------------------------------------------------------- 5. the limit is real *)
(* With exactly ring_len stores between the two halves of the move, the slot has been overwritten: the
   move-in comes out as a bare Create without old name.  (Known finding: recorded, not a defect of the proof.) *)
Theorem C11_full_refuted : ∃ R pre old mfrom c mid new mto post,
  ring_wf R ∧ (∀ s, s ∈ rg R → s.1 ≠ c) ∧
  c ≠ 0 ∧ is_from mfrom = true ∧ is_to mto = true ∧
  (∀ r, r ∈ pre ++ mid → r.2 = c → is_from r.1.2 = false) ∧
  nstores mid = ring_len ∧
  length (pre ++ [(old, mfrom, c)] ++ mid ++ [(new, mto, c)] ++ post) = 12%nat ∧
  (ring_run R (pre ++ [(old, mfrom, c)] ++ mid ++ [(new, mto, c)] ++ post)).2
    !! (length pre + 1 + length mid)%nat = Some (new, translate mto, EmptyString).
Proof.
  exists init_ring, [], "/d/old"%string, IN_MOVED_FROM, 1.
  exists [("/d/f0"%string, IN_MOVED_FROM, 2); ("/d/f1"%string, IN_MOVED_FROM, 3);
          ("/d/f2"%string, IN_MOVED_FROM, 4); ("/d/f3"%string, IN_MOVED_FROM, 5);
          ("/d/f4"%string, IN_MOVED_FROM, 6); ("/d/f5"%string, IN_MOVED_FROM, 7);
          ("/d/f6"%string, IN_MOVED_FROM, 8); ("/d/f7"%string, IN_MOVED_FROM, 9);
          ("/d/f8"%string, IN_MOVED_FROM, 10); ("/d/f9"%string, IN_MOVED_FROM, 11)].
  exists "/d/new"%string, IN_MOVED_TO, [].
  split_and!.
  - apply ring_wf_init.
  - by apply absent_init.
  - done.
  - done.
  - done.
  - intros r Hr Hc. simpl in Hr. repeat (apply elem_of_cons in Hr as [->|Hr]; [done|]).
    by apply elem_of_nil in Hr.
  - vm_compute. reflexivity.
  - vm_compute. reflexivity.
  - vm_compute. reflexivity.
Qed.

(* ---------------------------------------------------------------- non-vacuity *)
Example ring_run_example :
  (ring_run init_ring [("/d/a"%string, IN_MOVED_FROM, 7); ("/d/x"%string, IN_CREATE, 0);
                       ("/d/b"%string, IN_MOVED_TO, 7)]).2
  = [("/d/a"%string, Rename, EmptyString); ("/d/x"%string, Create, EmptyString);
     ("/d/b"%string, Create, "/d/a"%string)].
Proof. vm_compute. reflexivity. Qed.

(* the hypotheses of C11_window are satisfiable: the theorem instantiated on that stream *)
Example C11_window_example :
  let out := (ring_run init_ring ([] ++ [("/d/a"%string, IN_MOVED_FROM, 7)] ++ [("/d/x"%string, IN_CREATE, 0)]
                                     ++ [("/d/b"%string, IN_MOVED_TO, 7)] ++ [])).2 in
  out !! 2%nat = Some ("/d/b"%string, translate IN_MOVED_TO, "/d/a"%string).
Proof.
  intros out.
  refine (proj1 (proj2 (proj2 (proj2 (C11_window init_ring [] "/d/a" IN_MOVED_FROM 7
            [("/d/x"%string, IN_CREATE, 0)] "/d/b" IN_MOVED_TO [] ring_wf_init _ _ _ _ _ _))))).
  - by apply absent_init.
  - done.
  - done.
  - done.
  - intros r Hr Hc. simpl in Hr. apply elem_of_list_singleton in Hr as ->. done.
  - vm_compute. lia.
Qed.

(* unmatched move-outs, then a move-in with a fresh cookie: no partner *)
Example C11_no_false_partner_example :
  (ring_run init_ring ([("/d/a"%string, IN_MOVED_FROM, 7); ("/d/b"%string, IN_MOVED_FROM, 8)]
                        ++ [("/d/c"%string, IN_MOVED_TO, 9)] ++ [])).2 !! 2%nat
  = Some ("/d/c"%string, Create, EmptyString).
Proof. vm_compute. reflexivity. Qed.

Print Assumptions C11_window.
Print Assumptions C11_no_false_partner.
Print Assumptions C11_partner_sound.
Print Assumptions C11_full_refuted.
Print Assumptions ring_lookup_spec.
