(* System.v — the closed system: abstract inotify kernel + watcher bookkeeping + delivered outputs,
   driven by histories of API calls, kernel-side events and reader steps.  Executable; no proofs here. *)
From stdpp Require Import gmap strings list.
From Fsn Require Import PathLex Bytes Tables Doc Watcher.
Local Open Scope N_scope.

Record sys := mkSys {
  K : kernel;
  W : wstate;
  outs : list output;         (* everything sent on Events / Errors, in send order *)
  handled : list raw;         (* the notifications the reader has handled so far, in order *)
}.

Definition init_sys : sys := mkSys init_k init_w [] [].

(* constant configuration of a run *)
Record config := mkCfg { c_recurse : bool; c_cwd : string }.

Inductive api_result := RNil | RErr (e : err) | RList (l : list string).

Inductive step :=
(* API calls (each runs under the watcher's mutex: atomic, see Conc.v) *)
| SAdd (arg : string) (ops : N) (nofollow : bool) (walk : list (string * resolution))
    (* [walk]: the paths inotify_add_watch will be called on with what they resolve to — the single cleaned
       argument for an ordinary Add; for a recursive Add, the directories WalkDir visits, in order *)
| SRemove (arg : string)
| SList
(* kernel side *)
| KEmit (r : raw)             (* a notification for a live mark is queued *)
| KRelease (wd : N) (ds : bool)
    (* the inode of a mark is freed: the mark is dropped and IN_IGNORED queued, preceded by IN_DELETE_SELF when [ds]
       (i.e. when the mark subscribed to it).  The kernel never reports IN_DELETE_SELF without dropping the mark. *)
| KOverflow                   (* the queue overflowed: IN_Q_OVERFLOW record *)
(* reader *)
| SHandle (dirs : list (string * N))      (* the reader handles the next queued notification *)
| SInject (r : raw) (dirs : list (string * N)).   (* fault: the reader is handed a record the kernel never queued *)

Definition delete_self_rec (wd : N) : raw := mkRaw wd IN_DELETE_SELF 0 0 EmptyString.
Definition overflow_rec : raw := mkRaw 4294967295 IN_Q_OVERFLOW 0 0 EmptyString.

Definition request_flags (ops : N) (nofollow : bool) : N :=
  doc_union inotify_needs (N.lor ops (if nofollow then NOFOLLOW_INPUT else 0)).

(* coalescing: an event identical to the queue tail is dropped by the kernel; the history only contains what was
   actually queued, so KEmit appends *)
Definition k_emit (k : kernel) (r : raw) : kernel := mkK (marks k) (next_wd k) (kq k ++ [r]).

(* is this kernel-side step allowed by the inotify contract? (K3: only live marks are reported) *)
Definition env_ok (s : sys) (st : step) : bool :=
  match st with
  | KEmit r => bool_decide (is_Some (marks (K s) !! r_wd r))
               && negb (has_any (r_mask r) (N.lor IN_IGNORED (N.lor IN_Q_OVERFLOW (N.lor IN_DELETE_SELF IN_UNMOUNT))))
               && raw_wf r
  | KRelease wd _ => bool_decide (is_Some (marks (K s) !! wd))
  | _ => true
  end.

Fixpoint add_walk (W : wstate) (K : kernel) (flags : N) (rec : bool) (walk : list (string * resolution))
  : wstate * kernel * option err :=
  match walk with
  | [] => (W, K, None)
  | (p, res) :: rest =>
    let '(W1, K1, e) := register W K p flags rec res in
    match e with Some _ => (W1, K1, e) | None => add_walk W1 K1 flags rec rest end
  end.

Definition do_handle (cfg : config) (s : sys) (dirs : list (string * N)) (r : raw) (queue : list raw) : sys :=
  let '(W1, K1, o) := handle (c_recurse cfg) (c_cwd cfg) (W s) (mkK (marks (K s)) (next_wd (K s)) queue) dirs r in
  mkSys K1 W1 (outs s ++ o) (handled s ++ [r]).

Definition sys_step (cfg : config) (s : sys) (st : step) : sys * api_result :=
  match st with
  | SAdd arg ops nofollow walk =>
    let '(path, rec) := recursive_path (c_recurse cfg) arg in
    let flags := request_flags ops nofollow in
    let '(W1, K1, e) :=
      if rec then add_walk (W s) (K s) flags true walk
      else match walk with
           | (_, res) :: _ => register (W s) (K s) path flags false res     (* the path is the model's own Clean *)
           | [] => (W s, K s, Some (ErrNo ENOENT))
           end in
    (mkSys K1 W1 (outs s) (handled s), match e with Some x => RErr x | None => RNil end)
  | SRemove arg =>
    let '(W1, K1, e) := remove (c_recurse cfg) (W s) (K s) (clean arg) in
    (mkSys K1 W1 (outs s) (handled s), match e with Some x => RErr x | None => RNil end)
  | SList => (s, RList (watch_list (W s)))
  | KEmit r => (mkSys (k_emit (K s) r) (W s) (outs s) (handled s), RNil)
  | KRelease wd ds =>
    (mkSys (mkK (delete wd (marks (K s))) (next_wd (K s))
                (kq (K s) ++ (if ds then [delete_self_rec wd] else []) ++ [ignored_rec wd])) (W s) (outs s) (handled s), RNil)
  | KOverflow => (mkSys (k_emit (K s) overflow_rec) (W s) (outs s) (handled s), RNil)
  | SHandle dirs =>
    match kq (K s) with
    | [] => (s, RNil)
    | r :: q => (do_handle cfg s dirs r q, RNil)
    end
  | SInject r dirs => (do_handle cfg s dirs r (kq (K s)), RNil)
  end.

Fixpoint run (cfg : config) (h : list step) (s : sys) : sys * list api_result :=
  match h with
  | [] => (s, [])
  | st :: h' => let '(s1, r) := sys_step cfg s st in
                let '(s2, rs) := run cfg h' s1 in (s2, r :: rs)
  end.

(* a history the inotify contract allows *)
Fixpoint valid (cfg : config) (h : list step) (s : sys) : bool :=
  match h with
  | [] => true
  | st :: h' => env_ok s st && valid cfg h' (fst (sys_step cfg s st))
  end.

Definition evs (s : sys) : list (string * N * string) :=
  omap (λ o, match o with OEv n op f => Some (n, op, f) | _ => None end) (outs s).
Definition errs (s : sys) : list err :=
  omap (λ o, match o with OErr e => Some e | _ => None end) (outs s).
Definition quiescent (s : sys) : bool := bool_decide (kq (K s) = []).
