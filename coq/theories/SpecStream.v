(* SpecStream.v — what the reader delivers, per notification and per history, in the abstract specification
   (Spec.v): nothing is lost, nothing is invented, order is the kernel's queue order, and Errors carries only
   genuine failures (queue overflow). *)
From stdpp Require Import gmap strings list.
From Fsn Require Import PathLex Bytes Tables Doc Watcher System Spec SpecDefs Refine.
Local Open Scope N_scope.

(* ------------------------------------------------------------------ explicit form of what one record appends *)
Definition pre_outs (r : raw) : list output :=
  if has_any (r_mask r) IN_Q_OVERFLOW then [OErr ErrEventOverflow] else [].

Definition rec_name (x : aw) (r : raw) : string :=
  if r_len r =? 0 then a_path x else a_path x +:+ "/" +:+ r_name r.

Definition deliver_outs (a : spec) (r : raw) (q : list raw) : list output :=
  match sA a !! r_wd r with
  | None => []
  | Some x =>
    if has_any (r_mask r) IN_IGNORED || has_any (r_mask r) IN_UNMOUNT then []
    else (spec_deliver (spec_end_of_watch (mkK (marks (sK a)) (next_wd (sK a)) q) (sA a) (r_wd r) (r_mask r)).2
            (sR a) x r (rec_name x r)).2
  end.

Lemma spec_handle_souts a r q : souts (spec_handle a r q) = souts a ++ pre_outs r ++ deliver_outs a r q.
Proof.
  unfold spec_handle, deliver_outs, pre_outs, rec_name.
  destruct (sA a !! r_wd r) as [x|]; [|done].
  destruct (has_any (r_mask r) IN_IGNORED || has_any (r_mask r) IN_UNMOUNT); [done|].
  destruct (spec_end_of_watch _ _ _ _) as [K1 A1]. simpl.
  destruct (spec_deliver _ _ _ _ _) as [R1 o]. done.
Qed.

Lemma handle_outs_eq a r q : handle_outs a r q = pre_outs r ++ deliver_outs a r q.
Proof. unfold handle_outs. by rewrite spec_handle_souts, drop_app. Qed.

(* 1 *)
Lemma handle_outs_spec : forall a r q, souts (spec_handle a r q) = souts a ++ handle_outs a r q.
Proof. intros. by rewrite handle_outs_eq, spec_handle_souts. Qed.

Lemma handle_handled : forall a r q, shandled (spec_handle a r q) = shandled a ++ [r].
Proof.
  intros a r q. unfold spec_handle.
  destruct (sA a !! r_wd r) as [x|]; [|done].
  destruct (has_any (r_mask r) IN_IGNORED || has_any (r_mask r) IN_UNMOUNT); [done|].
  destruct (spec_end_of_watch _ _ _ _) as [K1 A1].
  destruct (spec_deliver _ _ _ _ _) as [R1 o]. done.
Qed.

(* ------------------------------------------------------------------ projections *)
Lemma ev_list_app l k : ev_list (l ++ k) = ev_list l ++ ev_list k.
Proof. apply omap_app. Qed.
Lemma err_list_app l k : err_list (l ++ k) = err_list l ++ err_list k.
Proof. apply omap_app. Qed.

Lemma ev_list_pre r : ev_list (pre_outs r) = [].
Proof. unfold pre_outs. by destruct (has_any _ _). Qed.
Lemma err_list_pre r : err_list (pre_outs r) = if has_any (r_mask r) IN_Q_OVERFLOW then [ErrEventOverflow] else [].
Proof. unfold pre_outs. by destruct (has_any _ _). Qed.
Lemma err_list_ev_out e : err_list (ev_out e) = [].
Proof. destruct e as [[n op] f]. simpl. by destruct (op =? 0). Qed.

Lemma new_event_shape R n m c : (new_event R n m c).2.1 = (n, translate m).
Proof. unfold new_event. repeat case_match; done. Qed.

Lemma spec_deliver_outs A1 R x r name :
  (spec_deliver A1 R x r name).2 =
  if has_any (r_mask r) IN_DELETE_SELF && bool_decide (is_Some (find_path A1 (dir (a_path x)))) then []
  else ev_out (name, translate (r_mask r), (new_event R name (r_mask r) (r_cookie r)).2.2).
Proof.
  unfold spec_deliver. destruct (_ && _); [done|].
  pose proof (new_event_shape R name (r_mask r) (r_cookie r)) as Hs.
  destruct (new_event R name (r_mask r) (r_cookie r)) as [R1 [[n' op'] f']]. simpl in *.
  by inversion Hs.
Qed.

Lemma err_list_deliver a r q : err_list (deliver_outs a r q) = [].
Proof.
  unfold deliver_outs. destruct (sA a !! r_wd r) as [x|]; [|done].
  destruct (_ || _); [done|]. rewrite spec_deliver_outs.
  destruct (_ && _); [done|]. apply err_list_ev_out.
Qed.

(* 2 *)
Theorem handle_errors : forall a r q,
  err_list (handle_outs a r q) = if has_any (r_mask r) IN_Q_OVERFLOW then [ErrEventOverflow] else [].
Proof.
  intros. rewrite handle_outs_eq, err_list_app, err_list_pre, err_list_deliver. by rewrite app_nil_r.
Qed.

Lemma ev_list_handle a r q : ev_list (handle_outs a r q) = ev_list (deliver_outs a r q).
Proof. by rewrite handle_outs_eq, ev_list_app, ev_list_pre. Qed.

Lemma ev_list_ev_out n op f : ev_list (ev_out (n, op, f)) = if op =? 0 then [] else [(n, op, f)].
Proof. simpl. by destruct (op =? 0). Qed.

(* 3 *)
Theorem handle_at_most_one_event : forall a r q, (length (ev_list (handle_outs a r q)) <= 1)%nat.
Proof.
  intros. rewrite ev_list_handle. unfold deliver_outs.
  destruct (sA a !! r_wd r) as [x|]; [|simpl; lia].
  destruct (_ || _); [simpl; lia|]. rewrite spec_deliver_outs.
  destruct (_ && _); [simpl; lia|]. rewrite ev_list_ev_out. destruct (_ =? 0); simpl; lia.
Qed.

(* 4: every event has a non-empty operation set, is named after a currently listed path or one entry below it,
   and is never caused by kernel housekeeping *)
Theorem handle_event_shape : forall a r q n op f,
  (n, op, f) ∈ ev_list (handle_outs a r q) ->
  exists x, sA a !! r_wd r = Some x /\ op = translate (r_mask r) /\ op <> 0 /\
    n = (if r_len r =? 0 then a_path x else a_path x +:+ "/" +:+ r_name r) /\
    has_any (r_mask r) IN_IGNORED = false /\ has_any (r_mask r) IN_UNMOUNT = false.
Proof.
  intros a r q n op f. rewrite ev_list_handle. unfold deliver_outs.
  destruct (sA a !! r_wd r) as [x|]; [|by intros ?%elem_of_nil].
  destruct (_ || _) eqn:Eh; [by intros ?%elem_of_nil|]. apply orb_false_elim in Eh as [Ei Eu].
  rewrite spec_deliver_outs. destruct (_ && _); [by intros ?%elem_of_nil|].
  rewrite ev_list_ev_out. destruct (translate (r_mask r) =? 0) eqn:Ez; [by intros ?%elem_of_nil|].
  intros Hin%elem_of_list_singleton. inversion Hin; subst. apply N.eqb_neq in Ez.
  exists x. done.
Qed.

(* 5: nothing is lost *)
Theorem handle_delivers : forall a r q x,
  sA a !! r_wd r = Some x -> has_any (r_mask r) IN_IGNORED = false -> has_any (r_mask r) IN_UNMOUNT = false ->
  translate (r_mask r) <> 0 ->
  (has_any (r_mask r) IN_DELETE_SELF = true ->
   find_path (spec_end_of_watch (mkK (marks (sK a)) (next_wd (sK a)) q) (sA a) (r_wd r) (r_mask r)).2 (dir (a_path x)) = None) ->
  exists f, ev_list (handle_outs a r q) =
    [((if r_len r =? 0 then a_path x else a_path x +:+ "/" +:+ r_name r), translate (r_mask r), f)].
Proof.
  intros a r q x Hx Hi Hu Ht Hd. rewrite ev_list_handle. unfold deliver_outs. rewrite Hx, Hi, Hu. simpl.
  rewrite spec_deliver_outs.
  destruct (has_any (r_mask r) IN_DELETE_SELF) eqn:Eds; simpl.
  - specialize (Hd eq_refl). simpl in Hd. rewrite Hd. rewrite bool_decide_false by (by intros [? ?]).
    fold (ev_out (rec_name x r, translate (r_mask r), (new_event (sR a) (rec_name x r) (r_mask r) (r_cookie r)).2.2)).
    rewrite ev_list_ev_out. apply N.eqb_neq in Ht. rewrite Ht. eexists. done.
  - fold (ev_out (rec_name x r, translate (r_mask r), (new_event (sR a) (rec_name x r) (r_mask r) (r_cookie r)).2.2)).
    rewrite ev_list_ev_out. apply N.eqb_neq in Ht. rewrite Ht. eexists. done.
Qed.

(* 6 *)
Theorem housekeeping_silent : forall a r q,
  has_any (r_mask r) IN_IGNORED = true \/ has_any (r_mask r) IN_UNMOUNT = true -> ev_list (handle_outs a r q) = [].
Proof.
  intros a r q H. rewrite ev_list_handle. unfold deliver_outs. destruct (sA a !! r_wd r); [|done].
  destruct H as [-> | ->]; [done|]. by rewrite orb_true_r.
Qed.

Theorem unknown_wd_silent : forall a r q, sA a !! r_wd r = None -> ev_list (handle_outs a r q) = [].
Proof. intros a r q H. rewrite ev_list_handle. unfold deliver_outs. by rewrite H. Qed.

Theorem overflow_marker : forall a q, (forall wd, is_Some (sA a !! wd) -> wd < 4294967295) ->
  ev_list (handle_outs a overflow_rec q) = [] /\ err_list (handle_outs a overflow_rec q) = [ErrEventOverflow].
Proof.
  intros a q Hb. split.
  - apply unknown_wd_silent. simpl. destruct (sA a !! 4294967295) eqn:E; [|done].
    assert (4294967295 < 4294967295) by (apply Hb; by eexists). lia.
  - rewrite handle_errors. done.
Qed.

(* ------------------------------------------------------------------ 7: log discipline *)
Lemma spec_run_cons st h a : (spec_run (st :: h) a).1 = (spec_run h (spec_step a st).1).1.
Proof. cbn [spec_run]. destruct (spec_step a st) as [s1 r]. cbn [fst]. destruct (spec_run h s1). done. Qed.

(* outputs are only ever appended, by the handling of one record at a time: API calls and kernel-side steps
   deliver nothing *)
Theorem step_log_strong : forall a st, let a' := (spec_step a st).1 in
  (shandled a' = shandled a /\ souts a' = souts a) \/
  (exists r q, shandled a' = shandled a ++ [r] /\ souts a' = souts a ++ handle_outs a r q /\
     ((exists d, st = SInject r d /\ q = kq (sK a)) \/ (exists d, st = SHandle d /\ kq (sK a) = r :: q))).
Proof.
  intros a st. destruct st as [arg ops nf walk|arg| |r|wd ds| |d|r d]; simpl.
  - destruct walk as [|[p res] w]; [by left|]. unfold spec_add.
    destruct (spec_add_core _ _ _ _ _) as [[k A] rr]. by left.
  - unfold spec_remove. destruct (spec_remove_core _ _ _) as [[k A] rr]. by left.
  - by left.
  - by left.
  - by left.
  - by left.
  - destruct (kq (sK a)) as [|r q] eqn:E; [by left|]. right. exists r, q. simpl.
    rewrite handle_handled, handle_outs_spec. split_and!; [done|done|]. right. by exists d.
  - right. exists r, (kq (sK a)). rewrite handle_handled, handle_outs_spec. split_and!; [done|done|]. left. by exists d.
Qed.

Theorem step_log : forall a st, let a' := (spec_step a st).1 in
  (shandled a' = shandled a /\ souts a' = souts a) \/
  (exists r q, shandled a' = shandled a ++ [r] /\ souts a' = souts a ++ handle_outs a r q /\
     (st = SInject r (match st with SInject _ d => d | _ => [] end) \/ exists d, st = SHandle d /\ kq (sK a) = r :: q)).
Proof.
  intros a st a'. destruct (step_log_strong a st) as [H|(r & q & H1 & H2 & H3)]; [by left|].
  right. exists r, q. split_and!; [done|done|].
  destruct H3 as [(d & -> & _)|H3]; [by left|by right].
Qed.

(* the kernel queue is popped only at its head and pushed only at its tail *)
Definition housekeeping_rec (r : raw) : Prop := exists wd, r = ignored_rec wd \/ r = delete_self_rec wd.

Lemma add_watch_kq k res : kq (add_watch k res).1 = kq k.
Proof. unfold add_watch. destruct res as [e|ino]; [done|]. by destruct (find_mark k ino). Qed.

Lemma rm_watch_kq k wd : exists g, kq (rm_watch k wd).1 = kq k ++ g /\ forall r, r ∈ g -> housekeeping_rec r.
Proof.
  unfold rm_watch. destruct (marks k !! wd); simpl.
  - exists [ignored_rec wd]. split; [done|]. intros r ->%elem_of_list_singleton. exists wd. by left.
  - exists []. rewrite app_nil_r. split; [done|]. by intros r ?%elem_of_nil.
Qed.

Lemma gain_nil (l : list raw) (P : raw -> Prop) : exists g, l = l ++ g /\ forall r, r ∈ g -> P r.
Proof. exists []. rewrite app_nil_r. split; [done|]. by intros r ?%elem_of_nil. Qed.

Lemma spec_add_core_kq k A p fl res :
  exists g, kq (spec_add_core k A p fl res).1.1 = kq k ++ g /\ forall r, r ∈ g -> housekeeping_rec r.
Proof.
  unfold spec_add_core.
  pose proof (add_watch_kq k (pick_res
    match find_path A p ≫= (λ wd, A !! wd) with
    | Some x => N.lor fl (N.lor (a_flags x) IN_MASK_ADD) | None => fl end res)) as Hk.
  destruct (add_watch k _) as [K1 [e|wd]]; simpl in Hk; rewrite <- Hk; [apply gain_nil|].
  destruct (find_path A p) as [wd0|]; [|simpl; apply gain_nil].
  destruct (wd0 =? wd); simpl; [apply gain_nil|]. apply rm_watch_kq.
Qed.

Lemma spec_remove_core_kq k A p :
  exists g, kq (spec_remove_core k A p).1.1 = kq k ++ g /\ forall r, r ∈ g -> housekeeping_rec r.
Proof.
  unfold spec_remove_core. destruct (find_path A p) as [wd|]; [|apply gain_nil].
  pose proof (rm_watch_kq k wd) as Hk. destruct (rm_watch k wd) as [K1 e]. done.
Qed.

Lemma spec_handle_kq a r q :
  exists g, kq (sK (spec_handle a r q)) = q ++ g /\ forall r', r' ∈ g -> housekeeping_rec r'.
Proof.
  unfold spec_handle. destruct (sA a !! r_wd r) as [x|]; [|apply gain_nil].
  destruct (_ || _); [apply gain_nil|].
  unfold spec_end_of_watch. destruct (spec_deliver _ _ _ _ _) as [R1 o]. simpl.
  destruct (_ && _); [|apply gain_nil].
  apply (rm_watch_kq (mkK (marks (sK a)) (next_wd (sK a)) q)).
Qed.

Theorem queue_gain : forall a st, exists gained,
  kq (sK (spec_step a st).1) = (match st with SHandle _ => tail (kq (sK a)) | _ => kq (sK a) end) ++ gained /\
  forall r, r ∈ gained -> housekeeping_rec r \/ st = KEmit r \/ (st = KOverflow /\ r = overflow_rec).
Proof.
  intros a st. destruct st as [arg ops nf walk|arg| |r|wd ds| |d|r d]; simpl.
  - destruct walk as [|[p res] w]; [apply gain_nil|]. unfold spec_add.
    destruct (spec_add_core_kq (sK a) (sA a) (clean arg) (request_flags ops nf) res) as (g & Hg & Hh).
    destruct (spec_add_core _ _ _ _ _) as [[k A] rr]. simpl in *. exists g. split; [done|]. intros; left; eauto.
  - unfold spec_remove.
    destruct (spec_remove_core_kq (sK a) (sA a) (clean arg)) as (g & Hg & Hh).
    destruct (spec_remove_core _ _ _) as [[k A] rr]. simpl in *. exists g. split; [done|]. intros; left; eauto.
  - apply gain_nil.
  - exists [r]. split; [done|]. intros r' ->%elem_of_list_singleton. right; by left.
  - eexists. split; [done|]. intros r Hr. left. destruct ds; simpl in Hr.
    + apply elem_of_cons in Hr as [->|Hr]; [exists wd; by right|].
      apply elem_of_list_singleton in Hr as ->. exists wd; by left.
    + apply elem_of_list_singleton in Hr as ->. exists wd; by left.
  - exists [overflow_rec]. split; [done|]. intros r' ->%elem_of_list_singleton. right; by right.
  - destruct (kq (sK a)) as [|r q] eqn:E; simpl.
    { exists []. rewrite E. split; [done|]. by intros ? ?%elem_of_nil. }
    destruct (spec_handle_kq a r q) as (g & Hg & Hh). exists g. split; [done|]. intros; left; eauto.
  - destruct (spec_handle_kq a r (kq (sK a))) as (g & Hg & Hh). exists g. split; [done|]. intros; left; eauto.
Qed.

Theorem queue_fifo : forall a st, exists gained,
  kq (sK (spec_step a st).1) = (match st with SHandle _ => tail (kq (sK a)) | _ => kq (sK a) end) ++ gained.
Proof. intros a st. destruct (queue_gain a st) as (g & Hg & _). by exists g. Qed.

Lemma step_outs_prefix a st : souts a `prefix_of` souts (spec_step a st).1.
Proof.
  destruct (step_log_strong a st) as [[_ ->]|(r & q & _ & -> & _)]; [done|]. by apply prefix_app_r.
Qed.
Lemma step_handled_prefix a st : shandled a `prefix_of` shandled (spec_step a st).1.
Proof.
  destruct (step_log_strong a st) as [[-> _]|(r & q & -> & _ & _)]; [done|]. by apply prefix_app_r.
Qed.

Theorem run_outs_prefix : forall h a, souts a `prefix_of` souts (spec_run h a).1.
Proof.
  induction h as [|st h IH]; intros a; [done|]. rewrite spec_run_cons.
  etrans; [apply (step_outs_prefix a st)|apply IH].
Qed.
Theorem run_handled_prefix : forall h a, shandled a `prefix_of` shandled (spec_run h a).1.
Proof.
  induction h as [|st h IH]; intros a; [done|]. rewrite spec_run_cons.
  etrans; [apply (step_handled_prefix a st)|apply IH].
Qed.

(* ------------------------------------------------------------------ 8: Errors carries only genuine failures *)
Definition no_overflow_queued (a : spec) : Prop :=
  forall r, r ∈ kq (sK a) -> has_any (r_mask r) IN_Q_OVERFLOW = false.

Lemma has_any_lor_false m a b : has_any m (N.lor a b) = false -> has_any m a = false /\ has_any m b = false.
Proof.
  unfold has_any. rewrite !negb_false_iff, !N.eqb_eq, N.land_lor_distr_r. apply N.lor_eq_0_iff.
Qed.

Lemma housekeeping_no_overflow r : housekeeping_rec r -> has_any (r_mask r) IN_Q_OVERFLOW = false.
Proof. intros [wd [-> | ->]]; by vm_compute. Qed.

Lemma tail_subseteq (l : list raw) r : r ∈ tail l -> r ∈ l.
Proof. destruct l; simpl; [done|]. by right. Qed.

Theorem benign_step_no_errors : forall a st,
  no_overflow_queued a -> spec_env_ok a st = true -> is_inject st = false -> is_overflow st = false ->
  no_overflow_queued (spec_step a st).1 /\ err_list (souts (spec_step a st).1) = err_list (souts a).
Proof.
  intros a st Hq Henv Hinj Hov. split.
  - intros r Hr. destruct (queue_gain a st) as (g & Hg & Hh). rewrite Hg in Hr.
    apply elem_of_app in Hr as [Hr|Hr].
    + apply Hq. destruct st; try done. by apply tail_subseteq.
    + destruct (Hh r Hr) as [Hk|[->|[-> _]]]; [by apply housekeeping_no_overflow| |done].
      unfold spec_env_ok in Henv. apply andb_true_iff in Henv as [Henv _]. apply andb_true_iff in Henv as [_ Henv].
      apply negb_true_iff in Henv. apply has_any_lor_false in Henv as [_ Henv].
      by apply has_any_lor_false in Henv as [Henv _].
  - destruct (step_log_strong a st) as [[_ ->]|(r & q & _ & -> & [(d & -> & _)|(d & -> & Hkq)])]; [done|done|].
    rewrite err_list_app, handle_errors, (Hq r), app_nil_r; [done|]. rewrite Hkq. by left.
Qed.

Lemma benign_run_no_errors h : forall a,
  benign h = true -> spec_valid h a = true -> no_overflow_queued a ->
  err_list (souts (spec_run h a).1) = err_list (souts a).
Proof.
  induction h as [|st h IH]; intros a Hb Hv Hq; [done|]. rewrite spec_run_cons.
  simpl in Hb, Hv. apply andb_true_iff in Hb as [Hst Hb]. apply andb_true_iff in Hst as [Hinj Hov].
  apply negb_true_iff in Hinj, Hov.
  apply andb_true_iff in Hv as [Hv1 Hv]. apply andb_true_iff in Hv1 as [Henv _].
  destruct (benign_step_no_errors a st Hq Henv Hinj Hov) as [Hq' He].
  rewrite (IH _ Hb Hv Hq'). done.
Qed.

Theorem C10_benign_no_errors : forall h, benign h = true -> spec_valid h init_spec = true ->
  err_list (souts (spec_run h init_spec).1) = [].
Proof.
  intros h Hb Hv. rewrite (benign_run_no_errors h init_spec Hb Hv); [done|]. by intros r ?%elem_of_nil.
Qed.

Theorem overflow_reported : forall a st, (exists d q, st = SHandle d /\ kq (sK a) = overflow_rec :: q) ->
  err_list (souts (spec_step a st).1) = err_list (souts a) ++ [ErrEventOverflow].
Proof.
  intros a st (d & q & -> & Hkq). simpl. rewrite Hkq. simpl.
  rewrite handle_outs_spec, err_list_app, handle_errors. done.
Qed.

(* ------------------------------------------------------------------ 9: non-vacuity *)
Example create_is_delivered :
  ev_list (souts (spec_run
    [ SAdd "d" Create false [("d"%string, (inr 7, inr 7))];
      KEmit (mkRaw 1 IN_CREATE 0 2 "f");
      SHandle [] ] init_spec).1) = [("d/f"%string, 1, ""%string)]
  /\ err_list (souts (spec_run
    [ SAdd "d" Create false [("d"%string, (inr 7, inr 7))];
      KEmit (mkRaw 1 IN_CREATE 0 2 "f");
      SHandle [] ] init_spec).1) = []
  /\ spec_valid
    [ SAdd "d" Create false [("d"%string, (inr 7, inr 7))];
      KEmit (mkRaw 1 IN_CREATE 0 2 "f");
      SHandle [] ] init_spec = true.
Proof. vm_compute. done. Qed.

Print Assumptions handle_event_shape.
Print Assumptions C10_benign_no_errors.
