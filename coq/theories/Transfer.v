(* Transfer.v — theorems about the specification (SpecInv, SpecStream, SpecWatchSet) carried over to the
   implementation model (System.v) through the refinement of Refine.v. *)
From stdpp Require Import gmap strings list.
From Fsn Require Import PathLex Bytes Tables Doc Watcher System Spec SpecDefs Refine SpecInv SpecStream SpecWatchSet.
Local Open Scope N_scope.

Definition no_inject (h : list step) : bool := forallb (λ st, negb (is_inject st)) h.

Lemma env_ok_rel s a st : Rel s a → env_ok s st = spec_env_ok a st.
Proof. intros [HK _ _ _ _ _]. destruct st; simpl; try done; by rewrite HK. Qed.

Lemma valid_transfer cfg h : ∀ s a,
  c_recurse cfg = false → Rel s a → valid cfg h s = true → no_inject h = true → spec_valid h a = true.
Proof.
  induction h as [|st h IH]; intros s a Hnr HR Hv Hn; [done|].
  simpl in *. apply andb_prop in Hv as [Hv1 Hv2]. apply andb_prop in Hn as [Hn1 Hn2].
  rewrite <- (env_ok_rel s a st HR), Hv1, Hn1. simpl.
  destruct (step_refines cfg s a st Hnr HR) as [HR' _]. eapply IH; eauto.
Qed.

(* a history as the properties quantify over it: allowed by the inotify contract, no injected faults,
   non-recursive watches, started from a fresh Watcher *)
Record history_ok (cfg : config) (h : list step) : Prop := mkHok {
  hok_nr : c_recurse cfg = false;
  hok_valid : valid cfg h init_sys = true;
  hok_noinj : no_inject h = true;
}.

Section Transfer.
  Context (cfg : config) (h : list step) (Hok : history_ok cfg h).
  Let s := (run cfg h init_sys).1.
  Let a := (spec_run h init_spec).1.

  Lemma final_rel : Rel s a.
  Proof. destruct Hok. by apply (run_refines cfg h init_sys init_spec hok_nr0 init_rel). Qed.

  Lemma final_inv : SInv a.
  Proof.
    destruct Hok. apply spec_inv_run; [apply spec_inv_init|].
    by apply (valid_transfer cfg h init_sys init_spec hok_nr0 init_rel).
  Qed.

  Lemma results_refine : Forall2 res_equiv (run cfg h init_sys).2 (spec_run h init_spec).2.
  Proof. destruct Hok. by apply (run_refines cfg h init_sys init_spec hok_nr0 init_rel). Qed.

  (* C12: once the stream is quiescent the kernel's watches are exactly the table entries, both tables have one entry
     per listed path, and WatchList shows each once *)
  Theorem impl_in_step :
    kq (K s) = [] →
    dom (marks (K s)) ≡@{gset N} dom (t_wd (W s)) ∧
    size (t_wd (W s)) = size (t_path (W s)) ∧
    length (watch_list (W s)) = size (t_wd (W s)) ∧ NoDup (watch_list (W s)).
  Proof.
    intros Hq. pose proof final_rel as [HK HR Ho Hh HT HP]. pose proof final_inv as HI.
    pose proof HT as [HA _ _ _ _].
    assert (Hdom : dom (marks (K s)) ≡@{gset N} dom (t_wd (W s))).
    { rewrite HK. rewrite (C12_quiescent a HI) by (by rewrite <- HK). rewrite HA. by rewrite dom_fmap. }
    assert (Hperm := list_refines _ _ _ HT).
    assert (Hlen : length (map_to_list (t_path (W s))) = length (map_to_list (sA a))).
    { apply Permutation_length in Hperm. by rewrite !fmap_length in Hperm. }
    split_and!; try done.
    - assert (E1 : size (sA a) = size (t_wd (W s))) by (by rewrite HA, map_size_fmap).
      assert (E2 : size (t_path (W s)) = size (sA a)) by (unfold size, map_size; exact Hlen).
      by rewrite E2, E1.
    - assert (E1 : size (sA a) = size (t_wd (W s))) by (by rewrite HA, map_size_fmap).
      unfold watch_list. rewrite fmap_length, Hlen. exact E1.
    - apply NoDup_fst_map_to_list.
  Qed.

  (* C10: a benign history never produces a value on Errors *)
  Theorem impl_benign_no_errors : benign h = true → errs s = [].
  Proof.
    intros Hb. pose proof final_rel as [_ _ Ho _ _ _]. unfold errs. rewrite Ho.
    destruct Hok. apply C10_benign_no_errors; [done|].
    by apply (valid_transfer cfg h init_sys init_spec hok_nr0 init_rel).
  Qed.

  (* the delivered log of the implementation model is the specification's *)
  Theorem impl_outs : outs s = souts a ∧ handled s = shandled a.
  Proof. pose proof final_rel as [_ _ Ho Hh _ _]. done. Qed.

  (* C08: every listed path is the cleaned argument of some Add of the history *)
  Theorem impl_paths_are_add_arguments : ∀ wd x, t_wd (W s) !! wd = Some x → w_path x ∈ add_args h.
  Proof.
    intros wd x Hx. pose proof final_rel as [_ _ _ _ [HA _ _ _ _] _].
    apply (paths_are_add_arguments_init h wd (to_aw x)). fold a. rewrite HA, lookup_fmap, Hx. done.
  Qed.
End Transfer.
