(* Watcher.v — executable model of the inotify backend's bookkeeping (backend_inotify.go):
   the two tables, register / updatePath, removePath / remove, WatchList, handleEvent, newEvent and the
   rename-cookie ring; over an abstract inotify kernel (marks, watch-descriptor allocation, queue).
   std++ style.  No proofs here. *)
From stdpp Require Import gmap strings list.
From Fsn Require Import PathLex Bytes Tables Doc.
Local Open Scope N_scope.

(* ---------------------------------------------------------------- vocabulary *)
Inductive errno := ENOENT | ENOTDIR | ELOOP | ENAMETOOLONG | EACCES | EINVAL | ENOSPC | EOTHER.
Inductive err :=
| ErrNonExistentWatch | ErrClosed | ErrEventOverflow | ErrNo (e : errno)
| ErrRecurseOnNonRecursive      (* "can't use /... with non-recursive watch" *)
| ErrNotADirectory              (* recursive Add of a non-directory *)
| ErrPanic.                     (* nil dereference in removePath: must be unreachable *)

Global Instance errno_eq_dec : EqDecision errno. Proof. solve_decision. Defined.
Global Instance err_eq_dec : EqDecision err. Proof. solve_decision. Defined.

Record watch := mkWatch { w_wd : N; w_flags : N; w_path : string; w_rec : bool }.
Record ringst := mkRing {
  rg : list (N * string);         (* cookies [ring_len]koekje *)
  rg_ix : nat                     (* cookieIndex *)
}.
Record wstate := mkW {
  t_wd : gmap N watch;            (* watches.wd   : wd -> watch *)
  t_path : gmap string N;         (* watches.path : pathname -> wd *)
  w_ring : ringst
}.

Inductive output := OEv (name : string) (op : N) (from : string) | OErr (e : err).

(* inotify masks the handler looks at *)
Definition IN_IGNORED := 32768. Definition IN_UNMOUNT := 8192. Definition IN_Q_OVERFLOW := 16384.
Definition IN_ISDIR := 1073741824. Definition IN_MASK_ADD := 536870912.
Definition has_all (m k : N) : bool := N.land m k =? k.
Definition has_any (m k : N) : bool := negb (N.land m k =? 0).

Definition ring_len : nat := 10.
Definition init_ring : ringst := mkRing (replicate ring_len (0, EmptyString)) 0.
Definition init_w : wstate := mkW ∅ ∅ init_ring.

(* ---------------------------------------------------------------- abstract inotify kernel *)
(* marks: wd -> inode.  The filesystem is not modelled: what a path resolves to is an input of each step. *)
Record kernel := mkK { marks : gmap N N; next_wd : N; kq : list raw }.
Definition init_k : kernel := mkK ∅ 1 [].

Definition ignored_rec (wd : N) : raw := mkRaw wd IN_IGNORED 0 0 EmptyString.

Definition find_mark (k : kernel) (ino : N) : option N :=
  fst <$> head (filter (λ p, bool_decide (p.2 = ino)) (map_to_list (marks k))).

(* inotify_add_watch: [res] is what the path resolves to (an inode, or why it does not resolve) *)
Definition add_watch (k : kernel) (res : errno + N) : kernel * (errno + N) :=
  match res with
  | inl e => (k, inl e)
  | inr ino =>
    match find_mark k ino with
    | Some wd => (k, inr wd)
    | None => (mkK (<[next_wd k := ino]> (marks k)) (N.succ (next_wd k)) (kq k), inr (next_wd k))
    end
  end.

(* inotify_rm_watch *)
Definition rm_watch (k : kernel) (wd : N) : kernel * option errno :=
  match marks k !! wd with
  | Some _ => (mkK (delete wd (marks k)) (next_wd k) (kq k ++ [ignored_rec wd]), None)
  | None => (k, Some EINVAL)
  end.

(* ---------------------------------------------------------------- tables *)
Definition by_wd (W : wstate) (wd : N) : option watch := t_wd W !! wd.
Definition set_tables (W : wstate) (a : gmap N watch) (b : gmap string N) : wstate := mkW a b (w_ring W).

(* watches.remove(watch) *)
Definition remove_watch (W : wstate) (x : watch) : wstate :=
  set_tables W (delete (w_wd x) (t_wd W)) (delete (w_path x) (t_path W)).

(* recursivePath *)
Definition recursive_path (enable : bool) (p : string) : string * bool :=
  let c := clean p in
  if enable && String.eqb (base c) "..." then (dir c, true) else (c, false).

(* what a path resolves to: following a final symlink, and not following it (IN_DONT_FOLLOW) *)
Definition resolution : Type := (errno + N) * (errno + N).
Definition IN_DONT_FOLLOW_FLAG := 33554432.
Definition pick_res (flags : N) (res : resolution) : errno + N :=
  if negb (N.land flags IN_DONT_FOLLOW_FLAG =? 0) then res.2 else res.1.

(* register = updatePath + the closure: [res] is the resolution of [path] for inotify_add_watch *)
Definition register (W : wstate) (K : kernel) (path : string) (flags : N) (rec : bool) (res : resolution)
  : wstate * kernel * option err :=
  let owd := t_path W !! path in
  let existing := owd ≫= (λ wd, t_wd W !! wd) in
  let flags' := match existing with Some e => N.lor flags (N.lor (w_flags e) IN_MASK_ADD) | None => flags end in
  let '(K1, r) := add_watch K (pick_res flags' res) in
  match r with
  | inl e => (W, K1, Some (ErrNo e))
  | inr wd =>
    (* the path now names another file: the watch on the old one is released *)
    let K2 := match existing with
              | Some e => if w_wd e =? wd then K1 else fst (rm_watch K1 (w_wd e))
              | None => K1
              end in
    let upd := match t_wd W !! wd with
               | Some e => e
               | None => match existing with
                         | None => mkWatch wd flags' path rec
                         | Some e => mkWatch wd flags' (w_path e) (w_rec e)
                         end
               end in
    let old := default 0 owd in
    let twd := <[w_wd upd := upd]> (t_wd W) in
    let tpath := <[w_path upd := w_wd upd]> (t_path W) in
    if w_wd upd =? old then (set_tables W twd tpath, K2, None)
    else (set_tables W (delete old twd) (if String.eqb (w_path upd) path then tpath else delete path tpath), K2, None)
  end.

(* removePath *)
Definition remove_path (enable : bool) (W : wstate) (arg : string) : wstate * (err + list N) :=
  let '(path, recurse) := recursive_path enable arg in
  match t_path W !! path with
  | None => (W, inl ErrNonExistentWatch)
  | Some wd =>
    match t_wd W !! wd with
    | None => (W, inl ErrPanic)
    | Some x =>
      if recurse && negb (w_rec x) then (W, inl ErrRecurseOnNonRecursive)
      else
        let twd := delete wd (t_wd W) in
        let tpath := delete path (t_path W) in
        if negb (w_rec x) then (set_tables W twd tpath, inr [wd])
        else
          let victims := filter (λ pw, has_prefix pw.1 (path +:+ "/") = true) (map_to_list tpath) in
          let twd' := foldr (λ pw m, delete pw.2 m) twd victims in
          let tpath' := foldr (λ pw m, delete pw.1 m) tpath victims in
          (set_tables W twd' tpath', inr (wd :: victims.*2))
    end
  end.

(* the rm_watch loop of remove(): stops at the first error *)
Fixpoint rm_all (K : kernel) (wds : list N) : kernel * option errno :=
  match wds with
  | [] => (K, None)
  | wd :: rest => let '(K1, e) := rm_watch K wd in
                  match e with Some _ => (K1, e) | None => rm_all K1 rest end
  end.

Definition remove (enable : bool) (W : wstate) (K : kernel) (name : string) : wstate * kernel * option err :=
  let '(W1, r) := remove_path enable W name in
  match r with
  | inl e => (W1, K, Some e)
  | inr wds => let '(K1, e) := rm_all K wds in (W1, K1, ErrNo <$> e)
  end.

Definition watch_list (W : wstate) : list string := (map_to_list (t_path W)).*1.

(* ---------------------------------------------------------------- newEvent: translation + cookie ring *)
Definition translate (mask : N) : N := doc_union inotify_doc mask.

Definition ring_store (R : ringst) (cookie : N) (path : string) : ringst :=
  let ix := rg_ix R in
  mkRing (<[ix := (cookie, path)]> (rg R)) (if Nat.ltb 9 (S ix) then 0%nat else S ix).

Definition ring_lookup (R : ringst) (cookie : N) : string :=
  match list_find (λ c, c.1 = cookie) (rg R) with
  | Some (_, (_, p)) => p
  | None => EmptyString
  end.

Definition new_event (R : ringst) (name : string) (mask cookie : N) : ringst * (string * N * string) :=
  let op := translate mask in
  if cookie =? 0 then (R, (name, op, EmptyString))
  else if has_all mask IN_MOVED_FROM then (ring_store R cookie name, (name, op, EmptyString))
  else if has_all mask IN_MOVED_TO then (R, (name, op, ring_lookup R cookie))
  else (R, (name, op, EmptyString)).

(* ---------------------------------------------------------------- handleEvent *)
(* [dirs]: what directory names resolve to, should a recursive watch have to register a new directory *)
Definition lookup_dir (cwd : string) (dirs : list (string * N)) (name : string) : resolution :=
  let a := if rooted name then clean name else clean (cwd +:+ "/" +:+ name) in
  match list_find (λ d, d.1 = a) dirs with
  | Some (_, (_, ino)) => (inr ino, inr ino)
  | None => (inl ENOENT, inl ENOENT)
  end.

Definition ev_out (e : string * N * string) : list output :=
  let '(n, op, f) := e in if op =? 0 then [] else [OEv n op f].      (* sendEvent drops Op == 0 *)

Definition opt_err (e : option err) : list output := match e with Some x => [OErr x] | None => [] end.

(* rewrite the paths of the watches below a renamed directory (recursive watches only); the path index is
   re-keyed together with the watch paths *)
(* is this watch re-pathed? *)
Definition repathed (skip_wd : N) (old new : string) (x : watch) : bool :=
  negb ((w_wd x =? skip_wd) || String.eqb (w_path x) new) && is_under (w_path x) old.

(* watches.path after the loop: the key of every re-pathed watch is dropped (when it points to that watch), then the
   new paths are entered.  Go's map order cannot matter when no new key collides with a remaining old key. *)
Definition rekey_paths (twd : gmap N watch) (tpath : gmap string N) (skip_wd : N) (old new : string)
  : gmap string N :=
  let moved := filter (λ kx : N * watch, repathed skip_wd old new kx.2 = true) (map_to_list twd) in
  let kept := filter (λ pw : string * N,
                match twd !! pw.2 with
                | Some x => negb (repathed skip_wd old new x && String.eqb (w_path x) pw.1)
                | None => true
                end = true) tpath in
  foldr (λ kx m, <[replace_prefix (w_path kx.2) old new := kx.1]> m) kept moved.

Definition rewrite_paths (W : wstate) (skip_wd : N) (old new : string) : wstate :=
  set_tables W
    (fmap (λ x : watch,
       if (w_wd x =? skip_wd) || String.eqb (w_path x) new then x
       else if is_under (w_path x) old
            then mkWatch (w_wd x) (w_flags x) (replace_prefix (w_path x) old new) (w_rec x)
            else x) (t_wd W))
    (rekey_paths (t_wd W) (t_path W) skip_wd old new).

(* the watched path itself was deleted (the kernel has dropped the watch) or moved (we drop it): returns the new
   tables/kernel, an error to send after the lock is released, and whether handling stops here *)
Definition end_of_watch (enable : bool) (W : wstate) (K : kernel) (x : watch) (mask : N)
  : wstate * kernel * option err * bool :=
  let W1 := if has_all mask IN_DELETE_SELF then remove_watch W x else W in
  if has_all mask IN_MOVE_SELF then
    if w_rec x then (W1, K, None, true)
    else
      let '(Wr, Kr, e) := remove enable W1 K (w_path x) in
      let pend := match e with
                  | Some ErrNonExistentWatch => None
                  | Some (ErrNo EINVAL) => None       (* the kernel watch is gone already *)
                  | other => other
                  end in
      (Wr, Kr, pend, false)
  else (W1, K, None, false).

(* build and deliver the event (or suppress the delete that the watched parent reports) *)
Definition deliver (cwd : string) (W2 : wstate) (K2 : kernel) (dirs : list (string * N)) (x : watch) (r : raw)
  (name : string) (pre : list output) (pending : option err) : wstate * kernel * list output :=
  let mask := r_mask r in
  if has_any mask IN_DELETE_SELF && bool_decide (is_Some (t_path W2 !! dir (w_path x)))
  then (W2, K2, pre ++ opt_err pending)
  else
    let '(R3, ev) := new_event (w_ring W2) name mask (r_cookie r) in
    let W3 := mkW (t_wd W2) (t_path W2) R3 in
    if w_rec x && has_all mask IN_ISDIR && has_any ev.1.2 Create then
      let '(W4, K4, rerr) := register W3 K2 ev.1.1 (w_flags x) true (lookup_dir cwd dirs ev.1.1) in
      let W5 := if String.eqb ev.2 EmptyString then W4 else rewrite_paths W4 (w_wd x) ev.2 ev.1.1 in
      (W5, K4, pre ++ opt_err rerr ++ ev_out ev)
    else (W3, K2, pre ++ opt_err pending ++ ev_out ev).

Definition handle (enable : bool) (cwd : string) (W : wstate) (K : kernel) (dirs : list (string * N)) (r : raw)
  : wstate * kernel * list output :=
  let mask := r_mask r in
  let pre := if has_any mask IN_Q_OVERFLOW then [OErr ErrEventOverflow] else [] in
  match by_wd W (r_wd r) with
  | None => (W, K, pre)
  | Some x =>
    let name := if r_len r =? 0 then w_path x else w_path x +:+ "/" +:+ r_name r in
    if has_any mask IN_IGNORED || has_any mask IN_UNMOUNT then (remove_watch W x, K, pre)
    else
      let '(W2, K2, pending, stop) := end_of_watch enable W K x mask in
      if stop then (W2, K2, pre) else deliver cwd W2 K2 dirs x r name pre pending
  end.
