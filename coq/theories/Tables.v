(* Tables.v — deep-embedded flag-translation tables, their evaluator and the
   generic theorems that are instantiated on the tables generated from the
   current source of /repo (coq/gen/GenTables.v). Stdlib only. *)
From Coq Require Import NArith List Bool Lia String.
From Fsn Require Import Bits.
Import ListNotations.
Local Open Scope N_scope.

(* Conditions over one input word [m]. *)
Inductive cond :=
| AllSet (k : N)            (* m & k == k *)
| AnySet (k : N)            (* m & k != 0 *)
| CAnd (a b : cond) | COr (a b : cond) | CNot (a : cond)
| CTrue | CFalse
| CUnrecognised (src : string).   (* the translator did not understand the source: never true, and flagged *)

Fixpoint ceval (c : cond) (m : N) : bool :=
  match c with
  | AllSet k => N.land m k =? k
  | AnySet k => negb (N.land m k =? 0)
  | CAnd a b => ceval a m && ceval b m
  | COr a b => ceval a m || ceval b m
  | CNot a => negb (ceval a m)
  | CTrue => true
  | CFalse => false
  | CUnrecognised _ => false
  end.

Fixpoint csupp (c : cond) : N :=
  match c with
  | AllSet k | AnySet k => k
  | CAnd a b | COr a b => N.lor (csupp a) (csupp b)
  | CNot a => csupp a
  | _ => 0
  end.

Fixpoint crecognised (c : cond) : bool :=
  match c with
  | CAnd a b | COr a b => crecognised a && crecognised b
  | CNot a => crecognised a
  | CUnrecognised _ => false
  | _ => true
  end.

(* A table: rows are tried in order; every row whose condition holds ORs its
   value into the result (this is the shape of every newEvent / request function). *)
Inductive row :=
| ROr (c : cond) (v : N)
| RUnrecognised (src : string).
Definition table := list row.

Definition row_eval (r : row) (m : N) : N :=
  match r with ROr c v => if ceval c m then v else 0 | RUnrecognised _ => 0 end.
Definition row_supp (r : row) : N := match r with ROr c _ => csupp c | _ => 0 end.
Definition row_recognised (r : row) : bool :=
  match r with ROr c _ => crecognised c | _ => false end.

Fixpoint eval (t : table) (m : N) : N :=
  match t with [] => 0 | r :: t' => N.lor (row_eval r m) (eval t' m) end.
Fixpoint supp (t : table) : N :=
  match t with [] => 0 | r :: t' => N.lor (row_supp r) (supp t') end.
Definition recognised (t : table) : bool := forallb row_recognised t.

(* Post-rules applied to the OR-ed result: "if cond(result) then result &^= clr". *)
Inductive post := PClear (c : cond) (clr : N) | PUnrecognised (src : string).
Definition post_apply (p : post) (r : N) : N :=
  match p with PClear c clr => if ceval c r then N.ldiff r clr else r | PUnrecognised _ => r end.
Definition post_recognised (p : post) : bool :=
  match p with PClear c _ => crecognised c | _ => false end.
Definition eval_post (t : table) (ps : list post) (m : N) : N :=
  fold_left (fun r p => post_apply p r) ps (eval t m).

(* ---- only the support bits matter ---- *)

Lemma ceval_support c m s : N.land s (csupp c) = csupp c ->
  ceval c m = ceval c (N.land m s).
Proof.
  revert s. induction c as [k|k|a IHa b IHb|a IHa b IHb|a IHa| | |src]; intros s Hs; cbn in *;
    try reflexivity.
  - rewrite (land_restrict m s k Hs). reflexivity.
  - rewrite (land_restrict m s k Hs). reflexivity.
  - rewrite (IHa s), (IHb s); try reflexivity.
    + eapply land_sub_trans; [apply land_lor_absorb_r | exact Hs].
    + eapply land_sub_trans; [apply land_lor_absorb_l | exact Hs].
  - rewrite (IHa s), (IHb s); try reflexivity.
    + eapply land_sub_trans; [apply land_lor_absorb_r | exact Hs].
    + eapply land_sub_trans; [apply land_lor_absorb_l | exact Hs].
  - rewrite (IHa s Hs). reflexivity.
Qed.

Lemma eval_support t m s : N.land s (supp t) = supp t -> eval t m = eval t (N.land m s).
Proof.
  revert s. induction t as [|r t IH]; intros s Hs; cbn in *; [reflexivity|].
  rewrite (IH s) by (eapply land_sub_trans; [apply land_lor_absorb_r | exact Hs]).
  f_equal. destruct r as [c v|src]; cbn; [|reflexivity].
  rewrite (ceval_support c m s); [reflexivity|].
  eapply land_sub_trans; [apply land_lor_absorb_l | exact Hs].
Qed.

Theorem support_only t m : eval t m = eval t (N.land m (supp t)).
Proof. apply eval_support. apply N.land_diag. Qed.

Lemma eval_post_support t ps m s : N.land s (supp t) = supp t ->
  eval_post t ps m = eval_post t ps (N.land m s).
Proof. intro H. unfold eval_post. rewrite (eval_support t m s H). reflexivity. Qed.

(* Two tables (generated, documented) agree on all of N as soon as they agree on
   the finitely many assignments of their joint support. *)
Definition joint (t1 t2 : table) : N := N.lor (supp t1) (supp t2).

Definition agree_on_support (t1 : table) (p1 : list post) (t2 : table) (p2 : list post) : bool :=
  forallb (fun m => eval_post t1 p1 m =? eval_post t2 p2 m) (submasks (joint t1 t2)).

Theorem tables_agree t1 p1 t2 p2 :
  agree_on_support t1 p1 t2 p2 = true -> forall m : N, eval_post t1 p1 m = eval_post t2 p2 m.
Proof.
  intros H. apply (sweep_lift N _ _ N.eqb (fun x y => proj1 (N.eqb_eq x y)) (joint t1 t2)).
  - intro m. apply eval_post_support. unfold joint.
    apply land_lor_absorb_l.
  - intro m. apply eval_post_support. unfold joint.
    apply land_lor_absorb_r.
  - exact H.
Qed.

(* first sub-mask on which two tables differ: the concrete counterexample *)
Definition first_difference (t1 : table) (p1 : list post) (t2 : table) (p2 : list post) : option N :=
  find (fun m => negb (eval_post t1 p1 m =? eval_post t2 p2 m)) (submasks (joint t1 t2)).

(* ---- documented mappings: "flag f (a single bit) contributes operation set o" ---- *)

Definition doc := list (N * N).
Definition doc_table (d : doc) : table := map (fun fo => ROr (AllSet (fst fo)) (snd fo)) d.
Definition doc_union (d : doc) (m : N) : N := eval (doc_table d) m.
Definition doc_single_bits (d : doc) : bool := forallb (fun fo => single_bit (fst fo)) d.

Lemma doc_union_cons f o d m :
  doc_union ((f, o) :: d) m = N.lor (if subN f m then o else 0) (doc_union d m).
Proof. unfold doc_union. cbn. unfold subN. rewrite (N.land_comm m f). reflexivity. Qed.

(* the union law: a combination of native flags yields exactly the union of
   what its parts yield *)
Theorem doc_union_lor d : doc_single_bits d = true ->
  forall m1 m2, doc_union d (N.lor m1 m2) = N.lor (doc_union d m1) (doc_union d m2).
Proof.
  induction d as [|[f o] d IH]; intros Hsb m1 m2.
  - reflexivity.
  - cbn in Hsb. apply andb_prop in Hsb as [Hf Hd].
    rewrite !doc_union_cons, (IH Hd), (single_bit_sub_lor f m1 m2 Hf).
    destruct (subN f m1), (subN f m2); cbn [orb];
      rewrite ?N.lor_0_l, ?N.lor_0_r.
    + apply N.bits_inj; intro i. rewrite !N.lor_spec.
      destruct (N.testbit o i), (N.testbit (doc_union d m1) i), (N.testbit (doc_union d m2) i); reflexivity.
    + rewrite !N.lor_assoc. reflexivity.
    + rewrite !N.lor_assoc. f_equal. apply N.lor_comm. 
    + reflexivity.
Qed.

Corollary table_union_lor t d :
  recognised t = true -> doc_single_bits d = true ->
  agree_on_support t [] (doc_table d) [] = true ->
  forall m1 m2, eval t (N.lor m1 m2) = N.lor (eval t m1) (eval t m2).
Proof.
  intros _ Hsb Hag m1 m2.
  pose proof (tables_agree t [] (doc_table d) [] Hag) as E. unfold eval_post in E. cbn in E.
  rewrite !E. apply (doc_union_lor d Hsb).
Qed.

(* ---- value-keyed switches (Windows toFSnotifyFlags) ---- *)
Record switch := { sw_cases : list (N * N); sw_default : N; sw_ok : bool }.
Fixpoint sw_lookup (cs : list (N * N)) (d : N) (x : N) : N :=
  match cs with [] => d | (k, v) :: cs' => if x =? k then v else sw_lookup cs' d x end.
Definition sw_eval (s : switch) (x : N) : N := sw_lookup (sw_cases s) (sw_default s) x.

Fixpoint pairs_beq (l1 l2 : list (N * N)) : bool :=
  match l1, l2 with
  | [], [] => true
  | (a, b) :: l1', (c, d) :: l2' => (a =? c) && (b =? d) && pairs_beq l1' l2'
  | _, _ => false
  end.

Definition switch_eqb (a b : switch) : bool :=
  (pairs_beq (sw_cases a) (sw_cases b))
  && (sw_default a =? sw_default b) && sw_ok a && sw_ok b.

Lemma pairs_beq_eq (l1 l2 : list (N * N)) :
  pairs_beq l1 l2 = true -> l1 = l2.
Proof.
  revert l2. induction l1 as [|[a b] l1 IH]; intros [|[c d] l2] H; cbn in H; try discriminate; [reflexivity|].
  apply andb_prop in H as [H1 H2]. apply andb_prop in H1 as [Ha Hb].
  apply N.eqb_eq in Ha, Hb. subst. f_equal. apply IH, H2.
Qed.

Theorem switch_agree a b : switch_eqb a b = true -> forall x : N, sw_eval a x = sw_eval b x.
Proof.
  unfold switch_eqb, sw_eval. intros H x.
  apply andb_prop in H as [H _]. apply andb_prop in H as [H _]. apply andb_prop in H as [H1 H2].
  apply pairs_beq_eq in H1. apply N.eqb_eq in H2. rewrite H1, H2. reflexivity.
Qed.
