(* DiffProofs.v — proofs about the model of internal/ztest/diff.go in Diff.v and Match.v.
   No axioms, no Admitted; recursion by fuel is proved never to run out. Stdlib only. *)
From Coq Require Import List Arith Bool String Ascii Lia.
From Fsn Require Import Diff Match.
Import ListNotations.

(* ================================================================== lists *)
Section ListFacts.
  Variable T : Type.

  Lemma skipn_nth_error (a : list T) : forall i x,
    nth_error a i = Some x -> skipn i a = x :: skipn (S i) a.
  Proof.
    induction a as [|y a IH]; intros i x H; destruct i as [|i]; simpl in *; try discriminate.
    - injection H as ->. reflexivity.
    - rewrite (IH i x H). reflexivity.
  Qed.

  Lemma skipn_cons_inv (a : list T) : forall i x r,
    skipn i a = x :: r -> nth_error a i = Some x /\ skipn (S i) a = r.
  Proof.
    induction a as [|y a IH]; intros i x r H; destruct i as [|i]; simpl in *; try discriminate.
    - injection H as -> ->. split; reflexivity.
    - apply IH in H. exact H.
  Qed.

  Lemma skipn_add (a : list T) : forall i n, skipn n (skipn i a) = skipn (i + n) a.
  Proof.
    induction a as [|y a IH]; intros i n.
    - rewrite !skipn_nil. reflexivity.
    - destruct i as [|i]; simpl; [reflexivity|]. apply IH.
  Qed.

  Lemma firstn_add (l : list T) : forall n m, firstn (n + m) l = firstn n l ++ firstn m (skipn n l).
  Proof.
    induction l as [|y l IH]; intros n m.
    - rewrite !firstn_nil, skipn_nil, firstn_nil. reflexivity.
    - destruct n as [|n]; simpl; [reflexivity|]. rewrite IH. reflexivity.
  Qed.

  Lemma sub_length (a : list T) i n : i + n <= List.length a -> List.length (sub a i n) = n.
  Proof.
    intro H. unfold sub. rewrite firstn_length, skipn_length. lia.
  Qed.

  Lemma sub_app (a : list T) i n m : sub a i (n + m) = sub a i n ++ sub a (i + n) m.
  Proof. unfold sub. rewrite firstn_add, skipn_add. reflexivity. Qed.

  Lemma skipn_sub (a : list T) i n : skipn i a = sub a i n ++ skipn (i + n) a.
  Proof. unfold sub. rewrite <- skipn_add. symmetry. apply firstn_skipn. Qed.

  Lemma sub_all (a : list T) i : sub a i (List.length a - i) = skipn i a.
  Proof. unfold sub. apply firstn_all2. rewrite skipn_length. lia. Qed.

  Lemma sub_0 (a : list T) i : sub a i 0 = [].
  Proof. reflexivity. Qed.

  Lemma sub_cons (a : list T) i x n : nth_error a i = Some x -> sub a i (S n) = x :: sub a (S i) n.
  Proof. intro H. unfold sub. rewrite (skipn_nth_error a i x H). reflexivity. Qed.

  Lemma nth_error_skipn' (a : list T) : forall i t, nth_error (skipn i a) t = nth_error a (i + t).
  Proof.
    induction a as [|y a IH]; intros i t.
    - rewrite skipn_nil. destruct t, i; reflexivity.
    - destruct i as [|i]; simpl; [reflexivity|]. apply IH.
  Qed.

  Lemma nth_error_firstn' (l : list T) : forall n t, t < n -> nth_error (firstn n l) t = nth_error l t.
  Proof.
    induction l as [|y l IH]; intros n t H.
    - rewrite firstn_nil. reflexivity.
    - destruct n as [|n]; [lia|]. destruct t as [|t]; simpl; [reflexivity|]. apply IH. lia.
  Qed.

  Lemma nth_error_sub (a : list T) i n t :
    nth_error (sub a i n) t = if t <? n then nth_error a (i + t) else None.
  Proof.
    unfold sub. destruct (Nat.ltb_spec t n) as [Hlt|Hge].
    - rewrite nth_error_firstn' by exact Hlt. apply nth_error_skipn'.
    - apply nth_error_None. rewrite firstn_length. lia.
  Qed.
End ListFacts.

Arguments sub_length {T}.
Arguments sub_app {T}.
Arguments skipn_sub {T}.
Arguments sub_all {T}.
Arguments sub_cons {T}.
Arguments nth_error_sub {T}.
Arguments skipn_cons_inv {T}.
Arguments skipn_nth_error {T}.
Arguments skipn_add {T}.

(* ================================================================== findLongestMatch *)
Section Flm.
  Variable T : Type.
  Variable eqb : T -> T -> bool.

  (* a[i+t] == b[j+t] for every t < k: a common run (both slices inside the lists) *)
  Definition run (a b : list T) (i j k : nat) : Prop :=
    forall t, t < k -> eqat eqb a b (i + t) (j + t) = true.

  Lemma eqat_bounds a b i j : eqat eqb a b i j = true -> i < List.length a /\ j < List.length b.
  Proof.
    unfold eqat. intro H.
    destruct (nth_error a i) eqn:Ea; [|discriminate].
    destruct (nth_error b j) eqn:Eb; [|discriminate].
    split; apply nth_error_Some; congruence.
  Qed.

  Lemma run_bounds a b i j k : 0 < k -> run a b i j k -> i + k <= List.length a /\ j + k <= List.length b.
  Proof.
    intros Hk H. specialize (H (k - 1) ltac:(lia)). apply eqat_bounds in H. lia.
  Qed.

  Lemma run_0 a b i j : run a b i j 0.
  Proof. intros t Ht. lia. Qed.

  Lemma run_app a b i j k1 k2 :
    run a b i j k1 -> run a b (i + k1) (j + k1) k2 -> run a b i j (k1 + k2).
  Proof.
    intros H1 H2 t Ht. destruct (Nat.lt_ge_cases t k1) as [Hlt|Hge].
    - apply H1. exact Hlt.
    - specialize (H2 (t - k1) ltac:(lia)).
      replace (i + k1 + (t - k1)) with (i + t) in H2 by lia.
      replace (j + k1 + (t - k1)) with (j + t) in H2 by lia. exact H2.
  Qed.

  Lemma run_part a b i j k d k' : d + k' <= k -> run a b i j k -> run a b (i + d) (j + d) k'.
  Proof.
    intros Hle H t Ht. specialize (H (d + t) ltac:(lia)).
    rewrite !Nat.add_assoc in H. exact H.
  Qed.

  Lemma run_snoc a b i j k :
    run a b i j (S k) <-> run a b i j k /\ eqat eqb a b (i + k) (j + k) = true.
  Proof.
    split.
    - intro H. split; [intros t Ht; apply H; lia | apply H; lia].
    - intros [H1 H2] t Ht. destruct (Nat.eq_dec t k) as [->|Hne]; [exact H2 | apply H1; lia].
  Qed.

  (* ---------- one row ---------- *)
  Lemma flm_row_length x : forall bw pm1 prev, List.length (flm_row T eqb x bw pm1 prev) = List.length bw.
  Proof. induction bw as [|y bw IH]; intros; simpl; [reflexivity | rewrite IH; reflexivity]. Qed.

  Lemma nth_tl (l : list nat) j : nth j (tl l) 0 = nth (S j) l 0.
  Proof. destruct l; [destruct j|]; reflexivity. Qed.

  Lemma flm_row_nth x : forall bw pm1 prev j,
    nth j (flm_row T eqb x bw pm1 prev) 0 =
      match nth_error bw j with
      | Some y => if eqb x y then S (match j with 0 => pm1 | S j' => nth j' prev 0 end) else 0
      | None => 0
      end.
  Proof.
    induction bw as [|y bw IH]; intros pm1 prev j.
    - destruct j; reflexivity.
    - destruct j as [|j]; simpl; [reflexivity|].
      rewrite IH. destruct (nth_error bw j); [|reflexivity].
      destruct j as [|j]; [destruct prev; reflexivity|]. rewrite nth_tl. reflexivity.
  Qed.

  (* ---------- the rows: window lists A, B ---------- *)
  Variables A B : list T.

  (* a common run of length k ending just before (i, j) *)
  Definition ends (i j k : nat) : Prop := k <= i /\ k <= j /\ run A B (i - k) (j - k) k.

  Lemma ends_0 i j : ends i j 0.
  Proof. unfold ends. repeat split; try lia. apply run_0. Qed.

  Lemma ends_S i j k : ends (S i) (S j) (S k) <-> eqat eqb A B i j = true /\ ends i j k.
  Proof.
    unfold ends. simpl. rewrite run_snoc. split.
    - intros (Hi & Hj & Hr & He).
      replace (i - k + k) with i in He by lia. replace (j - k + k) with j in He by lia.
      repeat split; try lia; assumption.
    - intros (He & Hi & Hj & Hr).
      replace (i - k + k) with i by lia. replace (j - k + k) with j by lia.
      repeat split; try lia; assumption.
  Qed.

  Lemma ends_col0 i k : ends i 0 k -> k = 0.
  Proof. unfold ends. lia. Qed.

  (* row i-1 of the table: prev[j] is the length of the longest common run ending at a[i-1], b[j] *)
  Definition row_ok (i : nat) (row : list nat) : Prop :=
    forall j k, ends i (S j) k <-> k <= nth j row 0.

  Lemma row_ok_init : row_ok 0 [].
  Proof.
    intros j k. destruct j; simpl; (split; [intros (H & _); lia | intro H; replace k with 0 by lia; apply ends_0]).
  Qed.

  Lemma row_ok_step i x prev :
    nth_error A i = Some x -> row_ok i prev -> row_ok (S i) (flm_row T eqb x B 0 prev).
  Proof.
    intros Hx Hprev j k. rewrite flm_row_nth.
    destruct k as [|k].
    - split; [lia | intros _; apply ends_0].
    - rewrite ends_S. unfold eqat at 1. rewrite Hx.
      assert (Hpm : ends i j k <-> k <= match j with 0 => 0 | S j' => nth j' prev 0 end).
      { destruct j as [|j'].
        - split; [intro H; apply ends_col0 in H; lia | intro H; replace k with 0 by lia; apply ends_0].
        - apply Hprev. }
      destruct (nth_error B j) as [y|].
      + destruct (eqb x y).
        * rewrite Hpm. split; [intros [_ H]; lia | intro H; split; [reflexivity | lia]].
        * split; [intros [H _]; discriminate | lia].
      + split; [intros [H _]; discriminate | lia].
  Qed.

  (* ---------- the best-so-far updates of one row ---------- *)
  Lemma flm_scan_spec i : forall row j0 best,
    let best' := flm_scan i j0 row best in
    mSize best <= mSize best'
    /\ (forall t, t < List.length row -> nth t row 0 <= mSize best')
    /\ (best' = best \/
        exists t, t < List.length row /\ 0 < nth t row 0 /\
                  best' = (S i - nth t row 0, S (j0 + t) - nth t row 0, nth t row 0)).
  Proof.
    induction row as [|k row IH]; intros j0 best.
    - simpl. repeat split; [lia | intros t Ht; lia | left; reflexivity].
    - cbn [flm_scan]. cbv zeta.
      match goal with |- context [flm_scan i (S j0) row ?x] => remember x as b1 eqn:Eb1 end.
      assert (Hb1 : mSize best <= mSize b1 /\ k <= mSize b1).
      { destruct (Nat.ltb_spec (mSize best) k) as [Hlt|Hge]; subst b1; unfold mSize in *; cbn [snd]; lia. }
      specialize (IH (S j0) b1). cbv zeta in IH. destruct IH as (H1 & H2 & H3).
      set (best' := flm_scan i (S j0) row b1) in *.
      split; [lia | split].
      + intros t Ht. destruct t as [|t]; cbn [nth]; [lia | apply H2; cbn [List.length] in Ht; lia].
      + destruct H3 as [H3 | (t & Ht & Hpos & H3)].
        * destruct (Nat.ltb_spec (mSize best) k) as [Hlt|Hge].
          -- right. exists 0. rewrite Nat.add_0_r. cbn [nth List.length].
             split; [lia | split; [lia | congruence]].
          -- left. congruence.
        * right. exists (S t). cbn [nth List.length]. split; [lia | split; [exact Hpos |]].
          rewrite H3. replace (j0 + S t) with (S j0 + t) by lia. reflexivity.
  Qed.

  (* ---------- all rows ---------- *)
  Definition best_ok (i : nat) (best : mtch) : Prop :=
    mA best + mSize best <= List.length A /\ mB best + mSize best <= List.length B
    /\ run A B (mA best) (mB best) (mSize best)
    /\ forall i' j k, i' <= i -> ends i' j k -> k <= mSize best.

  Lemma flm_rows_spec : forall aw i prev best,
    aw = skipn i A -> row_ok i prev -> best_ok i best ->
    best_ok (List.length A) (flm_rows T eqb aw i B prev best).
  Proof.
    induction aw as [|x aw IH]; intros i prev best Haw Hprev Hbest; simpl.
    - assert (Hlen : List.length A <= i).
      { assert (H : List.length (skipn i A) = 0) by (rewrite <- Haw; reflexivity).
        rewrite skipn_length in H. lia. }
      destruct Hbest as (H1 & H2 & H3 & H4). repeat split; try assumption.
      intros i' j k Hi' He. apply (H4 i' j k); [lia | exact He].
    - symmetry in Haw. apply skipn_cons_inv in Haw. destruct Haw as [Hx Haw].
      assert (Hrow := row_ok_step i x prev Hx Hprev).
      set (row := flm_row T eqb x B 0 prev) in *.
      apply (IH (S i) row); [symmetry; exact Haw | exact Hrow |].
      destruct (flm_scan_spec i row 0 best) as (S1 & S2 & S3).
      set (best' := flm_scan i 0 row best) in *.
      destruct Hbest as (H1 & H2 & H3 & H4).
      assert (HlenA : S i <= List.length A) by (apply nth_error_Some; congruence).
      assert (HlenR : List.length row = List.length B) by apply flm_row_length.
      assert (Hmax : forall i' j k, i' <= S i -> ends i' j k -> k <= mSize best').
      { intros i' j k Hi' He. destruct (Nat.eq_dec i' (S i)) as [->|Hne].
        - destruct j as [|j]; [apply ends_col0 in He; lia|].
          apply Hrow in He. destruct (Nat.lt_ge_cases j (List.length row)) as [Hlt|Hge].
          + specialize (S2 j Hlt). lia.
          + rewrite nth_overflow in He by exact Hge. lia.
        - specialize (H4 i' j k ltac:(lia) He). lia. }
      destruct S3 as [S3 | (t & Ht & Hpos & S3)].
      + rewrite S3 in *. repeat split; assumption.
      + assert (He : ends (S i) (S t) (nth t row 0)) by (apply Hrow; lia).
        destruct He as (E1 & E2 & E3).
        rewrite S3 in *. unfold best_ok, mA, mB, mSize in *. cbn [fst snd] in *.
        repeat split; [lia | lia | exact E3 | exact Hmax].
  Qed.

  (* ---------- the two extension loops ---------- *)
  Lemma flm_back_spec : forall i j k,
    i + k <= List.length A -> j + k <= List.length B -> run A B i j k ->
    let m := flm_back T eqb A B i j k in
    mA m + mSize m <= List.length A /\ mB m + mSize m <= List.length B
    /\ run A B (mA m) (mB m) (mSize m) /\ k <= mSize m.
  Proof.
    induction i as [|i IH]; intros j k Hi Hj Hr; simpl.
    - unfold mA, mB, mSize; simpl. repeat split; try assumption; lia.
    - destruct j as [|j].
      + unfold mA, mB, mSize; simpl. repeat split; try assumption; lia.
      + destruct (eqat eqb A B i j) eqn:He.
        * assert (Hr' : run A B i j (S k)).
          { intros t Ht. destruct t as [|t].
            - rewrite !Nat.add_0_r. exact He.
            - specialize (Hr t ltac:(lia)).
              replace (i + S t) with (S i + t) by lia. replace (j + S t) with (S j + t) by lia. exact Hr. }
          specialize (IH j (S k) ltac:(lia) ltac:(lia) Hr'). simpl in IH.
          destruct IH as (I1 & I2 & I3 & I4). repeat split; try assumption; lia.
        * unfold mA, mB, mSize; simpl. repeat split; try assumption; lia.
  Qed.

  Lemma flm_fwd_spec i j : forall rem k,
    i + k <= List.length A -> j + k <= List.length B -> run A B i j k ->
    let k' := flm_fwd T eqb A B rem i j k in
    i + k' <= List.length A /\ j + k' <= List.length B /\ run A B i j k' /\ k <= k'.
  Proof.
    induction rem as [|rem IH]; intros k Hi Hj Hr; simpl.
    - repeat split; try assumption; lia.
    - destruct ((j + k <? List.length B) && eqat eqb A B (i + k) (j + k)) eqn:Hc.
      + apply andb_prop in Hc. destruct Hc as [_ He].
        assert (Hb := eqat_bounds _ _ _ _ He).
        assert (Hr' : run A B i j (S k)) by (apply run_snoc; split; assumption).
        specialize (IH (S k) ltac:(lia) ltac:(lia) Hr'). simpl in IH.
        destruct IH as (I1 & I2 & I3 & I4). repeat split; try assumption; lia.
      + repeat split; try assumption; lia.
  Qed.

  Lemma flm_win_spec :
    let m := flm_win T eqb A B in
    mA m + mSize m <= List.length A /\ mB m + mSize m <= List.length B
    /\ run A B (mA m) (mB m) (mSize m)
    /\ forall i j k, run A B i j k -> k <= mSize m.
  Proof.
    unfold flm_win.
    assert (H0 : best_ok 0 (0, 0, 0)).
    { unfold best_ok, mA, mB, mSize; simpl. repeat split; try lia; [apply run_0|].
      intros i' j k Hi' (He & _). lia. }
    assert (Hb := flm_rows_spec A 0 [] (0, 0, 0) eq_refl row_ok_init H0).
    set (best := flm_rows T eqb A 0 B [] (0, 0, 0)) in *. clearbody best.
    destruct Hb as (B1 & B2 & B3 & B4).
    assert (Hk := flm_back_spec (mA best) (mB best) (mSize best) B1 B2 B3).
    destruct (flm_back T eqb A B (mA best) (mB best) (mSize best)) as [[i j] k] eqn:Eb.
    unfold mA, mB, mSize in Hk; simpl in Hk. destruct Hk as (K1 & K2 & K3 & K4).
    assert (Hf := flm_fwd_spec i j (List.length A - (i + k)) k K1 K2 K3).
    simpl in Hf. destruct Hf as (F1 & F2 & F3 & F4).
    unfold mA, mB, mSize; simpl. repeat split; try assumption.
    intros i0 j0 k0 Hr.
    destruct k0 as [|k0]; [lia|].
    assert (Hbd := run_bounds _ _ _ _ _ (Nat.lt_0_succ k0) Hr).
    assert (He : ends (i0 + S k0) (j0 + S k0) (S k0)).
    { unfold ends. repeat split; try lia.
      replace (i0 + S k0 - S k0) with i0 by lia. replace (j0 + S k0 - S k0) with j0 by lia. exact Hr. }
    specialize (B4 (i0 + S k0) (j0 + S k0) (S k0) ltac:(lia) He). unfold mSize in *. lia.
  Qed.
  (* ---------- which of the longest runs: the one that ends first (rows, then columns) ---------- *)
  Lemma flm_scan_first i : forall row j0 best,
    let best' := flm_scan i j0 row best in
    (best' = best /\ forall t, t < List.length row -> nth t row 0 <= mSize best)
    \/ (exists t, t < List.length row /\ mSize best < nth t row 0
                  /\ best' = (S i - nth t row 0, S (j0 + t) - nth t row 0, nth t row 0)
                  /\ (forall t', t' < t -> nth t' row 0 < nth t row 0)
                  /\ (forall t', t' < List.length row -> nth t' row 0 <= nth t row 0)).
  Proof.
    induction row as [|k row IH]; intros j0 best.
    - left. split; [reflexivity | intros t Ht; cbn in Ht; lia].
    - cbn [flm_scan]. cbv zeta.
      match goal with |- context [flm_scan i (S j0) row ?x] => remember x as b1 eqn:Eb1 end.
      specialize (IH (S j0) b1). cbv zeta in IH.
      set (best' := flm_scan i (S j0) row b1) in *. clearbody best'.
      destruct (Nat.ltb_spec (mSize best) k) as [Hlt|Hge].
      + (* the entry of this column becomes the best *)
        assert (Hs : mSize b1 = k) by (subst b1; reflexivity).
        right. destruct IH as [[E1 E2] | (t & Ht & Hgt & E & P1 & P2)].
        * exists 0. cbn [nth List.length]. rewrite Nat.add_0_r.
          split; [lia|]. split; [exact Hlt|]. split; [congruence|]. split; [intros t' Ht'; lia|].
          intros t' Ht'. destruct t' as [|t']; [lia|]. specialize (E2 t' ltac:(lia)). lia.
        * exists (S t). cbn [nth List.length]. split; [lia|]. split; [lia|].
          split; [rewrite E; replace (j0 + S t) with (S j0 + t) by lia; reflexivity|]. split.
          -- intros t' Ht'. destruct t' as [|t']; [lia | apply P1; lia].
          -- intros t' Ht'. destruct t' as [|t']; [lia | apply P2; lia].
      + subst b1. destruct IH as [[E1 E2] | (t & Ht & Hgt & E & P1 & P2)].
        * left. split; [exact E1|]. intros t Ht. destruct t as [|t]; cbn [nth]; [lia | apply E2; cbn in Ht; lia].
        * right. exists (S t). cbn [nth List.length]. split; [lia|]. split; [exact Hgt|].
          split; [rewrite E; replace (j0 + S t) with (S j0 + t) by lia; reflexivity|]. split.
          -- intros t' Ht'. destruct t' as [|t']; [lia | apply P1; lia].
          -- intros t' Ht'. destruct t' as [|t']; [lia | apply P2; lia].
  Qed.

  Definition best_first (i : nat) (best : mtch) : Prop :=
    (mSize best = 0 -> best = (0, 0, 0))
    /\ (0 < mSize best -> mA best + mSize best <= i)
    /\ forall i' j, i' <= i -> 0 < mSize best -> ends i' j (mSize best) ->
        mA best + mSize best < i' \/ (mA best + mSize best = i' /\ mB best + mSize best <= j).

  Lemma best_step i x prev best :
    nth_error A i = Some x -> row_ok i prev -> best_ok i best -> best_first i best ->
    let row := flm_row T eqb x B 0 prev in
    best_ok (S i) (flm_scan i 0 row best) /\ best_first (S i) (flm_scan i 0 row best).
  Proof.
    intros Hx Hprev Hbest Hfirst row.
    assert (Hrow := row_ok_step i x prev Hx Hprev). fold row in Hrow.
    assert (HlenA : S i <= List.length A) by (apply nth_error_Some; congruence).
    assert (HlenR : List.length row = List.length B) by apply flm_row_length.
    destruct Hbest as (H1 & H2 & H3 & H4). destruct Hfirst as (Z & E & F).
    destruct (flm_scan_first i row 0 best) as [[S1 S2] | (t & Ht & Hgt & S3 & P1 & P2)].
    - (* no update *)
      rewrite S1. split.
      + repeat split; try assumption. intros i' j k Hi' He.
        destruct (Nat.eq_dec i' (S i)) as [->|Hne]; [|apply (H4 i' j k); [lia | exact He]].
        destruct j as [|j]; [apply ends_col0 in He; lia|].
        apply Hrow in He. destruct (Nat.lt_ge_cases j (List.length row)) as [Hlt|Hge].
        * specialize (S2 j Hlt). lia.
        * rewrite nth_overflow in He by exact Hge. lia.
      + split; [exact Z|]. split; [intro Hp; specialize (E Hp); lia|].
        intros i' j Hi' Hp He. destruct (Nat.eq_dec i' (S i)) as [->|Hne].
        * left. specialize (E Hp). lia.
        * apply F; [lia | exact Hp | exact He].
    - (* updated at column t *)
      assert (He : ends (S i) (S t) (nth t row 0)) by (apply Hrow; lia).
      destruct He as (E1 & E2 & E3).
      rewrite S3. cbn [Nat.add] in *. unfold best_ok, best_first, mA, mB, mSize in *. cbn [fst snd] in *.
      split.
      + repeat split; [lia | lia | exact E3 |].
        intros i' j k Hi' He. destruct (Nat.eq_dec i' (S i)) as [->|Hne].
        * destruct j as [|j]; [apply ends_col0 in He; lia|].
          apply Hrow in He. destruct (Nat.lt_ge_cases j (List.length row)) as [Hlt|Hge].
          -- specialize (P2 j Hlt). lia.
          -- rewrite nth_overflow in He by exact Hge. lia.
        * specialize (H4 i' j k ltac:(lia) He). lia.
      + split; [intro Hz; lia|]. split; [intros _; lia|].
        intros i' j Hi' Hp He. destruct (Nat.eq_dec i' (S i)) as [->|Hne].
        * right. split; [lia|]. destruct j as [|j]; [apply ends_col0 in He; lia|].
          apply Hrow in He. destruct (Nat.lt_ge_cases j t) as [Hlt|Hge]; [specialize (P1 j Hlt); lia | lia].
        * specialize (H4 i' j _ ltac:(lia) He). lia.
  Qed.

  Lemma flm_rows_first : forall aw i prev best,
    aw = skipn i A -> row_ok i prev -> best_ok i best -> best_first i best ->
    best_ok (List.length A) (flm_rows T eqb aw i B prev best)
    /\ best_first (List.length A) (flm_rows T eqb aw i B prev best).
  Proof.
    induction aw as [|x aw IH]; intros i prev best Haw Hprev Hbest Hfirst; cbn [flm_rows].
    - assert (Hlen : List.length A <= i).
      { assert (H : List.length (skipn i A) = 0) by (rewrite <- Haw; reflexivity).
        rewrite skipn_length in H. lia. }
      destruct (Nat.eq_dec i (List.length A)) as [->|Hne]; [split; assumption|].
      (* i beyond the end cannot happen with a non-empty history; handle it anyway *)
      destruct Hbest as (H1 & H2 & H3 & H4). destruct Hfirst as (Z & E & F). split.
      + repeat split; try assumption. intros i' j k Hi' He. apply (H4 i' j k); [lia | exact He].
      + split; [exact Z|]. split.
        * intro Hp. lia.
        * intros i' j Hi' Hp He. apply F; [lia | exact Hp | exact He].
    - symmetry in Haw. apply skipn_cons_inv in Haw. destruct Haw as [Hx Haw].
      destruct (best_step i x prev best Hx Hprev Hbest Hfirst) as [B1 B2].
      apply (IH (S i) (flm_row T eqb x B 0 prev)); [symmetry; exact Haw | exact (row_ok_step i x prev Hx Hprev) | exact B1 | exact B2].
  Qed.

  (* with a longest run in hand the two extension loops do nothing *)
  Lemma flm_back_noop i j K :
    (forall i0 j0 k0, run A B i0 j0 k0 -> k0 <= K) -> run A B i j K ->
    flm_back T eqb A B i j K = (i, j, K).
  Proof.
    intros Hmax Hr. destruct i as [|i]; [reflexivity|]. destruct j as [|j]; [reflexivity|].
    cbn [flm_back]. destruct (eqat eqb A B i j) eqn:He; [|reflexivity].
    exfalso. assert (Hr' : run A B i j (S K)).
    { intros t Ht. destruct t as [|t]; [rewrite !Nat.add_0_r; exact He|].
      specialize (Hr t ltac:(lia)).
      replace (i + S t) with (S i + t) by lia. replace (j + S t) with (S j + t) by lia. exact Hr. }
    specialize (Hmax _ _ _ Hr'). lia.
  Qed.

  Lemma flm_fwd_noop rem i j K :
    (forall i0 j0 k0, run A B i0 j0 k0 -> k0 <= K) -> run A B i j K ->
    flm_fwd T eqb A B rem i j K = K.
  Proof.
    intros Hmax Hr. destruct rem as [|rem]; [reflexivity|]. cbn [flm_fwd].
    destruct ((j + K <? List.length B) && eqat eqb A B (i + K) (j + K)) eqn:Hc; [|reflexivity].
    exfalso. apply andb_prop in Hc. destruct Hc as [_ He].
    assert (Hr' : run A B i j (S K)) by (apply run_snoc; split; assumption).
    specialize (Hmax _ _ _ Hr'). lia.
  Qed.

  Lemma flm_win_first :
    let m := flm_win T eqb A B in
    (mSize m = 0 -> mA m = 0 /\ mB m = 0)
    /\ forall i0 j0, 0 < mSize m -> run A B i0 j0 (mSize m) ->
        mA m < i0 \/ (mA m = i0 /\ mB m <= j0).
  Proof.
    assert (H0 : best_ok 0 (0, 0, 0)).
    { unfold best_ok, mA, mB, mSize; simpl. repeat split; try lia; [apply run_0|].
      intros i' j k Hi' (He & _). lia. }
    assert (F0 : best_first 0 (0, 0, 0)).
    { unfold best_first, mSize. cbn [snd]. split; [reflexivity|]. split; intros; lia. }
    destruct (flm_rows_first A 0 [] (0, 0, 0) eq_refl row_ok_init H0 F0) as [Hb Hf].
    unfold flm_win.
    set (best := flm_rows T eqb A 0 B [] (0, 0, 0)) in *. clearbody best.
    destruct Hb as (B1 & B2 & B3 & B4). destruct Hf as (Z & E & F).
    assert (Hmax : forall i0 j0 k0, run A B i0 j0 k0 -> k0 <= mSize best).
    { intros i0 j0 k0 Hr. destruct k0 as [|k0]; [lia|].
      assert (Hbd := run_bounds _ _ _ _ _ (Nat.lt_0_succ k0) Hr).
      apply (B4 (i0 + S k0) (j0 + S k0) (S k0)); [lia|].
      unfold ends. repeat split; try lia.
      replace (i0 + S k0 - S k0) with i0 by lia. replace (j0 + S k0 - S k0) with j0 by lia. exact Hr. }
    rewrite (flm_back_noop _ _ _ Hmax B3), (flm_fwd_noop _ _ _ _ Hmax B3).
    assert (Em : (mA best, mB best, mSize best) = best) by (destruct best as [[? ?] ?]; reflexivity).
    rewrite Em. cbv zeta. split.
    - intro Hz. rewrite (Z Hz). split; reflexivity.
    - intros i0 j0 Hp Hr.
      assert (Hbd := run_bounds _ _ _ _ _ Hp Hr).
      assert (He : ends (i0 + mSize best) (j0 + mSize best) (mSize best)).
      { unfold ends. repeat split; try lia.
        replace (i0 + mSize best - mSize best) with i0 by lia.
        replace (j0 + mSize best - mSize best) with j0 by lia. exact Hr. }
      destruct (F (i0 + mSize best) (j0 + mSize best) ltac:(lia) Hp He) as [Hl | [Hl1 Hl2]]; lia.
  Qed.
End Flm.

Arguments run {T}.

(* ================================================================== whole lists *)
Section Blocks.
  Variable T : Type.
  Variable eqb : T -> T -> bool.
  Variables a b : list T.

  Lemma eqat_sub alo na blo nb i j :
    eqat eqb (sub a alo na) (sub b blo nb) i j =
    (i <? na) && (j <? nb) && eqat eqb a b (alo + i) (blo + j).
  Proof.
    unfold eqat. rewrite !nth_error_sub.
    destruct (i <? na); simpl; [|reflexivity].
    destruct (j <? nb); simpl; [reflexivity|].
    destruct (nth_error a (alo + i)); reflexivity.
  Qed.

  Lemma run_of_sub alo na blo nb i j k :
    run eqb (sub a alo na) (sub b blo nb) i j k -> run eqb a b (alo + i) (blo + j) k.
  Proof.
    intros H t Ht. specialize (H t Ht). rewrite eqat_sub in H.
    apply andb_prop in H. destruct H as [_ H]. rewrite <- !Nat.add_assoc. exact H.
  Qed.

  Lemma run_to_sub alo na blo nb i j k :
    alo <= i -> i + k <= alo + na -> blo <= j -> j + k <= blo + nb ->
    run eqb a b i j k -> run eqb (sub a alo na) (sub b blo nb) (i - alo) (j - blo) k.
  Proof.
    intros H1 H2 H3 H4 H t Ht. rewrite eqat_sub.
    replace (alo + (i - alo + t)) with (i + t) by lia.
    replace (blo + (j - blo + t)) with (j + t) by lia.
    rewrite (H t Ht).
    destruct (Nat.ltb_spec (i - alo + t) na); [|lia].
    destruct (Nat.ltb_spec (j - blo + t) nb); [|lia]. reflexivity.
  Qed.

  (* the result of findLongestMatch is a common run inside the window ... *)
  Lemma flm_run alo ahi blo bhi :
    alo <= ahi <= List.length a -> blo <= bhi <= List.length b ->
    let m := find_longest_match eqb a b alo ahi blo bhi in
    alo <= mA m /\ mA m + mSize m <= ahi /\ blo <= mB m /\ mB m + mSize m <= bhi
    /\ run eqb a b (mA m) (mB m) (mSize m).
  Proof.
    intros Ha Hb. unfold find_longest_match.
    destruct (flm_win_spec T eqb (sub a alo (ahi - alo)) (sub b blo (bhi - blo))) as (W1 & W2 & W3 & _).
    set (w := flm_win T eqb (sub a alo (ahi - alo)) (sub b blo (bhi - blo))) in *. clearbody w.
    rewrite sub_length in W1 by lia. rewrite sub_length in W2 by lia.
    unfold mA, mB, mSize in *. cbn [fst snd].
    repeat split; try lia. apply run_of_sub in W3. exact W3.
  Qed.

  (* ... and no common run inside the window is longer *)
  Lemma flm_maximal alo ahi blo bhi :
    alo <= ahi <= List.length a -> blo <= bhi <= List.length b ->
    forall i j k, alo <= i -> i + k <= ahi -> blo <= j -> j + k <= bhi -> run eqb a b i j k ->
    k <= mSize (find_longest_match eqb a b alo ahi blo bhi).
  Proof.
    intros Ha Hb i j k H1 H2 H3 H4 Hr. unfold find_longest_match.
    destruct (flm_win_spec T eqb (sub a alo (ahi - alo)) (sub b blo (bhi - blo))) as (_ & _ & _ & W4).
    unfold mSize in *. cbn [snd].
    apply (W4 (i - alo) (j - blo) k). apply run_to_sub; try lia. exact Hr.
  Qed.

  (* ---------- equality of elements ---------- *)
  Hypothesis eqb_spec : forall x y, eqb x y = true <-> x = y.

  Lemma run_sub : forall k i j, run eqb a b i j k -> sub a i k = sub b j k.
  Proof.
    induction k as [|k IH]; intros i j H; [reflexivity|].
    assert (H0 := H 0 ltac:(lia)). rewrite !Nat.add_0_r in H0. unfold eqat in H0.
    destruct (nth_error a i) as [x|] eqn:Ea; [|discriminate].
    destruct (nth_error b j) as [y|] eqn:Eb; [|discriminate].
    apply eqb_spec in H0. subst y.
    rewrite (sub_cons a i x k Ea), (sub_cons b j x k Eb). f_equal.
    apply IH. intros t Ht. specialize (H (S t) ltac:(lia)).
    replace (S i + t) with (i + S t) by lia. replace (S j + t) with (j + S t) by lia. exact H.
  Qed.

  Theorem flm_sound alo ahi blo bhi :
    alo <= ahi <= List.length a -> blo <= bhi <= List.length b ->
    let m := find_longest_match eqb a b alo ahi blo bhi in
    alo <= mA m /\ mA m + mSize m <= ahi /\ blo <= mB m /\ mB m + mSize m <= bhi
    /\ sub a (mA m) (mSize m) = sub b (mB m) (mSize m).
  Proof.
    intros Ha Hb. destruct (flm_run alo ahi blo bhi Ha Hb) as (H1 & H2 & H3 & H4 & H5).
    cbv zeta. repeat split; try assumption. apply run_sub. exact H5.
  Qed.
End Blocks.

(* ================================================================== matchingBlocks *)
Section Matching.
  Variable T : Type.
  Variable eqb : T -> T -> bool.
  Variables a b : list T.

  (* blocks are non-empty common runs, in order, inside [alo,ahi) x [blo,bhi) *)
  Fixpoint chain (alo blo : nat) (l : list mtch) (ahi bhi : nat) : Prop :=
    match l with
    | [] => alo <= ahi /\ blo <= bhi
    | m :: l' =>
        alo <= mA m /\ blo <= mB m /\ 0 < mSize m /\ run eqb a b (mA m) (mB m) (mSize m)
        /\ chain (mA m + mSize m) (mB m + mSize m) l' ahi bhi
    end.

  Lemma chain_le : forall l alo blo ahi bhi, chain alo blo l ahi bhi -> alo <= ahi /\ blo <= bhi.
  Proof.
    induction l as [|m l IH]; intros alo blo ahi bhi H; simpl in H; [exact H|].
    destruct H as (H1 & H2 & H3 & _ & H5). apply IH in H5. lia.
  Qed.

  Lemma chain_lo : forall l alo blo alo' blo' ahi bhi,
    alo' <= alo -> blo' <= blo -> chain alo blo l ahi bhi -> chain alo' blo' l ahi bhi.
  Proof.
    destruct l as [|m l]; intros alo blo alo' blo' ahi bhi Ha Hb H; simpl in *.
    - lia.
    - destruct H as (H1 & H2 & H3 & H4 & H5). repeat split; try assumption; lia.
  Qed.

  Lemma chain_hi : forall l alo blo ahi bhi ahi' bhi',
    ahi <= ahi' -> bhi <= bhi' -> chain alo blo l ahi bhi -> chain alo blo l ahi' bhi'.
  Proof.
    induction l as [|m l IH]; intros alo blo ahi bhi ahi' bhi' Ha Hb H; simpl in *.
    - lia.
    - destruct H as (H1 & H2 & H3 & H4 & H5). repeat split; try assumption.
      apply (IH _ _ ahi bhi); assumption.
  Qed.

  Lemma chain_app : forall l1 l2 alo blo i j ahi bhi,
    chain alo blo l1 i j -> chain i j l2 ahi bhi -> chain alo blo (l1 ++ l2) ahi bhi.
  Proof.
    induction l1 as [|m l1 IH]; intros l2 alo blo i j ahi bhi H1 H2; simpl in *.
    - apply (chain_lo l2 i j); try lia. exact H2.
    - destruct H1 as (A1 & A2 & A3 & A4 & A5). repeat split; try assumption.
      apply (IH l2 _ _ i j); assumption.
  Qed.

  (* the recursion returns such a chain for its window *)
  Lemma match_blocks_chain : forall fuel alo ahi blo bhi l,
    alo <= ahi <= List.length a -> blo <= bhi <= List.length b ->
    match_blocks eqb fuel a b alo ahi blo bhi = Some l -> chain alo blo l ahi bhi.
  Proof.
    induction fuel as [|f IH]; intros alo ahi blo bhi l Ha Hb H; [discriminate|].
    cbn [match_blocks] in H. cbv zeta in H.
    destruct (flm_run T eqb a b alo ahi blo bhi Ha Hb) as (F1 & F2 & F3 & F4 & F5).
    set (m := find_longest_match eqb a b alo ahi blo bhi) in *. clearbody m.
    destruct (Nat.eqb_spec (mSize m) 0) as [Hz|Hnz].
    - injection H as <-. simpl. lia.
    - destruct (if (alo <? mA m) && (blo <? mB m) then match_blocks eqb f a b alo (mA m) blo (mB m) else Some [])
        as [lft|] eqn:El; [|discriminate].
      destruct (if (mA m + mSize m <? ahi) && (mB m + mSize m <? bhi)
                then match_blocks eqb f a b (mA m + mSize m) ahi (mB m + mSize m) bhi else Some [])
        as [rgt|] eqn:Er; [|discriminate].
      injection H as <-.
      assert (Hl : chain alo blo lft (mA m) (mB m)).
      { destruct ((alo <? mA m) && (blo <? mB m)).
        - apply (IH alo (mA m) blo (mB m)); [lia | lia | exact El].
        - injection El as <-. simpl. lia. }
      assert (Hr : chain (mA m + mSize m) (mB m + mSize m) rgt ahi bhi).
      { destruct ((mA m + mSize m <? ahi) && (mB m + mSize m <? bhi)).
        - apply (IH (mA m + mSize m) ahi (mB m + mSize m) bhi); [lia | lia | exact Er].
        - injection Er as <-. simpl. lia. }
      apply (chain_app lft (m :: rgt) alo blo (mA m) (mB m)); [exact Hl|].
      simpl. repeat split; try lia; assumption.
  Qed.

  (* ... and never runs out of fuel when the fuel exceeds the size of the window *)
  Lemma match_blocks_fuel : forall fuel alo ahi blo bhi,
    alo <= ahi <= List.length a -> blo <= bhi <= List.length b ->
    (ahi - alo) + (bhi - blo) < fuel ->
    match_blocks eqb fuel a b alo ahi blo bhi <> None.
  Proof.
    induction fuel as [|f IH]; intros alo ahi blo bhi Ha Hb Hf; [lia|].
    cbn [match_blocks]. cbv zeta.
    destruct (flm_run T eqb a b alo ahi blo bhi Ha Hb) as (F1 & F2 & F3 & F4 & F5).
    set (m := find_longest_match eqb a b alo ahi blo bhi) in *. clearbody m.
    destruct (Nat.eqb_spec (mSize m) 0) as [Hz|Hnz]; [discriminate|].
    assert (Hl : (if (alo <? mA m) && (blo <? mB m) then match_blocks eqb f a b alo (mA m) blo (mB m) else Some []) <> None).
    { destruct ((alo <? mA m) && (blo <? mB m)); [|discriminate]. apply IH; lia. }
    assert (Hr : (if (mA m + mSize m <? ahi) && (mB m + mSize m <? bhi)
                  then match_blocks eqb f a b (mA m + mSize m) ahi (mB m + mSize m) bhi else Some []) <> None).
    { destruct ((mA m + mSize m <? ahi) && (mB m + mSize m <? bhi)); [|discriminate]. apply IH; lia. }
    destruct (if (alo <? mA m) && (blo <? mB m) then _ else _); [|congruence].
    destruct (if (mA m + mSize m <? ahi) && (mB m + mSize m <? bhi) then _ else _); [discriminate|congruence].
  Qed.

  (* ---------- the adjacent-block collapse ---------- *)
  Lemma collapse_chain : forall l cur X Y H1 H2,
    chain X Y (cur :: l) H1 H2 -> chain X Y (collapse l cur) H1 H2.
  Proof.
    induction l as [|m2 l IH]; intros cur X Y H1 H2 H.
    - cbn [collapse]. simpl in H. destruct H as (A1 & A2 & A3 & A4 & A5).
      destruct (Nat.ltb_spec 0 (mSize cur)); [|lia]. simpl. repeat split; try assumption; lia.
    - cbn [collapse]. cbn [chain] in H. destruct H as (A1 & A2 & A3 & A4 & B1 & B2 & B3 & B4 & B5).
      destruct ((mA cur + mSize cur =? mA m2) && (mB cur + mSize cur =? mB m2)) eqn:Eadj.
      + apply andb_prop in Eadj. destruct Eadj as [Ea Eb]. apply Nat.eqb_eq in Ea, Eb.
        apply IH. cbn [chain]. unfold mA, mB, mSize in *. cbn [fst snd] in *.
        repeat split; try lia.
        * apply run_app; [exact A4|]. rewrite Ea, Eb. exact B4.
        * rewrite !Nat.add_assoc, Ea, Eb. exact B5.
      + destruct (Nat.ltb_spec 0 (mSize cur)); [|lia].
        cbn [app chain]. repeat split; try assumption.
        apply IH. cbn [chain]. repeat split; assumption.
  Qed.

  Lemma collapse_chain0 : forall l H1 H2, chain 0 0 l H1 H2 -> chain 0 0 (collapse l (0, 0, 0)) H1 H2.
  Proof.
    intros [|m2 l] H1 H2 H.
    - exact H.
    - cbn [collapse]. unfold mA, mB, mSize. cbn [fst snd]. cbn [Nat.add].
      assert (H' := H). cbn [chain] in H'. destruct H' as (A1 & A2 & A3 & A4 & A5).
      destruct ((0 =? fst (fst m2)) && (0 =? snd (fst m2))) eqn:E.
      + apply andb_prop in E. destruct E as [Ea Eb]. apply Nat.eqb_eq in Ea, Eb.
        apply collapse_chain. destruct m2 as [[i j] k]. cbn [fst snd] in *. subst i j. exact H.
      + cbn [Nat.ltb Nat.leb app]. apply collapse_chain. exact H.
  Qed.

  Theorem matching_blocks_spec :
    exists l, matching_blocks eqb a b = Some (l ++ [(List.length a, List.length b, 0)])
              /\ chain 0 0 l (List.length a) (List.length b).
  Proof.
    unfold matching_blocks.
    destruct (match_blocks eqb (mb_fuel T a b) a b 0 (List.length a) 0 (List.length b)) as [matched|] eqn:E.
    - exists (collapse matched (0, 0, 0)). split; [reflexivity|].
      apply collapse_chain0. apply (match_blocks_chain (mb_fuel T a b) 0 (List.length a) 0 (List.length b) matched); [lia | lia | exact E].
    - exfalso. revert E. apply match_blocks_fuel; unfold mb_fuel; lia.
  Qed.
End Matching.

Arguments chain {T}.

(* ================================================================== GetOpCodes *)
Section Opcodes.
  Variable T : Type.
  Variable eqb : T -> T -> bool.
  Variables a b : list T.

  (* what each tag promises about its two ranges *)
  Definition op_ok (c : opcode) : Prop :=
    oI1 c <= oI2 c /\ oJ1 c <= oJ2 c /\
    match oTag c with
    | TE => oI2 c - oI1 c = oJ2 c - oJ1 c /\ run eqb a b (oI1 c) (oJ1 c) (oI2 c - oI1 c)
    | TD => oI1 c < oI2 c /\ oJ1 c = oJ2 c
    | TI => oI1 c = oI2 c /\ oJ1 c < oJ2 c
    | TR => oI1 c < oI2 c /\ oJ1 c < oJ2 c
    end.

  (* the codes cover [i,I) and [j,J) contiguously, each starting where the previous one stopped *)
  Fixpoint tiles (i j : nat) (cs : list opcode) (I J : nat) : Prop :=
    match cs with
    | [] => i = I /\ j = J
    | c :: r => oI1 c = i /\ oJ1 c = j /\ op_ok c /\ tiles (oI2 c) (oJ2 c) r I J
    end.

  Lemma tiles_le : forall cs i j I J, tiles i j cs I J -> i <= I /\ j <= J.
  Proof.
    induction cs as [|c r IH]; intros i j I J H; simpl in H; [lia|].
    destruct H as (H1 & H2 & (H3 & H4 & _) & H5). apply IH in H5. lia.
  Qed.

  Lemma tiles_app : forall c1 c2 i j i' j' I J,
    tiles i j c1 i' j' -> tiles i' j' c2 I J -> tiles i j (c1 ++ c2) I J.
  Proof.
    induction c1 as [|c r IH]; intros c2 i j i' j' I J H1 H2; simpl in *.
    - destruct H1 as [-> ->]. exact H2.
    - destruct H1 as (A1 & A2 & A3 & A4). refine (conj A1 (conj A2 (conj A3 _))).
      apply (IH c2 _ _ i' j'); assumption.
  Qed.

  Lemma opcodes_from_tiles : forall l i j la lb,
    chain eqb a b i j l la lb -> tiles i j (opcodes_from i j (l ++ [(la, lb, 0)])) la lb.
  Proof.
    induction l as [|m l IH]; intros i j la lb H.
    - simpl in H. cbn [app opcodes_from]. unfold mA, mB, mSize. cbn [fst snd].
      change (0 <? 0) with false. cbv iota. rewrite !app_nil_r.
      destruct (Nat.ltb_spec i la) as [Hi|Hi]; destruct (Nat.ltb_spec j lb) as [Hj|Hj];
        cbn [andb tiles]; unfold op_ok; cbn [oTag oI1 oI2 oJ1 oJ2]; repeat split; lia.
    - cbn [chain] in H. destruct H as (H1 & H2 & H3 & H4 & H5).
      cbn [app opcodes_from]. cbv zeta.
      destruct (Nat.ltb_spec 0 (mSize m)) as [_|]; [|lia].
      apply (tiles_app _ _ i j (mA m) (mB m)).
      + destruct (Nat.ltb_spec i (mA m)) as [Hi|Hi]; destruct (Nat.ltb_spec j (mB m)) as [Hj|Hj];
          cbn [andb tiles]; unfold op_ok; cbn [oTag oI1 oI2 oJ1 oJ2]; repeat split; lia.
      + cbn [app tiles]. unfold op_ok. cbn [oTag oI1 oI2 oJ1 oJ2].
        replace (mA m + mSize m - mA m) with (mSize m) by lia.
        replace (mB m + mSize m - mB m) with (mSize m) by lia.
        repeat split; try lia; [exact H4|]. apply IH. exact H5.
  Qed.

  Theorem opcodes_tile_run :
    exists cs, get_opcodes eqb a b = Some cs /\ tiles 0 0 cs (List.length a) (List.length b).
  Proof.
    unfold get_opcodes. destruct (matching_blocks_spec T eqb a b) as (l & -> & Hc).
    eexists. split; [reflexivity|]. apply opcodes_from_tiles. exact Hc.
  Qed.
End Opcodes.

Arguments op_ok {T}.
Arguments tiles {T}.

(* ================================================================== GetGroupedOpCodes *)
Section Groups.
  Variable T : Type.
  Variable eqb : T -> T -> bool.
  Variables a b : list T.

  Lemma run_prefix i j k k' : k' <= k -> run eqb a b i j k -> run eqb a b i j k'.
  Proof. intros Hle H t Ht. apply H. lia. Qed.

  (* the stretch between two hunks (or before the first / after the last): equal lines on both sides *)
  Definition gap (i j i' j' : nat) : Prop :=
    i <= i' /\ j <= j' /\ i' - i = j' - j /\ run eqb a b i j (i' - i).

  Lemma gap_refl i j : gap i j i j.
  Proof. unfold gap. repeat split; try lia. rewrite Nat.sub_diag. apply run_0. Qed.

  Lemma gap_trans i j i1 j1 i2 j2 : gap i j i1 j1 -> gap i1 j1 i2 j2 -> gap i j i2 j2.
  Proof.
    intros (A1 & A2 & A3 & A4) (B1 & B2 & B3 & B4). unfold gap. repeat split; try lia.
    replace (i2 - i) with ((i1 - i) + (i2 - i1)) by lia. apply run_app; [exact A4|].
    replace (i + (i1 - i)) with i1 by lia. replace (j + (i1 - i)) with j1 by lia. exact B4.
  Qed.

  Definition gI1 (g : list opcode) := oI1 (hd dummy_op g).
  Definition gJ1 (g : list opcode) := oJ1 (hd dummy_op g).
  Definition gI2 (g : list opcode) := oI2 (last g dummy_op).
  Definition gJ2 (g : list opcode) := oJ2 (last g dummy_op).

  (* groups: each a non-empty contiguous tiling; between them only equal stretches *)
  Fixpoint gtiles (i j : nat) (gs : list (list opcode)) (I J : nat) : Prop :=
    match gs with
    | [] => gap i j I J
    | g :: r =>
        g <> [] /\ gap i j (gI1 g) (gJ1 g)
        /\ tiles eqb a b (gI1 g) (gJ1 g) g (gI2 g) (gJ2 g)
        /\ gtiles (gI2 g) (gJ2 g) r I J
    end.

  Lemma gtiles_gap_l gs i j i' j' I J : gap i j i' j' -> gtiles i' j' gs I J -> gtiles i j gs I J.
  Proof.
    destruct gs as [|g r]; simpl; intros Hg H.
    - apply (gap_trans _ _ i' j'); assumption.
    - destruct H as (H1 & H2 & H3 & H4). refine (conj H1 (conj _ (conj H3 H4))).
      apply (gap_trans _ _ i' j'); assumption.
  Qed.

  Lemma gtiles_gap_r : forall gs i j I J I' J', gtiles i j gs I J -> gap I J I' J' -> gtiles i j gs I' J'.
  Proof.
    induction gs as [|g r IH]; simpl; intros i j I J I' J' H Hg.
    - apply (gap_trans _ _ I J); assumption.
    - destruct H as (H1 & H2 & H3 & H4). refine (conj H1 (conj H2 (conj H3 _))).
      apply (IH _ _ I J); assumption.
  Qed.

  Lemma tiles_ends : forall g i j I J, g <> [] -> tiles eqb a b i j g I J ->
    gI1 g = i /\ gJ1 g = j /\ gI2 g = I /\ gJ2 g = J.
  Proof.
    unfold gI1, gJ1, gI2, gJ2.
    induction g as [|c r IH]; intros i j I J Hne H; [congruence|].
    cbn [tiles] in H. destruct H as (H1 & H2 & H3 & H4). cbn [hd].
    destruct r as [|c' r'].
    - simpl in H4. cbn [last]. lia.
    - destruct (IH _ _ _ _ ltac:(discriminate) H4) as (_ & _ & E3 & E4).
      change (last (c :: c' :: r') dummy_op) with (last (c' :: r') dummy_op). lia.
  Qed.

  Lemma gtiles_single g i j I J : g <> [] -> tiles eqb a b i j g I J -> gtiles i j [g] I J.
  Proof.
    intros Hne H. destruct (tiles_ends g i j I J Hne H) as (E1 & E2 & E3 & E4).
    cbn [gtiles]. rewrite E1, E2, E3, E4.
    refine (conj Hne (conj (gap_refl _ _) (conj H (gap_refl _ _)))).
  Qed.

  Lemma group_loop_nil n group :
    (group_loop n [] group = [] /\ (group = [] \/ exists c, group = [c] /\ oTag c = TE))
    \/ (group_loop n [] group = [group] /\ group <> []).
  Proof.
    destruct group as [|c [|c' r]].
    - left. split; [reflexivity | left; reflexivity].
    - destruct c as [[] i1 i2 j1 j2]; cbn [group_loop];
        try (right; split; [reflexivity | discriminate]).
      left. split; [reflexivity|]. right. eexists. split; reflexivity.
    - right. destruct c as [[] i1 i2 j1 j2]; cbn [group_loop]; split; try reflexivity; discriminate.
  Qed.

  Lemma group_loop_gtiles n : forall codes group gi gj ci cj I J,
    tiles eqb a b gi gj group ci cj -> tiles eqb a b ci cj codes I J ->
    gtiles gi gj (group_loop n codes group) I J.
  Proof.
    induction codes as [|c rest IH]; intros group gi gj ci cj I J Hg Hc.
    - cbn [tiles] in Hc. destruct Hc as [-> ->].
      destruct (group_loop_nil n group) as [[-> [-> | (c & -> & Et)]] | [-> Hne]].
      + cbn [tiles] in Hg. destruct Hg as [-> ->]. apply gap_refl.
      + cbn [tiles] in Hg. destruct Hg as (H1 & H2 & (H3 & H4 & H5) & H6 & H7).
        rewrite Et in H5. destruct H5 as [H5 H8]. cbn [gtiles]. unfold gap.
        subst gi gj I J. repeat split; try lia. exact H8.
      + apply gtiles_single; assumption.
    - cbn [tiles] in Hc. destruct Hc as (C1 & C2 & C3 & C4).
      cbn [group_loop]. cbv zeta.
      destruct (is_e (oTag c) && (n + n <? oI2 c - oI1 c)) eqn:E.
      + apply andb_prop in E. destruct E as [Ee En]. apply Nat.ltb_lt in En.
        destruct c as [tg i1 i2 j1 j2]. cbn [oTag oI1 oI2 oJ1 oJ2] in *.
        destruct tg; try discriminate. clear Ee.
        destruct C3 as (O1 & O2 & O3 & O4). cbn [oTag oI1 oI2 oJ1 oJ2] in *.
        subst ci cj.
        set (d := i2 - i1 - n).
        assert (Hmi : Nat.min i2 (i1 + n) = i1 + n) by lia.
        assert (Hmj : Nat.min j2 (j1 + n) = j1 + n) by lia.
        assert (Hxi : Nat.max i1 (i2 - n) = i1 + d) by lia.
        assert (Hxj : Nat.max j1 (j2 - n) = j1 + d) by lia.
        rewrite Hmi, Hmj, Hxi, Hxj.
        assert (Hhead : tiles eqb a b gi gj (group ++ [mkOp TE i1 (i1 + n) j1 (j1 + n)]) (i1 + n) (j1 + n)).
        { apply (tiles_app T eqb a b _ _ gi gj i1 j1); [exact Hg|].
          cbn [tiles]. unfold op_ok. cbn [oTag oI1 oI2 oJ1 oJ2].
          repeat split; try lia.
          replace (i1 + n - i1) with n by lia. apply (run_prefix _ _ (i2 - i1)); [lia | exact O4]. }
        assert (Hne : group ++ [mkOp TE i1 (i1 + n) j1 (j1 + n)] <> []).
        { intro Hx. apply app_eq_nil in Hx. destruct Hx as [_ Hx]. discriminate. }
        destruct (tiles_ends _ _ _ _ _ Hne Hhead) as (E1 & E2 & E3 & E4).
        cbn [gtiles]. rewrite E1, E2, E3, E4.
        refine (conj Hne (conj (gap_refl _ _) (conj Hhead _))).
        apply (gtiles_gap_l _ _ _ (i1 + d) (j1 + d)).
        * unfold gap. repeat split; try lia.
          replace (i1 + d - (i1 + n)) with (d - n) by lia.
          apply (run_part T eqb a b i1 j1 (i2 - i1) n (d - n)); [lia | exact O4].
        * apply (IH _ (i1 + d) (j1 + d) i2 j2); [|exact C4].
          cbn [tiles]. unfold op_ok. cbn [oTag oI1 oI2 oJ1 oJ2].
          repeat split; try lia.
          apply (run_part T eqb a b i1 j1 (i2 - i1) d (i2 - (i1 + d))); [lia | exact O4].
      + apply (IH _ gi gj (oI2 c) (oJ2 c)); [|exact C4].
        apply (tiles_app T eqb a b _ _ gi gj ci cj); [exact Hg|].
        cbn [tiles]. refine (conj C1 (conj C2 (conj C3 (conj eq_refl eq_refl)))).
  Qed.

  Lemma fix_first_tiles n codes i j I J :
    tiles eqb a b i j codes I J ->
    exists i' j', gap i j i' j' /\ tiles eqb a b i' j' (fix_first n codes) I J.
  Proof.
    intro H. destruct codes as [|[tg i1 i2 j1 j2] r].
    - exists i, j. split; [apply gap_refl | exact H].
    - destruct tg; try (exists i, j; split; [apply gap_refl | exact H]).
      cbn [tiles] in H. destruct H as (H1 & H2 & (O1 & O2 & O3 & O4) & H4).
      cbn [oTag oI1 oI2 oJ1 oJ2] in *. subst i1 j1.
      set (d := Nat.max i (i2 - n) - i).
      assert (Hxi : Nat.max i (i2 - n) = i + d) by lia.
      assert (Hxj : Nat.max j (j2 - n) = j + d) by lia.
      exists (i + d), (j + d). cbn [fix_first]. rewrite Hxi, Hxj. split.
      + unfold gap. repeat split; try lia.
        replace (i + d - i) with d by lia. apply (run_prefix _ _ (i2 - i)); [lia | exact O4].
      + cbn [tiles]. unfold op_ok. cbn [oTag oI1 oI2 oJ1 oJ2].
        repeat split; try lia; [|exact H4].
        apply (run_part T eqb a b i j (i2 - i) d (i2 - (i + d))); [lia | exact O4].
  Qed.

  Lemma fix_last_tiles n : forall codes i j I J,
    tiles eqb a b i j codes I J ->
    exists I' J', tiles eqb a b i j (fix_last n codes) I' J' /\ gap I' J' I J.
  Proof.
    induction codes as [|c r IH]; intros i j I J H.
    - exists I, J. split; [exact H | apply gap_refl].
    - destruct r as [|c' r'].
      + destruct c as [tg i1 i2 j1 j2].
        destruct tg; try (exists I, J; split; [exact H | apply gap_refl]).
        cbn [tiles] in H. destruct H as (H1 & H2 & (O1 & O2 & O3 & O4) & H4 & H5).
        cbn [oTag oI1 oI2 oJ1 oJ2] in *. subst i1 j1 i2 j2.
        set (d := Nat.min I (i + n) - i).
        assert (Hmi : Nat.min I (i + n) = i + d) by lia.
        assert (Hmj : Nat.min J (j + n) = j + d) by lia.
        exists (i + d), (j + d). cbn [fix_last]. rewrite Hmi, Hmj. split.
        * cbn [tiles]. unfold op_ok. cbn [oTag oI1 oI2 oJ1 oJ2].
          repeat split; try lia.
          replace (i + d - i) with d by lia. apply (run_prefix _ _ (I - i)); [lia | exact O4].
        * unfold gap. repeat split; try lia.
          apply (run_part T eqb a b i j (I - i) d (I - (i + d))); [lia | exact O4].
      + cbn [tiles] in H. destruct H as (H1 & H2 & H3 & H4).
        destruct (IH _ _ _ _ H4) as (I' & J' & T1 & T2).
        exists I', J'. split; [|exact T2].
        change (fix_last n (c :: c' :: r')) with (c :: fix_last n (c' :: r')).
        cbn [tiles]. refine (conj H1 (conj H2 (conj H3 T1))).
  Qed.

  Lemma group_codes_nil n : group_codes n [] = [].
  Proof. destruct n; reflexivity. Qed.

  Theorem group_codes_gtiles n codes :
    tiles eqb a b 0 0 codes (List.length a) (List.length b) ->
    gtiles 0 0 (group_codes n codes) (List.length a) (List.length b).
  Proof.
    intro H. destruct codes as [|c r].
    - rewrite group_codes_nil. simpl in H. destruct H as [<- <-]. apply gap_refl.
    - unfold group_codes.
      destruct (fix_first_tiles n _ _ _ _ _ H) as (i' & j' & G1 & H1).
      destruct (fix_last_tiles n _ _ _ _ _ H1) as (I' & J' & H2 & G2).
      apply (gtiles_gap_l _ _ _ i' j'); [exact G1|].
      apply (gtiles_gap_r _ _ _ I' J'); [|exact G2].
      apply (group_loop_gtiles n _ [] i' j' i' j'); [split; reflexivity | exact H2].
  Qed.
End Groups.

Arguments gap {T}.
Arguments gtiles {T}.
Arguments gI1 : simpl never.
Arguments gI2 : simpl never.
Arguments gJ1 : simpl never.
Arguments gJ2 : simpl never.

(* ================================================================== the unified diff as a patch *)
Section Patch.
  Variable T : Type.
  Variable eqb : T -> T -> bool.
  Hypothesis eqb_spec : forall x y, eqb x y = true <-> x = y.
  Variables a b : list T.

  Lemma eqb_refl x : eqb x x = true.
  Proof. apply eqb_spec. reflexivity. Qed.

  Lemma apply_body_app : forall x y src,
    apply_body eqb (x ++ y) src =
    match apply_body eqb x src with
    | Some (o, s) => match apply_body eqb y s with Some (o', s') => Some (o ++ o', s') | None => None end
    | None => None
    end.
  Proof.
    induction x as [|[k l] x IH]; intros y src.
    - cbn [app apply_body]. destruct (apply_body eqb y src) as [[o' s']|]; reflexivity.
    - cbn [app apply_body]. destruct k.
      + destruct src as [|z src']; [reflexivity|]. destruct (eqb z l); [|reflexivity].
        rewrite IH. destruct (apply_body eqb x src') as [[o s]|]; [|reflexivity].
        destruct (apply_body eqb y s) as [[o' s']|]; reflexivity.
      + destruct src as [|z src']; [reflexivity|]. destruct (eqb z l); [|reflexivity].
        rewrite IH. destruct (apply_body eqb x src') as [[o s]|]; [|reflexivity].
        destruct (apply_body eqb y s) as [[o' s']|]; reflexivity.
      + rewrite IH. destruct (apply_body eqb x src) as [[o s]|]; [|reflexivity].
        destruct (apply_body eqb y s) as [[o' s']|]; reflexivity.
  Qed.

  Lemma apply_ctx : forall l s, apply_body eqb (map (pair Ctx) l) (l ++ s) = Some (l, s).
  Proof.
    induction l as [|x l IH]; intro s; [reflexivity|].
    cbn [map app apply_body]. rewrite eqb_refl, IH. reflexivity.
  Qed.

  Lemma apply_del : forall l s, apply_body eqb (map (pair Del) l) (l ++ s) = Some ([], s).
  Proof.
    induction l as [|x l IH]; intro s; [reflexivity|].
    cbn [map app apply_body]. rewrite eqb_refl, IH. reflexivity.
  Qed.

  Lemma apply_ins : forall l s, apply_body eqb (map (pair Ins) l) s = Some (l, s).
  Proof.
    induction l as [|x l IH]; intro s; [reflexivity|].
    cbn [map apply_body]. rewrite IH. reflexivity.
  Qed.

  Lemma count_a_app (x y : list (kind * T)) : count_a (x ++ y) = count_a x + count_a y.
  Proof. unfold count_a. rewrite filter_app, app_length. reflexivity. Qed.
  Lemma count_b_app (x y : list (kind * T)) : count_b (x ++ y) = count_b x + count_b y.
  Proof. unfold count_b. rewrite filter_app, app_length. reflexivity. Qed.

  Lemma count_map (k : kind) (l : list T) :
    count_a (map (pair k) l) = (match k with Ins => 0 | _ => List.length l end)
    /\ count_b (map (pair k) l) = (match k with Del => 0 | _ => List.length l end).
  Proof.
    unfold count_a, count_b. induction l as [|x l [IH1 IH2]]; [destruct k; split; reflexivity|].
    destruct k; cbn [map filter fst List.length] in *; split; lia.
  Qed.

  (* one opcode: consumes a[i1:i2], produces b[j1:j2] *)
  Lemma apply_code c :
    op_ok eqb a b c -> oI2 c <= List.length a -> oJ2 c <= List.length b ->
    apply_body eqb (code_lines a b c) (skipn (oI1 c) a) = Some (sub b (oJ1 c) (oJ2 c - oJ1 c), skipn (oI2 c) a)
    /\ count_a (code_lines a b c) = oI2 c - oI1 c
    /\ count_b (code_lines a b c) = oJ2 c - oJ1 c.
  Proof.
    intros (O1 & O2 & O3) La Lb. unfold code_lines.
    assert (Hsk : skipn (oI1 c) a = sub a (oI1 c) (oI2 c - oI1 c) ++ skipn (oI2 c) a).
    { rewrite (skipn_sub a (oI1 c) (oI2 c - oI1 c)). replace (oI1 c + (oI2 c - oI1 c)) with (oI2 c) by lia. reflexivity. }
    assert (Hla : List.length (sub a (oI1 c) (oI2 c - oI1 c)) = oI2 c - oI1 c) by (apply sub_length; lia).
    assert (Hlb : List.length (sub b (oJ1 c) (oJ2 c - oJ1 c)) = oJ2 c - oJ1 c) by (apply sub_length; lia).
    destruct (oTag c).
    - (* replace *)
      rewrite apply_body_app, Hsk, apply_del, apply_ins, count_a_app, count_b_app.
      destruct (count_map Del (sub a (oI1 c) (oI2 c - oI1 c))) as [-> ->].
      destruct (count_map Ins (sub b (oJ1 c) (oJ2 c - oJ1 c))) as [-> ->].
      repeat split; lia.
    - (* delete *)
      destruct O3 as [_ O3]. rewrite Hsk, apply_del.
      destruct (count_map Del (sub a (oI1 c) (oI2 c - oI1 c))) as [-> ->].
      replace (oJ2 c - oJ1 c) with 0 by lia. repeat split; lia.
    - (* insert *)
      destruct O3 as [O3 _]. rewrite apply_ins.
      destruct (count_map Ins (sub b (oJ1 c) (oJ2 c - oJ1 c))) as [-> ->].
      rewrite O3. repeat split; lia.
    - (* equal *)
      destruct O3 as [O3 O4]. rewrite Hsk, apply_ctx.
      destruct (count_map Ctx (sub a (oI1 c) (oI2 c - oI1 c))) as [-> ->].
      split; [|split; lia]. rewrite (run_sub T eqb a b eqb_spec _ _ _ O4), O3. reflexivity.
  Qed.

  (* one group *)
  Lemma apply_group : forall g i j I J,
    tiles eqb a b i j g I J -> I <= List.length a -> J <= List.length b ->
    apply_body eqb (flat_map (code_lines a b) g) (skipn i a) = Some (sub b j (J - j), skipn I a)
    /\ count_a (flat_map (code_lines a b) g) = I - i
    /\ count_b (flat_map (code_lines a b) g) = J - j.
  Proof.
    induction g as [|c r IH]; intros i j I J H La Lb.
    - cbn [tiles] in H. destruct H as [-> ->]. cbn [flat_map apply_body]. rewrite !Nat.sub_diag.
      repeat split; reflexivity.
    - cbn [tiles] in H. destruct H as (H1 & H2 & H3 & H4). subst i j.
      destruct (tiles_le T eqb a b _ _ _ _ _ H4) as [L1 L2].
      destruct (apply_code c H3 ltac:(lia) ltac:(lia)) as (A1 & A2 & A3).
      destruct (IH _ _ _ _ H4 La Lb) as (B1 & B2 & B3).
      destruct H3 as (O1 & O2 & _).
      cbn [flat_map]. rewrite apply_body_app, A1, B1, count_a_app, count_b_app, A2, A3, B2, B3.
      repeat split; try lia.
      replace (J - oJ1 c) with ((oJ2 c - oJ1 c) + (J - oJ2 c)) by lia.
      rewrite (sub_app b (oJ1 c)). replace (oJ1 c + (oJ2 c - oJ1 c)) with (oJ2 c) by lia. reflexivity.
  Qed.

  Lemma range_start_format s e : s <= e -> range_start (format_range s e) = s.
  Proof.
    intro H. unfold range_start, format_range. cbn [fst snd].
    destruct (Nat.eqb_spec (e - s) 0); lia.
  Qed.

  Lemma gtiles_le : forall gs i j I J, gtiles eqb a b i j gs I J -> i <= I /\ j <= J.
  Proof.
    induction gs as [|g r IH]; intros i j I J H; cbn [gtiles] in H.
    - destruct H as (H1 & H2 & _). lia.
    - destruct H as (_ & (G1 & G2 & _) & H3 & H4).
      apply tiles_le in H3. apply IH in H4. lia.
  Qed.

  Lemma gap_sub i j i' j' : gap eqb a b i j i' j' -> sub a i (i' - i) = sub b j (j' - j).
  Proof.
    intros (G1 & G2 & G3 & G4). rewrite <- G3. apply (run_sub T eqb a b eqb_spec). exact G4.
  Qed.

  Lemma hA_group g : hA (hunk_of_group a b g) = format_range (gI1 g) (gI2 g).
  Proof. reflexivity. Qed.
  Lemma hB_group g : hB (hunk_of_group a b g) = format_range (gJ1 g) (gJ2 g).
  Proof. reflexivity. Qed.
  Lemma hBody_group g : hBody (hunk_of_group a b g) = flat_map (code_lines a b) g.
  Proof. reflexivity. Qed.

  Lemma apply_groups : forall gs i j,
    gtiles eqb a b i j gs (List.length a) (List.length b) ->
    apply_hunks eqb (map (hunk_of_group a b) gs) i (skipn i a) = Some (skipn j b).
  Proof.
    induction gs as [|g r IH]; intros i j H; cbn [gtiles] in H.
    - cbn [map apply_hunks]. rewrite <- (sub_all a i), <- (sub_all b j). f_equal. apply gap_sub. exact H.
    - destruct H as (Hne & Hg & Ht & Hr).
      destruct (gtiles_le _ _ _ _ _ Hr) as [L1 L2].
      destruct (tiles_le T eqb a b _ _ _ _ _ Ht) as [L3 L4].
      destruct (apply_group g _ _ _ _ Ht L1 L2) as (A1 & A2 & A3).
      assert (Hg' := Hg). destruct Hg' as (G1 & G2 & G3 & G4).
      cbn [map apply_hunks]. cbv zeta. rewrite !hA_group, !hBody_group.
      rewrite !(range_start_format _ _ L3).
      destruct (Nat.ltb_spec (gI1 g) i) as [|_]; [lia|].
      rewrite skipn_length.
      destruct (Nat.ltb_spec (List.length a - i) (gI1 g - i)) as [|_]; [lia|].
      rewrite skipn_add. replace (i + (gI1 g - i)) with (gI1 g) by lia.
      rewrite A1, A2. replace (gI1 g + (gI2 g - gI1 g)) with (gI2 g) by lia.
      rewrite (IH _ _ Hr). f_equal.
      change (firstn (gI1 g - i) (skipn i a)) with (sub a i (gI1 g - i)).
      rewrite (gap_sub _ _ _ _ Hg).
      rewrite (skipn_sub b j (gJ1 g - j)). replace (j + (gJ1 g - j)) with (gJ1 g) by lia.
      rewrite (skipn_sub b (gJ1 g) (gJ2 g - gJ1 g)). replace (gJ1 g + (gJ2 g - gJ1 g)) with (gJ2 g) by lia.
      reflexivity.
  Qed.

  (* header counts and starts *)
  Lemma headers_groups : forall gs i j,
    gtiles eqb a b i j gs (List.length a) (List.length b) ->
    headers_from i j (map (hunk_of_group a b) gs) = true.
  Proof.
    induction gs as [|g r IH]; intros i j H; cbn [gtiles] in H; [reflexivity|].
    destruct H as (Hne & Hg & Ht & Hr).
    destruct (gtiles_le _ _ _ _ _ Hr) as [L1 L2].
    destruct (tiles_le T eqb a b _ _ _ _ _ Ht) as [L3 L4].
    destruct (apply_group g _ _ _ _ Ht L1 L2) as (_ & A2 & A3).
    destruct Hg as (G1 & G2 & G3 & _).
    cbn [map headers_from]. cbv zeta. rewrite !hA_group, !hB_group, !hBody_group.
    rewrite !(range_start_format _ _ L3), !(range_start_format _ _ L4), A2, A3.
    unfold format_range. cbn [fst snd].
    replace (gI1 g + (gI2 g - gI1 g)) with (gI2 g) by lia.
    replace (gJ1 g + (gJ2 g - gJ1 g)) with (gJ2 g) by lia.
    rewrite (IH _ _ Hr), !Nat.eqb_refl.
    assert (E1 : ((gI2 g - gI1 g =? 0) || (1 <=? (if gI2 g - gI1 g =? 0 then gI1 g else gI1 g + 1))) = true).
    { destruct (Nat.eqb_spec (gI2 g - gI1 g) 0); [reflexivity|]. apply Nat.leb_le. lia. }
    assert (E2 : ((gJ2 g - gJ1 g =? 0) || (1 <=? (if gJ2 g - gJ1 g =? 0 then gJ1 g else gJ1 g + 1))) = true).
    { destruct (Nat.eqb_spec (gJ2 g - gJ1 g) 0); [reflexivity|]. apply Nat.leb_le. lia. }
    rewrite E1, E2.
    destruct (Nat.leb_spec i (gI1 g)); [|lia]. destruct (Nat.leb_spec j (gJ1 g)); [|lia].
    rewrite (proj2 (Nat.eqb_eq _ _) G3). reflexivity.
  Qed.
End Patch.

(* ================================================================== equal inputs *)
Section Same.
  Variable T : Type.
  Variable eqb : T -> T -> bool.
  Hypothesis eqb_spec : forall x y, eqb x y = true <-> x = y.
  Variable a : list T.
  Let n := List.length a.

  Lemma run_same : run eqb a a 0 0 n.
  Proof.
    intros t Ht. unfold eqat. cbn [Nat.add].
    destruct (nth_error a t) as [x|] eqn:E.
    - apply eqb_spec. reflexivity.
    - apply nth_error_None in E. unfold n in Ht. lia.
  Qed.

  Lemma flm_same : find_longest_match eqb a a 0 n 0 n = (0, 0, n).
  Proof.
    assert (Hb : 0 <= n <= List.length a) by (unfold n; lia).
    destruct (flm_run T eqb a a 0 n 0 n Hb Hb) as (_ & F2 & _ & F4 & _).
    assert (F5 := flm_maximal T eqb a a 0 n 0 n Hb Hb 0 0 n (le_n _) (le_n _) (le_n _) (le_n _) run_same).
    destruct (find_longest_match eqb a a 0 n 0 n) as [[i j] k].
    unfold mA, mB, mSize in *. cbn [fst snd] in *.
    assert (i = 0) by lia. assert (j = 0) by lia. assert (k = n) by lia. subst. reflexivity.
  Qed.

  Lemma match_blocks_same fuel :
    match_blocks eqb (S fuel) a a 0 n 0 n = Some (if n =? 0 then [] else [(0, 0, n)]).
  Proof.
    cbn [match_blocks]. cbv zeta. rewrite flm_same. unfold mA, mB, mSize. cbn [fst snd].
    destruct (n =? 0); [reflexivity|].
    change (0 <? 0) with false. cbn [andb Nat.add]. rewrite Nat.ltb_irrefl. reflexivity.
  Qed.

  Lemma get_opcodes_same :
    get_opcodes eqb a a = Some (if n =? 0 then [] else [mkOp TE 0 n 0 n]).
  Proof.
    unfold get_opcodes, matching_blocks. fold n.
    replace (mb_fuel T a a) with (S (n + n)) by (unfold mb_fuel, n; lia).
    rewrite match_blocks_same.
    destruct (Nat.eqb_spec n 0) as [Hz|Hnz].
    - rewrite Hz. reflexivity.
    - cbn [collapse]. unfold mA, mB, mSize. cbn [fst snd Nat.add].
      change (0 =? 0) with true. cbn [andb].
      destruct (Nat.ltb_spec 0 n) as [_|]; [|lia].
      cbn [app opcodes_from]. unfold mA, mB, mSize. cbn [fst snd Nat.add].
      change (0 <? 0) with false. cbn [andb].
      destruct (Nat.ltb_spec 0 n) as [_|]; [|lia].
      rewrite Nat.ltb_irrefl. reflexivity.
  Qed.

  Lemma group_codes_same : group_codes 3 [mkOp TE 0 n 0 n] = [].
  Proof.
    unfold group_codes. cbn [fix_first fix_last group_loop oTag oI1 oI2 oJ1 oJ2 is_e andb].
    cbv zeta.
    assert (E : (3 + 3 <? Nat.min n (Nat.max 0 (n - 3) + 3) - Nat.max 0 (n - 3)) = false)
      by (apply Nat.ltb_ge; lia).
    rewrite E. reflexivity.
  Qed.

  Lemma hunks_same : hunks eqb a a = Some [].
  Proof.
    unfold hunks, grouped_opcodes. rewrite get_opcodes_same.
    destruct (n =? 0); [reflexivity|]. rewrite group_codes_same. reflexivity.
  Qed.
End Same.

(* ================================================================== Diff on line lists *)
Section Lines.
  Variable T : Type.
  Variable eqb : T -> T -> bool.
  Hypothesis eqb_spec : forall x y, eqb x y = true <-> x = y.

  (* the model never runs out of fuel, and its groups tile both texts *)
  Lemma hunks_groups a b :
    exists gs, grouped_opcodes eqb 3 a b = Some gs
               /\ hunks eqb a b = Some (map (hunk_of_group a b) gs)
               /\ gtiles eqb a b 0 0 gs (List.length a) (List.length b).
  Proof.
    unfold hunks, grouped_opcodes.
    destruct (opcodes_tile_run T eqb a b) as (cs & -> & Ht).
    eexists. split; [reflexivity|]. split; [reflexivity|].
    apply group_codes_gtiles. exact Ht.
  Qed.

  Theorem hunks_total a b : hunks eqb a b <> None.
  Proof. destruct (hunks_groups a b) as (gs & _ & -> & _). discriminate. Qed.

  Theorem patch_lines a b hs : hunks eqb a b = Some hs -> apply_unified eqb hs a = Some b.
  Proof.
    destruct (hunks_groups a b) as (gs & _ & -> & Hg). intro H. injection H as <-.
    exact (apply_groups T eqb eqb_spec a b gs 0 0 Hg).
  Qed.

  Theorem headers_lines a b hs : hunks eqb a b = Some hs -> headers_ok hs = true.
  Proof.
    destruct (hunks_groups a b) as (gs & _ & -> & Hg). intro H. injection H as <-.
    exact (headers_groups T eqb eqb_spec a b gs 0 0 Hg).
  Qed.

  Theorem hunks_nil_iff a b hs : hunks eqb a b = Some hs -> (hs = [] <-> a = b).
  Proof.
    intro H. split.
    - intros ->. assert (P := patch_lines a b [] H). cbn in P. congruence.
    - intros <-. rewrite (hunks_same T eqb eqb_spec a) in H. congruence.
  Qed.
End Lines.

(* ================================================================== text: splitLines, Diff *)
Section Text.
  Local Open Scope string_scope.

  Fixpoint join (ls : list string) : string :=
    match ls with [] => "" | l :: r => l ++ join r end.

  Lemma split_after_nl_nonempty s : split_after_nl s <> [].
  Proof.
    destruct s as [|c s]; cbn [split_after_nl]; [discriminate|].
    destruct (split_after_nl s); [discriminate|]. destruct (Ascii.eqb c nl); discriminate.
  Qed.

  Lemma join_split_after_nl : forall s, join (split_after_nl s) = s.
  Proof.
    induction s as [|c s IH]; [reflexivity|].
    cbn [split_after_nl]. destruct (split_after_nl s) as [|l ls] eqn:E.
    - cbn in IH. subst s. reflexivity.
    - destruct (Ascii.eqb c nl); cbn [join append] in *; rewrite IH; reflexivity.
  Qed.

  Lemma append_assoc' (x y z : string) : (x ++ y) ++ z = x ++ (y ++ z).
  Proof. induction x as [|c x IH]; cbn [append]; [reflexivity | rewrite IH; reflexivity]. Qed.

  Lemma append_nil_r' (x : string) : x ++ "" = x.
  Proof. induction x as [|c x IH]; cbn [append]; [reflexivity | rewrite IH; reflexivity]. Qed.

  Lemma join_append_to_last : forall ls x, ls <> [] -> join (append_to_last ls x) = join ls ++ x.
  Proof.
    induction ls as [|l r IH]; intros x Hne; [congruence|].
    destruct r as [|l' r'].
    - cbn [append_to_last join]. rewrite !append_nil_r'. reflexivity.
    - change (append_to_last (l :: l' :: r') x) with (l :: append_to_last (l' :: r') x).
      cbn [join]. rewrite (IH x ltac:(discriminate)). cbn [join]. rewrite !append_assoc'. reflexivity.
  Qed.

  Lemma join_split_lines s : join (split_lines s) = s ++ nls.
  Proof.
    unfold split_lines. rewrite join_append_to_last by apply split_after_nl_nonempty.
    rewrite join_split_after_nl. reflexivity.
  Qed.

  Lemma append_nls_inj : forall s1 s2, s1 ++ nls = s2 ++ nls -> s1 = s2.
  Proof.
    induction s1 as [|c s1 IH]; intros [|d s2] H; cbn [append] in H.
    - reflexivity.
    - unfold nls in H. injection H as _ H. destruct s2; discriminate.
    - unfold nls in H. injection H as _ H. destruct s1; discriminate.
    - injection H as -> H. f_equal. apply IH. exact H.
  Qed.

  (* splitLines loses nothing: equal line lists come from equal texts *)
  Theorem split_lines_inj s1 s2 : split_lines s1 = split_lines s2 -> s1 = s2.
  Proof.
    intro H. apply append_nls_inj. rewrite <- !join_split_lines, H. reflexivity.
  Qed.

  Lemma render_unified_nil_iff hs : render_unified hs = "" <-> hs = [].
  Proof.
    destruct hs as [|h r]; split; intro H; try reflexivity; discriminate.
  Qed.

  Lemma string_eqb_spec : forall x y : string, String.eqb x y = true <-> x = y.
  Proof. exact String.eqb_eq. Qed.

  (* Diff, as modelled, always returns, and what it returns *)
  Theorem diff_shape have want :
    exists hs, hunks String.eqb (lines_of have) (lines_of want) = Some hs
               /\ diff have want = Some (match hs with [] => "" | _ => nls ++ render_unified hs end).
  Proof.
    unfold diff, diff_lines, lines_of.
    destruct (hunks String.eqb (split_lines (trim_space have)) (split_lines (trim_space want))) as [hs|] eqn:E.
    - exists hs. split; [reflexivity|]. destruct hs as [|h r]; [reflexivity|].
      unfold render_unified, file_header. cbn [append]. reflexivity.
    - exfalso. exact (hunks_total string String.eqb _ _ E).
  Qed.

  Theorem diff_total have want : diff have want <> None.
  Proof. destruct (diff_shape have want) as (hs & _ & ->). discriminate. Qed.

  Theorem diff_empty_iff have want : diff have want = Some "" <-> trim_space have = trim_space want.
  Proof.
    destruct (diff_shape have want) as (hs & Hh & ->).
    assert (Hn := hunks_nil_iff string String.eqb string_eqb_spec _ _ hs Hh). unfold lines_of in Hn.
    split.
    - intro H. destruct hs as [|h r].
      + apply split_lines_inj. apply Hn. reflexivity.
      + unfold nls in H. cbn [append] in H. discriminate.
    - intro H. assert (hs = []) as -> by (apply Hn; rewrite H; reflexivity). reflexivity.
  Qed.
End Text.

(* ================================================================== statements in terms of slices *)
Section SpecForms.
  Variable T : Type.
  Variable eqb : T -> T -> bool.
  Hypothesis eqb_spec : forall x y, eqb x y = true <-> x = y.
  Variables a b : list T.

  (* matching blocks: non-empty equal slices, increasing in both texts, never overlapping *)
  Fixpoint mono_blocks (alo blo : nat) (l : list mtch) (ahi bhi : nat) : Prop :=
    match l with
    | [] => alo <= ahi /\ blo <= bhi
    | m :: l' =>
        alo <= mA m /\ blo <= mB m /\ 0 < mSize m
        /\ mA m + mSize m <= List.length a /\ mB m + mSize m <= List.length b
        /\ sub a (mA m) (mSize m) = sub b (mB m) (mSize m)
        /\ mono_blocks (mA m + mSize m) (mB m + mSize m) l' ahi bhi
    end.

  Lemma chain_mono_blocks : forall l alo blo ahi bhi,
    chain eqb a b alo blo l ahi bhi -> mono_blocks alo blo l ahi bhi.
  Proof.
    induction l as [|m l IH]; intros alo blo ahi bhi H; cbn [chain mono_blocks] in *; [exact H|].
    destruct H as (H1 & H2 & H3 & H4 & H5).
    destruct (run_bounds T eqb a b _ _ _ H3 H4) as [B1 B2].
    refine (conj H1 (conj H2 (conj H3 (conj B1 (conj B2 (conj _ (IH _ _ _ _ H5))))))).
    apply (run_sub T eqb a b eqb_spec). exact H4.
  Qed.

  Theorem matching_blocks_sound :
    exists l, matching_blocks eqb a b = Some (l ++ [(List.length a, List.length b, 0)])
              /\ mono_blocks 0 0 l (List.length a) (List.length b).
  Proof.
    destruct (matching_blocks_spec T eqb a b) as (l & E & H).
    exists l. split; [exact E | apply chain_mono_blocks; exact H].
  Qed.

  (* opcodes *)
  Definition op_spec (c : opcode) : Prop :=
    oI1 c <= oI2 c <= List.length a /\ oJ1 c <= oJ2 c <= List.length b /\
    match oTag c with
    | TE => oI2 c - oI1 c = oJ2 c - oJ1 c /\ sub a (oI1 c) (oI2 c - oI1 c) = sub b (oJ1 c) (oJ2 c - oJ1 c)
    | TD => oI1 c < oI2 c /\ oJ1 c = oJ2 c
    | TI => oI1 c = oI2 c /\ oJ1 c < oJ2 c
    | TR => oI1 c < oI2 c /\ oJ1 c < oJ2 c
    end.

  Fixpoint tiles_spec (i j : nat) (cs : list opcode) (I J : nat) : Prop :=
    match cs with
    | [] => i = I /\ j = J
    | c :: r => oI1 c = i /\ oJ1 c = j /\ op_spec c /\ tiles_spec (oI2 c) (oJ2 c) r I J
    end.

  Lemma tiles_tiles_spec : forall cs i j I J,
    I <= List.length a -> J <= List.length b ->
    tiles eqb a b i j cs I J -> tiles_spec i j cs I J.
  Proof.
    induction cs as [|c r IH]; intros i j I J LI LJ H; cbn [tiles tiles_spec] in *; [exact H|].
    destruct H as (H1 & H2 & H3 & H4).
    destruct (tiles_le T eqb a b _ _ _ _ _ H4) as [L1 L2].
    refine (conj H1 (conj H2 (conj _ (IH _ _ _ _ LI LJ H4)))).
    destruct H3 as (O1 & O2 & O3). unfold op_spec.
    split; [lia|]. split; [lia|].
    destruct (oTag c); try exact O3.
    destruct O3 as [O3 O4]. split; [exact O3|].
    rewrite <- O3. apply (run_sub T eqb a b eqb_spec). exact O4.
  Qed.

  Theorem opcodes_tile :
    exists cs, get_opcodes eqb a b = Some cs /\ tiles_spec 0 0 cs (List.length a) (List.length b).
  Proof.
    destruct (opcodes_tile_run T eqb a b) as (cs & E & H).
    exists cs. split; [exact E|]. apply tiles_tiles_spec; [lia | lia | exact H].
  Qed.
End SpecForms.

(* ================================================================== no two adjacent 'e' codes *)
Section NoAdjacent.
  Variable T : Type.
  Variable eqb : T -> T -> bool.
  Variables a b : list T.

  (* "adjacent triples never describe adjacent equal blocks" *)
  Fixpoint nonadj (l : list mtch) : Prop :=
    match l with
    | m1 :: ((m2 :: _) as r) =>
        ~ (mA m1 + mSize m1 = mA m2 /\ mB m1 + mSize m1 = mB m2) /\ nonadj r
    | _ => True
    end.

  Definition allpos (l : list mtch) : Prop := Forall (fun m => 0 < mSize m) l.

  Lemma chain_allpos : forall l alo blo ahi bhi, chain eqb a b alo blo l ahi bhi -> allpos l.
  Proof.
    induction l as [|m l IH]; intros alo blo ahi bhi H; [constructor|].
    cbn [chain] in H. destruct H as (_ & _ & H3 & _ & H5). constructor; [exact H3 | exact (IH _ _ _ _ H5)].
  Qed.

  Lemma mtch_eta (m : mtch) : m = (mA m, mB m, mSize m).
  Proof. destruct m as [[i j] k]. reflexivity. Qed.

  Lemma collapse_nonadj : forall l cur, 0 < mSize cur -> allpos l ->
    exists k r, collapse l cur = (mA cur, mB cur, k) :: r /\ mSize cur <= k
                /\ nonadj (collapse l cur) /\ allpos (collapse l cur).
  Proof.
    induction l as [|m2 l IH]; intros cur Hpos Hl.
    - cbn [collapse]. destruct (Nat.ltb_spec 0 (mSize cur)) as [_|]; [|lia].
      exists (mSize cur), []. rewrite <- mtch_eta.
      split; [reflexivity|]. split; [lia|]. split; [exact I|]. constructor; [exact Hpos | constructor].
    - assert (Hp2 : 0 < mSize m2) by (inversion Hl; assumption).
      assert (Hl' : allpos l) by (inversion Hl; assumption).
      cbn [collapse].
      destruct ((mA cur + mSize cur =? mA m2) && (mB cur + mSize cur =? mB m2)) eqn:Eadj.
      + destruct (IH (mA cur, mB cur, mSize cur + mSize m2)) as (k & r & E & Hk & Hn & Ha);
          [unfold mSize; cbn [snd]; unfold mSize in Hpos; lia | exact Hl' |].
        unfold mA, mB, mSize in E, Hk. cbn [fst snd] in E, Hk.
        exists k, r. unfold mA, mB, mSize. split; [exact E|]. split; [lia|]. split; assumption.
      + destruct (Nat.ltb_spec 0 (mSize cur)) as [_|]; [|lia].
        destruct (IH m2 Hp2 Hl') as (k & r & E & Hk & Hn & Ha).
        exists (mSize cur), (collapse l m2). rewrite <- mtch_eta. cbn [app].
        split; [reflexivity|]. split; [lia|]. split.
        * rewrite E in Hn |- *. cbn [nonadj]. split; [|exact Hn].
          intros [H1 H2]. unfold mA, mB, mSize in *. cbn [fst snd] in *.
          apply andb_false_iff in Eadj. destruct Eadj as [Ex|Ex]; apply Nat.eqb_neq in Ex; lia.
        * constructor; assumption.
  Qed.

  Lemma collapse0_nonadj l : allpos l -> nonadj (collapse l (0, 0, 0)).
  Proof.
    intro Hl. destruct l as [|m2 l]; [exact I|].
    assert (Hp2 : 0 < mSize m2) by (inversion Hl; assumption).
    assert (Hl' : allpos l) by (inversion Hl; assumption).
    cbn [collapse]. unfold mA at 1, mB at 1, mSize at 1 2 3. cbn [fst snd].
    destruct ((0 + 0 =? mA m2) && (0 + 0 =? mB m2)).
    - destruct (collapse_nonadj l (mA (0, 0, 0), mB (0, 0, 0), 0 + mSize m2)) as (k & r & _ & _ & Hn & _);
        [unfold mSize; cbn [snd]; unfold mSize in Hp2; lia | exact Hl' | exact Hn].
    - change (0 <? 0) with false. cbn [app].
      destruct (collapse_nonadj l m2 Hp2 Hl') as (k & r & _ & _ & Hn & _). exact Hn.
  Qed.

  Theorem matching_blocks_nonadj :
    exists l, matching_blocks eqb a b = Some (l ++ [(List.length a, List.length b, 0)])
              /\ chain eqb a b 0 0 l (List.length a) (List.length b) /\ nonadj l.
  Proof.
    unfold matching_blocks.
    destruct (match_blocks eqb (mb_fuel T a b) a b 0 (List.length a) 0 (List.length b)) as [matched|] eqn:E.
    - assert (Hc : chain eqb a b 0 0 matched (List.length a) (List.length b))
        by (apply (match_blocks_chain T eqb a b (mb_fuel T a b) 0 (List.length a) 0 (List.length b) matched); [lia | lia | exact E]).
      exists (collapse matched (0, 0, 0)). split; [reflexivity|]. split.
      + apply collapse_chain0. exact Hc.
      + apply collapse0_nonadj. exact (chain_allpos _ _ _ _ _ Hc).
    - exfalso. revert E. apply match_blocks_fuel; unfold mb_fuel; lia.
  Qed.

  (* tags of the opcodes: never two 'e' in a row *)
  Definition tags (cs : list opcode) : list tag := map oTag cs.

  Fixpoint no_ee_r (ts : list tag) : Prop :=
    match ts with
    | t1 :: ((t2 :: _) as r) => ~ (t1 = TE /\ t2 = TE) /\ no_ee_r r
    | _ => True
    end.

  Definition no_ee (ts : list tag) : Prop := forall l1 l2, ts <> l1 ++ TE :: TE :: l2.

  Lemma no_ee_r_no_ee ts : no_ee_r ts -> no_ee ts.
  Proof.
    intros H l1. revert ts H. induction l1 as [|x l1 IH]; intros ts H l2 E; subst ts.
    - cbn [app no_ee_r] in H. destruct H as [H _]. apply H. split; reflexivity.
    - assert (H' : no_ee_r (l1 ++ TE :: TE :: l2)).
      { destruct l1 as [|y l1]; cbn [app no_ee_r] in *; apply H. }
      exact (IH _ H' l2 eq_refl).
  Qed.

  Lemma no_ee_prefix x y : no_ee (x ++ y) -> no_ee x.
  Proof.
    intros H l1 l2 E. apply (H l1 (l2 ++ y)). rewrite E, <- app_assoc. reflexivity.
  Qed.

  Lemma no_ee_suffix x y : no_ee (x ++ y) -> no_ee y.
  Proof.
    intros H l1 l2 E. apply (H (x ++ l1) l2). rewrite E, <- app_assoc. reflexivity.
  Qed.

  Lemma no_ee_rev ts : no_ee ts -> no_ee (rev ts).
  Proof.
    intros H l1 l2 E. apply (H (rev l2) (rev l1)).
    rewrite <- (rev_involutive ts), E, rev_app_distr. cbn [rev]. rewrite <- !app_assoc. reflexivity.
  Qed.

  Lemma opcodes_from_no_ee : forall l i j la lb,
    chain eqb a b i j l la lb -> nonadj l ->
    no_ee_r (tags (opcodes_from i j (l ++ [(la, lb, 0)])))
    /\ (forall t r, tags (opcodes_from i j (l ++ [(la, lb, 0)])) = t :: r -> t = TE ->
        exists m l', l = m :: l' /\ mA m = i /\ mB m = j).
  Proof.
    induction l as [|m l IH]; intros i j la lb Hc Hn.
    - cbn [app opcodes_from]. unfold mA, mB, mSize. cbn [fst snd].
      change (0 <? 0) with false. cbv iota. rewrite !app_nil_r.
      destruct (i <? la); destruct (j <? lb); cbn [andb tags map no_ee_r];
        (split; [exact I | intros t r E Ht; try discriminate E; injection E as <- _; discriminate Ht]).
    - cbn [chain] in Hc. destruct Hc as (H1 & H2 & H3 & H4 & H5).
      assert (Hn' : nonadj l) by (destruct l; [exact I | cbn [nonadj] in Hn; apply Hn]).
      destruct (IH (mA m + mSize m) (mB m + mSize m) la lb H5 Hn') as [IH1 IH2].
      cbn [app opcodes_from]. cbv zeta.
      destruct (Nat.ltb_spec 0 (mSize m)) as [_|]; [|lia].
      set (rest := opcodes_from (mA m + mSize m) (mB m + mSize m) (l ++ [(la, lb, 0)])) in *.
      assert (He : no_ee_r (TE :: tags rest)).
      { destruct (tags rest) as [|t r] eqn:Et; [exact I|]. cbn [no_ee_r]. split; [|exact IH1].
        intros [_ ->]. destruct (IH2 TE r eq_refl eq_refl) as (m' & l' & -> & A1 & A2).
        cbn [nonadj] in Hn. destruct Hn as [Hn _]. apply Hn. split; congruence. }
      unfold tags. rewrite !map_app. cbn [map oTag]. fold (tags rest).
      destruct (Nat.ltb_spec i (mA m)) as [Hi|Hi]; destruct (Nat.ltb_spec j (mB m)) as [Hj|Hj];
        cbn [andb map oTag app no_ee_r].
      + split; [split; [intros [E _]; discriminate E | exact He]|].
        intros t r E Ht. injection E as <- _. discriminate Ht.
      + split; [split; [intros [E _]; discriminate E | exact He]|].
        intros t r E Ht. injection E as <- _. discriminate Ht.
      + split; [split; [intros [E _]; discriminate E | exact He]|].
        intros t r E Ht. injection E as <- _. discriminate Ht.
      + split; [exact He|]. intros t r _ _. exists m, l. split; [reflexivity | lia].
  Qed.

  Theorem opcodes_no_ee :
    exists cs, get_opcodes eqb a b = Some cs
               /\ tiles eqb a b 0 0 cs (List.length a) (List.length b) /\ no_ee (tags cs).
  Proof.
    unfold get_opcodes. destruct matching_blocks_nonadj as (l & -> & Hc & Hn).
    eexists. split; [reflexivity|]. split.
    - apply opcodes_from_tiles. exact Hc.
    - apply no_ee_r_no_ee. exact (proj1 (opcodes_from_no_ee l 0 0 _ _ Hc Hn)).
  Qed.
End NoAdjacent.

Arguments tags : simpl never.

(* ================================================================== context of at most n lines *)
Section Context.
  Variable T : Type.
  Variable eqb : T -> T -> bool.
  Variables a b : list T.
  Variable n : nat.

  Definition first_ok (cs : list opcode) : Prop :=
    forall c, hd_error cs = Some c -> oTag c = TE -> oI2 c - oI1 c <= n.
  Definition last_ok (cs : list opcode) : Prop := first_ok (rev cs).
  Definition good (g : list opcode) : Prop := no_ee (tags g) /\ first_ok g /\ last_ok g.

  Lemma tags_app x y : tags (x ++ y) = tags x ++ tags y.
  Proof. unfold tags. apply map_app. Qed.
  Lemma tags_rev x : tags (rev x) = rev (tags x).
  Proof. unfold tags. apply map_rev. Qed.

  Lemma hd_error_app_ne (X : Type) (l r : list X) : l <> [] -> hd_error (l ++ r) = hd_error l.
  Proof. destruct l; [congruence | reflexivity]. Qed.

  (* ---------- fix_first / fix_last ---------- *)
  Lemma tags_fix_first cs : tags (fix_first n cs) = tags cs.
  Proof. destruct cs as [|[[] i1 i2 j1 j2] r]; reflexivity. Qed.

  Definition trim_last (c : opcode) : opcode :=
    match c with
    | mkOp TE i1 i2 j1 j2 => mkOp TE i1 (Nat.min i2 (i1 + n)) j1 (Nat.min j2 (j1 + n))
    | _ => c
    end.

  Lemma fix_last_snoc : forall l c, fix_last n (l ++ [c]) = l ++ [trim_last c].
  Proof.
    induction l as [|x l IH]; intro c.
    - destruct c as [[] i1 i2 j1 j2]; reflexivity.
    - cbn [app]. destruct (l ++ [c]) as [|y r] eqn:E.
      + destruct l; discriminate E.
      + change (fix_last n (x :: y :: r)) with (x :: fix_last n (y :: r)).
        rewrite <- E, IH. reflexivity.
  Qed.

  Lemma oTag_trim_last c : oTag (trim_last c) = oTag c.
  Proof. destruct c as [[] i1 i2 j1 j2]; reflexivity. Qed.

  Lemma tags_fix_last cs : tags (fix_last n cs) = tags cs.
  Proof.
    destruct cs as [|x r] using rev_ind; [reflexivity|].
    rewrite fix_last_snoc, !tags_app. unfold tags at 2 4. cbn [map]. rewrite oTag_trim_last. reflexivity.
  Qed.

  Lemma first_ok_fix_first cs : first_ok (fix_first n cs).
  Proof.
    intros c H Ht. destruct cs as [|[tg i1 i2 j1 j2] r]; [discriminate H|].
    destruct tg; cbn [fix_first hd_error] in H; injection H as <-; try discriminate Ht.
    cbn [oI1 oI2]. lia.
  Qed.

  Lemma trim_last_len c : oTag c = TE -> oI2 (trim_last c) - oI1 (trim_last c) <= n.
  Proof. destruct c as [[] i1 i2 j1 j2]; intro H; try discriminate H. cbn [trim_last oI1 oI2]. lia. Qed.

  Lemma first_ok_fix_last cs : first_ok cs -> first_ok (fix_last n cs).
  Proof.
    intro H. destruct cs as [|x l] using rev_ind; [exact H|]. clear IHl.
    rewrite fix_last_snoc. intros c Hc Ht. destruct l as [|y l].
    - cbn [app hd_error] in Hc. injection Hc as <-. rewrite oTag_trim_last in Ht. apply trim_last_len. exact Ht.
    - apply (H c); [exact Hc | exact Ht].
  Qed.

  Lemma last_ok_fix_last cs : last_ok (fix_last n cs).
  Proof.
    destruct cs as [|x l] using rev_ind; [intros c H; discriminate H|]. clear IHl.
    rewrite fix_last_snoc. unfold last_ok. rewrite rev_unit. intros c Hc Ht.
    cbn [hd_error] in Hc. injection Hc as <-. rewrite oTag_trim_last in Ht. apply trim_last_len. exact Ht.
  Qed.

  (* ---------- the loop ---------- *)
  Lemma group_loop_good : forall codes group,
    good (group ++ codes) -> Forall good (group_loop n codes group).
  Proof.
    induction codes as [|c rest IH]; intros group H.
    - rewrite app_nil_r in H.
      destruct (group_loop_nil n group) as [[-> _] | [-> _]]; [constructor | constructor; [exact H | constructor]].
    - cbn [group_loop]. cbv zeta.
      destruct (is_e (oTag c) && (n + n <? oI2 c - oI1 c)) eqn:E.
      + apply andb_prop in E. destruct E as [Ee En]. apply Nat.ltb_lt in En.
        destruct c as [tg i1 i2 j1 j2]. cbn [oTag oI1 oI2 oJ1 oJ2] in *.
        destruct tg; try discriminate Ee. clear Ee.
        destruct H as (N & F & L).
        rewrite tags_app in N. unfold tags at 2 in N. cbn [map oTag] in N. fold (tags rest) in N.
        constructor.
        * (* the group that is closed *)
          split; [|split].
          -- rewrite tags_app. unfold tags at 2. cbn [map oTag].
             apply (no_ee_prefix _ (tags rest)). rewrite <- app_assoc. exact N.
          -- intros c Hc Ht. destruct group as [|x g].
             ++ cbn [app hd_error] in Hc. injection Hc as <-. cbn [oI1 oI2]. lia.
             ++ apply (F c); [exact Hc | exact Ht].
          -- unfold last_ok. rewrite rev_unit. intros c Hc Ht.
             cbn [hd_error] in Hc. injection Hc as <-. cbn [oI1 oI2]. lia.
        * (* the group that is opened *)
          apply IH. split; [|split].
          -- rewrite tags_app. unfold tags at 1. cbn [map oTag app].
             exact (no_ee_suffix (tags group) _ N).
          -- intros c Hc Ht. cbn [app hd_error] in Hc. injection Hc as <-. cbn [oI1 oI2]. lia.
          -- unfold last_ok in *. cbn [app rev]. destruct rest as [|x rest'].
             ++ intros c Hc Ht. cbn [rev app hd_error] in Hc. injection Hc as <-. cbn [oI1 oI2]. lia.
             ++ intros c Hc Ht. apply (L c); [|exact Ht].
                rewrite rev_app_distr. cbn [rev] in *.
                assert (Hne : rev rest' ++ [x] <> []) by (intro Hx; apply app_eq_nil in Hx; destruct Hx; discriminate).
                rewrite <- app_assoc. rewrite hd_error_app_ne by exact Hne.
                rewrite hd_error_app_ne in Hc by exact Hne. exact Hc.
      + apply IH. rewrite <- app_assoc. exact H.
  Qed.

  Lemma group_codes_good cs : no_ee (tags cs) -> Forall good (group_codes n cs).
  Proof.
    intro H. destruct cs as [|c r].
    - rewrite group_codes_nil. constructor.
    - unfold group_codes. apply (group_loop_good _ []). cbn [app]. split; [|split].
      + rewrite tags_fix_last, tags_fix_first. exact H.
      + apply first_ok_fix_last. apply first_ok_fix_first.
      + apply last_ok_fix_last.
  Qed.

  (* ---------- from the shape of a group to its body ---------- *)
  Definition all_ctx (l : list (kind * T)) : Prop := Forall (fun kl => fst kl = Ctx) l.
  Definition no_ctx (l : list (kind * T)) : Prop := l <> [] /\ Forall (fun kl => fst kl <> Ctx) l.

  Lemma leading_all_ctx l r : all_ctx l -> leading_ctx (l ++ r) = List.length l + leading_ctx r.
  Proof.
    induction l as [|[k x] l IH]; intro H; [reflexivity|].
    inversion H as [|? ? Hk Hl]; subst. cbn [fst] in Hk. subst k.
    cbn [app leading_ctx List.length]. rewrite (IH Hl). reflexivity.
  Qed.

  Lemma leading_no_ctx l r : no_ctx l -> leading_ctx (l ++ r) = 0.
  Proof.
    intros [Hne H]. destruct l as [|[k x] l]; [congruence|].
    inversion H as [|? ? Hk _]; subst. cbn [fst] in Hk. destruct k; [congruence | reflexivity | reflexivity].
  Qed.

  Lemma no_ctx_rev l : no_ctx l -> no_ctx (rev l).
  Proof.
    intros [Hne H]. split.
    - intro E. apply Hne. rewrite <- (rev_involutive l), E. reflexivity.
    - apply Forall_rev. exact H.
  Qed.

  Lemma leading_bound (f : opcode -> list (kind * T)) cs :
    (forall c, In c cs -> oTag c = TE -> all_ctx (f c) /\ List.length (f c) <= oI2 c - oI1 c) ->
    (forall c, In c cs -> oTag c <> TE -> no_ctx (f c)) ->
    no_ee (tags cs) -> first_ok cs -> leading_ctx (flat_map f cs) <= n.
  Proof.
    intros He Hn N F. destruct cs as [|c1 r]; [cbn; lia|].
    cbn [flat_map]. destruct (oTag c1) eqn:Et.
    1-3: rewrite leading_no_ctx; [lia | apply Hn; [left; reflexivity | congruence]].
    destruct (He c1 (or_introl eq_refl) Et) as [A L].
    rewrite (leading_all_ctx _ _ A).
    assert (F1 := F c1 eq_refl Et).
    assert (Z : leading_ctx (flat_map f r) = 0).
    { destruct r as [|c2 r']; [reflexivity|]. cbn [flat_map]. apply leading_no_ctx.
      apply Hn; [right; left; reflexivity|]. intro Et2.
      apply (N [] (tags r')). unfold tags. cbn [map app]. rewrite Et, Et2. reflexivity. }
    lia.
  Qed.

  Lemma rev_flat_map (X Y : Type) (f : X -> list Y) : forall l,
    rev (flat_map f l) = flat_map (fun x => rev (f x)) (rev l).
  Proof.
    induction l as [|x l IH]; [reflexivity|].
    cbn [flat_map rev]. rewrite rev_app_distr, IH, flat_map_app. cbn [flat_map]. rewrite app_nil_r. reflexivity.
  Qed.

  (* lines of one opcode *)
  Lemma code_lines_e c : oTag c = TE ->
    all_ctx (code_lines a b c) /\ List.length (code_lines a b c) <= oI2 c - oI1 c.
  Proof.
    intro Et. unfold code_lines. rewrite Et. split.
    - apply Forall_forall. intros kl H. apply in_map_iff in H. destruct H as (x & <- & _). reflexivity.
    - rewrite map_length. unfold sub. apply firstn_le_length.
  Qed.

  Lemma map_no_ctx (k : kind) (l : list T) : k <> Ctx -> l <> [] -> no_ctx (map (pair k) l).
  Proof.
    intros Hk Hl. split.
    - destruct l; [congruence | discriminate].
    - apply Forall_forall. intros kl H. apply in_map_iff in H. destruct H as (x & <- & _). exact Hk.
  Qed.

  Lemma no_ctx_app l r : no_ctx l -> Forall (fun kl : kind * T => fst kl <> Ctx) r -> no_ctx (l ++ r).
  Proof.
    intros [Hne H] Hr. split.
    - destruct l; [congruence | discriminate].
    - apply Forall_app. split; assumption.
  Qed.

  Lemma sub_nonempty (l : list T) i k : 0 < k -> i + k <= List.length l -> sub l i k <> [].
  Proof.
    intros Hk Hl E. assert (H := sub_length l i k Hl). rewrite E in H. cbn in H. lia.
  Qed.

  Lemma code_lines_ne c : op_ok eqb a b c -> oI2 c <= List.length a -> oJ2 c <= List.length b ->
    oTag c <> TE -> no_ctx (code_lines a b c).
  Proof.
    intros (O1 & O2 & O3) La Lb Et. unfold code_lines. destruct (oTag c); try congruence.
    - apply no_ctx_app.
      + apply map_no_ctx; [discriminate | apply sub_nonempty; lia].
      + apply Forall_forall. intros kl H. apply in_map_iff in H. destruct H as (x & <- & _). discriminate.
    - apply map_no_ctx; [discriminate | apply sub_nonempty; lia].
    - apply map_no_ctx; [discriminate | apply sub_nonempty; lia].
  Qed.

  Lemma tiles_In : forall g i j I J c, tiles eqb a b i j g I J -> In c g ->
    op_ok eqb a b c /\ oI2 c <= I /\ oJ2 c <= J.
  Proof.
    induction g as [|x g IH]; intros i j I J c H Hin; [destruct Hin|].
    cbn [tiles] in H. destruct H as (H1 & H2 & H3 & H4).
    destruct Hin as [<-|Hin].
    - apply tiles_le in H4. split; [exact H3 | lia].
    - exact (IH _ _ _ _ c H4 Hin).
  Qed.

  Lemma group_context g i j I J :
    tiles eqb a b i j g I J -> I <= List.length a -> J <= List.length b -> good g ->
    leading_ctx (flat_map (code_lines a b) g) <= n /\ trailing_ctx (flat_map (code_lines a b) g) <= n.
  Proof.
    intros Ht La Lb (N & F & L). split.
    - apply leading_bound; try assumption.
      + intros c _ Et. apply code_lines_e. exact Et.
      + intros c Hin Et. destruct (tiles_In _ _ _ _ _ c Ht Hin) as (O & B1 & B2).
        apply code_lines_ne; try assumption; lia.
    - unfold trailing_ctx. rewrite rev_flat_map. apply leading_bound.
      + intros c _ Et. destruct (code_lines_e c Et) as [A B]. split.
        * apply Forall_rev. exact A.
        * rewrite rev_length. exact B.
      + intros c Hin Et. apply in_rev in Hin. destruct (tiles_In _ _ _ _ _ c Ht Hin) as (O & B1 & B2).
        apply no_ctx_rev. apply code_lines_ne; try assumption; lia.
      + rewrite tags_rev. apply no_ee_rev. exact N.
      + exact L.
  Qed.

  Lemma gtiles_In : forall gs i j I J g, gtiles eqb a b i j gs I J -> In g gs ->
    exists i' j' I' J', tiles eqb a b i' j' g I' J' /\ I' <= I /\ J' <= J.
  Proof.
    induction gs as [|x gs IH]; intros i j I J g H Hin; [destruct Hin|].
    cbn [gtiles] in H. destruct H as (H1 & H2 & H3 & H4).
    destruct Hin as [<-|Hin].
    - apply gtiles_le in H4. exists (gI1 x), (gJ1 x), (gI2 x), (gJ2 x). split; [exact H3 | lia].
    - exact (IH _ _ _ _ g H4 Hin).
  Qed.

  Lemma context_groups gs :
    gtiles eqb a b 0 0 gs (List.length a) (List.length b) -> Forall good gs ->
    context_ok n (map (hunk_of_group a b) gs) = true.
  Proof.
    intros Hg Hgood. unfold context_ok. apply forallb_forall. intros h Hin.
    apply in_map_iff in Hin. destruct Hin as (g & <- & Hin).
    destruct (gtiles_In _ _ _ _ _ g Hg Hin) as (i' & j' & I' & J' & Ht & B1 & B2).
    rewrite Forall_forall in Hgood.
    destruct (group_context g i' j' I' J' Ht B1 B2 (Hgood g Hin)) as [C1 C2].
    change (hBody (hunk_of_group a b g)) with (flat_map (code_lines a b) g).
    apply andb_true_intro. split; apply Nat.leb_le; assumption.
  Qed.
End Context.

Section ContextTop.
  Variable T : Type.
  Variable eqb : T -> T -> bool.

  Theorem context_lines (a b : list T) hs : hunks eqb a b = Some hs -> context_ok 3 hs = true.
  Proof.
    unfold hunks, grouped_opcodes.
    destruct (opcodes_no_ee T eqb a b) as (cs & -> & Ht & Hn).
    intro H. injection H as <-.
    apply (context_groups T eqb a b 3).
    - apply group_codes_gtiles. exact Ht.
    - apply group_codes_good. exact Hn.
  Qed.
End ContextTop.

(* ================================================================== DiffMatch placeholders *)
Section MatchProofs.
  Local Open Scope string_scope.

  Lemma strip_prefix_spec : forall l s s', strip_prefix l s = Some s' <-> s = l ++ s'.
  Proof.
    induction l as [|c l IH]; intros s s'; cbn [strip_prefix append].
    - split; [intro H; injection H as ->; reflexivity | intros ->; reflexivity].
    - destruct s as [|d s].
      + split; intro H; discriminate H.
      + destruct (Ascii.eqb_spec c d) as [->|Hne].
        * rewrite IH. split; [intros ->; reflexivity | intro H; injection H as ->; reflexivity].
        * split; [intro H; discriminate H | intro H; injection H as E _; congruence].
  Qed.

  Lemma rep_match_spec p k b : forall s m,
    rep_match p k b m s = true <->
    exists t s', s = t ++ s' /\ all_chars p t = true /\ in_bound b (m + String.length t) = true /\ k s' = true.
  Proof.
    induction s as [|c s IH]; intro m; cbn [rep_match].
    - rewrite orb_false_r, andb_true_iff. split.
      + intros [H1 H2]. exists "", "". cbn. rewrite Nat.add_0_r. repeat split; assumption.
      + intros (t & s' & E & _ & H3 & H4). destruct t; [|discriminate E]. cbn in E. subst s'.
        cbn in H3. rewrite Nat.add_0_r in H3. split; assumption.
    - rewrite orb_true_iff, !andb_true_iff, IH. split.
      + intros [[H1 H2] | [Hp (t & s' & E & H2 & H3 & H4)]].
        * exists "", (String c s). cbn. rewrite Nat.add_0_r. repeat split; assumption.
        * exists (String c t), s'. subst s. cbn [append all_chars String.length].
          rewrite Hp, H2. replace (m + S (String.length t)) with (S m + String.length t) by lia.
          repeat split; assumption.
      + intros (t & s' & E & H2 & H3 & H4). destruct t as [|d t].
        * left. cbn in E. subst s'. cbn in H3. rewrite Nat.add_0_r in H3. split; assumption.
        * right. cbn [append] in E. injection E as <- ->. cbn [all_chars] in H2.
          apply andb_prop in H2. destruct H2 as [Hp H2]. split; [exact Hp|].
          exists t, s'. cbn [String.length] in H3.
          replace (m + S (String.length t)) with (S m + String.length t) in H3 by lia.
          repeat split; assumption.
  Qed.

  Lemma shape_match_spec k : forall shape s,
    shape_match shape k s = true <->
    exists t s', s = t ++ s' /\ shape_ok shape t = true /\ k s' = true.
  Proof.
    induction shape as [|p shape IH]; intro s; cbn [shape_match].
    - split.
      + intro H. exists "", s. repeat split; try reflexivity; exact H.
      + intros (t & s' & E & H2 & H3). destruct t; [|discriminate H2]. cbn in E. subst s'. exact H3.
    - destruct s as [|c s].
      + split; [intro H; discriminate H|]. intros (t & s' & E & H2 & _).
        destruct t; [discriminate H2 | discriminate E].
      + rewrite andb_true_iff, IH. split.
        * intros [Hp (t & s' & E & H2 & H3)]. exists (String c t), s'. subst s.
          cbn [append shape_ok]. rewrite Hp, H2. repeat split; assumption.
        * intros (t & s' & E & H2 & H3). destruct t as [|d t]; [discriminate H2|].
          cbn [append] in E. injection E as <- ->. cbn [shape_ok] in H2.
          apply andb_prop in H2. destruct H2 as [Hp H2]. split; [exact Hp|].
          exists t, s'. repeat split; assumption.
  Qed.

  (* the boolean matcher decides the Matches semantics *)
  Theorem matchb_iff : forall items s, matchb items s = true <-> Matches items s.
  Proof.
    induction items as [|it r IH]; intro s.
    - cbn [matchb]. split.
      + destruct s; [intros _; constructor | intro H; discriminate H].
      + intro H. inversion H. reflexivity.
    - destruct it as [l | b | b |]; cbn [matchb].
      + split.
        * destruct (strip_prefix l s) as [s'|] eqn:E; [|intro H; discriminate H].
          apply strip_prefix_spec in E. subst s. intro H. constructor. apply IH. exact H.
        * intro H. inversion H as [|l' r' s' Hm| | |]; subst.
          rewrite (proj2 (strip_prefix_spec l (l ++ s') s') eq_refl). apply IH. exact Hm.
      + rewrite rep_match_spec. split.
        * intros (t & s' & -> & H2 & H3 & H4). constructor; [exact H3 | exact H2 | apply IH; exact H4].
        * intro H. inversion H as [| |b' t r' s' H3 H2 Hm| |]; subst.
          exists t, s'. repeat split; try assumption. apply IH. exact Hm.
      + rewrite rep_match_spec. split.
        * intros (t & s' & -> & H2 & H3 & H4). constructor; [exact H3 | exact H2 | apply IH; exact H4].
        * intro H. inversion H as [| | |b' t r' s' H3 H2 Hm|]; subst.
          exists t, s'. repeat split; try assumption. apply IH. exact Hm.
      + rewrite shape_match_spec. split.
        * intros (t & s' & -> & H2 & H3). constructor; [exact H2 | apply IH; exact H3].
        * intro H. inversion H as [| | | |t r' s' H2 Hm]; subst.
          exists t, s'. repeat split; try assumption. apply IH. exact Hm.
  Qed.

  Theorem diffmatch_empty_iff : forall have items, diffmatch_empty have items = true <-> Matches items have.
  Proof. intros have items. unfold diffmatch_empty. apply matchb_iff. Qed.
End MatchProofs.

(* ================================================================== reading the rendered diff back *)
From Coq Require DecimalNat.
From Coq Require Import DecimalString.

Section Roundtrip.
  Local Open Scope string_scope.
  Local Open Scope nat_scope.

  (* ---------- characters ---------- *)
  Lemma all_chars_impl (p q : ascii -> bool) : (forall c, p c = true -> q c = true) ->
    forall s, all_chars p s = true -> all_chars q s = true.
  Proof.
    intros Hpq. induction s as [|c s IH]; intro H; [reflexivity|].
    cbn [all_chars] in *. apply andb_prop in H. destruct H as [H1 H2].
    rewrite (Hpq c H1), (IH H2). reflexivity.
  Qed.

  Lemma all_chars_app p s t : all_chars p (s ++ t) = all_chars p s && all_chars p t.
  Proof. induction s as [|c s IH]; cbn [append all_chars]; [reflexivity | rewrite IH, andb_assoc; reflexivity]. Qed.

  Definition neq (x : ascii) (c : ascii) : bool := negb (Ascii.eqb c x).
  Definition range_char (c : ascii) : bool := is_digit c || Ascii.eqb c ","%char.

  Lemma digit_neq x : is_digit x = false -> forall c, is_digit c = true -> neq x c = true.
  Proof.
    intros Hx c Hc. unfold neq. destruct (Ascii.eqb_spec c x) as [->|]; [congruence | reflexivity].
  Qed.

  Lemma range_char_neq x : range_char x = false -> forall c, range_char c = true -> neq x c = true.
  Proof.
    intros Hx c Hc. unfold neq. destruct (Ascii.eqb_spec c x) as [->|]; [congruence | reflexivity].
  Qed.

  Lemma string_of_uint_digits d : all_chars is_digit (NilEmpty.string_of_uint d) = true.
  Proof. induction d; cbn [NilEmpty.string_of_uint all_chars]; try rewrite IHd; reflexivity. Qed.

  Lemma dec_digits n : all_chars is_digit (dec n) = true.
  Proof. apply string_of_uint_digits. Qed.

  Lemma parse_nat_dec n : parse_nat (dec n) = Some n.
  Proof.
    unfold parse_nat, dec.
    assert (U := NilEmpty.usu (Nat.to_uint n)).
    destruct (NilEmpty.string_of_uint (Nat.to_uint n)) as [|c s] eqn:E.
    - exfalso. cbn in U. injection U as U.
      assert (O := DecimalNat.Unsigned.of_to n). rewrite <- U in O. cbn in O. subst n. cbn in U. discriminate U.
    - rewrite U, DecimalNat.Unsigned.of_to. reflexivity.
  Qed.

  (* ---------- split_on ---------- *)
  Lemma split_on_nonempty c s : split_on c s <> [].
  Proof.
    destruct s as [|d s]; cbn [split_on]; [discriminate|].
    destruct (split_on c s); [discriminate|]. destruct (Ascii.eqb d c); discriminate.
  Qed.

  Lemma split_on_none c : forall s, all_chars (neq c) s = true -> split_on c s = [s].
  Proof.
    induction s as [|d s IH]; intro H; [reflexivity|].
    cbn [all_chars] in H. apply andb_prop in H. destruct H as [H1 H2].
    cbn [split_on]. rewrite (IH H2). unfold neq in H1. apply negb_true_iff in H1. rewrite H1. reflexivity.
  Qed.

  Lemma split_on_app c : forall s rest, all_chars (neq c) s = true ->
    split_on c (s ++ String c rest) = s :: split_on c rest.
  Proof.
    induction s as [|d s IH]; intros rest H.
    - cbn [append split_on]. destruct (split_on c rest) as [|l ls] eqn:E.
      + exfalso. exact (split_on_nonempty c rest E).
      + rewrite Ascii.eqb_refl. reflexivity.
    - cbn [all_chars] in H. apply andb_prop in H. destruct H as [H1 H2].
      cbn [append split_on]. rewrite (IH rest H2).
      unfold neq in H1. apply negb_true_iff in H1. rewrite H1. reflexivity.
  Qed.

  Lemma split_on_hd c : forall s p r, split_on c s = p :: r -> exists rest, s = p ++ rest.
  Proof.
    induction s as [|d s IH]; intros p r H.
    - cbn in H. injection H as <- _. exists "". reflexivity.
    - cbn [split_on] in H. destruct (split_on c s) as [|l ls] eqn:E.
      + injection H as <- _. exists (String d s). reflexivity.
      + destruct (IH l ls eq_refl) as (rest & ->).
        destruct (Ascii.eqb d c); injection H as <- _.
        * exists (String d (l ++ rest)). reflexivity.
        * exists rest. reflexivity.
  Qed.

  (* ---------- ranges and headers ---------- *)
  Lemma render_range_chars r : all_chars range_char (render_range r) = true.
  Proof.
    assert (D : forall n, all_chars range_char (dec n) = true).
    { intro n. apply (all_chars_impl is_digit); [|apply dec_digits].
      intros c Hc. unfold range_char. rewrite Hc. reflexivity. }
    unfold render_range. destruct (snd r =? 1); [apply D|].
    rewrite !all_chars_app, !D. reflexivity.
  Qed.

  Lemma parse_range_render r : parse_range (render_range r) = Some r.
  Proof.
    assert (Dc : forall n, all_chars (neq ","%char) (dec n) = true).
    { intro n. apply (all_chars_impl is_digit); [apply digit_neq; reflexivity | apply dec_digits]. }
    destruct r as [x y]. unfold render_range, parse_range. cbn [fst snd].
    destruct (Nat.eqb_spec y 1) as [->|Hy].
    - rewrite (split_on_none _ _ (Dc x)), parse_nat_dec. reflexivity.
    - change (dec x ++ "," ++ dec y) with (dec x ++ String ","%char (dec y)).
      rewrite (split_on_app _ _ _ (Dc x)), (split_on_none _ _ (Dc y)), !parse_nat_dec. reflexivity.
  Qed.

  Definition header_line (h : hunk string) : string :=
    "@@ -" ++ render_range (hA h) ++ " +" ++ render_range (hB h) ++ " @@" ++ nls.
  Definition body_line (kl : kind * string) : string := kind_prefix (fst kl) ++ snd kl.
  Definition hunk_lines (h : hunk string) : list string := header_line h :: map body_line (hBody h).

  Lemma parse_header_line h : parse_header (header_line h) = Some (hA h, hB h).
  Proof.
    assert (Rs : forall r, all_chars (neq " "%char) (render_range r) = true).
    { intro r. apply (all_chars_impl range_char); [apply range_char_neq; reflexivity | apply render_range_chars]. }
    unfold parse_header, header_line.
    change ("@@ -" ++ render_range (hA h) ++ " +" ++ render_range (hB h) ++ " @@" ++ nls)
      with ("@@" ++ String " "%char (("-" ++ render_range (hA h)) ++ String " "%char
              (("+" ++ render_range (hB h)) ++ String " "%char ("@@" ++ nls)))).
    rewrite split_on_app by reflexivity.
    rewrite split_on_app by (cbn [append all_chars]; rewrite Rs; reflexivity).
    rewrite split_on_app by (cbn [append all_chars]; rewrite Rs; reflexivity).
    rewrite split_on_none by reflexivity.
    cbn [String.eqb append strip_prefix]. rewrite !String.eqb_refl, !Ascii.eqb_refl. cbn [andb].
    rewrite !parse_range_render. reflexivity.
  Qed.

  Lemma parse_header_body kl : parse_header (body_line kl) = None.
  Proof.
    destruct (parse_header (body_line kl)) as [r|] eqn:E; [exfalso | reflexivity].
    unfold parse_header in E.
    destruct (split_on " "%char (body_line kl)) as [|x0 [|x1 [|x2 [|x3 [|x4 xs]]]]] eqn:S; try discriminate E.
    destruct (String.eqb_spec x0 "@@") as [->|]; [|discriminate E].
    destruct (split_on_hd _ _ _ _ S) as (rest & H).
    unfold body_line in H. destruct kl as [[] l]; cbn in H; discriminate H.
  Qed.

  Lemma parse_body_line_ok kl : parse_body_line (body_line kl) = Some kl.
  Proof. destruct kl as [[] l]; reflexivity. Qed.

  (* ---------- hunks ---------- *)
  Definition close (cur : option (hunk string)) (acc : list (hunk string)) : list (hunk string) :=
    match cur with
    | Some h => (acc ++ [mkHunk (hA h) (hB h) (rev (hBody h))])%list
    | None => acc
    end.

  Lemma parse_hunks_nil cur acc : parse_hunks [] cur acc = Some (close cur acc).
  Proof. destruct cur; reflexivity. Qed.

  Lemma parse_hunks_body : forall body ls ra rb revb acc,
    parse_hunks (map body_line body ++ ls) (Some (mkHunk ra rb revb)) acc =
    parse_hunks ls (Some (mkHunk ra rb (rev body ++ revb))) acc.
  Proof.
    induction body as [|kl body IH]; intros ls ra rb revb acc; [reflexivity|].
    cbn [map app parse_hunks]. rewrite parse_header_body, parse_body_line_ok.
    cbn [hA hB hBody]. rewrite IH. cbn [rev]. rewrite <- app_assoc. reflexivity.
  Qed.

  Lemma parse_hunks_hunk h ls cur acc :
    parse_hunks (hunk_lines h ++ ls) cur acc =
    parse_hunks ls (Some (mkHunk (hA h) (hB h) (rev (hBody h)))) (close cur acc).
  Proof.
    unfold hunk_lines. cbn [app parse_hunks]. rewrite parse_header_line.
    fold (close cur acc). rewrite parse_hunks_body, app_nil_r. reflexivity.
  Qed.

  Lemma hunk_eta (h : hunk string) : mkHunk (hA h) (hB h) (hBody h) = h.
  Proof. destruct h. reflexivity. Qed.

  Lemma parse_hunks_all : forall hs cur acc,
    parse_hunks (flat_map hunk_lines hs) cur acc = Some (close cur acc ++ hs)%list.
  Proof.
    induction hs as [|h hs IH]; intros cur acc.
    - cbn [flat_map]. rewrite parse_hunks_nil, app_nil_r. reflexivity.
    - cbn [flat_map]. rewrite parse_hunks_hunk, IH. cbn [close hA hB hBody].
      rewrite rev_involutive, hunk_eta, <- app_assoc. reflexivity.
  Qed.

  (* ---------- lines ---------- *)
  (* a proper line: no newline except the one that ends it *)
  Definition proper (l : string) : Prop := exists s, l = s ++ nls /\ all_chars is_any s = true.

  Lemma split_after_nl_line : forall s rest, all_chars is_any s = true ->
    split_after_nl ((s ++ nls) ++ rest) = (s ++ nls) :: split_after_nl rest.
  Proof.
    induction s as [|c s IH]; intros rest H.
    - unfold nls. cbn [append split_after_nl]. destruct (split_after_nl rest) as [|l ls] eqn:E.
      + exfalso. exact (split_after_nl_nonempty rest E).
      + rewrite Ascii.eqb_refl. reflexivity.
    - cbn [all_chars] in H. apply andb_prop in H. destruct H as [H1 H2].
      cbn [append split_after_nl]. rewrite (IH rest H2).
      unfold is_any in H1. apply negb_true_iff in H1. rewrite H1. reflexivity.
  Qed.

  Lemma split_after_nl_join : forall L, Forall proper L -> split_after_nl (join L) = (L ++ [""])%list.
  Proof.
    induction L as [|l L IH]; intro H; [reflexivity|].
    inversion H as [|? ? (s & -> & Hs) HL]; subst.
    cbn [join app]. rewrite (split_after_nl_line s (join L) Hs), (IH HL). reflexivity.
  Qed.

  Lemma concat_join : forall l, String.concat "" l = join l.
  Proof.
    induction l as [|x l IH]; [reflexivity|].
    cbn [String.concat join]. destruct l as [|y l].
    - cbn [join]. rewrite append_nil_r'. reflexivity.
    - rewrite IH. reflexivity.
  Qed.

  Lemma join_app : forall x y, join (x ++ y) = join x ++ join y.
  Proof.
    induction x as [|l x IH]; intro y; [reflexivity|].
    cbn [app join]. rewrite IH, append_assoc'. reflexivity.
  Qed.

  Lemma render_hunk_join h : render_hunk h = join (hunk_lines h).
  Proof.
    unfold render_hunk, hunk_lines, header_line. cbn [join]. rewrite concat_join.
    rewrite !append_assoc'. reflexivity.
  Qed.

  Lemma render_hunks_join : forall hs, String.concat "" (map render_hunk hs) = join (flat_map hunk_lines hs).
  Proof.
    intro hs. rewrite concat_join. induction hs as [|h hs IH]; [reflexivity|].
    cbn [map join flat_map]. rewrite join_app, IH, render_hunk_join. reflexivity.
  Qed.

  Lemma header_line_proper h : proper (header_line h).
  Proof.
    exists ("@@ -" ++ render_range (hA h) ++ " +" ++ render_range (hB h) ++ " @@"). split.
    - unfold header_line. rewrite !append_assoc'. reflexivity.
    - assert (Rn : forall r, all_chars is_any (render_range r) = true).
      { intro r. apply (all_chars_impl range_char); [|apply render_range_chars].
        intros c Hc. unfold is_any. destruct (Ascii.eqb_spec c nl) as [->|]; [discriminate Hc | reflexivity]. }
      rewrite !all_chars_app, !Rn. reflexivity.
  Qed.

  Lemma body_line_proper kl : proper (snd kl) -> proper (body_line kl).
  Proof.
    intros (s & E & Hs). exists (kind_prefix (fst kl) ++ s). split.
    - unfold body_line. rewrite E, append_assoc'. reflexivity.
    - rewrite all_chars_app, Hs. destruct (fst kl); reflexivity.
  Qed.

  Definition proper_hunk (h : hunk string) : Prop := Forall (fun kl => proper (snd kl)) (hBody h).

  Lemma hunk_lines_proper hs : Forall proper_hunk hs -> Forall proper (flat_map hunk_lines hs).
  Proof.
    induction hs as [|h hs IH]; intro H; [constructor|].
    inversion H as [|? ? Hh Hhs]; subst. cbn [flat_map]. apply Forall_app. split; [|exact (IH Hhs)].
    unfold hunk_lines. constructor; [apply header_line_proper|].
    apply Forall_forall. intros l Hl. apply in_map_iff in Hl. destruct Hl as (kl & <- & Hin).
    apply body_line_proper. unfold proper_hunk in Hh. rewrite Forall_forall in Hh. exact (Hh kl Hin).
  Qed.

  Lemma last_snoc (X : Type) (l : list X) (x d : X) : last (l ++ [x])%list d = x.
  Proof. induction l as [|y l IH]; [reflexivity|]. cbn [app]. destruct (l ++ [x])%list eqn:E; [destruct l; discriminate E | exact IH]. Qed.

  Lemma drop_last_snoc (X : Type) (l : list X) (x : X) : drop_last (l ++ [x])%list = l.
  Proof.
    induction l as [|y l IH]; [reflexivity|]. cbn [app].
    destruct (l ++ [x])%list as [|z r] eqn:E; [destruct l; discriminate E|].
    change (drop_last (y :: z :: r)) with (y :: drop_last (z :: r)). rewrite IH. reflexivity.
  Qed.

  (* the text of a non-empty diff reads back as the hunks it was rendered from *)
  Theorem parse_render hs : hs <> [] -> Forall proper_hunk hs ->
    parse_unified (nls ++ render_unified hs) = Some hs.
  Proof.
    intros Hne Hp. unfold parse_unified, render_unified.
    destruct hs as [|h0 hs0] eqn:Ehs; [congruence|]. rewrite <- Ehs in *. clear Ehs h0 hs0.
    rewrite <- append_assoc'.
    rewrite (proj2 (strip_prefix_spec (nls ++ file_header) _ (String.concat "" (map render_hunk hs))) eq_refl).
    rewrite render_hunks_join, (split_after_nl_join _ (hunk_lines_proper hs Hp)).
    rewrite last_snoc, drop_last_snoc, parse_hunks_all. cbn [close app].
    destruct hs; [congruence | reflexivity].
  Qed.
End Roundtrip.

(* ================================================================== the clauses of C20 on the text that Diff returns *)
Section Final.
  Local Open Scope string_scope.

  Lemma In_firstn' (X : Type) (x : X) : forall n l, In x (firstn n l) -> In x l.
  Proof.
    induction n as [|n IH]; intros l H; [destruct H|].
    destruct l as [|y l]; [destruct H|]. cbn [firstn] in H.
    destruct H as [H|H]; [left; exact H | right; exact (IH l H)].
  Qed.

  Lemma In_skipn' (X : Type) (x : X) : forall n l, In x (skipn n l) -> In x l.
  Proof.
    induction n as [|n IH]; intros l H; [exact H|]. destruct l as [|y l]; [destruct H|].
    right. exact (IH l H).
  Qed.

  Lemma In_sub (X : Type) (l : list X) i n x : In x (sub l i n) -> In x l.
  Proof. unfold sub. intro H. apply In_firstn' in H. apply In_skipn' in H. exact H. Qed.

  Lemma code_lines_In (a b : list string) c kl :
    In kl (code_lines a b c) -> In (snd kl) a \/ In (snd kl) b.
  Proof.
    unfold code_lines. intro H.
    assert (Ha : forall k, In kl (map (pair k) (sub a (oI1 c) (oI2 c - oI1 c))) -> In (snd kl) a).
    { intros k Hk. apply in_map_iff in Hk. destruct Hk as (x & <- & Hx). exact (In_sub _ _ _ _ _ Hx). }
    assert (Hb : forall k, In kl (map (pair k) (sub b (oJ1 c) (oJ2 c - oJ1 c))) -> In (snd kl) b).
    { intros k Hk. apply in_map_iff in Hk. destruct Hk as (x & <- & Hx). exact (In_sub _ _ _ _ _ Hx). }
    destruct (oTag c).
    - apply in_app_or in H. destruct H as [H|H]; [left; exact (Ha _ H) | right; exact (Hb _ H)].
    - left. exact (Ha _ H).
    - right. exact (Hb _ H).
    - left. exact (Ha _ H).
  Qed.

  Lemma hunks_proper (a b : list string) hs :
    Forall proper a -> Forall proper b -> hunks String.eqb a b = Some hs -> Forall proper_hunk hs.
  Proof.
    intros Pa Pb H. unfold hunks in H. destruct (grouped_opcodes String.eqb 3 a b) as [gs|]; [|discriminate H].
    injection H as <-. apply Forall_forall. intros h Hh. apply in_map_iff in Hh. destruct Hh as (g & <- & _).
    unfold proper_hunk. apply Forall_forall. intros kl Hkl.
    change (hBody (hunk_of_group a b g)) with (flat_map (code_lines a b) g) in Hkl.
    apply in_flat_map in Hkl. destruct Hkl as (c & _ & Hc).
    rewrite Forall_forall in Pa, Pb.
    destruct (code_lines_In a b c kl Hc) as [Hi|Hi]; [exact (Pa _ Hi) | exact (Pb _ Hi)].
  Qed.

  (* the pieces of SplitAfter: all but the last end in the only newline they contain *)
  Fixpoint pieces_ok (ps : list string) : Prop :=
    match ps with
    | [] => False
    | [l] => all_chars is_any l = true
    | l :: r => proper l /\ pieces_ok r
    end.

  Lemma split_after_nl_pieces : forall s, pieces_ok (split_after_nl s).
  Proof.
    induction s as [|c s IH]; [reflexivity|].
    cbn [split_after_nl]. destruct (split_after_nl s) as [|l ls] eqn:E; [destruct IH|].
    destruct (Ascii.eqb_spec c nl) as [->|Hne].
    - change (proper (String nl "") /\ pieces_ok (l :: ls)). split; [|exact IH].
      exists "". split; reflexivity.
    - assert (Hc : is_any c = true) by (unfold is_any; apply negb_true_iff; apply Ascii.eqb_neq; exact Hne).
      destruct ls as [|l' ls'].
      + cbn [pieces_ok all_chars] in *. rewrite Hc, IH. reflexivity.
      + change (proper (String c l) /\ pieces_ok (l' :: ls')).
        change (proper l /\ pieces_ok (l' :: ls')) in IH. destruct IH as [(s0 & -> & Hs) IH]. split; [|exact IH].
        exists (String c s0). split; [reflexivity|]. cbn [all_chars]. rewrite Hc, Hs. reflexivity.
  Qed.

  Lemma append_to_last_proper : forall ps, pieces_ok ps -> Forall proper (append_to_last ps nls).
  Proof.
    induction ps as [|l r IH]; intro H; [destruct H|].
    destruct r as [|l' r'].
    - cbn [append_to_last]. constructor; [|constructor]. exists l. split; [reflexivity | exact H].
    - change (proper l /\ pieces_ok (l' :: r')) in H. destruct H as [H1 H2].
      change (append_to_last (l :: l' :: r') nls) with (l :: append_to_last (l' :: r') nls).
      constructor; [exact H1 | exact (IH H2)].
  Qed.

  Lemma split_lines_proper s : Forall proper (split_lines s).
  Proof. unfold split_lines. apply append_to_last_proper. apply split_after_nl_pieces. Qed.

  Lemma list_eqb_refl : forall l : list string, list_eqb String.eqb l l = true.
  Proof. induction l as [|x l IH]; [reflexivity|]. cbn [list_eqb]. rewrite String.eqb_refl, IH. reflexivity. Qed.

  (* What lib/diffcheck.py evaluates on the implementation's output holds of the model's output:
     the text is empty exactly for equal trimmed inputs; otherwise it reads back as a unified diff
     whose hunks patch the first text into the second, with consistent headers and at most three
     lines of context at either end of every hunk. *)
  Theorem diff_spec have want d :
    diff have want = Some d ->
    spec_empty_iff have want d = true
    /\ (d <> "" ->
        exists hs, parse_unified d = Some hs /\ hs <> []
                   /\ spec_patch have want hs = true /\ spec_headers hs = true /\ spec_context hs = true).
  Proof.
    intro Hd. split.
    - unfold spec_empty_iff.
      destruct (String.eqb_spec d "") as [->|Hne].
      + apply diff_empty_iff in Hd. rewrite Hd, String.eqb_refl. reflexivity.
      + destruct (String.eqb_spec (trim_space have) (trim_space want)) as [Heq|_]; [|reflexivity].
        apply diff_empty_iff in Heq. congruence.
    - intro Hne. destruct (diff_shape have want) as (hs & Hh & Hs). rewrite Hd in Hs. injection Hs as Hs.
      destruct hs as [|h0 hs0] eqn:Ehs; [congruence|]. rewrite <- Ehs in *.
      assert (Hnil : hs <> []) by (rewrite Ehs; discriminate).
      exists hs. subst d.
      assert (Hp : Forall proper_hunk hs)
        by (apply (hunks_proper _ _ hs (split_lines_proper _) (split_lines_proper _) Hh)).
      split; [rewrite Ehs at 1; rewrite <- Ehs; exact (parse_render hs Hnil Hp)|].
      split; [exact Hnil|]. split; [|split].
      + unfold spec_patch. rewrite (patch_lines string String.eqb string_eqb_spec _ _ hs Hh).
        apply list_eqb_refl.
      + exact (headers_lines string String.eqb string_eqb_spec _ _ hs Hh).
      + exact (context_lines string String.eqb _ _ hs Hh).
  Qed.
End Final.

(* ================================================================== the inner contracts as booleans *)
Section BoolForms.
  Variable T : Type.
  Variable eqb : T -> T -> bool.
  Hypothesis eqb_spec : forall x y, eqb x y = true <-> x = y.
  Variables a b : list T.

  Lemma list_eqb_same : forall l : list T, list_eqb eqb l l = true.
  Proof.
    induction l as [|x l IH]; [reflexivity|]. cbn [list_eqb].
    rewrite (proj2 (eqb_spec x x) eq_refl), IH. reflexivity.
  Qed.

  Lemma list_eqb_eq (l l' : list T) : l = l' -> list_eqb eqb l l' = true.
  Proof. intros <-. apply list_eqb_same. Qed.

  Ltac bools :=
    repeat (apply andb_true_intro; split);
    try (apply Nat.leb_le; lia); try (apply Nat.eqb_eq; lia); try (apply Nat.ltb_lt; lia).

  Theorem flm_okb_holds alo ahi blo bhi :
    alo <= ahi <= List.length a -> blo <= bhi <= List.length b ->
    flm_okb eqb a b alo ahi blo bhi (find_longest_match eqb a b alo ahi blo bhi) = true.
  Proof.
    intros Ha Hb. destruct (flm_sound T eqb a b eqb_spec alo ahi blo bhi Ha Hb) as (H1 & H2 & H3 & H4 & H5).
    unfold flm_okb. bools. apply list_eqb_eq. exact H5.
  Qed.

  Lemma common_len_spec : forall x y : list T,
    common_len eqb x y <= List.length x /\ common_len eqb x y <= List.length y
    /\ run eqb x y 0 0 (common_len eqb x y).
  Proof.
    induction x as [|u x IH]; intros y.
    - cbn. repeat split; try lia. apply run_0.
    - destruct y as [|v y]; [cbn; repeat split; try lia; apply run_0|].
      cbn [common_len]. destruct (eqb u v) eqn:E.
      + destruct (IH y) as (I1 & I2 & I3). cbn [List.length]. repeat split; try lia.
        intros t Ht. destruct t as [|t]; [unfold eqat; cbn; exact E|].
        specialize (I3 t ltac:(lia)). exact I3.
      + cbn [List.length]. repeat split; try lia. apply run_0.
  Qed.

  Theorem flm_maxb_holds alo ahi blo bhi :
    alo <= ahi <= List.length a -> blo <= bhi <= List.length b ->
    flm_maxb eqb a b alo ahi blo bhi (find_longest_match eqb a b alo ahi blo bhi) = true.
  Proof.
    intros Ha Hb. unfold flm_maxb.
    apply forallb_forall. intros i Hi. apply in_seq in Hi.
    apply forallb_forall. intros j Hj. apply in_seq in Hj.
    apply Nat.leb_le.
    destruct (common_len_spec (sub a i (ahi - i)) (sub b j (bhi - j))) as (C1 & C2 & C3).
    rewrite sub_length in C1 by lia. rewrite sub_length in C2 by lia.
    apply run_of_sub in C3. rewrite !Nat.add_0_r in C3.
    apply (flm_maximal T eqb a b alo ahi blo bhi Ha Hb i j); try lia. exact C3.
  Qed.

  Lemma mono_blocks_okb : forall l alo blo,
    mono_blocks T a b alo blo l (List.length a) (List.length b) ->
    blocks_okb eqb a b alo blo (l ++ [(List.length a, List.length b, 0)]) = true.
  Proof.
    induction l as [|m l IH]; intros alo blo H.
    - cbn [mono_blocks] in H. cbn [app blocks_okb]. unfold mA, mB, mSize. cbn [fst snd]. bools.
    - cbn [mono_blocks] in H. destruct H as (H1 & H2 & H3 & H4 & H5 & H6 & H7).
      specialize (IH _ _ H7). cbn [app].
      destruct (l ++ [(List.length a, List.length b, 0)]) as [|x r] eqn:E; [destruct l; discriminate E|].
      change (blocks_okb eqb a b alo blo (m :: x :: r)) with
        ((alo <=? mA m) && (blo <=? mB m) && (0 <? mSize m)
         && (mA m + mSize m <=? List.length a) && (mB m + mSize m <=? List.length b)
         && list_eqb eqb (sub a (mA m) (mSize m)) (sub b (mB m) (mSize m))
         && blocks_okb eqb a b (mA m + mSize m) (mB m + mSize m) (x :: r)).
      bools; [apply list_eqb_eq; exact H6 | exact IH].
  Qed.

  Theorem blocks_okb_holds :
    exists ms, matching_blocks eqb a b = Some ms /\ blocks_okb eqb a b 0 0 ms = true.
  Proof.
    destruct (matching_blocks_sound T eqb eqb_spec a b) as (l & E & H).
    eexists. split; [exact E | apply mono_blocks_okb; exact H].
  Qed.

  Lemma tiles_spec_okb : forall cs i j I J,
    tiles_spec T a b i j cs I J -> tiles_okb eqb a b i j cs I J = true.
  Proof.
    induction cs as [|c r IH]; intros i j I J H; cbn [tiles_spec tiles_okb] in *.
    - bools.
    - destruct H as (H1 & H2 & (O1 & O2 & O3) & H4). specialize (IH _ _ _ _ H4).
      unfold op_okb. destruct (oTag c); bools; try exact IH.
      apply list_eqb_eq. apply O3.
  Qed.

  Theorem tiles_okb_holds :
    exists cs, get_opcodes eqb a b = Some cs
               /\ tiles_okb eqb a b 0 0 cs (List.length a) (List.length b) = true.
  Proof.
    destruct (opcodes_tile T eqb eqb_spec a b) as (cs & E & H).
    exists cs. split; [exact E | apply tiles_spec_okb; exact H].
  Qed.
End BoolForms.

(* ================================================================== makeUnifiedDiff on line lists *)
Section FinalLists.
  Local Open Scope string_scope.

  Lemma list_eqb_string_iff : forall l l' : list string, list_eqb String.eqb l l' = true <-> l = l'.
  Proof.
    induction l as [|x l IH]; intros [|y l']; cbn [list_eqb]; split; intro H;
      try reflexivity; try discriminate H.
    - apply andb_prop in H. destruct H as [H1 H2]. apply String.eqb_eq in H1. apply IH in H2. congruence.
    - injection H as -> ->. rewrite String.eqb_refl. apply IH. reflexivity.
  Qed.

  Theorem diff_lines_spec (a b : list string) :
    Forall proper a -> Forall proper b ->
    exists d, diff_lines a b = Some d
      /\ spec_empty_iff_lines a b d = true
      /\ (d <> "" ->
          exists hs, parse_unified (nls ++ d) = Some hs /\ hs <> []
                     /\ spec_patch_lines a b hs = true /\ spec_headers hs = true /\ spec_context hs = true).
  Proof.
    intros Pa Pb. unfold diff_lines.
    destruct (hunks String.eqb a b) as [hs|] eqn:Hh; [|exfalso; exact (hunks_total string String.eqb a b Hh)].
    exists (render_unified hs). split; [reflexivity|].
    assert (Hn := hunks_nil_iff string String.eqb string_eqb_spec a b hs Hh).
    split.
    - unfold spec_empty_iff_lines.
      destruct (String.eqb_spec (render_unified hs) "") as [E|E].
      + apply render_unified_nil_iff in E. apply Hn in E. subst b. rewrite list_eqb_refl. reflexivity.
      + destruct (list_eqb String.eqb a b) eqn:El; [|reflexivity].
        apply list_eqb_string_iff in El. apply Hn in El. subst hs. exfalso. apply E. reflexivity.
    - intro Hne. assert (Hnil : hs <> []) by (intro E; apply Hne; subst hs; reflexivity).
      exists hs. split; [exact (parse_render hs Hnil (hunks_proper a b hs Pa Pb Hh))|].
      split; [exact Hnil|]. split; [|split].
      + unfold spec_patch_lines. rewrite (patch_lines string String.eqb string_eqb_spec a b hs Hh).
        apply list_eqb_refl.
      + exact (headers_lines string String.eqb string_eqb_spec a b hs Hh).
      + exact (context_lines string String.eqb a b hs Hh).
  Qed.
End FinalLists.

(* ================================================================== findLongestMatch: which longest block *)
Section Earliest.
  Variable T : Type.
  Variable eqb : T -> T -> bool.
  Variables a b : list T.

  Theorem flm_earliest alo ahi blo bhi :
    alo <= ahi <= List.length a -> blo <= bhi <= List.length b ->
    let m := find_longest_match eqb a b alo ahi blo bhi in
    (mSize m = 0 -> mA m = alo /\ mB m = blo)
    /\ forall i j, alo <= i -> i + mSize m <= ahi -> blo <= j -> j + mSize m <= bhi ->
       0 < mSize m -> run eqb a b i j (mSize m) ->
       mA m < i \/ (mA m = i /\ mB m <= j).
  Proof.
    intros Ha Hb. unfold find_longest_match.
    destruct (flm_win_first T eqb (sub a alo (ahi - alo)) (sub b blo (bhi - blo))) as [W1 W2].
    set (w := flm_win T eqb (sub a alo (ahi - alo)) (sub b blo (bhi - blo))) in *. clearbody w.
    cbv zeta.
    change (mSize (alo + mA w, blo + mB w, mSize w)) with (mSize w).
    change (mA (alo + mA w, blo + mB w, mSize w)) with (alo + mA w).
    change (mB (alo + mA w, blo + mB w, mSize w)) with (blo + mB w). split.
    - intro Hz. destruct (W1 Hz) as [-> ->]. lia.
    - intros i j H1 H2 H3 H4 Hp Hr.
      assert (Hr' := run_to_sub T eqb a b alo (ahi - alo) blo (bhi - blo) i j (mSize w)
                       H1 ltac:(lia) H3 ltac:(lia) Hr).
      destruct (W2 _ _ Hp Hr') as [Hl | [Hl1 Hl2]]; lia.
  Qed.

  Theorem flm_firstb_holds alo ahi blo bhi :
    alo <= ahi <= List.length a -> blo <= bhi <= List.length b ->
    flm_firstb eqb a b alo ahi blo bhi (find_longest_match eqb a b alo ahi blo bhi) = true.
  Proof.
    intros Ha Hb. destruct (flm_earliest alo ahi blo bhi Ha Hb) as [E1 E2].
    destruct (flm_run T eqb a b alo ahi blo bhi Ha Hb) as (F1 & F2 & F3 & F4 & _).
    set (m := find_longest_match eqb a b alo ahi blo bhi) in *. clearbody m.
    unfold flm_firstb. destruct (Nat.eqb_spec (mSize m) 0) as [Hz|Hnz].
    - destruct (E1 Hz) as [-> ->]. rewrite !Nat.eqb_refl. reflexivity.
    - apply forallb_forall. intros i Hi. apply in_seq in Hi.
      apply forallb_forall. intros j Hj. apply in_seq in Hj.
      destruct (Nat.leb_spec (mSize m) (common_len eqb (sub a i (ahi - i)) (sub b j (bhi - j)))) as [Hle|Hgt];
        [|reflexivity].
      cbn [negb orb].
      destruct (common_len_spec T eqb (sub a i (ahi - i)) (sub b j (bhi - j))) as (C1 & C2 & C3).
      rewrite sub_length in C1 by lia. rewrite sub_length in C2 by lia.
      apply run_of_sub in C3. rewrite !Nat.add_0_r in C3.
      assert (Hr : run eqb a b i j (mSize m)) by (intros t Ht; apply C3; lia).
      destruct (E2 i j ltac:(lia) ltac:(lia) ltac:(lia) ltac:(lia) ltac:(lia) Hr) as [Hl | [Hl1 Hl2]].
      + destruct (Nat.ltb_spec (mA m) i); [reflexivity | lia].
      + destruct (Nat.ltb_spec (mA m) i); [reflexivity|].
        cbn [orb]. rewrite (proj2 (Nat.eqb_eq _ _) Hl1). apply Nat.leb_le. exact Hl2.
  Qed.
End Earliest.

Section SubRun.
  Variable T : Type.
  Variable eqb : T -> T -> bool.
  Hypothesis eqb_spec : forall x y, eqb x y = true <-> x = y.
  Variables a b : list T.

  (* equal slices that lie inside both lists are a common run *)
  Lemma sub_eq_run i j k :
    i + k <= List.length a -> j + k <= List.length b -> sub a i k = sub b j k -> run eqb a b i j k.
  Proof.
    intros Hi Hj Hs t Ht. unfold eqat.
    assert (Ea : nth_error (sub a i k) t = nth_error a (i + t))
      by (rewrite nth_error_sub; destruct (Nat.ltb_spec t k); [reflexivity | lia]).
    assert (Eb : nth_error (sub b j k) t = nth_error b (j + t))
      by (rewrite nth_error_sub; destruct (Nat.ltb_spec t k); [reflexivity | lia]).
    rewrite <- Ea, <- Eb, Hs.
    assert (Hlt : t < List.length (sub b j k)) by (rewrite sub_length; lia).
    apply nth_error_Some in Hlt.
    destruct (nth_error (sub b j k) t) as [x|]; [apply eqb_spec; reflexivity | congruence].
  Qed.

  Theorem flm_earliest_sub alo ahi blo bhi :
    alo <= ahi <= List.length a -> blo <= bhi <= List.length b ->
    let m := find_longest_match eqb a b alo ahi blo bhi in
    (mSize m = 0 -> mA m = alo /\ mB m = blo)
    /\ forall i j, alo <= i -> i + mSize m <= ahi -> blo <= j -> j + mSize m <= bhi ->
       0 < mSize m -> sub a i (mSize m) = sub b j (mSize m) ->
       mA m < i \/ (mA m = i /\ mB m <= j).
  Proof.
    intros Ha Hb. destruct (flm_earliest T eqb a b alo ahi blo bhi Ha Hb) as [E1 E2].
    split; [exact E1|]. intros i j H1 H2 H3 H4 Hp Hs.
    apply (E2 i j H1 H2 H3 H4 Hp). apply sub_eq_run; [lia | lia | exact Hs].
  Qed.
End SubRun.

(* ================================================================== statements as used in props/C20.v *)
Section ForProps.
  Variable T : Type.
  Variable eqb : T -> T -> bool.
  Hypothesis eqb_spec : forall x y, eqb x y = true <-> x = y.
  Variables a b : list T.

  Theorem flm_maximal_sub alo ahi blo bhi :
    alo <= ahi <= List.length a -> blo <= bhi <= List.length b ->
    forall i j k, alo <= i -> i + k <= ahi -> blo <= j -> j + k <= bhi ->
    sub a i k = sub b j k -> k <= mSize (find_longest_match eqb a b alo ahi blo bhi).
  Proof.
    intros Ha Hb i j k H1 H2 H3 H4 Hs.
    apply (flm_maximal T eqb a b alo ahi blo bhi Ha Hb i j k H1 H2 H3 H4).
    apply (sub_eq_run T eqb eqb_spec); [lia | lia | exact Hs].
  Qed.

  Theorem flm_checked alo ahi blo bhi :
    alo <= ahi <= List.length a -> blo <= bhi <= List.length b ->
    flm_okb eqb a b alo ahi blo bhi (find_longest_match eqb a b alo ahi blo bhi) = true
    /\ flm_maxb eqb a b alo ahi blo bhi (find_longest_match eqb a b alo ahi blo bhi) = true
    /\ flm_firstb eqb a b alo ahi blo bhi (find_longest_match eqb a b alo ahi blo bhi) = true.
  Proof.
    intros Ha Hb. split; [|split].
    - exact (flm_okb_holds T eqb eqb_spec a b alo ahi blo bhi Ha Hb).
    - exact (flm_maxb_holds T eqb a b alo ahi blo bhi Ha Hb).
    - exact (flm_firstb_holds T eqb a b alo ahi blo bhi Ha Hb).
  Qed.

  Theorem matching_blocks_nonadjacent :
    exists l, matching_blocks eqb a b = Some (l ++ [(List.length a, List.length b, 0)]) /\ nonadj l.
  Proof.
    destruct (matching_blocks_nonadj T eqb a b) as (l & E & _ & H).
    exists l. split; [exact E | exact H].
  Qed.
End ForProps.
