(* ConcSystem.v — the goroutine-level protocol model (Conc.v) instantiated with the sequential model (System.v).

   D := System.sys (kernel marks and queue, the two tables, the cookie ring, the delivered log);
   api := sys_step on SAdd / SRemove / SList;  hnd := handleEvent (Watcher.handle through System.do_handle) on the record
   the reader holds;  pre := the overflow report, sent before taking the mutex;  env := the kernel-side steps KEmit /
   KRelease / KOverflow, allowed whenever the inotify contract (env_ok) allows them, mutex or not.

   Result: every concurrent execution — any number of callers and closers, any schedule, any capacity of Events, any
   consumer — whose reads are faithful (each read hands the reader the next records of the kernel queue) IS a
   sequential System history: its linearisation is a valid history without injected faults, running it sequentially
   gives the shared state and the results the callers got (conc_is_sequential).  Hence every theorem about valid
   histories (Transfer.v) holds of every reachable concurrent state (section Lift), and what the consumer receives is a
   prefix of the log of that state, in order (conc_stream). *)
From stdpp Require Import gmap strings list.
From Fsn Require Import PathLex Bytes Tables Doc Watcher System Spec SpecDefs Refine SpecInv SpecStream SpecWatchSet Transfer.
From Fsn Require Import Conc ConcDefs ConcSafety ConcLive ConcMain.
Local Open Scope N_scope.

(* ---------------------------------------------------------------- the kernel queue is only appended to *)
Definition kext (k k' : kernel) : Prop := ∃ g, kq k' = kq k ++ g.
Lemma kext_refl k : kext k k.
Proof. exists []. by rewrite app_nil_r. Qed.
Lemma kext_trans k1 k2 k3 : kext k1 k2 → kext k2 k3 → kext k1 k3.
Proof. intros [g1 H1] [g2 H2]. exists (g1 ++ g2). by rewrite H2, H1, app_assoc. Qed.

Lemma add_watch_kq k res : kq (add_watch k res).1 = kq k.
Proof. unfold add_watch. destruct res as [e|ino]; [done|]. by destruct (find_mark k ino). Qed.
Lemma rm_watch_kext k wd : kext k (rm_watch k wd).1.
Proof. unfold rm_watch. destruct (marks k !! wd); [by eexists|apply kext_refl]. Qed.

Lemma register_kext W0 K0 p f rec res : kext K0 (register W0 K0 p f rec res).1.2.
Proof.
  unfold register.
  destruct (add_watch K0 _) as [K1 r] eqn:Ha.
  assert (kext K0 K1) as H1.
  { exists []. rewrite app_nil_r. change K1 with (K1, r).1. rewrite <- Ha. apply add_watch_kq. }
  destruct r as [e|wd]; [done|].
  set (K2 := match _ ≫= _ with Some e => if w_wd e =? wd then K1 else (rm_watch K1 (w_wd e)).1 | None => K1 end).
  assert (kext K0 K2) as H2.
  { unfold K2. destruct (_ ≫= _) as [e|]; [|done]. destruct (w_wd e =? wd); [done|].
    eapply kext_trans; [exact H1|apply rm_watch_kext]. }
  by destruct (_ =? _).
Qed.

Lemma add_walk_kext W0 K0 f rec walk : kext K0 (add_walk W0 K0 f rec walk).1.2.
Proof.
  revert W0 K0. induction walk as [|[p res] walk IH]; intros W0 K0; simpl; [apply kext_refl|].
  pose proof (register_kext W0 K0 p f rec res) as H1.
  destruct (register W0 K0 p f rec res) as [[W1 K1] e]. simpl in H1.
  destruct e; [done|]. eapply kext_trans; [exact H1|apply IH].
Qed.

Lemma rm_all_kext K0 wds : kext K0 (rm_all K0 wds).1.
Proof.
  revert K0. induction wds as [|wd wds IH]; intros K0; simpl; [apply kext_refl|].
  pose proof (rm_watch_kext K0 wd) as H1. destruct (rm_watch K0 wd) as [K1 e]. simpl in H1.
  destruct e; [done|]. eapply kext_trans; [exact H1|apply IH].
Qed.

Lemma remove_kext en W0 K0 name : kext K0 (remove en W0 K0 name).1.2.
Proof.
  unfold remove. destruct (remove_path en W0 name) as [W1 [e|wds]]; [apply kext_refl|].
  pose proof (rm_all_kext K0 wds) as H1. by destruct (rm_all K0 wds) as [K1 e].
Qed.

Lemma end_of_watch_kext en W0 K0 x mask : kext K0 (end_of_watch en W0 K0 x mask).1.1.2.
Proof.
  unfold end_of_watch. destruct (has_all mask IN_MOVE_SELF); [|apply kext_refl].
  destruct (w_rec x); [apply kext_refl|].
  pose proof (remove_kext en (if has_all mask IN_DELETE_SELF then remove_watch W0 x else W0) K0 (w_path x)) as H1.
  by destruct (remove en _ K0 (w_path x)) as [[Wr Kr] e].
Qed.

Lemma deliver_kext cwd W2 K2 dirs x r name pre pending : kext K2 (deliver cwd W2 K2 dirs x r name pre pending).1.2.
Proof.
  unfold deliver. destruct (_ && _); [apply kext_refl|].
  destruct (new_event _ _ _ _) as [R3 ev]. destruct (_ && _ && _); [|apply kext_refl].
  pose proof (register_kext (mkW (t_wd W2) (t_path W2) R3) K2 ev.1.1 (w_flags x) true (lookup_dir cwd dirs ev.1.1)) as H1.
  by destruct (register _ K2 _ _ _ _) as [[W4 K4] rerr].
Qed.

Lemma handle_kext en cwd W0 K0 dirs r : kext K0 (handle en cwd W0 K0 dirs r).1.2.
Proof.
  unfold handle. destruct (by_wd W0 (r_wd r)) as [x|]; [|apply kext_refl].
  destruct (_ || _); [apply kext_refl|].
  pose proof (end_of_watch_kext en W0 K0 x (r_mask r)) as H1.
  destruct (end_of_watch en W0 K0 x (r_mask r)) as [[[W2 K2] pending] stop]. simpl in H1.
  destruct stop; [done|]. eapply kext_trans; [exact H1|apply deliver_kext].
Qed.

(* the overflow report is the first thing handling a record puts out, and a function of the record alone *)
Definition overflow_out (r : raw) : list output := if has_any (r_mask r) IN_Q_OVERFLOW then [OErr ErrEventOverflow] else [].

Lemma deliver_out_pre cwd W2 K2 dirs x r name pre pending :
  ∃ o, (deliver cwd W2 K2 dirs x r name pre pending).2 = pre ++ o.
Proof.
  unfold deliver. destruct (_ && _); [by eexists|].
  destruct (new_event _ _ _ _) as [R3 ev]. destruct (_ && _ && _); [|by eexists].
  destruct (register _ K2 _ _ _ _) as [[W4 K4] rerr]. by eexists.
Qed.

Lemma handle_out_pre en cwd W0 K0 dirs r : ∃ o, (handle en cwd W0 K0 dirs r).2 = overflow_out r ++ o.
Proof.
  unfold handle. fold (overflow_out r).
  destruct (by_wd W0 (r_wd r)) as [x|]; [|exists []; by rewrite app_nil_r].
  destruct (_ || _); [exists []; by rewrite app_nil_r|].
  destruct (end_of_watch en W0 K0 x (r_mask r)) as [[[W2 K2] pending] stop].
  destruct stop; [exists []; by rewrite app_nil_r|]. apply deliver_out_pre.
Qed.

(* ---------------------------------------------------------------- the instance *)
Global Instance raw_eq_dec : EqDecision raw.
Proof. solve_decision. Defined.

(* API calls: the steps of System.v that run under the Watcher's mutex on behalf of a caller *)
Inductive acall :=
| AAdd (arg : string) (ops : N) (nofollow : bool) (walk : list (string * resolution))
| ARemove (arg : string)
| AList.
Definition step_of (c : acall) : step :=
  match c with AAdd arg ops nf walk => SAdd arg ops nf walk | ARemove arg => SRemove arg | AList => SList end.

(* kernel-side steps: they change the kernel part of the state at any time, mutex or not *)
Inductive kcall := EEmit (r : raw) | ERelease (wd : N) (ds : bool) | EOverflow.
Definition kstep_of (k : kcall) : step :=
  match k with EEmit r => KEmit r | ERelease wd ds => KRelease wd ds | EOverflow => KOverflow end.

Definition sev : Type := string * N * string.         (* an Event: name, Op, renamedFrom *)
Notation smsg := (@msg sev err).
Definition out_msg (o : output) : smsg := match o with OEv n op f => MEv (n, op, f) | OErr e => MEr e end.

(* a raw work item: the record as decoded by the reader, and the oracle SHandle takes (what directory names resolve to) *)
Definition sitem : Type := raw * list (string * N).

Section Instance.
  Variable cfg : config.

  Definition sys_api (d : sys) (c : acall) : sys * api_result := sys_step cfg d (step_of c).
  (* AddWith on a closed Watcher: ErrClosed; Remove: nil; WatchList: nil *)
  Definition sys_closed_result (c : acall) : api_result :=
    match c with AAdd _ _ _ _ => RErr ErrClosed | ARemove _ => RNil | AList => RList [] end.

  (* before the lock: `if mask&IN_Q_OVERFLOW != 0 { sendError(ErrEventOverflow) }` — a function of the record *)
  Definition sys_pre (i : sitem) : list smsg := map out_msg (overflow_out i.1).

  (* what handling record r puts out, given the state *)
  Definition handle_out (d : sys) (i : sitem) : list output :=
    (handle (c_recurse cfg) (c_cwd cfg) (W d) (mkK (marks (K d)) (next_wd (K d)) (tail (kq (K d)))) i.2 i.1).2.

  (* the reader's critical section (handleEvent): the record the reader holds is removed from the head of the model's
     queue (which keeps read-but-unhandled records) and handled; sent after the lock: everything but the overflow report *)
  Definition sys_hnd (d : sys) (i : sitem) : sys * list smsg :=
    (do_handle cfg d i.2 i.1 (tail (kq (K d))), map out_msg (drop (length (overflow_out i.1)) (handle_out d i))).

  Definition sys_env (d : sys) (k : kcall) : option sys :=
    if env_ok d (kstep_of k) then Some (sys_step cfg d (kstep_of k)).1 else None.

  Lemma do_handle_outs d dirs r q : outs (do_handle cfg d dirs r q) =
    outs d ++ (handle (c_recurse cfg) (c_cwd cfg) (W d) (mkK (marks (K d)) (next_wd (K d)) q) dirs r).2.
  Proof. unfold do_handle. by destruct (handle _ _ _ _ _ _) as [[W1 K1] o]. Qed.

  Lemma do_handle_kq d dirs r q : ∃ g, kq (K (do_handle cfg d dirs r q)) = q ++ g.
  Proof.
    unfold do_handle.
    pose proof (handle_kext (c_recurse cfg) (c_cwd cfg) (W d) (mkK (marks (K d)) (next_wd (K d)) q) dirs r) as H.
    by destruct (handle _ _ _ _ _ _) as [[W1 K1] o].
  Qed.

  (* when the record the reader holds is the head of the queue, the critical section IS the step SHandle *)
  Lemma sys_hnd_is_handle d r dirs q :
    kq (K d) = r :: q → (sys_hnd d (r, dirs)).1 = (sys_step cfg d (SHandle dirs)).1 ∧ (sys_step cfg d (SHandle dirs)).2 = RNil.
  Proof. intros Hq. unfold sys_hnd. simpl. by rewrite Hq. Qed.

  (* pre ++ post is exactly what the step appends to the log *)
  Lemma sys_hnd_outs d i :
    map out_msg (outs (sys_hnd d i).1) = map out_msg (outs d) ++ sys_pre i ++ (sys_hnd d i).2.
  Proof.
    unfold sys_hnd, sys_pre, handle_out. simpl. rewrite do_handle_outs, map_app. f_equal.
    destruct (handle_out_pre (c_recurse cfg) (c_cwd cfg) (W d) (mkK (marks (K d)) (next_wd (K d)) (tail (kq (K d)))) i.2 i.1)
      as [o Ho].
    rewrite Ho, drop_app, map_app. done.
  Qed.

  Lemma sys_api_outs d c : outs (sys_api d c).1 = outs d.
  Proof.
    unfold sys_api. destruct c as [arg ops nf walk|arg|]; simpl; try done.
    - destruct (recursive_path _ _) as [path rec]. by destruct (if rec then _ else _) as [[W1 K1] e].
    - by destruct (remove _ _ _ _) as [[W1 K1] e].
  Qed.
  Lemma sys_env_outs d k d' : sys_env d k = Some d' → outs d' = outs d.
  Proof. unfold sys_env. destruct (env_ok d _); [|done]. intros [= <-]. by destruct k. Qed.

  Lemma sys_api_kext d c : kext (K d) (K (sys_api d c).1).
  Proof.
    unfold sys_api. destruct c as [arg ops nf walk|arg|]; simpl; try apply kext_refl.
    - destruct (recursive_path _ _) as [path rec].
      destruct rec.
      + pose proof (add_walk_kext (W d) (K d) (request_flags ops nf) true walk) as H.
        by destruct (add_walk _ _ _ _ _) as [[W1 K1] e].
      + destruct walk as [|[p res] walk]; [apply kext_refl|].
        pose proof (register_kext (W d) (K d) path (request_flags ops nf) false res) as H.
        by destruct (register _ _ _ _ _ _) as [[W1 K1] e].
    - pose proof (remove_kext (c_recurse cfg) (W d) (K d) (clean arg)) as H.
      by destruct (remove _ _ _ _) as [[W1 K1] e].
  Qed.
  Lemma sys_env_kext d k d' : sys_env d k = Some d' → kext (K d) (K d').
  Proof. unfold sys_env. destruct (env_ok d _); [|done]. intros [= <-]. destruct k; simpl; by eexists. Qed.
  Lemma sys_step_handle_kq d dirs r q :
    kq (K d) = r :: q → ∃ g, kq (K (sys_step cfg d (SHandle dirs)).1) = q ++ g.
  Proof. intros Hq. simpl. rewrite Hq. simpl. apply do_handle_kq. Qed.

  (* ---------------------------------------------------------------- the concurrent system *)
  Notation scstate := (@cstate sev err sys acall api_result sitem kcall).
  Notation slabel := (@label acall api_result sitem kcall).
  Notation slinent := (@linent sev err acall api_result sitem kcall).
  Definition scstep := cstep sys_api sys_closed_result sys_pre sys_hnd sys_env.
  Definition scrun := crun sys_api sys_closed_result sys_pre sys_hnd sys_env.

  (* The ghost tie between the kernel handing a batch to the reader (LKernel b) and the data.  The model's queue
     kq (K d) keeps a record until it is HANDLED: it holds the records the reader has read but not handled, then the
     unread ones.  A read happens at RRead, where the reader holds nothing; a faithful read hands over exactly the next
     [length b] records of the queue, in order (with whatever oracles). *)
  Definition read_ok (s : scstate) (l : slabel) : bool :=
    match l with LKernel b => bool_decide (take (length b) (kq (K (data s))) = b.*1) | _ => true end.
  Fixpoint faithful_reads (cap : nat) (cf : cfacts) (s : scstate) (ls : list slabel) : bool :=
    match ls with
    | [] => true
    | l :: ls' => read_ok s l && match scstep cap cf s l with Some s' => faithful_reads cap cf s' ls' | None => true end
    end.

  Lemma faithful_reads_snoc cap cf s ls l :
    faithful_reads cap cf s (ls ++ [l]) =
    faithful_reads cap cf s ls && match scrun cap cf s ls with Some s1 => read_ok s1 l | None => true end.
  Proof.
    revert s. induction ls as [|l0 ls IH]; intros s; simpl.
    - destruct (scstep cap cf s l); by rewrite andb_true_r.
    - unfold scstep, scrun in *. destruct (cstep _ _ _ _ _ cap cf s l0) as [s1|]; simpl.
      + by rewrite IH, andb_assoc.
      + by rewrite !andb_true_r.
  Qed.

  (* the System history a linearisation stands for *)
  Definition lin_step (e : slinent) : step :=
    match e with LinCall c _ => step_of c | LinHandle i _ => SHandle i.2 | LinEnv k => kstep_of k end.
  Definition hist (l : list slinent) : list step := map lin_step l.
  (* what [run] returns for an entry: the recorded result for a call; reader and kernel steps return nothing *)
  Definition res_ok (e : slinent) (r : api_result) : Prop :=
    match e with LinCall _ r' => r' = r | _ => r = RNil end.

  Lemma hist_no_inject l : no_inject (hist l) = true.
  Proof. induction l as [|[[]| |[]] l IH]; simpl; done. Qed.

  Lemma run_snoc h st d :
    (run cfg (h ++ [st]) d).1 = (sys_step cfg (run cfg h d).1 st).1 ∧
    (run cfg (h ++ [st]) d).2 = (run cfg h d).2 ++ [(sys_step cfg (run cfg h d).1 st).2].
  Proof.
    revert d. induction h as [|st0 h IH]; intros d; simpl.
    - by destruct (sys_step cfg d st).
    - destruct (sys_step cfg d st0) as [d1 r0]. specialize (IH d1).
      destruct (run cfg (h ++ [st]) d1) as [d2 rs]. destruct (run cfg h d1) as [d3 rs']. simpl in *.
      destruct IH as [-> ->]. done.
  Qed.
  Lemma valid_snoc h st d : valid cfg (h ++ [st]) d = valid cfg h d && env_ok (run cfg h d).1 st.
  Proof.
    revert d. induction h as [|st0 h IH]; intros d; simpl.
    - by rewrite andb_true_r.
    - rewrite IH. destruct (sys_step cfg d st0) as [d1 r0]. simpl. destruct (run cfg h d1). simpl. by rewrite andb_assoc.
  Qed.

  (* the bridge invariant *)
  Record BInv (d0 : sys) (s : scstate) : Prop := mkBInv {
    bi_tie : ∃ q, kq (K (data s)) = (held (rd s)).*1 ++ q;
        (* the records the reader holds are the head of the model's queue, in order *)
    bi_valid : valid cfg (hist (lin s)) d0 = true;
    bi_run : (run cfg (hist (lin s)) d0).1 = data s;
    bi_res : Forall2 res_ok (lin s) (run cfg (hist (lin s)) d0).2;
    bi_outs : map out_msg (outs (data s)) = map out_msg (outs d0) ++ lin_msgs sys_pre (lin s);
  }.

  Lemma binv_init d0 : BInv d0 (cinit d0).
  Proof. constructor; simpl; try done. - by eexists. - by rewrite app_nil_r. Qed.

  Lemma binv_snoc d0 (s s' : scstate) e :
    BInv d0 s → lin s' = lin s ++ [e] →
    env_ok (data s) (lin_step e) = true → (sys_step cfg (data s) (lin_step e)).1 = data s' →
    res_ok e (sys_step cfg (data s) (lin_step e)).2 →
    (∃ q, kq (K (data s')) = (held (rd s')).*1 ++ q) →
    map out_msg (outs (data s')) = map out_msg (outs (data s)) ++ lin_msgs sys_pre [e] →
    BInv d0 s'.
  Proof.
    intros [H1 H2 H3 H4 H5] Hl Henv Hd Hres Htie Houts.
    destruct (run_snoc (hist (lin s)) (lin_step e) d0) as [Hr1 Hr2]. rewrite H3 in Hr1, Hr2.
    constructor; [done|..]; rewrite Hl; unfold hist in *; rewrite ?map_app; simpl.
    - by rewrite valid_snoc, H2, H3, Henv.
    - by rewrite Hr1.
    - rewrite Hr2. apply Forall2_app; [done|]. by constructor.
    - by rewrite Houts, H5, lin_msgs_app, app_assoc.
  Qed.

  Lemma binv_step d0 cap cf (s s' : scstate) l :
    BInv d0 s → read_ok s l = true → scstep cap cf s l = Some s' → BInv d0 s'.
  Proof.
    intros HB Hread Hs. pose proof HB as [[q Hq] H2 H3 H4 H5].
    destruct (step_classify _ _ _ _ _ _ _ _ _ _ Hs)
      as [(Hd & Hl & Hh)|[(t & c & r & -> & Ht & Hp & Ha & Hl & Hrd)|[(it & rest & post & -> & Hrd & Hh & Hl & Hheld)|
          (k & -> & He & Hl & Hrd)]]].
    - (* data and lin unchanged *)
      constructor; rewrite ?Hd, ?Hl; try done.
      destruct Hh as [->|[->|(b & -> & Hr0 & ->)]]; [by eexists|by eexists|].
      simpl in Hread. apply bool_decide_eq_true in Hread. exists (drop (length b) (kq (K (data s)))).
      unfold held. simpl. by rewrite <- Hread, take_drop.
    - (* the critical section of an API call *)
      eapply (binv_snoc d0 s s' (LinCall c r)); try done.
      + by destruct c.
      + simpl. change (sys_step cfg (data s) (step_of c)) with (sys_api (data s) c). by rewrite Ha.
      + simpl. change (sys_step cfg (data s) (step_of c)) with (sys_api (data s) c). by rewrite Ha.
      + rewrite Hrd. destruct (sys_api_kext (data s) c) as [g Hg]. rewrite Ha in Hg. simpl in Hg.
        exists (q ++ g). by rewrite Hg, Hq, app_assoc.
      + simpl. rewrite app_nil_r. pose proof (sys_api_outs (data s) c) as Ho. rewrite Ha in Ho. simpl in Ho. by rewrite Ho.
    - (* the reader's critical section: the record it holds is the head of the queue *)
      rewrite Hrd in Hq. unfold held in Hq. simpl in Hq. destruct it as [r dirs].
      destruct (sys_hnd_is_handle (data s) r dirs _ Hq) as [Heq Hnil]. rewrite Hh in Heq. simpl in Heq.
      eapply (binv_snoc d0 s s' (LinHandle (r, dirs) post)); try done.
      + rewrite Hheld. assert (data s' = (sys_hnd (data s) (r, dirs)).1) as -> by (by rewrite Hh).
        unfold sys_hnd. simpl. rewrite Hq. simpl.
        match goal with |- ∃ _, kq (K (do_handle _ _ _ _ ?qq)) = _ => destruct (do_handle_kq (data s) dirs r qq) as [g Hg] end.
        exists (q ++ g). rewrite Hg. by rewrite <- app_assoc.
      + simpl. rewrite app_nil_r. pose proof (sys_hnd_outs (data s) (r, dirs)) as Ho. by rewrite Hh in Ho.
    - (* a kernel-side step *)
      assert (env_ok (data s) (kstep_of k) = true ∧ (sys_step cfg (data s) (kstep_of k)).1 = data s') as [Hok Hd].
      { unfold sys_env in He. destruct (env_ok (data s) (kstep_of k)); [|done]. split; [done|]. congruence. }
      eapply (binv_snoc d0 s s' (LinEnv k)); try done.
      + by destruct k.
      + rewrite Hrd. destruct (sys_env_kext _ _ _ He) as [g Hg]. exists (q ++ g). by rewrite Hg, Hq, app_assoc.
      + simpl. rewrite app_nil_r. by rewrite (sys_env_outs _ _ _ He).
  Qed.

  Lemma binv_run d0 cap cf ls (s : scstate) :
    scrun cap cf (cinit d0) ls = Some s → faithful_reads cap cf (cinit d0) ls = true → BInv d0 s.
  Proof.
    revert s. induction ls as [|l ls IH] using rev_ind; intros s Hr Hf.
    - simpl in Hr. simplify_eq. apply binv_init.
    - rewrite faithful_reads_snoc in Hf. apply andb_prop in Hf as [Hf1 Hf2].
      unfold scrun in *. rewrite crun_snoc in Hr.
      destruct (crun _ _ _ _ _ cap cf (cinit d0) ls) as [s0|] eqn:Hr0; [|done]. simpl in Hr.
      eapply binv_step; [by apply IH|exact Hf2|exact Hr].
  Qed.

  (* ---------------------------------------------------------------- (a) every concurrent execution is a sequential history *)
  (* For every concurrent execution with faithful reads — any number of callers and closers, any schedule, any
     capacity, any consumer — the linearisation, read as a System history (calls ↦ SAdd / SRemove / SList, the reader's
     critical sections ↦ SHandle, kernel-side steps ↦ KEmit / KRelease / KOverflow; never SInject), is a history the
     inotify contract allows, running it sequentially yields exactly the shared state of the concurrent execution, and the
     API results recorded in lin (the ones the callers returned) are the ones [run] returns, position by position. *)
  Theorem conc_is_sequential cap cf d0 ls (s : scstate) :
    scrun cap cf (cinit d0) ls = Some s → faithful_reads cap cf (cinit d0) ls = true →
    let h := hist (lin s) in
    valid cfg h d0 = true ∧ no_inject h = true ∧ (run cfg h d0).1 = data s ∧ Forall2 res_ok (lin s) (run cfg h d0).2.
  Proof.
    intros Hr Hf. destruct (binv_run d0 cap cf ls s Hr Hf) as [_ H2 H3 H4 _].
    split_and!; [done|apply hist_no_inject|done|done].
  Qed.

  (* the invariant that makes it work: the records the reader holds (read, critical section not yet run) are the head
     of the model's queue, in order — so each critical section of the reader is the step SHandle *)
  Theorem reader_holds_queue_head cap cf d0 ls (s : scstate) :
    scrun cap cf (cinit d0) ls = Some s → faithful_reads cap cf (cinit d0) ls = true →
    ∃ q, kq (K (data s)) = (held (rd s)).*1 ++ q.
  Proof. intros Hr Hf. by destruct (binv_run d0 cap cf ls s Hr Hf) as [H1 _ _ _ _]. Qed.

  (* the delivered log of the shared state is the stream's handled part: [pre] and [post] of every handled record *)
  Theorem conc_outs cap cf ls (s : scstate) :
    scrun cap cf (cinit init_sys) ls = Some s → faithful_reads cap cf (cinit init_sys) ls = true →
    map out_msg (outs (data s)) = lin_msgs sys_pre (lin s).
  Proof. intros Hr Hf. by destruct (binv_run init_sys cap cf ls s Hr Hf) as [_ _ _ _ H5]. Qed.

  (* ---------------------------------------------------------------- (b) the sequential theorems, for every reachable concurrent state *)
  Section Lift.
    Context (Hnr : c_recurse cfg = false).
    Context (cap : nat) (cf : cfacts) (ls : list slabel) (s : scstate).
    Context (Hr : scrun cap cf (cinit init_sys) ls = Some s) (Hf : faithful_reads cap cf (cinit init_sys) ls = true).

    Lemma conc_history_ok : history_ok cfg (hist (lin s)).
    Proof. destruct (conc_is_sequential _ _ _ _ _ Hr Hf) as (Hv & Hn & _). by constructor. Qed.
    Lemma conc_run_data : (run cfg (hist (lin s)) init_sys).1 = data s.
    Proof. by destruct (conc_is_sequential _ _ _ _ _ Hr Hf) as (_ & _ & Hd & _). Qed.

    (* the shared state refines the specification state of the same history, whose invariant holds; API results agree *)
    Theorem conc_refines_spec :
      Rel (data s) (spec_run (hist (lin s)) init_spec).1 ∧ SInv (spec_run (hist (lin s)) init_spec).1 ∧
      Forall2 res_equiv (run cfg (hist (lin s)) init_sys).2 (spec_run (hist (lin s)) init_spec).2.
    Proof.
      pose proof (final_rel cfg _ conc_history_ok) as H1. pose proof (final_inv cfg _ conc_history_ok) as H2.
      pose proof (results_refine cfg _ conc_history_ok) as H3. cbv zeta in *. rewrite conc_run_data in H1. done.
    Qed.

    (* C12 for concurrent executions: whenever the queue is empty the kernel's watches are exactly the table entries *)
    Theorem conc_tables_in_step :
      kq (K (data s)) = [] →
      dom (marks (K (data s))) ≡@{gset N} dom (t_wd (W (data s))) ∧
      size (t_wd (W (data s))) = size (t_path (W (data s))) ∧
      length (watch_list (W (data s))) = size (t_wd (W (data s))) ∧ NoDup (watch_list (W (data s))).
    Proof. pose proof (impl_in_step cfg _ conc_history_ok) as H. cbv zeta in H. by rewrite conc_run_data in H. Qed.

    (* C10: without overflow, nothing is ever logged for Errors *)
    Theorem conc_benign_no_errors : benign (hist (lin s)) = true → errs (data s) = [].
    Proof. pose proof (impl_benign_no_errors cfg _ conc_history_ok) as H. cbv zeta in H. by rewrite conc_run_data in H. Qed.

    (* the log of the shared state is the specification's *)
    Theorem conc_log_is_spec_log :
      outs (data s) = souts (spec_run (hist (lin s)) init_spec).1 ∧ handled (data s) = shandled (spec_run (hist (lin s)) init_spec).1.
    Proof. pose proof (impl_outs cfg _ conc_history_ok) as H. cbv zeta in H. by rewrite conc_run_data in H. Qed.

    (* C08: every path in the tables is the cleaned argument of an Add whose critical section has run *)
    Theorem conc_paths_are_add_arguments wd x :
      t_wd (W (data s)) !! wd = Some x →
      ∃ arg ops nf walk r, LinCall (AAdd arg ops nf walk) r ∈ lin s ∧ w_path x = clean arg.
    Proof.
      pose proof (impl_paths_are_add_arguments cfg _ conc_history_ok wd x) as H. cbv zeta in H. rewrite conc_run_data in H.
      intros Hx. specialize (H Hx). clear -H. induction (lin s) as [|e l IH]; simpl in H; [by apply elem_of_nil in H|].
      assert (w_path x ∈ add_args (hist l) → ∃ arg ops nf walk r, LinCall (AAdd arg ops nf walk) r ∈ e :: l ∧ w_path x = clean arg)
        as Hrec.
      { intros Hin. destruct (IH Hin) as (arg & ops & nf & walk & r & Hel & Heq). exists arg, ops, nf, walk, r.
        split; [by right|done]. }
      destruct e as [[arg ops nf walk|arg|] r|i p|[r|wd' ds|]]; simpl in H; try (by apply Hrec).
      apply elem_of_cons in H as [->|H]; [|by apply Hrec]. exists arg, ops, nf, walk, r. split; [by left|done].
    Qed.
  End Lift.

  (* ---------------------------------------------------------------- (c) what the consumer receives is the log, in order *)
  Lemma evs_of_out_msg (l : list output) : evs_of (map out_msg l) = ev_list l.
  Proof. induction l as [|[n op f|e] l IH]; simpl; [done| |done]. unfold evs_of in *. simpl. by rewrite IH. Qed.
  Lemma ers_of_out_msg (l : list output) : ers_of (map out_msg l) = err_list l.
  Proof. induction l as [|[n op f|e] l IH]; simpl; [done|done|]. unfold ers_of in *. simpl. by rewrite IH. Qed.
  Lemma evs_of_sys_pre (u : list sitem) : evs_of (concat (map sys_pre u)) = [].
  Proof.
    induction u as [|i u IH]; [done|].
    change (concat (map sys_pre (i :: u))) with (sys_pre i ++ concat (map sys_pre u)).
    rewrite evs_of_app, IH, app_nil_r. unfold sys_pre, overflow_out. by destruct (has_any _ _).
  Qed.

  (* Events: received ++ buffered is a prefix of the events of the log of the shared state — equal to it, together with
     what the reader is still to send, as long as the reader is not exiting.  Errors: likewise, except that the overflow
     report of the record the reader has begun but not yet handled is sent BEFORE that record's critical section, i.e.
     before the log has it; the order is the log's order nevertheless. *)
  Theorem conc_stream cap cf ls (s : scstate) :
    scrun cap cf (cinit init_sys) ls = Some s → faithful_reads cap cf (cinit init_sys) ls = true →
    (recvd_ev s ++ ev_buf s) `prefix_of` evs (data s) ∧
    (reader_exiting (rd s) = false → evs (data s) = recvd_ev s ++ ev_buf s ++ evs_of (pending_msgs (rd s))) ∧
    ∃ u, started s = handled_items (lin s) ++ u ∧ (length u ≤ 1)%nat ∧ (reader_exiting (rd s) = false → u = cur_items (rd s)) ∧
         recvd_er s `prefix_of` errs (data s) ++ ers_of (concat (map sys_pre u)) ∧
         (reader_exiting (rd s) = false →
          errs (data s) ++ ers_of (concat (map sys_pre u)) = recvd_er s ++ ers_of (pending_msgs (rd s))).
  Proof.
    intros Hr Hf. pose proof (conc_outs _ _ _ _ Hr Hf) as Ho. unfold scrun in Hr.
    destruct (started_shape _ _ _ _ _ _ _ _ _ _ Hr) as (u & Hst & Hlen & Hu & Hstream).
    destruct (events_fifo _ _ _ _ _ _ _ _ _ _ Hr) as (_ & He2 & He3).
    destruct (errors_fifo _ _ _ _ _ _ _ _ _ _ Hr) as (_ & Hx2 & Hx3).
    rewrite Hstream in He2, He3, Hx2, Hx3. rewrite evs_of_app, evs_of_sys_pre, app_nil_r, <- Ho, evs_of_out_msg in He2, He3.
    rewrite ers_of_app, <- Ho, ers_of_out_msg in Hx2, Hx3.
    split; [exact He3|]. split; [intros Hex; by rewrite (He2 Hex)|].
    exists u. split_and!; try done. intros Hex. by rewrite (Hx2 Hex).
  Qed.

  Corollary conc_events_are_log_prefix cap cf ls (s : scstate) :
    scrun cap cf (cinit init_sys) ls = Some s → faithful_reads cap cf (cinit init_sys) ls = true →
    recvd_ev s `prefix_of` evs (data s).
  Proof.
    intros Hr Hf. destruct (conc_stream _ _ _ _ Hr Hf) as (H & _). etrans; [|exact H]. by eexists.
  Qed.
  (* with no record begun and unhandled (in particular whenever the reader is between records) Errors too *)
  Corollary conc_errors_are_log_prefix cap cf ls (s : scstate) :
    scrun cap cf (cinit init_sys) ls = Some s → faithful_reads cap cf (cinit init_sys) ls = true →
    reader_exiting (rd s) = false → cur_items (rd s) = [] →
    recvd_er s `prefix_of` errs (data s).
  Proof.
    intros Hr Hf Hex Hc. destruct (conc_stream _ _ _ _ Hr Hf) as (_ & _ & u & _ & _ & Hu & H & _).
    rewrite (Hu Hex), Hc in H. simpl in H. by rewrite app_nil_r in H.
  Qed.
End Instance.

(* ---------------------------------------------------------------- non-vacuity: an Add racing a handled notification *)
Section Example.
  Local Open Scope nat_scope.
  Definition ex_cfg : config := mkCfg false "/".
  Definition ex_rec : raw := mkRaw 1%N 256%N 0%N 16%N "f".                 (* IN_CREATE of "f" in watch 1 *)
  Definition ex_add (p : string) (ino : N) : acall := AAdd p 31%N false [(p, (inr ino, inr ino))].
  Definition ex_ls : list (@label acall api_result sitem kcall) :=
    [ LSpawn 1 (CStart (ex_add "d" 7%N)); LThr 1; LThr 1; LThr 1;     (* Add("d") completes: watch 1 *)
      LEnv (EEmit ex_rec);                                          (* the kernel queues a notification for it *)
      LThr 0; LKernel [(ex_rec, [])];                               (* the reader reads it (a faithful read) *)
      LThr 0; LThr 0;                                               (* … and is about to lock *)
      LSpawn 2 (CStart (ex_add "e" 8%N)); LThr 2; LThr 2;             (* Add("e") gets the mutex first *)
      LThr 2;                                                       (* its critical section *)
      LThr 0; LThr 0;                                               (* now the reader's: handleEvent *)
      LConsumeEv ].

  Example ex_conc_run :
    match scrun ex_cfg 0 (mkCf false true) (cinit init_sys) ex_ls with
    | Some s =>
      faithful_reads ex_cfg 0 (mkCf false true) (cinit init_sys) ex_ls = true ∧
      recvd_ev s = [("d/f"%string, 1%N, ""%string)] ∧ recvd_er s = [] ∧
      hist (lin s) = [step_of (ex_add "d" 7%N); KEmit ex_rec; step_of (ex_add "e" 8%N); SHandle []] ∧
      lin s = [LinCall (ex_add "d" 7%N) RNil; LinEnv (EEmit ex_rec); LinCall (ex_add "e" 8%N) RNil;
               LinHandle (ex_rec, []) [MEv ("d/f"%string, 1%N, ""%string)]] ∧
      evs (data s) = [("d/f"%string, 1%N, ""%string)] ∧ kq (K (data s)) = [] ∧
      thr s !! 1 = Some (CDone RNil) ∧ thr s !! 2 = Some (CDone RNil)
    | None => False
    end.
  Proof. vm_compute. repeat split. Qed.

  (* while Add("e") holds the mutex the reader cannot enter handleEvent *)
  Example ex_conc_excluded : scrun ex_cfg 0 (mkCf false true) (cinit init_sys) (take 12 ex_ls ++ [LThr 0]) = None.
  Proof. vm_compute. reflexivity. Qed.

  (* the theorems apply to it *)
  Example ex_conc_sequential :
    ∃ s, scrun ex_cfg 0 (mkCf false true) (cinit init_sys) ex_ls = Some s ∧
         valid ex_cfg (hist (lin s)) init_sys = true ∧ (run ex_cfg (hist (lin s)) init_sys).1 = data s ∧
         history_ok ex_cfg (hist (lin s)) ∧ recvd_ev s `prefix_of` evs (data s).
  Proof.
    destruct (scrun ex_cfg 0 (mkCf false true) (cinit init_sys) ex_ls) as [s|] eqn:Hr; [|by vm_compute in Hr].
    assert (faithful_reads ex_cfg 0 (mkCf false true) (cinit init_sys) ex_ls = true) as Hf by (vm_compute; reflexivity).
    exists s. split; [done|]. destruct (conc_is_sequential ex_cfg _ _ _ _ _ Hr Hf) as (Hv & _ & Hd & _).
    split_and!; [done|done|by apply (conc_history_ok ex_cfg eq_refl _ _ _ _ Hr Hf)|by eapply conc_events_are_log_prefix].
  Qed.
End Example.

Print Assumptions conc_is_sequential.
Print Assumptions reader_holds_queue_head.
Print Assumptions conc_refines_spec.
Print Assumptions conc_tables_in_step.
Print Assumptions conc_benign_no_errors.
Print Assumptions conc_log_is_spec_log.
Print Assumptions conc_paths_are_add_arguments.
Print Assumptions conc_stream.
Print Assumptions conc_events_are_log_prefix.
Print Assumptions ex_conc_run.
Print Assumptions ex_conc_sequential.
